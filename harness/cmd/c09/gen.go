package main

// Typed random MPCL program generator for C09.  Everything derives from the
// per-case Rng.  A program is kept as a small AST so that it can be rendered
// a second time with every division/modulo operator replaced (used to
// attribute a Yao-vs-GMW mismatch to the divider builders or to something
// else).

import (
	"fmt"
	"strings"

	"verifharness/hxlib"
)

type expr struct {
	op   string // "" = leaf; unary: "-", "^", "!"; "cast"; "paren" not needed (always parenthesised)
	leaf string
	l, r *expr
}

func (e *expr) render(sb *strings.Builder, noDiv bool) {
	switch {
	case e.op == "":
		sb.WriteString(e.leaf)
	case e.op == "cast":
		sb.WriteString(e.leaf)
		sb.WriteByte('(')
		e.l.render(sb, noDiv)
		sb.WriteByte(')')
	case e.r == nil:
		sb.WriteString(e.op)
		sb.WriteByte('(')
		e.l.render(sb, noDiv)
		sb.WriteByte(')')
	default:
		op := e.op
		if noDiv {
			if op == "/" {
				op = "&"
			} else if op == "%" {
				op = "|"
			}
		}
		sb.WriteByte('(')
		e.l.render(sb, noDiv)
		sb.WriteByte(' ')
		sb.WriteString(op)
		sb.WriteByte(' ')
		e.r.render(sb, noDiv)
		sb.WriteByte(')')
	}
}

// constOnly: no argument or variable occurs in e.
func (e *expr) constOnly() bool {
	if e == nil {
		return true
	}
	if e.op == "" {
		return len(e.leaf) > 0 && e.leaf[0] >= '0' && e.leaf[0] <= '9'
	}
	return e.l.constOnly() && e.r.constOnly()
}

func (e *expr) hasDiv() bool {
	if e == nil {
		return false
	}
	if e.op == "/" || e.op == "%" {
		return true
	}
	return e.l.hasDiv() || e.r.hasDiv()
}

type stmt struct {
	kind string // "decl", "assign", "if", "for", "dead"
	name string
	e    *expr
	cond *expr
	thn  []*stmt
	els  []*stmt
	n    int
}

type program struct {
	rawDiv   *expr // "rawdiv" flavour: the (division-free) divisor of the returned quotient/remainder
	signed   bool
	bits     int
	bbits    int // width of argument b (cast to the main type at use)
	stmts    []*stmt
	rets     []*expr
	retTypes []string
	feats    map[string]bool
}

func (p *program) typ() string {
	if p.signed {
		return fmt.Sprintf("int%d", p.bits)
	}
	return fmt.Sprintf("uint%d", p.bits)
}

func (p *program) btyp() string {
	if p.signed {
		return fmt.Sprintf("int%d", p.bbits)
	}
	return fmt.Sprintf("uint%d", p.bbits)
}

func renderStmts(sb *strings.Builder, ss []*stmt, ind string, noDiv bool, typ string) {
	for _, s := range ss {
		switch s.kind {
		case "decl", "dead":
			fmt.Fprintf(sb, "%svar %s %s = ", ind, s.name, typ)
			s.e.render(sb, noDiv)
			sb.WriteByte('\n')
		case "assign":
			fmt.Fprintf(sb, "%s%s = ", ind, s.name)
			s.e.render(sb, noDiv)
			sb.WriteByte('\n')
		case "if":
			fmt.Fprintf(sb, "%sif ", ind)
			s.cond.render(sb, noDiv)
			sb.WriteString(" {\n")
			renderStmts(sb, s.thn, ind+"\t", noDiv, typ)
			if len(s.els) > 0 {
				fmt.Fprintf(sb, "%s} else {\n", ind)
				renderStmts(sb, s.els, ind+"\t", noDiv, typ)
			}
			fmt.Fprintf(sb, "%s}\n", ind)
		case "for":
			fmt.Fprintf(sb, "%sfor i := 0; i < %d; i++ {\n", ind, s.n)
			renderStmts(sb, s.thn, ind+"\t", noDiv, typ)
			fmt.Fprintf(sb, "%s}\n", ind)
		}
	}
}

func (p *program) source(noDiv bool) string {
	var sb strings.Builder
	sb.WriteString("package main\n\n")
	fmt.Fprintf(&sb, "func main(a %s, b %s) (%s) {\n", p.typ(), p.btyp(), strings.Join(p.retTypes, ", "))
	renderStmts(&sb, p.stmts, "\t", noDiv, p.typ())
	sb.WriteString("\treturn ")
	for i, r := range p.rets {
		if i > 0 {
			sb.WriteString(", ")
		}
		r.render(&sb, noDiv)
	}
	sb.WriteString("\n}\n")
	return sb.String()
}

// probeSource: the same statements, returning the raw divisor.
func (p *program) probeSource() string {
	if p.rawDiv == nil {
		return ""
	}
	q := *p
	q.rets = []*expr{p.rawDiv}
	q.retTypes = []string{p.typ()}
	return q.source(false)
}

func (p *program) usesDiv() bool {
	var walk func(ss []*stmt) bool
	walk = func(ss []*stmt) bool {
		for _, s := range ss {
			if s.e.hasDiv() || s.cond.hasDiv() || walk(s.thn) || walk(s.els) {
				return true
			}
		}
		return false
	}
	if walk(p.stmts) {
		return true
	}
	for _, r := range p.rets {
		if r.hasDiv() {
			return true
		}
	}
	return false
}

type gen struct {
	r      *hxlib.Rng
	p      *program
	vars   []string // assignable variables of the main type
	allowD bool     // allow / and %
	allowM bool     // allow *
	inLoop bool
}

var widths = []int{1, 2, 3, 4, 5, 6, 7, 8, 8, 9, 11, 12, 13, 16, 17, 24, 31, 32, 33, 64}

func leaf(s string) *expr { return &expr{leaf: s} }

func (g *gen) constant() *expr {
	n := g.p.bits
	var v uint64
	switch g.r.Intn(8) {
	case 0:
		v = 0
	case 1:
		v = 1
	case 2: // all ones
		if n >= 64 {
			v = ^uint64(0)
		} else {
			v = (uint64(1) << uint(n)) - 1
		}
	case 3: // power of two
		v = uint64(1) << uint(g.r.Intn(n))
	case 4:
		v = uint64(g.r.Intn(16))
	default:
		v = g.r.U64()
	}
	if n < 64 {
		v &= (uint64(1) << uint(n)) - 1
	}
	g.p.feats["const"] = true
	// literals are always explicitly typed: an operation on two untyped
	// constants is typed int32 by the compiler and then does not combine
	// with uintN/intN operands
	typed := func(v uint64) *expr {
		return &expr{op: "cast", leaf: g.p.typ(), l: leaf(fmt.Sprintf("%d", v))}
	}
	if g.p.signed {
		// keep within the positive range, sometimes negative
		if n == 1 {
			return typed(0)
		}
		v &= (uint64(1) << uint(n-1)) - 1
		if g.r.Intn(4) == 0 && v != 0 {
			return &expr{op: "-", l: typed(0), r: typed(v)}
		}
	}
	return typed(v)
}

func (g *gen) atom() *expr {
	switch k := g.r.Intn(10); {
	case k < 3:
		return leaf("a")
	case k < 5:
		if g.p.bbits == g.p.bits {
			return leaf("b")
		}
		g.p.feats["cast"] = true
		return &expr{op: "cast", leaf: g.p.typ(), l: leaf("b")}
	case k < 8 && len(g.vars) > 0:
		return leaf(g.vars[g.r.Intn(len(g.vars))])
	case k == 8 && g.inLoop:
		g.p.feats["loopvar"] = true
		return &expr{op: "cast", leaf: g.p.typ(), l: leaf("i")}
	default:
		return g.constant()
	}
}

var arithOps = []string{"+", "-", "&", "|", "^", "&^", "+", "-", "^"}

// value builds an expression of the program's main type.
func (g *gen) value(depth int) *expr {
	if depth <= 0 || g.r.Intn(5) == 0 {
		return g.atom()
	}
	switch k := g.r.Intn(20); {
	case k < 9:
		op := arithOps[g.r.Intn(len(arithOps))]
		g.p.feats[op] = true
		return &expr{op: op, l: g.value(depth - 1), r: g.value(depth - 1)}
	case k < 11 && g.allowM:
		g.p.feats["*"] = true
		return &expr{op: "*", l: g.value(depth - 1), r: g.value(depth - 1)}
	case k < 13 && g.allowD:
		op := []string{"/", "%"}[g.r.Intn(2)]
		g.p.feats[op] = true
		// the divisor is made non-zero (d | 1): a/0 has no defined meaning in
		// MPCL and the two targets' dividers return different values for it;
		// raw divisors are exercised by the dedicated "rawdiv" flavour, which
		// comes with a probe program that exposes the divisor
		d := &expr{op: "|", l: g.value(depth - 1), r: &expr{op: "cast", leaf: g.p.typ(), l: leaf("1")}}
		return &expr{op: op, l: g.value(depth - 1), r: d}
	case k < 15:
		op := []string{"<<", ">>"}[g.r.Intn(2)]
		g.p.feats[op] = true
		cnt := g.r.Intn(g.p.bits + 2)
		if g.r.Intn(3) == 0 {
			cnt = g.r.Intn(3)
		}
		x := g.value(depth - 1)
		if x.constOnly() {
			// a shifted constant is re-typed (widened) by the compiler
			x = &expr{op: "^", l: leaf("a"), r: x}
		}
		return &expr{op: op, l: x, r: leaf(fmt.Sprintf("%d", cnt))}
	case k < 18:
		// algebraic identities that constant propagation / XOR-zero /
		// pruning act on
		x := g.value(depth - 1)
		g.p.feats["identity"] = true
		leaf := func(v string) *expr { return &expr{op: "cast", leaf: g.p.typ(), l: &expr{leaf: v}} }
		switch g.r.Intn(9) {
		case 0:
			return &expr{op: "^", l: x, r: leaf("0")}
		case 1:
			return &expr{op: "|", l: x, r: leaf("0")}
		case 2:
			return &expr{op: "&", l: x, r: leaf("0")}
		case 3:
			return &expr{op: "+", l: x, r: leaf("0")}
		case 4:
			if g.allowM {
				return &expr{op: "*", l: x, r: leaf("1")}
			}
			return &expr{op: "-", l: x, r: leaf("0")}
		case 5:
			if g.allowM {
				return &expr{op: "*", l: x, r: leaf("0")}
			}
			return &expr{op: "&", l: leaf("0"), r: x}
		case 6:
			return &expr{op: "-", l: x, r: x}
		case 7:
			return &expr{op: "^", l: x, r: x}
		default:
			return &expr{op: "^", l: leaf("0"), r: x}
		}
	default:
		if g.p.signed {
			return &expr{op: "-", l: &expr{op: "cast", leaf: g.p.typ(), l: leaf("0")}, r: g.value(depth - 1)}
		}
		// bitwise complement (unary ^ is not implemented by the compiler)
		ones := ^uint64(0)
		if g.p.bits < 64 {
			ones = (uint64(1) << uint(g.p.bits)) - 1
		}
		return &expr{op: "^", l: g.value(depth - 1), r: &expr{op: "cast", leaf: g.p.typ(), l: leaf(fmt.Sprintf("%d", ones))}}
	}
}

var cmpOps = []string{"<", "<=", ">", ">=", "==", "!="}

func (g *gen) cond(depth int) *expr {
	if depth > 0 && g.r.Intn(3) == 0 {
		switch g.r.Intn(3) {
		case 0:
			g.p.feats["&&"] = true
			return &expr{op: "&&", l: g.cond(depth - 1), r: g.cond(depth - 1)}
		case 1:
			g.p.feats["||"] = true
			return &expr{op: "||", l: g.cond(depth - 1), r: g.cond(depth - 1)}
		default:
			g.p.feats["!"] = true
			return &expr{op: "!", l: g.cond(depth - 1)}
		}
	}
	op := cmpOps[g.r.Intn(len(cmpOps))]
	g.p.feats["cmp"] = true
	return &expr{op: op, l: g.value(1), r: g.value(1)}
}

func (g *gen) block(n, depth int, allowNest bool) []*stmt {
	var ss []*stmt
	for i := 0; i < n; i++ {
		switch k := g.r.Intn(10); {
		case k < 4 || len(g.vars) == 0:
			if depth == 0 { // declarations only at top level
				name := fmt.Sprintf("v%d", len(g.vars))
				ss = append(ss, &stmt{kind: "decl", name: name, e: g.value(2)})
				g.vars = append(g.vars, name)
			} else if len(g.vars) > 0 {
				ss = append(ss, &stmt{kind: "assign", name: g.vars[g.r.Intn(len(g.vars))], e: g.value(2)})
			}
		case k < 6:
			ss = append(ss, &stmt{kind: "assign", name: g.vars[g.r.Intn(len(g.vars))], e: g.value(2)})
		case k < 8 && allowNest:
			g.p.feats["if"] = true
			s := &stmt{kind: "if", cond: g.cond(1)}
			s.thn = g.block(1+g.r.Intn(2), depth+1, false)
			if g.r.Bool() {
				s.els = g.block(1+g.r.Intn(2), depth+1, false)
			}
			ss = append(ss, s)
		case k < 9 && allowNest:
			g.p.feats["for"] = true
			s := &stmt{kind: "for", n: 1 + g.r.Intn(4)}
			old := g.inLoop
			g.inLoop = true
			s.thn = g.block(1+g.r.Intn(2), depth+1, false)
			g.inLoop = old
			ss = append(ss, s)
		default:
			// dead code: computed, never used (never added to vars)
			if depth == 0 {
				g.p.feats["dead"] = true
				ss = append(ss, &stmt{kind: "dead", name: fmt.Sprintf("d%d_%d", depth, len(ss)), e: g.value(2)})
			}
		}
	}
	return ss
}

// genProgram builds one random program.  flavour steers size and operator
// mix so that every tier sees small exhaustive programs, multiplication
// (threshold sensitive), division (target sensitive) and wide types.
func genProgram(r *hxlib.Rng, flavour int) *program {
	p := &program{feats: map[string]bool{}}
	p.signed = r.Intn(3) == 0
	g := &gen{r: r, p: p}
	switch flavour % 6 {
	case 0: // tiny, exhaustive, no mult/div
		p.bits = 1 + r.Intn(8)
	case 1: // exhaustive with multiplication
		p.bits = 2 + r.Intn(7)
		g.allowM = true
	case 2: // exhaustive with division
		p.bits = 2 + r.Intn(7)
		g.allowD = true
		g.allowM = r.Bool()
	case 3: // wider types, multiplication around the Karatsuba thresholds
		p.bits = []int{9, 11, 13, 16, 17, 21, 22, 24, 32, 33, 40}[r.Intn(11)]
		g.allowM = true
	case 4: // arbitrary width from the table, no division
		p.bits = widths[r.Intn(len(widths))]
		g.allowM = r.Bool()
	default: // everything, narrow
		p.bits = 2 + r.Intn(7)
		g.allowM = true
		g.allowD = true
	}
	if p.signed && p.bits < 2 {
		p.bits = 2
	}
	p.bbits = p.bits
	if r.Intn(4) == 0 {
		p.bbits = 1 + r.Intn(p.bits)
		if p.signed && p.bbits < 2 {
			p.bbits = 2
		}
	}
	nst := 2 + r.Intn(5)
	if flavour%6 == 3 {
		nst = 1 + r.Intn(3)
	}
	raw := flavour%12 == 8
	if raw {
		// raw division: division-free statements, then a / d and a % d of one
		// division-free divisor d (which may be zero)
		g.allowD = false
	}
	p.stmts = g.block(nst, 0, true)
	nret := 1 + r.Intn(2)
	if raw {
		p.rawDiv = g.value(1)
		if p.rawDiv.constOnly() {
			p.rawDiv = leaf("b")
			if p.bbits != p.bits {
				p.rawDiv = &expr{op: "cast", leaf: p.typ(), l: leaf("b")}
			}
		}
		p.feats["rawdiv"] = true
		p.rets = []*expr{{op: "/", l: g.value(1), r: p.rawDiv}, {op: "%", l: g.value(1), r: p.rawDiv}}
		p.retTypes = []string{p.typ(), p.typ()}
		nret = 0
	}
	for i := 0; i < nret; i++ {
		if r.Intn(4) == 0 {
			p.rets = append(p.rets, g.cond(1))
			p.retTypes = append(p.retTypes, "bool")
		} else {
			var e *expr
			if len(g.vars) > 0 && r.Intn(3) > 0 {
				e = &expr{op: "^", l: leaf(g.vars[len(g.vars)-1]), r: g.value(1)}
				if r.Bool() {
					e = leaf(g.vars[len(g.vars)-1])
				}
			} else {
				e = g.value(2)
			}
			p.rets = append(p.rets, e)
			p.retTypes = append(p.retTypes, p.typ())
		}
	}
	return p
}

// Fixed hand-written corpus: programs for which the proved checker is
// expected to validate raw -> prune-off -> prune-on (a regression of that is
// reported as a broken obligation).
var fixedCorpus = []struct{ name, src string }{
	{"xor-zero-chain", `package main
func main(a, b uint8) uint8 {
	c := a ^ 0
	d := c | 0
	e := (d + 0) ^ 0
	return e & 255
}
`},
	{"dead-code", `package main
func main(a, b uint6) (uint6, bool) {
	x := a * b
	y := a + b
	unused := x - y
	if a > b {
		y = y - 1
	}
	return y, a == b
}
`},
	{"const-fold", `package main
func main(a, b int7) int7 {
	var k int7 = 5
	m := k & 3
	n := (a & 0) | m
	return n + (b ^ b) + a
}
`},
	{"shift-mux", `package main
func main(a, b uint9) uint9 {
	var r uint9 = a << 3
	if b >= 17 {
		r = (a >> 2) | 1
	} else {
		r = r &^ b
	}
	for i := 0; i < 3; i++ {
		r = r + uint9(i)
	}
	return r
}
`},
	{"mult-sub", `package main
func main(a, b uint10) uint10 {
	return a*b - (a+1)*3
}
`},
	{"cmp-only", `package main
func main(a, b int5) (bool, bool, bool) {
	return a < b, a >= 0 && b != 3, !(a == b) || a <= -2
}
`},
	{"div-small", `package main
func main(a, b uint5) (uint5, uint5) {
	return a / b, a % b
}
`},
	{"udiv2", `package main
func main(a, b uint2) uint2 { return a / b }
`},
	{"udiv7", `package main
func main(a, b uint7) (uint7, uint7) {
	return a / b, a % b
}
`},
	{"mod-const", `package main
func main(a, b int8) int8 {
	return (a + 1) % 3
}
`},
	{"udiv-const-operand", `package main
func main(a uint2, b uint2) (uint2, uint2) {
	var v0 uint2 = ((uint2(0) - uint2(0)) % (a / uint2(3)))
	return (v0 ^ (b ^ a)), (v0 - (a - v0))
}
`},
	{"sdiv-const-narrow", `package main
func main(a, b int2) int2 { return a / int3(1) }
`},
	{"sdiv-small", `package main
func main(a, b int5) (int5, int5) {
	return a / b, a % b
}
`},
}

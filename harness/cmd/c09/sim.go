package main

// Bit-parallel simulation (64 input vectors per pass) and the untrusted
// witness search (hash-consing mirror of lean/MpcVerif/Model/Equiv.lean).

import (
	"fmt"
	"strings"

	"github.com/markkurossi/mpc/circuit"

	"verifharness/hxlib"
)

// simPass evaluates c on 64 input vectors at once; in[i] holds the 64 values
// of input wire i.  Returns the words of the last nOut wires.  The harness's
// own evaluator (not circuit.Compute), which is compared with Compute and
// with the Lean model on sampled vectors through the op lines.
func simPass(c *circuit.Circuit, in []uint64, scratch []uint64) []uint64 {
	w := scratch[:c.NumWires]
	for i := range w {
		w[i] = 0
	}
	copy(w, in)
	for i := range c.Gates {
		g := &c.Gates[i]
		a := w[g.Input0]
		switch g.Op {
		case circuit.XOR:
			w[g.Output] = a ^ w[g.Input1]
		case circuit.XNOR:
			w[g.Output] = ^(a ^ w[g.Input1])
		case circuit.AND:
			w[g.Output] = a & w[g.Input1]
		case circuit.OR:
			w[g.Output] = a | w[g.Input1]
		case circuit.INV:
			w[g.Output] = ^a
		}
	}
	nout := c.Outputs.Size()
	return w[c.NumWires-nout:]
}

// inputWords fills the input words of pass p.  Exhaustive mode enumerates
// vector index v = p*64+lane, input bit i = bit i of v.  Random mode: pass 0
// holds corner vectors (all zero, all one, single bits, per-argument
// extremes), later passes are random with varying densities.
func inputWords(r *hxlib.Rng, nin int, sizes []int, exhaustive bool, p int, in []uint64) {
	if exhaustive {
		for i := 0; i < nin; i++ {
			var wd uint64
			for lane := 0; lane < 64; lane++ {
				v := uint64(p)*64 + uint64(lane)
				if (v>>uint(i))&1 == 1 {
					wd |= 1 << uint(lane)
				}
			}
			in[i] = wd
		}
		return
	}
	if p == 0 {
		for i := 0; i < nin; i++ {
			in[i] = 0
		}
		// lane 0: zeros; lane 1: ones; lanes 2..: single bits / per-arg patterns
		for i := 0; i < nin; i++ {
			in[i] |= 1 << 1
			lane := 2 + i%30
			in[i] |= 1 << uint(lane)
		}
		ofs := 0
		for ai, sz := range sizes {
			for b := 0; b < sz; b++ {
				// lane 32+ai: this argument all ones, others zero
				in[ofs+b] |= 1 << uint(32+ai%8)
				// lane 40+ai: only top bit; lane 48+ai: all but top bit
				if b == sz-1 {
					in[ofs+b] |= 1 << uint(40+ai%8)
				} else {
					in[ofs+b] |= 1 << uint(48+ai%8)
				}
				// lane 56..63: random
				in[ofs+b] |= r.U64() & 0xff00000000000000
			}
			ofs += sz
		}
		return
	}
	for i := 0; i < nin; i++ {
		x := r.U64()
		switch p % 4 {
		case 1:
			x &= r.U64() // sparse
		case 2:
			x |= r.U64() // dense
		}
		in[i] = x
	}
}

func laneBits(in []uint64, lane int) []bool {
	x := make([]bool, len(in))
	for i := range in {
		x[i] = (in[i]>>uint(lane))&1 == 1
	}
	return x
}

func firstDiffLane(a, b []uint64) int {
	for i := range a {
		if d := a[i] ^ b[i]; d != 0 {
			for lane := 0; lane < 64; lane++ {
				if (d>>uint(lane))&1 == 1 {
					return lane
				}
			}
		}
	}
	return -1
}

// ---------------------------------------------------------------- witness

type absVal struct {
	isCopy bool
	w      int
	b      bool // const: value; copy: negated
}

func (a absVal) neg(n bool) absVal { a.b = a.b != n; return a }

func absXor(A, B absVal, n bool) (absVal, bool) {
	if !A.isCopy {
		return B.neg(A.b != n), true
	}
	if !B.isCopy {
		return A.neg(B.b != n), true
	}
	if A.w == B.w {
		return absVal{b: (A.b != B.b) != n}, true
	}
	return absVal{}, false
}

func absAnd(A, B absVal) (absVal, bool) {
	if !A.isCopy {
		if A.b {
			return B, true
		}
		return absVal{}, true
	}
	if !B.isCopy {
		if B.b {
			return A, true
		}
		return absVal{}, true
	}
	if A.w == B.w {
		if A.b == B.b {
			return A, true
		}
		return absVal{}, true
	}
	return absVal{}, false
}

func absOp(op circuit.Operation, A, B absVal) (absVal, bool) {
	switch op {
	case circuit.INV:
		return A.neg(true), true
	case circuit.XOR:
		return absXor(A, B, false)
	case circuit.XNOR:
		return absXor(A, B, true)
	case circuit.AND:
		return absAnd(A, B)
	case circuit.OR:
		v, ok := absAnd(A.neg(true), B.neg(true))
		if !ok {
			return v, false
		}
		return v.neg(true), true
	}
	return absVal{}, false
}

type hkey struct {
	op   circuit.Operation
	a, b absVal
}

func mkKey(op circuit.Operation, A, B absVal) hkey {
	less := func(x, y absVal) bool {
		if x.isCopy != y.isCopy {
			return !x.isCopy
		}
		if x.w != y.w {
			return x.w < y.w
		}
		return !x.b && y.b
	}
	if less(B, A) {
		A, B = B, A
	}
	return hkey{op, A, B}
}

type refInfo struct {
	abs   []absVal
	table map[hkey]int
	wit   []int
}

// witnessSelf runs the abstract interpretation on the reference circuit and
// hash-conses structurally equal gates.
func witnessSelf(c *circuit.Circuit) *refInfo {
	ri := &refInfo{abs: make([]absVal, c.NumWires), table: make(map[hkey]int, len(c.Gates)), wit: make([]int, len(c.Gates))}
	for i := 0; i < c.Inputs.Size(); i++ {
		ri.abs[i] = absVal{isCopy: true, w: i}
	}
	for j := range c.Gates {
		g := &c.Gates[j]
		A := ri.abs[g.Input0]
		var B absVal
		if g.Op != circuit.INV {
			B = ri.abs[g.Input1]
		}
		if v, ok := absOp(g.Op, A, B); ok {
			ri.abs[g.Output] = v
			continue
		}
		k := mkKey(g.Op, A, B)
		if idx, ok := ri.table[k]; ok {
			ri.wit[j] = idx + 1
			ri.abs[g.Output] = ri.abs[c.Gates[idx].Output]
		} else {
			ri.table[k] = j
			ri.abs[g.Output] = absVal{isCopy: true, w: int(g.Output)}
		}
	}
	return ri
}

// witnessOther interprets c2 over the wires of the reference circuit and
// looks every undecided gate up in the reference's hash table.  Returns the
// witness and the number of gates for which no match was found.
func witnessOther(ref *circuit.Circuit, ri *refInfo, c2 *circuit.Circuit) ([]int, int) {
	m := make([]absVal, c2.NumWires)
	for i := 0; i < c2.Inputs.Size(); i++ {
		m[i] = absVal{isCopy: true, w: i}
	}
	wit := make([]int, len(c2.Gates))
	missing := 0
	for j := range c2.Gates {
		g := &c2.Gates[j]
		A := m[g.Input0]
		var B absVal
		if g.Op != circuit.INV {
			B = m[g.Input1]
		}
		if v, ok := absOp(g.Op, A, B); ok {
			m[g.Output] = v
			continue
		}
		if idx, ok := ri.table[mkKey(g.Op, A, B)]; ok {
			wit[j] = idx + 1
			m[g.Output] = ri.abs[ref.Gates[idx].Output]
		} else {
			missing++
			m[g.Output] = absVal{isCopy: true, w: -1 - j} // poison
		}
	}
	return wit, missing
}

func intsString(v []int) string {
	if len(v) == 0 {
		return "-"
	}
	var sb strings.Builder
	for i, x := range v {
		if i > 0 {
			sb.WriteByte(',')
		}
		fmt.Fprintf(&sb, "%d", x)
	}
	return sb.String()
}

package main

// C09 harness: compiles MPCL programs with the REAL compiler under every
// configuration of the property's quantifier (prune on/off x multiplier
// threshold x Yao/GMW), and
//
//   - emits `pair` op lines (two circuits + untrusted witness + sample
//     inputs) for the Lean checker `checkRefines` (proved sound): raw ->
//     prune-off -> prune-on per target, prune-off -> prune-on per threshold;
//   - simulates all configurations bit-parallel against the base
//     configuration (implementation-side oracle; exhaustive when the program
//     has <= 16 input bits) and reports every concrete differing input;
//   - emits `lvl` / `sort` op lines tying the Lean models of AssignLevels, of
//     Compile's level sort and of the GMW schedule to the real code;
//   - emits a `topo` op line for every distinct real compiled circuit: the
//     proved Lean checker absRun must agree with the harness that it is
//     single-assignment and topologically ordered.
//
// Modes: `equiv` (corpus + multiplier width sweep + generated programs),
// `extreme` (extreme-shape programs, extreme.go), `divs` (division sweep with
// structured division operands, divsweep.go), `replay <file>` (one
// recorded failing case), `probe` / `dump` (debugging aids).

import (
	"encoding/json"
	"fmt"
	"io"
	"math/big"
	"os"
	"path/filepath"
	"regexp"
	"runtime/debug"
	"runtime/pprof"
	"sort"
	"strings"
	"time"

	"github.com/markkurossi/mpc/circuit"
	"github.com/markkurossi/mpc/compiler"
	"github.com/markkurossi/mpc/compiler/circuits"
	"github.com/markkurossi/mpc/compiler/utils"

	"verifharness/hxlib"
)

type config struct {
	name  string
	prune bool
	tgt   utils.Target
	thr   int
}

func (c config) params() *utils.Params {
	p := utils.NewParams()
	p.OptPruneGates = c.prune
	p.Target = c.tgt
	p.CircMultArrayTreshold = c.thr
	p.Warn.DisableAll()
	return p
}

var thresholds = []int{0, 8, 9, 21, 64}

func allConfigs() []config {
	var cs []config
	for _, thr := range thresholds {
		for _, prune := range []bool{false, true} {
			cs = append(cs, config{fmt.Sprintf("yao-thr%d-prune%v", thr, b2i(prune)), prune, utils.TargetYao, thr})
		}
	}
	for _, prune := range []bool{false, true} {
		cs = append(cs, config{fmt.Sprintf("gmw-prune%v", b2i(prune)), prune, utils.TargetGMW, 0})
	}
	return cs
}

func b2i(b bool) int {
	if b {
		return 1
	}
	return 0
}

type compiled struct {
	circ *circuit.Circuit
	err  string
}

// compileReal runs the real compiler API exactly as apps/garbled does.
func compileReal(src string, c config) (res compiled) {
	defer func() {
		if e := recover(); e != nil {
			res = compiled{err: "panic: " + clip(fmt.Sprint(e), 200)}
			// where: the innermost compiler/circuits builder on the stack
			if m := reBuilderFrame.FindStringSubmatch(string(debug.Stack())); m != nil {
				res.err += " [in " + m[1] + "]"
			}
		}
	}()
	circ, _, err := compiler.New(c.params()).Compile(src, nil)
	if err != nil {
		return compiled{err: "error: " + clip(err.Error(), 200)}
	}
	return compiled{circ: circ}
}

type staged struct {
	dumps  [4]string // builder graph: raw, after ConstPropagate, after ShortCircuitXORZero, after Prune
	circ   *circuit.Circuit
	levels []int // Compile's breadth-first Level of every compiled gate, in compiled order
	err    string
}

// compileStaged replays ssa.Program.CompileCircuit by hand with only the
// first `passes` optimisation passes (0 = none ... 3 = ConstPropagate,
// ShortCircuitXORZero, Prune) using exported API only.
func compileStaged(src string, tgt utils.Target, passes int, wantDumps bool) (res staged) {
	defer func() {
		if e := recover(); e != nil {
			res = staged{err: "panic: " + clip(fmt.Sprint(e), 200)}
		}
	}()
	p := config{prune: passes >= 3, tgt: tgt}.params()
	prog, _, err := compiler.New(p).CompileSSA("{data}", strings.NewReader(src), nil)
	if err != nil {
		return staged{err: "error: " + clip(err.Error(), 200)}
	}
	calloc := circuits.NewAllocator()
	cc, err := circuits.NewCompiler(p, calloc, prog.Inputs, prog.Outputs, prog.InputWires, prog.OutputWires)
	if err != nil {
		return staged{err: "error: " + err.Error()}
	}
	if err := prog.DefineConstants(cc.ZeroWire(), cc.OneWire()); err != nil {
		return staged{err: "error: " + err.Error()}
	}
	if err := prog.Circuit(cc); err != nil {
		return staged{err: "error: " + clip(err.Error(), 200)}
	}
	var dumps [4]string
	gates0 := append([]*circuits.Gate(nil), cc.Gates...)
	wantDumps = wantDumps && len(gates0) <= maxDumpGates
	if wantDumps {
		dumps[0] = dumpGraph(cc, gates0)
	}
	if passes >= 1 {
		cc.ConstPropagate()
		if wantDumps {
			dumps[1] = dumpGraph(cc, gates0)
		}
	}
	if passes >= 2 {
		cc.ShortCircuitXORZero()
		if wantDumps {
			dumps[2] = dumpGraph(cc, gates0)
		}
	}
	if passes >= 3 {
		cc.Prune()
		if wantDumps {
			dumps[3] = dumpGraph(cc, gates0)
		}
	}
	circ := cc.Compile()
	lvByOut := make(map[circuit.Wire]int, len(circ.Gates))
	for _, g := range cc.Gates {
		if g.Compiled {
			lvByOut[g.O.ID()] = int(g.Level)
		}
	}
	lv := make([]int, len(circ.Gates))
	for i, g := range circ.Gates {
		l, ok := lvByOut[g.Output]
		if !ok {
			l = -1
		}
		lv[i] = l
	}
	return staged{circ: circ, levels: lv, dumps: dumps}
}

// graphs above this size are not dumped for the pass-model tie
var maxDumpGates = 12000

func clip(s string, n int) string {
	if len(s) > n {
		return s[:n] + "..."
	}
	return s
}

// wellFormed: single assignment, topological, all ids in range, inputs never
// overwritten, output wires defined.
func wellFormed(c *circuit.Circuit) string {
	def := make([]bool, c.NumWires)
	nin := c.Inputs.Size()
	if nin > c.NumWires || c.Outputs.Size() > c.NumWires {
		return "io larger than NumWires"
	}
	for i := 0; i < nin; i++ {
		def[i] = true
	}
	for i, g := range c.Gates {
		if int(g.Input0) >= c.NumWires || int(g.Output) >= c.NumWires || (g.Op != circuit.INV && int(g.Input1) >= c.NumWires) {
			return fmt.Sprintf("gate %d: wire out of range", i)
		}
		if !def[g.Input0] || (g.Op != circuit.INV && !def[g.Input1]) {
			return fmt.Sprintf("gate %d reads an undefined wire", i)
		}
		if def[g.Output] {
			return fmt.Sprintf("gate %d overwrites wire %d", i, g.Output)
		}
		def[g.Output] = true
	}
	return ""
}

// sameCircuit: the two compiled circuits are identical (what comparing their
// rendered lines decides, without rendering them).
func sameCircuit(a, b *circuit.Circuit) bool {
	if a.NumWires != b.NumWires || len(a.Gates) != len(b.Gates) || a.Inputs.Size() != b.Inputs.Size() ||
		a.Outputs.Size() != b.Outputs.Size() {
		return false
	}
	for i := range a.Gates {
		g, h := &a.Gates[i], &b.Gates[i]
		if g.Op != h.Op || g.Input0 != h.Input0 || g.Output != h.Output || (g.Op != circuit.INV && g.Input1 != h.Input1) {
			return false
		}
	}
	return true
}

// wiresInRange: every wire id of every gate is below NumWires (the
// simulation can run on the circuit whatever the gate order).
func wiresInRange(c *circuit.Circuit) bool {
	if c.Inputs.Size() > c.NumWires || c.Outputs.Size() > c.NumWires {
		return false
	}
	for _, g := range c.Gates {
		if int(g.Input0) >= c.NumWires || int(g.Output) >= c.NumWires || (g.Op != circuit.INV && int(g.Input1) >= c.NumWires) {
			return false
		}
	}
	return true
}

// undefinedOutputs counts output wires that no gate writes (and that are not
// inputs): Compute reads them as 0.
func undefinedOutputs(c *circuit.Circuit) int {
	def := make([]bool, c.NumWires)
	for i := 0; i < c.Inputs.Size(); i++ {
		def[i] = true
	}
	for _, g := range c.Gates {
		def[g.Output] = true
	}
	n := 0
	for i := 0; i < c.Outputs.Size(); i++ {
		if !def[c.NumWires-c.Outputs.Size()+i] {
			n++
		}
	}
	return n
}

// argSizes flattens compound (struct) arguments exactly as Compute does.
func argSizes(io circuit.IO) []int {
	var s []int
	for _, a := range io {
		if len(a.Compound) > 0 {
			for _, f := range a.Compound {
				s = append(s, int(f.Type.Bits))
			}
		} else {
			s = append(s, int(a.Type.Bits))
		}
	}
	return s
}

func splitArgs(x []bool, sizes []int) []*big.Int {
	var res []*big.Int
	ofs := 0
	for _, sz := range sizes {
		v := new(big.Int)
		for b := 0; b < sz; b++ {
			if x[ofs+b] {
				v.SetBit(v, b, 1)
			}
		}
		res = append(res, v)
		ofs += sz
	}
	return res
}

func argsString(x []bool, sizes []int) string {
	var parts []string
	for _, v := range splitArgs(x, sizes) {
		parts = append(parts, v.String())
	}
	return strings.Join(parts, ",")
}

// realCompute runs circuit.Circuit.Compute (the library evaluator).
func realCompute(c *circuit.Circuit, x []bool) (s string) {
	defer func() {
		if e := recover(); e != nil {
			s = "panic"
		}
	}()
	outs, err := c.Compute(splitArgs(x, argSizes(c.Inputs)))
	if err != nil {
		return "error"
	}
	var bits []bool
	for k, io := range c.Outputs {
		for b := 0; b < int(io.Type.Bits); b++ {
			bits = append(bits, outs[k].Bit(b) == 1)
		}
	}
	return hxlib.BitsString(bits)
}

type progCase struct {
	name     string
	src      string
	corpus   bool // fixed corpus: checker must validate
	gen      *program
	usesDiv  bool
	probeSrc string // program with the same inputs that returns the divisor(s) of the raw divisions ("" = none known)
	usesMult bool
	rngID    int    // selects the program's input-vector stream (0 = by position in the case list)
	extreme  *xprog // extreme-shape program (extreme.go): reduced configuration set, correlated input vectors
	wideDiv  bool     // generated program with division at a width that is not enumerated (divsweep.go): reduced configuration set
	div      *divSpec // division-sweep program (divsweep.go): reduced configuration set, meaning oracle, `div` op line
}

var reBuilderFrame = regexp.MustCompile(`compiler/circuits\.(New[A-Za-z]+)\(`)

// probes of the fixed corpus: the divisor of every division with a possibly
// zero divisor
var fixedProbes = map[string]string{
	"div-small":          "package main\nfunc main(a, b uint5) uint5 { return b }\n",
	"sdiv-small":         "package main\nfunc main(a, b int5) int5 { return b }\n",
	"udiv7":              "package main\nfunc main(a, b uint7) uint7 { return b }\n",
	"udiv2":              "package main\nfunc main(a, b uint2) uint2 { return b }\n",
	"udiv-const-operand": "package main\nfunc main(a uint2, b uint2) uint2 { return a / uint2(3) }\n",
}

var reSimpleDiv = regexp.MustCompile(`return a [/%] b\b`)

var reDivOp = regexp.MustCompile(`[/%]`)
var reComment = regexp.MustCompile(`(?m)//.*$`)

func textUsesDiv(src string) bool {
	return reDivOp.MatchString(reComment.ReplaceAllString(src, ""))
}

func loadRepoCorpus(tier string) []progCase {
	repo := os.Getenv("MPCLDIR")
	if repo == "" {
		repo = "/repo"
	}
	files := []string{
		"apps/garbled/examples/millionaire.mpcl", "apps/garbled/examples/add.mpcl",
		"apps/garbled/examples/and.mpcl", "apps/garbled/examples/sub.mpcl",
		"apps/garbled/examples/hamming.mpcl", "apps/garbled/examples/credit.mpcl",
		"apps/garbled/examples/rps.mpcl",
	}
	if tier == "thorough" {
		files = append(files, "apps/garbled/examples/sort.mpcl", "apps/garbled/examples/div.mpcl",
			"apps/garbled/examples/montgomery.mpcl", "apps/garbled/examples/3party.mpcl",
			"testsuite/math/add.mpcl", "testsuite/bytes/compare.mpcl")
		lang, _ := filepath.Glob(filepath.Join(repo, "testsuite/lang/*.mpcl"))
		sort.Strings(lang)
		for _, f := range lang {
			rel, _ := filepath.Rel(repo, f)
			files = append(files, rel)
		}
	} else {
		for _, f := range []string{"for", "divu", "modi", "mult", "named_return2", "ptr_scopes", "array", "test_ge",
			"lshift1", "rshift1", "sub", "const_mod"} {
			files = append(files, "testsuite/lang/"+f+".mpcl")
		}
	}
	var res []progCase
	for _, f := range files {
		b, err := os.ReadFile(filepath.Join(repo, f))
		if err != nil {
			continue
		}
		probe := ""
		if reSimpleDiv.MatchString(string(b)) && strings.Count(reComment.ReplaceAllString(string(b), ""), "return") == 1 {
			probe = reSimpleDiv.ReplaceAllString(string(b), "return b")
		}
		res = append(res, progCase{name: "repo:" + f, src: string(b), probeSrc: probe, usesDiv: textUsesDiv(string(b)),
			usesMult: strings.Contains(reComment.ReplaceAllString(string(b), ""), "*")})
	}
	return res
}

type limits struct {
	maxGatesSim   int // circuits above are not simulated
	maxGatesPair  int // |C|+|C'| above: no checker op line
	maxGatesLevel int
	randPasses    int
	simBudget     int  // gate evaluations (x64 lanes) per program
	maxGatesTopo  int  // circuits above: no `topo` op line (Lean absRun on the real compiled circuit)
	maxInputsPair int  // programs with more input bits: no checker op line
	skipRawStages bool // no staged compilation without passes / with ConstPropagate only (extreme programs, quick tier)
	topoBaseGMW   bool // `topo` ops for the base configuration and the GMW configurations only
	divBudget     int    // gate evaluations (x64 lanes) for the structured division vectors of one program (0 = none)
	tier          string
}

func main() {
	if pf := os.Getenv("C09_CPUPROFILE"); pf != "" {
		if f, err := os.Create(pf); err == nil {
			pprof.StartCPUProfile(f)
			defer pprof.StopCPUProfile()
		}
	}
	if len(os.Args) < 2 {
		fmt.Fprintln(os.Stderr, "usage: c09 equiv|extreme|divs [flags] | c09 replay <replay.json> | c09 probe <file.mpcl>...")
		os.Exit(2)
	}
	switch os.Args[1] {
	case "equiv":
		os.Exit(equiv(os.Args[2:]))
	case "extreme":
		os.Exit(extreme(os.Args[2:]))
	case "divs":
		rc := divs(os.Args[2:])
		pprof.StopCPUProfile()
		os.Exit(rc)
	case "replay":
		os.Exit(replay(os.Args[2:]))
	case "probe":
		// debugging aid: compile time and shape of program files
		devnull, _ := os.OpenFile(os.DevNull, os.O_WRONLY, 0)
		os.Stdout = devnull
		for _, f := range os.Args[2:] {
			probeFile(f)
		}
	case "dump":
		// debugging aid: print generated programs and their compile outcome
		cf, o := hxlib.ParseCommon("c09", os.Args[2:], nil)
		rng := hxlib.NewRng(cf.Seed)
		for i := 0; i < cf.N; i++ {
			p := genProgram(rng.Fork(), i)
			res := compileReal(p.source(false), allConfigs()[0])
			fmt.Fprintf(os.Stderr, "---- gen:%d err=%q\n%s", i, res.err, p.source(false))
		}
		o.Close()
	default:
		fmt.Fprintf(os.Stderr, "unknown mode %q\n", os.Args[1])
		os.Exit(2)
	}
}

func equiv(args []string) int {
	cf, o := hxlib.ParseCommon("c09", args, nil)
	defer o.Close()
	// the compiler logs to stdout; keep ours clean
	devnull, _ := os.OpenFile(os.DevNull, os.O_WRONLY, 0)
	if devnull != nil {
		os.Stdout = devnull
	}
	rng := hxlib.NewRng(cf.Seed)
	lim := limits{maxGatesSim: 150000, maxGatesPair: 60000, maxGatesLevel: 12000, randPasses: 4, simBudget: 150e6,
		maxGatesTopo: 150000, maxInputsPair: 1 << 20, divBudget: 300e6, tier: cf.Tier}
	if cf.Tier == "thorough" {
		lim = limits{maxGatesSim: 2500000, maxGatesPair: 400000, maxGatesLevel: 40000, randPasses: 16, simBudget: 3e9,
			maxGatesTopo: 2500000, maxInputsPair: 1 << 20, divBudget: 6e9, tier: cf.Tier}
	}
	var cases []progCase
	if strings.HasPrefix(cf.Extra, "file:") {
		// debugging / replay aid: one program from a file
		b, err := os.ReadFile(cf.Extra[5:])
		if err != nil {
			fmt.Fprintln(os.Stderr, err)
			return 2
		}
		cases = append(cases, progCase{name: "file:" + filepath.Base(cf.Extra[5:]), src: string(b), usesDiv: textUsesDiv(string(b)),
			usesMult: strings.Contains(string(b), "*")})
		cf.N = 0
	} else if cf.Extra != "nocorpus" {
		for _, fc := range fixedCorpus {
			cases = append(cases, progCase{name: "fixed:" + fc.name, src: fc.src, corpus: true, probeSrc: fixedProbes[fc.name],
				usesDiv: textUsesDiv(fc.src), usesMult: strings.Contains(fc.src, "*")})
		}
		for _, pc := range loadRepoCorpus(cf.Tier) {
			pc.corpus = true
			cases = append(cases, pc)
		}
	}
	// (the sweep runs before the generated programs - only the first 20 oracle
	// failures of a run are kept - but does not move their input streams)
	ncorpus := len(cases)
	if cf.N > 0 {
		for k, pc := range mulSweep(hxlib.NewRng(cf.Seed*0x9e3779b97f4a7c15^0x3517), cf.Tier) {
			pc.rngID = 1000000 + k
			cases = append(cases, pc)
		}
	}
	for i := 0; i < cf.N; i++ {
		r := rng.Fork()
		p := genProgram(r, i)
		cases = append(cases, progCase{name: fmt.Sprintf("gen:%d", i), src: p.source(false), gen: p, probeSrc: p.probeSource(),
			usesDiv: p.usesDiv(), usesMult: p.feats["*"], rngID: ncorpus + i})
	}
	var pairsMeta []map[string]any
	for idx, pc := range cases {
		if cf.Only >= 0 && idx != cf.Only {
			continue
		}
		id := idx
		if pc.rngID != 0 {
			id = pc.rngID
		}
		r := hxlib.NewRng(cf.Seed*1000003 + uint64(id))
		runProgram(o, r, idx, pc, lim, &pairsMeta)
	}
	o.Meta["pairs"] = pairsMeta
	return 0
}

// mulSweep: the multiplier-threshold axis of the quantifier at its width
// boundaries.  Which multiplier a multiplication gets (array, Karatsuba with
// which recursion pattern, Wallace) depends on the operand width relative to
// the threshold, and the Karatsuba split is uneven exactly for odd widths: a
// seeded sample of widths 9..72 (two thirds odd), each as a truncated product,
// a multiply-add and a full double-width product, compiled under every
// threshold and both targets like every other program.  (Its own generator
// stream: the generated programs of a seed do not move.)
func mulSweep(r *hxlib.Rng, tier string) []progCase {
	n := 6
	if tier == "thorough" {
		n = 16
	}
	var res []progCase
	seen := map[int]bool{}
	for len(res) < n {
		w := 9 + r.Intn(64)
		if w%2 == 0 && r.Intn(3) != 0 {
			w++
		}
		form := r.Intn(3)
		if seen[w*4+form] {
			continue
		}
		seen[w*4+form] = true
		var src string
		switch form {
		case 0:
			src = fmt.Sprintf("package main\nfunc main(a, b uint%d) uint%d {\n\treturn a * b\n}\n", w, w)
		case 1:
			src = fmt.Sprintf("package main\nfunc main(a, b uint%d) uint%d {\n\treturn a * b + a\n}\n", w, w)
		default:
			src = fmt.Sprintf("package main\nfunc main(a, b uint%d) uint%d {\n\treturn uint%d(a) * uint%d(b)\n}\n", w, 2*w, 2*w, 2*w)
		}
		res = append(res, progCase{name: fmt.Sprintf("sweep:mul-uint%d-form%d", w, form), src: src, usesMult: true})
	}
	return res
}

func runProgram(o *hxlib.Out, r *hxlib.Rng, idx int, pc progCase, lim limits, pairsMeta *[]map[string]any) {
	cfgs := allConfigs()
	if pc.extreme != nil || pc.div != nil || pc.wideDiv {
		cfgs = extremeConfigs(pc)
	}
	res := make([]compiled, len(cfgs))
	compileMs := make([]int64, len(cfgs))
	t0 := time.Now()
	base := compileReal(pc.src, cfgs[0])
	compileMs[0] = time.Since(t0).Milliseconds()
	res[0] = base
	kind := strings.SplitN(pc.name, ":", 2)[0]
	if base.circ == nil {
		o.Count("compile_fail_" + kind)
		// every other configuration must fail too
		for i := 1; i < len(cfgs); i++ {
			ri := compileReal(pc.src, cfgs[i])
			if ri.circ != nil {
				o.Fail("c09-compile-outcome-differs", map[string]any{"case": idx, "prog": pc.name, "src": pc.src,
					"config_a": cfgs[0].name, "outcome_a": base.err, "config_b": cfgs[i].name, "outcome_b": "ok"})
				break
			}
		}
		if pc.gen == nil || idx < 3 {
			o.Sample(map[string]any{"prog": pc.name, "compile_error": base.err})
		}
		return
	}
	if len(base.circ.Gates) > lim.maxGatesSim {
		o.Count("skipped_too_big_" + kind)
		return
	}
	o.Count("programs")
	o.Count("programs_" + kind)
	nin := base.circ.Inputs.Size()
	nout := base.circ.Outputs.Size()
	sizes := argSizes(base.circ.Inputs)
	if pc.usesDiv {
		o.Count("programs_with_divmod")
	}
	if pc.usesMult {
		o.Count("programs_with_mult")
	}
	if pc.gen != nil {
		for f := range pc.gen.feats {
			o.Count("feat_" + f)
		}
		o.Count(fmt.Sprintf("width_%d", pc.gen.bits))
	}
	baseLine := hxlib.CircLine(base.circ)
	lines := make([]string, len(cfgs))
	lines[0] = baseLine
	for i := 1; i < len(cfgs); i++ {
		// threshold is irrelevant without a multiplication: still compile
		// (the claim is about the real compiler), but cheap programs only
		t0 = time.Now()
		res[i] = compileReal(pc.src, cfgs[i])
		compileMs[i] = time.Since(t0).Milliseconds()
		if res[i].circ == nil {
			d := map[string]any{"case": idx, "prog": pc.name, "src": pc.src,
				"config_a": cfgs[0].name, "outcome_a": "ok", "config_b": cfgs[i].name, "outcome_b": res[i].err,
				"target_b": cfgs[i].tgt.String(), "uses_divmod": fmt.Sprint(pc.usesDiv), "cause": "unknown"}
			// (the operand-width panic of the GMW divider was fixed by dcb521a;
			// no compile-outcome difference is attributed any more)
			o.Fail("c09-compile-outcome-differs", d)
			continue
		}
		// (rendering a multi-million-gate circuit costs ~100 MB: only where the
		// line is used, i.e. for a `topo` op)
		if len(res[i].circ.Gates) <= lim.maxGatesTopo {
			lines[i] = hxlib.CircLine(res[i].circ)
		}
	}
	sameAsBase := func(i int) bool {
		if lines[i] != "" {
			return lines[i] == baseLine
		}
		return sameCircuit(res[i].circ, base.circ)
	}
	// ---- structural sanity of every compiled circuit: single assignment and
	// every gate input an input wire or the output of an EARLIER gate (the
	// order Compute, the garbler and the GMW evaluator run the gates in).  A
	// circuit whose wire ids are in range but whose ORDER is wrong is kept for
	// the simulation (Compute reads a not yet written wire as 0): the concrete
	// input on which it then differs is reported first, the structural failure
	// after it.  The same verdict is asked from the Lean checker `absRun`
	// (C09_absRun_ssa) on the real circuit through the `topo` op.
	illFormed := map[int]string{}
	for i, ri := range res {
		if ri.circ == nil {
			continue
		}
		if ri.circ.Inputs.Size() != nin || ri.circ.Outputs.Size() != nout {
			o.Fail("c09-io-differs", map[string]any{"case": idx, "prog": pc.name, "src": pc.src, "config_b": cfgs[i].name})
			res[i].circ = nil
			continue
		}
		msg := wellFormed(ri.circ)
		if len(ri.circ.Gates) <= lim.maxGatesTopo && len(ri.circ.Gates) > 0 && (i == 0 || !sameAsBase(i)) &&
			(!lim.topoBaseGMW || i == 0 || cfgs[i].tgt == utils.TargetGMW) {
			o.Op(fmt.Sprintf("c09 topo %s|%s %s", strings.ReplaceAll(pc.name, " ", "_"), cfgs[i].name, lines[i]),
				fmt.Sprintf("ssa=%v", msg == ""))
			o.Count("topo_ops")
			if cfgs[i].tgt == utils.TargetGMW {
				o.Count("topo_ops_gmw")
			}
		}
		if msg != "" {
			if !wiresInRange(ri.circ) {
				o.Fail("c09-not-wellformed", map[string]any{"case": idx, "prog": pc.name, "src": pc.src, "config_b": cfgs[i].name, "what": msg})
				res[i].circ = nil
				continue
			}
			illFormed[i] = msg
		} else if undefinedOutputs(ri.circ) > 0 {
			o.Count("config_with_undefined_output_wires")
		}
	}
	if pc.extreme != nil {
		noteShapes(o, pc, cfgs, res, compileMs)
	}
	// ---- simulation oracle: all configurations against the base
	exhaustive := nin <= 16
	passes := lim.randPasses
	if exhaustive {
		passes = 1
		if nin > 6 {
			passes = 1 << uint(nin-6)
		}
	}
	total := 0
	maxw := 0
	var sim []int
	for i, ri := range res {
		if ri.circ == nil {
			continue
		}
		if len(ri.circ.Gates) > lim.maxGatesSim {
			o.Count("config_skipped_too_big")
			continue
		}
		if i > 0 && sameAsBase(i) {
			o.Count("config_identical_to_base")
			continue
		}
		sim = append(sim, i)
		total += len(ri.circ.Gates)
		if ri.circ.NumWires > maxw {
			maxw = ri.circ.NumWires
		}
	}
	if total*passes > lim.simBudget {
		passes = lim.simBudget / (total + 1)
		if passes < 1 {
			passes = 1
		}
		exhaustive = false
		o.Count("programs_sim_budget_capped")
	}
	if exhaustive {
		o.Count("programs_exhaustive")
	} else {
		o.Count("programs_sampled")
	}
	scratch := make([]uint64, maxw)
	in := make([]uint64, nin)
	failed := map[int]bool{}
	divZeroSeen := map[int]bool{}
	baseOut := make([]uint64, nout)
	// probe: a circuit with the same inputs whose outputs are the divisors of
	// the program's raw divisions; a lane on which a divisor is 0 is a
	// division by zero, which has no defined meaning in MPCL
	var probe *circuit.Circuit
	if pc.probeSrc != "" {
		if pr := compileReal(pc.probeSrc, cfgs[0]); pr.circ != nil && pr.circ.Inputs.Size() == nin {
			probe = pr.circ
			o.Count("programs_with_divisor_probe")
			if probe.NumWires > len(scratch) {
				scratch = make([]uint64, probe.NumWires)
			}
		} else {
			o.Count("probe_compile_failed")
		}
	}
	for p := 0; p < passes; p++ {
		if pc.extreme != nil && !exhaustive && p == 1 {
			correlatedWords(r, sizes, in)
			o.Count("sim_correlated_passes")
		} else {
			inputWords(r, nin, sizes, exhaustive, p, in)
		}
		copy(baseOut, simPass(base.circ, in, scratch))
		o.CountN("sim_vectors", 64)
		var zeroDiv uint64
		if probe != nil {
			po := simPass(probe, in, scratch)
			ofs := 0
			for _, sz := range argSizes(probe.Outputs) {
				var nz uint64
				for b := 0; b < sz; b++ {
					nz |= po[ofs+b]
				}
				zeroDiv |= ^nz
				ofs += sz
			}
		}
		for _, i := range sim[1:] {
			if failed[i] {
				continue
			}
			out := simPass(res[i].circ, in, scratch)
			o.CountN("sim_config_vectors", 64)
			var diff uint64
			for k := range out {
				diff |= baseOut[k] ^ out[k]
			}
			if diff == 0 {
				continue
			}
			// across targets a difference confined to division-by-zero lanes is
			// classified separately; everything else is a plain mismatch
			realDiff := diff
			if cfgs[i].tgt != cfgs[0].tgt {
				realDiff = diff &^ zeroDiv
			}
			if realDiff != 0 {
				failed[i] = true
				x := laneBits(in, lowestLane(realDiff))
				reportMismatch(o, idx, pc, cfgs[0], cfgs[i], base.circ, res[i].circ, x, sizes, false, illFormed[i])
			} else if !divZeroSeen[i] {
				divZeroSeen[i] = true
				x := laneBits(in, lowestLane(diff))
				reportMismatch(o, idx, pc, cfgs[0], cfgs[i], base.circ, res[i].circ, x, sizes, true, illFormed[i])
			}
		}
	}
	// ---- structured division operands (divsweep.go): every program that
	// divides and is not enumerated
	if pc.usesDiv && !exhaustive && lim.divBudget > 0 && len(sim) > 1 {
		divStructured(o, r, idx, pc, cfgs, res, sim, sizes, probe, lim, lim.tier, failed, divZeroSeen, illFormed)
	}
	for range sim[1:] {
		o.Count("config_pairs_simulated")
		if exhaustive {
			o.Count("config_pairs_exhaustive")
		}
	}
	// the structural failures (after the concrete inputs they lead to); an
	// ill-ordered circuit takes no further part
	for i := range res {
		if msg, bad := illFormed[i]; bad {
			o.Fail("c09-not-wellformed", map[string]any{"case": idx, "prog": pc.name, "src": pc.src, "config_b": cfgs[i].name, "what": msg,
				"differs_from_base_on_a_simulated_input": failed[i]})
			res[i].circ = nil
		}
	}
	if pc.name == "fixed:udiv2" {
		// the circuits of the Lean negation witness Mpc.C09_target_equivalence_fails
		y, g := res[1].circ, res[len(cfgs)-1].circ
		if y != nil && g != nil {
			x := []bool{false, false, false, false}
			o.Meta["negation_witness"] = map[string]any{"src": pc.src, "yao": hxlib.CircLine(y), "gmw": hxlib.CircLine(g),
				"x": hxlib.BitsString(x), "out_yao": realCompute(y, x), "out_gmw": realCompute(g, x)}
		}
	}
	if pc.name == "fixed:udiv7" {
		dividerProbe(o, base.circ, res[len(cfgs)-1].circ)
		// executed witness of the divider inexactness for a non-zero divisor:
		// the two real width-7 circuits on a=127, b=13, evaluated by
		// Circuit.Compute here and by the compiled Lean model in the driver
		// (the checker verdict of this cross-target pair is irrelevant)
		y, g := res[1].circ, res[len(cfgs)-1].circ
		if y != nil && g != nil {
			x := make([]bool, 14)
			for i := 0; i < 7; i++ {
				x[i] = true                   // a = 127
				x[7+i] = (13>>uint(i))&1 == 1 // b = 13
			}
			op := fmt.Sprintf("c09 pair fixed:udiv7|witness/127-13 %s %s - - %s", hxlib.CircLine(y), hxlib.CircLine(g), hxlib.BitsString(x))
			o.Op(op, fmt.Sprintf("chk=n/a;c=%s;c2=%s", realCompute(y, x), realCompute(g, x)))
			*pairsMeta = append(*pairsMeta, map[string]any{"prog": pc.name, "tag": "witness/127-13", "corpus": false,
				"witness": true, "gates": len(y.Gates), "gates2": len(g.Gates), "case": idx})
		}
	}
	// ---- proved checker: op lines
	xs := sampleInputs(r, nin)
	find := func(name string) *circuit.Circuit {
		for i, c := range cfgs {
			if c.name == name {
				return res[i].circ
			}
		}
		return nil
	}
	emit := func(tag string, C, C2 *circuit.Circuit) {
		if C == nil || C2 == nil {
			return
		}
		if len(C.Gates)+len(C2.Gates) > lim.maxGatesPair || nin > lim.maxInputsPair {
			o.Count("pair_skipped_too_big")
			return
		}
		ri := witnessSelf(C)
		wit2, missing := witnessOther(C, ri, C2)
		if missing > 0 {
			o.Count("pair_witness_incomplete")
		}
		var xstr, o1, o2 []string
		for _, x := range xs {
			xstr = append(xstr, hxlib.BitsString(x))
			o1 = append(o1, realCompute(C, x))
			o2 = append(o2, realCompute(C2, x))
		}
		ptag := strings.ReplaceAll(pc.name, " ", "_") + "|" + tag
		op := fmt.Sprintf("c09 pair %s %s %s %s %s %s", ptag, hxlib.CircLine(C), hxlib.CircLine(C2),
			intsString(ri.wit), intsString(wit2), strings.Join(xstr, ","))
		o.Op(op, fmt.Sprintf("chk=ok;c=%s;c2=%s", strings.Join(o1, ","), strings.Join(o2, ",")))
		o.Count("pair_ops")
		o.Count("pair_ops_" + strings.SplitN(tag, "/", 2)[0])
		*pairsMeta = append(*pairsMeta, map[string]any{"prog": pc.name, "tag": tag, "corpus": pc.corpus,
			"gates": len(C.Gates), "gates2": len(C2.Gates), "missing": missing, "case": idx})
	}
	for _, t := range []struct {
		tn  string
		tgt utils.Target
		off string
		on  string
	}{{"yao", utils.TargetYao, "yao-thr0-prune0", "yao-thr0-prune1"}, {"gmw", utils.TargetGMW, "gmw-prune0", "gmw-prune1"}} {
		off, on := find(t.off), find(t.on)
		if off == nil || on == nil {
			continue
		}
		if len(off.Gates) > lim.maxGatesPair || nin > lim.maxInputsPair {
			o.Count("pair_skipped_too_big")
			if pc.extreme != nil {
				// too big for the checker: still the level oracle on Compile's own
				// levels (strict, and for GMW sorted), on the pruned pipeline
				if st := compileStaged(pc.src, t.tgt, 3, false); st.circ != nil {
					checkLevels(o, idx, pc, t.tn, st)
				} else {
					o.Fail("c09-stage-compile-fails", map[string]any{"case": idx, "prog": pc.name, "src": pc.src,
						"target": t.tn, "passes": 3, "outcome": st.err})
				}
			}
			continue
		}
		var stg [4]staged
		for st := 0; st <= 3; st++ {
			if lim.skipRawStages && st < 2 {
				continue
			}
			stg[st] = compileStaged(pc.src, t.tgt, st, st >= 2)
			if stg[st].circ == nil {
				o.Fail("c09-stage-compile-fails", map[string]any{"case": idx, "prog": pc.name, "src": pc.src,
					"target": t.tn, "passes": st, "outcome": stg[st].err})
			} else if msg := wellFormed(stg[st].circ); msg != "" {
				o.Fail("c09-not-wellformed", map[string]any{"case": idx, "prog": pc.name, "src": pc.src,
					"config_b": fmt.Sprintf("%s-stage%d", t.tn, st), "what": msg})
				stg[st].circ = nil
			}
		}
		// tie of the hand-replayed pass pipeline to CompileCircuit
		if stg[2].circ != nil && stg[3].circ != nil {
			if hxlib.CircLine(stg[2].circ) == hxlib.CircLine(off) && hxlib.CircLine(stg[3].circ) == hxlib.CircLine(on) {
				o.Count("stage_tie_ok")
			} else {
				o.Count("stage_tie_mismatch")
			}
		}
		// tie of the Lean pass models (Model/Passes.lean) to the real passes:
		// the model applied to the dumped pre-pass graph must give the dumped
		// post-pass graph (canonically renumbered) / the compiled circuit
		emitPass := func(kind, in, want string) {
			if in == "" || want == "" {
				return
			}
			ptag := strings.ReplaceAll(pc.name, " ", "_") + "|" + kind + "/" + t.tn
			o.Op(fmt.Sprintf("c09 pass %s %s %s", ptag, kind, in), "wf=true;"+want)
			o.Count("pass_ops_" + kind)
		}
		if stg[3].circ != nil && stg[2].circ != nil {
			ctag := "compile-" + t.tn
			emitPass("cp", stg[3].dumps[0], stg[3].dumps[1])
			emitPass("sc", stg[3].dumps[1], stg[3].dumps[2])
			emitPass("prune", stg[3].dumps[2], stg[3].dumps[3])
			emitPass(ctag, stg[3].dumps[3], hxlib.CircLine(stg[3].circ))
			emitPass(ctag, stg[2].dumps[2], hxlib.CircLine(stg[2].circ))
		}
		// staged circuits are simulated against the real prune-off circuit
		for st := 0; st <= 1; st++ {
			if stg[st].circ == nil {
				continue
			}
			simPair(o, r, idx, pc, fmt.Sprintf("%s-stage%d", t.tn, st), t.off, stg[st].circ, off, sizes, nin <= 16, lim)
		}
		emit("raw-off/"+t.tn, stg[0].circ, off)
		emit("cp-off/"+t.tn, stg[1].circ, off)
		emit("off-on/"+t.tn, off, on)
		emit("raw-on/"+t.tn, stg[0].circ, on)
		// level sort of Compile (GMW target only sorts; the Yao order is the
		// BFS order, whose levels must be strict as well)
		if stg[3].circ != nil && len(stg[3].circ.Gates) <= lim.maxGatesLevel && len(stg[3].circ.Gates) > 0 {
			emitSort(o, r, idx, pc, t.tn, stg[3], xs[1])
		}
	}
	for _, thr := range thresholds[1:] {
		if !pc.usesMult {
			break
		}
		emit(fmt.Sprintf("off-on/yao-thr%d", thr), find(fmt.Sprintf("yao-thr%d-prune0", thr)), find(fmt.Sprintf("yao-thr%d-prune1", thr)))
	}
	// ---- AssignLevels and the GMW schedule
	for _, name := range []string{"yao-thr0-prune0", "gmw-prune1"} {
		c := find(name)
		if c == nil || len(c.Gates) > lim.maxGatesLevel || len(c.Gates) == 0 {
			continue
		}
		emitLevels(o, idx, pc, name, c, xs[1])
	}
	if idx%7 == 0 || pc.gen == nil && idx < 4 {
		o.Sample(map[string]any{"prog": pc.name, "src": clip(pc.src, 600), "inputs_bits": nin, "exhaustive": exhaustive,
			"gates_base": len(base.circ.Gates), "configs_simulated": len(sim)})
	}
}

// dividerProbe documents the GMW divider finding precisely: all operand pairs
// of `uint7 a/b, a%b` with b != 0 on which the GMW-target circuit differs
// from the Yao-target circuit.
func dividerProbe(o *hxlib.Out, yao, gmw *circuit.Circuit) {
	if yao == nil || gmw == nil || yao.Inputs.Size() != 14 || gmw.Inputs.Size() != 14 {
		return
	}
	mw := yao.NumWires
	if gmw.NumWires > mw {
		mw = gmw.NumWires
	}
	scratch := make([]uint64, mw)
	in := make([]uint64, 14)
	oy := make([]uint64, 14)
	count, zeroDiv := 0, 0
	var example map[string]any
	val := func(out []uint64, lane, from int) int {
		v := 0
		for b := 0; b < 7; b++ {
			if (out[from+b]>>uint(lane))&1 == 1 {
				v |= 1 << uint(b)
			}
		}
		return v
	}
	for p := 0; p < 256; p++ {
		inputWords(nil, 14, []int{7, 7}, true, p, in)
		copy(oy, simPass(yao, in, scratch))
		og := simPass(gmw, in, scratch)
		for lane := 0; lane < 64; lane++ {
			differs := false
			for k := range oy {
				if (oy[k]^og[k])>>uint(lane)&1 == 1 {
					differs = true
				}
			}
			if !differs {
				continue
			}
			v := p*64 + lane
			a, b := v&127, v>>7
			if b == 0 {
				zeroDiv++
				continue
			}
			count++
			if example == nil {
				example = map[string]any{"a": a, "b": b, "yao_q": val(oy, lane, 0), "yao_r": val(oy, lane, 7),
					"gmw_q": val(og, lane, 0), "gmw_r": val(og, lane, 7)}
			}
		}
	}
	o.Meta["divider_probe_uint7"] = map[string]any{"pairs_b_nonzero_wrong": count, "pairs_b_zero_differ": zeroDiv,
		"pairs_total": 16384, "first_example": example}
}

func sampleInputs(r *hxlib.Rng, nin int) [][]bool {
	xs := make([][]bool, 3)
	for k := range xs {
		xs[k] = make([]bool, nin)
		for i := range xs[k] {
			switch k {
			case 0:
				xs[k][i] = false
			default:
				xs[k][i] = r.Bool()
			}
		}
	}
	return xs
}

// simPair simulates two circuits of one program against each other.
func simPair(o *hxlib.Out, r *hxlib.Rng, idx int, pc progCase, na, nb string, A, B *circuit.Circuit, sizes []int, exhaustive bool, lim limits) {
	nin := A.Inputs.Size()
	passes := lim.randPasses
	if exhaustive {
		passes = 1
		if nin > 6 {
			passes = 1 << uint(nin-6)
		}
		if (len(A.Gates)+len(B.Gates))*passes > lim.simBudget/4 {
			exhaustive = false
			passes = lim.randPasses
		}
	}
	mw := A.NumWires
	if B.NumWires > mw {
		mw = B.NumWires
	}
	scratch := make([]uint64, mw)
	in := make([]uint64, nin)
	oa := make([]uint64, A.Outputs.Size())
	for p := 0; p < passes; p++ {
		inputWords(r, nin, sizes, exhaustive, p, in)
		copy(oa, simPass(A, in, scratch))
		ob := simPass(B, in, scratch)
		o.CountN("sim_stage_vectors", 64)
		if lane := firstDiffLane(oa, ob); lane >= 0 {
			x := laneBits(in, lane)
			o.Fail("c09-stage-mismatch", map[string]any{"case": idx, "prog": pc.name, "src": pc.src,
				"config_a": na, "config_b": nb, "x": hxlib.BitsString(x), "args": argsString(x, sizes),
				"out_a": realCompute(A, x), "out_b": realCompute(B, x)})
			return
		}
	}
	o.Count("stage_pairs_simulated")
}

func lowestLane(m uint64) int {
	for lane := 0; lane < 64; lane++ {
		if (m>>uint(lane))&1 == 1 {
			return lane
		}
	}
	return -1
}

// reportMismatch records a concrete input on which two configurations differ.
// divZero: every differing vector of the pass had a zero divisor (probe).
func reportMismatch(o *hxlib.Out, idx int, pc progCase, ca, cb config, A, B *circuit.Circuit, x []bool, sizes []int, divZero bool, illFormedB string) {
	if divZero && pc.div != nil {
		// the division sweep: every program of it divides by its raw argument, the
		// a/0 difference (known finding) is recorded for the first two
		// configurations only - a run keeps 20 failures
		o.Count("div_zero_divisor_differences")
		if o.Counters["div_zero_divisor_differences"] > 2 {
			return
		}
	}
	d := map[string]any{"case": idx, "prog": pc.name, "src": pc.src, "config_a": ca.name, "config_b": cb.name,
		"x": hxlib.BitsString(x), "args": clip(argsString(x, sizes), 400), "out_a": clip(realCompute(A, x), 400), "out_b": clip(realCompute(B, x), 400),
		"replay": "c09 replay <this file>: compiles src for config_a and config_b and runs Circuit.Compute on x"}
	if illFormedB != "" {
		d["circuit_b_not_topologically_ordered"] = illFormedB
	}
	if pc.extreme != nil {
		d["class"] = pc.extreme.class
		d["param"] = pc.extreme.param
	}
	sig := "c09-prune-mismatch"
	switch {
	case cb.tgt != ca.tgt:
		sig = "c09-target-mismatch"
		d["target"] = cb.tgt.String()
		d["uses_divmod"] = fmt.Sprint(pc.usesDiv)
		d["gmw_undriven_outputs"] = undefinedOutputs(B)
		// the only attributed cause: a division by zero at this input (decided
		// by the divisor probe evaluated on the same input vectors)
		d["cause"] = "unknown"
		if divZero {
			d["cause"] = "division-by-zero"
		}
	case cb.thr != ca.thr:
		sig = "c09-threshold-mismatch"
		d["threshold"] = cb.thr
	}
	o.Fail(sig, d)
}

func differOnSamples(r *hxlib.Rng, A, B *circuit.Circuit, sizes []int) bool {
	nin := A.Inputs.Size()
	if B.Inputs.Size() != nin || A.Outputs.Size() != B.Outputs.Size() {
		return true
	}
	exhaustive := nin <= 16
	passes := 8
	if exhaustive {
		passes = 1
		if nin > 6 {
			passes = 1 << uint(nin-6)
		}
	}
	mw := A.NumWires
	if B.NumWires > mw {
		mw = B.NumWires
	}
	scratch := make([]uint64, mw)
	in := make([]uint64, nin)
	oa := make([]uint64, A.Outputs.Size())
	for p := 0; p < passes; p++ {
		inputWords(r, nin, sizes, exhaustive, p, in)
		copy(oa, simPass(A, in, scratch))
		if firstDiffLane(oa, simPass(B, in, scratch)) >= 0 {
			return true
		}
	}
	return false
}

// ---------------------------------------------------------------- levels

func gatesLine(c *circuit.Circuit, gates []circuit.Gate) string {
	cc := &circuit.Circuit{NumWires: c.NumWires, Inputs: c.Inputs, Outputs: c.Outputs, Gates: gates}
	return hxlib.CircLine(cc)
}

func emitLevels(o *hxlib.Out, idx int, pc progCase, name string, c *circuit.Circuit, x []bool) {
	for _, tgt := range []utils.Target{utils.TargetYao, utils.TargetGMW} {
		// AssignLevels mutates the gates; work on a copy
		cp := &circuit.Circuit{NumGates: c.NumGates, NumWires: c.NumWires, Inputs: c.Inputs, Outputs: c.Outputs,
			Gates: append([]circuit.Gate(nil), c.Gates...)}
		cp.AssignLevels(tgt)
		lv := make([]int, len(cp.Gates))
		for i, g := range cp.Gates {
			lv[i] = int(g.Level)
		}
		tag := strings.ReplaceAll(pc.name, " ", "_") + "|" + name
		o.Op(fmt.Sprintf("c09 lvl %s %d %s", tag, b2i(tgt == utils.TargetGMW), hxlib.CircLine(c)),
			fmt.Sprintf("lv=%s;max=%d;width=%d", intsString(lv), cp.Stats[circuit.NumLevels], cp.Stats[circuit.MaxWidth]))
		o.Count("lvl_ops")
		if tgt != utils.TargetGMW {
			continue
		}
		// the GMW evaluation schedule (gmw/network.go: per level the non-AND
		// gates in circuit order, then the AND batch), replicated here
		numLevels := int(cp.Stats[circuit.NumLevels]) + 1
		ands := make([][]circuit.Gate, numLevels)
		rest := make([][]circuit.Gate, numLevels)
		for _, g := range cp.Gates {
			if g.Op == circuit.AND {
				ands[g.Level] = append(ands[g.Level], g)
			} else {
				rest[g.Level] = append(rest[g.Level], g)
			}
		}
		var sched []circuit.Gate
		for l := 0; l < numLevels; l++ {
			sched = append(sched, rest[l]...)
			sched = append(sched, ands[l]...)
		}
		sc := &circuit.Circuit{NumGates: len(sched), NumWires: c.NumWires, Inputs: c.Inputs, Outputs: c.Outputs, Gates: sched}
		topo := wellFormed(sc) == ""
		if !topo {
			o.Fail("c09-gmw-schedule-not-topological", map[string]any{"case": idx, "prog": pc.name, "src": pc.src, "config_b": name})
		}
		out := realCompute(sc, x)
		if out != realCompute(c, x) {
			o.Fail("c09-gmw-schedule-changes-result", map[string]any{"case": idx, "prog": pc.name, "src": pc.src, "config_b": name,
				"x": hxlib.BitsString(x)})
		}
		o.Op(fmt.Sprintf("c09 sort %s g %s %s %s", tag, hxlib.CircLine(c), intsString(lv), hxlib.BitsString(x)),
			fmt.Sprintf("strict=%v;topo=%v;g=%s;c=%s", strictLevels(c, c.Gates, lv), topo,
				strings.SplitN(gatesLine(c, sched), " ", 4)[3], out))
		o.Count("sort_ops_gmw_schedule")
	}
}

// strictLevels: every gate input is a circuit input or produced by a gate of
// strictly smaller level.
func strictLevels(c *circuit.Circuit, gates []circuit.Gate, lv []int) bool {
	prod := make([]int, c.NumWires)
	for i := range prod {
		prod[i] = -1
	}
	for i, g := range gates {
		prod[g.Output] = lv[i]
	}
	nin := c.Inputs.Size()
	ok := func(w circuit.Wire, l int) bool {
		return int(w) < nin || (prod[w] >= 0 && prod[w] < l)
	}
	for i, g := range gates {
		if !ok(g.Input0, lv[i]) {
			return false
		}
		if g.Op != circuit.INV && !ok(g.Input1, lv[i]) {
			return false
		}
	}
	return true
}

// emitSort ties the Lean model of Compile's level sort to the real output:
// (1) oracle on the real compiled order (GMW: sorted by (Level, AND first);
// both targets: BFS levels strict); (2) the same comparator under
// sort.SliceStable on a shuffled copy vs Lean's compileSort.
// checkLevels: the oracle on Compile's own gate levels (Gate.Level read back
// from the real compiler after Compile, converted to int whatever integer
// type the field has): every compiled gate has one, every gate input is a
// circuit input or produced by a gate of strictly smaller level, and for the
// GMW target the compiled order is sorted by (Level, AND first).  The largest
// level seen is counted (the model's levels are unbounded naturals: see
// C09_levels_bounded for where the two meet).
func checkLevels(o *hxlib.Out, idx int, pc progCase, tn string, st staged) bool {
	c := st.circ
	lv := st.levels
	mx := 0
	for _, l := range lv {
		if l < 0 {
			o.Fail("c09-level-missing", map[string]any{"case": idx, "prog": pc.name, "src": pc.src, "target": tn})
			return false
		}
		if l > mx {
			mx = l
		}
	}
	o.Count("levels_checked_" + tn)
	if mx > o.Counters["max_compile_level_"+tn] {
		o.Counters["max_compile_level_"+tn] = mx
	}
	if !strictLevels(c, c.Gates, lv) {
		o.Fail("c09-compile-levels-not-strict", map[string]any{"case": idx, "prog": pc.name, "src": pc.src, "target": tn,
			"max_level_read_back": mx, "depth_of_compiled_circuit": shapeOf(c).Depth})
	}
	if tn == "gmw" {
		for i := 1; i < len(lv); i++ {
			less := lv[i] < lv[i-1] || (lv[i] == lv[i-1] && c.Gates[i].Op == circuit.AND && c.Gates[i-1].Op != circuit.AND)
			if less {
				o.Fail("c09-compile-order-not-sorted", map[string]any{"case": idx, "prog": pc.name, "src": pc.src, "gate": i})
				break
			}
		}
	}
	return true
}

func emitSort(o *hxlib.Out, r *hxlib.Rng, idx int, pc progCase, tn string, st staged, x []bool) {
	c := st.circ
	lv := st.levels
	if !checkLevels(o, idx, pc, tn, st) {
		return
	}
	// shuffled copy
	n := len(c.Gates)
	type gl struct {
		g circuit.Gate
		l int
	}
	sh := make([]gl, n)
	for i := range sh {
		sh[i] = gl{c.Gates[i], lv[i]}
	}
	for i := n - 1; i > 0; i-- {
		j := r.Intn(i + 1)
		sh[i], sh[j] = sh[j], sh[i]
	}
	shG := make([]circuit.Gate, n)
	shL := make([]int, n)
	for i := range sh {
		shG[i], shL[i] = sh[i].g, sh[i].l
	}
	sort.SliceStable(sh, func(i, j int) bool {
		gi, gj := sh[i], sh[j]
		if gi.l != gj.l {
			return gi.l < gj.l
		}
		return gi.g.Op == circuit.AND && gj.g.Op != circuit.AND
	})
	sorted := make([]circuit.Gate, n)
	for i := range sh {
		sorted[i] = sh[i].g
	}
	sc := &circuit.Circuit{NumGates: n, NumWires: c.NumWires, Inputs: c.Inputs, Outputs: c.Outputs, Gates: sorted}
	topo := wellFormed(sc) == ""
	out := realCompute(sc, x)
	if !topo || out != realCompute(c, x) {
		o.Fail("c09-level-sort-not-topological", map[string]any{"case": idx, "prog": pc.name, "src": pc.src, "target": tn})
	}
	tag := strings.ReplaceAll(pc.name, " ", "_") + "|stage3-" + tn
	o.Op(fmt.Sprintf("c09 sort %s c %s %s %s", tag, gatesLine(c, shG), intsString(shL), hxlib.BitsString(x)),
		fmt.Sprintf("strict=%v;topo=%v;g=%s;c=%s", strictLevels(c, shG, shL), topo,
			strings.SplitN(gatesLine(c, sorted), " ", 4)[3], out))
	o.Count("sort_ops_compile")
	if pc.extreme != nil && tn == "gmw" {
		emitWrapSort(o, pc, tn, c, c.Gates, lv, x, 16)
	}
}

// emitWrapSort: Compile's comparator under sort.SliceStable with the levels
// held in a k-bit unsigned field (replica) against the Lean model
// `compileSortW k`, on the real compiled gates with their real levels.  For
// a circuit deeper than 2^k both must say "not topological": the executed
// form of C09_wrapped_levels_not_topological on a real program.
func emitWrapSort(o *hxlib.Out, pc progCase, tn string, c *circuit.Circuit, gates []circuit.Gate, lv []int, x []bool, k uint) {
	n := len(gates)
	type gl struct {
		g circuit.Gate
		l int
	}
	sh := make([]gl, n)
	mx := 0
	for i := range sh {
		sh[i] = gl{gates[i], lv[i] & (1<<k - 1)}
		if lv[i] > mx {
			mx = lv[i]
		}
	}
	sort.SliceStable(sh, func(i, j int) bool {
		gi, gj := sh[i], sh[j]
		if gi.l != gj.l {
			return gi.l < gj.l
		}
		return gi.g.Op == circuit.AND && gj.g.Op != circuit.AND
	})
	sorted := make([]circuit.Gate, n)
	for i := range sh {
		sorted[i] = sh[i].g
	}
	sc := &circuit.Circuit{NumGates: n, NumWires: c.NumWires, Inputs: c.Inputs, Outputs: c.Outputs, Gates: sorted}
	topo := wellFormed(sc) == ""
	tag := strings.ReplaceAll(pc.name, " ", "_") + fmt.Sprintf("|w%d-", k) + tn
	o.Op(fmt.Sprintf("c09 sort %s w%d %s %s %s", tag, k, gatesLine(c, gates), intsString(lv), hxlib.BitsString(x)),
		fmt.Sprintf("strict=%v;topo=%v;g=%s;c=%s", strictLevels(c, gates, lv), topo,
			strings.SplitN(gatesLine(c, sorted), " ", 4)[3], realCompute(sc, x)))
	o.Count("sort_ops_wrapped")
	if mx >= 1<<k {
		o.Count("sort_ops_wrapped_beyond_field")
		if !topo {
			o.Count("sort_ops_wrapped_beyond_field_not_topological")
		}
	}
}

// emitChains: the witness family of C09_wrapped_levels_not_topological /
// C09_wrapped_levels_wrong_output executed for k = 1..kmax: the chain of
// 2^k+1 INV gates, levels 0..2^k held in a k-bit field, Compile's comparator
// under sort.SliceStable, evaluated by Circuit.Compute on x = 1 (replica)
// against the compiled Lean model (op `chain`).
func emitChains(o *hxlib.Out, kmax int) {
	for k := 1; k <= kmax; k++ {
		n := 1<<uint(k) + 1
		type gl struct {
			g circuit.Gate
			l int
		}
		sh := make([]gl, n)
		ref := make([]circuit.Gate, n)
		for j := range sh {
			g := circuit.Gate{Op: circuit.INV, Input0: circuit.Wire(j), Input1: circuit.Wire(j), Output: circuit.Wire(j + 1)}
			ref[j] = g
			sh[j] = gl{g, j & (1<<uint(k) - 1)}
		}
		sort.SliceStable(sh, func(i, j int) bool {
			gi, gj := sh[i], sh[j]
			if gi.l != gj.l {
				return gi.l < gj.l
			}
			return gi.g.Op == circuit.AND && gj.g.Op != circuit.AND
		})
		sorted := make([]circuit.Gate, n)
		for i := range sh {
			sorted[i] = sh[i].g
		}
		io1 := circuit.IO{hxlib.UintIO("x", 1)}
		rc := &circuit.Circuit{NumGates: n, NumWires: n + 1, Inputs: io1, Outputs: io1, Gates: ref}
		sc := &circuit.Circuit{NumGates: n, NumWires: n + 1, Inputs: io1, Outputs: io1, Gates: sorted}
		x := []bool{true}
		o.Op(fmt.Sprintf("c09 chain k%d %d", k, k), fmt.Sprintf("topo=%v;g=%s;c=%s;ref=%s", wellFormed(sc) == "",
			strings.SplitN(hxlib.CircLine(sc), " ", 4)[3], realCompute(sc, x), realCompute(rc, x)))
		o.Count("chain_ops")
		if wellFormed(sc) != "" && realCompute(sc, x) != realCompute(rc, x) {
			o.Count("chain_ops_not_topological_and_wrong")
		}
	}
}

var _ = io.Discard

// replay re-runs exactly one recorded failing case (`c09 replay <replay
// file>`): the program of the failure is compiled for its two configurations
// by the real compiler and both circuits are evaluated by Circuit.Compute on
// the recorded input.  Exit 1: the failure is reproduced (outputs differ, a
// compile outcome differs, or the circuit of config_b is not topologically
// ordered); 0: not reproduced; 3: the file holds no case of this form.
func replay(args []string) int {
	if len(args) < 1 {
		return 3
	}
	b, err := os.ReadFile(args[0])
	if err != nil {
		fmt.Fprintln(os.Stderr, err)
		return 3
	}
	var doc struct {
		Failure map[string]any `json:"failure"`
	}
	if json.Unmarshal(b, &doc) != nil || doc.Failure == nil {
		return 3
	}
	f := doc.Failure
	str := func(k string) string { s, _ := f[k].(string); return s }
	src, na, nb, xs := str("src"), str("config_a"), str("config_b"), str("x")
	if src == "" || nb == "" {
		return 3
	}
	if na == "" {
		na = "yao-thr0-prune0"
	}
	var ca, cb *config
	all := append(allConfigs(), extremeConfigs(progCase{usesMult: true})...)
	for i := range all {
		if all[i].name == na && ca == nil {
			ca = &all[i]
		}
		if all[i].name == nb && cb == nil {
			cb = &all[i]
		}
	}
	if ca == nil || cb == nil {
		return 3
	}
	devnull, _ := os.OpenFile(os.DevNull, os.O_WRONLY, 0)
	stdout := os.Stdout
	if devnull != nil {
		os.Stdout = devnull
	}
	A, B := compileReal(src, *ca), compileReal(src, *cb)
	os.Stdout = stdout
	fmt.Printf("sig=%s prog=%s\n%s: %s\n%s: %s\n", str("sig"), str("prog"), na, outcome(A), nb, outcome(B))
	if (A.circ == nil) != (B.circ == nil) {
		fmt.Println("REPRODUCED: compile outcome differs")
		return 1
	}
	if A.circ == nil {
		return 0
	}
	rc := 0
	if msg := wellFormed(B.circ); msg != "" {
		fmt.Printf("REPRODUCED: circuit of %s is not single-assignment / topologically ordered: %s\n", nb, msg)
		rc = 1
	}
	if xs != "" && len(xs) == A.circ.Inputs.Size() && wiresInRange(B.circ) {
		x := make([]bool, len(xs))
		for i := range xs {
			x[i] = xs[i] == '1'
		}
		oa, ob := realCompute(A.circ, x), realCompute(B.circ, x)
		fmt.Printf("input args: %s\nCompute under %s: %s\nCompute under %s: %s\n", clip(argsString(x, argSizes(A.circ.Inputs)), 300), na, clip(oa, 300), nb, clip(ob, 300))
		if oa != ob {
			fmt.Println("REPRODUCED: the two configurations give different outputs on this input")
			rc = 1
		}
		if want := str("want"); want != "" {
			// a meaning failure of a division-sweep program: the recorded integer
			// quotient / remainder against Circuit.Compute under config_b
			got := outValues(B.circ, x)
			fmt.Printf("meaning (integer quotient / remainder): %s\nCompute under %s as numbers: %s\n", want, nb, got)
			if got != want {
				fmt.Printf("REPRODUCED: the circuit of %s does not compute the meaning on this input\n", nb)
				rc = 1
			}
		}
	}
	return rc
}

func outcome(c compiled) string {
	if c.circ == nil {
		return c.err
	}
	s := shapeOf(c.circ)
	return fmt.Sprintf("ok gates=%d wires=%d depth=%d width=%d fanout=%d", s.Gates, s.Wires, s.Depth, s.Width, s.Fanout)
}

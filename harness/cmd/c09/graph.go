package main

// Dump of the builder-level gate/wire graph (circuits.Compiler between the
// passes) in the line format read by lean/Driver/C09.lean (`pass` ops).
//
//	<nIn> <zero> <one> <outputs> <wires> <gates>
//	wire  = <value>:<isOut>:<numOutputs>:<inputGate|->:<outGate,outGate,...|->   (joined by ';')
//	gate  = <op><a>.<b>.<o>.<dead>                                            (joined by ';')
//
// Wires are numbered canonically by first occurrence: input wires, then for
// every gate (in the fixed gate list) A, B, O, then output wires, zero, one.
// Gates are numbered by their position in the gate list captured before
// Prune (Prune drops gates from cc.Gates, the wires' output lists keep them).

import (
	"fmt"
	"strings"

	"github.com/markkurossi/mpc/circuit"
	"github.com/markkurossi/mpc/compiler/circuits"
)

func dumpGraph(cc *circuits.Compiler, gates []*circuits.Gate) string {
	gidx := make(map[*circuits.Gate]int, len(gates))
	for i, g := range gates {
		gidx[g] = i
	}
	wid := make(map[*circuits.Wire]int, len(gates)+64)
	var wires []*circuits.Wire
	id := func(w *circuits.Wire) int {
		if i, ok := wid[w]; ok {
			return i
		}
		wid[w] = len(wires)
		wires = append(wires, w)
		return len(wires) - 1
	}
	for _, w := range cc.InputWires {
		id(w)
	}
	var gs strings.Builder
	for i, g := range gates {
		if i > 0 {
			gs.WriteByte(';')
		}
		a := id(g.A)
		b := 0
		if g.Op != circuit.INV {
			b = id(g.B)
		}
		o := id(g.O)
		fmt.Fprintf(&gs, "%s%d.%d.%d.%d", hxlib_opLetter(g.Op), a, b, o, b2i(g.Dead))
	}
	var outs []int
	for _, w := range cc.OutputWires {
		outs = append(outs, id(w))
	}
	zero := id(cc.ZeroWire())
	one := id(cc.OneWire())
	var ws strings.Builder
	for i := 0; i < len(wires); i++ {
		w := wires[i]
		if i > 0 {
			ws.WriteByte(';')
		}
		in := "-"
		if g := w.Input(); g != nil {
			if k, ok := gidx[g]; ok {
				in = fmt.Sprint(k)
			} else {
				in = "?"
			}
		}
		var ol []string
		w.ForEachOutput(func(g *circuits.Gate) {
			if k, ok := gidx[g]; ok {
				ol = append(ol, fmt.Sprint(k))
			} else {
				ol = append(ol, "?")
			}
		})
		os := "-"
		if len(ol) > 0 {
			os = strings.Join(ol, ",")
		}
		fmt.Fprintf(&ws, "%d:%d:%d:%s:%s", w.Value(), b2i(w.Output()), w.NumOutputs(), in, os)
	}
	g := gs.String()
	if g == "" {
		g = "-"
	}
	return fmt.Sprintf("%d %d %d %s %s %s", len(cc.InputWires), zero, one, intsString(outs), ws.String(), g)
}

func hxlib_opLetter(op circuit.Operation) string {
	switch op {
	case circuit.XOR:
		return "x"
	case circuit.XNOR:
		return "n"
	case circuit.AND:
		return "a"
	case circuit.OR:
		return "o"
	}
	return "i"
}

package main

// c15 hist: HISTORIES of honest malicious-mode calls on one initialised pair,
// every call with a named result buffer.
//
// "Honest executions never abort" quantifies over every honest execution; an
// execution is a sequence of Receive(b, result, true) / Send(n, true) calls on
// one pair, and `result` is the CALLER's slice: the receiver transposes into
// it and computes its checksum from it.  The sess mode runs one call per fresh
// pair into a fresh slice; this mode runs 2-4 calls per pair and hands every
// call either a fresh slice or a window of the receiver's long-lived array -
// as the earlier calls left it (the slice of the previous call), or
// overwritten first with ones, another byte value, or an AES-CTR key stream.
// The buffer specs are in the op line (`c15 hist ...`): the Lean model
// (Kos.runKCall) runs the same history on the same contents and must produce
// the same response labels and outputs.
//
// Oracle: no call aborts, recv_i = sent_i xor choice_i*Delta at every
// position of every call, nothing outside the slice changes.

import (
	"bytes"
	"crypto/aes"
	"crypto/cipher"
	"encoding/hex"
	"fmt"
	"strings"
	"time"

	"github.com/markkurossi/mpc/ot"

	"verifharness/hxlib"
)

// bufSpec: "-" fresh slice of exactly n labels, or arena[off:off+n] with the
// arena first left alone (k), filled with one byte value (f<2 hex>) or with
// the AES-CTR key stream of a key (r<32 hex>).
type bufSpec struct {
	fresh bool
	pre   string
	off   int
}

func (b bufSpec) String() string {
	if b.fresh {
		return "-"
	}
	return fmt.Sprintf("%s@%d+0", b.pre, b.off)
}

func (b bufSpec) class() string {
	switch {
	case b.fresh:
		return "fresh"
	case b.pre == "k":
		if b.off > 0 {
			return "kept_subslice"
		}
		return "kept"
	case b.pre == "fff":
		return "ones"
	case b.pre[0] == 'f':
		return "bytefill"
	default:
		return "random"
	}
}

func preBytes(pre string, n int) []byte {
	switch pre[0] {
	case 'f':
		v, _ := hex.DecodeString(pre[1:])
		return bytes.Repeat(v[:1], n)
	case 'r':
		key, _ := hex.DecodeString(pre[1:])
		blk, err := aes.NewCipher(key)
		if err != nil {
			panic(err)
		}
		var iv [16]byte
		out := make([]byte, n)
		cipher.NewCTR(blk, iv[:]).XORKeyStream(out, out)
		return out
	}
	return nil
}

var bufClasses = []string{"fresh", "ones", "kept", "random", "kept_subslice", "bytefill"}

// genBufClass builds a buffer of the given class (a class that does not fit
// degrades to "kept").
func genBufClass(r *hxlib.Rng, class string, n, arena int) bufSpec {
	if class == "fresh" || arena < n {
		return bufSpec{fresh: true}
	}
	b := bufSpec{}
	room := arena - n
	switch class {
	case "kept":
		b.pre = "k"
		return b
	case "kept_subslice":
		b.pre = "k"
		if room > 0 {
			b.off = 1 + r.Intn(room)
		}
		return b
	case "ones":
		b.pre = "fff"
	case "bytefill":
		b.pre = fmt.Sprintf("f%02x", 1+r.Intn(254))
	default:
		b.pre = "r" + hxlib.Hex(r.Bytes(16))
	}
	if room > 0 && r.Intn(2) == 0 {
		b.off = 1 + r.Intn(room)
	}
	return b
}

func genBuf(r *hxlib.Rng, n, arena int) bufSpec {
	return genBufClass(r, []string{"fresh", "fresh", "kept", "kept", "kept", "kept_subslice", "kept_subslice", "ones", "ones",
		"bytefill", "random", "random"}[r.Intn(12)], n, arena)
}

type hcall struct {
	n     int
	b     []bool
	ckind string
	buf   bufSpec
}

func histMode(args []string) int {
	cf, o := hxlib.ParseCommon("hist", args, nil)
	defer o.Close()
	rng := hxlib.NewRng(cf.Seed)
	sizes := []int{1, 7, 8, 9, 63, 64, 65, 127, 128, 129, 200, 255, 256, 257, 300, 511, 512, 513, 520, 600, 777, 1023, 1024, 1025, 1100}
	dk := []string{"random", "random", "ones", "random", "bit0", "random", "zero"}
	for idx := 0; idx < cf.N; idx++ {
		r := rng.Fork()
		if cf.Only >= 0 && idx != cf.Only {
			continue
		}
		// Planned (deterministic in the case index, so that every class is
		// reached for every seed): size and buffer class of the first call
		// (class bufClasses[idx%6]); in every other case the second call has
		// the first call's size and goes INTO THE SAME SLICE.  The rest is
		// random.
		nc := 2 + r.Intn(3)
		calls := make([]hcall, nc)
		arena := 0
		sameSlice := idx%2 == 1
		for j := range calls {
			n := sizes[r.Intn(len(sizes))]
			if j == 0 {
				n = sizes[(idx*7+3)%len(sizes)]
			}
			if j == 1 && sameSlice {
				n = calls[0].n
			}
			ck := choiceKinds[r.Intn(len(choiceKinds))]
			calls[j] = hcall{n: n, ckind: ck, b: genChoices(r, n, ck)}
			if n > arena {
				arena = n
			}
		}
		planned := bufClasses[idx%len(bufClasses)]
		if idx%3 != 0 || planned == "kept_subslice" {
			arena += 1 + r.Intn(9)
		}
		for j := range calls {
			calls[j].buf = genBuf(r, calls[j].n, arena)
			if j == 0 {
				calls[j].buf = genBufClass(r, planned, calls[j].n, arena)
			}
			if j == 1 && sameSlice {
				if calls[0].buf.fresh {
					// the first call wrote a fresh slice: let the second one
					// reuse the arena slice at offset 0 that nobody wrote yet
					// is pointless - give the first call that slice instead
					calls[0].buf = bufSpec{pre: "k"}
				}
				calls[1].buf = bufSpec{pre: "k", off: calls[0].buf.off}
			}
		}
		s := newSession(r, idx, 1, "zero", dk[idx%len(dk)]) // only for the sender tape / Delta kinds
		stape := s.stape
		rtape := r.Bytes(2*kCols*16 + 48*nc)
		histCase(o, cf.Seed, idx, stape, rtape, arena, calls, dk[idx%len(dk)])
	}
	return 0
}

func histCase(o *hxlib.Out, seed uint64, idx int, stape, rtape []byte, arenaN int, calls []hcall, dkind string) {
	specs := make([]string, len(calls))
	brief := make([]string, len(calls))
	for i, c := range calls {
		specs[i] = fmt.Sprintf("%d:%s:%s", c.n, hxlib.BitsString(c.b), c.buf)
		brief[i] = fmt.Sprintf("n=%d/%s[result=%s]", c.n, c.ckind, c.buf)
	}
	op := fmt.Sprintf("c15 hist %s %s %d %s", hxlib.Hex(stape), hxlib.Hex(rtape), arenaN, strings.Join(specs, ";"))
	replay := fmt.Sprintf("hx c15 hist -seed %d -only %d", seed, idx)

	a, b := ot.NewPipe()
	rr := &recIO{IO: b}
	base := newChanOT()
	type cres struct {
		sent, rcvd, init []ot.Label
		resp             []ot.Label
		frame            string
		sdone, rdone     bool
	}
	res := make([]cres, len(calls))
	var delta ot.Label
	fs := func() error {
		snd, err := ot.NewIKNPSender(base, a, &hxlib.Tape{Data: stape}, nil)
		if err != nil {
			return err
		}
		delta = snd.Delta
		for i, c := range calls {
			out, err := snd.Send(c.n, true)
			if err != nil {
				return fmt.Errorf("call %d: %v", i, err)
			}
			res[i].sent = out
			res[i].sdone = true
		}
		return nil
	}
	fr := func() error {
		rcv, err := ot.NewIKNPReceiver(base, rr, &hxlib.Tape{Data: rtape})
		if err != nil {
			return err
		}
		arena := make([]ot.Label, arenaN)
		for i, c := range calls {
			var out, before []ot.Label
			if c.buf.fresh {
				out = make([]ot.Label, c.n)
			} else {
				if bs := preBytes(c.buf.pre, 16*arenaN); bs != nil {
					for j := range arena {
						arena[j].SetBytes(bs[16*j : 16*j+16])
					}
				}
				before = append([]ot.Label(nil), arena...)
				out = arena[c.buf.off : c.buf.off+c.n]
			}
			res[i].init = append([]ot.Label(nil), out...)
			rr.labels = nil
			if err := rcv.Receive(c.b, out, true); err != nil {
				return fmt.Errorf("call %d: %v", i, err)
			}
			res[i].rcvd = append([]ot.Label(nil), out...)
			res[i].resp = append([]ot.Label(nil), rr.labels...)
			for j := range before {
				if (j < c.buf.off || j >= c.buf.off+c.n) && !arena[j].Equal(before[j]) {
					res[i].frame = fmt.Sprintf("Receive changed label %d of the receiver's array outside result[%d:%d]", j,
						c.buf.off, c.buf.off+c.n)
					break
				}
			}
			res[i].rdone = true
		}
		return nil
	}
	es, er, to := runPair(func() { a.Close(); b.Close() }, fs, fr, 30*time.Second)
	o.Count("hist_cases")
	o.Count("hist_delta_" + dkind)
	var sb strings.Builder
	aborted := false
	nonzeroOf := func(i int) bool {
		var z ot.Label
		for _, l := range res[i].init {
			if !l.Equal(z) {
				return true
			}
		}
		return false
	}
	// generator coverage is counted for every call that was started, whether
	// or not it completed
	for i, c := range calls {
		o.Count("hist_buf_" + c.buf.class())
		if nonzeroOf(i) {
			o.Count("hist_buf_nonzero_before_call")
		}
	}
	for i, c := range calls {
		if i > 0 {
			sb.WriteByte(';')
		}
		if !res[i].sdone || !res[i].rdone {
			sb.WriteString("A")
			aborted = true
			break
		}
		o.Count("hist_calls")
		nonzero := nonzeroOf(i)
		if i > 0 && !c.buf.fresh && c.buf.pre == "k" && c.buf.off == calls[i-1].buf.off && !calls[i-1].buf.fresh && c.n == calls[i-1].n {
			o.Count("hist_same_slice_as_previous_call")
		}
		switch {
		case c.n > 1024:
			o.Count("hist_n_gt_1024")
		case c.n > 512:
			o.Count("hist_n_multi_chunk")
		default:
			o.Count("hist_n_single_chunk")
		}
		fmt.Fprintf(&sb, "resp=%s/s=%s/r=%s", labelsHex(res[i].resp), labelsHex(res[i].sent), labelsHex(res[i].rcvd))
		if res[i].frame != "" {
			o.Fail("c15-buffer-frame", map[string]any{"case": idx, "call": i, "what": res[i].frame, "replay": replay,
				"history": clipS(strings.Join(brief, ";"), 400)})
		}
		bad := -1
		if len(res[i].sent) != c.n || len(res[i].rcvd) != c.n {
			bad = 0
		} else {
			for k := 0; k < c.n; k++ {
				want := res[i].sent[k]
				if c.b[k] {
					want.Xor(delta)
				}
				if !res[i].rcvd[k].Equal(want) {
					bad = k
					break
				}
			}
		}
		if bad >= 0 {
			o.Fail("c15-honest-corr", map[string]any{"case": idx, "call": i, "n": c.n, "first_bad": bad, "how": "history",
				"result_buffer": c.buf.String(), "result_buffer_nonzero_before_call": nonzero, "replay": replay,
				"history": clipS(strings.Join(brief, ";"), 400)})
		}
	}
	if es != nil || er != nil || to || aborted {
		o.Fail("c15-honest-abort", map[string]any{"case": idx, "how": "history", "seed": seed,
			"sender_err": errStr(es), "receiver_err": errStr(er), "timeout": to, "delta_kind": dkind,
			"history": clipS(strings.Join(brief, ";"), 400), "replay": replay})
	} else {
		o.Count("hist_cases_ok")
	}
	o.Op(op, sb.String())
	if idx < 2 {
		o.Sample(map[string]any{"case": idx, "mode": "hist", "history": brief, "arena_labels": arenaN})
	}
}

package main

// c15 mhist: MIXED histories on one initialised IKNP pair.
//
// "Honest executions never abort" quantifies over every honest execution of a
// pair with the malicious option in use.  The pair offers three call kinds that
// all draw from the same per-column PRG streams g0/g1:
//
//	M  Receive(b, result, true)  / Send(n, true)    malicious-mode labels (with the check)
//	L  Receive(b, result, false) / Send(n, false)   semi-honest labels
//	B  ReceiveBits(choices, result, n) / SendBits(n, result)   packed bits
//
// The hist mode runs histories of M calls only.  This mode interleaves all
// three kinds in every order (every ordered pair of kinds occurs as consecutive
// calls, planned by case index), sizes around 8/64/128/512/1024, with an M call
// after every prefix: whether an M call passes its check depends on EVERY
// earlier call of EVERY kind having advanced all 128 streams of both parties by
// the same amount.  The op line (`c15 mhist ...`) carries the history; the Lean
// model (Kos.sessionM = Kos.runKCall + C06's Iknp.runCallB, stream positions
// threaded through all kinds) must produce the same responses and outputs.
//
// Oracle: no call aborts; label calls: recv_i = sent_i xor choice_i*Delta;
// packed-bit calls: r_j = s_j xor (Delta.Bit(0) and c_j) for j < n.

import (
	"fmt"
	"strings"
	"time"

	"github.com/markkurossi/mpc/ot"

	"verifharness/hxlib"
)

type mcall struct {
	kind  string // M | L | B
	n     int
	b     []bool
	words []uint64 // B: the choice words
	ckind string
	buf   bufSpec
}

var mixPatterns = [][]string{
	{"B", "M"}, {"L", "M"}, {"M", "B", "M"}, {"B", "L", "M"}, {"L", "B", "M", "M"}, {"B", "B", "M"},
	{"M", "L", "B", "M"}, {"B", "M", "B", "M"}, {"L", "L", "M"}, {"M", "M", "B", "L", "M"}, {"M", "L", "M"},
	{"B", "M", "L", "M"},
}

func wordsHexU(ws []uint64) string {
	if len(ws) == 0 {
		return "-"
	}
	var sb strings.Builder
	for _, w := range ws {
		fmt.Fprintf(&sb, "%016x", w)
	}
	return sb.String()
}

func mhistMode(args []string) int {
	cf, o := hxlib.ParseCommon("mhist", args, nil)
	defer o.Close()
	rng := hxlib.NewRng(cf.Seed*0x9e3779b97f4a7c15 ^ 0x6d68697374)
	sizes := []int{1, 7, 8, 9, 63, 64, 65, 100, 127, 128, 129, 200, 255, 256, 257, 300, 511, 512, 513, 520, 600, 777, 1023, 1024,
		1025, 1100}
	// packed-bit sizes: byte rows per chunk that are / are not a multiple of 8, partial words, several chunks
	bsizes := []int{1, 8, 10, 63, 64, 65, 100, 128, 192, 448, 449, 512, 513, 576, 1000, 1024, 1088, 2049}
	dk := []string{"random", "random", "ones", "random", "bit0", "random", "zero", "bit127"}
	for idx := 0; idx < cf.N; idx++ {
		r := rng.Fork()
		if cf.Only >= 0 && idx != cf.Only {
			continue
		}
		kinds := append([]string(nil), mixPatterns[idx%len(mixPatterns)]...)
		if r.Intn(3) == 0 {
			kinds = append(kinds, []string{"B", "L", "M"}[r.Intn(3)], "M")
		}
		calls := make([]mcall, len(kinds))
		arena := 0
		nm := 0
		for j, k := range kinds {
			c := mcall{kind: k}
			if k == "B" {
				c.n = bsizes[(idx+3*j)%len(bsizes)]
				if r.Intn(3) == 0 {
					c.n = 1 + r.Intn(2100)
				}
				c.ckind = choiceKinds[r.Intn(len(choiceKinds))]
				c.b = genChoices(r, c.n, c.ckind)
				c.words = make([]uint64, (c.n+63)/64)
				for i, v := range c.b {
					if v {
						c.words[i/64] |= 1 << uint(i%64)
					}
				}
			} else {
				c.n = sizes[r.Intn(len(sizes))]
				if j == len(kinds)-1 {
					c.n = sizes[(idx*5+1)%len(sizes)]
				}
				c.ckind = choiceKinds[r.Intn(len(choiceKinds))]
				c.b = genChoices(r, c.n, c.ckind)
				if c.n > arena {
					arena = c.n
				}
				if k == "M" {
					nm++
				}
			}
			calls[j] = c
		}
		arena += r.Intn(5)
		for j := range calls {
			if calls[j].kind != "B" {
				calls[j].buf = genBuf(r, calls[j].n, arena)
			}
		}
		s := newSession(r, idx, 1, "zero", dk[idx%len(dk)]) // only for the sender tape / Delta kinds
		rtape := r.Bytes(2*kCols*16 + 48*nm)
		mhistCase(o, cf.Seed, idx, s.stape, rtape, arena, calls, dk[idx%len(dk)])
	}
	return 0
}

func mhistCase(o *hxlib.Out, seed uint64, idx int, stape, rtape []byte, arenaN int, calls []mcall, dkind string) {
	specs := make([]string, len(calls))
	brief := make([]string, len(calls))
	for i, c := range calls {
		if c.kind == "B" {
			specs[i] = fmt.Sprintf("B:%d:%s", c.n, wordsHexU(c.words))
			brief[i] = fmt.Sprintf("B n=%d/%s", c.n, c.ckind)
		} else {
			specs[i] = fmt.Sprintf("%s:%d:%s:%s", c.kind, c.n, hxlib.BitsString(c.b), c.buf)
			brief[i] = fmt.Sprintf("%s n=%d/%s[result=%s]", c.kind, c.n, c.ckind, c.buf)
		}
	}
	op := fmt.Sprintf("c15 mhist %s %s %d %s", hxlib.Hex(stape), hxlib.Hex(rtape), arenaN, strings.Join(specs, ";"))
	replay := fmt.Sprintf("hx c15 mhist -seed %d -only %d", seed, idx)

	a, b := ot.NewPipe()
	rr := &recIO{IO: b}
	base := newChanOT()
	type cres struct {
		sent, rcvd   []ot.Label
		resp         []ot.Label
		sw, rw       []uint64
		sdone, rdone bool
	}
	res := make([]cres, len(calls))
	var delta ot.Label
	fs := func() error {
		snd, err := ot.NewIKNPSender(base, a, &hxlib.Tape{Data: stape}, nil)
		if err != nil {
			return err
		}
		delta = snd.Delta
		for i, c := range calls {
			if c.kind == "B" {
				w := make([]uint64, (c.n+63)/64)
				if err := snd.SendBits(c.n, w); err != nil {
					return fmt.Errorf("call %d (%s): %v", i, c.kind, err)
				}
				res[i].sw = w
			} else {
				out, err := snd.Send(c.n, c.kind == "M")
				if err != nil {
					return fmt.Errorf("call %d (%s): %v", i, c.kind, err)
				}
				res[i].sent = out
			}
			res[i].sdone = true
		}
		return nil
	}
	fr := func() error {
		rcv, err := ot.NewIKNPReceiver(base, rr, &hxlib.Tape{Data: rtape})
		if err != nil {
			return err
		}
		arena := make([]ot.Label, arenaN)
		for i, c := range calls {
			if c.kind == "B" {
				w := make([]uint64, (c.n+63)/64)
				if err := rcv.ReceiveBits(c.words, w, c.n); err != nil {
					return fmt.Errorf("call %d (%s): %v", i, c.kind, err)
				}
				res[i].rw = w
				res[i].rdone = true
				continue
			}
			var out []ot.Label
			if c.buf.fresh {
				out = make([]ot.Label, c.n)
			} else {
				if bs := preBytes(c.buf.pre, 16*arenaN); bs != nil {
					for j := range arena {
						arena[j].SetBytes(bs[16*j : 16*j+16])
					}
				}
				out = arena[c.buf.off : c.buf.off+c.n]
			}
			rr.labels = nil
			if err := rcv.Receive(c.b, out, c.kind == "M"); err != nil {
				return fmt.Errorf("call %d (%s): %v", i, c.kind, err)
			}
			res[i].rcvd = append([]ot.Label(nil), out...)
			res[i].resp = append([]ot.Label(nil), rr.labels...)
			res[i].rdone = true
		}
		return nil
	}
	es, er, to := runPair(func() { a.Close(); b.Close() }, fs, fr, 30*time.Second)
	o.Count("mhist_cases")
	o.Count("mhist_delta_" + dkind)
	for i, c := range calls {
		o.Count("mhist_planned_" + c.kind)
		if i > 0 {
			o.Count("mhist_planned_" + calls[i-1].kind + "_then_" + c.kind)
		}
	}
	var sb strings.Builder
	aborted := -1
	for i, c := range calls {
		if i > 0 {
			sb.WriteByte(';')
		}
		if !res[i].sdone || !res[i].rdone {
			sb.WriteString("A")
			aborted = i
			break
		}
		o.Count("mhist_calls")
		o.Count("mhist_calls_" + c.kind)
		if i > 0 {
			o.Count("mhist_" + calls[i-1].kind + "_then_" + c.kind)
		}
		bad := -1
		if c.kind == "B" {
			fmt.Fprintf(&sb, "sw=%s/rw=%s", wordsHexU(res[i].sw), wordsHexU(res[i].rw))
			d0 := delta.Bit(0) == 1
			for j := 0; j < c.n; j++ {
				sbit := res[i].sw[j/64]>>uint(j%64)&1 == 1
				rbit := res[i].rw[j/64]>>uint(j%64)&1 == 1
				if rbit != (sbit != (d0 && c.b[j])) {
					bad = j
					break
				}
			}
			if c.n%64 != 0 {
				o.Count("mhist_B_partial_word")
			}
			if ((c.n%512)+7)/8%8 != 0 {
				o.Count("mhist_B_byte_rows_not_multiple_of_8")
			}
		} else {
			if c.kind == "M" {
				fmt.Fprintf(&sb, "resp=%s/", labelsHex(res[i].resp))
			}
			fmt.Fprintf(&sb, "s=%s/r=%s", labelsHex(res[i].sent), labelsHex(res[i].rcvd))
			if len(res[i].sent) != c.n || len(res[i].rcvd) != c.n {
				bad = 0
			} else {
				for k := 0; k < c.n; k++ {
					want := res[i].sent[k]
					if c.b[k] {
						want.Xor(delta)
					}
					if !res[i].rcvd[k].Equal(want) {
						bad = k
						break
					}
				}
			}
		}
		if bad >= 0 {
			o.Fail("c15-honest-corr", map[string]any{"case": idx, "call": i, "kind": c.kind, "n": c.n, "first_bad": bad,
				"how": "mixed-history", "replay": replay, "history": clipS(strings.Join(brief, ";"), 400)})
		}
	}
	if es != nil || er != nil || to || aborted >= 0 {
		prev := ""
		for i := 0; i < aborted; i++ {
			prev += calls[i].kind
		}
		kind := ""
		if aborted >= 0 {
			kind = calls[aborted].kind
		}
		o.Fail("c15-honest-abort", map[string]any{"case": idx, "how": "mixed-history", "seed": seed, "aborted_call": aborted,
			"aborted_kind": kind, "kinds_before": prev, "sender_err": errStr(es), "receiver_err": errStr(er), "timeout": to,
			"delta_kind": dkind, "history": clipS(strings.Join(brief, ";"), 400), "replay": replay})
	} else {
		o.Count("mhist_cases_ok")
	}
	o.Op(op, sb.String())
	if idx < 2 {
		o.Sample(map[string]any{"case": idx, "mode": "mhist", "history": brief, "arena_labels": arenaN})
	}
}

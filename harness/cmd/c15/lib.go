package main

import (
	"crypto/aes"
	"crypto/cipher"
	"fmt"
	"strings"
	"sync"
	"time"

	"github.com/markkurossi/mpc/ot"

	"verifharness/hxlib"
)

// ---------------------------------------------------------------- transport

// recIO wraps an ot.IO and records what the wrapped side sends (SendData
// payloads and SendLabel values), in order.
type recIO struct {
	ot.IO
	mu     sync.Mutex
	data   [][]byte
	labels []ot.Label
}

func (r *recIO) SendData(v []byte) error {
	r.mu.Lock()
	r.data = append(r.data, append([]byte(nil), v...))
	r.mu.Unlock()
	return r.IO.SendData(v)
}

func (r *recIO) SendLabel(v ot.Label, d *ot.LabelData) error {
	r.mu.Lock()
	r.labels = append(r.labels, v)
	r.mu.Unlock()
	return r.IO.SendLabel(v, d)
}

// tamperIO wraps the SENDER's ot.IO: the m-th ReceiveData result and the k-th
// ReceiveLabel result are altered in transit as the fault says.
type tamperIO struct {
	ot.IO
	f      fault
	nData  int
	nLabel int
}

func (t *tamperIO) ReceiveData() ([]byte, error) {
	d, err := t.IO.ReceiveData()
	if err != nil {
		return d, err
	}
	m := t.nData
	t.nData++
	out := append([]byte(nil), d...)
	for _, a := range t.f.atoms {
		if a.data && a.idx == m && a.off < len(out) {
			out[a.off] ^= a.mask
		}
	}
	return out, nil
}

func (t *tamperIO) ReceiveLabel(val *ot.Label, data *ot.LabelData) error {
	if err := t.IO.ReceiveLabel(val, data); err != nil {
		return err
	}
	k := t.nLabel
	t.nLabel++
	var d ot.LabelData
	val.GetData(&d)
	for _, a := range t.f.atoms {
		if !a.data && a.idx == k && a.off < 16 {
			d[a.off] ^= a.mask
		}
	}
	val.SetData(&d)
	return nil
}

// scriptIO is the sender's ot.IO fed from a recorded (and altered) transcript:
// first the SendData payloads, then the SendLabel values, in the order the
// receiver sent them.  Nothing is sent back in this protocol phase.
type scriptIO struct {
	data   [][]byte
	labels []ot.Label
	di, li int
}

var errScript = fmt.Errorf("script: no such message")

func (s *scriptIO) SendByte(val byte) error                       { return nil }
func (s *scriptIO) SendUint32(val int) error                      { return nil }
func (s *scriptIO) SendData(val []byte) error                     { return nil }
func (s *scriptIO) SendLabel(val ot.Label, d *ot.LabelData) error { return nil }
func (s *scriptIO) Flush() error                                  { return nil }
func (s *scriptIO) ReceiveByte() (byte, error)                    { return 0, errScript }
func (s *scriptIO) ReceiveUint32() (int, error)                   { return 0, errScript }
func (s *scriptIO) ReceiveData() ([]byte, error) {
	if s.di >= len(s.data) || s.li > 0 {
		return nil, errScript
	}
	d := s.data[s.di]
	s.di++
	return d, nil
}
func (s *scriptIO) ReceiveLabel(val *ot.Label, d *ot.LabelData) error {
	if s.di < len(s.data) || s.li >= len(s.labels) {
		return errScript
	}
	*val = s.labels[s.li]
	s.li++
	return nil
}

// ---------------------------------------------------------------- base OT

// chanOT is an in-process ideal 1-out-of-2 OT (live runs).
type chanOT struct {
	ch chan []ot.Wire
}

func newChanOT() *chanOT { return &chanOT{ch: make(chan []ot.Wire, 16)} }

func (c *chanOT) InitSender(io ot.IO) error   { return nil }
func (c *chanOT) InitReceiver(io ot.IO) error { return nil }
func (c *chanOT) Send(w []ot.Wire) error {
	c.ch <- append([]ot.Wire(nil), w...)
	return nil
}
func (c *chanOT) Receive(flags []bool, result []ot.Label) error {
	select {
	case w := <-c.ch:
		if len(w) != len(flags) || len(result) != len(flags) {
			return fmt.Errorf("chanOT: length mismatch %d %d %d", len(w), len(flags), len(result))
		}
		for i, f := range flags {
			if f {
				result[i] = w[i].L1
			} else {
				result[i] = w[i].L0
			}
		}
		return nil
	case <-time.After(20 * time.Second):
		return fmt.Errorf("chanOT: timeout")
	}
}

// fixedOT hands the IKNP sender (= base OT receiver) the recorded wire labels
// selected by its flags (scripted runs).
type fixedOT struct {
	wires []ot.Wire
}

func (c *fixedOT) InitSender(io ot.IO) error   { return nil }
func (c *fixedOT) InitReceiver(io ot.IO) error { return nil }
func (c *fixedOT) Send(w []ot.Wire) error      { return fmt.Errorf("fixedOT: not a sender") }
func (c *fixedOT) Receive(flags []bool, result []ot.Label) error {
	if len(flags) != len(c.wires) || len(result) != len(flags) {
		return fmt.Errorf("fixedOT: length mismatch")
	}
	for i, f := range flags {
		if f {
			result[i] = c.wires[i].L1
		} else {
			result[i] = c.wires[i].L0
		}
	}
	return nil
}

// ---------------------------------------------------------------- two parties

// runPair runs the two party functions concurrently, recovers panics and
// gives up after the timeout (closing the pipe).
func runPair(closeAll func(), fs, fr func() error, timeout time.Duration) (es, er error, timedOut bool) {
	type res struct {
		who int
		err error
	}
	ch := make(chan res, 2)
	run := func(who int, f func() error) {
		var err error
		defer func() {
			if e := recover(); e != nil {
				err = fmt.Errorf("panic: %v", e)
			}
			ch <- res{who, err}
		}()
		err = f()
	}
	go run(0, fs)
	go run(1, fr)
	deadline := time.After(timeout)
	for got := 0; got < 2; {
		select {
		case r := <-ch:
			got++
			if r.who == 0 {
				es = r.err
			} else {
				er = r.err
			}
			if r.err != nil && got < 2 {
				// the other side may block forever on the dead peer
				select {
				case r2 := <-ch:
					got++
					if r2.who == 0 {
						es = r2.err
					} else {
						er = r2.err
					}
				case <-time.After(200 * time.Millisecond):
					closeAll()
					select {
					case r2 := <-ch:
						got++
						if r2.who == 0 {
							es = r2.err
						} else {
							er = r2.err
						}
					case <-time.After(2 * time.Second):
						return es, er, true
					}
				}
			}
		case <-deadline:
			closeAll()
			return es, er, true
		}
	}
	return es, er, false
}

// ---------------------------------------------------------------- helpers

func labelsHex(ls []ot.Label) string {
	if len(ls) == 0 {
		return "-"
	}
	var sb strings.Builder
	var d ot.LabelData
	for _, l := range ls {
		l.GetData(&d)
		sb.WriteString(hxlib.Hex(d[:]))
	}
	return sb.String()
}

func labelFromBytes(b []byte) ot.Label {
	var l ot.Label
	l.SetBytes(b)
	return l
}

func xorLabel(a, b ot.Label) ot.Label {
	a.Xor(b)
	return a
}

func errStr(e error) string {
	if e == nil {
		return ""
	}
	s := e.Error()
	if len(s) > 300 {
		s = s[:300]
	}
	return s
}

func clipS(s string, n int) string {
	if len(s) > n {
		return s[:n] + "..."
	}
	return s
}

// chiStream: the first cnt labels of the AES-CTR key stream (zero IV) keyed by
// the seed, 16 bytes each, as ot.prgLabels reads them (the harness's own
// computation, used only to build the chi-aware alteration).
func chiStream(seed ot.Label, cnt int) []ot.Label {
	var ld ot.LabelData
	block, err := aes.NewCipher(seed.Bytes(&ld))
	if err != nil {
		panic(err)
	}
	var iv [16]byte
	st := cipher.NewCTR(block, iv[:])
	out := make([]ot.Label, cnt)
	buf := make([]byte, 16)
	for i := range out {
		for j := range buf {
			buf[j] = 0
		}
		st.XORKeyStream(buf, buf)
		out[i].SetBytes(buf)
	}
	return out
}

// shl256 returns l * X^i as (lo, hi): the unreduced carry-less product of l
// with the monomial X^i (bit j of a label = Label.Bit(j)).
func shl256(l ot.Label, i int) (lo, hi ot.Label) {
	for j := 0; j < 128; j++ {
		if l.Bit(j) == 1 {
			k := i + j
			if k < 128 {
				lo.SetBit(k, 1)
			} else {
				hi.SetBit(k-128, 1)
			}
		}
	}
	return
}

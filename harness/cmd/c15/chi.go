package main

// Recovery of the challenge coefficients from the REAL receiver's behaviour
// and search for GF(2)-linear relations among them.
//
// The soundness of the consistency check against alterations of several rows
// rests on the coefficients chi_r of different rows being unrelated: flips of
// one column i (selected by Delta) at the rows of a set S shift the sender's
// check value by (XOR_{r in S} chi_r) * X^i, so they are accepted iff the
// coefficients of S XOR to zero (Lean: C15_kos_set_accept_iff,
// C15_kos_pair_accept_iff, C15_kos_dependent_rows_forgery_witness).  Whatever
// the code does to derive the coefficients, the receiver's checksum x is the
// XOR of the coefficients of the rows whose choice bit is set
// (C15_kos_probe_recovers_chi), so n+256 probe calls of the real receiver with
// the session's seed and ONE choice bit set reveal every coefficient.  The
// recovered vector is searched for zero coefficients, equal pairs, XOR-triples
// and -quadruples, dependent windows of < 97 consecutive rows (all of these have
// probability < 2^-30 for independent coefficients: "structural") and, by
// Gaussian elimination, for a dependent set containing a given row (exists by
// dimension counting whenever more than 128 other rows are available:
// "generic", the known finding C15-kos-dependent-rows-forgery).  Every set
// found becomes alterations that are replayed on the real sender and judged by
// the oracle of this harness.

import (
	"fmt"
	"math/bits"
	"sort"
	"sync"

	"github.com/markkurossi/mpc/ot"

	"verifharness/hxlib"
)

// sinkOT is the base OT of a probe call: the receiver of the extension is
// the base-OT sender; nobody listens.
type sinkOT struct{}

func (sinkOT) InitSender(io ot.IO) error   { return nil }
func (sinkOT) InitReceiver(io ot.IO) error { return nil }
func (sinkOT) Send(w []ot.Wire) error      { return nil }
func (sinkOT) Receive(flags []bool, result []ot.Label) error {
	return fmt.Errorf("sinkOT: not a receiver")
}

// probeIO swallows everything the receiver sends and keeps the labels.
type probeIO struct {
	scriptIO
	sent []ot.Label
}

func (p *probeIO) SendLabel(v ot.Label, d *ot.LabelData) error {
	p.sent = append(p.sent, v)
	return nil
}

const tapeB0 = 2 * kCols * 16 // offset of b0, b1, seed2 on the receiver's tape

// probe runs the real receiver alone with the session's tape (same base-OT
// labels, same challenge seed) but with the choice bit of global row g as the
// only set choice bit (g < 0: none): payload choices e_g for g < n, otherwise
// the random choice vector (b0, b1) of the check batch replaced by e_(g-n).
// Returns the labels the receiver sent: seed2, x, t0, t1.
func (s *session) probe(g int) (labels []ot.Label, err error) {
	defer func() {
		if e := recover(); e != nil {
			err = fmt.Errorf("panic: %v", e)
		}
	}()
	tape := append([]byte(nil), s.rtape...)
	for i := tapeB0; i < tapeB0+32; i++ {
		tape[i] = 0
	}
	choices := make([]bool, s.n)
	if g >= 0 && g < s.n {
		choices[g] = true
	} else if g >= s.n {
		j := g - s.n
		var l ot.Label
		l.SetBit(j%128, 1)
		var d ot.LabelData
		l.GetData(&d)
		copy(tape[tapeB0+16*(j/128):], d[:])
	}
	io := &probeIO{}
	rcv, err := ot.NewIKNPReceiver(sinkOT{}, io, &hxlib.Tape{Data: tape})
	if err != nil {
		return nil, err
	}
	out := make([]ot.Label, s.n)
	if err := rcv.Receive(choices, out, true); err != nil {
		return nil, err
	}
	if len(io.sent) != 4 {
		return nil, fmt.Errorf("probe: %d labels sent", len(io.sent))
	}
	return io.sent, nil
}

// depSet is a set of global rows whose recovered coefficients XOR to zero.
type depSet struct {
	kind string // zero, pair, triple, quad, window, generic
	rows []int
}

type chiInfo struct {
	chi        []ot.Label
	err        string // recovery failed
	consistent bool   // zero probe gives x = 0 and the honest x is the XOR over the honest choices
	distinct   bool   // non-zero and pairwise distinct
	rank       int
	structural []depSet // zero / pair / triple / quad / window
	generic    []depSet
	nPairs     int
}

// degenerate: some relation that independent coefficients do not have (a
// structural set, or fewer than 128 independent coefficients among more than
// 256 rows).
func (ci *chiInfo) degenerate() bool { return len(ci.structural) > 0 || ci.rank < 128 }

// recoverChi: the coefficients of all n+256 rows of the session, by probes.
func (s *session) recoverChi() *chiInfo {
	total := s.n + checkRows
	ci := &chiInfo{chi: make([]ot.Label, total)}
	errs := make([]error, total+1)
	var zero []ot.Label
	var wg sync.WaitGroup
	work := make(chan int, 64)
	for w := 0; w < 12; w++ {
		wg.Add(1)
		go func() {
			defer wg.Done()
			for g := range work {
				ls, err := s.probe(g)
				if err != nil {
					errs[g+1] = err
					continue
				}
				if !ls[0].Equal(s.labels[0]) {
					errs[g+1] = fmt.Errorf("probe %d: seed %s, session seed %s", g, ls[0], s.labels[0])
					continue
				}
				if g < 0 {
					zero = ls
				} else {
					ci.chi[g] = ls[1]
				}
			}
		}()
	}
	for g := -1; g < total; g++ {
		work <- g
	}
	close(work)
	wg.Wait()
	for _, e := range errs {
		if e != nil {
			ci.err = e.Error()
			return ci
		}
	}
	// linearity: x of the honest call = XOR of the coefficients of its set choice bits
	var x ot.Label
	for i, c := range s.choices {
		if c {
			x.Xor(ci.chi[i])
		}
	}
	b0 := labelFromBytes(s.rtape[tapeB0 : tapeB0+16])
	b1 := labelFromBytes(s.rtape[tapeB0+16 : tapeB0+32])
	for j := 0; j < checkRows; j++ {
		bit := b0.Bit(j % 128)
		if j >= 128 {
			bit = b1.Bit(j - 128)
		}
		if bit == 1 {
			x.Xor(ci.chi[s.n+j])
		}
	}
	var none ot.Label
	ci.consistent = zero != nil && zero[1].Equal(none) && x.Equal(s.labels[1])
	return ci
}

// ---------------------------------------------------------------- GF(2) elimination

type gfVec [2]uint64

func vecOf(l ot.Label) gfVec { return gfVec{l.D0, l.D1} }

func (v gfVec) top() int {
	if v[0] != 0 {
		return 127 - bits.LeadingZeros64(v[0])
	}
	if v[1] != 0 {
		return 63 - bits.LeadingZeros64(v[1])
	}
	return -1
}

type gfBasis struct {
	vec   [128]gfVec
	combo [128][]uint64 // rows (bitset over all rows of the session) XORed into vec
	used  [128]bool
	rank  int
	words int
}

func newBasis(total int) *gfBasis { return &gfBasis{words: (total + 63) / 64} }

// add reduces the coefficient of row idx; if it reduces to zero the rows of
// the dependency (idx among them) are returned, otherwise it joins the basis.
func (b *gfBasis) add(v gfVec, idx int) []int {
	combo := make([]uint64, b.words)
	combo[idx/64] |= 1 << (idx % 64)
	for {
		t := v.top()
		if t < 0 {
			var rows []int
			for w, m := range combo {
				for m != 0 {
					k := bits.TrailingZeros64(m)
					rows = append(rows, w*64+k)
					m &^= 1 << k
				}
			}
			return rows
		}
		if !b.used[t] {
			b.used[t] = true
			b.vec[t] = v
			b.combo[t] = combo
			b.rank++
			return nil
		}
		v[0] ^= b.vec[t][0]
		v[1] ^= b.vec[t][1]
		for w := range combo {
			combo[w] ^= b.combo[t][w]
		}
	}
}

const windowRows = 96 // a dependent window of <= 96 rows has probability < 2^-32

// analyse searches the recovered coefficients for linear relations.
func (s *session) analyse(r *hxlib.Rng, ci *chiInfo) {
	total := len(ci.chi)
	chi := ci.chi
	var none ot.Label
	add := func(kind string, rows ...int) {
		sort.Ints(rows)
		ci.structural = append(ci.structural, depSet{kind: kind, rows: rows})
	}
	// zero coefficients, equal pairs
	byVal := map[ot.Label][]int{}
	for g, c := range chi {
		if c.Equal(none) {
			add("zero", g)
		}
		byVal[c] = append(byVal[c], g)
	}
	var pairs [][2]int
	for g, c := range chi { // in row order
		l := byVal[c]
		if len(l) > 1 && l[0] == g && !c.Equal(none) {
			for k := 1; k < len(l); k++ {
				pairs = append(pairs, [2]int{l[k-1], l[k]})
			}
		}
	}
	ci.nPairs = len(pairs)
	ci.distinct = len(ci.structural) == 0 && len(pairs) == 0
	if len(pairs) > 0 {
		pick := map[int]bool{0: true, len(pairs) - 1: true}
		for k := 0; k < 4; k++ {
			pick[r.Intn(len(pairs))] = true
		}
		var ks []int
		for k := range pick {
			ks = append(ks, k)
		}
		sort.Ints(ks)
		for _, k := range ks {
			add("pair", pairs[k][0], pairs[k][1])
		}
	}
	// XOR-triples chi_a ^ chi_b = chi_c (only meaningful without pairs / zeros)
	if ci.distinct {
		nt := 0
		for a := 0; a < total && nt < 3; a++ {
			for b := a + 1; b < total && nt < 3; b++ {
				x := chi[a]
				x.Xor(chi[b])
				if l, ok := byVal[x]; ok && l[0] > b {
					add("triple", a, b, l[0])
					nt++
				}
			}
		}
		// XOR-quadruples chi_a ^ chi_b = chi_c ^ chi_d
		if total <= 700 && nt == 0 {
			seen := make(map[ot.Label][2]int32, total*total/2)
			nq := 0
			for a := 0; a < total && nq < 3; a++ {
				for b := a + 1; b < total && nq < 3; b++ {
					x := chi[a]
					x.Xor(chi[b])
					if p, ok := seen[x]; ok {
						c, d := int(p[0]), int(p[1])
						if c != a && c != b && d != a && d != b {
							add("quad", a, b, c, d)
							nq++
						}
					} else {
						seen[x] = [2]int32{int32(a), int32(b)}
					}
				}
			}
		}
	}
	// rank of all coefficients
	full := newBasis(total)
	for g, c := range chi {
		if full.rank == 128 {
			break
		}
		full.add(vecOf(c), g)
	}
	ci.rank = full.rank
	// dependent windows of consecutive rows: from the first row, around every
	// 1024-row block boundary, at the start of the check batch, at the end
	if ci.distinct {
		starts := map[int]bool{0: true, s.n: true, total - windowRows: true, s.n - windowRows/2: true}
		for k := 1024; k < s.n; k += 1024 {
			starts[k] = true
			starts[k-windowRows/2] = true
		}
		var ss []int
		for st := range starts {
			if st >= 0 && st < total {
				ss = append(ss, st)
			}
		}
		sort.Ints(ss)
		nw := 0
		for _, st := range ss {
			bs := newBasis(total)
			for g := st; g < st+windowRows && g < total && nw < 3; g++ {
				if rows := bs.add(vecOf(chi[g]), g); rows != nil {
					add("window", rows...)
					nw++
					break
				}
			}
		}
	}
	// a dependent set containing a given row, by elimination over the others
	generic := func(target int, pool []int) {
		bs := newBasis(total)
		for _, g := range pool {
			if g == target {
				continue
			}
			if bs.rank == 128 {
				break
			}
			bs.add(vecOf(chi[g]), g) // a dependency among the pool alone is not needed here
		}
		if rows := bs.add(vecOf(chi[target]), target); rows != nil {
			ci.generic = append(ci.generic, depSet{kind: "generic", rows: rows})
		}
	}
	perm := func(lo, hi int) []int {
		p := make([]int, 0, hi-lo)
		for g := lo; g < hi; g++ {
			p = append(p, g)
		}
		for i := len(p) - 1; i > 0; i-- {
			j := r.Intn(i + 1)
			p[i], p[j] = p[j], p[i]
		}
		return p
	}
	generic(r.Intn(s.n), perm(0, total))             // contains a payload row
	generic(s.n+r.Intn(checkRows), perm(s.n, total)) // rows of the check batch only
}

// ---------------------------------------------------------------- alterations

func (s *session) posOfRow(g, col int) pos {
	if g < s.n {
		return pos{false, col, g}
	}
	return pos{true, col, g - s.n}
}

func rowsStr(rows []int) string {
	if len(rows) <= 12 {
		return fmt.Sprint(rows)
	}
	return fmt.Sprintf("%v...(%d rows)", rows[:12], len(rows))
}

// depFaults: for every dependent row set, the alteration "column c at every
// row of the set" for selected columns (accepted iff the coefficients really
// XOR to zero on the sender's side), an unselected column (harmless), and two
// selected columns at once.
func (s *session) depFaults(r *hxlib.Rng, ci *chiInfo) []fault {
	var sel, unsel []int
	for c := 0; c < kCols; c++ {
		if s.delta.Bit(c) == 1 {
			sel = append(sel, c)
		} else {
			unsel = append(unsel, c)
		}
	}
	var fs []fault
	mk := func(class string, rows []int, cols ...int) {
		var ps []pos
		for _, c := range cols {
			for _, g := range rows {
				ps = append(ps, s.posOfRow(g, c))
			}
		}
		f := s.flipsFault(class, ps...)
		f.note = fmt.Sprintf("rows %s (global: payload 0..%d, check batch %d..%d) whose recovered coefficients XOR to zero, column(s) %v",
			rowsStr(rows), s.n-1, s.n, s.n+checkRows-1, cols)
		fs = append(fs, f)
	}
	sets := append([]depSet(nil), ci.structural...)
	for _, g := range ci.generic {
		if ci.degenerate() {
			g.kind = "rank" // not the dimension-counting class: the coefficients are degenerate
		}
		sets = append(sets, g)
	}
	for _, d := range sets {
		class := "dep-" + d.kind
		if len(sel) > 0 {
			mk(class, d.rows, sel[0])
			if len(sel) > 1 {
				c := sel[1+r.Intn(len(sel)-1)]
				mk(class, d.rows, c)
				mk(class, d.rows, sel[len(sel)-1], sel[r.Intn(len(sel)-1)])
			}
		}
		if len(unsel) > 0 {
			mk(class+"-unselected", d.rows, unsel[r.Intn(len(unsel))])
		}
	}
	if s.n <= 130 {
		seen := map[string]bool{}
		for i := range fs {
			if !seen[fs[i].class] {
				seen[fs[i].class] = true
				fs[i].full = true
			}
		}
	}
	return fs
}

// chiOp: the op line that compares the recovered coefficients with the model's.
func (s *session) chiOp() string {
	var d ot.LabelData
	s.labels[0].GetData(&d)
	return fmt.Sprintf("c15 chi %s %d", hxlib.Hex(d[:]), s.n)
}

func (ci *chiInfo) result() string {
	if ci.err != "" {
		return "chi=error " + clipS(ci.err, 200)
	}
	return fmt.Sprintf("chi=%s/distinct=%v", labelsHex(ci.chi), ci.distinct)
}

package main

import (
	"fmt"
	"strings"
	"time"

	"github.com/markkurossi/mpc/ot"

	"verifharness/hxlib"
)

const (
	kCols     = 128
	chunkRows = 512
	checkRows = 256
)

// atom: XOR `mask` into byte `off` of the idx-th SendData payload (data) or of
// the idx-th SendLabel value (0 seed2, 1 x, 2 t0, 3 t1) on its way to the
// sender.
type atom struct {
	data bool
	idx  int
	off  int
	mask byte
}

type fault struct {
	atoms []atom
	full  bool   // the driver also runs the model sender on the altered messages
	class string // generator class (harness-side bookkeeping)
	note  string
}

func (f fault) spec() string {
	var sb strings.Builder
	if f.full {
		sb.WriteByte('!')
	}
	for i, a := range f.atoms {
		if i > 0 {
			sb.WriteByte('+')
		}
		k := byte('L')
		if a.data {
			k = 'D'
		}
		fmt.Fprintf(&sb, "%c%d.%d.%02x", k, a.idx, a.off, a.mask)
	}
	return sb.String()
}

// session: one malicious-mode call on a fresh pair, its honest transcript and
// outputs.
type session struct {
	idx     int
	n       int
	choices []bool
	ckind   string
	dkind   string
	stape   []byte
	rtape   []byte
	delta   ot.Label
	wires   []ot.Wire

	data     [][]byte   // receiver's SendData payloads, in order
	labels   []ot.Label // receiver's SendLabel values: seed2, x, t0, t1
	nPayload int        // number of payload chunks (the rest is the check batch)
	sent     []ot.Label
	rcvd     []ot.Label
}

func (s *session) op(faults []fault) string {
	specs := make([]string, len(faults))
	for i, f := range faults {
		specs[i] = f.spec()
	}
	fl := "-"
	if len(specs) > 0 {
		fl = strings.Join(specs, ";")
	}
	return fmt.Sprintf("c15 sess %s %s %d %s %s", hxlib.Hex(s.stape), hxlib.Hex(s.rtape), s.n,
		hxlib.BitsString(s.choices), fl)
}

// byteRowsOf returns the row width (bytes per column) of data message m.
func (s *session) byteRowsOf(m int) int { return len(s.data[m]) / kCols }

// flip returns the atom that flips matrix bit (column, row) of a batch:
// payload (row counted over the whole batch, padding rows of the last
// byte-row included) or check batch.
func (s *session) flip(check bool, col, row int) atom {
	m := row / chunkRows
	r := row % chunkRows
	if check {
		m += s.nPayload
	}
	w := s.byteRowsOf(m)
	return atom{data: true, idx: m, off: col*w + r/8, mask: 1 << (r % 8)}
}

// payloadRows: rows present on the wire for the payload batch (incl. padding).
func (s *session) payloadRows() int {
	rows := 0
	for m := 0; m < s.nPayload; m++ {
		rows += s.byteRowsOf(m) * 8
	}
	return rows
}

// wireRowToGlobal maps a wire row of the payload batch (chunk-relative layout:
// every chunk but the last has 512 rows) to itself; rows >= n are padding.
func (s *session) isPadding(check bool, row int) bool {
	if check {
		return false
	}
	return row >= s.n
}

// runHonest runs the real receiver and the real sender over ot.Pipe and
// records the transcript.
func (s *session) runHonest() (es, er error, timedOut bool) {
	a, b := ot.NewPipe()
	rr := &recIO{IO: b}
	base := newChanOT()
	s.wires = make([]ot.Wire, kCols)
	for i := range s.wires {
		s.wires[i].L0 = labelFromBytes(s.rtape[32*i : 32*i+16])
		s.wires[i].L1 = labelFromBytes(s.rtape[32*i+16 : 32*i+32])
	}
	fs := func() error {
		snd, err := ot.NewIKNPSender(base, a, &hxlib.Tape{Data: s.stape}, nil)
		if err != nil {
			return err
		}
		s.delta = snd.Delta
		out, err := snd.Send(s.n, true)
		if err != nil {
			return err
		}
		s.sent = out
		return nil
	}
	fr := func() error {
		rcv, err := ot.NewIKNPReceiver(base, rr, &hxlib.Tape{Data: s.rtape})
		if err != nil {
			return err
		}
		out := make([]ot.Label, s.n)
		if err := rcv.Receive(s.choices, out, true); err != nil {
			return err
		}
		s.rcvd = out
		return nil
	}
	es, er, timedOut = runPair(func() { a.Close(); b.Close() }, fs, fr, 30*time.Second)
	s.data, s.labels = rr.data, rr.labels
	s.nPayload = (s.n + chunkRows - 1) / chunkRows
	return
}

// outcome of one sender run.
type outcome struct {
	abort bool
	err   string
	sent  []ot.Label
}

func (o outcome) str(honest []ot.Label) string {
	if o.abort {
		return "A"
	}
	if len(o.sent) == len(honest) {
		same := true
		for i := range honest {
			if !o.sent[i].Equal(honest[i]) {
				same = false
				break
			}
		}
		if same {
			return "="
		}
	}
	return "K" + labelsHex(o.sent)
}

// runScripted runs a FRESH real sender (same Delta, same base-OT keys) on the
// recorded transcript altered by the fault.
func (s *session) runScripted(f fault) (o outcome) {
	data := make([][]byte, len(s.data))
	for i := range data {
		data[i] = s.data[i]
	}
	labels := append([]ot.Label(nil), s.labels...)
	for _, a := range f.atoms {
		if a.data {
			if a.idx < len(data) && a.off < len(data[a.idx]) {
				if &data[a.idx][0] == &s.data[a.idx][0] {
					data[a.idx] = append([]byte(nil), s.data[a.idx]...)
				}
				data[a.idx][a.off] ^= a.mask
			}
		} else if a.idx < len(labels) && a.off < 16 {
			var d ot.LabelData
			labels[a.idx].GetData(&d)
			d[a.off] ^= a.mask
			labels[a.idx].SetData(&d)
		}
	}
	defer func() {
		if e := recover(); e != nil {
			o = outcome{abort: true, err: fmt.Sprintf("panic: %v", e)}
		}
	}()
	io := &scriptIO{data: data, labels: labels}
	delta := s.delta
	snd, err := ot.NewIKNPSender(&fixedOT{wires: s.wires}, io, nil, &delta)
	if err != nil {
		return outcome{abort: true, err: "setup: " + err.Error()}
	}
	out, err := snd.Send(s.n, true)
	if err != nil {
		return outcome{abort: true, err: err.Error()}
	}
	return outcome{sent: out}
}

// runLive runs the real receiver and the real sender concurrently over
// ot.Pipe, the sender behind a tampering ot.IO wrapper.
func (s *session) runLive(f fault) (o outcome, rcvd []ot.Label, bad string) {
	a, b := ot.NewPipe()
	base := newChanOT()
	var sent []ot.Label
	fs := func() error {
		snd, err := ot.NewIKNPSender(base, &tamperIO{IO: a, f: f}, &hxlib.Tape{Data: s.stape}, nil)
		if err != nil {
			return fmt.Errorf("setup: %v", err)
		}
		out, err := snd.Send(s.n, true)
		if err != nil {
			return err
		}
		sent = out
		return nil
	}
	fr := func() error {
		rcv, err := ot.NewIKNPReceiver(base, b, &hxlib.Tape{Data: s.rtape})
		if err != nil {
			return err
		}
		out := make([]ot.Label, s.n)
		if err := rcv.Receive(s.choices, out, true); err != nil {
			return err
		}
		rcvd = out
		return nil
	}
	es, er, to := runPair(func() { a.Close(); b.Close() }, fs, fr, 20*time.Second)
	if to {
		bad = "timeout"
	}
	if er != nil {
		bad = "receiver: " + errStr(er)
	}
	if es != nil {
		return outcome{abort: true, err: errStr(es)}, rcvd, bad
	}
	return outcome{sent: sent}, rcvd, bad
}

// correlated: recv_i = sent_i xor choice_i*Delta for the receiver's ORIGINAL
// choices, at every position; returns the first bad index.
func (s *session) correlated(sent, rcvd []ot.Label) (bool, int) {
	if len(sent) != s.n || len(rcvd) != s.n {
		return false, -1
	}
	for i := 0; i < s.n; i++ {
		want := sent[i]
		if s.choices[i] {
			want.Xor(s.delta)
		}
		if !rcvd[i].Equal(want) {
			return false, i
		}
	}
	return true, -1
}

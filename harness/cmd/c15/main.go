// Harness of property C15 (malicious-mode OT extension detects a deviating
// receiver): runs the real code of /repo/ot in-process.
//
//	c15 sess    honest malicious-mode sessions over a size sweep + fault
//	            enumeration on sessions with n in {1, 8, 9} (quick: seeded
//	            sample, all positions of row 0 of both batches, one flip per
//	            column, double/multi flips, padding rows, every byte of the
//	            response; thorough: every (column,row) position of the payload
//	            and of the 256-row check batch for n = 1..9).  Every fault is
//	            replayed on a FRESH real sender behind a scripted ot.IO carrying
//	            the altered transcript; a sample also live (real receiver and
//	            sender over ot.Pipe, tampering ot.IO wrapper).  Op lines for the
//	            Lean model + implementation-side oracle.  For EVERY session the
//	            challenge coefficients are recovered from the real receiver
//	            (chi.go), compared with the model's (op `chi`), searched for
//	            linear relations, and every dependent row set found is turned
//	            into multi-row alterations of one column (classes dep-*).
//
//	c15 hist    histories of 2-4 honest malicious-mode calls on one pair, every
//	            call with a named result buffer (fresh, the slice of the previous
//	            call, a window of an array of ones / one byte value / random
//	            bytes): hist.go.
//
// Oracle (independent of the model): an accepted run must have outputs with
// recv_i = sent_i xor choice_i*Delta for the receiver's ORIGINAL choices, and
// no altered matrix bit may lie in a column selected by Delta (a non-padding
// row); honest sessions must not abort.
package main

import (
	"fmt"
	"os"
	"sort"
	"strings"
	"sync"

	"github.com/markkurossi/mpc/ot"

	"verifharness/hxlib"
)

func main() {
	if len(os.Args) < 2 {
		fmt.Fprintln(os.Stderr, "usage: c15 sess|hist|mhist [flags] | c15 consts -repo DIR")
		os.Exit(2)
	}
	switch os.Args[1] {
	case "sess":
		os.Exit(sessMode(os.Args[2:]))
	case "hist":
		os.Exit(histMode(os.Args[2:]))
	case "mhist":
		os.Exit(mhistMode(os.Args[2:]))
	case "consts":
		os.Exit(constsMode(os.Args[2:]))
	default:
		fmt.Fprintf(os.Stderr, "unknown mode %q\n", os.Args[1])
		os.Exit(2)
	}
}

var sweepSizes = []int{1, 2, 7, 8, 9, 15, 16, 17, 63, 64, 65, 127, 128, 129, 255, 256, 257, 511, 512, 513,
	1023, 1024, 1025, 1537, 2049}

var sweepSizesThorough = []int{3, 10, 56, 57, 100, 120, 191, 192, 193, 448, 449, 504, 505, 519, 520, 521, 575, 576,
	577, 639, 640, 641, 1535, 1536, 2047, 2048, 2560, 3073}

func genChoices(r *hxlib.Rng, n int, kind string) []bool {
	b := make([]bool, n)
	switch kind {
	case "one":
		for i := range b {
			b[i] = true
		}
	case "random":
		for i := range b {
			b[i] = r.Bool()
		}
	case "alt":
		for i := range b {
			b[i] = i%2 == 0
		}
	case "tail":
		t := 1 + r.Intn(9)
		for i := n - t; i < n; i++ {
			if i >= 0 {
				b[i] = true
			}
		}
	}
	return b
}

var choiceKinds = []string{"random", "zero", "one", "alt", "tail", "random"}

func newSession(r *hxlib.Rng, idx, n int, ckind, dkind string) *session {
	s := &session{idx: idx, n: n, ckind: ckind, dkind: dkind}
	s.choices = genChoices(r, n, ckind)
	s.stape = r.Bytes(16)
	switch dkind {
	case "ones":
		for j := range s.stape {
			s.stape[j] = 0xff
		}
	case "zero":
		for j := range s.stape {
			s.stape[j] = 0
		}
	case "bit0":
		for j := range s.stape {
			s.stape[j] = 0
		}
		s.stape[7] = 1 // Delta = Label{D0: 1}: only column 0 selected
	case "bit127":
		for j := range s.stape {
			s.stape[j] = 0
		}
		s.stape[8] = 0x80 // Delta.Bit(127)
	}
	s.rtape = r.Bytes(2*kCols*16 + 48)
	return s
}

// ---------------------------------------------------------------- fault generation

type pos struct {
	check    bool
	col, row int
}

func (s *session) flipsFault(class string, ps ...pos) fault {
	f := fault{class: class}
	for _, p := range ps {
		f.atoms = append(f.atoms, s.flip(p.check, p.col, p.row))
	}
	return f
}

func (s *session) randPos(r *hxlib.Rng, check bool) pos {
	if check {
		return pos{true, r.Intn(kCols), r.Intn(checkRows)}
	}
	return pos{false, r.Intn(kCols), r.Intn(s.payloadRows())}
}

func (s *session) randRealPos(r *hxlib.Rng) pos {
	if r.Intn(2) == 0 {
		return pos{true, r.Intn(kCols), r.Intn(checkRows)}
	}
	return pos{false, r.Intn(kCols), r.Intn(s.n)}
}

func respAtom(k, off int, mask byte) atom { return atom{data: false, idx: k, off: off, mask: mask} }

var respNames = []string{"seed", "x", "t0", "t1"}

// adaptive builds the chi-aware alteration: flip (col,row) and XOR
// chi_row * X^col into (t0,t1) — what someone who reads seed2 off the wire and
// guesses Delta.Bit(col) = 1 would send.
func (s *session) adaptive(chi []ot.Label, p pos) fault {
	f := s.flipsFault("adaptive-chi-aware", p)
	g := p.row
	if p.check {
		g += s.n
	}
	lo, hi := shl256(chi[g], p.col)
	var dl, dh ot.LabelData
	lo.GetData(&dl)
	hi.GetData(&dh)
	for i := 0; i < 16; i++ {
		if dl[i] != 0 {
			f.atoms = append(f.atoms, respAtom(2, i, dl[i]))
		}
		if dh[i] != 0 {
			f.atoms = append(f.atoms, respAtom(3, i, dh[i]))
		}
	}
	return f
}

func (s *session) genFaults(r *hxlib.Rng, rd *hxlib.Rng, ci *chiInfo, exhaustive bool, sample int) []fault {
	var fs []fault
	add := func(f fault) { fs = append(fs, f) }
	add(fault{class: "none", full: true})
	prows := s.payloadRows()
	if exhaustive {
		for row := 0; row < prows; row++ {
			for col := 0; col < kCols; col++ {
				add(s.flipsFault("all-payload", pos{false, col, row}))
			}
		}
		for row := 0; row < checkRows; row++ {
			for col := 0; col < kCols; col++ {
				add(s.flipsFault("all-check", pos{true, col, row}))
			}
		}
	} else {
		for col := 0; col < kCols; col++ {
			add(s.flipsFault("row0-payload", pos{false, col, 0}))
		}
		for col := 0; col < kCols; col++ {
			add(s.flipsFault("row0-check", pos{true, col, 0}))
		}
		// last row of each batch
		for col := 0; col < kCols; col++ {
			add(s.flipsFault("lastrow-check", pos{true, col, checkRows - 1}))
			if s.n > 1 {
				add(s.flipsFault("lastrow-payload", pos{false, col, s.n - 1}))
			}
		}
		// the highest columns (their products reach the top of the 256-bit result)
		for col := kCols - 8; col < kCols; col++ {
			for k := 0; k < 12; k++ {
				add(s.flipsFault("highcol", s.randRealPos(r), pos{true, col, r.Intn(checkRows)}))
				add(s.flipsFault("highcol", pos{true, col, r.Intn(checkRows)}))
			}
		}
		// one flip per column at a random row of each batch: both halves of
		// the Delta-selected / unselected column split
		for col := 0; col < kCols; col++ {
			add(s.flipsFault("split-payload", pos{false, col, r.Intn(s.n)}))
			add(s.flipsFault("split-check", pos{true, col, r.Intn(checkRows)}))
		}
		for i := 0; i < sample; i++ {
			if i%5 < 2 {
				add(s.flipsFault("sample-payload", s.randPos(r, false)))
			} else {
				add(s.flipsFault("sample-check", s.randPos(r, true)))
			}
		}
	}
	// the same column at payload row k and check row k (and k, k+1): would
	// cancel if the challenge stream were restarted or shared between rows
	for col := 0; col < kCols; col++ {
		k := r.Intn(s.n)
		add(s.flipsFault("aligned-pair", pos{false, col, k}, pos{true, col, k}))
		k2 := r.Intn(checkRows - 1)
		add(s.flipsFault("aligned-pair", pos{true, col, k2}, pos{true, col, k2 + 1}))
	}
	// padding rows of the last byte-row
	if prows > s.n {
		for col := 0; col < kCols; col += 3 {
			add(s.flipsFault("padding", pos{false, col, s.n + r.Intn(prows-s.n)}))
		}
	}
	nd := 120
	if exhaustive {
		nd = 600
	}
	for i := 0; i < nd; i++ {
		var a, b pos
		switch i % 6 {
		case 0: // same row, two columns
			a = s.randRealPos(r)
			b = pos{a.check, (a.col + 1 + r.Intn(kCols-1)) % kCols, a.row}
		case 1: // same column, two rows of one batch
			a = pos{true, r.Intn(kCols), r.Intn(checkRows)}
			b = pos{true, a.col, (a.row + 1 + r.Intn(checkRows-1)) % checkRows}
		case 2: // same column, payload + check
			a = pos{false, r.Intn(kCols), r.Intn(s.n)}
			b = pos{true, a.col, r.Intn(checkRows)}
		case 3: // same byte of the transmitted column (rows r, r^1)
			a = pos{true, r.Intn(kCols), r.Intn(checkRows)}
			if s.n > 1 && i%12 == 3 {
				a = pos{false, r.Intn(kCols), r.Intn(s.n - s.n%2)}
			}
			b = pos{a.check, a.col, a.row ^ 1}
		default:
			a = s.randRealPos(r)
			b = s.randRealPos(r)
			if a == b {
				b.col = (b.col + 1) % kCols
			}
		}
		add(s.flipsFault("double", a, b))
	}
	for i := 0; i < nd/2; i++ {
		k := 3 + r.Intn(6)
		seen := map[pos]bool{}
		var ps []pos
		for len(ps) < k {
			p := s.randRealPos(r)
			if i%3 == 0 {
				p = s.randPos(r, r.Intn(2) == 0)
			}
			if !seen[p] {
				seen[p] = true
				ps = append(ps, p)
			}
		}
		add(s.flipsFault("multi", ps...))
	}
	// whole-byte masks on the transmitted columns (8 rows of one column)
	for i := 0; i < nd/3; i++ {
		m := r.Intn(len(s.data))
		off := r.Intn(len(s.data[m]))
		mask := byte(1 + r.Intn(255))
		add(fault{class: "bytemask", atoms: []atom{{data: true, idx: m, off: off, mask: mask}}})
	}
	// every byte of the challenge response
	for k := 0; k < 4; k++ {
		for off := 0; off < 16; off++ {
			masks := []byte{0x01, 0x80, byte(1 + r.Intn(255))}
			if k == 0 && !exhaustive {
				masks = masks[2:] // seed alterations need a full model run each
			}
			for _, mk := range masks {
				add(fault{class: "resp-" + respNames[k], atoms: []atom{respAtom(k, off, mk)}})
			}
		}
	}
	// a flip together with an unrelated alteration of the response
	for i := 0; i < nd/3; i++ {
		f := s.flipsFault("flip+resp", s.randRealPos(r))
		f.atoms = append(f.atoms, respAtom(1+r.Intn(3), r.Intn(16), byte(1+r.Intn(255))))
		add(f)
	}
	// chi-aware alterations (KNOWN FINDING when Delta selects the column)
	chi := chiStream(s.labels[0], s.n+checkRows)
	if ci.err == "" && ci.consistent {
		chi = ci.chi // what the real code uses, recovered from its behaviour
	}
	na := 12
	if exhaustive {
		na = 64
	}
	for i := 0; i < na; i++ {
		p := pos{false, r.Intn(kCols), r.Intn(s.n)}
		if i%4 == 3 {
			p = pos{true, r.Intn(kCols), r.Intn(checkRows)}
		}
		if i < 2 {
			// make sure both a selected and an unselected column occur
			for c := 0; c < kCols; c++ {
				if (s.delta.Bit(c) == 1) == (i == 0) {
					p.col = c
					break
				}
			}
		}
		add(s.adaptive(chi, p))
	}
	// a spread of faults is also run through the model sender itself
	marked := map[string]int{}
	limit := 1
	if exhaustive {
		limit = 6
	}
	for i := range fs {
		if marked[fs[i].class] < limit && (i%7 == 0 || fs[i].class == "adaptive-chi-aware" || fs[i].class == "padding") {
			fs[i].full = true
			marked[fs[i].class]++
		}
	}
	if ci.err == "" {
		fs = append(fs, s.depFaults(rd, ci)...)
	}
	return fs
}

// lightFaults: a few sampled faults for the sessions of the size sweep
// (multi-chunk payloads, 1024-row challenge blocks).
func (s *session) lightFaults(r *hxlib.Rng, rd *hxlib.Rng, ci *chiInfo) []fault {
	var fs []fault
	fs = append(fs, fault{class: "none"})
	var sel, unsel = -1, -1
	for c := 0; c < kCols; c++ {
		if s.delta.Bit(c) == 1 && sel < 0 {
			sel = c
		}
		if s.delta.Bit(c) == 0 && unsel < 0 {
			unsel = c
		}
	}
	last := s.n - 1
	if sel >= 0 {
		fs = append(fs, s.flipsFault("sweep-selected", pos{false, sel, last}))
		fs = append(fs, s.flipsFault("sweep-selected", pos{false, sel, r.Intn(s.n)}))
		fs = append(fs, s.flipsFault("sweep-selected", pos{true, sel, r.Intn(checkRows)}))
	}
	if unsel >= 0 {
		fs = append(fs, s.flipsFault("sweep-unselected", pos{false, unsel, last}))
		fs = append(fs, s.flipsFault("sweep-unselected", pos{true, unsel, r.Intn(checkRows)}))
	}
	for i := 0; i < 4; i++ {
		fs = append(fs, s.flipsFault("sweep-sample", s.randPos(r, i%2 == 0)))
	}
	if sel >= 0 {
		// same column, rows one challenge block / one chunk apart, and row k of
		// the payload with row k of the check batch
		k := r.Intn(s.n)
		fs = append(fs, s.flipsFault("sweep-aligned", pos{false, sel, k}, pos{true, sel, k % checkRows}))
		if s.n > 1024 {
			k = r.Intn(s.n - 1024)
			fs = append(fs, s.flipsFault("sweep-aligned", pos{false, sel, k}, pos{false, sel, k + 1024}))
		}
		if s.n > 512 {
			k = r.Intn(s.n - 512)
			fs = append(fs, s.flipsFault("sweep-aligned", pos{false, sel, k}, pos{false, sel, k + 512}))
		}
	}
	fs = append(fs, fault{class: "resp-x", atoms: []atom{respAtom(1, r.Intn(16), byte(1+r.Intn(255)))}})
	fs = append(fs, fault{class: "resp-t1", atoms: []atom{respAtom(3, r.Intn(16), byte(1+r.Intn(255)))}})
	if s.n <= 130 && len(fs) > 1 {
		fs[1].full = true
	}
	if ci.err == "" {
		fs = append(fs, s.depFaults(rd, ci)...)
	}
	return fs
}

// ---------------------------------------------------------------- oracle

// classes of the known findings of this property: at most two failures of each
// are kept (the list of kept failures is short)
var knownClasses = map[string]bool{"adaptive-chi-aware": true, "dep-generic": true}
var knownReported = map[string]int{}

// effective: matrix bits altered an odd number of times in a column selected
// by Delta and a row that is part of the matrix (not padding).
func (s *session) effective(f fault) (eff int, touched int) {
	par := map[[3]int]bool{}
	for _, a := range f.atoms {
		if !a.data {
			continue
		}
		w := s.byteRowsOf(a.idx)
		col := a.off / w
		for t := 0; t < 8; t++ {
			if a.mask>>t&1 == 1 {
				k := [3]int{a.idx, col, (a.off%w)*8 + t}
				par[k] = !par[k]
			}
		}
	}
	for k, odd := range par {
		if !odd {
			continue
		}
		touched++
		m, col, row := k[0], k[1], k[2]
		if m < s.nPayload {
			if m*chunkRows+row >= s.n {
				continue // padding row
			}
		}
		if s.delta.Bit(col) == 1 {
			eff++
		}
	}
	return
}

func (s *session) judge(o *hxlib.Out, seed uint64, f fault, out outcome, how string) {
	eff, touched := s.effective(f)
	respAltered := false
	for _, a := range f.atoms {
		if !a.data {
			respAltered = true
		}
	}
	tag := "A"
	if !out.abort {
		tag = "ok"
	}
	o.Count(fmt.Sprintf("outcome_%s_%s", f.class, tag))
	if touched > 0 {
		if eff > 0 {
			o.Count("faults_selected_column_" + tag)
		} else {
			o.Count("faults_unselected_or_padding_" + tag)
		}
	}
	if out.abort {
		if len(f.atoms) == 0 {
			o.Fail("c15-honest-abort", map[string]any{"session": s.idx, "n": s.n, "seed": seed, "how": how,
				"err": out.err, "choices": s.ckind, "delta": s.delta.String(),
				"replay": fmt.Sprintf("hx c15 sess -seed %d -only %d", seed, s.idx)})
		} else if eff == 0 && !respAltered {
			o.Count("harmless_alteration_aborted")
		}
		return
	}
	okc, bad := s.correlated(out.sent, s.rcvd)
	if okc && eff == 0 {
		return
	}
	detail := map[string]any{"session": s.idx, "n": s.n, "seed": seed, "how": how, "class": f.class,
		"fault": clipS(f.spec(), 400), "choices": s.ckind, "delta": s.delta.String(),
		"selected_bits_altered": eff, "outputs_correlated": okc, "first_bad_output": bad,
		"replay": fmt.Sprintf("hx c15 sess -seed %d -only %d  (fault %s)", seed, s.idx, clipS(f.spec(), 120))}
	if f.note != "" {
		detail["dependency"] = f.note
	}
	if f.class == "adaptive-chi-aware" {
		o.Count("adaptive_accepted")
	}
	if knownClasses[f.class] {
		o.Count("known_class_accepted")
		knownReported[f.class]++
		if knownReported[f.class] > 2 {
			o.Counters["oracle_fail"]++
			return
		}
	}
	o.Fail("c15-silent-accept", detail)
}

// ---------------------------------------------------------------- mode

type job struct {
	s      *session
	faults []fault
}

func sessMode(args []string) int {
	cf, o := hxlib.ParseCommon("sess", args, nil)
	defer o.Close()
	rng := hxlib.NewRng(cf.Seed)
	thorough := cf.Tier == "thorough"

	type plan struct {
		n          int
		ckind      string
		dkind      string
		exhaustive bool
		faults     bool
	}
	var plans []plan
	// fault sessions
	if thorough {
		for n := 1; n <= 9; n++ {
			plans = append(plans, plan{n, choiceKinds[n%len(choiceKinds)], "random", true, true})
		}
		plans = append(plans, plan{9, "random", "ones", false, true}, plan{8, "one", "bit0", false, true},
			plan{1, "one", "bit127", false, true}, plan{9, "alt", "zero", false, true})
	} else {
		plans = append(plans, plan{1, "one", "random", false, true}, plan{8, "random", "random", false, true},
			plan{9, "random", "random", false, true}, plan{9, "alt", "ones", false, true})
	}
	// honest sweep (a few sampled faults each)
	sizes := append([]int(nil), sweepSizes...)
	if thorough {
		sizes = append(sizes, sweepSizesThorough...)
		sort.Ints(sizes)
	}
	dk := []string{"random", "random", "ones", "random", "bit0", "random", "zero", "random", "bit127"}
	for i, n := range sizes {
		plans = append(plans, plan{n, choiceKinds[i%len(choiceKinds)], dk[i%len(dk)], false, false})
	}
	if thorough {
		for i, n := range sweepSizes {
			plans = append(plans, plan{n, choiceKinds[(i+3)%len(choiceKinds)], dk[(i+4)%len(dk)], false, false})
		}
	}

	var mu sync.Mutex
	for idx, pl := range plans {
		r := rng.Fork()
		if cf.Only >= 0 && idx != cf.Only {
			continue
		}
		s := newSession(r, idx, pl.n, pl.ckind, pl.dkind)
		es, er, to := s.runHonest()
		o.Count("sessions")
		o.Count("delta_" + pl.dkind)
		o.Count("choices_" + pl.ckind)
		switch {
		case pl.n > 1024:
			o.Count("n_gt_1024_rows")
		case pl.n > 512:
			o.Count("n_multi_chunk")
		default:
			o.Count("n_single_chunk")
		}
		if pl.n%8 != 0 {
			o.Count("n_with_padding_rows")
		}
		replay := fmt.Sprintf("hx c15 sess -seed %d -only %d", cf.Seed, idx)
		if es != nil || er != nil || to {
			o.Fail("c15-honest-abort", map[string]any{"session": idx, "n": pl.n, "seed": cf.Seed, "how": "live",
				"sender_err": errStr(es), "receiver_err": errStr(er), "timeout": to, "choices": pl.ckind,
				"delta_kind": pl.dkind, "replay": replay})
			o.Op(s.op(nil), "error")
			continue
		}
		if ok, bad := s.correlated(s.sent, s.rcvd); !ok {
			o.Fail("c15-honest-corr", map[string]any{"session": idx, "n": pl.n, "seed": cf.Seed, "first_bad": bad,
				"replay": replay})
		}
		o.Count("honest_sessions_ok")
		// what is on the wire: payload chunks of at most 512 rows, then a
		// check batch of 256 rows, then four labels
		crow := 0
		for m := s.nPayload; m < len(s.data); m++ {
			crow += s.byteRowsOf(m) * 8
		}
		if crow == checkRows && len(s.labels) == 4 && s.payloadRows() == (pl.n+7)/8*8 {
			o.Count("wire_shape_ok")
		} else {
			o.Fail("c15-wire-shape", map[string]any{"session": idx, "n": pl.n, "seed": cf.Seed, "check_rows": crow,
				"labels": len(s.labels), "payload_rows": s.payloadRows(), "replay": replay})
		}
		// the challenge coefficients of this session, recovered from the real
		// receiver's behaviour, and the linear relations among them
		rd := hxlib.NewRng(cf.Seed*0x9E37 + uint64(idx) + 77)
		ci := s.recoverChi()
		if ci.err != "" || !ci.consistent {
			o.Count("chi_recovery_failed")
			if ci.err == "" {
				ci.err = "recovered coefficients do not explain the honest checksum x"
			}
			o.Sample(map[string]any{"session": idx, "n": pl.n, "chi_recovery": ci.err})
		} else {
			o.Count("chi_recovered")
			o.CountN("chi_rows_recovered", len(ci.chi))
			s.analyse(rd, ci)
			if ci.distinct {
				o.Count("chi_distinct")
			}
			if ci.rank == 128 {
				o.Count("chi_rank_128")
			}
			for _, d := range ci.structural {
				o.Count("chi_relation_" + d.kind)
			}
			if len(ci.generic) > 0 {
				o.Count("chi_generic_dependency_found")
			}
		}
		o.Op(s.chiOp(), ci.result())
		var faults []fault
		if pl.faults {
			faults = s.genFaults(r, rd, ci, pl.exhaustive, cf.N)
		} else {
			faults = s.lightFaults(r, rd, ci)
		}
		// scripted replays in parallel (each on a fresh real sender)
		res := make([]outcome, len(faults))
		var wg sync.WaitGroup
		work := make(chan int, 64)
		for w := 0; w < 12; w++ {
			wg.Add(1)
			go func() {
				defer wg.Done()
				for i := range work {
					res[i] = s.runScripted(faults[i])
				}
			}()
		}
		for i := range faults {
			work <- i
		}
		close(work)
		wg.Wait()
		strs := make([]string, len(faults))
		for i, f := range faults {
			strs[i] = res[i].str(s.sent)
			mu.Lock()
			s.judge(o, cf.Seed, f, res[i], "scripted")
			mu.Unlock()
			o.Count("faults_total")
		}
		// a sample live: real receiver + real sender, tampering ot.IO wrapper
		nlive := 6
		if pl.faults {
			nlive = 40
		}
		for k := 0; k < nlive && k < len(faults); k++ {
			i := (k * 7919) % len(faults)
			lo, rcvd, bad := s.runLive(faults[i])
			o.Count("faults_live")
			same := bad == "" && lo.str(s.sent) == strs[i]
			if same && rcvd != nil {
				for j := range rcvd {
					if !rcvd[j].Equal(s.rcvd[j]) {
						same = false
					}
				}
			}
			if !same {
				o.Fail("c15-live-vs-scripted", map[string]any{"session": idx, "n": pl.n, "seed": cf.Seed,
					"fault": clipS(faults[i].spec(), 300), "live": clipS(lo.str(s.sent), 80), "scripted": clipS(strs[i], 80),
					"live_problem": bad, "live_err": lo.err, "replay": replay})
			}
			s.judge(o, cf.Seed, faults[i], lo, "live")
		}
		// every class of dependent-rows alteration once live as well
		liveSeen := map[string]bool{}
		for i, f := range faults {
			if !strings.HasPrefix(f.class, "dep-") || liveSeen[f.class] {
				continue
			}
			liveSeen[f.class] = true
			lo, _, bad := s.runLive(f)
			o.Count("faults_live")
			o.Count("faults_live_dep")
			if bad != "" || lo.str(s.sent) != strs[i] {
				o.Fail("c15-live-vs-scripted", map[string]any{"session": idx, "n": pl.n, "seed": cf.Seed,
					"fault": clipS(f.spec(), 300), "live": clipS(lo.str(s.sent), 80), "scripted": clipS(strs[i], 80),
					"live_problem": bad, "live_err": lo.err, "replay": replay})
			}
			s.judge(o, cf.Seed, f, lo, "live")
		}
		// op lines: at most 2048 faults per line
		const per = 2048
		for lo := 0; lo == 0 || lo < len(faults); lo += per {
			hi := lo + per
			if hi > len(faults) {
				hi = len(faults)
			}
			head := fmt.Sprintf("resp=%s/s=%s/r=%s", labelsHex(s.labels), labelsHex(s.sent), labelsHex(s.rcvd))
			fr := "-"
			if hi > lo {
				fr = strings.Join(strs[lo:hi], ";")
			}
			o.Op(s.op(faults[lo:hi]), head+"/f="+fr)
		}
		if idx < 3 {
			o.Sample(map[string]any{"session": idx, "n": pl.n, "choices": pl.ckind, "delta": s.delta.String(),
				"faults": len(faults), "first_faults": []string{faults[1%len(faults)].spec(), faults[len(faults)/2].spec()}})
		}
	}
	return 0
}

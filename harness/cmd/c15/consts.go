package main

// Mode `consts`: sizes the malicious-mode check is built from, read from the
// CURRENT source of package ot with go/ast and resolved to VALUES: named
// constants (and constant expressions over them) are evaluated, and the
// functions reached from IKNPSender.Send / IKNPReceiver.Receive through calls
// to functions and methods declared in the same package are searched
// transitively.  So replacing 256 by checkVectorSize = 2*K, extracting the
// check into a helper or renaming locals leaves the result unchanged, while
// changing a size changes it.
//
//	c15 consts -repo DIR
//
// Output: one JSON object
//
//	{"Send":    {"send_args": [...], "label_arrays": [...], "make_sizes": [...]},
//	 "Receive": {...}}
//
// send_args: constant arguments of calls of a method named `send`;
// label_arrays: lengths of fixed-size arrays of Label declared locally;
// make_sizes: constant sizes of make([]bool, N) / make([]Label, N).
// Each is the sorted set of values found.

import (
	"encoding/json"
	"flag"
	"fmt"
	"go/ast"
	"go/parser"
	"go/token"
	"os"
	"path/filepath"
	"sort"
	"strconv"
	"strings"
)

type constPkg struct {
	consts  map[string]ast.Expr
	funcs   map[string]*ast.FuncDecl   // "Name", "Recv.Name"
	methods map[string][]*ast.FuncDecl // by method name
}

func loadConstPkg(dir string) (*constPkg, error) {
	p := &constPkg{consts: map[string]ast.Expr{}, funcs: map[string]*ast.FuncDecl{}, methods: map[string][]*ast.FuncDecl{}}
	ents, err := os.ReadDir(dir)
	if err != nil {
		return nil, err
	}
	fset := token.NewFileSet()
	for _, e := range ents {
		n := e.Name()
		if e.IsDir() || !strings.HasSuffix(n, ".go") || strings.HasSuffix(n, "_test.go") || strings.HasPrefix(n, "verif_") {
			continue
		}
		f, err := parser.ParseFile(fset, filepath.Join(dir, n), nil, 0)
		if err != nil {
			return nil, err
		}
		for _, d := range f.Decls {
			switch d := d.(type) {
			case *ast.FuncDecl:
				if d.Body == nil {
					continue
				}
				if d.Recv != nil && len(d.Recv.List) == 1 {
					p.funcs[recvName(d.Recv.List[0].Type)+"."+d.Name.Name] = d
					p.methods[d.Name.Name] = append(p.methods[d.Name.Name], d)
				} else {
					p.funcs[d.Name.Name] = d
				}
			case *ast.GenDecl:
				if d.Tok != token.CONST {
					continue
				}
				for _, s := range d.Specs {
					vs := s.(*ast.ValueSpec)
					for i, nm := range vs.Names {
						if i < len(vs.Values) {
							p.consts[nm.Name] = vs.Values[i]
						}
					}
				}
			}
		}
	}
	return p, nil
}

func recvName(e ast.Expr) string {
	switch t := e.(type) {
	case *ast.StarExpr:
		return recvName(t.X)
	case *ast.Ident:
		return t.Name
	case *ast.IndexExpr:
		return recvName(t.X)
	}
	return "?"
}

// eval evaluates an integer constant expression over literals, the package's
// constants and the local constants of the function.
func (p *constPkg) eval(x ast.Expr, local map[string]ast.Expr, depth int) (int64, bool) {
	if depth > 32 {
		return 0, false
	}
	switch t := x.(type) {
	case *ast.BasicLit:
		if t.Kind == token.INT {
			v, err := strconv.ParseInt(t.Value, 0, 64)
			return v, err == nil
		}
	case *ast.ParenExpr:
		return p.eval(t.X, local, depth+1)
	case *ast.Ident:
		if e, ok := local[t.Name]; ok {
			return p.eval(e, local, depth+1)
		}
		if e, ok := p.consts[t.Name]; ok {
			return p.eval(e, nil, depth+1)
		}
	case *ast.UnaryExpr:
		if v, ok := p.eval(t.X, local, depth+1); ok {
			switch t.Op {
			case token.SUB:
				return -v, true
			case token.ADD:
				return v, true
			}
		}
	case *ast.BinaryExpr:
		a, ok1 := p.eval(t.X, local, depth+1)
		b, ok2 := p.eval(t.Y, local, depth+1)
		if !ok1 || !ok2 {
			return 0, false
		}
		switch t.Op {
		case token.ADD:
			return a + b, true
		case token.SUB:
			return a - b, true
		case token.MUL:
			return a * b, true
		case token.QUO:
			if b != 0 {
				return a / b, true
			}
		case token.REM:
			if b != 0 {
				return a % b, true
			}
		case token.SHL:
			return a << uint(b), true
		case token.SHR:
			return a >> uint(b), true
		}
	case *ast.CallExpr:
		// conversions int(c), uint64(c), ...
		if id, ok := t.Fun.(*ast.Ident); ok && len(t.Args) == 1 {
			switch id.Name {
			case "int", "int32", "int64", "uint", "uint32", "uint64":
				return p.eval(t.Args[0], local, depth+1)
			}
		}
	}
	return 0, false
}

type sizeFacts struct {
	SendArgs    []int64 `json:"send_args"`
	LabelArrays []int64 `json:"label_arrays"`
	MakeSizes   []int64 `json:"make_sizes"`
}

func isElt(e ast.Expr, names ...string) bool {
	id, ok := e.(*ast.Ident)
	if !ok {
		return false
	}
	for _, n := range names {
		if id.Name == n {
			return true
		}
	}
	return false
}

func (p *constPkg) collect(root string) (*sizeFacts, error) {
	fd, ok := p.funcs[root]
	if !ok {
		return nil, fmt.Errorf("function %s not found", root)
	}
	sets := [3]map[int64]bool{{}, {}, {}}
	seen := map[*ast.FuncDecl]bool{}
	var visit func(fd *ast.FuncDecl)
	visit = func(fd *ast.FuncDecl) {
		if seen[fd] {
			return
		}
		seen[fd] = true
		local := map[string]ast.Expr{}
		ast.Inspect(fd.Body, func(n ast.Node) bool {
			switch s := n.(type) {
			case *ast.GenDecl:
				if s.Tok == token.CONST {
					for _, sp := range s.Specs {
						vs := sp.(*ast.ValueSpec)
						for i, nm := range vs.Names {
							if i < len(vs.Values) {
								local[nm.Name] = vs.Values[i]
							}
						}
					}
				}
			}
			return true
		})
		ast.Inspect(fd.Body, func(n ast.Node) bool {
			switch s := n.(type) {
			case *ast.ArrayType:
				if s.Len != nil && isElt(s.Elt, "Label") {
					if v, ok := p.eval(s.Len, local, 0); ok {
						sets[1][v] = true
					}
				}
			case *ast.CallExpr:
				switch fun := s.Fun.(type) {
				case *ast.Ident:
					if fun.Name == "make" && len(s.Args) >= 2 {
						if at, ok := s.Args[0].(*ast.ArrayType); ok && at.Len == nil && isElt(at.Elt, "bool", "Label") {
							if v, ok := p.eval(s.Args[1], local, 0); ok {
								sets[2][v] = true
							}
						}
					}
					if callee, ok := p.funcs[fun.Name]; ok {
						visit(callee)
					}
				case *ast.SelectorExpr:
					if fun.Sel.Name == "send" {
						for _, a := range s.Args {
							if v, ok := p.eval(a, local, 0); ok {
								sets[0][v] = true
							}
						}
					}
					for _, callee := range p.methods[fun.Sel.Name] {
						visit(callee)
					}
				}
			}
			return true
		})
	}
	visit(fd)
	out := &sizeFacts{}
	for i, dst := range []*[]int64{&out.SendArgs, &out.LabelArrays, &out.MakeSizes} {
		*dst = []int64{}
		for v := range sets[i] {
			*dst = append(*dst, v)
		}
		sort.Slice(*dst, func(a, b int) bool { return (*dst)[a] < (*dst)[b] })
	}
	return out, nil
}

func constsMode(args []string) int {
	fs := flag.NewFlagSet("consts", flag.ExitOnError)
	repo := fs.String("repo", "/repo", "root of the repository under test")
	fs.Parse(args)
	p, err := loadConstPkg(filepath.Join(*repo, "ot"))
	if err != nil {
		fmt.Fprintf(os.Stderr, "c15 consts: %v\n", err)
		return 1
	}
	res := map[string]*sizeFacts{}
	for name, root := range map[string]string{"Send": "IKNPSender.Send", "Receive": "IKNPReceiver.Receive"} {
		f, err := p.collect(root)
		if err != nil {
			fmt.Fprintf(os.Stderr, "c15 consts: %v\n", err)
			return 1
		}
		res[name] = f
	}
	b, _ := json.Marshal(res)
	os.Stdout.Write(b)
	os.Stdout.WriteString("\n")
	return 0
}

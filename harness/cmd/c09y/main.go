package main

import (
	"fmt"
	"os"

	"github.com/markkurossi/mpc/compiler"
	"github.com/markkurossi/mpc/compiler/utils"
	"verifharness/hxlib"
)

func main() {
	src, _ := os.ReadFile(os.Args[1])
	for _, tgt := range []utils.Target{utils.TargetYao, utils.TargetGMW} {
		p := utils.NewParams()
		p.Target = tgt
		p.OptPruneGates = len(os.Args) > 2
		c, _, err := compiler.New(p).Compile(string(src), nil)
		if err != nil {
			fmt.Println(err)
			continue
		}
		fmt.Println(tgt, c, c.Inputs, c.Outputs)
		l := hxlib.CircLine(c)
		if len(l) < 3000 {
			fmt.Println(l)
		}
		def := make([]bool, c.NumWires)
		for _, g := range c.Gates {
			def[g.Output] = true
		}
		for i := c.NumWires - c.Outputs.Size(); i < c.NumWires; i++ {
			if !def[i] {
				fmt.Println("undefined output wire", i-(c.NumWires-c.Outputs.Size()))
			}
		}
	}
}

package main

import (
	"math/big"
	"sort"

	"github.com/markkurossi/mpc/compiler/circuits"
	"github.com/markkurossi/mpc/types"
)

type W = []*circuits.Wire

// Builder describes one circuit builder of compiler/circuits together with
// its mathematical specification (the implementation-side oracle).
type Builder struct {
	Name string
	// Build calls the real builder.  zs are the pre-allocated result buses.
	Build func(cc *circuits.Compiler, c Case, x, y, w W, zs []W) error
	// Outs gives the widths of the result buses.
	Outs func(c Case) []int
	// Ref gives the expected values of the result buses (before reduction
	// modulo 2^width); nil = the operation is undefined for these operands
	// (division by zero).
	Ref func(c Case, x, y, w *big.Int) []*big.Int
	// AltRef: what the builder computes for unequal signed operand widths
	// (zero padding to the common width before the two's complement reading);
	// only used to classify failures.
	AltRef func(c Case, x, y, w *big.Int) []*big.Int
	// NZs lists the result widths to try for operand widths nx, ny.
	NZs func(nx, ny int) []int
	// Pars lists the builder-specific parameters to try.
	Pars func(nx, ny int) []int
	// Valid filters width combinations the builder is defined for.
	Valid func(c Case) bool
	NW    int  // width of the third operand
	Heavy bool // large circuits: fewer width combinations above 8 bits
	// TargetDep: the builder itself dispatches on the compilation target.
	TargetDep bool
	// Modelled: the Lean generator replicates this builder (T4 applies).
	Modelled bool
	// ModelledFor restricts Modelled to some cases (nil = all).
	ModelledFor func(c Case) bool
}

// IsModelled reports whether the Lean generator covers the case.
func (b *Builder) IsModelled(c Case) bool {
	return b.Modelled && (b.ModelledFor == nil || b.ModelledFor(c))
}

func maxi(a, b int) int {
	if a > b {
		return a
	}
	return b
}

func uniq(v []int) []int {
	sort.Ints(v)
	var r []int
	for _, x := range v {
		if x >= 1 && (len(r) == 0 || r[len(r)-1] != x) {
			r = append(r, x)
		}
	}
	return r
}

// arithmetic result widths: truncated, max, max+1, 2*max, wider.
func nzArith(nx, ny int) []int {
	m := maxi(nx, ny)
	return uniq([]int{1, m - 1, m, m + 1, 2 * m, 2*m + 1, 2*m + 3})
}
func nzOne(nx, ny int) []int  { return []int{1} }
func nzMax(nx, ny int) []int  { return []int{maxi(nx, ny)} }
func nzBits(nx, ny int) []int { m := maxi(nx, ny); return uniq([]int{1, m - 1, m, m + 1, m + 3}) }
func nzDiv(nx, ny int) []int  { m := maxi(nx, ny); return uniq([]int{m}) }
func nzDivWide(nx, ny int) []int {
	m := maxi(nx, ny)
	return uniq([]int{1, m - 1, m, m + 1, 2 * m})
}
func noPars(nx, ny int) []int { return []int{0} }

func oneOut(c Case) []int { return []int{c.NZ} }

func bi(v int64) *big.Int { return big.NewInt(v) }

func b2i(b bool) *big.Int {
	if b {
		return big.NewInt(1)
	}
	return big.NewInt(0)
}

func one(v *big.Int) []*big.Int { return []*big.Int{v} }

// sgn: the mathematical value of signed operands: each is two's complement
// at its own width.
func sgn(c Case, x, y *big.Int) (*big.Int, *big.Int) {
	return toSigned(x, c.NX), toSigned(y, c.NY)
}

// sgnPad: what the signed builders read: operands zero padded to the common
// width n = max(nx, ny) (cc.ZeroPad) and then read as n-bit two's
// complement.  Equal to sgn for nx = ny.
func sgnPad(c Case, x, y *big.Int) (*big.Int, *big.Int) {
	n := maxi(c.NX, c.NY)
	return toSigned(x, n), toSigned(y, n)
}

// udivmod: floor division of non-negative values.
func udivmod(x, y *big.Int) (*big.Int, *big.Int) {
	q, r := new(big.Int).QuoRem(x, y, new(big.Int))
	return q, r
}

// idivmod: the specification fixed by testsuite/lang/divi.mpcl and
// modi.mpcl: quotient truncates toward zero, remainder is |a| mod |b|.
func idivmod(a, b *big.Int) (*big.Int, *big.Int) {
	q := new(big.Int).Quo(a, b) // truncated
	r := new(big.Int).Rem(new(big.Int).Abs(a), new(big.Int).Abs(b))
	return q, r
}

type build2 func(cc *circuits.Compiler, x, y, z []*circuits.Wire) error

func simple(name string, f build2, ref func(c Case, x, y *big.Int) *big.Int, nzs func(nx, ny int) []int) *Builder {
	return &Builder{
		Name: name,
		Build: func(cc *circuits.Compiler, c Case, x, y, w W, zs []W) error {
			return f(cc, x, y, zs[0])
		},
		Outs: oneOut,
		Ref:  func(c Case, x, y, w *big.Int) []*big.Int { return one(ref(c, x, y)) },
		NZs:  nzs,
		Pars: noPars,
	}
}

func divBuilder(name string, f func(cc *circuits.Compiler, a, b, q, r []*circuits.Wire) error, signed bool, mode int,
	nzs func(nx, ny int) []int) *Builder {
	// mode 0: quotient only, 1: remainder only, 2: both
	return &Builder{
		Name: name,
		Build: func(cc *circuits.Compiler, c Case, x, y, w W, zs []W) error {
			switch mode {
			case 0:
				return f(cc, x, y, zs[0], nil)
			case 1:
				return f(cc, x, y, nil, zs[0])
			default:
				return f(cc, x, y, zs[0], zs[1])
			}
		},
		Outs: func(c Case) []int {
			if mode == 2 {
				return []int{c.NZ, c.NZ}
			}
			return []int{c.NZ}
		},
		Ref: func(c Case, x, y, w *big.Int) []*big.Int {
			var q, r *big.Int
			if signed {
				a, b := sgn(c, x, y)
				if b.Sign() == 0 {
					return nil
				}
				q, r = idivmod(a, b)
			} else {
				if y.Sign() == 0 {
					return nil
				}
				q, r = udivmod(x, y)
			}
			switch mode {
			case 0:
				return one(q)
			case 1:
				return one(r)
			default:
				return []*big.Int{q, r}
			}
		},
		AltRef: func(c Case, x, y, w *big.Int) []*big.Int {
			if !signed || c.NX == c.NY {
				return nil
			}
			a, b := sgnPad(c, x, y)
			if b.Sign() == 0 {
				return nil
			}
			q, r := idivmod(a, b)
			switch mode {
			case 0:
				return one(q)
			case 1:
				return one(r)
			default:
				return []*big.Int{q, r}
			}
		},
		NZs:   nzs,
		Pars:  noPars,
		Heavy: true,
	}
}

func popcount(v *big.Int) int64 {
	var n int64
	for _, w := range v.Bits() {
		for ; w != 0; w &= w - 1 {
			n++
		}
	}
	return n
}

var builders []*Builder
var builderByName = map[string]*Builder{}

func reg(b *Builder) *Builder {
	builders = append(builders, b)
	builderByName[b.Name] = b
	return b
}

func init() {
	add := func(c Case, x, y *big.Int) *big.Int { return new(big.Int).Add(x, y) }
	sub := func(c Case, x, y *big.Int) *big.Int { return new(big.Int).Sub(x, y) }
	mul := func(c Case, x, y *big.Int) *big.Int { return new(big.Int).Mul(x, y) }

	b := reg(simple("add", circuits.NewAdder, add, nzArith))
	b.TargetDep, b.Modelled = true, true
	b = reg(simple("sub", circuits.NewSubtractor, sub, nzArith))
	b.TargetDep, b.Modelled = true, true
	b = reg(simple("addks", circuits.NewKoggeStoneAdder, add, nzArith))
	b.Modelled = true
	b = reg(simple("subks", circuits.NewKoggeStoneSubtractor, sub, nzArith))
	b.Modelled = true

	b = reg(simple("mul", func(cc *circuits.Compiler, x, y, z []*circuits.Wire) error {
		return circuits.NewMultiplier(cc, cc.Params.CircMultArrayTreshold, x, y, z)
	}, mul, nzArith))
	b.TargetDep, b.Heavy, b.Modelled = true, true, true
	b = reg(simple("mularray", circuits.NewArrayMultiplier, mul, nzArith))
	b.Heavy, b.Modelled = true, true
	b = reg(simple("mulwallace", circuits.NewWallaceMultiplier, mul, nzArith))
	b.Heavy, b.Modelled = true, true
	b = reg(&Builder{
		Name: "mulkara",
		Build: func(cc *circuits.Compiler, c Case, x, y, w W, zs []W) error {
			return circuits.NewKaratsubaMultiplier(cc, c.Par, x, y, zs[0])
		},
		Outs: oneOut,
		Ref:  func(c Case, x, y, w *big.Int) []*big.Int { return one(new(big.Int).Mul(x, y)) },
		NZs:  nzArith,
		Pars: func(nx, ny int) []int {
			m := maxi(nx, ny)
			// limits below 3 make the recursion non-terminating (the sum
			// operands of a 2- or 3-bit split are again 2 or 3 bits wide); the
			// compiler only uses limits >= 8 (NewMultiplier).
			if m <= 8 {
				return []int{3, 4, 5}
			}
			return []int{3, 5, 8, 21}
		},
		Heavy: true, Modelled: true,
	})

	// dividers: the Lean generator models the long divider (Yao target of
	// NewUDivider / NewIDivider; NewUDividerLong itself on both targets)
	b = reg(divBuilder("udiv", circuits.NewUDivider, false, 0, nzDivWide))
	b.TargetDep, b.Modelled = true, true
	b = reg(divBuilder("umod", circuits.NewUDivider, false, 1, nzDivWide))
	b.TargetDep, b.Modelled = true, true
	b = reg(divBuilder("udivmod", circuits.NewUDivider, false, 2, nzDiv))
	b.TargetDep, b.Modelled = true, true
	b = reg(divBuilder("idiv", circuits.NewIDivider, true, 0, nzDivWide))
	b.TargetDep, b.Modelled = true, true
	b = reg(divBuilder("imod", circuits.NewIDivider, true, 1, nzDivWide))
	b.TargetDep, b.Modelled = true, true
	b = reg(divBuilder("udivlong", circuits.NewUDividerLong, false, 2, nzDivWide))
	b.Modelled = true
	reg(divBuilder("udivrestoring", circuits.NewUDividerRestoring, false, 2, nzDiv))
	reg(divBuilder("udivarray", circuits.NewUDividerArray, false, 2, nzDiv))
	b = reg(divBuilder("udivgold", circuits.NewUDividerGoldschmidtFast, false, 2, nzDiv))
	b.Modelled = true

	// comparators
	cmpU := func(name string, f build2, p func(int) bool) {
		b := reg(simple(name, f, func(c Case, x, y *big.Int) *big.Int { return b2i(p(x.Cmp(y))) }, nzOne))
		b.Modelled = true
	}
	cmpI := func(name string, f build2, p func(int) bool) {
		b := reg(simple(name, f, func(c Case, x, y *big.Int) *big.Int {
			a, b := sgn(c, x, y)
			return b2i(p(a.Cmp(b)))
		}, nzOne))
		b.Modelled = true
		b.AltRef = func(c Case, x, y, w *big.Int) []*big.Int {
			if c.NX == c.NY {
				return nil
			}
			a, b := sgnPad(c, x, y)
			return one(b2i(p(a.Cmp(b))))
		}
	}
	cmpU("ugt", circuits.NewUintGtComparator, func(s int) bool { return s > 0 })
	cmpU("uge", circuits.NewUintGeComparator, func(s int) bool { return s >= 0 })
	cmpU("ult", circuits.NewUintLtComparator, func(s int) bool { return s < 0 })
	cmpU("ule", circuits.NewUintLeComparator, func(s int) bool { return s <= 0 })
	cmpI("igt", circuits.NewIntGtComparator, func(s int) bool { return s > 0 })
	cmpI("ige", circuits.NewIntGeComparator, func(s int) bool { return s >= 0 })
	cmpI("ilt", circuits.NewIntLtComparator, func(s int) bool { return s < 0 })
	cmpI("ile", circuits.NewIntLeComparator, func(s int) bool { return s <= 0 })
	cmpU("eq", circuits.NewEqComparator, func(s int) bool { return s == 0 })
	cmpU("neq", circuits.NewNeqComparator, func(s int) bool { return s != 0 })

	// bitwise
	b = reg(simple("band", circuits.NewBinaryAND, func(c Case, x, y *big.Int) *big.Int { return new(big.Int).And(x, y) }, nzBits))
	b.Modelled = true
	b = reg(simple("bor", circuits.NewBinaryOR, func(c Case, x, y *big.Int) *big.Int { return new(big.Int).Or(x, y) }, nzBits))
	b.Modelled = true
	b = reg(simple("bxor", circuits.NewBinaryXOR, func(c Case, x, y *big.Int) *big.Int { return new(big.Int).Xor(x, y) }, nzBits))
	b.Modelled = true
	b = reg(simple("bclr", circuits.NewBinaryClear, func(c Case, x, y *big.Int) *big.Int { return new(big.Int).AndNot(x, y) }, nzBits))
	b.Modelled = true

	// logical (1-bit operands)
	onebit := func(c Case) bool { return c.NX == 1 && c.NY == 1 }
	b = reg(simple("land", circuits.NewLogicalAND, func(c Case, x, y *big.Int) *big.Int { return new(big.Int).And(x, y) }, nzOne))
	b.Valid, b.Modelled = onebit, true
	b = reg(simple("lor", circuits.NewLogicalOR, func(c Case, x, y *big.Int) *big.Int { return new(big.Int).Or(x, y) }, nzOne))
	b.Valid, b.Modelled = onebit, true

	// bit tests: par = bit index (may exceed the width)
	btPars := func(nx, ny int) []int { return uniqAll([]int{0, 1, nx / 2, nx - 1, nx, nx + 2}) }
	reg(&Builder{
		Name: "bts",
		Build: func(cc *circuits.Compiler, c Case, x, y, w W, zs []W) error {
			return circuits.NewBitSetTest(cc, x, types.Size(c.Par), zs[0])
		},
		Outs: oneOut,
		Ref: func(c Case, x, y, w *big.Int) []*big.Int {
			return one(b2i(c.Par < c.NX && x.Bit(c.Par) == 1))
		},
		NZs: nzOne, Pars: btPars, Modelled: true,
		Valid: func(c Case) bool { return c.NY == 1 },
	})
	reg(&Builder{
		Name: "btc",
		Build: func(cc *circuits.Compiler, c Case, x, y, w W, zs []W) error {
			return circuits.NewBitClrTest(cc, x, types.Size(c.Par), zs[0])
		},
		Outs: oneOut,
		Ref: func(c Case, x, y, w *big.Int) []*big.Int {
			return one(b2i(!(c.Par < c.NX && x.Bit(c.Par) == 1)))
		},
		NZs: nzOne, Pars: btPars, Modelled: true,
		Valid: func(c Case) bool { return c.NY == 1 },
	})

	// mux: w = condition (1 bit), x = true value, y = false value
	reg(&Builder{
		Name: "mux",
		Build: func(cc *circuits.Compiler, c Case, x, y, w W, zs []W) error {
			return circuits.NewMUX(cc, w, x, y, zs[0])
		},
		Outs: oneOut,
		Ref: func(c Case, x, y, w *big.Int) []*big.Int {
			if w.Bit(0) == 1 {
				return one(x)
			}
			return one(y)
		},
		NZs: nzMax, Pars: noPars, NW: 1, Modelled: true,
	})

	// index: x = array of NX/Par elements of Par bits, y = index
	reg(&Builder{
		Name: "index",
		Build: func(cc *circuits.Compiler, c Case, x, y, w W, zs []W) error {
			return circuits.NewIndex(cc, c.Par, x, y, zs[0])
		},
		Outs: oneOut,
		Ref: func(c Case, x, y, w *big.Int) []*big.Int {
			n := c.NX / c.Par
			bits := 1
			for l := 2; l < n; l *= 2 {
				bits++
			}
			idx := int(new(big.Int).And(y, mask(bits)).Int64())
			if idx >= n {
				return one(bi(0))
			}
			el := new(big.Int).Rsh(x, uint(idx*c.Par))
			return one(el.And(el, mask(c.Par)))
		},
		NZs: func(nx, ny int) []int { return []int{0} }, // nz = par
		Pars: func(nx, ny int) []int {
			var r []int
			for s := 1; s <= nx && s <= 9; s++ {
				if nx%s == 0 {
					r = append(r, s)
				}
			}
			return r
		},
		Valid:    func(c Case) bool { return c.Par >= 1 && c.NX%c.Par == 0 && c.NZ == c.Par },
		Modelled: true,
	})

	b = reg(simple("hamming", circuits.Hamming, func(c Case, x, y *big.Int) *big.Int {
		return bi(popcount(new(big.Int).Xor(x, y)))
	}, nzArith))
	b.TargetDep, b.Modelled = true, true
}

func uniqAll(v []int) []int {
	sort.Ints(v)
	var r []int
	for _, x := range v {
		if x >= 0 && (len(r) == 0 || r[len(r)-1] != x) {
			r = append(r, x)
		}
	}
	return r
}

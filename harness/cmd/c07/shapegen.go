// OPERAND SHAPES (class `shape` of the history generator, see hist.go HSrc).
//
// Property C07 quantifies over the builders AS THE COMPILER USES THEM.
// ssa.Program.Circuit never hands a builder only fresh value wires: every
// constant operand is wired from cc.ZeroWire()/cc.OneWire(), every cast to a
// wider type, shift, slice and short constant pads with cc.ZeroWire(), a sign
// extension repeats the top wire, `x op x` passes one bus twice.  This file
// generates, for EVERY builder on both targets, calls whose operand buses are
//
//	all-constant            0..0, 1..1, 0101.., 1010.., a seed-derived constant
//	constant low part       c..c v..v   (left shift)
//	constant high part      v..v c..c   (zero extension / right shift / slice)
//	alternating             v c v c .., c v c v ..
//	one constant bit        v..v c v..v at EVERY position, c = 0 and 1
//	repeated wire           v..v r..r   (sign extension), v r v r ..
//	x op x                  the same (plain or shaped) bus as both operands
//	zero-extended value against a constant that has a 1 / has no 1 inside the
//	known-zero region, and against a constant that only differs in the value part
//	operands that are constant wires because an EARLIER call of the history
//	delivered them (slice replacement: result bits set to cc.ZeroWire())
//
// as one-call histories and after / before a plain call on the same Compiler
// (with and without the constant-wire prologue, so the constant wires are
// also created in the middle of a history).  Oracle, T4 and T3 are those of
// every history: each call is judged against math/big on the values its
// operand buses actually carry (constants included), and the real cc.Gates
// are compared gate for gate with the Lean generators run on the same operand
// wires.
package main

import (
	"math/big"
	"strings"

	"verifharness/hxlib"
)

// A pattern describes one operand bus, least significant wire first:
// 'v' next fresh value wire, 'r' the previous value wire again, '0' / '1' the
// Compiler's constant wires.
type pattern string

func (p pattern) values() int { return strings.Count(string(p), "v") }

// operandOf makes the operand of a pattern over the plain value bus `src`
// (src.Len >= p.values()).
func operandOf(p pattern, src HSrc) HSrc {
	var ps []HSrc
	next := 0
	for _, c := range string(p) {
		switch c {
		case 'v':
			ps = append(ps, HSrc{K: src.K, Lo: src.Lo + next, Len: 1})
			next++
		case 'r':
			if next == 0 {
				ps = append(ps, zeroP(1))
			} else {
				ps = append(ps, HSrc{K: src.K, Lo: src.Lo + next - 1, Len: 1})
			}
		case '0':
			ps = append(ps, zeroP(1))
		case '1':
			ps = append(ps, oneP(1))
		}
	}
	// merge adjacent slices of one bus
	var ms []HSrc
	for _, q := range ps {
		if l := len(ms); l > 0 && q.K >= 0 && ms[l-1].K == q.K && ms[l-1].Lo+ms[l-1].Len == q.Lo {
			ms[l-1].Len++
			continue
		}
		ms = append(ms, q)
	}
	return catP(ms...)
}

func rep(s string, n int) string {
	if n <= 0 {
		return ""
	}
	return strings.Repeat(s, n)
}

func alt(a, b string, n int) string {
	var sb strings.Builder
	for i := 0; i < n; i++ {
		if i%2 == 0 {
			sb.WriteString(a)
		} else {
			sb.WriteString(b)
		}
	}
	return sb.String()
}

func constPattern(n int, v uint64) pattern {
	var sb strings.Builder
	for i := 0; i < n; i++ {
		if v>>uint(i)&1 == 1 {
			sb.WriteByte('1')
		} else {
			sb.WriteByte('0')
		}
	}
	return pattern(sb.String())
}

// mainPatterns: the shapes of an n-wire operand (without the per-position sweep).
func mainPatterns(n int, r *hxlib.Rng) []pattern {
	ps := []pattern{
		pattern(rep("0", n)), pattern(rep("1", n)), pattern(alt("0", "1", n)), pattern(alt("1", "0", n)),
		constPattern(n, r.U64()),
	}
	if n == 1 {
		return append(ps[:2:2], "v")
	}
	for _, k := range uniq([]int{1, n / 2, n - 1}) {
		if k >= n {
			continue
		}
		ps = append(ps,
			pattern(rep("0", k)+rep("v", n-k)), pattern(rep("1", k)+rep("v", n-k)),
			pattern(rep("v", n-k)+rep("0", k)), pattern(rep("v", n-k)+rep("1", k)),
			pattern(rep("v", n-k)+rep("r", k)))
	}
	ps = append(ps, pattern(alt("v", "0", n)), pattern(alt("0", "v", n)), pattern(alt("v", "1", n)), pattern(alt("1", "v", n)),
		pattern(alt("v", "r", n)))
	// a constant part with mixed bits next to a value part
	if n >= 3 {
		k := n - n/2
		ps = append(ps, pattern(rep("v", n-k))+constPattern(k, r.U64()|1), constPattern(k, r.U64())+pattern(rep("v", n-k)))
	}
	return ps
}

// bitPatterns: one constant bit at every position.
func bitPatterns(n int) []pattern {
	var ps []pattern
	if n < 2 {
		return nil
	}
	for i := 0; i < n; i++ {
		for _, c := range []string{"0", "1"} {
			ps = append(ps, pattern(rep("v", i)+c+rep("v", n-1-i)))
		}
	}
	return ps
}

// shapeCall appends one call of `name` at nominal width n whose x / y / w
// operands follow the patterns (empty pattern = plain fresh operand); same:
// y is the same bus as x.
type shapeSpec struct {
	name   string
	n      int
	px, py pattern
	pw     pattern
	same   bool
	nzAlt  int // 0: nominal result width, 1: max+1, 2: 2*max
}

// planned operand: pattern + its value bus
type plannedOp struct {
	p   pattern
	src HSrc
}

func planOp(m *hmk, p pattern, width int) plannedOp {
	if p == "" {
		p = pattern(rep("v", width))
	}
	k := p.values()
	var src HSrc
	if k > 0 {
		src = m.in(k)
	}
	return plannedOp{p: p, src: src}
}

func (o plannedOp) operand() HSrc { return operandOf(o.p, o.src) }

// shapeHistory: `before` plain calls, the shaped call, `after` plain calls.
func shapeHistory(target, salt int, sp shapeSpec, before, after string) *History {
	m := newHmk("shape", target, salt)
	nx, ny, nw, nz, par := shape(sp.name, sp.n)
	if len(sp.px) > 0 {
		nx = len(sp.px)
	}
	if len(sp.py) > 0 {
		ny = len(sp.py)
	}
	type plainOps struct {
		name    string
		x, y, w HSrc
	}
	mkPlain := func(k string) *plainOps {
		if k == "" {
			return nil
		}
		px, py, pw, _, _ := shape(k, pairWidth(k))
		o := &plainOps{name: k, x: m.in(px), y: m.in(py)}
		if pw > 0 {
			o.w = m.in(pw)
		}
		return o
	}
	// the inputs of the shaped call come last: they are the ones enumerated
	// exhaustively (History.vectors)
	bf := mkPlain(before)
	af := mkPlain(after)
	ox := planOp(m, sp.px, nx)
	var oy plannedOp
	if !sp.same {
		oy = planOp(m, sp.py, ny)
	}
	var ow plannedOp
	if nw > 0 {
		ow = planOp(m, sp.pw, nw)
	}
	if len(m.h.InW) == 0 {
		m.in(1) // a Compiler needs an input wire (the constant wires derive from input 0)
	}
	callPlain := func(o *plainOps) {
		if o == nil {
			return
		}
		_, _, _, pz, ppar := shape(o.name, pairWidth(o.name))
		m.call(o.name, pz, ppar, o.x, o.y, o.w)
	}
	callPlain(bf)
	x := ox.operand()
	y := x
	if !sp.same {
		y = oy.operand()
	}
	var w HSrc
	if nw > 0 {
		w = ow.operand()
	}
	mx := maxi(nx, ny)
	if nz != 1 && sp.name != "index" && sp.name != "mux" && !strings.HasPrefix(sp.name, "b") && !strings.HasPrefix(sp.name, "udiv") ||
		(sp.name == "udiv" && nz != 1) {
		switch sp.nzAlt {
		case 1:
			nz = mx + 1
		case 2:
			nz = 2 * mx
		}
	}
	if sp.name == "mux" {
		nz = mx
	}
	m.call(sp.name, nz, par, x, y, w)
	callPlain(af)
	if !m.ok || len(m.h.Steps) < 1 || m.h.check() != nil {
		return nil
	}
	return m.h
}

// shapeHistories: the class `shape`.
func shapeHistories(seed uint64, thorough bool, next func() int) []*History {
	var hs []*History
	add := func(h *History) {
		if h != nil {
			hs = append(hs, h)
		}
	}
	r := hxlib.NewRng(seed*7000003 + 4242)
	all := add
	thin := 0
	for bi, b := range builders {
		k := b.Name
		n := pairWidth(k)
		if k == "index" {
			n = 3
		}
		nx, ny, _, _, _ := shape(k, n)
		for t := 0; t < 2; t++ {
			// the Goldschmidt divider has ~5000 gates at 4 bits: the quick tier
			// keeps every third shape of the kinds built on it (rotating)
			add = all
			if !thorough && divKinds[k] && (k == "udivgold" || (b.TargetDep && t == 1)) {
				add = func(h *History) {
					thin++
					if thin%3 == 0 {
						all(h)
					}
				}
			}
			pxs, pys := mainPatterns(nx, r), mainPatterns(ny, r)
			// one shaped operand, the other plain
			for i, p := range pxs {
				add(shapeHistory(t, next(), shapeSpec{name: k, n: n, px: p, nzAlt: i % 3}, "", ""))
			}
			for i, p := range pys {
				add(shapeHistory(t, next(), shapeSpec{name: k, n: n, py: p, nzAlt: (i + 1) % 3}, "", ""))
			}
			// both shaped
			for i := 0; i < len(pxs); i++ {
				p, q := pxs[i], pys[(i*5+3+t)%len(pys)]
				add(shapeHistory(t, next(), shapeSpec{name: k, n: n, px: p, py: q, nzAlt: (i + 2) % 3}, "", ""))
			}
			// x op x
			if nx == ny {
				for _, p := range []pattern{"", pxs[len(pxs)-1], pattern(rep("v", nx-nx/2) + rep("0", nx/2)), pattern(alt("v", "r", nx))} {
					add(shapeHistory(t, next(), shapeSpec{name: k, n: n, px: p, same: true}, "", ""))
				}
			}
			// condition of the multiplexer constant
			if b.NW > 0 {
				for _, c := range []pattern{"0", "1"} {
					add(shapeHistory(t, next(), shapeSpec{name: k, n: n, pw: c}, "", ""))
					add(shapeHistory(t, next(), shapeSpec{name: k, n: n, pw: c, px: pxs[5%len(pxs)], py: pys[7%len(pys)]}, "", ""))
				}
			}
			// a zero-extended value against constants: a 1 inside the known-zero
			// region, only zeros there, equal to the extension of some value
			if nx == ny && nx >= 2 {
				for _, kz := range uniq([]int{1, nx / 2, nx - 1}) {
					if kz >= nx {
						continue
					}
					ext := pattern(rep("v", nx-kz) + rep("0", kz))
					for j := 0; j < kz; j++ {
						// constant = 2^(nx-kz+j) (+ low value bits)
						c := uint64(1) << uint(nx-kz+j)
						for _, low := range []uint64{0, r.U64() & (1<<uint(nx-kz) - 1)} {
							add(shapeHistory(t, next(), shapeSpec{name: k, n: n, px: ext, py: constPattern(nx, c|low)}, "", ""))
							add(shapeHistory(t, next(), shapeSpec{name: k, n: n, px: constPattern(nx, c|low), py: ext}, "", ""))
						}
					}
					add(shapeHistory(t, next(), shapeSpec{name: k, n: n, px: ext, py: constPattern(nx, r.U64()&(1<<uint(nx-kz)-1))}, "", ""))
					add(shapeHistory(t, next(), shapeSpec{name: k, n: n, px: ext, py: ext}, "", ""))
				}
			}
			// one constant bit at every position (both targets for the builders
			// that dispatch on the target, alternating otherwise)
			if b.TargetDep || thorough || (bi+t)%2 == 0 {
				for i, p := range bitPatterns(nx) {
					add(shapeHistory(t, next(), shapeSpec{name: k, n: n, px: p, nzAlt: i % 3}, "", ""))
				}
				for i, p := range bitPatterns(ny) {
					add(shapeHistory(t, next(), shapeSpec{name: k, n: n, py: p, nzAlt: i % 3}, "", ""))
				}
			}
			// the shaped call after / before a plain call on the same Compiler
			for i, other := range []string{"add", "udiv", "neq", "mux"} {
				p := pxs[(i*3+bi)%len(pxs)]
				q := pys[(i*7+bi+1)%len(pys)]
				add(shapeHistory(t, next(), shapeSpec{name: k, n: n, px: p, py: q}, other, ""))
				add(shapeHistory(t, next(), shapeSpec{name: k, n: n, px: q2(p, nx), py: ""}, "", other))
			}
			// wider operands (beyond one AND-tree round / one prefix stage)
			if !divKinds[k] && k != "index" && nx == ny && nx > 1 {
				for _, wn := range []int{5, 8} {
					wx, wy, _, _, _ := shape(k, wn)
					if wx != wy || wx != wn {
						continue
					}
					ext := pattern(rep("v", wn/2) + rep("0", wn-wn/2))
					add(shapeHistory(t, next(), shapeSpec{name: k, n: wn, px: ext, py: constPattern(wn, uint64(1)<<uint(wn-2)|r.U64()&3)}, "", ""))
					add(shapeHistory(t, next(), shapeSpec{name: k, n: wn, px: constPattern(wn, r.U64()), py: pattern(rep("0", 2) + rep("v", wn-2))}, "", ""))
					add(shapeHistory(t, next(), shapeSpec{name: k, n: wn, px: ext, py: pattern(rep("v", wn-1) + "r")}, "", ""))
				}
			}
		}
	}

	add = all

	// constant wires that an EARLIER call delivered (slice replacement in the
	// builders: result bits set to cc.ZeroWire() / cc.OneWire())
	consumers := []string{"eq", "neq", "ult", "uge", "ilt", "add", "sub", "mul", "udiv", "umod", "mux", "bxor", "band", "bor",
		"hamming", "bts", "btc", "index"}
	if thorough {
		consumers = nil
		for _, b := range builders {
			consumers = append(consumers, b.Name)
		}
	}
	for _, k2 := range consumers {
		for t := 0; t < 2; t++ {
			n := pairWidth(k2)
			nx, ny, nw, nz, par := shape(k2, n)
			if nx < 2 && k2 != "land" && k2 != "lor" {
				continue
			}
			// producers: (builder, operand widths, result width, which result wires are constant)
			type producer struct {
				name       string
				w, nz, par int
				lo, ln     int // constant part of the result
			}
			prods := []producer{
				{"bts", 2, 1, 5, 0, 1},        // index outside the operand: r[0] = cc.ZeroWire()
				{"btc", 2, 1, 5, 0, 1},        // r[0] = cc.OneWire()
				{"mularray", 1, 4, 0, 1, 3},   // one-bit product: z[1..] = cc.ZeroWire()
				{"mularray", 2, 8, 0, 5, 3},   // surplus result bits of the array multiplier
				{"udiv", 2, 5, 0, 2, 3},       // quotient wires above the operand width
				{"add", 2, 6, 0, 3, 3},        // result bits above max+1
				{"hamming", 2, 6, 0, 3, 3},    // adder tree result narrower than the result bus
				{"mulwallace", 2, 7, 0, 4, 3}, // zero rows
				{"addks", 2, 6, 0, 3, 3},      // result bits above max+1 (Kogge-Stone)
				{"umod", 3, 6, 0, 3, 3},       // remainder wires above the operand width
			}
			for pi, pr := range prods {
				m := newHmk("shape", t, next())
				px, py, _, _, _ := shape(pr.name, pr.w)
				a, b := m.in(px), m.in(py)
				vals := m.in(maxi(nx, ny))
				var wsrc HSrc
				if nw > 0 {
					wsrc = m.in(nw)
				}
				res := m.call(pr.name, pr.nz, pr.par, a, b, HSrc{})
				cpart := res.sub(pr.lo, pr.ln)
				// x: value wires with the earlier call's constant wires as the high
				// part; y: a real constant with a bit inside that region
				kc := mini(cpart.Len, nx-1)
				if nx == 1 {
					kc = 1
				}
				x := catP(vals.sub(0, nx-kc), cpart.sub(0, kc))
				var y HSrc
				switch pi % 3 {
				case 0:
					y = operandOf(constPattern(ny, uint64(1)<<uint(maxi(ny-1, 0))|r.U64()&1), HSrc{})
				case 1:
					y = vals.sub(0, ny)
				default:
					y = catP(vals.sub(0, ny-mini(kc, ny-1)), zeroP(mini(kc, ny-1)))
				}
				if ny == 1 && (k2 == "bts" || k2 == "btc") {
					y = vals.sub(0, 1)
				}
				m.call(k2, nz, par, x, y, wsrc)
				if h := m.h; m.ok && h.check() == nil {
					add(h)
				}
			}
		}
	}
	return hs
}

// q2: pattern p, or the plain pattern when p has no value wire (keeps an
// input in the history).
func q2(p pattern, n int) pattern {
	if p.values() == 0 {
		return pattern(rep("v", n-1) + "0")
	}
	return p
}

// shapeOperand: a random shaped variant (same width) of the plain operand s,
// used by the random histories.
func shapeOperand(r *hxlib.Rng, s HSrc) HSrc {
	n := s.Len
	if n == 0 {
		return s
	}
	cp := func(k int) HSrc { return constP(k, new(big.Int).SetUint64(r.U64())) }
	switch r.Intn(8) {
	case 0:
		return cp(n)
	case 1:
		k := 1 + r.Intn(n)
		return catP(s.sub(0, n-k), zeroP(k))
	case 2:
		k := 1 + r.Intn(n)
		return catP(zeroP(k), s.sub(0, n-k))
	case 3:
		k := 1 + r.Intn(n)
		return catP(s.sub(0, n-k), cp(k))
	case 4:
		k := 1 + r.Intn(n)
		return catP(cp(k), s.sub(k, n-k))
	case 5:
		// sign extension
		if n < 2 {
			return cp(n)
		}
		k := 1 + r.Intn(n-1)
		ps := []HSrc{s.sub(0, n-k)}
		for i := 0; i < k; i++ {
			ps = append(ps, s.sub(n-k-1, 1))
		}
		return catP(ps...)
	case 6:
		// one constant bit
		i := r.Intn(n)
		return catP(s.sub(0, i), cp(1), s.sub(i+1, n-1-i))
	default:
		// alternating
		var ps []HSrc
		for i := 0; i < n; i++ {
			if i%2 == r.Intn(2) {
				ps = append(ps, cp(1))
			} else {
				ps = append(ps, s.sub(i, 1))
			}
		}
		return catP(ps...)
	}
}

// Compiled-program form of the builder histories: MPCL functions with two or
// more divisions / multiplications / comparisons / ... in ONE function, compiled
// by the real compiler (one circuits.Compiler per program) for both targets.
// Every statement `t := x op y` is returned, so every builder call is judged
// on the operand values it actually received.
//
//	c07 prog   generated programs: oracle against math/big and the compiled
//	           circuit through the Lean evaluator (op `evalc`)
package main

import (
	"fmt"
	"math/big"
	"strconv"
	"strings"

	"github.com/markkurossi/mpc/circuit"
	"github.com/markkurossi/mpc/compiler"
	"github.com/markkurossi/mpc/compiler/utils"

	"verifharness/hxlib"
)

// pstmt: t<i> := <l> <op> <r>; operands < 0 are inputs (-1-k), >= 0 temps.
//
// OPERAND FORMS (lf, rf; nil = the plain value): what makes the compiler hand
// the builder a bus that holds its constant wires or a repeated wire
// (ssa.Program.Circuit): a constant, a shift by a constant, a cast to the
// wider type (zero extension with cc.ZeroWire(), sign extension repeating the
// top wire), a truncating cast.  Statements are typed: narrow (N bits) or
// wide (2N bits, Wide = true); a wide statement takes wide temps, casts of
// narrow values and constants that may have bits outside the narrow range.
type pstmt struct {
	op     string
	l, r   int
	lf, rf *pform
	Wide   bool
}

// pform: the form of one operand.
type pform struct {
	Kind string   // "const", "shr", "shl", "zx" (cast narrow -> wide), "zxshl" (cast, then shift), "tr" (cast wide -> narrow)
	K    int      // shift count
	C    *big.Int // constant
}

func (f *pform) String() string {
	if f == nil {
		return "-"
	}
	switch f.Kind {
	case "const":
		return "const:" + f.C.String()
	case "shr", "shl", "zxshl":
		return fmt.Sprintf("%s:%d", f.Kind, f.K)
	}
	return f.Kind
}

func parseForm(s string) (*pform, error) {
	if s == "-" {
		return nil, nil
	}
	k, arg, _ := strings.Cut(s, ":")
	f := &pform{Kind: k}
	switch k {
	case "const":
		c, ok := new(big.Int).SetString(arg, 10)
		if !ok {
			return nil, fmt.Errorf("bad constant %q", s)
		}
		f.C = c
	case "shr", "shl", "zxshl":
		n, err := strconv.Atoi(arg)
		if err != nil {
			return nil, err
		}
		f.K = n
	case "zx", "tr":
	default:
		return nil, fmt.Errorf("bad operand form %q", s)
	}
	return f, nil
}

type Prog struct {
	Signed bool
	N      int
	NIn    int
	Stmts  []pstmt
	Target int
	Class  string
}

var arithOps = []string{"+", "-", "*", "/", "%", "&", "|", "^"}
var cmpOps = []string{"<", "<=", ">", ">=", "==", "!="}

func isCmp(op string) bool {
	for _, c := range cmpOps {
		if c == op {
			return true
		}
	}
	return false
}

func (p *Prog) typ() string { return p.typW(p.N) }

func (p *Prog) typW(w int) string {
	if p.Signed {
		return fmt.Sprintf("int%d", w)
	}
	return fmt.Sprintf("uint%d", w)
}

// width of statement i's operands (and of its result unless it is a comparison).
func (p *Prog) stmtW(i int) int {
	if p.Stmts[i].Wide {
		return 2 * p.N
	}
	return p.N
}

// refW: width of the value an operand refers to.
func (p *Prog) refW(o int) int {
	if o < 0 {
		return p.N
	}
	return p.stmtW(o)
}

// expr renders one operand of a statement.
func (p *Prog) expr(o int, f *pform, w int) string {
	if f == nil {
		return p.name(o)
	}
	switch f.Kind {
	case "const":
		if f.C.BitLen() > 4 {
			return "0x" + f.C.Text(16)
		}
		return f.C.String()
	case "shr":
		return fmt.Sprintf("(%s >> %d)", p.name(o), f.K)
	case "shl":
		return fmt.Sprintf("(%s << %d)", p.name(o), f.K)
	case "zx", "tr":
		return fmt.Sprintf("%s(%s)", p.typW(w), p.name(o))
	case "zxshl":
		return fmt.Sprintf("(%s(%s) << %d)", p.typW(w), p.name(o), f.K)
	}
	return "?"
}

// opndVal: the raw bits of an operand of width w, given the raw bits v of the
// value it refers to (width vw).
func (p *Prog) opndVal(f *pform, v *big.Int, vw, w int) *big.Int {
	if f == nil {
		return v
	}
	ext := func() *big.Int {
		if p.Signed {
			return modPow2(toSigned(v, vw), w)
		}
		return v
	}
	switch f.Kind {
	case "const":
		return modPow2(f.C, w)
	case "shr":
		return new(big.Int).Rsh(v, uint(f.K))
	case "shl":
		return modPow2(new(big.Int).Lsh(v, uint(f.K)), w)
	case "zx":
		return ext()
	case "zxshl":
		return modPow2(new(big.Int).Lsh(ext(), uint(f.K)), w)
	case "tr":
		return modPow2(v, w)
	}
	return v
}

// Spec: compact description from which the program can be re-made (replay).
func (p *Prog) Spec() string {
	sg := "u"
	if p.Signed {
		sg = "s"
	}
	parts := []string{fmt.Sprintf("%s %d %d", sg, p.N, p.NIn)}
	for _, s := range p.Stmts {
		w := "n"
		if s.Wide {
			w = "w"
		}
		parts = append(parts, fmt.Sprintf("%s %s %d %s %d %s", s.op, w, s.l, s.lf, s.r, s.rf))
	}
	return strings.Join(parts, " | ")
}

func parseSpec(spec string, target int) (*Prog, error) {
	parts := strings.Split(spec, " | ")
	h := strings.Fields(parts[0])
	if len(h) != 3 {
		return nil, fmt.Errorf("bad program spec")
	}
	p := &Prog{Target: target, Class: "replay", Signed: h[0] == "s"}
	var err error
	if p.N, err = strconv.Atoi(h[1]); err != nil {
		return nil, err
	}
	if p.NIn, err = strconv.Atoi(h[2]); err != nil {
		return nil, err
	}
	for _, st := range parts[1:] {
		f := strings.Fields(st)
		if len(f) != 6 {
			return nil, fmt.Errorf("bad statement spec %q", st)
		}
		s := pstmt{op: f[0], Wide: f[1] == "w"}
		if s.l, err = strconv.Atoi(f[2]); err != nil {
			return nil, err
		}
		if s.lf, err = parseForm(f[3]); err != nil {
			return nil, err
		}
		if s.r, err = strconv.Atoi(f[4]); err != nil {
			return nil, err
		}
		if s.rf, err = parseForm(f[5]); err != nil {
			return nil, err
		}
		p.Stmts = append(p.Stmts, s)
	}
	return p, nil
}

func (p *Prog) name(o int) string {
	if o < 0 {
		return string(rune('a' + (-1 - o)))
	}
	return fmt.Sprintf("t%d", o)
}

func (p *Prog) Source() string {
	var sb strings.Builder
	sb.WriteString("package main\n\nfunc main(")
	for i := 0; i < p.NIn; i++ {
		if i > 0 {
			sb.WriteString(", ")
		}
		fmt.Fprintf(&sb, "%s %s", p.name(-1-i), p.typ())
	}
	sb.WriteString(") (")
	var rets []string
	for i, s := range p.Stmts {
		if i > 0 {
			sb.WriteString(", ")
		}
		if isCmp(s.op) {
			sb.WriteString("bool")
		} else {
			sb.WriteString(p.typW(p.stmtW(i)))
		}
		rets = append(rets, p.name(i))
	}
	sb.WriteString(") {\n")
	for i, s := range p.Stmts {
		w := p.stmtW(i)
		fmt.Fprintf(&sb, "\t%s := %s %s %s\n", p.name(i), p.expr(s.l, s.lf, w), s.op, p.expr(s.r, s.rf, w))
	}
	fmt.Fprintf(&sb, "\treturn %s\n}\n", strings.Join(rets, ", "))
	return sb.String()
}

func (p *Prog) ops() string {
	var o []string
	for _, s := range p.Stmts {
		o = append(o, s.op)
	}
	return strings.Join(o, " ")
}

// ref: the value of `x op y` on n-bit operands (raw bits); nil = undefined.
func (p *Prog) ref(op string, x, y *big.Int, n int) *big.Int {
	a, b := x, y
	if p.Signed {
		a, b = toSigned(x, n), toSigned(y, n)
	}
	var v *big.Int
	switch op {
	case "+":
		v = new(big.Int).Add(a, b)
	case "-":
		v = new(big.Int).Sub(a, b)
	case "*":
		v = new(big.Int).Mul(a, b)
	case "/", "%":
		if b.Sign() == 0 {
			return nil
		}
		var q, r *big.Int
		if p.Signed {
			q, r = idivmod(a, b)
		} else {
			q, r = udivmod(a, b)
		}
		if op == "/" {
			v = q
		} else {
			v = r
		}
	case "&":
		v = new(big.Int).And(x, y)
	case "|":
		v = new(big.Int).Or(x, y)
	case "^":
		v = new(big.Int).Xor(x, y)
	case "<":
		return b2i(a.Cmp(b) < 0)
	case "<=":
		return b2i(a.Cmp(b) <= 0)
	case ">":
		return b2i(a.Cmp(b) > 0)
	case ">=":
		return b2i(a.Cmp(b) >= 0)
	case "==":
		return b2i(a.Cmp(b) == 0)
	case "!=":
		return b2i(a.Cmp(b) != 0)
	}
	return modPow2(v, n)
}

func (p *Prog) outBits() []int {
	var r []int
	for i, s := range p.Stmts {
		if isCmp(s.op) {
			r = append(r, 1)
		} else {
			r = append(r, p.stmtW(i))
		}
	}
	return r
}

func compileProg(src string, target int) (c *circuit.Circuit, errs string) {
	defer func() {
		if e := recover(); e != nil {
			errs = "panic: " + fmt.Sprint(e)
			if len(errs) > 300 {
				errs = errs[:300]
			}
		}
	}()
	params := utils.NewParams()
	if target == 1 {
		params.Target = utils.TargetGMW
	}
	circ, _, err := compiler.New(params).Compile(src, nil)
	if err != nil {
		s := err.Error()
		if len(s) > 300 {
			s = s[:300]
		}
		return nil, "error: " + s
	}
	return circ, ""
}

func flatBits(io circuit.IO) []int {
	var r []int
	for _, a := range io {
		if len(a.Compound) > 0 {
			r = append(r, flatBits(a.Compound)...)
		} else {
			r = append(r, int(a.Type.Bits))
		}
	}
	return r
}

func sameInts(a, b []int) bool {
	if len(a) != len(b) {
		return false
	}
	for i := range a {
		if a[i] != b[i] {
			return false
		}
	}
	return true
}

// judge: first wrong statement on one vector (-1: none).
func (p *Prog) judge(in []*big.Int, outs []*big.Int) (bad int, x, y, want *big.Int, undef int) {
	bad = -1
	val := func(o int) *big.Int {
		if o < 0 {
			return in[-1-o]
		}
		return outs[o]
	}
	for i, s := range p.Stmts {
		n := p.stmtW(i)
		xv, yv := p.opndVal(s.lf, val(s.l), p.refW(s.l), n), p.opndVal(s.rf, val(s.r), p.refW(s.r), n)
		w := p.ref(s.op, xv, yv, n)
		if w == nil {
			undef++
			continue
		}
		if w.Cmp(outs[i]) != 0 && bad < 0 {
			bad, x, y, want = i, xv, yv, w
		}
	}
	return
}

func (p *Prog) failDetail(sig string, stmt int, in []*big.Int, x, y, got, want *big.Int) *failRec {
	tn := "Yao"
	if p.Target == 1 {
		tn = "GMW"
	}
	d := map[string]any{"sig": sig, "kind": "program", "src": p.Source(), "spec": p.Spec(), "target": tn, "type": p.typ(),
		"ops": p.ops(), "class": p.Class, "statements": len(p.Stmts)}
	key := fmt.Sprintf("%s|%02d|%04d|%s|%s|%s|%d", sig, len(p.Stmts), p.N*p.NIn, tn, p.typ(), p.ops(), stmt)
	if stmt >= 0 {
		s := p.Stmts[stmt]
		sw := p.stmtW(stmt)
		d["wrong_statement"] = fmt.Sprintf("%s := %s %s %s", p.name(stmt), p.expr(s.l, s.lf, sw), s.op, p.expr(s.r, s.rf, sw))
		d["x"], d["y"], d["got"], d["want"] = x.String(), y.String(), got.String(), want.String()
		// the same operation alone in its own program, on plain inputs of the
		// statement's width that carry the same operand values
		q := &Prog{Signed: p.Signed, N: sw, NIn: 2, Stmts: []pstmt{{op: s.op, l: -1, r: -2}}, Target: p.Target}
		verdict := "compile-failed"
		if c, e := compileProg(q.Source(), p.Target); e == "" {
			verdict = "compute-error"
			if res, err := c.Compute([]*big.Int{x, y}); err == nil && len(res) == 1 {
				verdict = "wrong-too"
				if res[0].Cmp(want) == 0 {
					verdict = "exact"
				}
			}
		}
		d["same_statement_alone_in_its_own_program"] = verdict
	}
	if in != nil {
		d["inputs"] = decs(in)
	}
	return &failRec{key: key, detail: d, count: 1}
}

type progJob struct {
	p       *Prog
	exhBits int
	ctxs    int
	seed    uint64
}

func runProg(j progJob) *jobResult {
	jr := &jobResult{}
	p := j.p
	jr.count("programs", 1)
	jr.count("prog_class_"+p.Class, 1)
	jr.count(fmt.Sprintf("prog_target_%d", p.Target), 1)
	for i, s := range p.Stmts {
		jr.count("prog_op_"+s.op, 1)
		if i > 0 {
			jr.count("prog_pair_"+p.Stmts[i-1].op+"_then_"+s.op, 1)
		}
		if (s.l >= 0 && (s.lf == nil || s.lf.Kind != "const")) || (s.r >= 0 && (s.rf == nil || s.rf.Kind != "const")) {
			jr.count("prog_statements_fed_by_earlier_results", 1)
		}
		if s.lf != nil || s.rf != nil {
			jr.count("prog_statements_with_shaped_operands", 1)
			for _, f := range []*pform{s.lf, s.rf} {
				if f != nil {
					jr.count("prog_form_"+f.Kind, 1)
				}
			}
		}
		if s.l == s.r && s.lf.String() == s.rf.String() {
			jr.count("prog_statements_x_op_x", 1)
		}
	}
	circ, e := compileProg(p.Source(), p.Target)
	if e != "" {
		jr.count("prog_compile_failed", 1)
		f := p.failDetail("c07-program-compile-failed", -1, nil, nil, nil, nil, nil)
		f.detail["error"] = e
		jr.fails = append(jr.fails, f)
		return jr
	}
	ob := p.outBits()
	var inw []int
	for i := 0; i < p.NIn; i++ {
		inw = append(inw, p.N)
	}
	if !sameInts(flatBits(circ.Outputs), ob) || !sameInts(flatBits(circ.Inputs), inw) {
		f := p.failDetail("c07-program-io-shape", -1, nil, nil, nil, nil, nil)
		f.detail["outputs"] = fmt.Sprint(flatBits(circ.Outputs))
		jr.fails = append(jr.fails, f)
		return jr
	}
	jr.count("prog_gates", len(circ.Gates))
	// vectors: re-use the history enumerator
	h := &History{InW: inw}
	r := hxlib.NewRng(j.seed)
	nout := circ.Outputs.Size()
	byKey := map[string]*failRec{}
	addFail := func(key string, mk func() *failRec) {
		if e, ok := byKey[key]; ok {
			e.count++
			return
		}
		f := mk()
		byKey[key] = f
		jr.fails = append(jr.fails, f)
	}
	var slab []uint64
	var batch []hvec
	nbatch := 0
	flush := func() {
		if len(batch) == 0 {
			return
		}
		in := h.sliceIn(batch)
		slab = evalSliced(circ.NumWires, circ.Gates, in, slab)
		outs := slab[circ.NumWires-nout:]
		for k, v := range batch {
			got := unslice(ob, outs, k)
			bad, x, y, want, undef := p.judge(v, got)
			jr.evals += len(p.Stmts) - undef
			if bad >= 0 {
				addFail(fmt.Sprintf("wrong|%d", bad), func() *failRec {
					return p.failDetail("c07-program-wrong-result", bad, v, x, y, got[bad], want)
				})
			}
			if nbatch == 0 && k < 2 {
				res, err := circ.Compute(v)
				jr.count("prog_compute_crosschecks", 1)
				if err != nil || !eqAll(res, got) {
					addFail("compute", func() *failRec {
						return p.failDetail("c07-program-compute-differs", -1, v, nil, nil, nil, nil)
					})
				} else if len(circ.Gates) <= 6000 && k == 0 {
					inb := ""
					for i, x := range v {
						inb += hxlib.BitsString(bigBits(x, inw[i]))
					}
					var obits []bool
					for i, n := range ob {
						obits = append(obits, bigBits(res[i], n)...)
					}
					jr.ops = append(jr.ops, [2]string{"c07 evalc " + hxlib.CircLine(circ) + " " + inb, hxlib.BitsString(obits)})
					jr.count("prog_evalc_lines", 1)
				}
			}
		}
		nbatch++
		batch = batch[:0]
	}
	exh := h.vectors(r, j.exhBits, j.ctxs, func(v hvec) {
		batch = append(batch, v)
		if len(batch) == 64 {
			flush()
		}
	})
	flush()
	if exh {
		jr.count("prog_exhaustive", 1)
	}
	for _, f := range jr.fails {
		f.detail["failing_inputs_in_case"] = f.count
	}
	return jr
}

func progJobs(cf *hxlib.CommonFlags) []progJob {
	thorough := cf.Tier == "thorough"
	var ps []*Prog
	// structured: every ordered pair of operators on independent operands,
	// and with the first result feeding the second
	ws := []int{4, 8}
	if thorough {
		ws = []int{3, 4, 5, 7, 8, 9, 16, 32}
	}
	all := append(append([]string{}, arithOps...), cmpOps...)
	k := 0
	for _, n := range ws {
		for _, sg := range []bool{false, true} {
			for _, o1 := range all {
				for _, o2 := range all {
					k++
					heavy := func(o string) bool { return o == "/" || o == "%" || o == "*" }
					if !thorough && n == 8 && !(heavy(o1) && heavy(o2)) {
						continue
					}
					if n > 9 && !(heavy(o1) || heavy(o2)) {
						continue
					}
					for t := 0; t < 2; t++ {
						ps = append(ps, &Prog{Signed: sg, N: n, NIn: 4, Target: t, Class: "pair",
							Stmts: []pstmt{{op: o1, l: -1, r: -2}, {op: o2, l: -3, r: -4}}})
						if !isCmp(o1) && (thorough || (k+t)%2 == 0) {
							ps = append(ps, &Prog{Signed: sg, N: n, NIn: 3, Target: t, Class: "chain",
								Stmts: []pstmt{{op: o1, l: -1, r: -2}, {op: o2, l: 0, r: -3}, {op: o2, l: -3, r: 0}}})
						}
					}
				}
			}
		}
	}
	// division identity and repeated divisions
	idw := []int{4, 6, 8, 9, 16}
	if thorough {
		idw = []int{2, 3, 4, 5, 6, 7, 8, 9, 10, 12, 16, 17, 24, 32, 33, 64}
	}
	for _, n := range idw {
		for _, sg := range []bool{false, true} {
			for t := 0; t < 2; t++ {
				ps = append(ps, &Prog{Signed: sg, N: n, NIn: 2, Target: t, Class: "identity",
					Stmts: []pstmt{{op: "/", l: -1, r: -2}, {op: "%", l: -1, r: -2}, {op: "*", l: 0, r: -2}, {op: "+", l: 2, r: 1}, {op: "==", l: 3, r: -1}}})
				ps = append(ps, &Prog{Signed: sg, N: n, NIn: 4, Target: t, Class: "divs",
					Stmts: []pstmt{{op: "/", l: -1, r: -2}, {op: "/", l: -3, r: -4}, {op: "%", l: -3, r: -2}, {op: "/", l: 0, r: -4}, {op: "<", l: 1, r: 0}}})
			}
		}
	}
	// operand shapes: constants, shifts, casts, x op x (shapeProgs)
	ps = append(ps, shapeProgs(cf.Seed, thorough)...)

	// random programs
	nr := 60
	if thorough {
		nr = 800
	}
	r := hxlib.NewRng(cf.Seed*3000017 + 5)
	for i := 0; i < nr; i++ {
		n := 2 + r.Intn(7)
		if r.Intn(6) == 0 {
			n = []int{9, 12, 16, 17, 24, 32}[r.Intn(6)]
		}
		p := &Prog{Signed: r.Bool(), N: n, NIn: 2 + r.Intn(3), Target: r.Intn(2), Class: "rand"}
		ns := 2 + r.Intn(4)
		var arith []int // temps of the operand type
		for s := 0; s < ns; s++ {
			pick := func() int {
				if len(arith) > 0 && r.Intn(5) < 2 {
					return arith[r.Intn(len(arith))]
				}
				return -1 - r.Intn(p.NIn)
			}
			var op string
			switch c := r.Intn(10); {
			case c < 4:
				op = []string{"/", "%", "*"}[r.Intn(3)]
			case c < 7:
				op = arithOps[r.Intn(len(arithOps))]
			default:
				op = cmpOps[r.Intn(len(cmpOps))]
			}
			st := pstmt{op: op, l: pick(), r: pick()}
			// operand forms (narrow statements): a constant, a shift, x op x
			switch r.Intn(9) {
			case 0:
				st.rf = &pform{Kind: "const", C: smallConst(r, n, p.Signed, op == "/" || op == "%")}
			case 1:
				st.lf = &pform{Kind: "const", C: smallConst(r, n, p.Signed, false)}
			case 2:
				if !p.Signed && n > 1 {
					st.lf = &pform{Kind: []string{"shr", "shl"}[r.Intn(2)], K: 1 + r.Intn(n-1)}
				}
			case 3:
				if !p.Signed && n > 1 {
					st.rf = &pform{Kind: []string{"shr", "shl"}[r.Intn(2)], K: 1 + r.Intn(n-1)}
				}
			case 4:
				st.r = st.l
			}
			p.Stmts = append(p.Stmts, st)
			if !isCmp(op) {
				arith = append(arith, s)
			}
		}
		ps = append(ps, p)
	}
	var jobs []progJob
	for i, p := range ps {
		j := progJob{p: p, exhBits: 10, ctxs: 6, seed: cf.Seed*4000037 + uint64(i)}
		if thorough {
			j.exhBits, j.ctxs = 12, 6
		}
		jobs = append(jobs, j)
	}
	return jobs
}

// smallConst: a constant an n-bit operand type can hold (signed: non-negative,
// the open findings about negative constants next to wider operands are judged
// by the single-call oracle); nonZero for divisors.
func smallConst(r *hxlib.Rng, n int, signed, nonZero bool) *big.Int {
	w := n
	if signed {
		w = n - 1
	}
	if w < 1 {
		return big.NewInt(1)
	}
	v := genVal(r, w)
	if nonZero && v.Sign() == 0 {
		v = big.NewInt(1)
	}
	return v
}

// shapeProgs: class `cshape`: for every operator, both signednesses and both
// targets, statements whose operands are created by constants (inside and,
// for wide statements, OUTSIDE the range of the other operand), shifts by
// constants, casts to the wider type (zero / sign extension), truncating casts
// and x op x; three statements per program.
func shapeProgs(seed uint64, thorough bool) []*Prog {
	var ps []*Prog
	r := hxlib.NewRng(seed*6000011 + 99)
	ns := []int{4}
	if thorough {
		ns = []int{3, 4, 5, 8}
	}
	all := append(append([]string{}, arithOps...), cmpOps...)
	cst := func(v int64) *pform { return &pform{Kind: "const", C: big.NewInt(v)} }
	for _, n := range ns {
		w := 2 * n
		for _, sg := range []bool{false, true} {
			for _, op := range all {
				div := op == "/" || op == "%"
				var sts []pstmt
				add := func(st pstmt) {
					st.op = op
					if st.rf != nil && st.rf.Kind == "const" && div && st.rf.C.Sign() == 0 {
						st.rf = cst(1)
					}
					sts = append(sts, st)
				}
				top := int64(1)<<uint(n) - 1
				if sg {
					top = int64(1)<<uint(n-1) - 1
				}
				// narrow statements
				for _, c := range []int64{0, 1, top, top/2 + 1, int64(r.Intn(int(top) + 1))} {
					add(pstmt{l: -1, r: -2, rf: cst(c)})
					add(pstmt{l: -1, r: -2, lf: cst(c)})
				}
				add(pstmt{l: -1, r: -1}) // x op x
				if !sg {
					for _, k := range uniq([]int{1, n / 2, n - 1}) {
						add(pstmt{l: -1, r: -2, lf: &pform{Kind: "shr", K: k}})
						add(pstmt{l: -1, r: -2, rf: &pform{Kind: "shr", K: k}})
						add(pstmt{l: -1, r: -2, lf: &pform{Kind: "shl", K: k}})
						add(pstmt{l: -1, r: -2, rf: &pform{Kind: "shl", K: k}})
						add(pstmt{l: -1, r: -2, lf: &pform{Kind: "shr", K: k}, rf: cst(int64(1) << uint(n-1))})
						add(pstmt{l: -1, r: -2, lf: &pform{Kind: "shl", K: k}, rf: cst(1)})
						add(pstmt{l: -1, r: -1, lf: &pform{Kind: "shr", K: k}, rf: &pform{Kind: "shr", K: k}})
					}
				}
				// wide statements: casts against constants inside / outside the
				// narrow range, against each other
				wtop := int64(1)<<uint(w) - 1
				if sg {
					wtop = int64(1)<<uint(w-1) - 1
				}
				zx := &pform{Kind: "zx"}
				outside := []int64{int64(1) << uint(n), int64(1)<<uint(n) | int64(r.Intn(1<<uint(n))), wtop, wtop/2 + 1}
				if sg {
					outside = []int64{int64(1) << uint(n-1), int64(1) << uint(n), wtop, int64(1)<<uint(n) | int64(r.Intn(1<<uint(n)))}
				}
				for _, c := range append(outside, 1, top) {
					add(pstmt{Wide: true, l: -1, r: -2, lf: zx, rf: cst(c)})
					add(pstmt{Wide: true, l: -1, r: -2, lf: cst(c), rf: zx})
				}
				add(pstmt{Wide: true, l: -1, r: -2, lf: zx, rf: zx})
				add(pstmt{Wide: true, l: -1, r: -1, lf: zx, rf: zx})
				if !sg {
					for _, k := range uniq([]int{1, n, w - 1}) {
						add(pstmt{Wide: true, l: -1, r: -2, lf: &pform{Kind: "zxshl", K: k}, rf: zx})
						add(pstmt{Wide: true, l: -1, r: -2, lf: zx, rf: &pform{Kind: "zxshl", K: k}})
						add(pstmt{Wide: true, l: -1, r: -2, lf: &pform{Kind: "zxshl", K: k}, rf: cst(int64(1) << uint(k/2))})
					}
				}
				// three statements per program, both targets
				for i := 0; i < len(sts); i += 3 {
					j := i + 3
					if j > len(sts) {
						j = len(sts)
					}
					for t := 0; t < 2; t++ {
						p := &Prog{Signed: sg, N: n, NIn: 2, Target: t, Class: "cshape", Stmts: append([]pstmt{}, sts[i:j]...)}
						// a last statement on the truncated first result (wide -> narrow cast)
						if !isCmp(op) && p.Stmts[0].Wide {
							p.Stmts = append(p.Stmts, pstmt{op: op, l: 0, r: -2, lf: &pform{Kind: "tr"}})
						}
						ps = append(ps, p)
					}
				}
			}
		}
	}
	return ps
}

// runPOne: one program on one input vector (replay).
func runPOne(o *hxlib.Out, target, src, inputs, spec string) bool {
	t := 0
	if target == "GMW" || target == "1" {
		t = 1
	}
	circ, e := compileProg(src, t)
	if e != "" {
		fmt.Println("compile:", e)
		o.Fail("c07-program-compile-failed", map[string]any{"kind": "program", "src": src, "target": target, "error": e})
		return false
	}
	var in []*big.Int
	for _, s := range strings.Split(inputs, ",") {
		v, ok := new(big.Int).SetString(s, 10)
		if !ok {
			fmt.Println("c07 replay: bad input value", s)
			return true
		}
		in = append(in, v)
	}
	res, err := circ.Compute(in)
	if err != nil {
		fmt.Println("Compute:", err)
		return false
	}
	var p *Prog
	if spec != "" {
		// programs with operand forms carry their description
		p, err = parseSpec(spec, t)
		if err == nil && p.Source() != src {
			err = fmt.Errorf("the recorded description does not give the recorded source")
		}
	} else {
		p, err = parseProg(src, t)
	}
	if err != nil {
		fmt.Println("c07 replay:", err)
		return true
	}
	fmt.Printf("%s(target %s) inputs %s -> Circuit.Compute %v\n", src, target, inputs, res)
	bad, x, y, want, _ := p.judge(in, res)
	if bad >= 0 {
		fd := p.failDetail("c07-program-wrong-result", bad, in, x, y, res[bad], want)
		fmt.Printf("  MISMATCH: %v with x=%s y=%s: got %s, specification %s; the same statement alone in its own program: %v\n",
			fd.detail["wrong_statement"], x, y, res[bad], want, fd.detail["same_statement_alone_in_its_own_program"])
		o.Fail("c07-program-wrong-result", fd.detail)
		return false
	}
	fmt.Println("  every statement matches its specification")
	return true
}

// parseProg reads back a program printed by Prog.Source.
func parseProg(src string, target int) (*Prog, error) {
	p := &Prog{Target: target, Class: "replay"}
	lines := strings.Split(src, "\n")
	for _, ln := range lines {
		ln = strings.TrimSpace(ln)
		switch {
		case strings.HasPrefix(ln, "func main("):
			args := ln[len("func main("):strings.Index(ln, ")")]
			for _, a := range strings.Split(args, ", ") {
				f := strings.Fields(a)
				if len(f) != 2 {
					return nil, fmt.Errorf("bad argument %q", a)
				}
				p.NIn++
				t := f[1]
				p.Signed = strings.HasPrefix(t, "int")
				fmt.Sscanf(strings.TrimLeft(t, "uint"), "%d", &p.N)
			}
		case strings.Contains(ln, ":="):
			f := strings.Fields(ln)
			if len(f) != 5 {
				return nil, fmt.Errorf("bad statement %q", ln)
			}
			opnd := func(s string) int {
				if strings.HasPrefix(s, "t") {
					var k int
					fmt.Sscanf(s[1:], "%d", &k)
					return k
				}
				return -1 - int(s[0]-'a')
			}
			p.Stmts = append(p.Stmts, pstmt{op: f[3], l: opnd(f[2]), r: opnd(f[4])})
		}
	}
	if p.N == 0 || len(p.Stmts) == 0 {
		return nil, fmt.Errorf("not a generated program")
	}
	return p, nil
}

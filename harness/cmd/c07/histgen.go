// Generators of builder histories (see hist.go).  Everything is derived from
// the seed; the structured classes (pair grid, ROM / threshold boundary pairs,
// chains) do not depend on it.
//
// classes
//
//	pair   every ordered pair of builder kinds x {Yao, GMW}, independent
//	       operands, small widths, (partially) exhaustive operand values
//	same   the same kind twice (and thrice) at equal and different widths
//	       around the ROM / iteration boundaries of the GMW divider, the
//	       Karatsuba thresholds and 2^k, 2^k+-1
//	chain  results of earlier calls feed later ones: op2(op1(a,b),c),
//	       op2(c,op1(a,b)), compare-and-select, the division identity
//	       q*b+r == a (5 calls), double-width product divided again, shared
//	       operands
//	rand   random histories of 2..5 calls of any kind, operands drawn from new
//	       inputs, re-used inputs and (slices of) earlier results
//	wide   3..4 call chains at widths 9..33 (sampled values)
//	shape  operand buses that hold the Compiler's constant wires, repeated
//	       wires, the same bus twice (shapegen.go); the random histories take
//	       such operands as well
package main

import (
	"verifharness/hxlib"
)

var signedKinds = map[string]bool{"idiv": true, "imod": true, "igt": true, "ige": true, "ilt": true, "ile": true}

// hmk incrementally makes a history.
type hmk struct {
	h  *History
	ok bool
}

func newHmk(class string, target int, salt int) *hmk {
	h := &History{Target: target, Pro: 1, Class: class}
	if salt%4 == 0 {
		h.Pro = 0
	}
	if salt%5 == 1 {
		h.Opt = 1
	}
	return &hmk{h: h, ok: true}
}

func (m *hmk) in(w int) HSrc {
	if w < 1 {
		m.ok = false
		w = 1
	}
	m.h.InW = append(m.h.InW, w)
	return HSrc{K: len(m.h.InW) - 1, Lo: 0, Len: w}
}

// call appends a builder call and returns its whole result.  Inputs must all
// be declared before the first call (bus numbering).
func (m *hmk) call(name string, nz, par int, x, y, w HSrc) HSrc {
	b := builderByName[name]
	if b == nil || x.Len == 0 || y.Len == 0 {
		m.ok = false
		return HSrc{K: 0, Lo: 0, Len: 1}
	}
	if signedKinds[name] && x.Len != y.Len {
		// open known findings (zero extension of the narrower signed operand)
		// are judged by the single-call oracle only
		m.ok = false
	}
	if b.NW == 0 {
		w = HSrc{}
	}
	m.h.Steps = append(m.h.Steps, HStep{B: b, NZ: nz, Par: par, X: x, Y: y, W: w})
	i := len(m.h.Steps) - 1
	return HSrc{K: len(m.h.InW) + i, Lo: 0, Len: m.h.outWidth(i)}
}

func (m *hmk) done() *History {
	if !m.ok || len(m.h.Steps) < 2 || m.h.check() != nil {
		return nil
	}
	return m.h
}

// shape gives the operand / result widths of a call of `name` at nominal
// width n: nx, ny, nw, nz, par.
func shape(name string, n int) (nx, ny, nw, nz, par int) {
	nx, ny, nz = n, n, n
	switch name {
	case "ugt", "uge", "ult", "ule", "igt", "ige", "ilt", "ile", "eq", "neq":
		nz = 1
	case "land", "lor":
		nx, ny, nz = 1, 1, 1
	case "bts", "btc":
		ny, nz, par = 1, 1, n/2
	case "mux":
		nw = 1
	case "index":
		par = 2
		if n < 3 {
			par = 1
		}
		nx, ny, nz = 3*par, 2, par
	case "mulkara":
		par = 3
	}
	return
}

// independent makes a history of calls on independent fresh operands.
func independent(class string, target, salt int, kinds []string, widths []int, nzs []int) *History {
	m := newHmk(class, target, salt)
	type ops struct{ x, y, w HSrc }
	var os []ops
	for i, k := range kinds {
		nx, ny, nw, _, _ := shape(k, widths[i])
		o := ops{x: m.in(nx), y: m.in(ny)}
		if nw > 0 {
			o.w = m.in(nw)
		}
		os = append(os, o)
	}
	for i, k := range kinds {
		_, _, _, nz, par := shape(k, widths[i])
		if nzs != nil && nzs[i] > 0 && nz != 1 && k != "index" && k != "mux" {
			nz = nzs[i]
		}
		m.call(k, nz, par, os[i].x, os[i].y, os[i].w)
	}
	return m.done()
}

var coreKinds = []string{"add", "sub", "mul", "udiv", "umod", "udivmod", "idiv", "imod", "ult", "ige", "eq", "mux",
	"bxor", "hamming", "index", "bts"}

var divKinds = map[string]bool{"udiv": true, "umod": true, "udivmod": true, "idiv": true, "imod": true, "udivgold": true,
	"udivlong": true, "udivrestoring": true, "udivarray": true}

func pairWidth(k string) int {
	if divKinds[k] {
		return 4 // the GMW divider uses its seed ROM from 4 bits on
	}
	return 3
}

func histJobs(cf *hxlib.CommonFlags, only string) []histJob {
	thorough := cf.Tier == "thorough"
	var hs []*History
	add := func(h *History) {
		if h != nil {
			hs = append(hs, h)
		}
	}
	salt := 0
	next := func() int { salt++; return salt }

	// ---- pair: every ordered pair of kinds
	kinds := coreKinds
	if thorough {
		kinds = nil
		for _, b := range builders {
			kinds = append(kinds, b.Name)
		}
	}
	for _, k1 := range kinds {
		for _, k2 := range kinds {
			for t := 0; t < 2; t++ {
				add(independent("pair", t, next(), []string{k1, k2}, []int{pairWidth(k1), pairWidth(k2)}, nil))
			}
		}
	}
	if !thorough {
		// the remaining kinds: with themselves and around a division
		for _, b := range builders {
			in := false
			for _, k := range coreKinds {
				in = in || k == b.Name
			}
			if in {
				continue
			}
			for t := 0; t < 2; t++ {
				k := b.Name
				add(independent("pair", t, next(), []string{k, k}, []int{pairWidth(k), pairWidth(k)}, nil))
				add(independent("pair", t, next(), []string{k, "udiv"}, []int{pairWidth(k), 4}, nil))
				add(independent("pair", t, next(), []string{"udiv", k}, []int{4, pairWidth(k)}, nil))
			}
		}
	}

	// ---- same: one kind repeatedly, widths at the boundaries
	divW := [][]int{{4, 4}, {5, 5}, {6, 6}, {7, 7}, {8, 8}, {9, 9}, {4, 5}, {5, 4}, {8, 9}, {9, 8}, {9, 10}, {3, 4}, {4, 3},
		{9, 16}, {16, 9}, {16, 16}, {17, 12}, {4, 4, 4}, {9, 5, 9}, {8, 8, 8}}
	if thorough {
		divW = append(divW, [][]int{{10, 10}, {12, 9}, {15, 16}, {17, 17}, {24, 24}, {32, 32}, {33, 17}, {17, 33}, {9, 32},
			{64, 17}, {9, 9, 9, 9}, {16, 9, 12, 10, 9}}...)
	}
	for _, k := range []string{"udiv", "umod", "udivmod", "idiv", "imod", "udivgold"} {
		for _, ws := range divW {
			for t := 0; t < 2; t++ {
				if ws[0] > 33 && k != "udiv" {
					continue
				}
				if k == "udivgold" && t == 0 && ws[0] > 9 {
					continue // target independent builder: once is enough for the wide ones
				}
				ks := make([]string, len(ws))
				nz := make([]int, len(ws))
				for i := range ks {
					ks[i] = k
					switch (next() + i) % 4 {
					case 1:
						nz[i] = ws[i] + 1
					case 2:
						nz[i] = 2 * ws[i]
					}
				}
				if k == "udivmod" || k == "udivgold" {
					nz = nil
				}
				add(independent("same", t, next(), ks, ws, nz))
			}
		}
	}
	// mixed division kinds on one Compiler (quotient then remainder of OTHER operands)
	for _, ws := range [][]int{{4, 4}, {6, 6}, {8, 8}, {9, 9}, {9, 12}} {
		for t := 0; t < 2; t++ {
			add(independent("same", t, next(), []string{"udiv", "umod"}, ws, nil))
			add(independent("same", t, next(), []string{"umod", "idiv"}, ws, nil))
			add(independent("same", t, next(), []string{"idiv", "udiv"}, ws, nil))
			add(independent("same", t, next(), []string{"imod", "udivmod"}, ws, nil))
		}
	}
	arW := [][]int{{1, 1}, {2, 2}, {3, 3}, {5, 5}, {7, 8}, {8, 8}, {8, 9}, {15, 16}, {16, 17}, {21, 22}, {5, 5, 5}}
	if thorough {
		arW = append(arW, [][]int{{22, 21}, {31, 32}, {32, 33}, {40, 41}, {63, 64}, {64, 65}, {8, 8, 8, 8, 8}}...)
	}
	for _, k := range []string{"add", "sub", "mul", "addks", "subks", "mulwallace", "mulkara", "mularray", "hamming", "ult", "ilt",
		"eq", "mux", "index"} {
		for _, ws := range arW {
			if (k == "mulkara" || k == "mularray" || k == "mulwallace" || k == "mul") && ws[0] > 33 {
				continue
			}
			for t := 0; t < 2; t++ {
				ks := make([]string, len(ws))
				nz := make([]int, len(ws))
				for i := range ks {
					ks[i] = k
					switch (next() + i) % 4 {
					case 1:
						nz[i] = ws[i] + 1
					case 2:
						nz[i] = 2 * ws[i]
					case 3:
						nz[i] = 2*ws[i] + 3
					}
				}
				add(independent("same", t, next(), ks, ws, nz))
			}
		}
	}

	// ---- chain
	chainW := []int{3, 4}
	if thorough {
		chainW = []int{2, 3, 4, 5, 6}
	}
	arith := []string{"add", "sub", "mul", "udiv", "umod", "idiv", "imod", "bxor", "hamming"}
	for _, n := range chainW {
		for t := 0; t < 2; t++ {
			for _, o1 := range arith {
				for _, o2 := range arith {
					// r1 = o1(a,b); r2 = o2(r1,c); r3 = o2(c,r1)
					m := newHmk("chain", t, next())
					a, b, c := m.in(n), m.in(n), m.in(n)
					r1 := m.call(o1, n, 0, a, b, HSrc{})
					m.call(o2, n, 0, r1, c, HSrc{})
					m.call(o2, n, 0, c, r1, HSrc{})
					add(m.done())
				}
				for _, cmp := range []string{"ult", "ugt", "ile", "ige", "eq", "neq"} {
					// r1 = o1(a,b); r2 = cmp(r1,c); r3 = mux(r2, r1, c)
					m := newHmk("chain", t, next())
					a, b, c := m.in(n), m.in(n), m.in(n)
					r1 := m.call(o1, n, 0, a, b, HSrc{})
					r2 := m.call(cmp, 1, 0, r1, c, HSrc{})
					m.call("mux", n, 0, r1, c, r2)
					add(m.done())
				}
			}
		}
	}
	idW := []int{3, 4, 5, 6}
	if thorough {
		idW = []int{1, 2, 3, 4, 5, 6, 7, 8, 9, 10, 12, 16}
	}
	for _, n := range idW {
		for t := 0; t < 2; t++ {
			for _, sg := range []bool{false, true} {
				dv, md := "udiv", "umod"
				if sg {
					dv, md = "idiv", "imod"
				}
				// q = a/b; r = a%b; p = q*b; s = p+r; e = (s == a)
				m := newHmk("chain", t, next())
				a, b := m.in(n), m.in(n)
				q := m.call(dv, n, 0, a, b, HSrc{})
				r := m.call(md, n, 0, a, b, HSrc{})
				p := m.call("mul", n, 0, q, b, HSrc{})
				s := m.call("add", n, 0, p, r, HSrc{})
				m.call("eq", 1, 0, s, a, HSrc{})
				add(m.done())
				// one divisor, several dividends; quotient of a quotient
				m = newHmk("chain", t, next())
				a, b, c := m.in(n), m.in(n), m.in(n)
				q1 := m.call(dv, n, 0, a, b, HSrc{})
				m.call(dv, n, 0, c, b, HSrc{})
				m.call(md, n, 0, a, b, HSrc{})
				m.call(dv, n, 0, q1, c, HSrc{})
				add(m.done())
			}
			// double-width product divided again, low half re-used
			m := newHmk("chain", t, next())
			a, b, c := m.in(n), m.in(n), m.in(n)
			p := m.call("mul", 2*n, 0, a, b, HSrc{})
			q := m.call("udiv", 2*n, 0, p, c, HSrc{})
			lo := HSrc{K: q.K, Lo: 0, Len: n}
			hi := HSrc{K: p.K, Lo: n, Len: n}
			m.call("umod", n, 0, lo, c, HSrc{})
			m.call("sub", n+1, 0, hi, lo, HSrc{})
			add(m.done())
		}
	}

	// ---- wide chains
	wideW := []int{9, 12, 16, 17}
	if thorough {
		wideW = []int{9, 10, 12, 15, 16, 17, 24, 31, 32, 33}
	}
	for i, n := range wideW {
		for t := 0; t < 2; t++ {
			m := newHmk("wide", t, next())
			a, b, c, d := m.in(n), m.in(n), m.in(n), m.in(n)
			q := m.call("udiv", n, 0, a, b, HSrc{})
			r := m.call("umod", n, 0, c, d, HSrc{})
			p := m.call("mul", n, 0, q, r, HSrc{})
			if i%2 == 0 {
				m.call("udiv", n, 0, p, d, HSrc{})
			} else {
				m.call("ult", 1, 0, p, a, HSrc{})
			}
			add(m.done())
		}
	}

	// ---- shape: operand buses holding constant wires / repeated wires (shapegen.go)
	for _, h := range shapeHistories(cf.Seed, thorough, next) {
		add(h)
	}

	// ---- rand
	nr := 160
	if thorough {
		nr = 1500
	}
	if cf.N > 0 {
		nr = cf.N
	}
	r := hxlib.NewRng(cf.Seed*9000011 + 77)
	for i := 0; i < nr; i++ {
		add(randomHistory(r, thorough, next()))
	}

	var jobs []histJob
	for i, h := range hs {
		if only != "" && h.Class != only {
			continue
		}
		j := histJob{h: h, exhBits: 10, ctxs: 6, seed: cf.Seed*5000011 + uint64(i)}
		if thorough {
			j.exhBits, j.ctxs = 12, 6
		}
		jobs = append(jobs, j)
	}
	return jobs
}

// randomHistory: 2..5 calls of any kind; operands are new input buses,
// re-used input buses or slices of earlier results.
func randomHistory(r *hxlib.Rng, thorough bool, salt int) *History {
	maxW, budget := 6, 16
	if thorough {
		maxW, budget = 8, 20
	}
	nsteps := 2 + r.Intn(4)
	// Plan first (input buses must be numbered before the results): sources
	// are described symbolically: input bus i or result of call j.
	type sym struct {
		input  bool
		idx    int // input bus index / call index
		lo, ln int
	}
	var inW []int
	used := 0
	var outW []int // result width of each planned call
	type pcall struct {
		b       *Builder
		nz, par int
		x, y, w sym
	}
	var calls []pcall
	target := r.Intn(2)
	newIn := func(w int) (sym, bool) {
		if used+w > budget {
			return sym{}, false
		}
		used += w
		inW = append(inW, w)
		return sym{input: true, idx: len(inW) - 1, lo: 0, ln: w}, true
	}
	// pick a source of exactly width w (0: any width up to maxW)
	pickSrc := func(w int) (sym, bool) {
		for try := 0; try < 6; try++ {
			switch c := r.Intn(10); {
			case c < 4 && len(calls) > 0:
				j := r.Intn(len(calls))
				ow := outW[j]
				if ow == 0 {
					continue
				}
				ln := w
				if ln == 0 {
					ln = ow
					if ln > maxW+2 || r.Intn(4) == 0 {
						ln = 1 + r.Intn(mini(ow, maxW))
					}
				}
				if ln > ow {
					continue
				}
				lo := 0
				if ow > ln && r.Intn(3) == 0 {
					lo = r.Intn(ow - ln + 1)
				}
				return sym{idx: j, lo: lo, ln: ln}, true
			case c < 6 && len(inW) > 0:
				i := r.Intn(len(inW))
				ln := w
				if ln == 0 {
					ln = inW[i]
				}
				if ln > inW[i] {
					continue
				}
				return sym{input: true, idx: i, lo: 0, ln: ln}, true
			default:
				ln := w
				if ln == 0 {
					ln = 1 + r.Intn(maxW)
				}
				if s, ok := newIn(ln); ok {
					return s, true
				}
			}
		}
		return sym{}, false
	}
	for attempt := 0; len(calls) < nsteps && attempt < 300; attempt++ {
		b := builders[r.Intn(len(builders))]
		var pc pcall
		pc.b = b
		var ok bool
		switch b.Name {
		case "index":
			size := 1 + r.Intn(3)
			cnt := 1 + r.Intn(4)
			if pc.x, ok = pickSrc(size * cnt); !ok {
				continue
			}
			if pc.y, ok = pickSrc(1 + r.Intn(3)); !ok {
				continue
			}
			pc.par, pc.nz = size, size
		case "land", "lor":
			if pc.x, ok = pickSrc(1); !ok {
				continue
			}
			if pc.y, ok = pickSrc(1); !ok {
				continue
			}
			pc.nz = 1
		case "bts", "btc":
			if pc.x, ok = pickSrc(0); !ok {
				continue
			}
			if pc.y, ok = pickSrc(1); !ok {
				continue
			}
			ps := b.Pars(pc.x.ln, 1)
			pc.par, pc.nz = ps[r.Intn(len(ps))], 1
		default:
			if pc.x, ok = pickSrc(0); !ok {
				continue
			}
			wy := 0
			if signedKinds[b.Name] || r.Intn(10) < 6 {
				wy = pc.x.ln
			}
			if pc.y, ok = pickSrc(wy); !ok {
				continue
			}
			if b.NW > 0 {
				if pc.w, ok = pickSrc(1); !ok {
					continue
				}
			}
			nzs := b.NZs(pc.x.ln, pc.y.ln)
			m := maxi(pc.x.ln, pc.y.ln)
			var cand []int
			for _, z := range nzs {
				if (b.Name == "band" || b.Name == "bor" || b.Name == "bxor" || b.Name == "bclr") && z > m {
					continue
				}
				cand = append(cand, z)
			}
			if len(cand) == 0 {
				continue
			}
			pc.nz = cand[r.Intn(len(cand))]
			if r.Intn(2) == 0 {
				// the width the compiler uses most: the operand width
				for _, z := range cand {
					if z == m {
						pc.nz = m
					}
				}
			}
			ps := b.Pars(pc.x.ln, pc.y.ln)
			pc.par = ps[r.Intn(len(ps))]
		}
		c := Case{B: b, Target: target, NX: pc.x.ln, NY: pc.y.ln, NW: pc.w.ln, NZ: pc.nz, Par: pc.par}
		if b.Valid != nil && !b.Valid(c) {
			continue
		}
		ow := 0
		for _, w := range b.Outs(c) {
			ow += w
		}
		calls = append(calls, pc)
		outW = append(outW, ow)
	}
	m := newHmk("rand", target, salt)
	for _, w := range inW {
		m.in(w)
	}
	res := func(s sym) HSrc {
		if s.ln == 0 {
			return HSrc{}
		}
		if s.input {
			return HSrc{K: s.idx, Lo: s.lo, Len: s.ln}
		}
		return HSrc{K: len(inW) + s.idx, Lo: s.lo, Len: s.ln}
	}
	for _, pc := range calls {
		x, y, w := res(pc.x), res(pc.y), res(pc.w)
		// operand shapes: constant wires, repeated wires, x op x (shapegen.go)
		switch r.Intn(8) {
		case 0:
			x = shapeOperand(r, x)
		case 1:
			y = shapeOperand(r, y)
		case 2:
			x, y = shapeOperand(r, x), shapeOperand(r, y)
		case 3:
			if x.Len == y.Len {
				y = x
			}
		case 4:
			if w.Len > 0 {
				w = shapeOperand(r, w)
			}
		}
		m.call(pc.b.Name, pc.nz, pc.par, x, y, w)
	}
	return m.done()
}

func mini(a, b int) int {
	if a < b {
		return a
	}
	return b
}

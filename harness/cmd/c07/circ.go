package main

import (
	"fmt"
	"math/big"
	"strings"

	"github.com/markkurossi/mpc/circuit"
	"github.com/markkurossi/mpc/compiler/circuits"
	"github.com/markkurossi/mpc/compiler/utils"
	"github.com/markkurossi/mpc/types"

	"verifharness/hxlib"
)

// Case identifies one builder instantiation.
type Case struct {
	B      *Builder
	Target int // 0 = Yao, 1 = GMW
	Pro    int // 1: allocate ZeroWire/OneWire first, as ssa.CompileCircuit does
	Opt    int // 1: ConstPropagate + ShortCircuitXORZero + Prune before Compile
	NX     int
	NY     int
	NW     int // third operand (mux condition) width
	NZ     int
	Par    int // builder specific (index: element size, bts/btc: bit index, karatsuba: limit)
}

func (c Case) String() string {
	return fmt.Sprintf("%s %d %d %d %d %d %d %d", c.B.Name, c.Target, c.Pro, c.NX, c.NY, c.NW, c.NZ, c.Par)
}

func (c Case) TargetName() string {
	if c.Target == 1 {
		return "GMW"
	}
	return "Yao"
}

// Built is the result of running the real builder.
type Built struct {
	NIn      int
	Raw      []rawGate // cc.Gates, canonically numbered by first occurrence
	RawOuts  []int     // canonical numbers of the circuit output wires
	RawWires int
	Circ     *circuit.Circuit
	Err      string // builder returned an error
	Panic    string // builder / Compile panicked
	OutBits  []int  // widths of the result buses (in output order)
}

type rawGate struct {
	Op       circuit.Operation
	A, B, O  int
	BUnknown bool
}

func uio(name string, bits int) circuit.IOArg {
	return circuit.IOArg{
		Name: name,
		Type: types.Info{Type: types.TUint, IsConcrete: true, Bits: types.Size(bits)},
	}
}

// Build runs the real builder on a fresh circuits.Compiler, wires the
// result buses to the circuit outputs through ID gates exactly as the SSA
// `ret` instruction does (compiler/ssa/circuitgen.go), dumps cc.Gates and
// compiles.
func Build(c Case) (res *Built) {
	res = &Built{}
	defer func() {
		if e := recover(); e != nil {
			res.Panic = fmt.Sprint(e)
			if len(res.Panic) > 300 {
				res.Panic = res.Panic[:300]
			}
		}
	}()
	params := utils.NewParams()
	if c.Target == 1 {
		params.Target = utils.TargetGMW
	}
	params.OptPruneGates = c.Opt == 1
	calloc := circuits.NewAllocator()

	nin := c.NX + c.NY + c.NW
	res.NIn = nin
	in := make([]*circuits.Wire, nin)
	for i := range in {
		in[i] = calloc.Wire()
	}
	x := in[:c.NX:c.NX]
	y := in[c.NX : c.NX+c.NY : c.NX+c.NY]
	w := in[c.NX+c.NY:]

	inputs := circuit.IO{uio("x", c.NX), uio("y", c.NY)}
	if c.NW > 0 {
		inputs = append(inputs, uio("w", c.NW))
	}
	outs := c.B.Outs(c)
	res.OutBits = outs
	var outputs circuit.IO
	for i, n := range outs {
		outputs = append(outputs, uio(fmt.Sprintf("z%d", i), n))
	}
	cc, err := circuits.NewCompiler(params, calloc, inputs, outputs, in, nil)
	if err != nil {
		res.Err = err.Error()
		return
	}
	if c.Pro == 1 {
		cc.ZeroWire()
		cc.OneWire()
	}
	zs := make([][]*circuits.Wire, len(outs))
	for i, n := range outs {
		zs[i] = calloc.Wires(types.Size(n))
	}
	err = c.B.Build(cc, c, x, y, w, zs)
	if err != nil {
		res.Err = err.Error()
		return
	}
	finishBuilt(res, cc, in, zs, c.Opt == 1)
	return
}

// finishBuilt wires the result buses to circuit outputs through ID gates
// exactly as the SSA `ret` instruction does, dumps cc.Gates canonically
// (inputs 0..nin-1, every other wire numbered at its first occurrence in A,
// B, O order) and compiles.
func finishBuilt(res *Built, cc *circuits.Compiler, in []*circuits.Wire, zs [][]*circuits.Wire, opt bool) {
	nin := len(in)
	// ret
	for _, wg := range zs {
		for _, zw := range wg {
			o := cc.Calloc.Wire()
			cc.ID(zw, o)
			cc.OutputWires = append(cc.OutputWires, o)
		}
	}
	for _, o := range cc.OutputWires {
		o.SetOutput(true)
	}

	num := make(map[*circuits.Wire]int, len(cc.Gates)+nin)
	for i, iw := range in {
		num[iw] = i
	}
	id := func(p *circuits.Wire) int {
		n, ok := num[p]
		if !ok {
			n = len(num)
			num[p] = n
		}
		return n
	}
	res.Raw = make([]rawGate, 0, len(cc.Gates))
	for _, g := range cc.Gates {
		var rg rawGate
		rg.Op = g.Op
		rg.A = id(g.A)
		if g.Op != circuit.INV {
			rg.B = id(g.B)
		}
		rg.O = id(g.O)
		res.Raw = append(res.Raw, rg)
	}
	for _, o := range cc.OutputWires {
		res.RawOuts = append(res.RawOuts, id(o))
	}
	res.RawWires = len(num)

	if opt {
		cc.ConstPropagate()
		cc.ShortCircuitXORZero()
		cc.Prune()
	}
	res.Circ = cc.Compile()
}

// RawLine renders the canonical raw gate list: `<nIn> <gates> <outs>`.
func (b *Built) RawLine() string {
	var sb strings.Builder
	fmt.Fprintf(&sb, "%d ", b.NIn)
	if len(b.Raw) == 0 {
		sb.WriteString("-")
	}
	for i, g := range b.Raw {
		if i > 0 {
			sb.WriteByte(';')
		}
		fmt.Fprintf(&sb, "%s%d.%d.%d", hxlib.OpLetter[g.Op], g.A, g.B, g.O)
	}
	sb.WriteByte(' ')
	for i, o := range b.RawOuts {
		if i > 0 {
			sb.WriteByte(',')
		}
		fmt.Fprintf(&sb, "%d", o)
	}
	return sb.String()
}

// ---------------------------------------------------------------- evaluation

// evalSliced evaluates gates on 64 input vectors at once; in[i] holds bit i
// of every vector.
func evalSliced(numWires int, gates []circuit.Gate, in []uint64, w []uint64) []uint64 {
	if cap(w) < numWires {
		w = make([]uint64, numWires)
	}
	w = w[:numWires]
	for i := range w {
		w[i] = 0
	}
	copy(w, in)
	for _, g := range gates {
		a := w[g.Input0]
		var v uint64
		switch g.Op {
		case circuit.XOR:
			v = a ^ w[g.Input1]
		case circuit.XNOR:
			v = ^(a ^ w[g.Input1])
		case circuit.AND:
			v = a & w[g.Input1]
		case circuit.OR:
			v = a | w[g.Input1]
		case circuit.INV:
			v = ^a
		}
		w[g.Output] = v
	}
	return w
}

// rawAsGates converts the canonical raw list to circuit gates (list order).
func (b *Built) rawAsGates() []circuit.Gate {
	gs := make([]circuit.Gate, len(b.Raw))
	for i, g := range b.Raw {
		gs[i] = circuit.Gate{Input0: circuit.Wire(g.A), Input1: circuit.Wire(g.B), Output: circuit.Wire(g.O), Op: g.Op}
	}
	return gs
}

// straightLine reports whether the raw list is in definition order: gate k
// writes wire nIn+k and reads only smaller wires (what the Lean generator
// produces by construction).
func (b *Built) straightLine() bool {
	for k, g := range b.Raw {
		if g.O != b.NIn+k || g.A >= g.O || (g.Op != circuit.INV && g.B >= g.O) {
			return false
		}
	}
	return true
}

func bigBits(v *big.Int, n int) []bool {
	r := make([]bool, n)
	for i := 0; i < n; i++ {
		r[i] = v.Bit(i) == 1
	}
	return r
}

func mask(n int) *big.Int {
	m := new(big.Int).Lsh(big.NewInt(1), uint(n))
	return m.Sub(m, big.NewInt(1))
}

// toSigned interprets the n-bit value v as two's complement.
func toSigned(v *big.Int, n int) *big.Int {
	r := new(big.Int).Set(v)
	if n > 0 && v.Bit(n-1) == 1 {
		r.Sub(r, new(big.Int).Lsh(big.NewInt(1), uint(n)))
	}
	return r
}

func modPow2(v *big.Int, n int) *big.Int {
	r := new(big.Int).And(v, mask(n)) // big.Int And on negative values is two's complement
	return r
}

// Harness of property C07: circuit builders of compiler/circuits are exact
// for every width.
//
//	c07 oracle  implementation-side oracle: real builder -> Compile ->
//	            evaluation against math/big, exhaustively at small widths,
//	            boundary-biased samples up to 130 bits
//	c07 corr    correspondence ops: canonical cc.Gates dumps (T4), sample
//	            evaluations (T3) and compiled circuits for the Lean evaluator
//	c07 hist    builder histories on ONE circuits.Compiler (hist.go, histgen.go)
//	c07 prog    MPCL programs with several operations in one function (prog.go)
//	c07 hone    one history on one input vector; c07 replay <file>: a recorded case
//	c07 one     replay a single case: -extra "<builder> <target> <pro> <nx> <ny> <nw> <nz> <par> <opt> <x> <y> <w>"
package main

import (
	"fmt"
	"math/big"
	"os"
	"runtime"
	"sort"
	"strconv"
	"strings"
	"sync"

	"github.com/markkurossi/mpc/circuit"

	"verifharness/hxlib"
)

// ---------------------------------------------------------------- values

// genVal draws a boundary-biased n-bit value.
func genVal(r *hxlib.Rng, n int) *big.Int {
	one := big.NewInt(1)
	top := new(big.Int).Lsh(one, uint(n))
	v := new(big.Int)
	switch r.Intn(12) {
	case 0:
		// zero
	case 1:
		v.SetInt64(1)
	case 2:
		v.Sub(top, one)
	case 3:
		v.Lsh(one, uint(n-1))
	case 4:
		v.Lsh(one, uint(n-1))
		v.Sub(v, one)
	case 5:
		v.Lsh(one, uint(r.Intn(n)))
	case 6:
		v.Lsh(one, uint(r.Intn(n)))
		v.Sub(v, one)
	case 7:
		v.Lsh(one, uint(r.Intn(n)))
		v.Add(v, one)
	case 8:
		// random value of random bit length
		l := 1 + r.Intn(n)
		v.SetBytes(r.Bytes((l + 7) / 8))
		v.And(v, mask(l))
	case 9:
		// top - small
		v.Sub(top, big.NewInt(int64(1+r.Intn(4))))
	default:
		v.SetBytes(r.Bytes((n + 7) / 8))
	}
	return v.And(v, mask(n))
}

// ---------------------------------------------------------------- jobs

type failRec struct {
	key    string
	detail map[string]any
	count  int
}

type jobResult struct {
	evals    int
	counters map[string]int
	fails    []*failRec
	ops      [][2]string
}

func (jr *jobResult) count(k string, n int) {
	if jr.counters == nil {
		jr.counters = map[string]int{}
	}
	jr.counters[k] += n
}

func hexs(vs []*big.Int) string {
	var p []string
	for _, v := range vs {
		p = append(p, v.Text(16))
	}
	return strings.Join(p, ",")
}

func tf(b bool) string {
	if b {
		return "true"
	}
	return "false"
}

// algo names the algorithm a case actually exercises (the builder may
// dispatch on the target).
func algo(c Case) string {
	gmw := c.Target == 1
	switch c.B.Name {
	case "add":
		if gmw {
			return "ks-adder"
		}
		return "ripple-adder"
	case "addks":
		return "ks-adder"
	case "sub":
		if gmw {
			return "ks-sub"
		}
		return "ripple-sub"
	case "subks":
		return "ks-sub"
	case "mul":
		if gmw {
			return "wallace-mult"
		}
		return "array-mult"
	case "mulkara", "mularray":
		return "array-mult"
	case "mulwallace":
		return "wallace-mult"
	case "udiv", "umod", "udivmod":
		if gmw {
			return "goldschmidt-div"
		}
		return "long-div"
	case "udivlong":
		return "long-div"
	case "udivgold":
		return "goldschmidt-div"
	case "idiv", "imod":
		if gmw {
			return "signed-goldschmidt-div"
		}
		return "signed-long-div"
	case "igt", "ige", "ilt", "ile":
		return "int-comparator"
	case "hamming":
		return "hamming"
	}
	return c.B.Name
}

func eqAll(a, b []*big.Int) bool {
	if len(a) != len(b) {
		return false
	}
	for i := range a {
		if a[i].Cmp(b[i]) != 0 {
			return false
		}
	}
	return true
}

// classify describes how a wrong result differs from the expected one;
// known_findings.json entries match on it so that a different failure of
// the same builder is still reported.
func classify(c Case, x, y, w *big.Int, got, want []*big.Int) string {
	m := maxi(c.NX, c.NY)
	allZero := true
	for _, g := range got {
		if g.Sign() != 0 {
			allZero = false
		}
	}
	if c.B.AltRef != nil {
		// the builder's own reading of unequal signed operands: zero padded
		// to the common width, then two's complement
		alt := c.B.AltRef(c, x, y, w)
		if alt != nil {
			for i := range alt {
				alt[i] = modPow2(alt[i], c.NZ)
			}
			if eqAll(alt, got) {
				return "zeropad"
			}
			// both the zero extension and the inexact divider
			if strings.HasPrefix(algo(c), "signed-goldschmidt") && len(got) == 1 {
				sx, sy := sgnPad(c, x, y)
				ay := sy.Abs(sy)
				_ = sx
				for k := int64(-3); k <= 3; k++ {
					t := new(big.Int).Set(alt[0])
					if c.B.Name == "idiv" {
						t.Add(t, big.NewInt(k))
					} else {
						t.Add(t, new(big.Int).Mul(ay, big.NewInt(k)))
					}
					if modPow2(t, c.NZ).Cmp(got[0]) == 0 {
						return "zeropad_approx"
					}
				}
			}
		}
	}
	if strings.Contains(c.B.Name, "div") || strings.Contains(c.B.Name, "mod") {
		// approximately right quotient with a consistent remainder
		ax, ay := x, y
		if c.B.Name == "idiv" || c.B.Name == "imod" {
			sx, sy := toSigned(x, c.NX), toSigned(y, c.NY)
			ax, ay = sx.Abs(sx), sy.Abs(sy)
		}
		switch {
		case len(got) == 2:
			dq := new(big.Int).Sub(got[0], want[0])
			chk := new(big.Int).Mul(got[0], ay)
			chk.Add(chk, got[1])
			chk.Sub(chk, ax)
			if dq.CmpAbs(big.NewInt(3)) <= 0 && modPow2(chk, c.NZ).Sign() == 0 {
				return "approx"
			}
		case c.B.Name == "udiv" || c.B.Name == "idiv":
			dq := new(big.Int).Sub(got[0], want[0])
			dq2 := new(big.Int).Sub(modPow2(dq, c.NZ), new(big.Int).Lsh(big.NewInt(1), uint(c.NZ)))
			if dq.CmpAbs(big.NewInt(3)) <= 0 || dq2.CmpAbs(big.NewInt(3)) <= 0 {
				return "approx"
			}
		default:
			// remainder off by a small multiple of the divisor; the divider
			// works at the operand width n and zero-extends / truncates
			w := c.NZ
			if m < w {
				w = m
			}
			if got[0].BitLen() <= m {
				for k := int64(-3); k <= 3; k++ {
					t := new(big.Int).Mul(ay, big.NewInt(k))
					t.Add(t, want[0])
					if modPow2(t, w).Cmp(modPow2(got[0], w)) == 0 {
						return "approx"
					}
				}
			}
		}
	}
	if len(got) == 1 {
		d := new(big.Int).Xor(got[0], want[0])
		if d.Cmp(big.NewInt(2)) == 0 {
			return "bit1"
		}
		if new(big.Int).And(d, mask(m+1)).Sign() == 0 {
			return "high"
		}
		if new(big.Int).And(d, mask(m)).Sign() == 0 {
			return "high_n"
		}
	}
	if allZero {
		return "zero"
	}
	return "other"
}

func failDetail(c Case, sig string, x, y, w *big.Int, got, want []*big.Int, class string) *failRec {
	m := maxi(c.NX, c.NY)
	d := map[string]any{
		"sig": sig, "builder": c.B.Name, "target": c.TargetName(), "pro": c.Pro, "opt": c.Opt,
		"nx": c.NX, "ny": c.NY, "nw": c.NW, "nz": c.NZ, "par": c.Par,
		"nz_gt_max":  tf(c.NZ > m),
		"nz_gt_max1": tf(c.NZ > m+1),
		"nz_gt_2max": tf(c.NZ > 2*m),
		"nz_eq_max":  tf(c.NZ == m),
		"nz_lt_max":  tf(c.NZ < m),
		"nx_eq_ny":   tf(c.NX == c.NY),
		"max_is_1":   tf(m == 1),
		"class":      class,
		"algo":       algo(c),
	}
	if x != nil {
		d["x"], d["y"], d["w"] = x.String(), y.String(), w.String()
		d["got_hex"], d["want_hex"] = hexs(got), hexs(want)
		d["replay"] = fmt.Sprintf("c07 one -extra \"%s %d %s %s %s\"", c.String(), c.Opt, x, y, w)
	} else {
		d["replay"] = fmt.Sprintf("c07 one -extra \"%s %d 0 0 0\"", c.String(), c.Opt)
	}
	key := fmt.Sprintf("%s|%s|%s|%s|%s|%s|%s|%s|%s|%s|%s", sig, c.B.Name, c.TargetName(), d["nz_gt_max"], d["nz_gt_max1"],
		d["nz_gt_2max"], d["nz_lt_max"], d["nx_eq_ny"], d["max_is_1"], class, d["algo"])
	return &failRec{key: key, detail: d, count: 1}
}

// inputBatch is up to 64 operand triples.
type inputBatch struct {
	x, y, w []*big.Int
}

func slice(c Case, b *inputBatch) []uint64 {
	in := make([]uint64, c.NX+c.NY+c.NW)
	for k := range b.x {
		bit := uint64(1) << uint(k)
		for i := 0; i < c.NX; i++ {
			if b.x[k].Bit(i) == 1 {
				in[i] |= bit
			}
		}
		for i := 0; i < c.NY; i++ {
			if b.y[k].Bit(i) == 1 {
				in[c.NX+i] |= bit
			}
		}
		for i := 0; i < c.NW; i++ {
			if b.w[k].Bit(i) == 1 {
				in[c.NX+c.NY+i] |= bit
			}
		}
	}
	return in
}

// unslice extracts the output buses of vector k from the wire slab `outs`
// (the circuit's output wires in order).
func unslice(outBits []int, outs []uint64, k int) []*big.Int {
	var res []*big.Int
	p := 0
	for _, n := range outBits {
		v := new(big.Int)
		for i := 0; i < n; i++ {
			if outs[p+i]>>uint(k)&1 == 1 {
				v.SetBit(v, i, 1)
			}
		}
		p += n
		res = append(res, v)
	}
	return res
}

// smallExhaustive: fast path for exhaustive enumeration, operands as ints.
func exhaustiveBatches(c Case, f func(b *inputBatch)) {
	total := uint64(1) << uint(c.NX+c.NY+c.NW)
	b := &inputBatch{}
	for v := uint64(0); v < total; v++ {
		x := v & (1<<uint(c.NX) - 1)
		y := (v >> uint(c.NX)) & (1<<uint(c.NY) - 1)
		w := v >> uint(c.NX+c.NY)
		b.x = append(b.x, new(big.Int).SetUint64(x))
		b.y = append(b.y, new(big.Int).SetUint64(y))
		b.w = append(b.w, new(big.Int).SetUint64(w))
		if len(b.x) == 64 {
			f(b)
			b = &inputBatch{}
		}
	}
	if len(b.x) > 0 {
		f(b)
	}
}

func sampledBatches(c Case, r *hxlib.Rng, nb int, f func(b *inputBatch)) {
	for i := 0; i < nb; i++ {
		b := &inputBatch{}
		for k := 0; k < 64; k++ {
			x, y := genVal(r, c.NX), genVal(r, c.NY)
			switch r.Intn(10) {
			case 0:
				if c.NX == c.NY {
					y = new(big.Int).Set(x)
				}
			case 1:
				// neighbours
				y = new(big.Int).Add(x, big.NewInt(int64(r.Intn(3)-1)))
				y.And(y, mask(c.NY))
			}
			w := new(big.Int)
			if c.NW > 0 {
				w = genVal(r, c.NW)
			}
			b.x, b.y, b.w = append(b.x, x), append(b.y, y), append(b.w, w)
		}
		f(b)
	}
}

type job struct {
	c          Case
	exhaustive bool
	batches    int
	seed       uint64
}

// runOracle builds the case with the real builder and checks every input
// of the job against the mathematical specification.
func runOracle(j job) *jobResult {
	jr := &jobResult{}
	c := j.c
	bt := Build(c)
	jr.count("cases", 1)
	jr.count("case_"+c.B.Name+"_"+c.TargetName(), 1)
	if bt.Panic != "" {
		jr.count("builder_panic", 1)
		jr.fails = append(jr.fails, failDetail(c, "c07-builder-panic", nil, nil, nil, nil, nil, "panic"))
		jr.fails[0].detail["panic"] = bt.Panic
		return jr
	}
	if bt.Err != "" {
		jr.count("builder_error", 1)
		jr.fails = append(jr.fails, failDetail(c, "c07-builder-error", nil, nil, nil, nil, nil, "error"))
		jr.fails[0].detail["error"] = bt.Err
		return jr
	}
	circ := bt.Circ
	nout := circ.Outputs.Size()
	straight := bt.straightLine()
	if !straight {
		jr.count("raw_not_straight_line", 1)
	}
	rawGates := bt.rawAsGates()
	byKey := map[string]*failRec{}
	addFail := func(f *failRec) {
		if e, ok := byKey[f.key]; ok {
			e.count++
			return
		}
		byKey[f.key] = f
		jr.fails = append(jr.fails, f)
	}
	var slab, slab2 []uint64
	first := true
	check := func(b *inputBatch) {
		in := slice(c, b)
		slab = evalSliced(circ.NumWires, circ.Gates, in, slab)
		outs := slab[circ.NumWires-nout:]
		var routs []uint64
		if straight {
			slab2 = evalSliced(bt.RawWires, rawGates, in, slab2)
			routs = make([]uint64, nout)
			for i, o := range bt.RawOuts {
				routs[i] = slab2[o]
			}
		}
		for k := range b.x {
			want := c.B.Ref(c, b.x[k], b.y[k], b.w[k])
			if want == nil {
				jr.count("undefined_inputs", 1)
				continue
			}
			for i := range want {
				want[i] = modPow2(want[i], bt.OutBits[i])
			}
			got := unslice(bt.OutBits, outs, k)
			jr.evals++
			ok := true
			for i := range want {
				if got[i].Cmp(want[i]) != 0 {
					ok = false
				}
			}
			if !ok {
				addFail(failDetail(c, "c07-wrong-result", b.x[k], b.y[k], b.w[k], got, want,
					classify(c, b.x[k], b.y[k], b.w[k], got, want)))
			}
			if straight {
				rgot := unslice(bt.OutBits, routs, k)
				for i := range rgot {
					if rgot[i].Cmp(got[i]) != 0 {
						addFail(failDetail(c, "c07-compile-changes-value", b.x[k], b.y[k], b.w[k], got, rgot, "compile"))
						break
					}
				}
			}
			if first || (k == 17 && len(b.x) == 64) {
				// the real evaluator on the same input
				first = false
				ins := []*big.Int{b.x[k], b.y[k]}
				if c.NW > 0 {
					ins = append(ins, b.w[k])
				}
				res, err := circ.Compute(ins)
				jr.count("compute_crosschecks", 1)
				if err != nil {
					addFail(failDetail(c, "c07-compute-error", b.x[k], b.y[k], b.w[k], got, want, "compute"))
				} else {
					for i := range res {
						if res[i].Cmp(got[i]) != 0 {
							addFail(failDetail(c, "c07-compute-differs", b.x[k], b.y[k], b.w[k], res, got, "compute"))
							break
						}
					}
				}
			}
		}
	}
	if j.exhaustive {
		exhaustiveBatches(c, check)
		jr.count("exhaustive_cases", 1)
	} else {
		sampledBatches(c, hxlib.NewRng(j.seed), j.batches, check)
		jr.count("sampled_cases", 1)
	}
	for _, f := range jr.fails {
		f.detail["failing_inputs_in_case"] = f.count
	}
	return jr
}

// ---------------------------------------------------------------- case lists

func targetsFor(b *Builder, salt int) []int {
	if b.TargetDep || salt%3 == 0 {
		return []int{0, 1}
	}
	return []int{0}
}

func casesFor(b *Builder, nx, ny int, salt int, nzFilter func([]int) []int) []Case {
	var res []Case
	for _, par := range b.Pars(nx, ny) {
		nzs := b.NZs(nx, ny)
		if b.Name == "index" {
			nzs = []int{par}
		} else if nzFilter != nil {
			nzs = nzFilter(nzs)
		}
		for _, nz := range nzs {
			for _, t := range targetsFor(b, salt+nz) {
				c := Case{B: b, Target: t, NX: nx, NY: ny, NW: b.NW, NZ: nz, Par: par}
				h := nx*7 + ny*13 + nz*3 + par + t
				c.Pro = 1
				if h%4 == 0 {
					c.Pro = 0
				}
				if h%5 == 1 {
					c.Opt = 1
				}
				if b.Valid != nil && !b.Valid(c) {
					continue
				}
				res = append(res, c)
			}
		}
	}
	return res
}

var bigWidthsQuick = []int{9, 13, 16, 17, 21, 22, 31, 32, 33, 41, 64, 65}
var bigWidthsThorough = []int{9, 10, 11, 12, 13, 15, 16, 17, 18, 19, 20, 21, 22, 23, 31, 32, 33, 36, 37, 38, 39, 40, 41,
	42, 43, 63, 64, 65, 70, 71, 72, 79, 80, 100, 127, 128, 129, 130}

func oracleJobs(cf *hxlib.CommonFlags, only string) []job {
	var jobs []job
	thorough := cf.Tier == "thorough"
	E := 5
	if thorough {
		E = 8
	}
	for _, b := range builders {
		if only != "" && b.Name != only {
			continue
		}
		for nx := 1; nx <= E; nx++ {
			for ny := 1; ny <= E; ny++ {
				for _, c := range casesFor(b, nx, ny, nx+ny, nil) {
					jobs = append(jobs, job{c: c, exhaustive: true})
				}
			}
		}
		// quick: exhaustive 6..8 bit equal-width cases as well, at the main
		// result widths
		if !thorough {
			for n := 6; n <= 8; n++ {
				if b.Heavy && n == 8 {
					continue
				}
				for _, c := range casesFor(b, n, n, n, func(v []int) []int { return pick(v, n, n+1, 2*n, 2*n+3) }) {
					jobs = append(jobs, job{c: c, exhaustive: true})
				}
			}
		}
		ws := bigWidthsQuick
		nb := 2
		if thorough {
			ws = bigWidthsThorough
			nb = 6
		}
		for i, n := range ws {
			if b.Heavy && !thorough && n > 41 {
				continue
			}
			// the Goldschmidt divider has millions of gates above 64 bits:
			// only the divider itself and udiv at 128 bits
			if b.Name == "udivgold" || (b.TargetDep && (strings.Contains(b.Name, "div") || strings.Contains(b.Name, "mod"))) {
				if n > 65 && !(n == 128 && (b.Name == "udivgold" || b.Name == "udiv")) {
					continue
				}
			}
			pairs := [][2]int{{n, n}}
			switch i % 4 {
			case 0:
				pairs = append(pairs, [2]int{n, n - 1}, [2]int{1, n})
			case 1:
				pairs = append(pairs, [2]int{n / 2, n})
			case 2:
				pairs = append(pairs, [2]int{n, 1}, [2]int{n - 3, n})
			case 3:
				pairs = append(pairs, [2]int{n, n/2 + 1})
			}
			for _, p := range pairs {
				nx, ny := p[0], p[1]
				if b.Name == "index" {
					if p[0] != p[1] {
						continue
					}
					// arrays of up to 130 elements, index width n%9+1
					for _, cnt := range []int{n, n + 1} {
						for _, size := range []int{1, 3, 8} {
							c := Case{B: b, NX: cnt * size, NY: 1 + n%9, NZ: size, Par: size, Pro: 1, Target: (cnt + size) % 2}
							jobs = append(jobs, job{c: c, batches: nb})
						}
					}
					continue
				}
				if b.Valid != nil && !b.Valid(Case{B: b, NX: nx, NY: ny, NZ: 1, Par: 0}) && b.Name != "bts" && b.Name != "btc" {
					continue
				}
				if (b.Name == "bts" || b.Name == "btc") && ny != 1 {
					ny = 1
				}
				m := maxi(nx, ny)
				for _, c := range casesFor(b, nx, ny, i, func(v []int) []int {
					if b.Heavy {
						if m > 65 {
							return pick(v, m, 2*m)
						}
						return pick(v, m, m+1, 2*m, 2*m+3)
					}
					return v
				}) {
					if b.Name == "mulkara" && m > 65 && c.Par < 8 {
						continue
					}
					jobs = append(jobs, job{c: c, batches: nb})
				}
			}
		}
	}
	for i := range jobs {
		jobs[i].seed = cf.Seed*1000003 + uint64(i)
	}
	return jobs
}

func pick(v []int, want ...int) []int {
	var r []int
	for _, x := range v {
		for _, w := range want {
			if x == w {
				r = append(r, x)
				break
			}
		}
	}
	if len(r) == 0 && len(v) > 0 {
		r = v[:1]
	}
	return r
}

func runJobs(jobs []job, f func(j job) *jobResult) []*jobResult {
	res := make([]*jobResult, len(jobs))
	var wg sync.WaitGroup
	ch := make(chan int, len(jobs))
	for i := range jobs {
		ch <- i
	}
	close(ch)
	nw := runtime.NumCPU()
	if nw > 16 {
		nw = 16
	}
	for w := 0; w < nw; w++ {
		wg.Add(1)
		go func() {
			defer wg.Done()
			for i := range ch {
				res[i] = f(jobs[i])
			}
		}()
	}
	wg.Wait()
	return res
}

// runJobsG runs n independent jobs on the worker pool.
func runJobsG(n int, f func(i int) *jobResult) []*jobResult {
	res := make([]*jobResult, n)
	var wg sync.WaitGroup
	ch := make(chan int, n)
	for i := 0; i < n; i++ {
		ch <- i
	}
	close(ch)
	nw := runtime.NumCPU()
	if nw > 16 {
		nw = 16
	}
	for w := 0; w < nw; w++ {
		wg.Add(1)
		go func() {
			defer wg.Done()
			for i := range ch {
				res[i] = f(i)
			}
		}()
	}
	wg.Wait()
	return res
}

func collect(o *hxlib.Out, results []*jobResult) {
	agg := map[string]*failRec{}
	var order []string
	for _, jr := range results {
		for k, v := range jr.counters {
			o.CountN(k, v)
		}
		o.CountN("evaluations", jr.evals)
		for _, op := range jr.ops {
			o.Op(op[0], op[1])
		}
		for _, f := range jr.fails {
			if e, ok := agg[f.key]; ok {
				e.count += f.count
				continue
			}
			agg[f.key] = f
			order = append(order, f.key)
		}
	}
	sort.Strings(order)
	for _, k := range order {
		f := agg[k]
		f.detail["failing_inputs_total"] = f.count
		o.CountN("oracle_fail", 1)
		if len(o.OracleFails) < 300 {
			o.OracleFails = append(o.OracleFails, f.detail)
		}
	}
}

// ---------------------------------------------------------------- corr mode

func bitsOf(v *big.Int, n int) string {
	if n == 0 {
		return "-"
	}
	return hxlib.BitsString(bigBits(v, n))
}

// corrJob emits for one case: the canonical cc.Gates dump (T4, modelled
// builders), two sample evaluations by Circuit.Compute (T3) and, for small
// circuits, the compiled circuit for the Lean evaluator.
func corrJob(j job) *jobResult {
	jr := &jobResult{}
	c := j.c
	bt := Build(c)
	if bt.Panic != "" || bt.Err != "" {
		jr.count("corr_builder_failed", 1)
		if c.B.IsModelled(c) {
			jr.ops = append(jr.ops, [2]string{"c07 gen " + c.String(), "unconnected-or-error"})
			jr.count("t4_error_lines", 1)
		}
		return jr
	}
	straight := bt.straightLine()
	if c.B.IsModelled(c) && c.Opt == 0 {
		if straight && len(bt.Raw) > 200000 {
			// the line protocol caps a result line at 8 MB
			jr.count("t4_skipped_too_large", 1)
		} else if straight {
			jr.ops = append(jr.ops, [2]string{"c07 gen " + c.String(), bt.RawLine()})
			jr.count("t4_gen_lines", 1)
			jr.count("t4_gates", len(bt.Raw))
		} else {
			// some result wire is not connected to any gate: the ID gate of
			// `ret` reads a wire that nothing drives
			jr.ops = append(jr.ops, [2]string{"c07 gen " + c.String(), "unconnected-or-error"})
			jr.count("t4_unconnected_lines", 1)
		}
	}
	r := hxlib.NewRng(j.seed)
	for k := 0; k < 2; k++ {
		x, y := genVal(r, c.NX), genVal(r, c.NY)
		w := new(big.Int)
		if c.NW > 0 {
			w = genVal(r, c.NW)
		}
		ins := []*big.Int{x, y}
		if c.NW > 0 {
			ins = append(ins, w)
		}
		res, err := bt.Circ.Compute(ins)
		if err != nil {
			continue
		}
		var ob []bool
		for i, n := range bt.OutBits {
			ob = append(ob, bigBits(res[i], n)...)
		}
		inb := bitsOf(x, c.NX) + bitsOf(y, c.NY)
		if c.NW > 0 {
			inb += bitsOf(w, c.NW)
		}
		if c.B.IsModelled(c) && c.Opt == 0 && straight {
			jr.ops = append(jr.ops, [2]string{fmt.Sprintf("c07 run %s %s", c.String(), inb), hxlib.BitsString(ob)})
			jr.count("t3_run_lines", 1)
		}
		if len(bt.Circ.Gates) <= 4000 && (k == 0 || !c.B.IsModelled(c)) {
			jr.ops = append(jr.ops, [2]string{"c07 evalc " + hxlib.CircLine(bt.Circ) + " " + inb, hxlib.BitsString(ob)})
			jr.count("t3_evalc_lines", 1)
		}
	}
	return jr
}

func corrJobs(cf *hxlib.CommonFlags, only string) []job {
	var jobs []job
	thorough := cf.Tier == "thorough"
	E := 6
	if thorough {
		E = 10
	}
	extra := []int{15, 16, 17, 31, 32, 33}
	if thorough {
		extra = []int{15, 16, 17, 18, 19, 20, 21, 22, 31, 32, 33, 37, 40, 41, 42, 63, 64, 65, 71, 79, 129, 130}
	}
	for _, b := range builders {
		if only != "" && b.Name != only {
			continue
		}
		for nx := 1; nx <= E; nx++ {
			for ny := 1; ny <= E; ny++ {
				if b.Heavy && !b.Modelled && maxi(nx, ny) > 6 && nx != ny {
					continue
				}
				for _, c := range casesFor(b, nx, ny, nx+ny, nil) {
					jobs = append(jobs, job{c: c})
				}
			}
		}
		for i, n := range extra {
			if b.Heavy && !b.Modelled && n > 33 {
				continue
			}
			if b.Heavy && (strings.Contains(b.Name, "div") || strings.Contains(b.Name, "mod")) && n > 33 {
				// dividers: the Goldschmidt circuit has millions of gates above
				// this width (no T4 line above 200k gates anyway); the oracle
				// still evaluates them up to 64 / 128 bits
				continue
			}
			if b.Heavy && !thorough && n > 17 {
				continue
			}
			pairs := [][2]int{{n, n}, {n, n - 1}, {n/2 + 1, n}}
			for _, p := range pairs {
				if b.Name == "index" {
					for _, size := range []int{1, 3, 8} {
						c := Case{B: b, NX: p[0] * size, NY: 1 + p[1]%9, NZ: size, Par: size, Pro: 1, Target: i % 2}
						jobs = append(jobs, job{c: c})
					}
					continue
				}
				nx, ny := p[0], p[1]
				if b.Name == "bts" || b.Name == "btc" {
					ny = 1
				}
				m := maxi(nx, ny)
				for _, c := range casesFor(b, nx, ny, i, func(v []int) []int {
					if b.Heavy {
						return pick(v, m, 2*m, 2*m+3)
					}
					return v
				}) {
					jobs = append(jobs, job{c: c})
				}
			}
		}
	}
	for i := range jobs {
		jobs[i].seed = cf.Seed*7000003 + uint64(i)
	}
	return jobs
}

// ---------------------------------------------------------------- one

func parseCase(f []string) (Case, error) {
	var c Case
	if len(f) < 8 {
		return c, fmt.Errorf("need: builder target pro nx ny nw nz par [opt x y w]")
	}
	b, ok := builderByName[f[0]]
	if !ok {
		return c, fmt.Errorf("unknown builder %s", f[0])
	}
	n := make([]int, 0, 8)
	for _, s := range f[1:8] {
		v, err := strconv.Atoi(s)
		if err != nil {
			return c, err
		}
		n = append(n, v)
	}
	c = Case{B: b, Target: n[0], Pro: n[1], NX: n[2], NY: n[3], NW: n[4], NZ: n[5], Par: n[6]}
	if len(f) > 8 {
		c.Opt, _ = strconv.Atoi(f[8])
	}
	return c, nil
}

func runOne(o *hxlib.Out, extra string) {
	f := strings.Fields(extra)
	c, err := parseCase(f)
	if err != nil {
		fmt.Println("c07 one:", err)
		os.Exit(2)
	}
	bt := Build(c)
	if bt.Panic != "" || bt.Err != "" {
		fmt.Printf("case %s: builder panic=%q err=%q\n", c, bt.Panic, bt.Err)
		o.Fail("c07-builder-panic", map[string]any{"builder": c.B.Name, "panic": bt.Panic, "error": bt.Err})
		return
	}
	fmt.Printf("case %s (%s): %d raw gates, %d compiled gates, straight-line=%v\n", c, c.TargetName(), len(bt.Raw),
		len(bt.Circ.Gates), bt.straightLine())
	if len(f) >= 12 {
		x, _ := new(big.Int).SetString(f[9], 10)
		y, _ := new(big.Int).SetString(f[10], 10)
		w, _ := new(big.Int).SetString(f[11], 10)
		ins := []*big.Int{x, y}
		if c.NW > 0 {
			ins = append(ins, w)
		}
		res, err := bt.Circ.Compute(ins)
		if err != nil {
			fmt.Println("Compute:", err)
			return
		}
		want := c.B.Ref(c, x, y, w)
		for i := range want {
			want[i] = modPow2(want[i], bt.OutBits[i])
		}
		fmt.Printf("x=%s y=%s w=%s\n  Circuit.Compute: %v\n  specification:   %v\n", x, y, w, res, want)
		for i := range want {
			if res[i].Cmp(want[i]) != 0 {
				o.Fail("c07-wrong-result", failDetail(c, "c07-wrong-result", x, y, w, res, want, classify(c, x, y, w, res, want)).detail)
				fmt.Println("  MISMATCH")
				break
			}
		}
	}
}

func main() {
	if len(os.Args) < 2 {
		fmt.Println("usage: c07 oracle|corr|hist|prog|one|hone|replay ...")
		os.Exit(2)
	}
	mode := os.Args[1]
	if mode == "replay" {
		// c07 replay <replay file>: exactly the recorded case
		if len(os.Args) < 3 {
			fmt.Println("usage: c07 replay <file>")
			os.Exit(2)
		}
		_, o := hxlib.ParseCommon("c07", nil, nil)
		runReplay(o, os.Args[2])
		o.Close()
		return
	}
	cf, o := hxlib.ParseCommon("c07", os.Args[2:], nil)
	defer o.Close()
	_ = circuit.XOR
	switch mode {
	case "hist":
		// builder histories on one circuits.Compiler: T4/T3 op lines + oracle
		only := ""
		if strings.HasPrefix(cf.Extra, "only=") {
			only = cf.Extra[5:]
		}
		jobs := histJobs(cf, only)
		o.CountN("hist_jobs", len(jobs))
		collect(o, runJobsG(len(jobs), func(i int) *jobResult { return runHist(jobs[i]) }))
	case "prog":
		jobs := progJobs(cf)
		o.CountN("prog_jobs", len(jobs))
		collect(o, runJobsG(len(jobs), func(i int) *jobResult { return runProg(jobs[i]) }))
	case "hone":
		if !runHOne(o, cf.Extra) {
			o.Close()
			os.Exit(1)
		}
	case "oracle":
		only := ""
		if strings.HasPrefix(cf.Extra, "only=") {
			only = cf.Extra[5:]
		}
		jobs := oracleJobs(cf, only)
		o.CountN("oracle_jobs", len(jobs))
		collect(o, runJobs(jobs, runOracle))
	case "corr":
		only := ""
		if strings.HasPrefix(cf.Extra, "only=") {
			only = cf.Extra[5:]
		}
		jobs := corrJobs(cf, only)
		if cf.N > 0 && cf.N < len(jobs) {
			// deterministic thinning to the requested number of cases
			step := float64(len(jobs)) / float64(cf.N)
			var sel []job
			for i := 0; i < cf.N; i++ {
				sel = append(sel, jobs[int(float64(i)*step)])
			}
			jobs = sel
		}
		o.CountN("corr_jobs", len(jobs))
		collect(o, runJobs(jobs, corrJob))
	case "one":
		runOne(o, cf.Extra)
	default:
		fmt.Println("unknown mode", mode)
		os.Exit(2)
	}
}

// Builder HISTORIES on one circuits.Compiler (property C07 is about the
// builders as the compiler uses them: one Compiler per program, many builder
// calls on it).
//
// A history is a sequence of 1..5 builder calls on ONE circuits.Compiler.  The
// operand buses of a call are made of slices of the circuit's input buses, of
// the result buses of EARLIER calls and of the Compiler's constant wires
// (operand shapes, see HSrc and shapegen.go); the results of every call are
// circuit outputs (through ID gates, in call order, after the last call).
//
//	c07 hist     every generated history: canonical cc.Gates of the whole
//	             history and sample evaluations (T4 / T3 op `hgr`: the Lean
//	             generators run in the same sequence from the same state)
//	             and the oracle: EVERY call's result against math/big on the
//	             operand values that call actually received
//	c07 replay   re-run exactly the case recorded in a replay file
package main

import (
	"encoding/json"
	"fmt"
	"math/big"
	"os"
	"strconv"
	"strings"

	"github.com/markkurossi/mpc/circuit"
	"github.com/markkurossi/mpc/compiler/circuits"
	"github.com/markkurossi/mpc/compiler/utils"
	"github.com/markkurossi/mpc/types"

	"verifharness/hxlib"
)

// HSrc is an operand bus.  A plain operand is wires [Lo, Lo+Len) of bus K.
// Buses 0..len(InW)-1 are the circuit's input buses, bus len(InW)+j is the
// result of call j (the concatenation of its result buses for builders with
// two results).  Len == 0: no such operand.
//
// OPERAND SHAPES.  The compiler hands the builders buses that are mixtures of
// value wires and the Compiler's CONSTANT wires (ssa.Program.Circuit: every
// constant is wired from cc.ZeroWire()/cc.OneWire(), every zero-extended,
// shifted or sliced value is padded with cc.ZeroWire(), a sign-extended value
// repeats its top wire).  A shaped operand is the concatenation (least
// significant first) of the pieces Cat; a piece is a plain bus slice, Len
// copies of cc.ZeroWire() (K == KZero) or Len copies of cc.OneWire()
// (K == KOne).  The constant wires are requested from the Compiler when the
// operand is made, piece by piece, operands in the order x, y, w, immediately
// before the builder is called.
type HSrc struct {
	K, Lo, Len int
	Cat        []HSrc
}

const (
	KZero = -1
	KOne  = -2
)

func (s HSrc) pieceString() string {
	switch s.K {
	case KZero:
		return fmt.Sprintf("z%d", s.Len)
	case KOne:
		return fmt.Sprintf("o%d", s.Len)
	}
	return fmt.Sprintf("b%d.%d.%d", s.K, s.Lo, s.Len)
}

func (s HSrc) String() string {
	if s.Len == 0 {
		return "-"
	}
	if s.Cat == nil {
		return s.pieceString()
	}
	var p []string
	for _, c := range s.Cat {
		p = append(p, c.pieceString())
	}
	return strings.Join(p, "+")
}

// pieces lists the pieces of an operand.
func (s HSrc) pieces() []HSrc {
	if s.Len == 0 {
		return nil
	}
	if s.Cat == nil {
		return []HSrc{s}
	}
	return s.Cat
}

// fedByResult: some piece is (part of) the result of an earlier call.
func (s HSrc) fedByResult(nIn int) bool {
	for _, p := range s.pieces() {
		if p.K >= nIn {
			return true
		}
	}
	return false
}

// shaped: the operand holds constant wires, a repeated wire or several pieces.
func (s HSrc) shaped() bool { return s.Cat != nil || s.K < 0 }

// hasConst: the operand holds constant wires.
func (s HSrc) hasConst() bool {
	for _, p := range s.pieces() {
		if p.K < 0 {
			return true
		}
	}
	return false
}

func zeroP(n int) HSrc { return HSrc{K: KZero, Len: n} }
func oneP(n int) HSrc  { return HSrc{K: KOne, Len: n} }

// catP concatenates pieces / operands (least significant first); empty pieces
// are dropped, adjacent constant pieces of one kind are merged.
func catP(parts ...HSrc) HSrc {
	var ps []HSrc
	n := 0
	for _, p := range parts {
		for _, q := range p.pieces() {
			if q.Len == 0 {
				continue
			}
			if len(ps) > 0 && q.K < 0 && ps[len(ps)-1].K == q.K {
				ps[len(ps)-1].Len += q.Len
			} else {
				ps = append(ps, HSrc{K: q.K, Lo: q.Lo, Len: q.Len})
			}
			n += q.Len
		}
	}
	if len(ps) == 1 && ps[0].K >= 0 {
		return ps[0]
	}
	return HSrc{K: 0, Lo: 0, Len: n, Cat: ps}
}

// constP: the n-bit constant v wired from the constant wires.
func constP(n int, v *big.Int) HSrc {
	var ps []HSrc
	for i := 0; i < n; i++ {
		if v.Bit(i) == 1 {
			ps = append(ps, oneP(1))
		} else {
			ps = append(ps, zeroP(1))
		}
	}
	return catP(ps...)
}

// sub: wires [lo, lo+n) of the operand.
func (s HSrc) sub(lo, n int) HSrc {
	var ps []HSrc
	for _, p := range s.pieces() {
		if n == 0 {
			break
		}
		if lo >= p.Len {
			lo -= p.Len
			continue
		}
		k := p.Len - lo
		if k > n {
			k = n
		}
		q := HSrc{K: p.K, Len: k}
		if p.K >= 0 {
			q.Lo = p.Lo + lo
		}
		ps = append(ps, q)
		lo = 0
		n -= k
	}
	return catP(ps...)
}

// HStep is one builder call.
type HStep struct {
	B       *Builder
	NZ, Par int
	X, Y, W HSrc
}

// History is a sequence of builder calls on one Compiler.
type History struct {
	Target, Pro, Opt int
	InW              []int
	Steps            []HStep
	Class            string // generator class (not part of the identity)
}

func (h *History) stepCase(i int) Case {
	st := h.Steps[i]
	return Case{B: st.B, Target: h.Target, Pro: h.Pro, Opt: h.Opt, NX: st.X.Len, NY: st.Y.Len, NW: st.W.Len, NZ: st.NZ, Par: st.Par}
}

func (h *History) TargetName() string {
	if h.Target == 1 {
		return "GMW"
	}
	return "Yao"
}

// outWidth: total result width of call i.
func (h *History) outWidth(i int) int {
	n := 0
	for _, w := range h.Steps[i].B.Outs(h.stepCase(i)) {
		n += w
	}
	return n
}

func (h *History) busWidth(k int) int {
	if k < len(h.InW) {
		return h.InW[k]
	}
	return h.outWidth(k - len(h.InW))
}

func (h *History) nIn() int {
	n := 0
	for _, w := range h.InW {
		n += w
	}
	return n
}

// String: `<target> <pro> <input widths> <calls>`; a call is
// `<builder>,<nz>,<par>,<x>,<y>,<w>`.
func (h *History) String() string {
	var iw, st []string
	for _, w := range h.InW {
		iw = append(iw, strconv.Itoa(w))
	}
	for _, s := range h.Steps {
		st = append(st, fmt.Sprintf("%s,%d,%d,%s,%s,%s", s.B.Name, s.NZ, s.Par, s.X, s.Y, s.W))
	}
	return fmt.Sprintf("%d %d %s %s", h.Target, h.Pro, strings.Join(iw, ","), strings.Join(st, "|"))
}

func (h *History) kinds() string {
	var st []string
	for _, s := range h.Steps {
		st = append(st, s.B.Name)
	}
	return strings.Join(st, ">")
}

func parseSrc(s string) (HSrc, error) {
	if s == "-" {
		return HSrc{}, nil
	}
	if strings.Contains(s, "+") || strings.HasPrefix(s, "z") || strings.HasPrefix(s, "o") {
		var ps []HSrc
		n := 0
		for _, f := range strings.Split(s, "+") {
			var p HSrc
			if strings.HasPrefix(f, "z") || strings.HasPrefix(f, "o") {
				k, err := strconv.Atoi(f[1:])
				if err != nil || k < 1 {
					return HSrc{}, fmt.Errorf("bad operand piece %q", f)
				}
				p = HSrc{K: KZero, Len: k}
				if f[0] == 'o' {
					p.K = KOne
				}
			} else {
				var err error
				if p, err = parseSrc(f); err != nil {
					return HSrc{}, err
				}
				if p.Len < 1 {
					return HSrc{}, fmt.Errorf("bad operand piece %q", f)
				}
			}
			ps = append(ps, p)
			n += p.Len
		}
		return HSrc{Len: n, Cat: ps}, nil
	}
	if !strings.HasPrefix(s, "b") {
		return HSrc{}, fmt.Errorf("bad operand %q", s)
	}
	p := strings.Split(s[1:], ".")
	if len(p) != 3 {
		return HSrc{}, fmt.Errorf("bad operand %q", s)
	}
	var v [3]int
	for i := range p {
		n, err := strconv.Atoi(p[i])
		if err != nil {
			return HSrc{}, err
		}
		v[i] = n
	}
	return HSrc{K: v[0], Lo: v[1], Len: v[2]}, nil
}

// parseHistory parses the four fields of History.String.
func parseHistory(f []string) (*History, error) {
	if len(f) < 4 {
		return nil, fmt.Errorf("need: target pro inputwidths calls")
	}
	h := &History{}
	var err error
	if h.Target, err = strconv.Atoi(f[0]); err != nil {
		return nil, err
	}
	if h.Pro, err = strconv.Atoi(f[1]); err != nil {
		return nil, err
	}
	for _, s := range strings.Split(f[2], ",") {
		n, err := strconv.Atoi(s)
		if err != nil {
			return nil, err
		}
		h.InW = append(h.InW, n)
	}
	for _, s := range strings.Split(f[3], "|") {
		p := strings.Split(s, ",")
		if len(p) != 6 {
			return nil, fmt.Errorf("bad call %q", s)
		}
		b, ok := builderByName[p[0]]
		if !ok {
			return nil, fmt.Errorf("unknown builder %q", p[0])
		}
		st := HStep{B: b}
		if st.NZ, err = strconv.Atoi(p[1]); err != nil {
			return nil, err
		}
		if st.Par, err = strconv.Atoi(p[2]); err != nil {
			return nil, err
		}
		if st.X, err = parseSrc(p[3]); err != nil {
			return nil, err
		}
		if st.Y, err = parseSrc(p[4]); err != nil {
			return nil, err
		}
		if st.W, err = parseSrc(p[5]); err != nil {
			return nil, err
		}
		h.Steps = append(h.Steps, st)
	}
	if err := h.check(); err != nil {
		return nil, err
	}
	return h, nil
}

// check: every operand refers to an existing earlier bus.
func (h *History) check() error {
	for i, st := range h.Steps {
		for _, s := range []HSrc{st.X, st.Y, st.W} {
			tot := 0
			for _, p := range s.pieces() {
				tot += p.Len
				if p.K < 0 && (p.K < KOne || p.Len < 1) {
					return fmt.Errorf("call %d: operand %s: bad constant piece", i, s)
				}
				if p.K >= 0 && (p.K >= len(h.InW)+i || p.Lo < 0 || p.Len < 1 || p.Lo+p.Len > h.busWidth(p.K)) {
					return fmt.Errorf("call %d: operand %s out of range", i, s)
				}
			}
			if tot != s.Len {
				return fmt.Errorf("call %d: operand %s: width", i, s)
			}
		}
		if st.X.Len == 0 || st.Y.Len == 0 || (st.B.NW > 0) != (st.W.Len > 0) {
			return fmt.Errorf("call %d: operand missing", i)
		}
		c := h.stepCase(i)
		if st.B.Valid != nil && !st.B.Valid(c) {
			return fmt.Errorf("call %d: widths not valid for %s", i, st.B.Name)
		}
	}
	return nil
}

// HBuilt: the built history.
type HBuilt struct {
	*Built
	OutOfs []int // first output bus (index into OutBits) of every call
}

// BuildHist runs the real builders of the history in order on ONE
// circuits.Compiler.
func BuildHist(h *History) (res *HBuilt) {
	res = &HBuilt{Built: &Built{}}
	defer func() {
		if e := recover(); e != nil {
			res.Panic = fmt.Sprint(e)
			if len(res.Panic) > 300 {
				res.Panic = res.Panic[:300]
			}
		}
	}()
	params := utils.NewParams()
	if h.Target == 1 {
		params.Target = utils.TargetGMW
	}
	params.OptPruneGates = h.Opt == 1
	calloc := circuits.NewAllocator()
	nin := h.nIn()
	res.NIn = nin
	in := make([]*circuits.Wire, nin)
	for i := range in {
		in[i] = calloc.Wire()
	}
	var inputs, outputs circuit.IO
	buses := make([][]*circuits.Wire, 0, len(h.InW)+len(h.Steps))
	p := 0
	for i, w := range h.InW {
		inputs = append(inputs, uio(fmt.Sprintf("i%d", i), w))
		buses = append(buses, in[p:p+w:p+w])
		p += w
	}
	for i := range h.Steps {
		res.OutOfs = append(res.OutOfs, len(res.OutBits))
		for j, n := range h.Steps[i].B.Outs(h.stepCase(i)) {
			outputs = append(outputs, uio(fmt.Sprintf("z%d_%d", i, j), n))
			res.OutBits = append(res.OutBits, n)
		}
	}
	cc, err := circuits.NewCompiler(params, calloc, inputs, outputs, in, nil)
	if err != nil {
		res.Err = err.Error()
		return
	}
	if h.Pro == 1 {
		cc.ZeroWire()
		cc.OneWire()
	}
	// operands are exact-capacity copies: no two calls share a backing array;
	// constant pieces are the Compiler's own constant wires, requested here
	operand := func(s HSrc) []*circuits.Wire {
		if s.Len == 0 {
			return nil
		}
		r := make([]*circuits.Wire, 0, s.Len)
		for _, p := range s.pieces() {
			switch p.K {
			case KZero:
				z := cc.ZeroWire()
				for i := 0; i < p.Len; i++ {
					r = append(r, z)
				}
			case KOne:
				o := cc.OneWire()
				for i := 0; i < p.Len; i++ {
					r = append(r, o)
				}
			default:
				r = append(r, buses[p.K][p.Lo:p.Lo+p.Len]...)
			}
		}
		return r
	}
	var all [][]*circuits.Wire
	for i, st := range h.Steps {
		c := h.stepCase(i)
		outs := st.B.Outs(c)
		zs := make([][]*circuits.Wire, len(outs))
		for j, n := range outs {
			zs[j] = calloc.Wires(types.Size(n))
		}
		xw := operand(st.X)
		yw := operand(st.Y)
		ww := operand(st.W)
		err = st.B.Build(cc, c, xw, yw, ww, zs)
		if err != nil {
			res.Err = fmt.Sprintf("call %d (%s): %v", i, st.B.Name, err)
			return
		}
		var cat []*circuits.Wire
		for _, z := range zs {
			cat = append(cat, z...)
		}
		buses = append(buses, cat)
		all = append(all, zs...)
	}
	finishBuilt(res.Built, cc, in, all, h.Opt == 1)
	return
}

// ---------------------------------------------------------------- oracle

// hvec is one input vector: a value per input bus.
type hvec []*big.Int

func bitsSlice(v *big.Int, lo, n int) *big.Int {
	r := new(big.Int).Rsh(v, uint(lo))
	return r.And(r, mask(n))
}

// stepVals computes, for one input vector and the circuit's output values
// `outs` (one per output bus), the operand values every call received and the
// results it delivered.
func (h *History) busVals(hb *HBuilt, in hvec, outs []*big.Int) []*big.Int {
	vals := make([]*big.Int, 0, len(h.InW)+len(h.Steps))
	vals = append(vals, in...)
	for i := range h.Steps {
		cat := new(big.Int)
		sh := 0
		no := len(h.Steps[i].B.Outs(h.stepCase(i)))
		for j := 0; j < no; j++ {
			o := outs[hb.OutOfs[i]+j]
			cat.Or(cat, new(big.Int).Lsh(o, uint(sh)))
			sh += hb.OutBits[hb.OutOfs[i]+j]
		}
		vals = append(vals, cat)
	}
	return vals
}

func srcVal(vals []*big.Int, s HSrc) *big.Int {
	v := new(big.Int)
	sh := 0
	for _, p := range s.pieces() {
		var pv *big.Int
		switch p.K {
		case KZero:
			pv = new(big.Int)
		case KOne:
			pv = mask(p.Len)
		default:
			pv = bitsSlice(vals[p.K], p.Lo, p.Len)
		}
		v.Or(v, new(big.Int).Lsh(pv, uint(sh)))
		sh += p.Len
	}
	return v
}

// judge checks every call of the history on one vector; returns the index of
// the first wrong call (-1: none) with its operands, result and expectation.
func (h *History) judge(hb *HBuilt, in hvec, outs []*big.Int) (bad int, x, y, w *big.Int, got, want []*big.Int, undef int) {
	vals := h.busVals(hb, in, outs)
	bad = -1
	for i, st := range h.Steps {
		c := h.stepCase(i)
		xv, yv, wv := srcVal(vals, st.X), srcVal(vals, st.Y), srcVal(vals, st.W)
		wnt := st.B.Ref(c, xv, yv, wv)
		if wnt == nil {
			undef++
			continue
		}
		ok := true
		var g []*big.Int
		for j := range wnt {
			wnt[j] = modPow2(wnt[j], hb.OutBits[hb.OutOfs[i]+j])
			g = append(g, outs[hb.OutOfs[i]+j])
			if g[j].Cmp(wnt[j]) != 0 {
				ok = false
			}
		}
		if !ok && bad < 0 {
			bad, x, y, w, got, want = i, xv, yv, wv, g, wnt
		}
	}
	return
}

func decs(vs []*big.Int) string {
	var p []string
	for _, v := range vs {
		p = append(p, v.String())
	}
	return strings.Join(p, ",")
}

// freshVerdict builds the failing call ALONE on a fresh Compiler and
// evaluates it on the same operand values.
func freshVerdict(c Case, x, y, w *big.Int, want []*big.Int) string {
	c.Opt = 0
	bt := Build(c)
	if bt.Panic != "" || bt.Err != "" {
		return "builder-failed"
	}
	ins := []*big.Int{x, y}
	if c.NW > 0 {
		ins = append(ins, w)
	}
	res, err := bt.Circ.Compute(ins)
	if err != nil {
		return "compute-error"
	}
	for i := range want {
		if res[i].Cmp(want[i]) != 0 {
			return "wrong-too"
		}
	}
	return "exact"
}

func (h *History) failDetail(sig string, step int, in hvec, x, y, w *big.Int, got, want []*big.Int) *failRec {
	d := map[string]any{
		"sig": sig, "kind": "history", "history": h.String(), "target": h.TargetName(), "pro": h.Pro, "opt": h.Opt,
		"calls": len(h.Steps), "builders": h.kinds(), "class": h.Class,
	}
	// the simplest history first (collect sorts by key)
	key := fmt.Sprintf("%s|%02d|%04d|%s|%s", sig, len(h.Steps), h.nIn(), h.TargetName(), h.kinds())
	if step >= 0 {
		c := h.stepCase(step)
		d["wrong_call"] = step
		d["builder"] = c.B.Name
		d["algo"] = algo(c)
		d["call"] = c.String()
		d["x"], d["y"], d["w"] = x.String(), y.String(), w.String()
		d["got"], d["want"] = decs(got), decs(want)
		d["same_call_alone_on_fresh_compiler"] = freshVerdict(c, x, y, w, want)
		key += fmt.Sprintf("|%d|%s", step, algo(c))
	}
	if in != nil {
		d["inputs"] = decs(in)
		d["replay"] = fmt.Sprintf("c07 hone -extra \"%s %s\"", h.String(), decs(in))
	}
	return &failRec{key: key, detail: d, count: 1}
}

// vectors enumerates the input vectors of a history: the trailing input
// buses that fit into `exhBits` bits are enumerated exhaustively, the others
// take `ctxs` structured value combinations (boundary-biased, the first one
// all zero, the second all ones).
func (h *History) vectors(r *hxlib.Rng, exhBits, ctxs int, f func(v hvec)) (exhaustive bool) {
	n := len(h.InW)
	first := n
	tot := 0
	for first > 0 && tot+h.InW[first-1] <= exhBits {
		first--
		tot += h.InW[first]
	}
	exhaustive = first == 0
	if exhaustive {
		ctxs = 1
	}
	for c := 0; c < ctxs; c++ {
		ctx := make(hvec, n)
		for k := 0; k < first; k++ {
			switch c {
			case 0:
				ctx[k] = new(big.Int)
			case 1:
				ctx[k] = mask(h.InW[k])
			default:
				ctx[k] = genVal(r, h.InW[k])
			}
		}
		for v := uint64(0); v < uint64(1)<<uint(tot); v++ {
			vec := make(hvec, n)
			copy(vec, ctx[:first])
			sh := uint(0)
			for k := first; k < n; k++ {
				vec[k] = new(big.Int).SetUint64((v >> sh) & (uint64(1)<<uint(h.InW[k]) - 1))
				sh += uint(h.InW[k])
			}
			f(vec)
		}
	}
	return
}

type histJob struct {
	h       *History
	exhBits int
	ctxs    int
	seed    uint64
}

func (h *History) sliceIn(vs []hvec) []uint64 {
	in := make([]uint64, h.nIn())
	for k, v := range vs {
		bit := uint64(1) << uint(k)
		p := 0
		for b, w := range h.InW {
			for i := 0; i < w; i++ {
				if v[b].Bit(i) == 1 {
					in[p+i] |= bit
				}
			}
			p += w
		}
	}
	return in
}

func (h *History) modelled() bool {
	for i, st := range h.Steps {
		if !st.B.IsModelled(h.stepCase(i)) {
			return false
		}
	}
	return true
}

// runHist: T4 / T3 op lines and the oracle for one history.
func runHist(j histJob) *jobResult {
	jr := &jobResult{}
	h := j.h
	hb := BuildHist(h)
	jr.count("histories", 1)
	jr.count("hist_class_"+h.Class, 1)
	jr.count(fmt.Sprintf("hist_len_%d", len(h.Steps)), 1)
	jr.count("hist_"+h.TargetName(), 1)
	for i, st := range h.Steps {
		jr.count("hist_call_"+st.B.Name, 1)
		if i > 0 {
			jr.count("hist_pair_"+h.Steps[i-1].B.Name+">"+st.B.Name+"_"+h.TargetName(), 1)
		}
		if st.X.fedByResult(len(h.InW)) || st.Y.fedByResult(len(h.InW)) || st.W.fedByResult(len(h.InW)) {
			jr.count("hist_calls_fed_by_earlier_results", 1)
		}
		if st.X.shaped() || st.Y.shaped() || st.W.shaped() {
			jr.count("hist_calls_with_shaped_operands", 1)
		}
		if st.X.hasConst() || st.Y.hasConst() || st.W.hasConst() {
			jr.count("hist_calls_with_constant_wires", 1)
			jr.count("hist_const_call_"+st.B.Name+"_"+h.TargetName(), 1)
		}
		if st.X.String() == st.Y.String() {
			jr.count("hist_calls_x_op_x", 1)
		}
	}
	if hb.Panic != "" || hb.Err != "" {
		jr.count("hist_builder_failed", 1)
		f := h.failDetail("c07-history-builder-failed", -1, nil, nil, nil, nil, nil, nil)
		f.detail["panic"], f.detail["error"] = hb.Panic, hb.Err
		jr.fails = append(jr.fails, f)
		return jr
	}
	straight := hb.straightLine()
	r := hxlib.NewRng(j.seed)
	if h.modelled() {
		switch {
		case !straight:
			jr.ops = append(jr.ops, [2]string{"c07 hgr " + h.String(), "unconnected-or-error"})
			jr.count("hist_t4_unconnected", 1)
		case len(hb.Raw) > 200000:
			jr.count("hist_t4_skipped_too_large", 1)
		default:
			// one op: the canonical gate list of the whole history (T4) and
			// sample evaluations by Circuit.Compute (T3)
			op := "c07 hgr " + h.String()
			line := hb.RawLine()
			jr.count("hist_t4_lines", 1)
			jr.count("hist_t4_gates", len(hb.Raw))
			nrun := 2
			if len(hb.Raw) > 20000 {
				nrun = 1
			}
			for k := 0; k < nrun; k++ {
				var ins []*big.Int
				inb := ""
				for _, w := range h.InW {
					v := genVal(r, w)
					ins = append(ins, v)
					inb += hxlib.BitsString(bigBits(v, w))
				}
				res, err := hb.Circ.Compute(ins)
				if err != nil {
					continue
				}
				var ob []bool
				for i, n := range hb.OutBits {
					ob = append(ob, bigBits(res[i], n)...)
				}
				op += " " + inb
				line += " | " + hxlib.BitsString(ob)
				jr.count("hist_t3_evaluations", 1)
			}
			jr.ops = append(jr.ops, [2]string{op, line})
		}
	} else {
		jr.count("hist_not_modelled", 1)
	}

	// oracle
	circ := hb.Circ
	nout := circ.Outputs.Size()
	rawGates := hb.rawAsGates()
	byKey := map[string]*failRec{}
	// the detail of a failure (which re-builds the failing call alone) is
	// made once per failure class
	addFail := func(key string, mk func() *failRec) {
		if e, ok := byKey[key]; ok {
			e.count++
			return
		}
		f := mk()
		byKey[key] = f
		jr.fails = append(jr.fails, f)
	}
	var slab, slab2 []uint64
	var batch []hvec
	nbatch := 0
	flush := func() {
		if len(batch) == 0 {
			return
		}
		in := h.sliceIn(batch)
		slab = evalSliced(circ.NumWires, circ.Gates, in, slab)
		outs := slab[circ.NumWires-nout:]
		var routs []uint64
		if straight {
			slab2 = evalSliced(hb.RawWires, rawGates, in, slab2)
			routs = make([]uint64, nout)
			for i, o := range hb.RawOuts {
				routs[i] = slab2[o]
			}
		}
		for k, v := range batch {
			got := unslice(hb.OutBits, outs, k)
			bad, x, y, w, g, wnt, undef := h.judge(hb, v, got)
			jr.evals += len(h.Steps) - undef
			jr.count("hist_undefined_calls", undef)
			if bad >= 0 {
				addFail(fmt.Sprintf("wrong|%d", bad), func() *failRec {
					return h.failDetail("c07-history-wrong-result", bad, v, x, y, w, g, wnt)
				})
			}
			if straight {
				rgot := unslice(hb.OutBits, routs, k)
				if !eqAll(rgot, got) {
					addFail("compile", func() *failRec {
						return h.failDetail("c07-history-compile-changes-value", -1, v, nil, nil, nil, nil, nil)
					})
				}
			}
			if (nbatch == 0 && k == 0) || (k == 17 && nbatch%64 == 1) {
				res, err := circ.Compute(v)
				jr.count("hist_compute_crosschecks", 1)
				if err != nil || !eqAll(res, got) {
					addFail("compute", func() *failRec {
						return h.failDetail("c07-history-compute-differs", -1, v, nil, nil, nil, nil, nil)
					})
				}
			}
		}
		nbatch++
		batch = batch[:0]
	}
	exh := h.vectors(r, j.exhBits, j.ctxs, func(v hvec) {
		batch = append(batch, v)
		if len(batch) == 64 {
			flush()
		}
	})
	flush()
	if exh {
		jr.count("hist_exhaustive", 1)
	} else {
		jr.count("hist_partially_exhaustive", 1)
	}
	for _, f := range jr.fails {
		f.detail["failing_inputs_in_case"] = f.count
	}
	return jr
}

// ---------------------------------------------------------------- replay / hone

// runHOne: one history on one input vector: `<target> <pro> <inw> <calls> <v0,v1,...>`.
func runHOne(o *hxlib.Out, extra string) bool {
	f := strings.Fields(extra)
	h, err := parseHistory(f)
	if err != nil {
		fmt.Println("c07 hone:", err)
		os.Exit(2)
	}
	hb := BuildHist(h)
	if hb.Panic != "" || hb.Err != "" {
		fmt.Printf("history %s: builder panic=%q err=%q\n", h, hb.Panic, hb.Err)
		o.Fail("c07-history-builder-failed", h.failDetail("c07-history-builder-failed", -1, nil, nil, nil, nil, nil, nil).detail)
		return false
	}
	fmt.Printf("history %s (%s): %d calls on one circuits.Compiler, %d raw gates, %d compiled gates\n", h, h.TargetName(),
		len(h.Steps), len(hb.Raw), len(hb.Circ.Gates))
	if len(f) < 5 {
		return true
	}
	var in hvec
	for _, s := range strings.Split(f[4], ",") {
		v, ok := new(big.Int).SetString(s, 10)
		if !ok {
			fmt.Println("c07 hone: bad value", s)
			os.Exit(2)
		}
		in = append(in, v)
	}
	if len(in) != len(h.InW) {
		fmt.Println("c07 hone: need one value per input bus")
		os.Exit(2)
	}
	res, err := hb.Circ.Compute(in)
	if err != nil {
		fmt.Println("Compute:", err)
		return false
	}
	fmt.Printf("inputs %s -> Circuit.Compute %v\n", decs(in), res)
	vals := h.busVals(hb, in, res)
	for i, st := range h.Steps {
		c := h.stepCase(i)
		x, y, w := srcVal(vals, st.X), srcVal(vals, st.Y), srcVal(vals, st.W)
		want := st.B.Ref(c, x, y, w)
		for j := range want {
			want[j] = modPow2(want[j], hb.OutBits[hb.OutOfs[i]+j])
		}
		fmt.Printf("  call %d %-9s x=%s y=%s w=%s: got %v, specification %v\n", i, st.B.Name, x, y, w,
			res[hb.OutOfs[i]:hb.OutOfs[i]+len(st.B.Outs(c))], want)
	}
	bad, x, y, w, g, wnt, _ := h.judge(hb, in, res)
	if bad >= 0 {
		fd := h.failDetail("c07-history-wrong-result", bad, in, x, y, w, g, wnt)
		fmt.Printf("  MISMATCH at call %d; the same call alone on a fresh Compiler: %v\n", bad, fd.detail["same_call_alone_on_fresh_compiler"])
		o.Fail("c07-history-wrong-result", fd.detail)
		return false
	}
	return true
}

// runReplay re-runs exactly the case recorded in a replay file written by
// bin/check (field `failure`).
func runReplay(o *hxlib.Out, path string) {
	b, err := os.ReadFile(path)
	if err != nil {
		fmt.Println("c07 replay:", err)
		os.Exit(2)
	}
	var rf struct {
		Failure map[string]any `json:"failure"`
	}
	if err := json.Unmarshal(b, &rf); err != nil || rf.Failure == nil {
		fmt.Println("c07 replay: no failure record in", path)
		os.Exit(2)
	}
	f := rf.Failure
	str := func(k string) string {
		if v, ok := f[k]; ok {
			return fmt.Sprint(v)
		}
		return ""
	}
	ok := true
	switch str("kind") {
	case "history":
		ok = runHOne(o, str("history")+" "+str("inputs"))
	case "program":
		ok = runPOne(o, str("target"), str("src"), str("inputs"), str("spec"))
	default:
		// single-call case of the oracle
		rp := str("replay")
		if i := strings.Index(rp, "-extra \""); i >= 0 {
			runOne(o, strings.TrimSuffix(rp[i+8:], "\""))
			ok = len(o.OracleFails) == 0
		} else {
			fmt.Println("c07 replay: the record holds no single case")
			return
		}
	}
	if !ok {
		o.Close()
		os.Exit(1)
	}
}

package main

// Mode `callseq`: the source-order sequence of selected method calls made by a
// function, with the calls it makes to functions and methods DECLARED IN THE
// SAME PACKAGE inlined transitively.  The receiver of a selected call is
// reported by its declared TYPE (resolved syntactically from parameters, local
// declarations and struct fields), never by the name of the variable, so that
//
//   - renaming a local variable or a parameter,
//   - extracting part of a function into a helper (or inlining a helper),
//   - converting loop forms, reordering declarations, adding comments
//
// leave the result unchanged, while adding, removing or reordering a selected
// call changes it.  Used for structural facts ("message grammar of
// circuit.Garbler", "no Release inside Garbler", ...).
//
//	gofacts callseq -repo DIR -pkg circuit -func Garbler -methods SendData,SendUint32,...
//	gofacts callseq -repo DIR -pkg compiler/ssa -func Program.Stream -methods ...
//
// Output: one JSON array of strings "Type.Method" ("?" when the receiver type
// cannot be resolved syntactically).  -args N appends, for the listed methods,
// nothing about arguments (argument text is deliberately not part of the fact).

import (
	"encoding/json"
	"flag"
	"fmt"
	"go/ast"
	"go/parser"
	"go/token"
	"os"
	"path/filepath"
	"sort"
	"strings"
)

type csPkg struct {
	fset    *token.FileSet
	funcs   map[string]*ast.FuncDecl   // "Name" and "Recv.Name"
	methods map[string][]*ast.FuncDecl // method name -> decls (any receiver)
	structs map[string]*ast.StructType // type name -> struct
}

func csLoadPkg(dir string) (*csPkg, error) {
	p := &csPkg{fset: token.NewFileSet(), funcs: map[string]*ast.FuncDecl{}, methods: map[string][]*ast.FuncDecl{},
		structs: map[string]*ast.StructType{}}
	ents, err := os.ReadDir(dir)
	if err != nil {
		return nil, err
	}
	var names []string
	for _, e := range ents {
		n := e.Name()
		if e.IsDir() || !strings.HasSuffix(n, ".go") || strings.HasSuffix(n, "_test.go") {
			continue
		}
		names = append(names, n)
	}
	sort.Strings(names)
	for _, n := range names {
		f, err := parser.ParseFile(p.fset, filepath.Join(dir, n), nil, parser.ParseComments)
		if err != nil {
			return nil, err
		}
		// skip files that need a build tag (hook files of the verification
		// machinery, platform specific assembly stubs are fine to include)
		tagged := false
		for _, cg := range f.Comments {
			if cg.Pos() > f.Package {
				break
			}
			for _, c := range cg.List {
				if strings.HasPrefix(c.Text, "//go:build") && strings.Contains(c.Text, "verif") &&
					!strings.Contains(c.Text, "!verif") {
					tagged = true
				}
			}
		}
		if tagged {
			continue
		}
		for _, d := range f.Decls {
			switch d := d.(type) {
			case *ast.FuncDecl:
				if d.Body == nil {
					continue
				}
				if d.Recv != nil && len(d.Recv.List) == 1 {
					r := csTypeString(d.Recv.List[0].Type)
					p.funcs[r+"."+d.Name.Name] = d
					p.methods[d.Name.Name] = append(p.methods[d.Name.Name], d)
				} else {
					p.funcs[d.Name.Name] = d
				}
			case *ast.GenDecl:
				for _, s := range d.Specs {
					if ts, ok := s.(*ast.TypeSpec); ok {
						if st, ok := ts.Type.(*ast.StructType); ok {
							p.structs[ts.Name.Name] = st
						}
					}
				}
			}
		}
	}
	return p, nil
}

// csTypeString renders a type expression without pointers: *p2p.Conn -> p2p.Conn.
func csTypeString(e ast.Expr) string {
	switch t := e.(type) {
	case *ast.StarExpr:
		return csTypeString(t.X)
	case *ast.Ident:
		return t.Name
	case *ast.SelectorExpr:
		return csTypeString(t.X) + "." + t.Sel.Name
	case *ast.ArrayType:
		return "[]" + csTypeString(t.Elt)
	case *ast.IndexExpr:
		return csTypeString(t.X)
	case *ast.ParenExpr:
		return csTypeString(t.X)
	}
	return "?"
}

type csEnv map[string]string // identifier -> type string

func (p *csPkg) envOf(fd *ast.FuncDecl) csEnv {
	e := csEnv{}
	add := func(fl *ast.FieldList) {
		if fl == nil {
			return
		}
		for _, f := range fl.List {
			for _, n := range f.Names {
				e[n.Name] = csTypeString(f.Type)
			}
		}
	}
	add(fd.Recv)
	add(fd.Type.Params)
	add(fd.Type.Results)
	ast.Inspect(fd.Body, func(n ast.Node) bool {
		switch s := n.(type) {
		case *ast.ValueSpec:
			if s.Type != nil {
				for _, n := range s.Names {
					e[n.Name] = csTypeString(s.Type)
				}
			}
		case *ast.AssignStmt:
			if s.Tok == token.DEFINE && len(s.Lhs) == len(s.Rhs) {
				for i, l := range s.Lhs {
					id, ok := l.(*ast.Ident)
					if !ok {
						continue
					}
					if t := p.exprType(s.Rhs[i], e); t != "?" {
						if _, seen := e[id.Name]; !seen {
							e[id.Name] = t
						}
					}
				}
			}
		case *ast.RangeStmt:
			// value of a range over a []T typed identifier
			if s.Tok == token.DEFINE && s.Value != nil {
				if id, ok := s.Value.(*ast.Ident); ok {
					if t := p.exprType(s.X, e); strings.HasPrefix(t, "[]") {
						e[id.Name] = t[2:]
					}
				}
			}
		}
		return true
	})
	return e
}

// exprType resolves the static type of simple expressions syntactically.
func (p *csPkg) exprType(x ast.Expr, e csEnv) string {
	switch t := x.(type) {
	case *ast.Ident:
		if ty, ok := e[t.Name]; ok {
			return ty
		}
	case *ast.ParenExpr:
		return p.exprType(t.X, e)
	case *ast.StarExpr:
		return p.exprType(t.X, e)
	case *ast.UnaryExpr:
		if t.Op == token.AND {
			return p.exprType(t.X, e)
		}
	case *ast.CompositeLit:
		if t.Type != nil {
			return csTypeString(t.Type)
		}
	case *ast.IndexExpr:
		if ty := p.exprType(t.X, e); strings.HasPrefix(ty, "[]") {
			return ty[2:]
		}
	case *ast.SelectorExpr:
		// field of a struct declared in this package
		base := p.exprType(t.X, e)
		if st, ok := p.structs[base]; ok {
			for _, f := range st.Fields.List {
				for _, n := range f.Names {
					if n.Name == t.Sel.Name {
						return csTypeString(f.Type)
					}
				}
			}
		}
	case *ast.CallExpr:
		// new(T)
		if id, ok := t.Fun.(*ast.Ident); ok && id.Name == "new" && len(t.Args) == 1 {
			return csTypeString(t.Args[0])
		}
		// constructor-like calls of this package: func F(...) *T / T
		if id, ok := t.Fun.(*ast.Ident); ok {
			if fd, ok := p.funcs[id.Name]; ok && fd.Type.Results != nil && len(fd.Type.Results.List) >= 1 {
				return csTypeString(fd.Type.Results.List[0].Type)
			}
		}
	}
	return "?"
}

type csWalker struct {
	p       *csPkg
	sel     map[string]bool
	selFunc map[string]bool
	// leaf: method names that are reported by the declared type of their
	// receiver and NOT inlined even when they are declared in this package
	// (flag -leaf; e.g. the Send*/Receive* methods of p2p.Conn seen from
	// inside package p2p).  An unresolvable receiver is named after the
	// method's only declaration in the package, if it is unique.
	leaf map[string]bool
	out  []string
	active  map[*ast.FuncDecl]bool
}

func (w *csWalker) walkFunc(fd *ast.FuncDecl) {
	if w.active[fd] {
		return
	}
	w.active[fd] = true
	defer delete(w.active, fd)
	e := w.p.envOf(fd)
	ast.Inspect(fd.Body, func(n ast.Node) bool {
		call, ok := n.(*ast.CallExpr)
		if !ok {
			return true
		}
		switch fun := call.Fun.(type) {
		case *ast.Ident:
			if w.selFunc[fun.Name] {
				for _, a := range call.Args {
					w.walkExpr(a, e)
				}
				w.out = append(w.out, "func."+fun.Name)
				return false
			}
			if callee, ok := w.p.funcs[fun.Name]; ok {
				// arguments first (they are evaluated before the call)
				for _, a := range call.Args {
					w.walkExpr(a, e)
				}
				w.walkFunc(callee)
				return false
			}
		case *ast.SelectorExpr:
			name := fun.Sel.Name
			recvT := w.p.exprType(fun.X, e)
			if w.leaf[name] {
				for _, a := range call.Args {
					w.walkExpr(a, e)
				}
				w.out = append(w.out, w.leafRecv(recvT, name)+"."+name)
				return false
			}
			if w.sel[name] {
				// a selected method: report unless it is a method of this
				// package that we can inline (then its own selected calls count)
				if callee, ok := w.p.funcs[recvT+"."+name]; ok {
					for _, a := range call.Args {
						w.walkExpr(a, e)
					}
					w.walkFunc(callee)
					return false
				}
				for _, a := range call.Args {
					w.walkExpr(a, e)
				}
				w.out = append(w.out, recvT+"."+name)
				return false
			}
			if callee, ok := w.p.funcs[recvT+"."+name]; ok {
				for _, a := range call.Args {
					w.walkExpr(a, e)
				}
				w.walkFunc(callee)
				return false
			}
			// receiver type unknown: inline only if the method name is unique in the package
			if recvT == "?" {
				if ds := w.p.methods[name]; len(ds) == 1 {
					for _, a := range call.Args {
						w.walkExpr(a, e)
					}
					w.walkFunc(ds[0])
					return false
				}
			}
		}
		return true
	})
}

func (w *csWalker) leafRecv(recvT, name string) string {
	if recvT == "?" {
		if ds := w.p.methods[name]; len(ds) == 1 && ds[0].Recv != nil && len(ds[0].Recv.List) == 1 {
			return csTypeString(ds[0].Recv.List[0].Type)
		}
	}
	return recvT
}

func (w *csWalker) walkExpr(x ast.Expr, e csEnv) {
	ast.Inspect(x, func(n ast.Node) bool {
		call, ok := n.(*ast.CallExpr)
		if !ok {
			return true
		}
		if sel, ok := call.Fun.(*ast.SelectorExpr); ok && w.leaf[sel.Sel.Name] {
			w.out = append(w.out, w.leafRecv(w.p.exprType(sel.X, e), sel.Sel.Name)+"."+sel.Sel.Name)
		} else if sel, ok := call.Fun.(*ast.SelectorExpr); ok && w.sel[sel.Sel.Name] {
			w.out = append(w.out, w.p.exprType(sel.X, e)+"."+sel.Sel.Name)
		} else if id, ok := call.Fun.(*ast.Ident); ok {
			if w.selFunc[id.Name] {
				w.out = append(w.out, "func."+id.Name)
			} else if callee, ok := w.p.funcs[id.Name]; ok {
				w.walkFunc(callee)
			}
		}
		return true
	})
}

func callseqMain(args []string) {
	fs := flag.NewFlagSet("callseq", flag.ExitOnError)
	repo := fs.String("repo", "/repo", "root of the repository under test")
	pkg := fs.String("pkg", "", "package directory relative to the repository root")
	fn := fs.String("func", "", "function (Name) or method (Recv.Name)")
	methods := fs.String("methods", "", "comma separated method names to report")
	funcs := fs.String("funcs", "", "comma separated package-level function names to report (not inlined)")
	leaf := fs.String("leaf", "", "comma separated method names to report by receiver type and never inline")
	fs.Parse(args)
	p, err := csLoadPkg(filepath.Join(*repo, *pkg))
	if err != nil {
		fmt.Fprintf(os.Stderr, "gofacts callseq: %v\n", err)
		os.Exit(1)
	}
	fd, ok := p.funcs[*fn]
	if !ok {
		fmt.Fprintf(os.Stderr, "gofacts callseq: function %s not found in %s\n", *fn, *pkg)
		os.Exit(1)
	}
	w := &csWalker{p: p, sel: map[string]bool{}, selFunc: map[string]bool{}, leaf: map[string]bool{},
		active: map[*ast.FuncDecl]bool{}}
	for _, m := range strings.Split(*leaf, ",") {
		if m != "" {
			w.leaf[m] = true
		}
	}
	for _, m := range strings.Split(*funcs, ",") {
		if m != "" {
			w.selFunc[m] = true
		}
	}
	for _, m := range strings.Split(*methods, ",") {
		if m != "" {
			w.sel[m] = true
		}
	}
	w.walkFunc(fd)
	if w.out == nil {
		w.out = []string{}
	}
	b, _ := json.Marshal(w.out)
	os.Stdout.Write(b)
	os.Stdout.WriteString("\n")
}

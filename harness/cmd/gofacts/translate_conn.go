package main

// p2p.Conn (C11): the typed send / receive methods as state transformers.
//
//	*p2p.Conn   ConnS = WriteBuf × WritePos × ReadBuf × ReadStart × ReadEnd (the other
//	            fields — transport, channels, statistics — are not represented)
//	c.Flush()   parameter flush : ConnS → Option ConnS   (none = a non-nil error)
//	c.Fill(n)   parameter fill  : ConnS → BitVec 64 → Option ConnS
//
// A method `func (c *Conn) M(args) ([results,] error)` becomes
// `M c flush fill args : Option (ConnS [× results])`; `none` = an error is returned
// OR the method panics (index out of range after an opaque call that did not make
// room — excluded in the ties by a hypothesis on flush / fill).  Supported forms:
//
//	if err := c.Flush(); err != nil { return [zero values,] err }
//	return c.Flush()
//	return [values,] nil

import (
	"go/ast"
	"go/token"
	"strings"
)

func init() {
	typeShapes["p2p.Conn"] = "⊇struct{WriteBuf []byte;WritePos int;ReadBuf []byte;ReadStart int;ReadEnd int}"
	structFields[tConn] = []fieldInfo{{"WriteBuf", tSlU8}, {"WritePos", tInt}, {"ReadBuf", tSlU8}, {"ReadStart", tInt}, {"ReadEnd", tInt}}
}

type opaqueMethod struct {
	name   string
	lean   string
	params []ty
}

func (m opaqueMethod) typ(recv ty) string {
	parts := []string{recv.lean()}
	for _, p := range m.params {
		parts = append(parts, p.lean())
	}
	return strings.Join(parts, " → ") + " → Option " + recv.lean()
}

// methods of a struct type that are parameters of every translated method of the type
var opaqueMethods = map[ty][]opaqueMethod{
	tConn: {{"Flush", "flush", nil}, {"Fill", "fill", []ty{tInt}}},
}

func opaqueMethodList(t ty) []opaqueMethod { return opaqueMethods[t] }

// opaqueCall recognises v.M(args) for an opaque method M of the struct variable v.
func (t *tr) opaqueCall(e ast.Expr) (call, recv string, ok bool) {
	c, isCall := unparen(e).(*ast.CallExpr)
	if !isCall {
		return "", "", false
	}
	sel, isSel := c.Fun.(*ast.SelectorExpr)
	if !isSel {
		return "", "", false
	}
	v, isId := sel.X.(*ast.Ident)
	if !isId {
		return "", "", false
	}
	vt, isVar := t.env[v.Name]
	if !isVar {
		return "", "", false
	}
	for _, m := range opaqueMethods[vt] {
		if m.name != sel.Sel.Name {
			continue
		}
		if !t.f.stateful || v.Name != t.f.params[0].name {
			t.fail(c.Pos(), "unsupported call of the opaque method %s outside a method of %s on its receiver", m.name, vt)
		}
		if len(c.Args) != len(m.params) || c.Ellipsis != token.NoPos {
			t.fail(c.Pos(), "call of %s with %d arguments, want %d", m.name, len(c.Args), len(m.params))
		}
		t.readPtr(c.Pos(), v.Name)
		parts := []string{m.lean, leanVar(v.Name)}
		for i, a := range c.Args {
			parts = append(parts, pdot(t.typed(a, m.params[i])))
		}
		return "(" + strings.Join(parts, " ") + ")", v.Name, true
	}
	return "", "", false
}

func isZeroLit(e ast.Expr) bool {
	switch x := unparen(e).(type) {
	case *ast.BasicLit:
		return true
	case *ast.Ident:
		return x.Name == "nil" || x.Name == "false" || x.Name == "true"
	}
	return false
}

// ifInit: `if err := CALL; err != nil { return [zero values,] err }` where CALL is an
// opaque method of the receiver or a translated method of the receiver whose only
// result is the error: the error propagates (none), otherwise the receiver is the state
// after CALL.
func (t *tr) ifInit(s *ast.IfStmt, rest []ast.Stmt, tail func() node) node {
	bad := func() node {
		t.unsupported(s.Init, "if statement with init clause (only `if err := c.M(..); err != nil { return .., err }`)")
		return nil
	}
	init, ok := s.Init.(*ast.AssignStmt)
	if !ok || init.Tok != token.DEFINE || len(init.Lhs) != 1 || len(init.Rhs) != 1 || s.Else != nil || !t.f.errRes {
		return bad()
	}
	errId, ok := init.Lhs[0].(*ast.Ident)
	if !ok || errId.Name == "_" {
		return bad()
	}
	if _, shadow := t.env[errId.Name]; shadow {
		return bad()
	}
	cond, ok := s.Cond.(*ast.BinaryExpr)
	if !ok || cond.Op != token.NEQ || !t.isNil(cond.Y) {
		return bad()
	}
	if x, ok := cond.X.(*ast.Ident); !ok || x.Name != errId.Name {
		return bad()
	}
	if len(s.Body.List) != 1 {
		return bad()
	}
	ret, ok := s.Body.List[0].(*ast.ReturnStmt)
	if !ok || len(ret.Results) != len(t.f.results)+1 {
		return bad()
	}
	for i, r := range ret.Results {
		if i == len(ret.Results)-1 {
			if x, ok := r.(*ast.Ident); !ok || x.Name != errId.Name {
				return bad()
			}
		} else if !isZeroLit(r) {
			return bad()
		}
	}
	if len(t.loops) > 0 {
		t.unsupported(s, "error return inside a loop")
	}
	scrut, recv, isOpq := t.opaqueCall(init.Rhs[0])
	if !isOpq {
		c, isCall := init.Rhs[0].(*ast.CallExpr)
		if !isCall {
			return bad()
		}
		callee, rx := t.resolve(c)
		t.useCallee(c, callee)
		id, isId := rx.(*ast.Ident)
		if !callee.stateful || callee.result != tNone || !isId || t.env[id.Name] != callee.params[0].t {
			t.fail(c.Pos(), "unsupported call of %s in `if err := ..` (need a method of the receiver type whose only result is the error)", callee.tgt)
		}
		t.readPtr(c.Pos(), id.Name)
		head := []string{callee.leanName, leanVar(id.Name)}
		for _, m := range opaqueMethodList(callee.params[0].t) {
			head = append(head, m.lean)
		}
		scrut = "(" + strings.Join(append(head, t.args(c, callee)...), " ") + ")"
		recv = id.Name
	}
	conds := t.takePending()
	t.setVar(s.Pos(), recv)
	t.escaped = true
	tmp := t.tmp("e")
	body := nLet{leanVar(recv), t.env[recv].lean(), tmp, t.seq(rest, tail)}
	return guard(conds, nMatch{scrut, tmp, body, nPanic{}}, t)
}

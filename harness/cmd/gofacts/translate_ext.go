package main

// Extensions of the T1 leaf translator (round 3): more integer types, slices,
// pointer-to-struct receivers (mpa.Int, p2p.Conn), *big.Int as an immutable
// optional integer, callees that can panic, loops with computed bounds and
// `range` over slices, opaque tails.
//
// Representation (MpcVerif/Gen/Prelude.lean)
//
//	byte/uint8, uint16      BitVec 8, BitVec 16
//	int64, int32, types.Size BitVec 64 / 32, two's complement; / and % are
//	                        BitVec.sdiv / srem (division by zero: panic)
//	[]byte, []uint64, []int Array (BitVec w); a[i] = a.getD i 0 guarded by
//	                        `i < 0 || len(a) <= i` => panic; a[i] = v is
//	                        a.setIfInBounds; len(a) = BitVec.ofNat 64 a.size;
//	                        make([]T, n) = Array.replicate n 0; copy = copyAt;
//	                        a[lo:hi] = a.extract lo hi (capacity = length)
//	*big.Int                Option Int (nil = none); only `!= nil`, `== nil`,
//	                        `.Int64()` (= BitVec.ofInt 64) and assignment of nil
//	*mpa.Int                MpaInt = bits × i64 × values
//
// Aliasing.  Distinct slice parameters are assumed not to overlap (trusted,
// stated in the evidence).  Inside a function a whole-slice assignment `a = b`
// moves b: a later use of b is rejected.  With several pointer-to-struct
// parameters, reading one of them after another one was written is rejected
// (they may be the same object).
//
// Opaque tails.  For targets flagged `opaque`, a branch (or the rest of the
// function after an `if` whose body returns) that is outside the subset becomes
// an additional parameter large'N of the definition's result type: whatever
// that code computes.  The ties quantify over it and restrict the inputs to the
// translated branch.

import (
	"fmt"
	"go/ast"
	"go/token"
	"strings"
)

const (
	typesImport = "github.com/markkurossi/mpc/types"
	mpaDir      = "compiler/mpa"
)

func init() {
	typeShapes["types.Size"] = "int32"
	typeShapes["mpa.Int"] = "struct{bits types.Size;i64 int64;values *big.Int}"
}

// field of a pointer-to-struct type.
type fieldInfo struct {
	name string
	t    ty
}

var structFields = map[ty][]fieldInfo{
	tMpa: {{"bits", tI32}, {"i64", tI64}, {"values", tBig}},
}

// where the methods of a receiver type are declared: package directory, type name.
var recvHome = map[ty][2]string{
	tLabel: {"ot", "Label"},
	tMpa:   {mpaDir, "Int"},
	tConn:  {"p2p", "Conn"},
}

func basicType(name string) ty {
	switch name {
	case "uint64":
		return tU64
	case "uint32":
		return tU32
	case "uint16":
		return tU16
	case "uint8", "byte":
		return tU8
	case "int":
		return tInt
	case "int64":
		return tI64
	case "int32":
		return tI32
	case "uint":
		return tUint
	case "bool":
		return tBool
	}
	return tNone
}

// typeExprExt: the types added by the extensions; ok=false = not one of them.
func (t *tr) typeExprExt(e ast.Expr, ptr bool) (r ty, isPtr bool, ok bool) {
	switch e := e.(type) {
	case *ast.ArrayType:
		if e.Len != nil {
			return tNone, false, false
		}
		if ptr {
			t.unsupported(e, "pointer to slice")
		}
		et, eptr := t.typeExpr(e.Elt)
		st := sliceOf(et)
		if eptr || st == tNone {
			t.unsupported(e, "slice element type")
		}
		return st, false, true
	case *ast.Ident:
		if _, local := t.f.pkg.types[e.Name]; local {
			if t.f.pkg.rel == mpaDir && e.Name == "Int" {
				if !ptr {
					t.unsupported(e, "mpa.Int by value")
				}
				t.g.needType(e.Pos(), t, mpaDir, "Int")
				t.g.needType(e.Pos(), t, "types", "Size")
				return tMpa, true, true
			}
			if t.f.pkg.rel == "p2p" && e.Name == "Conn" {
				if !ptr {
					t.unsupported(e, "p2p.Conn by value")
				}
				t.g.needType(e.Pos(), t, "p2p", "Conn")
				return tConn, true, true
			}
			return tNone, false, false
		}
		switch e.Name {
		case "uint16", "uint8", "byte", "int64", "int32":
			if ptr {
				t.unsupported(e, "pointer type")
			}
			return basicType(e.Name), false, true
		}
	case *ast.SelectorExpr:
		x, isId := e.X.(*ast.Ident)
		if !isId {
			return tNone, false, false
		}
		switch t.imports[x.Name] {
		case typesImport:
			if e.Sel.Name == "Size" && !ptr {
				t.g.needType(e.Pos(), t, "types", "Size")
				return tI32, false, true
			}
		case "math/big":
			if e.Sel.Name == "Int" && ptr {
				return tBig, false, true
			}
		}
	}
	return tNone, false, false
}

// fieldProj: the Lean projection of field i of n.
func fieldProj(v string, i, n int) string { return proj(v, i, n) }

func (t *tr) fieldIndex(st ty, name string) (int, ty) {
	for i, f := range structFields[st] {
		if f.name == name {
			return i, f.t
		}
	}
	return -1, tNone
}

// withField: the struct value v with field i replaced by val.
func withField(st ty, v string, i int, val string) string {
	fs := structFields[st]
	var parts []string
	for k := range fs {
		if k == i {
			parts = append(parts, val)
		} else {
			parts = append(parts, fieldProj(v, k, len(fs)))
		}
	}
	return "(" + strings.Join(parts, ", ") + ")"
}

// readPtr: variable name (a pointer-to-struct parameter) is read; with several such
// parameters a read of one after a write to another is rejected (possible alias).
func (t *tr) readPtr(pos token.Pos, name string) {
	if !t.env[name].isStruct() {
		return
	}
	for v, m := range t.mutated {
		if m && v != name && t.env[v].isStruct() && t.env[v] == t.env[name] {
			t.fail(pos, "unsupported: `%s` is read after `%s` was written (both are %s and may be the same object)",
				name, v, t.env[name])
		}
	}
}

// convertInt: Go integer conversion between different widths.
func convertInt(xs string, from, to ty) string {
	if to.width() > from.width() && from.signed() {
		return fmt.Sprintf("(BitVec.signExtend %d %s)", to.width(), pdot(xs))
	}
	return fmt.Sprintf("(BitVec.setWidth %d %s)", to.width(), pdot(xs))
}

func (t *tr) isNil(e ast.Expr) bool {
	id, ok := e.(*ast.Ident)
	if !ok || id.Name != "nil" {
		return false
	}
	_, shadow := t.env["nil"]
	return !shadow
}

func (t *tr) tmp(prefix string) string {
	t.ntmp++
	return fmt.Sprintf("%s'%d", prefix, t.ntmp)
}

// writtenSlices: names of variables that are (possibly) written as slices in the
// body: a[i] = .., a[i] op= .., a[i]++, copy(a.., ..), clear(a), PutUintNN(a.., ..),
// or passed to a call of anything but len/cap/copy(second argument)/BigEndian.UintNN.
func writtenSlices(body *ast.BlockStmt) map[string]bool {
	w := map[string]bool{}
	base := func(e ast.Expr) string {
		for {
			switch x := e.(type) {
			case *ast.ParenExpr:
				e = x.X
			case *ast.SliceExpr:
				e = x.X
			case *ast.IndexExpr:
				e = x.X
			case *ast.Ident:
				return x.Name
			default:
				return ""
			}
		}
	}
	ast.Inspect(body, func(n ast.Node) bool {
		switch n := n.(type) {
		case *ast.AssignStmt:
			for _, l := range n.Lhs {
				if ix, ok := l.(*ast.IndexExpr); ok {
					w[base(ix.X)] = true
				}
			}
		case *ast.IncDecStmt:
			if ix, ok := n.X.(*ast.IndexExpr); ok {
				w[base(ix.X)] = true
			}
		case *ast.CallExpr:
			name := ""
			switch f := n.Fun.(type) {
			case *ast.Ident:
				name = f.Name
			case *ast.SelectorExpr:
				name = f.Sel.Name
			}
			switch name {
			case "len", "cap", "Uint16", "Uint32", "Uint64":
			case "copy", "PutUint16", "PutUint32", "PutUint64":
				if len(n.Args) > 0 {
					w[base(n.Args[0])] = true
				}
			default:
				for _, a := range n.Args {
					if b := base(a); b != "" {
						w[b] = true
					}
				}
			}
		}
		return true
	})
	delete(w, "")
	return w
}

// sliceBase: the variable a slice-valued expression is a view of ("" = none).
func sliceBase(e ast.Expr) string {
	for {
		switch x := e.(type) {
		case *ast.ParenExpr:
			e = x.X
		case *ast.SliceExpr:
			e = x.X
		case *ast.Ident:
			return x.Name
		default:
			return ""
		}
	}
}

// indexGuard: Go's bounds check of a[i]; idx has integer type it.
func (t *tr) indexGuard(arr, idx string, it ty, lit bool) {
	c := fmt.Sprintf("decide (%s.size ≤ %s.toNat)", pdot(arr), pdot(idx))
	if it.signed() && !lit {
		c = fmt.Sprintf("(BitVec.slt %s 0#%d || %s)", pdot(idx), it.width(), c)
	}
	t.pendCond(c)
}

// index translates the index expression of a[i] (an integer; an untyped constant is an int).
func (t *tr) index(e ast.Expr) (string, ty, bool) {
	xs, xt := t.expr(e, tNone)
	lit := false
	if xt == tUntyped {
		xs, xt, lit = t.typed(e, tInt), tInt, true
	}
	if !xt.isInt() {
		t.unsupported(e, "index (not an integer)")
	}
	return xs, xt, lit
}

// exprExt: expressions added by the extensions.
func (t *tr) exprExt(e ast.Expr, hint ty) (string, ty, bool) {
	switch e := e.(type) {
	case *ast.Ident:
		if t.isNil(e) {
			switch {
			case hint == tBig:
				return "none", tBig, true
			case hint.isSlice():
				return "#[]", hint, true
			}
			t.fail(e.Pos(), "unsupported `nil` without a *big.Int / slice context")
		}
	case *ast.SelectorExpr:
		x, ok := e.X.(*ast.Ident)
		if !ok || !t.env[x.Name].isStruct() {
			return "", tNone, false
		}
		st := t.env[x.Name]
		i, ft := t.fieldIndex(st, e.Sel.Name)
		if i < 0 {
			t.fail(e.Pos(), "unsupported field `%s` of %s (not represented)", e.Sel.Name, st)
		}
		t.readPtr(e.Pos(), x.Name)
		return fieldProj(leanVar(x.Name), i, len(structFields[st])), ft, true
	case *ast.IndexExpr:
		as, at := t.expr(e.X, tNone)
		if !at.isSlice() {
			if at == tNone {
				return "", tNone, false
			}
			t.fail(e.Pos(), "unsupported index expression on a value of type %s", at)
		}
		is, it, lit := t.index(e.Index)
		t.indexGuard(as, is, it, lit)
		return fmt.Sprintf("(%s.getD %s.toNat 0#%d)", pdot(as), pdot(is), at.elem().width()), at.elem(), true
	case *ast.SliceExpr:
		// a[lo:hi] as a VALUE (a copy): only of slices that are not written in this function
		id, isId := e.X.(*ast.Ident)
		if isId && t.env[id.Name] == tData {
			return "", tNone, false
		}
		as, at := t.expr(e.X, tNone)
		if !at.isSlice() {
			return "", tNone, false
		}
		if e.Slice3 {
			t.unsupported(e, "3-index slice")
		}
		if b := sliceBase(e.X); b == "" || (t.written[b] && !t.viewOK) {
			t.fail(e.Pos(), "unsupported slice expression of `%s`, which is written in this function (the view would alias it)", clip(t.src(e.X)))
		}
		return t.subSlice(e, as, at), at, true
	}
	return "", tNone, false
}

// subSlice: as[lo:hi] with Go's bounds checks (capacity = length).
func (t *tr) subSlice(e *ast.SliceExpr, as string, at ty) string {
	lo, hi := "0", pdot(as)+".size"
	var los, his string
	var lot, hit ty
	if e.Low != nil {
		var lit bool
		los, lot, lit = t.index(e.Low)
		if lot.signed() && !lit {
			t.pendCond(fmt.Sprintf("BitVec.slt %s 0#%d", pdot(los), lot.width()))
		}
		lo = pdot(los) + ".toNat"
	}
	if e.High != nil {
		var lit bool
		his, hit, lit = t.index(e.High)
		if hit.signed() && !lit {
			t.pendCond(fmt.Sprintf("BitVec.slt %s 0#%d", pdot(his), hit.width()))
		}
		hi = pdot(his) + ".toNat"
		t.pendCond(fmt.Sprintf("decide (%s.size < %s)", pdot(as), hi))
	}
	if e.Low != nil {
		t.pendCond(fmt.Sprintf("decide (%s < %s)", hi, lo))
	}
	_, _ = lot, hit
	return fmt.Sprintf("(%s.extract %s %s)", pdot(as), lo, pdot(hi))
}

// nilCompare: x == nil / x != nil for a *big.Int value or the result of an opaque call.
func (t *tr) nilCompare(e *ast.BinaryExpr) (string, bool) {
	x := e.X
	if t.isNil(e.X) {
		x = e.Y
	} else if !t.isNil(e.Y) {
		return "", false
	}
	xs, xt := t.expr(x, tBig)
	switch xt {
	case tBig, tOpq:
		if e.Op == token.EQL {
			return pdot(xs) + ".isNone", true
		}
		return pdot(xs) + ".isSome", true
	}
	if xt.isSlice() {
		t.fail(e.Pos(), "unsupported comparison of a slice with nil")
	}
	t.fail(e.Pos(), "unsupported comparison of a %s value with nil", xt)
	return "", false
}

// mulDiv: * / % on equal integer types.  Signed / and % truncate toward zero
// (BitVec.sdiv / srem; MinInt / -1 wraps, as in Go); a zero divisor panics.
func (t *tr) mulDiv(e *ast.BinaryExpr, hint ty) (string, ty) {
	ls, rs, ot := t.operands(e, hint)
	if !ot.isInt() {
		t.fail(e.Pos(), "unsupported operand type %s for `%s`", ot, e.Op)
	}
	if e.Op == token.MUL {
		return "(" + ls + " * " + rs + ")", ot
	}
	nonzeroLit := false
	y := e.Y
	for {
		p, ok := y.(*ast.ParenExpr)
		if !ok {
			break
		}
		y = p.X
	}
	if l, ok := y.(*ast.BasicLit); ok && l.Kind == token.INT && strings.Trim(l.Value, "0xX_") != "" {
		nonzeroLit = true
	}
	if !nonzeroLit {
		t.pendCond(fmt.Sprintf("(%s == 0#%d)", rs, ot.width()))
	}
	switch {
	case e.Op == token.QUO && ot.signed():
		return "(BitVec.sdiv " + pdot(ls) + " " + pdot(rs) + ")", ot
	case e.Op == token.QUO:
		return "(" + ls + " / " + rs + ")", ot
	case ot.signed():
		return "(BitVec.srem " + pdot(ls) + " " + pdot(rs) + ")", ot
	}
	return "(" + ls + " % " + rs + ")", ot
}

// callExprExt: calls added by the extensions (value position).
func (t *tr) callExprExt(c *ast.CallExpr, hint ty) (string, ty, bool) {
	switch f := c.Fun.(type) {
	case *ast.Ident:
		if _, isVar := t.env[f.Name]; isVar {
			return "", tNone, false
		}
		switch f.Name {
		case "len":
			if len(c.Args) != 1 {
				t.unsupported(c, "len")
			}
			as, at := t.expr(c.Args[0], tNone)
			if !at.isSlice() {
				t.fail(c.Pos(), "unsupported len of a %s value", at)
			}
			return fmt.Sprintf("(BitVec.ofNat 64 %s.size)", pdot(as)), tInt, true
		case "make":
			if len(c.Args) != 2 {
				t.unsupported(c, "make (only make([]T, n))")
			}
			st, _ := t.typeExpr(c.Args[0])
			if !st.isSlice() {
				t.unsupported(c, "make of this type")
			}
			ns, nt, lit := t.index(c.Args[1])
			if nt.signed() && !lit {
				t.pendCond(fmt.Sprintf("BitVec.slt %s 0#%d", pdot(ns), nt.width()))
			}
			return fmt.Sprintf("(Array.replicate %s.toNat 0#%d)", pdot(ns), st.elem().width()), st, true
		}
	case *ast.SelectorExpr:
		// conversion types.Size(x)
		if x, ok := f.X.(*ast.Ident); ok {
			if _, isVar := t.env[x.Name]; !isVar && t.imports[x.Name] == typesImport && f.Sel.Name == "Size" {
				if len(c.Args) != 1 {
					t.unsupported(c, "conversion")
				}
				t.g.needType(c.Pos(), t, "types", "Size")
				xs, xt := t.expr(c.Args[0], tNone)
				switch {
				case xt == tUntyped:
					return t.typed(c.Args[0], tI32), tI32, true
				case !xt.isInt():
					t.fail(c.Pos(), "unsupported conversion types.Size(%s)", xt)
				case xt.width() == 32:
					return xs, tI32, true
				}
				return convertInt(xs, xt, tI32), tI32, true
			}
		}
		// methods of *big.Int values
		mark := len(t.pending)
		rs, rt := "", tNone
		func() {
			defer func() {
				if r := recover(); r != nil {
					if _, is := r.(trErr); !is {
						panic(r)
					}
					t.pending = t.pending[:mark]
					rt = tNone
				}
			}()
			if x, ok := f.X.(*ast.Ident); ok {
				if _, isVar := t.env[x.Name]; !isVar {
					return
				}
			}
			rs, rt = t.expr(f.X, tNone)
		}()
		if rt == tBig {
			if (f.Sel.Name != "Int64" && f.Sel.Name != "Bytes") || len(c.Args) != 0 {
				t.fail(c.Pos(), "unsupported method `%s` of a *big.Int value (only Int64(), Bytes())", f.Sel.Name)
			}
			if !t.nonNil[rs] {
				t.pendCond(pdot(rs) + ".isNone") // nil receiver: run-time panic
			}
			if f.Sel.Name == "Bytes" {
				return fmt.Sprintf("(bigBytes (%s.getD 0))", pdot(rs)), tSlU8, true
			}
			return fmt.Sprintf("(BitVec.ofInt 64 (%s.getD 0))", pdot(rs)), tI64, true
		}
		t.pending = t.pending[:mark]
	}
	return "", tNone, false
}

// nOpaque: the value of the definition from here on is the opaque parameter large'N.
type nOpaque struct{ name string }

// try runs f; a translation error inside it is returned instead of propagated.
func (t *tr) try(f func()) (err *trErr) {
	defer func() {
		if r := recover(); r != nil {
			e, is := r.(trErr)
			if !is {
				panic(r)
			}
			err = &e
		}
	}()
	f()
	return nil
}

// opaque: the code at pos (to the end of the function) is outside the subset.
// For targets flagged opaque, outside loops, it becomes a parameter.
func (t *tr) opaque(e *trErr) node {
	if !opaqueOK[t.f.tgt.String()] || len(t.loops) > 0 {
		panic(*e)
	}
	t.f.nOpaque++
	t.f.opaqueWhy = append(t.f.opaqueWhy, e.msg)
	t.f.opaqueTyp = append(t.f.opaqueTyp, "")
	t.escaped = true
	return nOpaque{fmt.Sprintf("large'%d", t.f.nOpaque)}
}

// ifStmt: `if c {A} [else {B}]`.  Without escape (return / panic / break / continue)
// in A and B: a join of the assigned variables; otherwise continuation style: the rest
// of the statement list is translated in both branches.
func (t *tr) ifStmt(s *ast.IfStmt, rest []ast.Stmt, tail func() node) node {
	if s.Init != nil {
		return t.ifInit(s, rest, tail)
	}
	cond := t.typed(s.Cond, tBool)
	conds := t.takePending()
	A := s.Body.List
	var B []ast.Stmt
	switch e := s.Else.(type) {
	case nil:
	case *ast.BlockStmt:
		B = e.List
	case *ast.IfStmt:
		B = []ast.Stmt{e}
	default:
		t.unsupported(s.Else, "else branch")
	}
	// `if x != nil {A}`: inside A the *big.Int value x is known to be non-nil
	// and `if x == nil {A} else {B}` / `if x == nil { return }; rest`: non-nil in B (and in the rest, which the
	// continuation style translates inside B)
	known, knownB := "", ""
	if be, ok := s.Cond.(*ast.BinaryExpr); ok && (t.isNil(be.Y) || t.isNil(be.X)) {
		switch be.Op {
		case token.NEQ:
			known = strings.TrimSuffix(cond, ".isSome")
		case token.EQL:
			knownB = strings.TrimSuffix(cond, ".isNone")
		}
	}
	with := func(k string, f func()) {
		if k != "" && !t.nonNil[k] {
			t.nonNil[k] = true
			defer delete(t.nonNil, k)
		}
		f()
	}
	inA := func(f func()) { with(known, f) }
	inB := func(f func()) { with(knownB, f) }
	// probe: do the branches escape (return / panic), what do they assign?
	sn := t.snap()
	t.escaped = false
	t.assigned = map[string]bool{}
	dummy := func() node { return nLeaf{"", false} }
	perr := t.try(func() {
		inA(func() { t.seq(A, dummy) })
		t.popScope(sn)
		inB(func() { t.seq(B, dummy) })
	})
	esc := t.escaped || perr != nil
	var vars []string
	for _, v := range sn.order {
		if t.assigned[v] {
			vars = append(vars, v)
		}
	}
	t.restore(sn)
	if !esc {
		if len(vars) == 0 {
			// branches without any effect
			return guard(conds, t.seq(rest, tail), t)
		}
		var lv, lt []string
		for _, v := range vars {
			lv = append(lv, leanVar(v))
			lt = append(lt, t.env[v].lean())
		}
		tuple := lv[0]
		if len(lv) > 1 {
			tuple = "(" + strings.Join(lv, ", ") + ")"
		}
		jt := func() node { return nLeaf{tuple, false} }
		var a node
		inA(func() { a = t.seq(A, jt) })
		t.popScope(sn)
		var b node
		inB(func() { b = t.seq(B, jt) })
		t.popScope(sn)
		for _, v := range vars {
			t.assigned[v] = true
			t.mutated[v] = true
		}
		t.nj++
		tmp := fmt.Sprintf("j'%d", t.nj)
		return guard(conds, nJoin{tmp, lv, lt, cond, a, b, t.seq(rest, tail)}, t)
	}
	// continuation style: the rest of the list is translated in both branches
	t.escaped = true
	var a, b node
	branch := func(list []ast.Stmt, isA bool) node {
		var n node
		s0 := t.snap()
		err := t.try(func() {
			f := func() { n = t.seq(list, func() node { t.popScope(sn); return t.seq(rest, tail) }) }
			if isA {
				inA(f)
			} else {
				inB(f)
			}
		})
		if err != nil {
			t.restore(s0)
			n = t.opaque(err)
		}
		return n
	}
	a = branch(A, true)
	mutA, asgA := t.mutated, t.assigned
	t.popScope(sn)
	t.mutated, t.assigned, t.moved = copySet(sn.mutated), copySet(sn.assigned), copySet(sn.moved)
	b = branch(B, false)
	t.popScope(sn)
	for k := range mutA {
		t.mutated[k] = true
	}
	for k := range asgA {
		t.assigned[k] = true
	}
	return guard(conds, nIf{cond, a, b}, t)
}

// ------------------------------------------------------------ general loops

// loopSpec: `for iv (:=|=) A; iv < B; iv++ {body}` or a `range` loop.
type loopSpec struct {
	stmt     ast.Stmt
	body     *ast.BlockStmt
	iv       string // loop variable ("" = none: `for range x`, `for _, v := range x`)
	ivPos    token.Pos
	declared bool       // iv is declared by the loop (scope = the loop)
	start    ast.Expr   // A (nil = 0)
	bound    ast.Expr   // B of `iv < B`; nil for range loops
	leq      bool       // iv <= B (only with a literal B)
	rangeX   ast.Expr   // range operand: a slice, or an integer
	valVar   *ast.Ident // `for _, v := range slice`
}

func intLit(e ast.Expr) (int64, bool) {
	l, ok := unparen(e).(*ast.BasicLit)
	if !ok || l.Kind != token.INT {
		return 0, false
	}
	var v int64
	if _, err := fmt.Sscanf(strings.ReplaceAll(l.Value, "_", ""), "%v", &v); err != nil || v < 0 || v >= 1<<31 {
		return 0, false
	}
	return v, true
}

// simpleLoop: the form the original translator handles (literal bounds, `:=`).
func (t *tr) simpleLoop(s *ast.ForStmt) bool {
	init, ok := s.Init.(*ast.AssignStmt)
	if !ok || init.Tok != token.DEFINE || len(init.Lhs) != 1 || len(init.Rhs) != 1 {
		return false
	}
	if _, ok := intLit(init.Rhs[0]); !ok {
		return false
	}
	cond, ok := s.Cond.(*ast.BinaryExpr)
	if !ok {
		return false
	}
	_, ok = intLit(cond.Y)
	return ok
}

func (t *tr) forSpec(s *ast.ForStmt) loopSpec {
	sp := loopSpec{stmt: s, body: s.Body}
	init, ok := s.Init.(*ast.AssignStmt)
	if !ok || (init.Tok != token.DEFINE && init.Tok != token.ASSIGN) || len(init.Lhs) != 1 || len(init.Rhs) != 1 {
		t.unsupported(s, "loop (need `for i := A; i < B; i++`, `for i = A; i < B; i++` or a range loop)")
	}
	id, ok := init.Lhs[0].(*ast.Ident)
	if !ok || id.Name == "_" {
		t.unsupported(s, "loop variable")
	}
	sp.iv, sp.ivPos, sp.declared, sp.start = id.Name, id.Pos(), init.Tok == token.DEFINE, init.Rhs[0]
	cond, ok := s.Cond.(*ast.BinaryExpr)
	if !ok {
		t.unsupported(s, "loop condition")
	}
	if x, ok := cond.X.(*ast.Ident); !ok || x.Name != sp.iv {
		t.unsupported(s, "loop condition (need `i < B`)")
	}
	switch cond.Op {
	case token.LSS:
	case token.LEQ:
		if _, lit := intLit(cond.Y); !lit {
			t.unsupported(s, "loop condition `i <= B` with a computed bound (possibly non-terminating)")
		}
		sp.leq = true
	default:
		t.unsupported(s, "loop whose condition and step do not fit (need an upward loop `i < B; i++`)")
	}
	sp.bound = cond.Y
	switch p := s.Post.(type) {
	case *ast.IncDecStmt:
		if x, ok := p.X.(*ast.Ident); !ok || x.Name != sp.iv || p.Tok != token.INC {
			t.unsupported(s, "loop post statement (need i++)")
		}
	case *ast.AssignStmt:
		x, ok := p.Lhs[0].(*ast.Ident)
		one, ok2 := p.Rhs[0].(*ast.BasicLit)
		if len(p.Lhs) != 1 || !ok || x.Name != sp.iv || !ok2 || one.Value != "1" || p.Tok != token.ADD_ASSIGN {
			t.unsupported(s, "loop post statement (need i++ / i += 1)")
		}
	default:
		t.unsupported(s, "loop post statement")
	}
	return sp
}

func (t *tr) rangeSpec(s *ast.RangeStmt) loopSpec {
	sp := loopSpec{stmt: s, body: s.Body, declared: true, rangeX: s.X}
	if s.Key != nil {
		key, ok := s.Key.(*ast.Ident)
		if !ok || s.Tok != token.DEFINE {
			t.unsupported(s, "range statement (need `for i := range x` / `for i, v := range x`)")
		}
		if key.Name != "_" {
			sp.iv, sp.ivPos = key.Name, key.Pos()
		}
	}
	if s.Value != nil {
		v, ok := s.Value.(*ast.Ident)
		if !ok {
			t.unsupported(s, "range value")
		}
		if v.Name != "_" {
			sp.valVar = v
		}
	}
	return sp
}

// assignsWhole: does the body assign the variable name as a whole (not an element)?
func assignsWhole(body ast.Node, name string) bool {
	found := false
	ast.Inspect(body, func(n ast.Node) bool {
		switch n := n.(type) {
		case *ast.AssignStmt:
			for _, l := range n.Lhs {
				if id, ok := l.(*ast.Ident); ok && id.Name == name {
					found = true
				}
			}
		case *ast.IncDecStmt:
			if id, ok := n.X.(*ast.Ident); ok && id.Name == name {
				found = true
			}
		}
		return true
	})
	return found
}

func identsOf(e ast.Expr) []string {
	var r []string
	ast.Inspect(e, func(n ast.Node) bool {
		if id, ok := n.(*ast.Ident); ok {
			r = append(r, id.Name)
		}
		return true
	})
	return r
}

// genLoop: the loop as a fold over List.range n, n a Lean Nat expression that is
// computed before the loop (Go evaluates `i < B` before every iteration: B must not
// depend on anything the body assigns).  State: [Option result,] [broken,] outer
// variables assigned in the body (including the loop variable when it is an outer
// variable); with a body that can panic the state is an Option.
func (t *tr) genLoop(sp loopSpec, cont func() node) node {
	s := sp.stmt
	ivT := tInt
	var pre []nLet // bindings before the loop
	addPre := func(name, typ, val string) { pre = append(pre, nLet{name: name, typ: typ, val: val}) }
	var nexpr string
	var startLean string // value of the loop variable at k = 0
	startLit, startIsLit := int64(0), true
	var rangeSlice string
	var rangeElem ty
	var litRange *[2]int64 // literal bounds: the interval of the loop variable inside the body
	if sp.rangeX != nil {
		xs, xt := t.expr(sp.rangeX, tInt)
		switch {
		case xt.isSlice():
			b := sliceBase(sp.rangeX)
			if b == "" {
				t.unsupported(sp.rangeX, "range operand (need a slice variable)")
			}
			if assignsWhole(sp.body, b) {
				t.unsupported(s, "range loop whose body assigns the slice variable it ranges over")
			}
			rangeSlice, rangeElem = xs, xt.elem()
			nexpr = pdot(xs) + ".size"
		case xt == tUntyped:
			xs = t.typed(sp.rangeX, tInt)
			fallthrough
		case xt == tInt:
			nm := t.tmp("n")
			addPre(nm, "Nat", fmt.Sprintf("if BitVec.slt 0#64 %s then %s.toNat else 0", pdot(xs), pdot(xs)))
			nexpr = nm
		default:
			t.unsupported(sp.rangeX, "range operand")
		}
	} else {
		if !sp.declared {
			vt, ok := t.env[sp.iv]
			if !ok || !vt.isInt() {
				t.fail(sp.ivPos, "loop variable `%s` is not an integer variable", sp.iv)
			}
			ivT = vt
		}
		if v, ok := intLit(sp.start); ok {
			startLit = v
		} else {
			startIsLit = false
			ss, st := t.expr(sp.start, ivT)
			if st == tUntyped {
				ss, st = t.typed(sp.start, ivT), ivT
			}
			if sp.declared {
				if !st.isInt() {
					t.unsupported(sp.start, "loop start value")
				}
				ivT = st
			} else if st != ivT {
				t.fail(sp.start.Pos(), "type mismatch in the loop start value")
			}
			nm := t.tmp("a")
			addPre(nm, ivT.lean(), ss)
			startLean = nm
		}
		w := ivT.width()
		if startIsLit {
			startLean = fmt.Sprintf("%d#%d", startLit, w)
		}
		bs := t.typed(sp.bound, ivT)
		for _, id := range identsOf(sp.bound) {
			if _, isVar := t.env[id]; isVar && assignsWhole(sp.body, id) {
				t.fail(sp.bound.Pos(), "unsupported loop bound `%s`: the body assigns `%s`", clip(t.src(sp.bound)), id)
			}
		}
		lt := "BitVec.ult"
		if ivT.signed() {
			lt = "BitVec.slt"
		}
		nm := t.tmp("n")
		if sp.leq {
			b, _ := intLit(sp.bound)
			if !startIsLit {
				t.unsupported(s, "loop `i <= B` with a computed start value")
			}
			cnt := b - startLit + 1
			if cnt < 0 {
				cnt = 0
			}
			addPre(nm, "Nat", fmt.Sprintf("%d", cnt))
		} else if b, lit := intLit(sp.bound); lit && startIsLit {
			cnt := b - startLit
			if cnt < 0 {
				cnt = 0
			}
			addPre(nm, "Nat", fmt.Sprintf("%d", cnt))
			litRange = &[2]int64{startLit, startLit + cnt}
		} else {
			addPre(nm, "Nat", fmt.Sprintf("if %s %s %s then (%s - %s).toNat else 0", lt, startLean, pdot(bs), pdot(bs), startLean))
		}
		nexpr = nm
	}
	conds := t.takePending() // panics of evaluating A and B: before the loop (evaluated at least once)

	if !sp.declared {
		// `for x = A; ..`: x := A, then x is part of the state
		t.setVar(sp.ivPos, sp.iv)
	}
	sn := t.snap()
	k := len(t.loops) + 1
	stName, kName := fmt.Sprintf("st'%d", k), fmt.Sprintf("k'%d", k)
	enter := func(lc *loopCtx) {
		if sp.declared && sp.iv != "" {
			t.declare(sp.ivPos, sp.iv, ivT)
		}
		if sp.valVar != nil {
			t.declare(sp.valVar.Pos(), sp.valVar.Name, rangeElem)
		}
		if litRange != nil && sp.iv != "" {
			t.ranges[sp.iv] = *litRange
		}
		t.loops = append(t.loops, lc)
	}
	leave := func() {
		t.loops = t.loops[:len(t.loops)-1]
		delete(t.ranges, sp.iv)
	}
	// pass 1: what does the body assign, does it return / break / panic?
	probe := &loopCtx{}
	escBefore := t.escaped
	np := t.panics
	t.assigned = map[string]bool{}
	enter(probe)
	t.seq(sp.body.List, func() node { return nLeaf{"", false} })
	leave()
	canPanic := t.panics != np
	if sp.iv != "" && t.assigned[sp.iv] {
		t.unsupported(s, "loop whose body assigns the loop variable")
	}
	if sp.valVar != nil && t.assigned[sp.valVar.Name] {
		t.unsupported(s, "loop whose body assigns the range value variable")
	}
	lc := &loopCtx{hasRet: probe.hasRet, hasBrk: probe.hasBrk, optSt: canPanic}
	if !sp.declared {
		lc.ivState = sp.iv
		t.assigned[sp.iv] = true
	}
	for _, v := range sn.order {
		if t.assigned[v] {
			lc.vars = append(lc.vars, v)
		}
	}
	t.restore(sn)
	if lc.hasRet && t.f.result == tNone {
		t.unsupported(s, "return inside a loop of a function without result")
	}
	// pass 2
	enter(lc)
	body := t.seq(sp.body.List, func() node { return nLeaf{t.loopState(lc, "none", "false"), false} })
	leave()
	t.popScope(sn)
	t.escaped = escBefore || lc.hasRet || canPanic
	if canPanic {
		t.f.hasPanic = true
	}
	for _, v := range lc.vars {
		t.assigned[v] = true
		t.mutated[v] = true
	}
	wrapPre := func(n node) node {
		for i := len(pre) - 1; i >= 0; i-- {
			p := pre[i]
			p.body = n
			n = p
		}
		return guard(conds, n, t)
	}
	if len(lc.vars) == 0 && !lc.hasRet && !canPanic {
		return wrapPre(cont()) // a loop without any effect
	}
	var typs, initParts []string
	if lc.hasRet {
		typs = append(typs, "Option ("+t.f.resultLean()+")")
		initParts = append(initParts, "none")
	}
	if lc.hasBrk {
		typs = append(typs, "Bool")
		initParts = append(initParts, "false")
	}
	for _, v := range lc.vars {
		typs = append(typs, t.env[v].lean())
		if v == lc.ivState {
			initParts = append(initParts, startLean)
		} else {
			initParts = append(initParts, leanVar(v))
		}
	}
	if len(typs) == 0 {
		typs, initParts = []string{"Unit"}, []string{"()"}
	}
	t.nj++
	l := nLoop{tmp: fmt.Sprintf("l'%d", t.nj), styp: strings.Join(typs, " × "), nexpr: nexpr,
		st: stName, k: kName, hasRet: lc.hasRet, nelem: len(typs), optSt: canPanic,
		init: tupleOf(initParts), body: body}
	off := 0
	var skip []string
	if lc.hasRet {
		skip = append(skip, "("+proj(l.st, 0, len(typs))+").isSome")
		off = 1
	}
	if lc.hasBrk {
		skip = append(skip, proj(l.st, off, len(typs)))
		off++
	}
	l.skip = strings.Join(skip, " || ")
	for i, v := range lc.vars {
		l.pre = append(l.pre, [3]string{leanVar(v), t.env[v].lean(), proj(l.st, off+i, len(typs))})
	}
	if sp.declared && sp.iv != "" {
		w := ivT.width()
		switch {
		case sp.rangeX != nil:
			l.pre = append(l.pre, [3]string{leanVar(sp.iv), ivT.lean(), fmt.Sprintf("BitVec.ofNat %d %s", w, l.k)})
		case startIsLit:
			l.pre = append(l.pre, [3]string{leanVar(sp.iv), ivT.lean(), fmt.Sprintf("BitVec.ofNat %d (%d + %s)", w, startLit, l.k)})
		default:
			l.pre = append(l.pre, [3]string{leanVar(sp.iv), ivT.lean(), fmt.Sprintf("%s + BitVec.ofNat %d %s", startLean, w, l.k)})
		}
	}
	if sp.valVar != nil {
		cur := rangeSlice // the slice variable as of this iteration (element writes of the body are seen)
		l.pre = append(l.pre, [3]string{leanVar(sp.valVar.Name), rangeElem.lean(),
			fmt.Sprintf("%s.getD %s 0#%d", pdot(cur), l.k, rangeElem.width())})
	}
	src := l.tmp
	if canPanic {
		src = fmt.Sprintf("f'%d", t.nj)
	}
	var after func(i int) node
	after = func(i int) node {
		if i == len(lc.vars) {
			return cont()
		}
		v := lc.vars[i]
		return nLet{leanVar(v), t.env[v].lean(), proj(src, off+i, len(typs)), after(i + 1)}
	}
	var aft node
	if lc.hasRet {
		rv := fmt.Sprintf("r'%d", t.nj)
		aft = nMatch{proj(src, 0, len(typs)), rv, t.retLeaf(rv), after(0)}
	} else {
		aft = after(0)
	}
	if canPanic {
		aft = nMatch{l.tmp, src, aft, nPanic{}}
	}
	l.after = aft
	return wrapPre(l)
}

package main

// T1 leaf translator: Go (go/ast) -> Lean 4 BitVec definitions.
//
// Representation
//
//	uint64, uint, int   BitVec 64   (int: two's complement; <,<=,>,>= signed)
//	uint32              BitVec 32
//	bool                Bool
//	ot.Label            Label = BitVec 64 × BitVec 64       (D0, D1)
//	ot.Wire             Wire  = Label × Label               (L0, L1)
//	*ot.LabelData       BitVec 128: the 16 bytes read as one big-endian number
//	                    (bytes 0..7 = bits 127..64); mutable through the pointer
//	cipher.Block        parameter π : BitVec 128 → BitVec 128; the only call
//	                    allowed is alg.Encrypt(d[:], d[:])  ==>  d := π d
//
// Supported subset (everything else is an error naming the construct):
//
//	statements   var x T [= e]; x := e; x = e; x.D0 = e; x op= e for
//	             op in ^ | & &^ << >> + -; if c {..} [else {..} | else if ..]
//	             without init statement; switch x { case consts: .. default: .. }
//	             on a variable, no fallthrough; return [e]; panic(..);
//	             v.M(args) for a translated pointer-receiver method M of Label
//	             on a Label variable v;  e.GetData(d) style calls of translated
//	             methods that write through their single *LabelData parameter;
//	             binary.BigEndian.PutUint64(d[0:8] | d[8:16], e);
//	             alg.Encrypt(d[:], d[:])
//	expressions  integer literals, true/false, variables, x.D0/x.D1/w.L0/w.L1,
//	             ^ | & &^ + - on equal integer types, << >> with a literal
//	             count (or an integer variable count: a negative int count is a
//	             modelled panic), == != < <= > >=, && || !, unary ^ -,
//	             conversions uint64(x) uint(x) int(x) uint32(x),
//	             Label{D0: e, D1: e}, calls of translated functions / value
//	             receiver methods that have a result and no pointer parameter,
//	             binary.BigEndian.Uint64(d[0:8] | d[8:16]) (also (*d)[a:b])
//
//	loops        for i := A; i < B; i++ (also <=; > / >= with i--; i += 1; and
//	             `for i := range N`) with integer literal bounds: translated to
//	             a fold over List.range n whose state is the tuple of the outer
//	             variables assigned in the body, preceded by an `Option result`
//	             when the body returns and a Bool when it breaks (the remaining
//	             iterations are then skipped); `continue` is supported; the
//	             body must not panic nor assign the loop variable.  A shift by
//	             an int expression over literals and loop variables (+, -) that
//	             is provably non-negative needs no panic guard.
//	more         x++ / x--; a, b := e1, e2; a, b = e1, e2; a, b := f(..) for a
//	             translated f with several results; tagless `switch { case c: }`;
//	             == / != on Label and Wire values
//
// Functions: one or more results (named results start at their zero value, a
// bare return returns them; several results become a tuple), optionally followed
// by an `error` result: then the Lean value is an Option, `return .., nil` is
// `some ..` and `return .., fmt.Errorf(..) / errors.New(..)` is `none`; or no
// result and exactly one thing written
// through a pointer (the *Label receiver, or else the *LabelData parameter),
// which then is the value of the Lean definition.  A function WITH a result
// may use *LabelData parameters as scratch: their final content is dropped
// (noted in the generated file) and such a function cannot be called from
// another translated function.  A function that can panic gets result type
// Option T (none = panic); panic and error result together are rejected.
// Shadowing / redeclaration of variables is rejected.
//
// Round 3 extensions (translate_ext.go, translate_ext2.go, translate_conn.go,
// groups.go): groups of functions with one generated file each, more integer
// types, * / %, slices, *big.Int values, pointer-to-struct receivers (mpa.Int,
// p2p.Conn), callees that can panic (bound through Option), loops with computed
// bounds / `range` over slices / panicking bodies, opaque tails and opaque
// methods.  See the header comments of those files.

import (
	"crypto/sha256"
	"fmt"
	"go/ast"
	"go/parser"
	"go/token"
	"math/big"
	"os"
	"path/filepath"
	"sort"
	"strings"
)

// ------------------------------------------------------------------ targets

type target struct {
	pkg  string // directory below the repository root; the package name is its last element
	recv string // receiver type name or ""
	name string
}

func (t target) key() string {
	if t.recv != "" {
		return t.recv + "." + t.name
	}
	return t.name
}

func (t target) String() string { return t.pkg + "." + t.key() }

// Type declarations the representation depends on (normalised text).
var typeShapes = map[string]string{
	"ot.Label":     "struct{D0 uint64;D1 uint64}",
	"ot.Wire":      "struct{L0 Label;L1 Label}",
	"ot.LabelData": "[16]byte",
}

const otImport = "github.com/markkurossi/mpc/ot"

// -------------------------------------------------------------------- types

type ty int

const (
	tNone ty = iota
	tUntyped
	tU64
	tU32
	tInt
	tUint
	tBool
	tLabel
	tWire
	tData
	tCipher
	tTuple
	// extensions (translate_ext.go)
	tU8    // byte, uint8
	tU16   // uint16
	tI64   // int64
	tI32   // int32, types.Size
	tBig   // *big.Int, immutable value or nil: Option Int
	tSlU8  // []byte
	tSlU64 // []uint64
	tSlInt // []int
	tMpa   // *mpa.Int: (bits, i64, values)
	tConn  // *p2p.Conn: the fields of connShape
	tOpq   // result of an opaque call: a value that is only tested against nil
)

func (t ty) lean() string {
	switch t {
	case tU64, tInt, tUint, tI64:
		return "BitVec 64"
	case tU32, tI32:
		return "BitVec 32"
	case tU16:
		return "BitVec 16"
	case tU8:
		return "BitVec 8"
	case tBool:
		return "Bool"
	case tLabel:
		return "Label"
	case tWire:
		return "Wire"
	case tData:
		return "BitVec 128"
	case tCipher:
		return "BitVec 128 → BitVec 128"
	case tBig:
		return "Option Int"
	case tSlU8:
		return "Array (BitVec 8)"
	case tSlU64, tSlInt:
		return "Array (BitVec 64)"
	case tMpa:
		return "MpaInt"
	case tConn:
		return "ConnS"
	}
	return "?"
}

func (t ty) String() string {
	switch t {
	case tU8:
		return "byte"
	case tU16:
		return "uint16"
	case tI64:
		return "int64"
	case tI32:
		return "int32"
	case tBig:
		return "*big.Int"
	case tSlU8:
		return "[]byte"
	case tSlU64:
		return "[]uint64"
	case tSlInt:
		return "[]int"
	case tMpa:
		return "*mpa.Int"
	case tConn:
		return "*p2p.Conn"
	case tOpq:
		return "(opaque)"
	}
	return [...]string{"(none)", "untyped constant", "uint64", "uint32", "int", "uint", "bool", "Label", "Wire",
		"*LabelData", "cipher.Block", "(multiple results)"}[t]
}

func (t ty) width() int {
	switch t {
	case tU64, tInt, tUint, tI64:
		return 64
	case tU32, tI32:
		return 32
	case tU16:
		return 16
	case tU8:
		return 8
	}
	return 0
}

func (t ty) isInt() bool { return t.width() > 0 }

// signed: Go's signed integer types (two's complement in the same BitVec).
func (t ty) signed() bool { return t == tInt || t == tI64 || t == tI32 }

// elem: element type of a slice type (tNone otherwise).
func (t ty) elem() ty {
	switch t {
	case tSlU8:
		return tU8
	case tSlU64:
		return tU64
	case tSlInt:
		return tInt
	}
	return tNone
}

func (t ty) isSlice() bool { return t.elem() != tNone }

// isStruct: pointer-to-struct types represented as a tuple of their listed fields.
func (t ty) isStruct() bool { return t == tMpa || t == tConn }

func sliceOf(e ty) ty {
	switch e {
	case tU8:
		return tSlU8
	case tU64:
		return tSlU64
	case tInt:
		return tSlInt
	}
	return tNone
}

// ----------------------------------------------------------------------- IR

type node interface{}

type nLet struct {
	name, typ, val string
	body           node
}

// nJoin: let (names) := if cond then a else b; body   (a, b end in the tuple)
type nJoin struct {
	tmp   string
	names []string
	typs  []string
	cond  string
	a, b  node
	body  node
}

type nIf struct {
	cond string
	a, b node
}

type nLeaf struct {
	expr  string
	final bool // value of the whole function (wrapped in `some` when the function can panic)
}

type nPanic struct{} // `none`: panic, or the error result

// nLoop: let tmp : styp := (List.range n).foldl (fun st k => [if st.1.isSome then st else] pre; body) init; after
type nLoop struct {
	tmp, styp string
	n         int64
	st, k     string
	hasRet    bool
	skip      string // iterations are skipped once this holds (returned / broken)
	nelem     int
	pre       [][3]string
	body      node
	init      string
	after     node
	nexpr     string // general loops: the iteration count as a Lean Nat expression (instead of n)
	optSt     bool   // the fold state is an Option (a panic in the body = none)
}

// nMatch: Option.elim scrut b (fun v => a)   (= match scrut with | some v => a | none => b)
type nMatch struct {
	scrut, v string
	a, b     node
}

// ----------------------------------------------------------------- packages

type pkgInfo struct {
	name    string
	rel     string // directory below the repository root
	dir     string
	fset    *token.FileSet
	funcs   map[string]*ast.FuncDecl
	fileOf  map[*ast.FuncDecl]*ast.File
	pathOf  map[*ast.File]string
	src     map[*ast.File][]byte
	types   map[string]*ast.TypeSpec
	typeIn  map[string]*ast.File
	dupFunc map[string]bool
}

func loadPkg(repo, rel string) (*pkgInfo, error) {
	name := rel[strings.LastIndex(rel, "/")+1:]
	p := &pkgInfo{name: name, rel: rel, dir: filepath.Join(repo, rel), fset: token.NewFileSet(),
		funcs: map[string]*ast.FuncDecl{}, fileOf: map[*ast.FuncDecl]*ast.File{},
		pathOf: map[*ast.File]string{}, src: map[*ast.File][]byte{},
		types: map[string]*ast.TypeSpec{}, typeIn: map[string]*ast.File{}, dupFunc: map[string]bool{}}
	ents, err := os.ReadDir(p.dir)
	if err != nil {
		return nil, err
	}
	for _, e := range ents {
		n := e.Name()
		if e.IsDir() || !strings.HasSuffix(n, ".go") || strings.HasSuffix(n, "_test.go") {
			continue
		}
		path := filepath.Join(p.dir, n)
		src, err := os.ReadFile(path)
		if err != nil {
			return nil, err
		}
		f, err := parser.ParseFile(p.fset, path, src, parser.SkipObjectResolution)
		if err != nil {
			return nil, fmt.Errorf("parse %s: %v", path, err)
		}
		if f.Name.Name != name {
			continue
		}
		p.pathOf[f] = rel + "/" + n
		p.src[f] = src
		for _, d := range f.Decls {
			switch d := d.(type) {
			case *ast.FuncDecl:
				k := d.Name.Name
				if d.Recv != nil && len(d.Recv.List) == 1 {
					k = recvTypeName(d.Recv.List[0].Type) + "." + k
				}
				if _, dup := p.funcs[k]; dup {
					p.dupFunc[k] = true
				}
				p.funcs[k] = d
				p.fileOf[d] = f
			case *ast.GenDecl:
				if d.Tok == token.TYPE {
					for _, s := range d.Specs {
						ts := s.(*ast.TypeSpec)
						p.types[ts.Name.Name] = ts
						p.typeIn[ts.Name.Name] = f
					}
				}
			}
		}
	}
	return p, nil
}

func recvTypeName(e ast.Expr) string {
	switch e := e.(type) {
	case *ast.StarExpr:
		return recvTypeName(e.X)
	case *ast.Ident:
		return e.Name
	}
	return "?"
}

func (p *pkgInfo) text(f *ast.File, n ast.Node) string {
	a, b := p.fset.Position(n.Pos()).Offset, p.fset.Position(n.End()).Offset
	return string(p.src[f][a:b])
}

func sha16(s string) string {
	h := sha256.Sum256([]byte(s))
	return fmt.Sprintf("%x", h[:8])
}

// normalised shape of a type expression: struct{A T;B T} / [16]byte / ident
func shapeOf(e ast.Expr) string {
	switch e := e.(type) {
	case *ast.Ident:
		return e.Name
	case *ast.SelectorExpr:
		if x, ok := e.X.(*ast.Ident); ok {
			return x.Name + "." + e.Sel.Name
		}
	case *ast.StarExpr:
		return "*" + shapeOf(e.X)
	case *ast.ArrayType:
		if e.Len == nil {
			return "[]" + shapeOf(e.Elt)
		}
		if l, ok := e.Len.(*ast.BasicLit); ok {
			return "[" + l.Value + "]" + shapeOf(e.Elt)
		}
	case *ast.StructType:
		var fs []string
		for _, f := range e.Fields.List {
			if f.Tag != nil || len(f.Names) == 0 {
				fs = append(fs, "?")
				continue
			}
			for _, n := range f.Names {
				fs = append(fs, n.Name+" "+shapeOf(f.Type))
			}
		}
		return "struct{" + strings.Join(fs, ";") + "}"
	}
	return "?"
}

// ---------------------------------------------------------------- functions

type param struct {
	name string
	t    ty
	ptr  bool
}

type fn struct {
	tgt      target
	pkg      *pkgInfo
	decl     *ast.FuncDecl
	file     *ast.File
	leanName string
	params   []param
	recvPtr  bool
	hasRecv  bool
	result   ty   // tNone, the single result type, or tTuple
	results  []ty // result types without a trailing `error`
	resNames []string
	errRes   bool // last result is `error`: the Lean value is an Option, none = error
	outVar   string
	hasPanic bool
	scratch  []string
	body     node
	state    int
	src      string
	hash     string
	calls    []string
	// extensions
	nOpaque   int      // number of opaque parameters large'N
	opaqueWhy []string // why each of them is opaque
	opaqueTyp []string // Lean type of each of them ("" = the result type of the definition)
	retRecv   bool     // pointer-receiver method whose result is the receiver itself
	alsoOut   string   // targets flagged alsoOut: the slice parameter whose final content is returned after the results
	stateful  bool     // method of a struct type with opaque methods (p2p.Conn): the value is (receiver state[, results]);
	//                    the opaque methods are parameters (flush, fill) right after the receiver
}

type gen struct {
	repo     string
	grp      *group
	all      map[string]target // the targets of every group, by target.String()
	pkgs     map[string]*pkgInfo
	fns      map[string]*fn // by target.String()
	done     []*fn
	errs     []string
	types    []string        // header lines about the type declarations
	typeSeen map[string]bool // pkg.Type whose shape was checked
}

type trErr struct {
	pos token.Pos
	msg string
}

var leanReserved = map[string]bool{}

func init() {
	for _, w := range strings.Fields(`at do end from fun have if in let open show then else with by def theorem
		match where for instance structure class namespace section variable universe export import mutual private
		protected unsafe partial noncomputable macro syntax notation infix infixl infixr prefix postfix deriving
		extends abbrev example axiom opaque inductive using calc return nomatch nofun exists forall Type Prop Sort
		some none true false fun λ π Label Wire BitVec Bool Option Nat`) {
		leanReserved[w] = true
	}
}

func leanVar(goName string) string {
	if leanReserved[goName] {
		return goName + "_"
	}
	return goName
}

// pkg loads (once) the package in directory rel below the repository root.
func (g *gen) pkg(rel string) (*pkgInfo, error) {
	if p, ok := g.pkgs[rel]; ok {
		return p, nil
	}
	p, err := loadPkg(g.repo, rel)
	if err != nil {
		return nil, err
	}
	g.pkgs[rel] = p
	return p, nil
}

// lookup returns the fn record of a listed target (of any group), locating its
// declaration on first use; nil when tg is not a listed target.  A listed
// function that is missing / declared twice is an error (recorded in g.errs).
func (g *gen) lookup(tg target) *fn {
	if f, ok := g.fns[tg.String()]; ok {
		return f
	}
	if _, listed := g.all[tg.String()]; !listed {
		return nil
	}
	g.fns[tg.String()] = nil
	p, err := g.pkg(tg.pkg)
	if err != nil {
		g.errs = append(g.errs, fmt.Sprintf("package %s: %v", tg.pkg, err))
		return nil
	}
	d := p.funcs[tg.key()]
	if d == nil {
		g.errs = append(g.errs, fmt.Sprintf("%s: function not found in %s (renamed or removed: the tie is broken)", tg, p.dir))
		return nil
	}
	if p.dupFunc[tg.key()] {
		g.errs = append(g.errs, fmt.Sprintf("%s: declared more than once in %s (build-tag variants are not supported)", tg, p.dir))
		return nil
	}
	f := &fn{tgt: tg, pkg: p, decl: d, file: p.fileOf[d], leanName: tg.key()}
	f.src = p.text(f.file, d)
	f.hash = sha16(f.src)
	g.fns[tg.String()] = f
	return f
}

func translateAll(repo, groupName string) (text string, report string, errs []string) {
	g := &gen{repo: repo, pkgs: map[string]*pkgInfo{}, fns: map[string]*fn{}, all: map[string]target{},
		typeSeen: map[string]bool{}}
	for i := range groups {
		for _, t := range groups[i].targets {
			g.all[t.String()] = t
		}
		if groups[i].name == groupName {
			g.grp = &groups[i]
		}
	}
	if g.grp == nil {
		var names []string
		for _, gr := range groups {
			names = append(names, gr.name)
		}
		return "", "", []string{fmt.Sprintf("unknown group %q (groups: %s)", groupName, strings.Join(names, " "))}
	}
	for _, t := range g.grp.targets {
		g.lookup(t)
	}
	if len(g.errs) > 0 {
		return "", "", g.errs
	}
	for _, t := range g.grp.targets {
		g.ensure(g.fns[t.String()], token.NoPos, nil)
	}
	if len(g.errs) > 0 {
		return "", "", g.errs
	}
	return g.emit()
}

// needType checks (once) that the declaration of a type the representation
// depends on still has the expected shape; name = "<package dir>.<Type>".
func (g *gen) needType(pos token.Pos, from *tr, rel, name string) {
	key := rel[strings.LastIndex(rel, "/")+1:] + "." + name
	if g.typeSeen[key] {
		return
	}
	g.typeSeen[key] = true
	want, ok := typeShapes[key]
	if !ok {
		from.fail(pos, "type %s has no representation", key)
	}
	p, err := g.pkg(rel)
	if err != nil {
		from.fail(pos, "package %s: %v", rel, err)
	}
	ts := p.types[name]
	if ts == nil {
		from.fail(pos, "%s: type declaration not found", key)
	}
	got := shapeOf(ts.Type)
	if ts.Assign != token.NoPos {
		got = "= " + got
	}
	if !shapeMatches(got, want) {
		from.fail(pos, "%s: type %s is `%s`, the translator's representation needs `%s`",
			p.fset.Position(ts.Pos()), key, got, want)
	}
	f := p.typeIn[name]
	g.types = append(g.types, fmt.Sprintf("  %-22s type %-28s %s", p.pathOf[f], name, sha16(p.text(f, ts))))
}

// shapeMatches: want is either the exact shape or, with a leading "⊇", a list of
// fields `struct{A T;B T}` that must all be present (other fields are ignored).
func shapeMatches(got, want string) bool {
	if !strings.HasPrefix(want, "⊇") {
		return got == want
	}
	want = strings.TrimPrefix(want, "⊇")
	if !strings.HasPrefix(got, "struct{") || !strings.HasPrefix(want, "struct{") {
		return false
	}
	have := map[string]bool{}
	for _, f := range strings.Split(strings.TrimSuffix(strings.TrimPrefix(got, "struct{"), "}"), ";") {
		have[f] = true
	}
	for _, f := range strings.Split(strings.TrimSuffix(strings.TrimPrefix(want, "struct{"), "}"), ";") {
		if !have[f] {
			return false
		}
	}
	return true
}

// ensure translates f (once); called on demand for callees so that the
// emission order respects dependencies.
func (g *gen) ensure(f *fn, at token.Pos, from *tr) {
	switch f.state {
	case 2:
		return
	case 1:
		if from != nil {
			from.fail(at, "recursive call cycle through %s", f.tgt)
		}
		return
	case 3:
		if from != nil {
			from.fail(at, "callee %s could not be translated", f.tgt)
		}
		return
	}
	f.state = 1
	ok := func() (ok bool) {
		defer func() {
			if r := recover(); r != nil {
				e, is := r.(trErr)
				if !is {
					panic(r)
				}
				where := f.pkg.fset.Position(f.decl.Pos())
				if e.pos != token.NoPos {
					where = f.pkg.fset.Position(e.pos)
				}
				rel, err := filepath.Rel(g.repo, where.Filename)
				if err != nil {
					rel = where.Filename
				}
				g.errs = append(g.errs, fmt.Sprintf("%s:%d:%d: func %s: %s", rel, where.Line, where.Column, f.tgt, e.msg))
				ok = false
			}
		}()
		t := &tr{g: g, f: f}
		t.run()
		return true
	}()
	if ok {
		f.state = 2
		g.done = append(g.done, f)
	} else {
		f.state = 3
	}
}

// --------------------------------------------------------------- translator

type tr struct {
	g        *gen
	f        *fn
	env      map[string]ty
	order    []string
	ptrVars  map[string]bool // variables written through a pointer (receiver / *LabelData params)
	assigned map[string]bool
	mutated  map[string]bool
	escaped  bool
	pending  []pend
	nj       int
	imports  map[string]string
	loops    []*loopCtx
	ranges   map[string][2]int64 // loop variables: value interval
	moved    map[string]bool     // slice variables whose value was assigned to another variable
	written  map[string]bool     // slice variables that are written somewhere in the function (pre-scan)
	nonNil   map[string]bool     // Lean expressions of *big.Int values known to be non-nil here
	ntmp     int
	panics   int           // number of panic points translated so far (loops: can the body panic?)
	env0     map[string]ty // the parameters
	viewOK   bool          // translating an argument position in which a view of a written slice is harmless
}

type loopCtx struct {
	vars   []string // outer variables assigned in the body (the fold state)
	hasRet bool     // the body returns: state gets an `Option result`
	hasBrk bool     // the body breaks: state gets a Bool
	// general loops (translate_ext.go)
	ivState string // the loop variable is an outer variable: part of the state, incremented after each iteration
	optSt   bool   // the body can panic: the fold state is an Option, leaves are `some ..`
}

func (t *tr) fail(pos token.Pos, format string, a ...interface{}) {
	panic(trErr{pos, fmt.Sprintf(format, a...)})
}

func (t *tr) unsupported(n ast.Node, what string) {
	t.fail(n.Pos(), "unsupported %s (%T): `%s`", what, n, clip(t.src(n)))
}

func clip(s string) string {
	s = strings.Join(strings.Fields(s), " ")
	if len(s) > 70 {
		s = s[:70] + "…"
	}
	return s
}

func (t *tr) declare(pos token.Pos, name string, ty ty) {
	if name == "_" {
		t.fail(pos, "blank identifier is not supported")
	}
	if _, dup := t.env[name]; dup {
		t.fail(pos, "unsupported redeclaration / shadowing of variable `%s`", name)
	}
	if _, isImp := t.imports[name]; isImp {
		t.fail(pos, "variable `%s` shadows an imported package", name)
	}
	t.env[name] = ty
	t.order = append(t.order, name)
}

func (t *tr) typeExpr(e ast.Expr) (ty, bool) {
	ptr := false
	if s, ok := e.(*ast.StarExpr); ok {
		ptr = true
		e = s.X
	}
	if r, isPtr, ok := t.typeExprExt(e, ptr); ok {
		return r, isPtr
	}
	name := ""
	switch e := e.(type) {
	case *ast.Ident:
		name = e.Name
		if t.f.pkg.name != "ot" && (name == "Label" || name == "Wire" || name == "LabelData") {
			t.fail(e.Pos(), "type `%s` outside package ot is not the ot type", name)
		}
	case *ast.SelectorExpr:
		x, ok := e.X.(*ast.Ident)
		if !ok {
			t.unsupported(e, "type expression")
		}
		switch t.imports[x.Name] {
		case otImport:
			name = e.Sel.Name
			if name != "Label" && name != "Wire" && name != "LabelData" {
				t.unsupported(e, "type")
			}
		case "crypto/cipher":
			if e.Sel.Name == "Block" && !ptr {
				return tCipher, false
			}
			t.unsupported(e, "type")
		default:
			t.unsupported(e, "type")
		}
	default:
		t.unsupported(e, "type expression")
	}
	switch name {
	case "Label", "Wire", "LabelData":
		t.g.needType(e.Pos(), t, "ot", name)
	}
	var r ty
	switch name {
	case "uint64":
		r = tU64
	case "uint32":
		r = tU32
	case "int":
		r = tInt
	case "uint":
		r = tUint
	case "bool":
		r = tBool
	case "Label":
		r = tLabel
	case "Wire":
		r = tWire
	case "LabelData":
		if !ptr {
			t.fail(e.Pos(), "unsupported type LabelData by value (only *LabelData parameters)")
		}
		return tData, true
	default:
		t.unsupported(e, "type")
	}
	return r, ptr
}

func (t *tr) run() {
	f := t.f
	d := f.decl
	t.env = map[string]ty{}
	t.ptrVars = map[string]bool{}
	t.assigned = map[string]bool{}
	t.mutated = map[string]bool{}
	t.imports = map[string]string{}
	t.ranges = map[string][2]int64{}
	t.viewOK = false
	t.moved = map[string]bool{}
	t.nonNil = map[string]bool{}
	t.written = writtenSlices(d.Body)
	for _, im := range f.file.Imports {
		path := strings.Trim(im.Path.Value, "\"`")
		name := path[strings.LastIndex(path, "/")+1:]
		if im.Name != nil {
			name = im.Name.Name
		}
		t.imports[name] = path
	}
	if d.Type.TypeParams != nil {
		t.fail(d.Pos(), "unsupported generic function")
	}
	if d.Body == nil {
		t.fail(d.Pos(), "function has no Go body (assembly?)")
	}
	addParams := func(fl *ast.FieldList, isRecv bool) {
		if fl == nil {
			return
		}
		for _, fld := range fl.List {
			if _, ok := fld.Type.(*ast.Ellipsis); ok {
				t.unsupported(fld, "variadic parameter")
			}
			pt, ptr := t.typeExpr(fld.Type)
			if len(fld.Names) == 0 {
				t.fail(fld.Pos(), "unsupported unnamed parameter")
			}
			if isRecv {
				if pt != tLabel && !pt.isStruct() {
					t.fail(fld.Pos(), "unsupported receiver type %s", pt)
				}
				f.hasRecv, f.recvPtr = true, ptr
			} else if ptr && pt != tData && !pt.isStruct() {
				t.fail(fld.Pos(), "unsupported pointer parameter of type *%s", pt)
			}
			for _, n := range fld.Names {
				t.declare(n.Pos(), n.Name, pt)
				f.params = append(f.params, param{n.Name, pt, ptr})
				if ptr {
					t.ptrVars[n.Name] = true
				}
			}
		}
	}
	addParams(d.Recv, true)
	addParams(d.Type.Params, false)
	t.env0 = map[string]ty{}
	for _, p := range f.params {
		t.env0[p.name] = p.t
	}
	f.stateful = f.recvPtr && len(opaqueMethods[f.params[0].t]) > 0
	nCipher := 0
	for _, p := range f.params {
		if p.t == tCipher {
			nCipher++
		}
	}
	if nCipher > 1 {
		t.fail(d.Pos(), "more than one cipher.Block parameter")
	}
	f.result = tNone
	if t.returnsReceiver(d) {
		f.retRecv = true
		f.outVar = f.params[0].name
	} else if r := d.Type.Results; r != nil && len(r.List) > 0 {
		fields := r.List
		last := fields[len(fields)-1]
		if id, ok := last.Type.(*ast.Ident); ok && id.Name == "error" {
			if len(last.Names) != 0 {
				t.fail(last.Pos(), "unsupported named error result")
			}
			f.errRes = true
			fields = fields[:len(fields)-1]
		}
		if len(fields) == 0 && !f.stateful {
			t.fail(r.Pos(), "unsupported result list (only an error)")
		}
		if len(fields) == 0 {
			f.outVar = f.params[0].name
		}
		for _, fld := range fields {
			rt, ptr := t.typeExpr(fld.Type)
			if ptr || rt == tCipher || rt == tData {
				t.fail(fld.Pos(), "unsupported result type")
			}
			if len(fld.Names) == 0 {
				f.results = append(f.results, rt)
			}
			for _, n := range fld.Names {
				f.results = append(f.results, rt)
				f.resNames = append(f.resNames, n.Name)
			}
		}
		if len(f.resNames) != 0 && len(f.resNames) != len(f.results) {
			t.fail(r.Pos(), "unsupported mix of named and unnamed results")
		}
		if len(f.results) > 0 {
			f.result = f.results[0]
		}
		if len(f.results) > 1 {
			f.result = tTuple
		}
		if f.recvPtr && !f.params[0].t.isStruct() {
			t.fail(r.Pos(), "unsupported: pointer receiver method with a result")
		}
		for i, n := range f.resNames {
			t.declare(r.Pos(), n, f.results[i])
		}
		if alsoOutOK[f.tgt.String()] {
			for _, p := range f.params {
				if p.t.isSlice() && t.written[p.name] {
					if f.alsoOut != "" {
						t.fail(d.Pos(), "function that writes more than one slice parameter")
					}
					f.alsoOut = p.name
				}
			}
			if f.alsoOut == "" {
				t.fail(d.Pos(), "function flagged alsoOut writes no slice parameter")
			}
			if len(f.results) == 1 {
				f.result = tTuple // several values
			}
		}
	} else {
		// the value of the Lean definition is the thing written through a pointer
		if f.recvPtr {
			f.outVar = f.params[0].name
		} else {
			for _, p := range f.params {
				if p.ptr {
					if f.outVar != "" {
						t.fail(d.Pos(), "function without result and with more than one pointer parameter")
					}
					f.outVar = p.name
				}
			}
			if f.outVar == "" {
				// the slice parameter that is written
				for _, p := range f.params {
					if p.t.isSlice() && t.written[p.name] {
						if f.outVar != "" {
							t.fail(d.Pos(), "function without result that writes more than one slice parameter")
						}
						f.outVar = p.name
					}
				}
			}
		}
		if f.outVar == "" {
			t.fail(d.Pos(), "function has neither a result nor a pointer receiver/parameter: nothing to translate")
		}
	}
	f.body = t.seq(d.Body.List, func() node { return t.fallOff(d.Body.Rbrace) })
	for i := len(f.resNames) - 1; i >= 0; i-- {
		// named results start at their zero value
		f.body = nLet{leanVar(f.resNames[i]), f.results[i].lean(), zero(f.results[i]), f.body}
	}
	if f.hasPanic && f.errRes && !f.stateful {
		t.fail(d.Pos(), "unsupported: function that can both panic and return an error")
	}
	// which pointer targets were written?
	var mut []string
	for v := range t.mutated {
		if t.ptrVars[v] || (t.isParam(v) && t.env0[v].isSlice() && t.written[v]) {
			mut = append(mut, v)
		}
	}
	sort.Strings(mut)
	for _, v := range mut {
		if f.result == tNone {
			if v != f.outVar {
				t.fail(d.Pos(), "function writes through more than one pointer (`%s` and `%s`)", f.outVar, v)
			}
		} else if !(f.stateful && v == f.params[0].name) && v != f.alsoOut {
			f.scratch = append(f.scratch, v)
		}
	}
}

func tupleOf(parts []string) string {
	if len(parts) == 1 {
		return parts[0]
	}
	return "(" + strings.Join(parts, ", ") + ")"
}

func (f *fn) resultLean() string {
	var ps []string
	if f.stateful {
		ps = append(ps, f.params[0].t.lean())
	}
	for _, r := range f.results {
		ps = append(ps, r.lean())
	}
	if f.alsoOut != "" {
		for _, p := range f.params {
			if p.name == f.alsoOut {
				ps = append(ps, p.t.lean())
			}
		}
	}
	return strings.Join(ps, " × ")
}

// loopState renders the fold state of loop lc: [Option result,] [broken,] vars...
func (t *tr) loopState(lc *loopCtx, ret, brk string) string {
	var ps []string
	if lc.hasRet {
		ps = append(ps, ret)
	}
	if lc.hasBrk {
		ps = append(ps, brk)
	}
	for _, v := range lc.vars {
		if v == lc.ivState && ret == "none" && brk == "false" {
			// end of an iteration (also `continue`): the post statement iv++
			ps = append(ps, fmt.Sprintf("(%s + 1#%d)", leanVar(v), t.env[v].width()))
			continue
		}
		ps = append(ps, leanVar(v))
	}
	r := "()"
	if len(ps) > 0 {
		r = tupleOf(ps)
	}
	if lc.optSt {
		return "some " + paren(r)
	}
	return r
}

// retLeaf: the function returns val (inside a loop body: the fold state records it).
func (t *tr) retLeaf(val string) node {
	if n := len(t.loops); n > 0 {
		lc := t.loops[n-1]
		lc.hasRet = true
		return nLeaf{t.loopState(lc, "some "+paren(val), "false"), false}
	}
	return nLeaf{val, true}
}

// isErrorValue recognises fmt.Errorf(...) / errors.New(...): a non-nil error.
func (t *tr) isErrorValue(e ast.Expr) bool {
	c, ok := e.(*ast.CallExpr)
	if !ok {
		return false
	}
	sel, ok := c.Fun.(*ast.SelectorExpr)
	if !ok {
		return false
	}
	x, ok := sel.X.(*ast.Ident)
	if !ok {
		return false
	}
	if _, isVar := t.env[x.Name]; isVar {
		return false
	}
	path := t.imports[x.Name]
	return (path == "fmt" && sel.Sel.Name == "Errorf") || (path == "errors" && sel.Sel.Name == "New")
}

// interval bounds an int expression built from literals, loop variables, + and -.
func (t *tr) interval(e ast.Expr) (lo, hi int64, ok bool) {
	switch e := e.(type) {
	case *ast.ParenExpr:
		return t.interval(e.X)
	case *ast.BasicLit:
		if e.Kind == token.INT {
			v, good := new(big.Int).SetString(e.Value, 0)
			if good && v.IsInt64() && v.Int64() < 1<<40 {
				return v.Int64(), v.Int64(), true
			}
		}
	case *ast.Ident:
		if r, is := t.ranges[e.Name]; is {
			return r[0], r[1], true
		}
	case *ast.BinaryExpr:
		a0, a1, ok1 := t.interval(e.X)
		b0, b1, ok2 := t.interval(e.Y)
		if ok1 && ok2 {
			switch e.Op {
			case token.ADD:
				return a0 + b0, a1 + b1, true
			case token.SUB:
				return a0 - b1, a1 - b0, true
			}
		}
	}
	return 0, 0, false
}

func (t *tr) fallOff(pos token.Pos) node {
	if t.f.result != tNone {
		t.fail(pos, "control reaches the end of a function with a result (missing return)")
	}
	return nLeaf{leanVar(t.f.outVar), true}
}

// pend: something that must happen before the statement whose expressions are
// being translated: a run-time panic condition, or the call of a callee that
// can panic (its value is bound to tmp, `none` = the panic propagates).
type pend struct {
	cond      string
	tmp, call string
}

func (t *tr) pendCond(c string) { t.pending = append(t.pending, pend{cond: c}) }

func (t *tr) takePending() []pend {
	p := t.pending
	t.pending = nil
	return p
}

// guard protects n by the run-time panic conditions collected while
// translating the expressions of one statement.
func guard(conds []pend, n node, t *tr) node {
	for i := len(conds) - 1; i >= 0; i-- {
		if conds[i].cond != "" {
			n = nIf{conds[i].cond, nPanic{}, n}
		} else {
			n = nMatch{conds[i].call, conds[i].tmp, n, nPanic{}}
		}
		t.escaped = true
		t.f.hasPanic = true
		t.panics++
	}
	return n
}

type snapshot struct {
	env      map[string]ty
	order    []string
	assigned map[string]bool
	mutated  map[string]bool
	escaped  bool
	nj       int
	hasPanic bool
	calls    int
	moved    map[string]bool
	nOpaque  int
}

func copySet(m map[string]bool) map[string]bool {
	r := map[string]bool{}
	for k, v := range m {
		r[k] = v
	}
	return r
}

func (t *tr) snap() snapshot {
	e := map[string]ty{}
	for k, v := range t.env {
		e[k] = v
	}
	return snapshot{e, append([]string(nil), t.order...), copySet(t.assigned), copySet(t.mutated), t.escaped, t.nj,
		t.f.hasPanic, len(t.f.calls), copySet(t.moved), t.f.nOpaque}
}

func (t *tr) restore(s snapshot) {
	t.env = map[string]ty{}
	for k, v := range s.env {
		t.env[k] = v
	}
	t.order = append([]string(nil), s.order...)
	t.assigned, t.mutated, t.escaped, t.nj = copySet(s.assigned), copySet(s.mutated), s.escaped, s.nj
	t.f.hasPanic = s.hasPanic
	t.f.calls = t.f.calls[:s.calls]
	t.moved = copySet(s.moved)
	t.f.nOpaque = s.nOpaque
	t.f.opaqueWhy, t.f.opaqueTyp = t.f.opaqueWhy[:s.nOpaque], t.f.opaqueTyp[:s.nOpaque]
}

// popScope forgets the variables declared since s (Go block scope ends).
func (t *tr) popScope(s snapshot) {
	t.env = map[string]ty{}
	for k, v := range s.env {
		t.env[k] = v
	}
	t.order = append([]string(nil), s.order...)
}

func (t *tr) setVar(pos token.Pos, name string) {
	if _, ok := t.env[name]; !ok {
		t.fail(pos, "assignment to unknown variable `%s`", name)
	}
	if t.env[name] == tCipher {
		t.fail(pos, "assignment to the cipher parameter")
	}
	t.assigned[name] = true
	t.mutated[name] = true
}

// seq translates a statement list; tail() yields the node for "the list ended".
func (t *tr) seq(list []ast.Stmt, tail func() node) node {
	if len(list) == 0 {
		return tail()
	}
	s, rest := list[0], list[1:]
	bind := func(pos token.Pos, name string, val string) node {
		conds := t.takePending()
		ty := t.env[name]
		return guard(conds, nLet{leanVar(name), ty.lean(), val, t.seq(rest, tail)}, t)
	}
	switch s := s.(type) {
	case *ast.EmptyStmt:
		return t.seq(rest, tail)

	case *ast.BlockStmt:
		sn := t.snap()
		return t.seq(s.List, func() node { t.popScope(sn); return t.seq(rest, tail) })

	case *ast.DeclStmt:
		gd, ok := s.Decl.(*ast.GenDecl)
		if !ok || gd.Tok != token.VAR {
			t.unsupported(s, "declaration")
		}
		type b struct{ name, val string }
		var bs []b
		for _, sp := range gd.Specs {
			vs := sp.(*ast.ValueSpec)
			if vs.Type == nil && len(vs.Values) == 0 {
				t.unsupported(s, "declaration")
			}
			if len(vs.Values) != 0 && len(vs.Values) != len(vs.Names) {
				t.unsupported(s, "multi-value declaration")
			}
			for i, n := range vs.Names {
				var vt ty
				var val string
				if vs.Type != nil {
					var ptr bool
					vt, ptr = t.typeExpr(vs.Type)
					if ptr || vt == tCipher || vt == tData {
						t.unsupported(vs.Type, "variable type")
					}
					if len(vs.Values) > 0 {
						val = t.typed(vs.Values[i], vt)
					} else {
						val = zero(vt)
					}
				} else {
					val, vt = t.expr(vs.Values[i], tNone)
					if vt == tUntyped {
						val = t.typed(vs.Values[i], tInt)
						vt = tInt
					}
				}
				t.declare(n.Pos(), n.Name, vt)
				bs = append(bs, b{n.Name, val})
			}
		}
		conds := t.takePending()
		var build func(i int) node
		build = func(i int) node {
			if i == len(bs) {
				return t.seq(rest, tail)
			}
			return nLet{leanVar(bs[i].name), t.env[bs[i].name].lean(), bs[i].val, build(i + 1)}
		}
		return guard(conds, build(0), t)

	case *ast.AssignStmt:
		if len(s.Lhs) != 1 || len(s.Rhs) != 1 {
			return t.multiAssign(s, func() node { return t.seq(rest, tail) })
		}
		lhs, rhs := s.Lhs[0], s.Rhs[0]
		if s.Tok == token.DEFINE {
			id, ok := lhs.(*ast.Ident)
			if !ok {
				t.unsupported(s, "short variable declaration")
			}
			val, vt := t.expr(rhs, tNone)
			if vt == tUntyped {
				val, vt = t.typed(rhs, tInt), tInt
			}
			if vt == tCipher || vt == tData || vt == tNone || vt.isStruct() || vt == tTuple {
				t.unsupported(s, "short variable declaration of this type")
			}
			t.sliceBind(id, rhs, vt)
			t.declare(id.Pos(), id.Name, vt)
			return bind(s.Pos(), id.Name, val)
		}
		var op token.Token
		switch s.Tok {
		case token.ASSIGN:
			op = token.ILLEGAL
		case token.XOR_ASSIGN:
			op = token.XOR
		case token.OR_ASSIGN:
			op = token.OR
		case token.AND_ASSIGN:
			op = token.AND
		case token.AND_NOT_ASSIGN:
			op = token.AND_NOT
		case token.SHL_ASSIGN:
			op = token.SHL
		case token.SHR_ASSIGN:
			op = token.SHR
		case token.ADD_ASSIGN:
			op = token.ADD
		case token.SUB_ASSIGN:
			op = token.SUB
		default:
			t.unsupported(s, "assignment operator "+s.Tok.String())
		}
		if op != token.ILLEGAL {
			rhs = &ast.BinaryExpr{X: lhs, OpPos: s.TokPos, Op: op, Y: rhs}
		}
		switch l := lhs.(type) {
		case *ast.Ident:
			if l.Name == "_" && s.Tok == token.ASSIGN {
				// `_ = e`: e is evaluated (it may panic) and dropped
				if _, et := t.expr(rhs, tNone); et == tNone {
					t.unsupported(rhs, "expression")
				}
				return guard(t.takePending(), t.seq(rest, tail), t)
			}
			lt, ok := t.env[l.Name]
			if !ok {
				t.fail(l.Pos(), "assignment to unknown variable `%s`", l.Name)
			}
			val := t.typedOp(rhs, lt, s)
			t.sliceBind(l, rhs, lt)
			t.setVar(l.Pos(), l.Name)
			return bind(s.Pos(), l.Name, val)
		case *ast.IndexExpr:
			name, val := t.indexAssign(l, rhs, s)
			t.setVar(l.Pos(), name)
			return bind(s.Pos(), name, val)
		case *ast.SelectorExpr:
			if x, ok := l.X.(*ast.Ident); ok && t.env[x.Name].isStruct() {
				st := t.env[x.Name]
				i, ft := t.fieldIndex(st, l.Sel.Name)
				if i < 0 {
					t.fail(l.Pos(), "unsupported assignment to field `%s` of %s (not represented)", l.Sel.Name, st)
				}
				val := t.typedOp(rhs, ft, s)
				t.readPtr(l.Pos(), x.Name)
				t.setVar(l.Pos(), x.Name)
				return bind(s.Pos(), x.Name, withField(st, leanVar(x.Name), i, val))
			}
			x, ok := l.X.(*ast.Ident)
			if !ok || t.env[x.Name] != tLabel || (l.Sel.Name != "D0" && l.Sel.Name != "D1") {
				t.unsupported(l, "assignment target")
			}
			val := t.typedOp(rhs, tU64, s)
			t.setVar(l.Pos(), x.Name)
			v := leanVar(x.Name)
			if l.Sel.Name == "D0" {
				return bind(s.Pos(), x.Name, fmt.Sprintf("(%s, %s.2)", val, v))
			}
			return bind(s.Pos(), x.Name, fmt.Sprintf("(%s.1, %s)", v, val))
		default:
			t.unsupported(lhs, "assignment target")
		}

	case *ast.ExprStmt:
		c, ok := s.X.(*ast.CallExpr)
		if !ok {
			t.unsupported(s, "expression statement")
		}
		if id, ok := c.Fun.(*ast.Ident); ok && id.Name == "panic" {
			if _, shadow := t.env["panic"]; !shadow {
				t.escaped = true
				t.f.hasPanic = true
				t.panics++
				t.pending = nil
				return nPanic{}
			}
		}
		name, val := t.callStmt(c)
		t.setVar(c.Pos(), name)
		return bind(s.Pos(), name, val)

	case *ast.ReturnStmt:
		t.escaped = true
		if t.f.result == tNone {
			if t.f.retRecv {
				if len(s.Results) != 1 {
					t.unsupported(s, "return (number of values)")
				}
				if id, ok := unparen(s.Results[0]).(*ast.Ident); !ok || id.Name != t.f.outVar {
					t.unsupported(s, "return value (a method returning its receiver must return the receiver variable)")
				}
			} else if t.f.errRes {
				// a method whose only result is the error
				if len(s.Results) != 1 {
					t.unsupported(s, "return (number of values)")
				}
				if len(t.loops) > 0 {
					t.unsupported(s, "return inside a loop of a function without result")
				}
				e := s.Results[0]
				switch {
				case t.isNil(e):
				case t.isErrorValue(e):
					t.pending = nil
					return nPanic{}
				default:
					call, recv, ok := t.opaqueCall(e)
					if !ok || recv != t.f.outVar {
						t.unsupported(e, "error value (only nil, fmt.Errorf(..), errors.New(..), a call of an opaque method of the receiver)")
					}
					t.setVar(e.Pos(), recv)
					return guard(t.takePending(), nLeaf{call, false}, t)
				}
			} else if len(s.Results) != 0 {
				t.unsupported(s, "return with a value in a function without result")
			}
			if len(t.loops) > 0 {
				t.unsupported(s, "return inside a loop of a function without result")
			}
			return nLeaf{leanVar(t.f.outVar), true}
		}
		results := s.Results
		if t.f.errRes {
			if len(results) == 0 {
				t.unsupported(s, "bare return in a function with an error result")
			}
			e := results[len(results)-1]
			results = results[:len(results)-1]
			if id, ok := e.(*ast.Ident); !ok || id.Name != "nil" || t.env["nil"] != tNone {
				if !t.isErrorValue(e) {
					t.unsupported(e, "error value (only nil, fmt.Errorf(..), errors.New(..))")
				}
				if len(t.loops) > 0 {
					t.unsupported(s, "error return inside a loop")
				}
				t.pending = nil
				return nPanic{}
			}
		}
		var parts []string
		switch {
		case len(results) == 0 && len(t.f.resNames) > 0 && !t.f.errRes:
			for _, n := range t.f.resNames {
				parts = append(parts, leanVar(n))
			}
		case len(results) == len(t.f.results):
			for i, r := range results {
				t.viewOK = true // a returned view is a value: nothing is written afterwards
				parts = append(parts, t.typed(r, t.f.results[i]))
				t.viewOK = false
			}
		default:
			t.unsupported(s, "return (number of values)")
		}
		if t.f.stateful {
			parts = append([]string{leanVar(t.f.params[0].name)}, parts...)
		}
		if t.f.alsoOut != "" {
			parts = append(parts, leanVar(t.f.alsoOut))
		}
		return guard(t.takePending(), t.retLeaf(tupleOf(parts)), t)

	case *ast.IncDecStmt:
		op := token.ADD_ASSIGN
		if s.Tok == token.DEC {
			op = token.SUB_ASSIGN
		}
		as := &ast.AssignStmt{Lhs: []ast.Expr{s.X}, TokPos: s.TokPos, Tok: op,
			Rhs: []ast.Expr{&ast.BasicLit{ValuePos: s.TokPos, Kind: token.INT, Value: "1"}}}
		return t.seq(append([]ast.Stmt{as}, rest...), tail)

	case *ast.BranchStmt:
		if s.Tok == token.CONTINUE && s.Label == nil && len(t.loops) > 0 {
			t.escaped = true
			lc := t.loops[len(t.loops)-1]
			return nLeaf{t.loopState(lc, "none", "false"), false}
		}
		if s.Tok == token.BREAK && s.Label == nil && len(t.loops) > 0 {
			t.escaped = true
			lc := t.loops[len(t.loops)-1]
			lc.hasBrk = true
			return nLeaf{t.loopState(lc, "none", "true"), false}
		}
		t.unsupported(s, "branch statement")

	case *ast.ForStmt:
		if t.simpleLoop(s) {
			return t.forLoop(s, func() node { return t.seq(rest, tail) })
		}
		return t.genLoop(t.forSpec(s), func() node { return t.seq(rest, tail) })

	case *ast.RangeStmt:
		// for i := range N  ==  for i := 0; i < N; i++
		key, ok := s.Key.(*ast.Ident)
		lim, ok2 := s.X.(*ast.BasicLit)
		if !ok || !ok2 || s.Value != nil || s.Tok != token.DEFINE || lim.Kind != token.INT {
			return t.genLoop(t.rangeSpec(s), func() node { return t.seq(rest, tail) })
		}
		fs := &ast.ForStmt{For: s.For,
			Init: &ast.AssignStmt{Lhs: []ast.Expr{key}, TokPos: s.TokPos, Tok: token.DEFINE,
				Rhs: []ast.Expr{&ast.BasicLit{ValuePos: s.TokPos, Kind: token.INT, Value: "0"}}},
			Cond: &ast.BinaryExpr{X: key, OpPos: s.TokPos, Op: token.LSS, Y: lim},
			Post: &ast.IncDecStmt{X: key, TokPos: s.TokPos, Tok: token.INC},
			Body: s.Body}
		return t.forLoop(fs, func() node { return t.seq(rest, tail) })

	case *ast.SwitchStmt:
		return t.seq(append([]ast.Stmt{t.desugarSwitch(s)}, rest...), tail)

	case *ast.IfStmt:
		return t.ifStmt(s, rest, tail)
	}
	t.unsupported(s, "statement")
	return nil
}

// switch x { case a, b: A; case c: C; default: D }  ==>  if x==a || x==b {A} else if x==c {C} else {D}
func (t *tr) desugarSwitch(s *ast.SwitchStmt) ast.Stmt {
	if s.Init != nil {
		t.unsupported(s.Init, "switch with init clause")
	}
	var tag *ast.Ident
	if s.Tag != nil {
		var ok bool
		tag, ok = s.Tag.(*ast.Ident)
		if !ok {
			t.unsupported(s, "switch tag that is not a plain variable")
		}
		if _, isVar := t.env[tag.Name]; !isVar {
			t.unsupported(s, "switch tag that is not a local variable")
		}
	}
	var def *ast.CaseClause
	var cases []*ast.CaseClause
	for _, c := range s.Body.List {
		cc := c.(*ast.CaseClause)
		for _, b := range cc.Body {
			if br, ok := b.(*ast.BranchStmt); ok {
				t.unsupported(br, "branch statement in switch")
			}
		}
		if cc.List == nil {
			def = cc
		} else {
			cases = append(cases, cc)
		}
	}
	var els ast.Stmt
	if def != nil {
		els = &ast.BlockStmt{Lbrace: def.Pos(), List: def.Body, Rbrace: def.End()}
	}
	for i := len(cases) - 1; i >= 0; i-- {
		cc := cases[i]
		var cond ast.Expr
		for _, v := range cc.List {
			var eq ast.Expr = v // tagless switch: the case expression is the condition
			if tag != nil {
				if _, isLit := v.(*ast.BasicLit); !isLit {
					t.unsupported(v, "non-literal case value")
				}
				eq = &ast.BinaryExpr{X: tag, OpPos: v.Pos(), Op: token.EQL, Y: v}
			}
			if cond == nil {
				cond = eq
			} else {
				cond = &ast.BinaryExpr{X: cond, OpPos: v.Pos(), Op: token.LOR, Y: eq}
			}
		}
		els = &ast.IfStmt{If: cc.Pos(), Cond: cond,
			Body: &ast.BlockStmt{Lbrace: cc.Pos(), List: cc.Body, Rbrace: cc.End()}, Else: els}
	}
	if els == nil {
		return &ast.EmptyStmt{Semicolon: s.Pos()}
	}
	return els
}

func zero(t ty) string {
	switch t {
	case tBool:
		return "false"
	case tLabel:
		return "(0#64, 0#64)"
	case tWire:
		return "((0#64, 0#64), (0#64, 0#64))"
	case tBig:
		return "none"
	}
	if t.isInt() {
		return fmt.Sprintf("0#%d", t.width())
	}
	if t.isSlice() {
		return "#[]" // the nil slice
	}
	return "?"
}

// -------------------------------------------------------------- expressions

// typed translates e and insists on type want.
func (t *tr) typed(e ast.Expr, want ty) string {
	s, got := t.expr(e, want)
	if got != want {
		t.fail(e.Pos(), "type mismatch: `%s` has type %s, need %s", clip(t.src(e)), got, want)
	}
	return s
}

// typedOp is typed for a possibly synthesised `lhs op rhs` of a compound assignment.
func (t *tr) typedOp(e ast.Expr, want ty, at ast.Node) string {
	s, got := t.expr(e, want)
	if got != want {
		t.fail(at.Pos(), "type mismatch in `%s`: right-hand side has type %s, need %s", clip(t.src(at)), got, want)
	}
	return s
}

func (t *tr) src(n ast.Node) string {
	if n.Pos() == token.NoPos || n.End() == token.NoPos || !n.Pos().IsValid() {
		return "?"
	}
	defer func() { recover() }()
	return t.f.pkg.text(t.f.file, n)
}

func isAtom(s string) bool {
	for _, r := range s {
		if !(r == '_' || r == '\'' || r == '.' || r == '#' || r >= '0' && r <= '9' || r >= 'a' && r <= 'z' || r >= 'A' && r <= 'Z' || r > 127) {
			return false
		}
	}
	return s != ""
}

func paren(s string) string {
	if isAtom(s) || (strings.HasPrefix(s, "(") && strings.HasSuffix(s, ")") && balanced(s[1:len(s)-1])) {
		return s
	}
	return "(" + s + ")"
}

func balanced(s string) bool {
	d := 0
	for _, r := range s {
		if r == '(' {
			d++
		} else if r == ')' {
			d--
			if d < 0 {
				return false
			}
		}
	}
	return d == 0
}

func (t *tr) literal(l *ast.BasicLit, hint ty) (string, ty) {
	if l.Kind != token.INT {
		t.unsupported(l, "literal")
	}
	v, ok := new(big.Int).SetString(l.Value, 0)
	if !ok {
		t.unsupported(l, "integer literal")
	}
	if !hint.isInt() {
		return v.String(), tUntyped
	}
	lim := new(big.Int).Lsh(big.NewInt(1), uint(hint.width()))
	if hint.signed() {
		lim.Rsh(lim, 1)
	}
	if v.Sign() < 0 || v.Cmp(lim) >= 0 {
		t.fail(l.Pos(), "constant %s overflows %s", l.Value, hint)
	}
	if strings.HasPrefix(strings.ToLower(l.Value), "0x") {
		return fmt.Sprintf("0x%x#%d", v, hint.width()), hint
	}
	return fmt.Sprintf("%s#%d", v.String(), hint.width()), hint
}

func (t *tr) constNat(e ast.Expr) (string, bool) {
	for {
		p, ok := e.(*ast.ParenExpr)
		if !ok {
			break
		}
		e = p.X
	}
	l, ok := e.(*ast.BasicLit)
	if !ok || l.Kind != token.INT {
		return "", false
	}
	v, ok := new(big.Int).SetString(l.Value, 0)
	if !ok || v.Sign() < 0 || v.BitLen() > 16 {
		t.fail(e.Pos(), "unsupported shift count %s", l.Value)
	}
	return v.String(), true
}

func (t *tr) expr(e ast.Expr, hint ty) (string, ty) {
	if xs, xt, ok := t.exprExt(e, hint); ok {
		return xs, xt
	}
	switch e := e.(type) {
	case *ast.ParenExpr:
		return t.expr(e.X, hint)

	case *ast.BasicLit:
		return t.literal(e, hint)

	case *ast.Ident:
		if vt, ok := t.env[e.Name]; ok {
			if vt == tCipher {
				t.unsupported(e, "use of the cipher value")
			}
			if t.moved[e.Name] {
				t.fail(e.Pos(), "unsupported use of slice `%s` after it was assigned to another variable (alias)", e.Name)
			}
			t.readPtr(e.Pos(), e.Name)
			return leanVar(e.Name), vt
		}
		switch e.Name {
		case "true", "false":
			return e.Name, tBool
		}
		t.fail(e.Pos(), "unsupported identifier `%s` (not a parameter or local variable)", e.Name)

	case *ast.SelectorExpr:
		if x, ok := e.X.(*ast.Ident); ok {
			if _, isVar := t.env[x.Name]; !isVar {
				t.fail(e.Pos(), "unsupported package-level reference `%s`", t.src(e))
			}
		}
		xs, xt := t.expr(e.X, tNone)
		switch {
		case xt == tLabel && e.Sel.Name == "D0":
			return paren(xs) + ".1", tU64
		case xt == tLabel && e.Sel.Name == "D1":
			return paren(xs) + ".2", tU64
		case xt == tWire && e.Sel.Name == "L0":
			return paren(xs) + ".1", tLabel
		case xt == tWire && e.Sel.Name == "L1":
			return paren(xs) + ".2", tLabel
		}
		t.fail(e.Pos(), "unsupported field selector `%s` on %s", e.Sel.Name, xt)

	case *ast.UnaryExpr:
		switch e.Op {
		case token.NOT:
			return "(!" + t.typed(e.X, tBool) + ")", tBool
		case token.XOR:
			xs, xt := t.expr(e.X, hint)
			if !xt.isInt() {
				t.unsupported(e, "operand of unary ^")
			}
			return "(~~~" + xs + ")", xt
		case token.SUB:
			xs, xt := t.expr(e.X, hint)
			if !xt.isInt() {
				t.unsupported(e, "operand of unary -")
			}
			return "(-" + xs + ")", xt
		}
		t.unsupported(e, "unary operator "+e.Op.String())

	case *ast.BinaryExpr:
		return t.binary(e, hint)

	case *ast.CallExpr:
		return t.callExpr(e, hint)

	case *ast.CompositeLit:
		ct, ptr := t.typeExpr(e.Type)
		if ptr || ct != tLabel {
			t.unsupported(e, "composite literal")
		}
		d := [2]string{"0#64", "0#64"}
		seen := map[string]bool{}
		for _, el := range e.Elts {
			kv, ok := el.(*ast.KeyValueExpr)
			if !ok {
				t.unsupported(el, "unkeyed composite literal element")
			}
			k, ok := kv.Key.(*ast.Ident)
			if !ok || (k.Name != "D0" && k.Name != "D1") || seen[k.Name] {
				t.unsupported(kv, "composite literal key")
			}
			seen[k.Name] = true
			v := t.typed(kv.Value, tU64)
			if k.Name == "D0" {
				d[0] = v
			} else {
				d[1] = v
			}
		}
		return "(" + d[0] + ", " + d[1] + ")", tLabel
	}
	t.unsupported(e, "expression")
	return "", tNone
}

// operands translates both operands of a non-shift binary operator; an untyped
// constant operand takes the type of the other operand.
func (t *tr) operands(e *ast.BinaryExpr, hint ty) (string, string, ty) {
	mark := len(t.pending)
	ls, lt := t.expr(e.X, tNone)
	mid := len(t.pending)
	rs, rt := t.expr(e.Y, tNone)
	switch {
	case lt == tUntyped && rt == tUntyped:
		if !hint.isInt() {
			t.fail(e.Pos(), "unsupported constant expression `%s` without a context type", clip(t.src(e)))
		}
		t.pending = t.pending[:mark]
		ls, lt = t.expr(e.X, hint)
		rs, rt = t.expr(e.Y, hint)
	case lt == tUntyped:
		if !rt.isInt() {
			t.fail(e.Pos(), "type mismatch in `%s`: constant vs %s", clip(t.src(e)), rt)
		}
		right := append([]pend(nil), t.pending[mid:]...)
		t.pending = t.pending[:mark]
		ls, lt = t.expr(e.X, rt)
		t.pending = append(t.pending, right...)
	case rt == tUntyped:
		if !lt.isInt() {
			t.fail(e.Pos(), "type mismatch in `%s`: %s vs constant", clip(t.src(e)), lt)
		}
		t.pending = t.pending[:mid]
		rs, rt = t.expr(e.Y, lt)
	}
	if lt != rt {
		t.fail(e.Pos(), "type mismatch in `%s`: %s vs %s", clip(t.src(e)), lt, rt)
	}
	return ls, rs, lt
}

func (t *tr) binary(e *ast.BinaryExpr, hint ty) (string, ty) {
	switch e.Op {
	case token.LAND, token.LOR:
		ls := t.typed(e.X, tBool)
		n := len(t.pending)
		rs := t.typed(e.Y, tBool)
		if len(t.pending) != n {
			t.fail(e.Y.Pos(), "unsupported: operation that can panic on the right of a short-circuit operator")
		}
		op := "&&"
		if e.Op == token.LOR {
			op = "||"
		}
		return "(" + ls + " " + op + " " + rs + ")", tBool

	case token.SHL, token.SHR:
		xs, xt := t.expr(e.X, hint)
		if xt == tUntyped {
			// `1 << i`: the constant takes its type from the context; the
			// caller re-translates with a hint (or reports the mismatch)
			return "?", tUntyped
		}
		if !xt.isInt() {
			t.unsupported(e, "shift operand")
		}
		var cnt string
		if n, ok := t.constNat(e.Y); ok {
			cnt = n
		} else {
			cs, ct := t.expr(e.Y, tNone)
			if !ct.isInt() {
				t.unsupported(e.Y, "shift count")
			}
			if lo, _, known := t.interval(e.Y); ct.signed() && !(known && lo >= 0) {
				// Go: a negative shift count panics at run time
				t.pendCond(fmt.Sprintf("BitVec.slt %s 0#%d", paren(cs), ct.width()))
			}
			cnt = paren(cs) + ".toNat"
		}
		switch {
		case e.Op == token.SHL:
			return "(" + xs + " <<< " + cnt + ")", xt
		case xt.signed():
			return "(BitVec.sshiftRight " + paren(xs) + " " + paren(cnt) + ")", xt
		default:
			return "(" + xs + " >>> " + cnt + ")", xt
		}

	case token.MUL, token.QUO, token.REM:
		return t.mulDiv(e, hint)

	case token.XOR, token.OR, token.AND, token.AND_NOT, token.ADD, token.SUB:
		ls, rs, ot := t.operands(e, hint)
		if !ot.isInt() {
			t.fail(e.Pos(), "unsupported operand type %s for `%s`", ot, e.Op)
		}
		switch e.Op {
		case token.XOR:
			return "(" + ls + " ^^^ " + rs + ")", ot
		case token.OR:
			return "(" + ls + " ||| " + rs + ")", ot
		case token.AND:
			return "(" + ls + " &&& " + rs + ")", ot
		case token.AND_NOT:
			return "(" + ls + " &&& ~~~" + paren(rs) + ")", ot
		case token.ADD:
			return "(" + ls + " + " + rs + ")", ot
		default:
			return "(" + ls + " - " + rs + ")", ot
		}

	case token.EQL, token.NEQ:
		if xs, ok := t.nilCompare(e); ok {
			return xs, tBool
		}
		ls, rs, ot := t.operands(e, tNone)
		if !ot.isInt() && ot != tBool && ot != tLabel && ot != tWire {
			t.fail(e.Pos(), "unsupported comparison of %s values", ot)
		}
		if e.Op == token.EQL {
			return "(" + ls + " == " + rs + ")", tBool
		}
		return "(" + ls + " != " + rs + ")", tBool

	case token.LSS, token.LEQ, token.GTR, token.GEQ:
		ls, rs, ot := t.operands(e, tNone)
		if !ot.isInt() {
			t.fail(e.Pos(), "unsupported ordering comparison of %s values", ot)
		}
		lt, le := "BitVec.ult", "BitVec.ule"
		if ot.signed() {
			lt, le = "BitVec.slt", "BitVec.sle"
		}
		ls, rs = paren(ls), paren(rs)
		switch e.Op {
		case token.LSS:
			return "(" + lt + " " + ls + " " + rs + ")", tBool
		case token.LEQ:
			return "(" + le + " " + ls + " " + rs + ")", tBool
		case token.GTR:
			return "(" + lt + " " + rs + " " + ls + ")", tBool
		default:
			return "(" + le + " " + rs + " " + ls + ")", tBool
		}
	}
	t.unsupported(e, "binary operator "+e.Op.String())
	return "", tNone
}

// -------------------------------------------------------------------- calls

// dataSlice recognises d[a:b], (*d)[a:b], d[:] for a *LabelData variable d.
func (t *tr) dataSlice(e ast.Expr) (name string, lo, hi int) {
	s, ok := e.(*ast.SliceExpr)
	if !ok || s.Slice3 {
		t.unsupported(e, "byte-slice argument (need d[0:8], d[8:16] or d[:] of a *LabelData)")
	}
	x := s.X
	if p, ok := x.(*ast.ParenExpr); ok {
		if st, ok := p.X.(*ast.StarExpr); ok {
			x = st.X
		}
	}
	id, ok := x.(*ast.Ident)
	if !ok || t.env[id.Name] != tData {
		t.unsupported(e, "byte-slice argument (need a slice of a *LabelData variable)")
	}
	num := func(b ast.Expr, def int) int {
		if b == nil {
			return def
		}
		l, ok := b.(*ast.BasicLit)
		if !ok || l.Kind != token.INT {
			t.unsupported(e, "slice bound")
		}
		v, ok := new(big.Int).SetString(l.Value, 0)
		if !ok || !v.IsInt64() {
			t.unsupported(e, "slice bound")
		}
		return int(v.Int64())
	}
	return id.Name, num(s.Low, 0), num(s.High, 16)
}

// half returns the Lean expression of bytes [lo,hi) of data variable v read big-endian.
func (t *tr) half(e ast.Expr, v string, lo, hi int) string {
	switch {
	case lo == 0 && hi == 8:
		return "(BitVec.extractLsb' 64 64 " + leanVar(v) + ")"
	case lo == 8 && hi == 16:
		return "(BitVec.extractLsb' 0 64 " + leanVar(v) + ")"
	}
	t.unsupported(e, "byte range (only [0:8] and [8:16] of a LabelData)")
	return ""
}

// bigEndian recognises binary.BigEndian.<method>.
func (t *tr) bigEndian(fun ast.Expr) (string, bool) {
	sel, ok := fun.(*ast.SelectorExpr)
	if !ok {
		return "", false
	}
	in, ok := sel.X.(*ast.SelectorExpr)
	if !ok {
		return "", false
	}
	pk, ok := in.X.(*ast.Ident)
	if !ok {
		return "", false
	}
	if _, isVar := t.env[pk.Name]; isVar || t.imports[pk.Name] != "encoding/binary" {
		return "", false
	}
	if in.Sel.Name != "BigEndian" {
		t.unsupported(fun, "byte order (only binary.BigEndian is the identity on the 128-bit value)")
	}
	return sel.Sel.Name, true
}

// resolve finds the translated function a call refers to (recv = receiver
// expression of a method call).
func (t *tr) resolve(c *ast.CallExpr) (callee *fn, recv ast.Expr) {
	switch f := c.Fun.(type) {
	case *ast.Ident:
		if _, isVar := t.env[f.Name]; isVar {
			t.unsupported(c, "call of a function value")
		}
		callee = t.g.lookup(target{t.f.pkg.rel, "", f.Name})
		if callee == nil {
			t.fail(c.Pos(), "unsupported call of `%s` (not in the list of translated functions)", f.Name)
		}
		return callee, nil
	case *ast.SelectorExpr:
		if x, ok := f.X.(*ast.Ident); ok {
			if _, isVar := t.env[x.Name]; !isVar {
				path, isPkg := t.imports[x.Name]
				if !isPkg {
					t.fail(c.Pos(), "unsupported call `%s`", clip(t.src(c.Fun)))
				}
				if path == otImport {
					callee = t.g.lookup(target{"ot", "", f.Sel.Name})
				}
				if callee == nil {
					t.fail(c.Pos(), "unsupported call of `%s` (not in the list of translated functions)", t.src(c.Fun))
				}
				return callee, nil
			}
		}
		// method call: the receiver's type decides
		mark := len(t.pending)
		_, rt := t.expr(f.X, tNone)
		t.pending = t.pending[:mark]
		home, ok := recvHome[rt]
		if !ok {
			t.fail(c.Pos(), "unsupported method call `%s` on a value of type %s", clip(t.src(c.Fun)), rt)
		}
		callee = t.g.lookup(target{home[0], home[1], f.Sel.Name})
		if callee == nil {
			t.fail(c.Pos(), "unsupported call of method `%s.%s` (not in the list of translated functions)", home[1], f.Sel.Name)
		}
		return callee, f.X
	}
	t.unsupported(c, "call")
	return nil, nil
}

// args translates the non-receiver arguments against the callee's signature.
func (t *tr) args(c *ast.CallExpr, callee *fn) []string {
	ps := callee.params
	if callee.hasRecv {
		ps = ps[1:]
	}
	if c.Ellipsis != token.NoPos || len(c.Args) != len(ps) {
		t.fail(c.Pos(), "call of %s with %d arguments, want %d", callee.tgt, len(c.Args), len(ps))
	}
	var out []string
	for i, a := range c.Args {
		switch ps[i].t {
		case tData:
			id, ok := a.(*ast.Ident)
			if !ok || t.env[id.Name] != tData {
				t.unsupported(a, "*LabelData argument (must be a *LabelData variable)")
			}
			out = append(out, leanVar(id.Name))
		case tCipher:
			id, ok := a.(*ast.Ident)
			if !ok || t.env[id.Name] != tCipher {
				t.unsupported(a, "cipher argument")
			}
			out = append(out, "π")
		default:
			out = append(out, paren(t.typed(a, ps[i].t)))
		}
	}
	// the callee's opaque parts become opaque parameters of the caller (one set per call site)
	for i := 0; i < callee.nOpaque; i++ {
		typ := callee.opaqueTyp[i]
		if typ == "" {
			typ = callee.rts()
		}
		t.f.nOpaque++
		t.f.opaqueWhy = append(t.f.opaqueWhy, fmt.Sprintf("the opaque part %d of the callee %s", i+1, callee.tgt))
		t.f.opaqueTyp = append(t.f.opaqueTyp, typ)
		out = append(out, fmt.Sprintf("large'%d", t.f.nOpaque))
	}
	return out
}

// rts: the Lean result type of the definition of a translated function.
func (f *fn) rts() string {
	rt := f.result
	if rt == tNone {
		for _, p := range f.params {
			if p.name == f.outVar {
				rt = p.t
			}
		}
	}
	rts := rt.lean()
	if f.result != tNone {
		rts = f.resultLean()
	}
	if f.hasPanic || f.errRes {
		rts = "Option (" + rts + ")"
	}
	return rts
}

func (t *tr) useCallee(c *ast.CallExpr, callee *fn) {
	t.g.ensure(callee, c.Pos(), t)
	if len(callee.scratch) > 0 {
		t.fail(c.Pos(), "unsupported call of %s, which writes its scratch buffer and returns a value", callee.tgt)
	}
	t.f.calls = append(t.f.calls, callee.tgt.String())
}

// callExpr: calls that produce a value.
func (t *tr) callExpr(c *ast.CallExpr, hint ty) (string, ty) {
	// conversions
	if id, ok := c.Fun.(*ast.Ident); ok {
		if _, isVar := t.env[id.Name]; !isVar {
			to := basicType(id.Name)
			if to == tBool {
				to = tNone
			}
			if id.Name == "panic" {
				t.unsupported(c, "panic in expression position")
			}
			if to != tNone {
				if len(c.Args) != 1 {
					t.unsupported(c, "conversion")
				}
				xs, xt := t.expr(c.Args[0], tNone)
				switch {
				case xt == tUntyped:
					return t.typed(c.Args[0], to), to
				case !xt.isInt():
					t.fail(c.Pos(), "unsupported conversion %s(%s)", id.Name, xt)
				case xt.width() == to.width():
					return xs, to
				default:
					return convertInt(xs, xt, to), to
				}
			}
		}
	}
	if xs, xt, ok := t.callExprExt(c, hint); ok {
		return xs, xt
	}
	if m, ok := t.bigEndian(c.Fun); ok {
		if m != "Uint64" || len(c.Args) != 1 {
			t.unsupported(c, "binary.BigEndian call in expression position")
		}
		v, lo, hi := t.dataSlice(c.Args[0])
		return t.half(c.Args[0], v, lo, hi), tU64
	}
	call, callee := t.targetCall(c)
	if callee.result == tTuple {
		t.fail(c.Pos(), "call of %s (multiple results) in single-value position", callee.tgt)
	}
	return call, callee.result
}

// targetCall: a call of a translated function that produces a value.
func (t *tr) targetCall(c *ast.CallExpr) (string, *fn) {
	callee, recv := t.resolve(c)
	t.useCallee(c, callee)
	if callee.result == tNone {
		t.fail(c.Pos(), "call of %s (no result) in expression position", callee.tgt)
	}
	if callee.errRes || callee.stateful {
		t.fail(c.Pos(), "unsupported call of %s, which returns an error", callee.tgt)
	}
	for _, p := range callee.params {
		if (p.ptr && !p.t.isStruct()) || p.t == tCipher {
			t.fail(c.Pos(), "unsupported call of %s (pointer / cipher parameter) in expression position", callee.tgt)
		}
	}
	parts := []string{callee.leanName}
	if recv != nil {
		parts = append(parts, paren(t.typed(recv, callee.params[0].t)))
	}
	parts = append(parts, t.args(c, callee)...)
	call := "(" + strings.Join(parts, " ") + ")"
	if callee.hasPanic {
		// the callee's panic propagates: bind its value before the statement
		tmp := t.tmp("c")
		t.pending = append(t.pending, pend{tmp: tmp, call: call})
		return tmp, callee
	}
	return call, callee
}

// multiAssign: a, b := e1, e2 / a, b = e1, e2 / a, b := f(..) for a translated f with two or more results.
func (t *tr) multiAssign(s *ast.AssignStmt, cont func() node) node {
	if s.Tok != token.DEFINE && s.Tok != token.ASSIGN {
		t.unsupported(s, "multiple assignment with operator")
	}
	var names []string
	for _, l := range s.Lhs {
		id, ok := l.(*ast.Ident)
		if !ok {
			t.unsupported(l, "target of a multiple assignment (only variables)")
		}
		names = append(names, id.Name)
	}
	type bnd struct{ name, typ, val string }
	var first, second []bnd
	var types []ty
	t.nj++
	tmp := fmt.Sprintf("m'%d", t.nj)
	if len(s.Rhs) == 1 {
		c, ok := s.Rhs[0].(*ast.CallExpr)
		if !ok {
			t.unsupported(s, "multiple assignment")
		}
		call, callee := t.targetCall(c)
		if callee.result != tTuple || len(callee.results) != len(names) {
			t.fail(s.Pos(), "assignment of %d results of %s to %d variables", len(callee.results), callee.tgt, len(names))
		}
		first = append(first, bnd{tmp, callee.resultLean(), call})
		types = callee.results
		for i := range names {
			second = append(second, bnd{"", "", proj(tmp, i, len(names))})
		}
	} else if len(s.Rhs) == len(names) {
		for i, r := range s.Rhs {
			hint := tNone
			if s.Tok == token.ASSIGN && names[i] != "_" {
				hint = t.env[names[i]]
			}
			val, vt := t.expr(r, hint)
			if vt == tUntyped {
				val, vt = t.typed(r, tInt), tInt
			}
			if vt == tCipher || vt == tData || vt == tNone || vt == tTuple {
				t.unsupported(r, "value in a multiple assignment")
			}
			types = append(types, vt)
			ti := fmt.Sprintf("%s_%d", tmp, i)
			first = append(first, bnd{ti, vt.lean(), val})
			second = append(second, bnd{"", "", ti})
		}
	} else {
		t.unsupported(s, "multiple assignment (number of values)")
	}
	conds := t.takePending()
	var all []bnd
	all = append(all, first...)
	for i, n := range names {
		if n == "_" {
			continue
		}
		if s.Tok == token.DEFINE {
			t.declare(s.Lhs[i].Pos(), n, types[i])
		} else {
			if vt, ok := t.env[n]; !ok || vt != types[i] {
				t.fail(s.Lhs[i].Pos(), "type mismatch in multiple assignment to `%s`", n)
			}
			t.setVar(s.Lhs[i].Pos(), n)
		}
		all = append(all, bnd{leanVar(n), types[i].lean(), second[i].val})
	}
	var build func(i int) node
	build = func(i int) node {
		if i == len(all) {
			return cont()
		}
		return nLet{all[i].name, all[i].typ, all[i].val, build(i + 1)}
	}
	return guard(conds, build(0), t)
}

// forLoop: `for i := A; i < B; i++` (also <=, and > / >= with i--) with literal
// bounds becomes a fold over List.range n.  The fold state is the tuple of the
// outer variables assigned in the body, preceded by an `Option result` when the
// body contains a return (further iterations are then skipped).
func (t *tr) forLoop(s *ast.ForStmt, cont func() node) node {
	lit := func(e ast.Expr) int64 {
		for {
			p, ok := e.(*ast.ParenExpr)
			if !ok {
				break
			}
			e = p.X
		}
		l, ok := e.(*ast.BasicLit)
		if !ok || l.Kind != token.INT {
			t.unsupported(s, "loop bound that is not an integer literal")
		}
		v, good := new(big.Int).SetString(l.Value, 0)
		if !good || !v.IsInt64() || v.Int64() < 0 || v.Int64() >= 1<<31 {
			t.unsupported(s, "loop bound")
		}
		return v.Int64()
	}
	init, ok := s.Init.(*ast.AssignStmt)
	if !ok || init.Tok != token.DEFINE || len(init.Lhs) != 1 || len(init.Rhs) != 1 {
		t.unsupported(s, "loop (need `for i := A; i < B; i++` with literal bounds)")
	}
	ivId, ok := init.Lhs[0].(*ast.Ident)
	if !ok {
		t.unsupported(s, "loop variable")
	}
	iv := ivId.Name
	A := lit(init.Rhs[0])
	cond, ok := s.Cond.(*ast.BinaryExpr)
	if !ok {
		t.unsupported(s, "loop condition")
	}
	if x, ok := cond.X.(*ast.Ident); !ok || x.Name != iv {
		t.unsupported(s, "loop condition (need `i OP literal`)")
	}
	B := lit(cond.Y)
	up := false
	switch p := s.Post.(type) {
	case *ast.IncDecStmt:
		if x, ok := p.X.(*ast.Ident); !ok || x.Name != iv {
			t.unsupported(s, "loop post statement")
		}
		up = p.Tok == token.INC
	case *ast.AssignStmt:
		x, ok := p.Lhs[0].(*ast.Ident)
		one, ok2 := p.Rhs[0].(*ast.BasicLit)
		if len(p.Lhs) != 1 || !ok || x.Name != iv || !ok2 || one.Value != "1" ||
			(p.Tok != token.ADD_ASSIGN && p.Tok != token.SUB_ASSIGN) {
			t.unsupported(s, "loop post statement (need i++ / i-- / i += 1 / i -= 1)")
		}
		up = p.Tok == token.ADD_ASSIGN
	default:
		t.unsupported(s, "loop post statement")
	}
	var n, lo, hi int64
	switch {
	case up && cond.Op == token.LSS:
		n = B - A
	case up && cond.Op == token.LEQ:
		n = B - A + 1
	case !up && cond.Op == token.GTR:
		n = A - B
	case !up && cond.Op == token.GEQ:
		n = A - B + 1
	default:
		t.unsupported(s, "loop whose condition and step do not fit (possibly non-terminating)")
	}
	if n < 0 {
		n = 0
	}
	if n > 1<<16 {
		t.unsupported(s, "loop with more than 65536 iterations")
	}
	lo, hi = A, A
	if n > 0 {
		if up {
			hi = A + n - 1
		} else {
			lo = A - (n - 1)
		}
	}
	sn := t.snap()
	enter := func(lc *loopCtx) {
		t.declare(ivId.Pos(), iv, tInt)
		t.ranges[iv] = [2]int64{lo, hi}
		t.loops = append(t.loops, lc)
	}
	leave := func() {
		t.loops = t.loops[:len(t.loops)-1]
		delete(t.ranges, iv)
	}
	// pass 1: what does the body assign, does it return?
	probe := &loopCtx{}
	escBefore, panicBefore := t.escaped, t.f.hasPanic
	t.assigned = map[string]bool{}
	enter(probe)
	t.seq(s.Body.List, func() node { return nLeaf{"", false} })
	leave()
	if t.f.hasPanic && !panicBefore {
		// a body that can panic: the general form with an Option fold state
		t.restore(sn)
		return t.genLoop(t.forSpec(s), cont)
	}
	if t.assigned[iv] {
		t.unsupported(s, "loop whose body assigns the loop variable")
	}
	lc := &loopCtx{hasRet: probe.hasRet, hasBrk: probe.hasBrk}
	for _, v := range sn.order {
		if t.assigned[v] {
			lc.vars = append(lc.vars, v)
		}
	}
	t.restore(sn)
	if lc.hasRet && t.f.result == tNone {
		t.unsupported(s, "return inside a loop of a function without result")
	}
	// pass 2
	enter(lc)
	body := t.seq(s.Body.List, func() node { return nLeaf{t.loopState(lc, "none", "false"), false} })
	leave()
	t.popScope(sn)
	t.escaped = escBefore || lc.hasRet
	for _, v := range lc.vars {
		t.assigned[v] = true
		t.mutated[v] = true
	}
	if len(lc.vars) == 0 && !lc.hasRet {
		return cont() // a loop without any effect
	}
	var typs []string
	if lc.hasRet {
		typs = append(typs, "Option ("+t.f.resultLean()+")")
	}
	if lc.hasBrk {
		typs = append(typs, "Bool")
	}
	for _, v := range lc.vars {
		typs = append(typs, t.env[v].lean())
	}
	t.nj++
	k := len(t.loops) + 1
	l := nLoop{tmp: fmt.Sprintf("l'%d", t.nj), styp: strings.Join(typs, " × "), n: n,
		st: fmt.Sprintf("st'%d", k), k: fmt.Sprintf("k'%d", k), hasRet: lc.hasRet, nelem: len(typs),
		init: t.loopState(lc, "none", "false"), body: body}
	off := 0
	var skip []string
	if lc.hasRet {
		skip = append(skip, "("+proj(l.st, 0, len(typs))+").isSome")
		off = 1
	}
	if lc.hasBrk {
		skip = append(skip, proj(l.st, off, len(typs)))
		off++
	}
	l.skip = strings.Join(skip, " || ")
	for i, v := range lc.vars {
		l.pre = append(l.pre, [3]string{leanVar(v), t.env[v].lean(), proj(l.st, off+i, len(typs))})
	}
	if up {
		l.pre = append(l.pre, [3]string{leanVar(iv), "BitVec 64", fmt.Sprintf("BitVec.ofNat 64 (%d + %s)", A, l.k)})
	} else {
		l.pre = append(l.pre, [3]string{leanVar(iv), "BitVec 64", fmt.Sprintf("BitVec.ofNat 64 (%d - %s)", A, l.k)})
	}
	var after func(i int) node
	after = func(i int) node {
		if i == len(lc.vars) {
			return cont()
		}
		v := lc.vars[i]
		return nLet{leanVar(v), t.env[v].lean(), proj(l.tmp, off+i, len(typs)), after(i + 1)}
	}
	if lc.hasRet {
		rv := fmt.Sprintf("r'%d", t.nj)
		l.after = nMatch{proj(l.tmp, 0, len(typs)), rv, t.retLeaf(rv), after(0)}
	} else {
		l.after = after(0)
	}
	return l
}

// callStmt: calls executed for their effect; returns the variable that is
// rebound and its new value.
func (t *tr) callStmt(c *ast.CallExpr) (string, string) {
	if name, val, ok := t.callStmtExt(c); ok {
		return name, val
	}
	if m, ok := t.bigEndian(c.Fun); ok {
		if m != "PutUint64" || len(c.Args) != 2 {
			t.unsupported(c, "binary.BigEndian call")
		}
		v, lo, hi := t.dataSlice(c.Args[0])
		val := paren(t.typed(c.Args[1], tU64))
		switch {
		case lo == 0 && hi == 8:
			return v, "(" + val + " ++ BitVec.extractLsb' 0 64 " + leanVar(v) + ")"
		case lo == 8 && hi == 16:
			return v, "(BitVec.extractLsb' 64 64 " + leanVar(v) + " ++ " + val + ")"
		}
		t.unsupported(c.Args[0], "byte range (only [0:8] and [8:16] of a LabelData)")
	}
	// alg.Encrypt(d[:], d[:])
	if sel, ok := c.Fun.(*ast.SelectorExpr); ok {
		if x, ok := sel.X.(*ast.Ident); ok && t.env[x.Name] == tCipher {
			if sel.Sel.Name != "Encrypt" || len(c.Args) != 2 {
				t.unsupported(c, "cipher call (only alg.Encrypt(d[:], d[:]))")
			}
			d1, lo1, hi1 := t.dataSlice(c.Args[0])
			d2, lo2, hi2 := t.dataSlice(c.Args[1])
			if d1 != d2 || lo1 != 0 || hi1 != 16 || lo2 != 0 || hi2 != 16 {
				t.unsupported(c, "cipher call (only alg.Encrypt(d[:], d[:]) on one whole LabelData)")
			}
			return d1, "(π " + leanVar(d1) + ")"
		}
	}
	callee, recv := t.resolve(c)
	t.useCallee(c, callee)
	if callee.result != tNone {
		t.fail(c.Pos(), "unsupported: result of %s is discarded", callee.tgt)
	}
	args := t.args(c, callee)
	wrap := func(call string) string {
		if callee.hasPanic {
			tmp := t.tmp("c")
			t.pending = append(t.pending, pend{tmp: tmp, call: call})
			return tmp
		}
		return call
	}
	if callee.recvPtr {
		id, ok := recv.(*ast.Ident)
		if !ok || t.env[id.Name] != callee.params[0].t {
			t.unsupported(c, "pointer-receiver method call on something that is not a variable of the receiver type")
		}
		t.readPtr(c.Pos(), id.Name)
		head := []string{callee.leanName, leanVar(id.Name)}
		if callee.stateful {
			if callee.result != tNone {
				t.fail(c.Pos(), "unsupported: results of %s are discarded", callee.tgt)
			}
			for _, m := range opaqueMethodList(callee.params[0].t) {
				head = append(head, m.lean)
			}
		}
		return id.Name, wrap("(" + strings.Join(append(head, args...), " ") + ")")
	}
	// value receiver (or plain function) writing through its single out parameter
	ps := callee.params
	parts := []string{callee.leanName}
	if callee.hasRecv {
		parts = append(parts, paren(t.typed(recv, callee.params[0].t)))
		ps = ps[1:]
	}
	out := ""
	for i, p := range ps {
		if p.name == callee.outVar {
			id, ok := c.Args[i].(*ast.Ident)
			if !ok {
				t.unsupported(c.Args[i], "argument that the callee writes (must be a variable)")
			}
			out = id.Name
		}
	}
	if out == "" {
		t.fail(c.Pos(), "call of %s has no effect", callee.tgt)
	}
	return out, wrap("(" + strings.Join(append(parts, args...), " ") + ")")
}

// ----------------------------------------------------------------- printing

func (g *gen) emit() (string, string, []string) {
	var b, rep strings.Builder
	own := map[string]bool{}
	for _, tg := range g.grp.targets {
		own[tg.String()] = true
	}
	b.WriteString("/-\n")
	fmt.Fprintf(&b, "GENERATED by harness/cmd/gofacts (group %s) from %s — do not edit.\n\n", g.grp.name, g.repo)
	b.WriteString("T1 leaf translator (DESIGN.md 1.3): one definition per Go function, regenerated\n")
	b.WriteString("from the current source on every run of checks/t1.py; tied to the hand-written\n")
	fmt.Fprintf(&b, "models by %s.\n", g.grp.ties)
	b.WriteString("Representation of the Go types: MpcVerif/Gen/Prelude.lean.\n\n")
	b.WriteString("Source hashes (first 8 bytes of the sha256 of the declaration text):\n")
	sort.Strings(g.types)
	for _, l := range g.types {
		b.WriteString(l + "\n")
	}
	for _, f := range g.done {
		dep := ""
		if !own[f.tgt.String()] {
			dep = "   (callee, listed in another group)"
		}
		fmt.Fprintf(&b, "  %-22s func %-28s %s%s\n", f.pkg.pathOf[f.file], f.tgt.key(), f.hash, dep)
	}
	b.WriteString("-/\nimport MpcVerif.Gen.Prelude\n\nset_option linter.unusedVariables false\n\n")
	fmt.Fprintf(&b, "namespace %s\nopen Mpc.Gen\n\n", g.grp.ns)
	for _, f := range g.done {
		rt := f.result
		if rt == tNone {
			for _, p := range f.params {
				if p.name == f.outVar {
					rt = p.t
				}
			}
		}
		rts := rt.lean()
		if f.result != tNone {
			rts = f.resultLean()
		}
		opt := f.hasPanic || f.errRes
		if opt {
			rts = "Option (" + rts + ")"
		}
		fmt.Fprintf(&b, "/-- `%s` %s (source hash %s)", f.pkg.pathOf[f.file], f.tgt, f.hash)
		if f.result == tNone {
			fmt.Fprintf(&b, "; value = `%s` after the call", f.outVar)
		}
		if f.hasPanic {
			b.WriteString("; `none` = panic")
		}
		if f.errRes {
			b.WriteString("; `none` = a non-nil error is returned")
		}
		if len(f.scratch) > 0 {
			fmt.Fprintf(&b, "; final content of scratch `%s` dropped", strings.Join(f.scratch, ", "))
		}
		for i, w := range f.opaqueWhy {
			fmt.Fprintf(&b, ";\n`large'%d` = whatever the code outside the subset computes (%s)", i+1,
				strings.ReplaceAll(strings.ReplaceAll(w, "-/", "- /"), "/-", "/ -"))
		}
		b.WriteString("\n```go\n" + strings.ReplaceAll(strings.ReplaceAll(f.src, "-/", "- /"), "/-", "/ -") + "\n```\n-/\n")
		fmt.Fprintf(&b, "def %s", f.leanName)
		for i, p := range f.params {
			n := leanVar(p.name)
			if p.t == tCipher {
				n = "π"
			}
			fmt.Fprintf(&b, " (%s : %s)", n, p.t.lean())
			if i == 0 && f.stateful {
				for _, m := range opaqueMethodList(p.t) {
					fmt.Fprintf(&b, " (%s : %s)", m.lean, m.typ(p.t))
				}
			}
		}
		for i := 1; i <= f.nOpaque; i++ {
			typ := f.opaqueTyp[i-1]
			if typ == "" {
				typ = rts
			}
			fmt.Fprintf(&b, " (large'%d : %s)", i, typ)
		}
		fmt.Fprintf(&b, " : %s :=\n", rts)
		printNode(&b, f.body, "  ", opt)
		b.WriteString("\n")
		fmt.Fprintf(&rep, "translated %-30s %s -> %s.%s", f.tgt, f.hash, g.grp.ns, f.leanName)
		if f.nOpaque > 0 {
			fmt.Fprintf(&rep, " opaque=%d", f.nOpaque)
		}
		rep.WriteString("\n")
	}
	fmt.Fprintf(&b, "end %s\n", g.grp.ns)
	return b.String(), rep.String(), nil
}

func proj(tmp string, i, n int) string {
	if n == 1 {
		return tmp
	}
	s := tmp
	for k := 0; k < i; k++ {
		s += ".2"
	}
	if i < n-1 {
		s += ".1"
	}
	return s
}

func printNode(b *strings.Builder, n node, ind string, opt bool) {
	switch n := n.(type) {
	case nLet:
		fmt.Fprintf(b, "%slet %s : %s := %s\n", ind, n.name, n.typ, n.val)
		printNode(b, n.body, ind, opt)
	case nJoin:
		name, typ := n.names[0], n.typs[0]
		if len(n.names) > 1 {
			name, typ = n.tmp, strings.Join(n.typs, " × ")
		}
		fmt.Fprintf(b, "%slet %s : %s :=\n%s  if %s then\n", ind, name, typ, ind, n.cond)
		printNode(b, n.a, ind+"    ", opt)
		fmt.Fprintf(b, "%s  else\n", ind)
		printNode(b, n.b, ind+"    ", opt)
		if len(n.names) > 1 {
			for i := range n.names {
				fmt.Fprintf(b, "%slet %s : %s := %s\n", ind, n.names[i], n.typs[i], proj(n.tmp, i, len(n.names)))
			}
		}
		printNode(b, n.body, ind, opt)
	case nIf:
		fmt.Fprintf(b, "%sif %s then\n", ind, n.cond)
		printNode(b, n.a, ind+"  ", opt)
		fmt.Fprintf(b, "%selse\n", ind)
		printNode(b, n.b, ind+"  ", opt)
	case nLeaf:
		if n.final && opt {
			fmt.Fprintf(b, "%ssome %s\n", ind, paren(n.expr))
		} else {
			fmt.Fprintf(b, "%s%s\n", ind, n.expr)
		}
	case nPanic:
		fmt.Fprintf(b, "%snone\n", ind)
	case nOpaque:
		fmt.Fprintf(b, "%s%s\n", ind, n.name)
	case nLoop:
		if n.optSt {
			// general loop whose body can panic
			cnt := n.nexpr
			if cnt == "" {
				cnt = fmt.Sprintf("%d", n.n)
			}
			fmt.Fprintf(b, "%slet %s : Option (%s) :=\n", ind, n.tmp, n.styp)
			fmt.Fprintf(b, "%s  (List.range %s).foldl (fun (%s? : Option (%s)) (%s : Nat) =>\n", ind, paren(cnt), n.st, n.styp, n.k)
			in2 := ind + "    "
			fmt.Fprintf(b, "%sOption.elim %s? none (fun (%s : %s) =>\n", in2, n.st, n.st, n.styp)
			in2 += "  "
			if n.skip != "" {
				fmt.Fprintf(b, "%sif %s then some %s else\n", in2, n.skip, n.st)
			}
			for _, p := range n.pre {
				fmt.Fprintf(b, "%slet %s : %s := %s\n", in2, p[0], p[1], p[2])
			}
			printNode(b, n.body, in2, opt)
			fmt.Fprintf(b, "%s  )) (some %s)\n", ind, paren(n.init))
			printNode(b, n.after, ind, opt)
			return
		}
		cnt := fmt.Sprintf("%d", n.n)
		if n.nexpr != "" {
			cnt = paren(n.nexpr)
		}
		fmt.Fprintf(b, "%slet %s : %s :=\n", ind, n.tmp, n.styp)
		fmt.Fprintf(b, "%s  (List.range %s).foldl (fun (%s : %s) (%s : Nat) =>\n", ind, cnt, n.st, n.styp, n.k)
		in2 := ind + "    "
		if n.skip != "" {
			fmt.Fprintf(b, "%sif %s then %s else\n", in2, n.skip, n.st)
		}
		for _, p := range n.pre {
			fmt.Fprintf(b, "%slet %s : %s := %s\n", in2, p[0], p[1], p[2])
		}
		printNode(b, n.body, in2, opt)
		fmt.Fprintf(b, "%s  ) %s\n", ind, n.init)
		printNode(b, n.after, ind, opt)
	case nMatch:
		// Option.elim instead of `match`: simp/dsimp reduce a match by evaluating its
		// discriminant (here a 64-step fold)
		fmt.Fprintf(b, "%sOption.elim (%s)\n%s  (\n", ind, n.scrut, ind)
		printNode(b, n.b, ind+"    ", opt)
		fmt.Fprintf(b, "%s  )\n%s  (fun %s =>\n", ind, ind, n.v)
		printNode(b, n.a, ind+"    ", opt)
		fmt.Fprintf(b, "%s  )\n", ind)
	default:
		panic(fmt.Sprintf("printNode: %T", n))
	}
}

package main

// Groups of the T1 leaf translator: one generated file Gen/Leaf<name>.lean per
// group, owned by the property check whose model the functions belong to
// (checks/t1.py).  Every listed function is REQUIRED: a missing function is a
// broken tie.  A function of one group may call a function of another group;
// the callee is then emitted into the caller's file as well (each generated
// file is self-contained apart from Gen/Prelude.lean).

type group struct {
	name    string
	ns      string // Lean namespace of the generated definitions
	ties    string // the tie module(s), for the header of the generated file
	targets []target
}

var groups = []group{
	{"C01", "Mpc.Gen", "MpcVerif/Proofs/GenTie.lean", []target{
		{"ot", "Label", "Equal"},
		{"ot", "", "NewTweak"},
		{"ot", "Label", "S"},
		{"ot", "Label", "SetS"},
		{"ot", "Label", "Mul2"},
		{"ot", "Label", "Mul4"},
		{"ot", "Label", "Xor"},
		{"ot", "Label", "And"},
		{"ot", "Label", "GetData"},
		{"ot", "Label", "SetData"},
		{"ot", "Label", "Bit"},
		{"ot", "Label", "SetBit"},
		{"circuit", "", "idxUnary"},
		{"circuit", "", "idx"},
		{"circuit", "", "makeK"},
		{"circuit", "", "makeKHalf"},
		{"circuit", "", "encrypt"},
		{"circuit", "", "decrypt"},
		{"circuit", "", "encryptHalf"},
		{"circuit", "", "LabelForBit"},
	}},
	{"C16", "Mpc.Gen.C16", "MpcVerif/Proofs/GenTieC16.lean", []target{
		{"circuit", "", "BitFromLabel"},
	}},
	{"C15", "Mpc.Gen.C15", "MpcVerif/Proofs/GenTieC15.lean", []target{
		{"ot", "", "clmul64"},
		{"ot", "", "mul128Generic"},
	}},
	{"C13", "Mpc.Gen.C13", "MpcVerif/Proofs/GenTieC13.lean", []target{
		{"circuit", "", "bitLen"},
	}},
}

// Targets in which code outside the subset may become an opaque parameter
// large'N (translate_ext.go): the large (math/big, circuit) paths of mpa.Int.
var opaqueOK = map[string]bool{}

func init() {
	groups = append(groups,
		group{"C10", "Mpc.Gen.C10", "MpcVerif/Proofs/GenTieC10.lean", []target{
			{"gmw", "", "copyOf"},
			{"gmw", "", "bit"},
			{"gmw", "", "setBit"},
			{"gmw", "", "xorBitvec"},
			{"gmw", "", "expand"},
			{"gmw", "", "expandClear"},
		}},
	)
}

func init() {
	var ts []target
	for _, n := range []string{"isSmall", "small", "setSmall", "Bit", "BitLen", "Int64", "Cmp", "Sign",
		"Add", "Sub", "Mul", "Div", "Mod", "And", "AndNot", "Or", "Xor", "Lsh", "Rsh"} {
		tg := target{mpaDir, "Int", n}
		ts = append(ts, tg)
		switch n {
		case "isSmall", "small", "setSmall":
		default:
			opaqueOK[tg.String()] = true // the large path: math/big and evaluated circuits
		}
	}
	groups = append(groups, group{"C12", "Mpc.Gen.C12", "MpcVerif/Proofs/GenTieC12.lean", ts})
}

func init() {
	var ts []target
	for _, n := range []string{"NeedSpace", "SendByte", "SendUint16", "SendUint32", "ReceiveByte", "ReceiveUint16", "ReceiveUint32"} {
		ts = append(ts, target{"p2p", "Conn", n})
	}
	groups = append(groups, group{"C11", "Mpc.Gen.C11", "MpcVerif/Proofs/GenTieC11.lean", ts})
}

// Targets whose value also contains the final content of the slice parameter they
// write (a function with a result that is called for its effect on the slice).
var alsoOutOK = map[string]bool{"ot.xor": true}

func init() {
	groups = append(groups,
		group{"C06", "Mpc.Gen.C06", "MpcVerif/Proofs/GenTieC06.lean", []target{{"ot", "", "xor"}}},
		group{"C20", "Mpc.Gen.C20", "MpcVerif/Proofs/GenTieC20.lean", []target{{"vole", "", "bytes32"}}},
	)
}

func init() {
	groups = append(groups,
		group{"C18", "Mpc.Gen.C18", "MpcVerif/Proofs/GenTieC18.lean", []target{{"sha2pc", "", "pointSign"}}},
	)
}

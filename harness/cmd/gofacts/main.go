// gofacts: source-level ties between /repo and the Lean models.
//
//	gofacts translate -repo DIR -group G -out FILE
//
// Mode `translate` (DESIGN.md 1.3, "T1 leaf translator") parses the CURRENT
// source of a fixed list of small straight-line Go functions of the packages
// ot and circuit with go/parser and emits one Lean 4 definition per function
// of group G (groups.go; namespace Mpc.Gen[.G], file lean/MpcVerif/Gen/Leaf<G>.lean).
// The proofs in lean/MpcVerif/Proofs/GenTie*.lean show that every generated definition equals
// the hand-written model, so a semantic edit of such a function breaks a proof
// obligation at `lake build` time.
//
// The supported Go subset is deliberately tiny (see translate.go).  Anything
// outside it makes the translator FAIL (exit status 1, message naming the
// construct and its position): a failed translation is a broken tie and is
// never skipped.
package main

import (
	"flag"
	"fmt"
	"os"
)

func usage() {
	fmt.Fprintf(os.Stderr, "usage: gofacts translate [-repo DIR] [-group G] [-out FILE]\n       gofacts callseq -repo DIR -pkg DIR -func NAME -methods A,B,...\n")
	os.Exit(2)
}

func main() {
	if len(os.Args) < 2 {
		usage()
	}
	switch os.Args[1] {
	case "translate":
		fs := flag.NewFlagSet("translate", flag.ExitOnError)
		repo := fs.String("repo", "/repo", "root of the repository under test")
		out := fs.String("out", "-", "output Lean file (- = stdout)")
		grp := fs.String("group", "C01", "group of functions to translate (see groups.go)")
		fs.Parse(os.Args[2:])
		text, report, errs := translateAll(*repo, *grp)
		if len(errs) > 0 {
			for _, e := range errs {
				fmt.Fprintf(os.Stderr, "gofacts translate: %s\n", e)
			}
			fmt.Fprintf(os.Stderr, "gofacts translate: FAILED (%d error(s)); no output written\n", len(errs))
			os.Exit(1)
		}
		if *out == "-" || *out == "" {
			os.Stdout.WriteString(text)
		} else {
			if err := os.WriteFile(*out, []byte(text), 0o644); err != nil {
				fmt.Fprintf(os.Stderr, "gofacts translate: %v\n", err)
				os.Exit(1)
			}
			os.Stdout.WriteString(report)
		}
	case "callseq":
		callseqMain(os.Args[2:])
	default:
		usage()
	}
}

package main

// Extensions of the T1 leaf translator, part 2: slice and struct-field
// assignment, copy / clear, methods that return their receiver.

import (
	"fmt"
	"go/ast"
	"strings"
)

// sliceBind: the slice variable id is bound to the value of rhs.  `a = b` moves b
// (both would refer to the same array); a view b[lo:hi] is only a value when neither
// side is written in this function (checked for b in exprExt).
func (t *tr) sliceBind(id *ast.Ident, rhs ast.Expr, vt ty) {
	if !vt.isSlice() {
		return
	}
	rhs = unparen(rhs)
	switch r := rhs.(type) {
	case *ast.Ident:
		if _, isVar := t.env[r.Name]; isVar && r.Name != id.Name {
			t.moved[r.Name] = true
		}
	case *ast.SliceExpr:
		if t.written[id.Name] {
			t.fail(rhs.Pos(), "unsupported: `%s` is a view of `%s` and is written in this function", id.Name, clip(t.src(r.X)))
		}
	}
	delete(t.moved, id.Name)
}

// indexAssign: a[i] = v (a: slice variable, or slice field of a struct variable);
// returns the variable to rebind and its new value.
func (t *tr) indexAssign(l *ast.IndexExpr, rhs ast.Expr, at ast.Node) (string, string) {
	as, st := t.expr(l.X, tNone)
	if !st.isSlice() {
		t.unsupported(l, "assignment target")
	}
	is, it, lit := t.index(l.Index)
	val := t.typedOp(rhs, st.elem(), at)
	t.indexGuard(as, is, it, lit)
	upd := fmt.Sprintf("(%s.setIfInBounds %s.toNat %s)", pdot(as), pdot(is), pdot(val))
	switch x := l.X.(type) {
	case *ast.Ident:
		return x.Name, upd
	case *ast.SelectorExpr:
		if v, ok := x.X.(*ast.Ident); ok && t.env[v.Name].isStruct() {
			i, _ := t.fieldIndex(t.env[v.Name], x.Sel.Name)
			return v.Name, withField(t.env[v.Name], leanVar(v.Name), i, upd)
		}
	}
	t.unsupported(l, "assignment target")
	return "", ""
}

func (t *tr) isParam(name string) bool {
	_, ok := t.env0[name]
	return ok
}

func unparen(e ast.Expr) ast.Expr {
	for {
		p, ok := e.(*ast.ParenExpr)
		if !ok {
			return e
		}
		e = p.X
	}
}

// returnsReceiver: a pointer-receiver method of a struct type whose only result is
// a pointer to the same type.  Its value is the receiver after the call; every
// `return` must return the receiver variable (anything else is outside the subset).
func (t *tr) returnsReceiver(d *ast.FuncDecl) bool {
	f := t.f
	if !f.recvPtr || !f.params[0].t.isStruct() {
		return false
	}
	r := d.Type.Results
	if r == nil || len(r.List) != 1 || len(r.List[0].Names) != 0 {
		return false
	}
	st, ok := r.List[0].Type.(*ast.StarExpr)
	if !ok {
		return false
	}
	id, ok := st.X.(*ast.Ident)
	return ok && id.Name == recvHome[f.params[0].t][1]
}

// copyDst: the destination of copy / PutUintNN: a slice variable (or slice field of a
// struct variable), optionally re-sliced `x[lo:]` / `x[lo:hi]`.  Returns the variable
// to rebind, a function building its new value from the new slice value, the Lean
// expression of the whole slice, the offset (Nat) and the length limit (Nat or "").
func (t *tr) copyDst(e ast.Expr) (name string, rebuild func(string) string, whole, off, lim string) {
	e = unparen(e)
	off = "0"
	var se *ast.SliceExpr
	if x, ok := e.(*ast.SliceExpr); ok {
		se = x
		e = unparen(x.X)
	}
	var st ty
	switch x := e.(type) {
	case *ast.Ident:
		if !t.env[x.Name].isSlice() {
			t.unsupported(e, "copy destination")
		}
		whole, st = t.expr(x, tNone)
		name, rebuild = x.Name, func(v string) string { return v }
	case *ast.SelectorExpr:
		v, ok := x.X.(*ast.Ident)
		if !ok || !t.env[v.Name].isStruct() {
			t.unsupported(e, "copy destination")
		}
		whole, st = t.expr(x, tNone)
		if !st.isSlice() {
			t.unsupported(e, "copy destination")
		}
		i, _ := t.fieldIndex(t.env[v.Name], x.Sel.Name)
		sty := t.env[v.Name]
		name, rebuild = v.Name, func(nv string) string { return withField(sty, leanVar(v.Name), i, nv) }
	default:
		t.unsupported(e, "copy destination")
	}
	_ = st
	if se != nil {
		if se.Slice3 {
			t.unsupported(se, "3-index slice")
		}
		hi := pdot(whole) + ".size"
		if se.High != nil {
			hs, ht, lit := t.index(se.High)
			if ht.signed() && !lit {
				t.pendCond(fmt.Sprintf("BitVec.slt %s 0#%d", pdot(hs), ht.width()))
			}
			hi = pdot(hs) + ".toNat"
			t.pendCond(fmt.Sprintf("decide (%s.size < %s)", pdot(whole), hi))
			lim = hi
		}
		if se.Low != nil {
			ls, lt, lit := t.index(se.Low)
			if lt.signed() && !lit {
				t.pendCond(fmt.Sprintf("BitVec.slt %s 0#%d", pdot(ls), lt.width()))
			}
			off = pdot(ls) + ".toNat"
			t.pendCond(fmt.Sprintf("decide (%s < %s)", hi, off))
		}
	}
	return
}

// callStmtExt: builtin calls executed for their effect.
func (t *tr) callStmtExt(c *ast.CallExpr) (string, string, bool) {
	id, ok := c.Fun.(*ast.Ident)
	if !ok {
		return "", "", false
	}
	if _, isVar := t.env[id.Name]; isVar {
		return "", "", false
	}
	switch id.Name {
	case "copy":
		if len(c.Args) != 2 {
			t.unsupported(c, "copy")
		}
		name, rebuild, whole, off, lim := t.copyDst(c.Args[0])
		t.viewOK = true
		src, st := t.expr(c.Args[1], tNone)
		t.viewOK = false
		if !st.isSlice() {
			t.unsupported(c.Args[1], "copy source")
		}
		if lim != "" {
			return name, rebuild(fmt.Sprintf("(copyAtLim %s %s %s %s)", pdot(whole), off, lim, pdot(src))), true
		}
		return name, rebuild(fmt.Sprintf("(copyAt %s %s %s)", pdot(whole), off, pdot(src))), true
	case "clear":
		if len(c.Args) != 1 {
			t.unsupported(c, "clear")
		}
		x, ok := unparen(c.Args[0]).(*ast.Ident)
		if !ok || !t.env[x.Name].isSlice() {
			t.unsupported(c, "clear (only of a slice variable)")
		}
		as, at := t.expr(x, tNone)
		return x.Name, fmt.Sprintf("(Array.replicate %s.size 0#%d)", pdot(as), at.elem().width()), true
	}
	return "", "", false
}

// pdot: paren for a term that is followed by `.field`: a literal `32#64` needs parentheses there.
func pdot(s string) string {
	p := paren(s)
	if isAtom(p) && strings.Contains(p, "#") {
		return "(" + p + ")"
	}
	return p
}

package main

// Reference side of the C13 harness: canonical tokens of the line protocol,
// the harness's own definition of the wire encoding (little-endian two's
// complement per element, elements and members in declaration order), and
// helpers to run the real code with panics recovered.

import (
	"fmt"
	"math/big"
	"reflect"
	"strings"

	"github.com/markkurossi/mpc/circuit"
	"github.com/markkurossi/mpc/types"

	"verifharness/hxlib"
)

var tagLetter = map[types.Type]string{
	types.TUndefined: "z", types.TBool: "b", types.TInt: "i", types.TUint: "u", types.TFloat: "f",
	types.TString: "s", types.TStruct: "t", types.TArray: "a", types.TSlice: "l", types.TPtr: "p", types.TNil: "n",
}

func infoTok(t types.Info) string {
	s := fmt.Sprintf("%s%d.%d", tagLetter[t.Type], t.Bits, t.ArraySize)
	if t.ElementType != nil {
		s += "[" + infoTok(*t.ElementType) + "]"
	}
	return s
}

func argTok(a circuit.IOArg) string {
	s := infoTok(a.Type)
	if len(a.Compound) > 0 {
		var parts []string
		for _, m := range a.Compound {
			parts = append(parts, argTok(m))
		}
		s += "{" + strings.Join(parts, ";") + "}"
	}
	return s
}

// strTok renders an input string with the outcome of big.Int.SetString(s, 0)
// (which the model takes as given).
func strTok(s string) string {
	v, ok := new(big.Int).SetString(s, 0)
	if !ok {
		return hxlib.Hex([]byte(s)) + ":!"
	}
	return hxlib.Hex([]byte(s)) + ":" + v.String()
}

func strsTok(ss []string) string {
	if len(ss) == 0 {
		return "-"
	}
	var parts []string
	for _, s := range ss {
		parts = append(parts, strTok(s))
	}
	return strings.Join(parts, ",")
}

func valTok(v interface{}) string {
	switch x := v.(type) {
	case nil:
		return "n"
	case bool:
		if x {
			return "b1"
		}
		return "b0"
	case int8:
		return fmt.Sprintf("i8:%d", x)
	case int16:
		return fmt.Sprintf("i16:%d", x)
	case int32:
		return fmt.Sprintf("i32:%d", x)
	case int64:
		return fmt.Sprintf("i64:%d", x)
	case uint8:
		return fmt.Sprintf("u8:%d", x)
	case uint16:
		return fmt.Sprintf("u16:%d", x)
	case uint32:
		return fmt.Sprintf("u32:%d", x)
	case uint64:
		return fmt.Sprintf("u64:%d", x)
	case []byte:
		return "y:" + hxlib.Hex(x)
	default:
		return "x"
	}
}

func valsTok(vs []interface{}) string {
	if len(vs) == 0 {
		return "-"
	}
	var parts []string
	for _, v := range vs {
		parts = append(parts, valTok(v))
	}
	return strings.Join(parts, ",")
}

func errKind(err error) string {
	m := err.Error()
	switch {
	case strings.HasPrefix(m, "invalid amount of arguments"):
		return "count"
	case strings.HasPrefix(m, "invalid input"):
		return "input"
	case strings.HasPrefix(m, "invalid bool constant"):
		return "bool"
	case strings.HasPrefix(m, "too many values"):
		return "toomany"
	case strings.HasPrefix(m, "unsupported input type"):
		return "unsupported"
	case strings.HasPrefix(m, "unsupported array element type"):
		return "unsupported-elem"
	case strings.HasPrefix(m, "unsupport input"):
		return "unsupported"
	case strings.HasPrefix(m, "invalid input:"):
		return "input"
	case strings.Contains(m, "value out of range"):
		return "atoi"
	}
	if len(m) > 60 {
		m = m[:60]
	}
	return "other:" + strings.ReplaceAll(m, " ", "_")
}

// guard runs f with panics recovered; a panic yields (nil, true).
func guard(f func()) (panicked bool, msg string) {
	defer func() {
		if e := recover(); e != nil {
			panicked = true
			msg = fmt.Sprint(e)
			if len(msg) > 200 {
				msg = msg[:200]
			}
		}
	}()
	f()
	return
}

// ---------------------------------------------------------------- values

// leafVal is a mathematical value of a leaf argument.
type leafVal struct {
	kind  string     // "bool", "int", "arr"
	b     bool       // bool
	z     *big.Int   // int: the mathematical value
	elems []*big.Int // arr: the provided elements (mathematical values), len <= ArraySize
}

func pow2(n int) *big.Int { return new(big.Int).Lsh(big.NewInt(1), uint(n)) }

// twos returns the w low bits of the two's complement form of z.  It uses
// Euclidean Mod only, not big.Int.Bit on negative numbers.
func twos(z *big.Int, w int) []bool {
	m := new(big.Int).Mod(z, pow2(w))
	out := make([]bool, w)
	for i := 0; i < w; i++ {
		out[i] = m.Bit(i) == 1
	}
	return out
}

// refLeaf is the harness's definition of the wires of one leaf argument.
func refLeaf(t types.Info, v leafVal) []bool {
	switch v.kind {
	case "bool":
		return []bool{v.b}
	case "int":
		return twos(v.z, int(t.Bits))
	case "arr":
		w := int(t.ElementType.Bits)
		var out []bool
		for j := 0; j < int(t.ArraySize); j++ {
			if j < len(v.elems) {
				out = append(out, twos(v.elems[j], w)...)
			} else {
				out = append(out, make([]bool, w)...)
			}
		}
		return out
	}
	return nil
}

func wireOf(z *big.Int, n int) []bool {
	out := make([]bool, n)
	for i := 0; i < n; i++ {
		out[i] = z.Bit(i) == 1
	}
	return out
}

func bitsToNat(b []bool) *big.Int {
	v := new(big.Int)
	for i, x := range b {
		if x {
			v.SetBit(v, i, 1)
		}
	}
	return v
}

func firstDiff(a, b []bool) int {
	for i := range a {
		if i >= len(b) || a[i] != b[i] {
			return i
		}
	}
	return -1
}

func inRange(z *big.Int, signed bool, w int) bool {
	if w == 0 {
		return z.Sign() == 0
	}
	if signed {
		lo := new(big.Int).Neg(pow2(w - 1))
		return z.Cmp(lo) >= 0 && z.Cmp(pow2(w-1)) < 0
	}
	return z.Sign() >= 0 && z.Cmp(pow2(w)) < 0
}

// ---------------------------------------------------------------- result rendering

func widthName(v interface{}) string {
	return reflect.TypeOf(v).String()
}

// rvalTok renders the value returned by mpc.Result canonically.
func rvalTok(v interface{}) string {
	switch x := v.(type) {
	case string:
		// default branch of Result returns "<value> (<type>)"
		return "S:" + x
	case uint8:
		return fmt.Sprintf("u8:%d", x)
	case uint16:
		return fmt.Sprintf("u16:%d", x)
	case uint32:
		return fmt.Sprintf("u32:%d", x)
	case uint64:
		return fmt.Sprintf("u64:%d", x)
	case int8:
		return fmt.Sprintf("i8:%d", x)
	case int16:
		return fmt.Sprintf("i16:%d", x)
	case int32:
		return fmt.Sprintf("i32:%d", x)
	case int64:
		return fmt.Sprintf("i64:%d", x)
	case *big.Int:
		if x == nil {
			return "big:nil"
		}
		return "big:" + x.String()
	case bool:
		if x {
			return "b:1"
		}
		return "b:0"
	}
	rv := reflect.ValueOf(v)
	if rv.IsValid() && rv.Kind() == reflect.Slice {
		name := rv.Type().Elem().String()
		if name == "*big.Int" {
			name = "big"
		}
		var parts []string
		for i := 0; i < rv.Len(); i++ {
			e := rv.Index(i).Interface()
			if s, ok := e.(string); ok {
				parts = append(parts, "s:"+hxlib.Hex([]byte(s)))
			} else {
				parts = append(parts, rvalTok(e))
			}
		}
		return "[" + name + ":" + strings.Join(parts, ";") + "]"
	}
	return fmt.Sprintf("?%T", v)
}

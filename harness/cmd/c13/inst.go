package main

// Size inference with struct members (types.Info.InstantiateWithSizes, the
// argument loop of compiler/ast Package.Compile, flattenStruct) and the end-
// to-end path of a `main` argument:
//
//	text -> circuit.InputSizes -> compiler.Compile -> circ.Inputs[0].Parse /
//	Set -> circ.Compute -> mpc.Result
//
// Two op kinds, both judged by oracles that are functions of the op line
// alone (so a correspondence disagreement or a replay file can be re-judged
// by `c13 judge`):
//
//	c13 insts   <ty> <sizes>   the REAL InstantiateWithSizes on a type tree
//	c13 mainarg <ty> <strs>    a REAL compile of a synthesized MPCL program
//	                           whose garbler argument has the declared type
//
// ty := <tag><bits>.<arraySize>('c'|'u')@<offset> [ '[' ty ']' | '{' ty;.. '}' ]

import (
	"bufio"
	"encoding/hex"
	"fmt"
	"math/big"
	"os"
	"strings"

	"github.com/markkurossi/mpc"
	"github.com/markkurossi/mpc/circuit"
	"github.com/markkurossi/mpc/compiler"
	"github.com/markkurossi/mpc/compiler/utils"
	"github.com/markkurossi/mpc/types"

	"verifharness/hxlib"
)

// ---------------------------------------------------------------- tokens

func tyTok(t types.Info) string {
	fl := "u"
	if t.IsConcrete {
		fl = "c"
	}
	s := fmt.Sprintf("%s%d.%d%s@%d", tagLetter[t.Type], t.Bits, t.ArraySize, fl, t.Offset)
	if t.Type == types.TStruct {
		var parts []string
		for _, f := range t.Struct {
			parts = append(parts, tyTok(f.Type))
		}
		return s + "{" + strings.Join(parts, ";") + "}"
	}
	if t.ElementType != nil {
		s += "[" + tyTok(*t.ElementType) + "]"
	}
	return s
}

var letterTag = func() map[byte]types.Type {
	m := map[byte]types.Type{}
	for k, v := range tagLetter {
		m[v[0]] = k
	}
	return m
}()

type tokParser struct {
	s string
	p int
}

func (q *tokParser) nat() (int, bool) {
	st := q.p
	for q.p < len(q.s) && q.s[q.p] >= '0' && q.s[q.p] <= '9' {
		q.p++
	}
	if st == q.p || q.p-st > 9 {
		return 0, false
	}
	v := 0
	for _, c := range q.s[st:q.p] {
		v = 10*v + int(c-'0')
	}
	return v, true
}

func (q *tokParser) eat(c byte) bool {
	if q.p < len(q.s) && q.s[q.p] == c {
		q.p++
		return true
	}
	return false
}

// ty parses a type token; the flag/offset part is optional (the tokens of
// the older `inst` op have none: IsConcrete is then `defConc`).
func (q *tokParser) ty(defConc bool) (types.Info, bool) {
	var t types.Info
	if q.p >= len(q.s) {
		return t, false
	}
	tag, ok := letterTag[q.s[q.p]]
	if !ok {
		return t, false
	}
	q.p++
	t.Type = tag
	bits, ok := q.nat()
	if !ok || !q.eat('.') {
		return t, false
	}
	n, ok := q.nat()
	if !ok {
		return t, false
	}
	t.Bits, t.ArraySize = types.Size(bits), types.Size(n)
	t.IsConcrete = defConc
	if q.p < len(q.s) && (q.s[q.p] == 'c' || q.s[q.p] == 'u') {
		t.IsConcrete = q.s[q.p] == 'c'
		q.p++
		if !q.eat('@') {
			return t, false
		}
		off, ok := q.nat()
		if !ok {
			return t, false
		}
		t.Offset = types.Size(off)
	}
	if q.eat('[') {
		el, ok := q.ty(true)
		if !ok || !q.eat(']') {
			return t, false
		}
		t.ElementType = &el
		return t, true
	}
	if q.eat('{') {
		if tag != types.TStruct {
			return t, false
		}
		if q.eat('}') {
			return t, true
		}
		for {
			f, ok := q.ty(true)
			if !ok {
				return t, false
			}
			t.Struct = append(t.Struct, types.StructField{Name: fmt.Sprintf("f%d", len(t.Struct)), Type: f})
			if q.eat('}') {
				return t, true
			}
			if !q.eat(';') {
				return t, false
			}
		}
	}
	return t, tag != types.TStruct
}

func parseTyTok(s string, defConc bool) (types.Info, bool) {
	q := &tokParser{s: s}
	t, ok := q.ty(defConc)
	return t, ok && q.p == len(s)
}

func parseStrsTok(s string) ([]string, bool) {
	if s == "-" {
		return nil, true
	}
	var out []string
	for _, tok := range strings.Split(s, ",") {
		b, err := hex.DecodeString(strings.SplitN(tok, ":", 2)[0])
		if err != nil {
			return nil, false
		}
		out = append(out, string(b))
	}
	return out, true
}

func parseIntsTok(s string) ([]int, bool) {
	if s == "-" {
		return nil, true
	}
	var out []int
	for _, tok := range strings.Split(s, ",") {
		q := &tokParser{s: tok}
		v, ok := q.nat()
		if !ok || q.p != len(tok) {
			return nil, false
		}
		out = append(out, v)
	}
	return out, true
}

func cloneInfo(t types.Info) types.Info {
	c := t
	if t.ElementType != nil {
		e := cloneInfo(*t.ElementType)
		c.ElementType = &e
	}
	if t.Struct != nil {
		c.Struct = make([]types.StructField, len(t.Struct))
		for i, f := range t.Struct {
			c.Struct[i] = types.StructField{Name: f.Name, Type: cloneInfo(f.Type)}
		}
	}
	return c
}

// ---------------------------------------------------------------- the reference notion of "sized" and of the layout

func scalarTag(t types.Type) bool {
	return t == types.TBool || t == types.TInt || t == types.TUint || t == types.TFloat
}

// sizedRef: the declaration fixes the size of this non-struct type, there is
// nothing for the size inference to decide.
func sizedRef(t types.Info) bool {
	switch {
	case t.Type == types.TBool:
		return true
	case scalarTag(t.Type):
		return t.IsConcrete
	case t.Type == types.TArray:
		return t.IsConcrete
	}
	return false
}

type leafRef struct {
	t       types.Info // the leaf as declared
	path    string     // f1.f0 ...
	flatIdx int        // number of leaves before it = index of the input string it receives
	pathIdx int        // sum of the member positions along the path
	nested  bool       // some earlier member (at any level on the path) is a struct
}

func leavesOf(t types.Info) []leafRef {
	var out []leafRef
	var walk func(t types.Info, path string, pathIdx int, nested bool)
	walk = func(t types.Info, path string, pathIdx int, nested bool) {
		if t.Type != types.TStruct {
			out = append(out, leafRef{t: t, path: path, flatIdx: len(out), pathIdx: pathIdx, nested: nested})
			return
		}
		structBefore := nested
		for i, f := range t.Struct {
			p := fmt.Sprintf("f%d", i)
			if path != "" {
				p = path + "." + p
			}
			walk(f.Type, p, pathIdx+i, structBefore)
			if f.Type.Type == types.TStruct {
				structBefore = true
			}
		}
	}
	walk(t, "", 0, false)
	return out
}

func ceilDivI(a, b int) int { return (a + b - 1) / b }

// widthFromSize: the (Bits, ArraySize) an unsized leaf gets from size s.
func widthFromSize(t types.Info, s int) (int, int, bool) {
	switch t.Type {
	case types.TInt, types.TUint, types.TFloat:
		return s, int(t.ArraySize), true
	case types.TArray, types.TSlice:
		if t.ElementType == nil || t.ElementType.Bits <= 0 {
			return 0, 0, false
		}
		n := ceilDivI(s, int(t.ElementType.Bits))
		return n * int(t.ElementType.Bits), n, true
	}
	return 0, 0, false
}

func sameElem(a, b *types.Info) bool {
	if a == nil || b == nil {
		return a == nil && b == nil
	}
	return tyTok(*a) == tyTok(*b)
}

// judgeInst evaluates the instantiate relation on the REAL result: `before`
// is the type handed to InstantiateWithSizes(sizes), `after` what it left.
// Every clause holds for every type on which the call succeeds.
func judgeInst(o *hxlib.Out, idx int, op, via string, before, after types.Info, sizes []int) bool {
	base := func() map[string]any {
		return map[string]any{"case": idx, "op": op, "via": via, "declared": tyTok(before), "got": tyTok(after), "sizes": intsTok(sizes)}
	}
	// (1) shape: tags, member count and order, element types
	var shape func(a, b types.Info) bool
	shape = func(a, b types.Info) bool {
		if a.Type != b.Type || len(a.Struct) != len(b.Struct) || !sameElem(a.ElementType, b.ElementType) {
			return false
		}
		if a.Type == types.TStruct {
			for i := range a.Struct {
				if !shape(a.Struct[i].Type, b.Struct[i].Type) {
					return false
				}
			}
		}
		return true
	}
	if !shape(before, after) {
		f := base()
		failDedup(o, "c13-instantiate-changes-shape", f)
		return false
	}
	lb, la := leavesOf(before), leavesOf(after)
	ok := true
	// (2) identity on sized leaves
	for k, l := range lb {
		if sizedRef(l.t) && (l.t.Bits != la[k].t.Bits || l.t.ArraySize != la[k].t.ArraySize) {
			f := base()
			f["member"], f["path"], f["member_kind"] = k, l.path, kindName(l.t)
			f["member_declared"], f["member_got"] = infoTok(l.t), infoTok(la[k].t)
			if k < len(sizes) {
				f["size_entry"] = sizes[k]
				f["literal_class"] = sizeClass(sizes[k], int(l.t.Bits))
			}
			failDedup(o, "c13-instantiate-resizes-sized-member", f)
			ok = false
			break
		}
	}
	// (3) an unsized leaf is sized from the entry of the input it receives
	for k, l := range lb {
		if !ok {
			break
		}
		if sizedRef(l.t) {
			continue
		}
		wantB, wantN, can := 0, 0, false
		if l.flatIdx < len(sizes) {
			wantB, wantN, can = widthFromSize(l.t, sizes[l.flatIdx])
		}
		if can && int(la[k].t.Bits) == wantB && int(la[k].t.ArraySize) == wantN {
			continue
		}
		f := base()
		f["member"], f["path"], f["member_kind"] = k, l.path, kindName(l.t)
		f["member_got"] = infoTok(la[k].t)
		if can {
			f["want_bits"] = wantB
		}
		f["after_nested_struct"] = fmt.Sprint(l.flatIdx != l.pathIdx)
		fromPath := false
		if l.pathIdx < len(sizes) {
			if pb, pn, c := widthFromSize(l.t, sizes[l.pathIdx]); c && int(la[k].t.Bits) == pb && int(la[k].t.ArraySize) == pn {
				fromPath = true
			}
		}
		f["width_from_path_index"] = fmt.Sprint(fromPath)
		f["flat_index"], f["path_index"] = l.flatIdx, l.pathIdx
		failDedup(o, "c13-inferred-size-wrong", f)
		ok = false
	}
	// (4) layout: offsets are the running sums, a struct's Bits is the total
	var layout func(t types.Info, path string) bool
	layout = func(t types.Info, path string) bool {
		if t.Type != types.TStruct {
			return true
		}
		var sum types.Size
		for i, fld := range t.Struct {
			if fld.Type.Offset != sum || !layout(fld.Type, fmt.Sprintf("%s.f%d", path, i)) {
				return false
			}
			sum += fld.Type.Bits
		}
		return t.Bits == sum
	}
	if ok && !layout(after, "") {
		failDedup(o, "c13-instantiate-layout", base())
		ok = false
	}
	// (5) the result is concrete, the top-level offset is not touched
	if ok && (!after.Concrete() || after.Offset != before.Offset) {
		failDedup(o, "c13-instantiate-not-concrete", base())
		ok = false
	}
	return ok
}

func sizeClass(s, declared int) string {
	switch {
	case s == 0:
		return "empty"
	case s < declared:
		return "shorter"
	case s == declared:
		return "equal"
	}
	return "longer"
}

// declShaped: a type as TypeInfo.Resolve / defineType produce it for a
// declaration this harness can write down (used for "must not be rejected").
func declShaped(t types.Info, top bool) bool {
	switch t.Type {
	case types.TBool:
		return t.IsConcrete && t.Bits == 1 && t.ElementType == nil
	case types.TInt, types.TUint:
		return t.ElementType == nil && ((t.IsConcrete && t.Bits >= 1) || (!t.IsConcrete && t.Bits == 0))
	case types.TArray:
		if !t.IsConcrete || t.ElementType == nil {
			return false
		}
		el := *t.ElementType
		elOK := (el.Type == types.TInt || el.Type == types.TUint) && el.IsConcrete && el.Bits >= 1 && el.ElementType == nil
		if el.Type == types.TStruct {
			elOK = len(el.Struct) > 0 && el.Bits >= 1
			for _, f := range el.Struct {
				elOK = elOK && declShaped(f.Type, false) && sizedRef(f.Type) && f.Type.Type != types.TArray
			}
		}
		return elOK && t.Bits == t.ArraySize*el.Bits
	case types.TSlice:
		if t.IsConcrete || t.ElementType == nil || t.Bits != 0 || t.ArraySize != 0 {
			return false
		}
		el := *t.ElementType
		return (el.Type == types.TInt || el.Type == types.TUint) && el.IsConcrete && el.Bits >= 1 && el.ElementType == nil
	case types.TStruct:
		if len(t.Struct) == 0 || !t.IsConcrete {
			return false
		}
		var sum types.Size
		for _, f := range t.Struct {
			if !declShaped(f.Type, false) || f.Type.Offset != sum {
				return false
			}
			sum += f.Type.Bits
		}
		return t.Bits == sum
	}
	return false
}

// runInsts runs the real InstantiateWithSizes on a copy of t, emits the op
// and judges the outcome.
func runInsts(o *hxlib.Out, idx int, t types.Info, sizes []int) {
	op := fmt.Sprintf("c13 insts %s %s", tyTok(t), intsTok(sizes))
	tt := cloneInfo(t)
	var err error
	res := ""
	if p, _ := guard(func() { err = tt.InstantiateWithSizes(sizes) }); p {
		res = "err panic"
	} else if err != nil {
		res = "err unsupported"
		if strings.HasPrefix(err.Error(), "not enought sizes") {
			res = "err count"
		}
	} else {
		res = "ok " + tyTok(tt)
	}
	o.Op(op, res)
	o.Count("op_insts")
	o.Count("insts_" + strings.SplitN(res, " ", 3)[0] + "_" + errWord(res))
	if strings.HasPrefix(res, "ok ") {
		judgeInst(o, idx, op, "insts", t, tt, sizes)
		return
	}
	if declShaped(t, true) && len(sizes) >= len(leavesOf(t)) {
		failDedup(o, "c13-instantiate-rejects-valid", map[string]any{"case": idx, "op": op, "via": "insts", "result": res})
	}
}

// ---------------------------------------------------------------- declarations (MPCL source side)

// decl is a type as it is written in an MPCL program.
type decl struct {
	kind   string // "bool", "int", "arr", "slice", "struct"
	signed bool
	w      int     // int: width, 0 = unsized (`int` / `uint`)
	count  int     // arr: declared length
	el     *decl   // arr / slice: element ("int", or for arr a sized "struct")
	fields []*decl // struct
}

// toInfo: the types.Info that TypeInfo.Resolve / defineType give the declaration.
func (d *decl) toInfo() types.Info {
	switch d.kind {
	case "bool":
		return types.Info{Type: types.TBool, IsConcrete: true, Bits: 1}
	case "int":
		t := types.Info{Type: types.TUint, IsConcrete: d.w > 0, Bits: types.Size(d.w)}
		if d.signed {
			t.Type = types.TInt
		}
		return t
	case "arr":
		el := d.el.toInfo()
		return types.Info{Type: types.TArray, IsConcrete: true, Bits: types.Size(d.count) * el.Bits, ArraySize: types.Size(d.count), ElementType: &el}
	case "slice":
		el := d.el.toInfo()
		return types.Info{Type: types.TSlice, ElementType: &el}
	}
	t := types.Info{Type: types.TStruct, IsConcrete: true}
	for i, f := range d.fields {
		ft := f.toInfo()
		ft.Offset = t.Bits
		t.Struct = append(t.Struct, types.StructField{Name: fmt.Sprintf("f%d", i), Type: ft})
		t.Bits += ft.Bits
	}
	return t
}

// declOf inverts toInfo for decl-shaped types.
func declOf(t types.Info) *decl {
	switch t.Type {
	case types.TBool:
		return &decl{kind: "bool"}
	case types.TInt, types.TUint:
		w := 0
		if t.IsConcrete {
			w = int(t.Bits)
		}
		return &decl{kind: "int", signed: t.Type == types.TInt, w: w}
	case types.TArray:
		return &decl{kind: "arr", count: int(t.ArraySize), el: declOf(*t.ElementType)}
	case types.TSlice:
		return &decl{kind: "slice", el: declOf(*t.ElementType)}
	}
	d := &decl{kind: "struct"}
	for _, f := range t.Struct {
		d.fields = append(d.fields, declOf(f.Type))
	}
	return d
}

// program writes the MPCL program whose garbler argument `g` has the declared
// type and which returns every member that can be selected, then `e`.
func program(d *decl) (string, []int) {
	var defs strings.Builder
	nStruct := 0
	var tyName func(d *decl) string
	tyName = func(d *decl) string {
		switch d.kind {
		case "bool":
			return "bool"
		case "int":
			n := "uint"
			if d.signed {
				n = "int"
			}
			if d.w > 0 {
				n += fmt.Sprint(d.w)
			}
			return n
		case "arr":
			return fmt.Sprintf("[%d]%s", d.count, tyName(d.el))
		case "slice":
			return "[]" + tyName(d.el)
		}
		var fs []string
		for i, f := range d.fields {
			fs = append(fs, fmt.Sprintf("\tf%d %s\n", i, tyName(f)))
		}
		name := fmt.Sprintf("S%d", nStruct)
		nStruct++
		fmt.Fprintf(&defs, "type %s struct {\n%s}\n", name, strings.Join(fs, ""))
		return name
	}
	gType := tyName(d)
	var body strings.Builder
	var rets, retTypes []string
	var returned []int // flat leaf indices that are returned, in order
	leaf := 0
	nTmp := 0
	var walk func(d *decl, expr string)
	walk = func(d *decl, expr string) {
		if d.kind != "struct" {
			if !(d.kind == "arr" && d.el.kind == "struct") {
				rets = append(rets, expr)
				retTypes = append(retTypes, tyName2(d))
				returned = append(returned, leaf)
			}
			leaf++
			return
		}
		for i, f := range d.fields {
			sel := fmt.Sprintf("%s.f%d", expr, i)
			if f.kind == "struct" {
				tmp := fmt.Sprintf("v%d", nTmp)
				nTmp++
				fmt.Fprintf(&body, "\t%s := %s\n", tmp, sel)
				walk(f, tmp)
			} else {
				walk(f, sel)
			}
		}
	}
	walk(d, "g")
	rets = append(rets, "e")
	retTypes = append(retTypes, "uint8")
	src := fmt.Sprintf("package main\n\n%sfunc main(g %s, e uint8) (%s) {\n%s\treturn %s\n}\n",
		defs.String(), gType, strings.Join(retTypes, ", "), body.String(), strings.Join(rets, ", "))
	return src, returned
}

// probeProgram: the same argument type in a program that returns only `e`.
func probeProgram(d *decl) string {
	src, _ := program(d)
	head := src[:strings.Index(src, "func main(")]
	sig := src[strings.Index(src, "func main("):]
	sig = sig[:strings.Index(sig, ") (")+1]
	return head + sig + " uint8 {\n\treturn e\n}\n"
}

// tyName2: type name of a returnable (non-struct) leaf.
func tyName2(d *decl) string {
	switch d.kind {
	case "bool":
		return "bool"
	case "int":
		n := "uint"
		if d.signed {
			n = "int"
		}
		if d.w > 0 {
			n += fmt.Sprint(d.w)
		}
		return n
	case "arr":
		return fmt.Sprintf("[%d]%s", d.count, tyName2(d.el))
	}
	return "[]" + tyName2(d.el)
}

func (d *decl) leaves() []*decl {
	if d.kind != "struct" {
		return []*decl{d}
	}
	var out []*decl
	for _, f := range d.fields {
		out = append(out, f.leaves()...)
	}
	return out
}

// ---------------------------------------------------------------- the reference reading of a literal

func hex0x(s string) bool { return strings.HasPrefix(s, "0x") }

// writtenBits: the number of bits a number literal writes down: four per
// digit after "0x", otherwise the bit length of the value (the literal "0"
// is one bit; other spellings of zero such as "0b0" write no bit at all).
func writtenBits(s string, v *big.Int) int {
	if hex0x(s) {
		return 4 * (len(s) - 2)
	}
	if s == "0" {
		return 1
	}
	return v.BitLen()
}

func toSignedBig(p *big.Int, w int) *big.Int {
	if w > 0 && p.Bit(w-1) == 1 {
		return new(big.Int).Sub(p, pow2(w))
	}
	return new(big.Int).Set(p)
}

// refRead reads the literal of one leaf: the declared size of a sized leaf,
// the written size of an unsized one.  Returns the reference type of the leaf
// (what the instantiated argument must contain), its value, and a status:
// "ok", "toomany" (an array literal with more elements than declared: to be
// rejected by Parse), "invalid" (not a literal of this type).
func refRead(d *decl, s string) (types.Info, leafVal, string) {
	t := d.toInfo()
	switch d.kind {
	case "bool":
		switch s {
		case "0", "f", "false":
			return t, leafVal{kind: "bool", b: false}, "ok"
		case "1", "t", "true":
			return t, leafVal{kind: "bool", b: true}, "ok"
		}
		return t, leafVal{}, "invalid"
	case "int":
		v, ok := new(big.Int).SetString(s, 0)
		if !ok {
			return t, leafVal{}, "invalid"
		}
		if d.w == 0 {
			if v.Sign() < 0 {
				return t, leafVal{}, "invalid"
			}
			t.Bits = types.Size(writtenBits(s, v))
			t.IsConcrete = true
			if d.signed && v.BitLen() >= int(t.Bits) {
				// a positive number written without a leading zero bit does not fit the signed type of that
				// width (the sign issue of InputSizes is a separate, listed finding)
				return t, leafVal{}, "invalid"
			}
		} else if !inRange(v, d.signed, d.w) {
			return t, leafVal{}, "invalid"
		}
		return t, leafVal{kind: "int", z: v}, "ok"
	}
	// arrays and slices
	w := int(t.ElementType.Bits)
	if d.kind == "arr" && d.count == 0 {
		return t, leafVal{kind: "arr"}, "ok"
	}
	v, ok := new(big.Int).SetString(s, 0)
	if !ok || v.Sign() < 0 {
		return t, leafVal{}, "invalid"
	}
	bl := v.BitLen()
	if hex0x(s) {
		bl = 4 * (len(s) - 2)
		if v.BitLen() > bl {
			return t, leafVal{}, "invalid" // underscores
		}
	}
	k := ceilDivI(bl, w)
	if d.kind == "slice" {
		if k == 0 {
			return t, leafVal{}, "invalid"
		}
		t.ArraySize, t.Bits, t.IsConcrete = types.Size(k), types.Size(k*w), true
	} else if k > d.count {
		return t, leafVal{}, "toomany"
	}
	signedEl := t.ElementType.Type == types.TInt
	var elems []*big.Int
	for i := 0; i < k; i++ {
		p := new(big.Int).Rsh(v, uint((k-1-i)*w))
		p.Mod(p, pow2(w))
		if signedEl {
			p = toSignedBig(p, w)
		}
		elems = append(elems, p)
	}
	return t, leafVal{kind: "arr", elems: elems}, "ok"
}

// goValueOf: the Go-value form of a leaf value, when IOArg.Set has one.
func goValueOf(t types.Info, v leafVal) (interface{}, bool) {
	switch v.kind {
	case "bool":
		return v.b, true
	case "int":
		return goInt(nil, v.z, t.Type == types.TInt, int(t.Bits))
	}
	if t.ElementType.Type != types.TInt && t.ElementType.Type != types.TUint {
		return nil, false
	}
	w := int(t.ElementType.Bits)
	if len(v.elems) == 0 {
		return nil, true
	}
	if w < 8 {
		return nil, false
	}
	bs := make([]byte, 0, len(v.elems))
	for _, e := range v.elems {
		p := new(big.Int).Mod(e, pow2(w))
		if p.Cmp(big.NewInt(256)) >= 0 {
			return nil, false
		}
		bs = append(bs, byte(p.Uint64()))
	}
	return bs, true
}

// wantRender: the canonical rendering of the Go value that decoding the
// output for this leaf must give.
func wantRender(t types.Info, v leafVal) string {
	switch v.kind {
	case "bool":
		if v.b {
			return "b:1"
		}
		return "b:0"
	case "int":
		return wantScalar(t.Type == types.TInt, int(t.Bits), v.z)
	}
	signed := t.ElementType.Type == types.TInt
	w := int(t.ElementType.Bits)
	name := "big"
	if c := classOf(w); c != 0 {
		name = fmt.Sprintf("uint%d", c)
		if signed {
			name = fmt.Sprintf("int%d", c)
		}
	}
	var parts []string
	for j := 0; j < int(t.ArraySize); j++ {
		z := new(big.Int)
		if j < len(v.elems) {
			z = v.elems[j]
		}
		parts = append(parts, wantScalar(signed, w, z))
	}
	return "[" + name + ":" + strings.Join(parts, ";") + "]"
}

func literalClass(d *decl, s string) string {
	t := d.toInfo()
	if !sizedRef(t) {
		return "unsized"
	}
	v, ok := new(big.Int).SetString(s, 0)
	if !ok {
		return "literal"
	}
	return sizeClass(writtenBits(s, v), int(t.Bits))
}

// ---------------------------------------------------------------- end to end: one main argument

// runMainarg compiles the program for the declared argument type with the
// sizes inferred from the input strings and judges every stage.
func runMainarg(o *hxlib.Out, idx int, d *decl, strs []string) {
	declared := d.toInfo()
	op := fmt.Sprintf("c13 mainarg %s %s", tyTok(declared), strsTok(strs))
	o.Count("op_mainarg")
	lds := d.leaves()
	lrefs := leavesOf(declared)
	// reference reading
	status := "ok"
	if len(strs) != len(lds) {
		status = "invalid"
	}
	var refT []types.Info
	var refV []leafVal
	for k := 0; k < len(lds) && status != "invalid"; k++ {
		t, v, st := refRead(lds[k], strs[k])
		refT, refV = append(refT, t), append(refV, v)
		if st != "ok" {
			if st == "invalid" || status == "ok" {
				status = st
			}
		}
	}
	o.Count("mainarg_literals_" + status)
	src, returned := program(d)
	failed := false
	fail := func(sig string, f map[string]any) {
		if failed {
			return
		}
		failed = true
		f["case"], f["op"], f["via"], f["src"], f["inputs"] = idx, op, "mainarg", src, strs
		failDedup(o, sig, f)
	}
	sizes, err := circuit.InputSizes(strs)
	if err != nil {
		o.Op(op, "err sizes "+errKind(err))
		if status != "invalid" {
			fail("c13-mainarg-rejects-valid", map[string]any{"stage": "InputSizes", "error": err.Error()})
		}
		return
	}
	compile := func(src string) (*circuit.Circuit, string) {
		var circ *circuit.Circuit
		var cerr error
		pan, msg := guard(func() {
			params := utils.NewParams()
			defer params.Close()
			circ, _, cerr = compiler.New(params).Compile(src, [][]int{sizes, {8}})
		})
		if pan {
			return nil, "panic: " + msg
		}
		if cerr != nil {
			msg = cerr.Error()
			if len(msg) > 300 {
				msg = msg[:300]
			}
			return nil, msg
		}
		return circ, ""
	}
	circ, cmsg := compile(src)
	rejected := ""
	if circ == nil && status != "invalid" {
		// the program that returns the members is rejected: look at the argument through a program that does
		// not pin the member types in its return list, so that the report says what happened to the argument
		rejected = cmsg
		circ, _ = compile(probeProgram(d))
		returned = nil
		o.Count("mainarg_probe_program")
	}
	if circ == nil {
		o.Op(op, "err compile")
		if status != "invalid" {
			fail("c13-mainarg-rejects-valid", map[string]any{"stage": "compile", "error": cmsg, "sizes": intsTok(sizes)})
		}
		return
	}
	if rejected != "" {
		defer func() {
			// reached when no more specific failure was reported for this case
			fail("c13-mainarg-rejects-valid", map[string]any{"stage": "compile", "error": rejected, "sizes": intsTok(sizes)})
		}()
	}
	arg := circ.Inputs[0]
	z, res := doParse(arg, strs)
	if z != nil {
		res = "ok " + argTok(arg) + " " + z.String()
	} else {
		res = "err parse " + strings.TrimPrefix(res, "err ")
	}
	o.Op(op, res)
	if status != "ok" {
		if status == "toomany" && z != nil {
			fail("c13-mainarg-accepts-too-many-elements", map[string]any{"stage": "Parse"})
		}
		return
	}
	o.Count("mainarg_judged")
	// (1) shape of the flattened argument
	members := arg.Compound
	if d.kind != "struct" {
		members = circuit.IO{arg}
	}
	if len(members) != len(lds) {
		fail("c13-mainarg-shape", map[string]any{"members": len(members), "leaves": len(lds)})
		return
	}
	// (2) sized members keep their declared type
	for k, m := range members {
		if !sizedRef(lrefs[k].t) {
			continue
		}
		o.Count("mainarg_sized_literal_" + literalClass(lds[k], strs[k]))
		if m.Type.Type != refT[k].Type || m.Type.Bits != refT[k].Bits || m.Type.ArraySize != refT[k].ArraySize ||
			(refT[k].ElementType != nil && (m.Type.ElementType == nil || m.Type.ElementType.Bits != refT[k].ElementType.Bits)) {
			fail("c13-mainarg-member-resized", map[string]any{"member": k, "path": lrefs[k].path, "member_kind": kindName(refT[k]),
				"member_declared": infoTok(refT[k]), "member_got": infoTok(m.Type), "literal": strs[k],
				"literal_class": literalClass(lds[k], strs[k]), "argument": argTok(arg)})
			return
		}
	}
	// (3) unsized members get the size that is written
	for k, m := range members {
		if sizedRef(lrefs[k].t) {
			continue
		}
		o.Count("mainarg_unsized_" + kindName(refT[k]))
		if m.Type.Bits == refT[k].Bits && m.Type.ArraySize == refT[k].ArraySize {
			continue
		}
		l := lrefs[k]
		fromPath := false
		if l.pathIdx < len(sizes) {
			if pb, pn, c := widthFromSize(l.t, sizes[l.pathIdx]); c && int(m.Type.Bits) == pb && int(m.Type.ArraySize) == pn {
				fromPath = true
			}
		}
		fail("c13-inferred-size-wrong", map[string]any{"member": k, "path": l.path, "member_kind": kindName(refT[k]),
			"member_got": infoTok(m.Type), "want_bits": int(refT[k].Bits), "literal": strs[k],
			"after_nested_struct": fmt.Sprint(l.flatIdx != l.pathIdx), "width_from_path_index": fmt.Sprint(fromPath),
			"flat_index": l.flatIdx, "path_index": l.pathIdx, "sizes": intsTok(sizes), "argument": argTok(arg)})
		return
	}
	// (4) total and wires: every member on its declared wires
	var ref []bool
	var offs []int
	total := 0
	for k := range lds {
		offs = append(offs, total)
		ref = append(ref, refLeafAny(refT[k], refV[k])...)
		total += int(refT[k].Bits)
	}
	if int(arg.Type.Bits) != total {
		fail("c13-mainarg-total-wrong", map[string]any{"total": int(arg.Type.Bits), "want": total, "argument": argTok(arg)})
		return
	}
	locateK := func(p int) int {
		for k := len(offs) - 1; k >= 0; k-- {
			if p >= offs[k] {
				return k
			}
		}
		return 0
	}
	if dd := firstDiff(ref, wireOf(z, total)); dd >= 0 {
		k := locateK(dd)
		fail("c13-mainarg-wires-wrong", map[string]any{"stage": "Parse", "bit": dd, "member": k, "path": lrefs[k].path,
			"member_kind": kindName(refT[k]), "want": bitsToNat(ref).Text(16), "got": z.Text(16)})
		return
	}
	// (5) the Go-value form puts the same bits on the wires
	var gvs []interface{}
	allGV := true
	for k := range lds {
		gv, ok := goValueOf(refT[k], refV[k])
		allGV = allGV && ok
		gvs = append(gvs, gv)
	}
	if allGV {
		o.Count("mainarg_set")
		sz, sres := doSet(arg, gvs, nil)
		if sz == nil {
			fail("c13-mainarg-rejects-valid", map[string]any{"stage": "Set", "error": sres, "values": valsTok(gvs)})
			return
		}
		if dd := firstDiff(ref, wireOf(sz, total)); dd >= 0 {
			k := locateK(dd)
			fail("c13-mainarg-wires-wrong", map[string]any{"stage": "Set", "bit": dd, "member": k, "path": lrefs[k].path,
				"member_kind": kindName(refT[k]), "want": bitsToNat(ref).Text(16), "got": sz.Text(16), "values": valsTok(gvs)})
			return
		}
	}
	// (6) evaluate the circuit and decode: Result inverts the encoding
	inputs := members.Split(z)
	inputs = append(inputs, big.NewInt(7))
	var outs []*big.Int
	var eerr error
	if p, m := guard(func() { outs, eerr = circ.Compute(inputs) }); p || eerr != nil {
		fail("c13-mainarg-rejects-valid", map[string]any{"stage": "Compute", "error": fmt.Sprint(m, eerr)})
		return
	}
	if rejected != "" {
		return
	}
	if len(outs) != len(returned)+1 || len(circ.Outputs) != len(outs) {
		fail("c13-mainarg-shape", map[string]any{"stage": "outputs", "outputs": len(outs), "returned": len(returned) + 1})
		return
	}
	for j, k := range returned {
		got := "panic"
		guard(func() { got = renderResult(circ.Outputs[j].Type, mpc.Result(outs[j], circ.Outputs[j])) })
		want := wantRender(refT[k], refV[k])
		if got != want {
			fail("c13-mainarg-result-wrong", map[string]any{"member": k, "path": lrefs[k].path, "member_kind": kindName(refT[k]),
				"want": want, "got": got, "output_type": infoTok(circ.Outputs[j].Type)})
			return
		}
	}
	if got := rvalTok(mpc.Result(outs[len(outs)-1], circ.Outputs[len(outs)-1])); got != "u8:7" {
		fail("c13-mainarg-result-wrong", map[string]any{"member": -1, "path": "e", "member_kind": "uint", "want": "u8:7", "got": got})
		return
	}
	o.Count("mainarg_roundtrip")
	if idx >= 0 && idx < 40 {
		o.Sample(map[string]any{"case": idx, "op": op, "argument": argTok(arg)})
	}
}

// refLeafAny: refLeaf for every leaf kind, including arrays of structs (the
// element patterns are opaque w-bit groups).
func refLeafAny(t types.Info, v leafVal) []bool {
	return refLeaf(t, v)
}

// ---------------------------------------------------------------- generators

// genLeafDecl: one leaf member with a literal (short / full / empty / longer
// than the declared size; decimal, hex, binary spellings).
func genLeafDecl(r *hxlib.Rng, o *hxlib.Out) (*decl, string) {
	for try := 0; try < 50; try++ {
		if r.Intn(16) == 0 {
			// array of sized structs
			var fs []*decl
			w := 0
			for i, n := 0, 1+r.Intn(3); i < n; i++ {
				if r.Intn(4) == 0 {
					fs = append(fs, &decl{kind: "bool"})
					w++
				} else {
					fw := []int{1, 3, 4, 8, 12, 16}[r.Intn(6)]
					fs = append(fs, &decl{kind: "int", signed: r.Bool(), w: fw})
					w += fw
				}
			}
			count := 1 + r.Intn(3)
			k := r.Intn(count + 1)
			var elems []*big.Int
			for j := 0; j < k; j++ {
				elems = append(elems, randBig(r, w))
			}
			s, _, ok := spellArray(r, elems, w)
			if !ok {
				continue
			}
			o.Count("decl_array_of_struct")
			return &decl{kind: "arr", count: count, el: &decl{kind: "struct", fields: fs}}, s
		}
		m := genMember(r, o)
		switch m.v.kind {
		case "bool":
			return &decl{kind: "bool"}, m.str
		case "int":
			d := &decl{kind: "int", signed: m.signed, w: int(m.t.Bits)}
			if r.Intn(3) == 0 {
				// unsized: the literal decides the width
				z := new(big.Int).Abs(m.v.z)
				d.w = 0
				var s string
				switch r.Intn(6) {
				case 0, 1:
					s = z.Text(10)
				case 2:
					s = "0x" + z.Text(16)
				case 3:
					s = "0x" + strings.Repeat("0", 1+r.Intn(3)) + z.Text(16)
				case 4:
					s = "0b" + z.Text(2)
				default:
					s = "0X" + strings.ToUpper(z.Text(16))
				}
				if d.signed && z.Sign() != 0 {
					s = "0x0" + z.Text(16)
				}
				o.Count("decl_unsized_int")
				return d, s
			}
			if m.hasStr {
				return d, m.str
			}
		case "arr":
			if !m.hasStr || m.t.ElementType.Bits == 0 {
				continue
			}
			el := &decl{kind: "int", signed: m.signed, w: int(m.t.ElementType.Bits)}
			if m.t.Type == types.TSlice {
				if m.t.ArraySize == 0 {
					continue
				}
				o.Count("decl_slice")
				return &decl{kind: "slice", el: el}, m.str
			}
			d := &decl{kind: "arr", count: int(m.t.ArraySize), el: el}
			s := m.str
			if r.Intn(25) == 0 && d.count > 0 {
				// more elements than declared: Parse must reject it
				s = "0x" + strings.Repeat("f", ceilDivI((d.count+1)*el.w, 4)+1)
				o.Count("decl_array_literal_too_long")
			}
			return d, s
		}
	}
	return &decl{kind: "bool"}, "true"
}

// genArgDecl: the declared type of the garbler's argument and one input
// string per flattened member.
func genArgDecl(r *hxlib.Rng, o *hxlib.Out) (*decl, []string) {
	if r.Intn(7) == 0 {
		d, s := genLeafDecl(r, o)
		o.Count("decl_top_leaf")
		return d, []string{s}
	}
	top := &decl{kind: "struct"}
	var strs []string
	n := 1 + r.Intn(5)
	for i := 0; i < n; i++ {
		if r.Intn(9) == 0 {
			in := &decl{kind: "struct"}
			for j, m := 0, 1+r.Intn(3); j < m; j++ {
				d, s := genLeafDecl(r, o)
				in.fields = append(in.fields, d)
				strs = append(strs, s)
			}
			top.fields = append(top.fields, in)
			o.Count("decl_nested_struct")
			continue
		}
		d, s := genLeafDecl(r, o)
		top.fields = append(top.fields, d)
		strs = append(strs, s)
	}
	sized, unsized := false, false
	for _, l := range top.leaves() {
		if sizedRef(l.toInfo()) {
			sized = true
		} else {
			unsized = true
		}
	}
	if sized && unsized {
		o.Count("decl_struct_mixing_sized_and_unsized")
	}
	return top, strs
}

func mainargCase(o *hxlib.Out, r *hxlib.Rng, idx int) {
	d, strs := genArgDecl(r, o)
	runMainarg(o, idx, d, strs)
}

// genAnyTy: arbitrary (also ill-formed) type trees for the error paths.
func genAnyTy(r *hxlib.Rng, depth int) types.Info {
	if depth > 0 && r.Intn(3) == 0 {
		t := types.Info{Type: types.TStruct, IsConcrete: r.Bool(), Bits: types.Size(r.Intn(40)), Offset: types.Size(r.Intn(9))}
		for i, n := 0, r.Intn(4); i < n; i++ {
			f := genAnyTy(r, depth-1)
			t.Struct = append(t.Struct, types.StructField{Name: fmt.Sprintf("f%d", i), Type: f})
		}
		return t
	}
	t := genAnyInfo(r, 1)
	if t.Type == types.TStruct {
		t.Type = types.TString
	}
	t.IsConcrete = r.Intn(3) != 0
	t.Offset = types.Size(r.Intn(5))
	if t.ElementType != nil {
		t.ElementType.IsConcrete = r.Intn(6) != 0
		if t.ElementType.Type == types.TStruct {
			t.ElementType.Type = types.TUint
		}
		if t.ElementType.ElementType != nil && t.ElementType.ElementType.Type == types.TStruct {
			t.ElementType.ElementType.Type = types.TUint
		}
	}
	return t
}

// instsCase: InstantiateWithSizes called directly on a type tree with a size
// vector whose entries are shorter than, equal to, longer than the declared
// sizes, or empty.
func instsCase(o *hxlib.Out, r *hxlib.Rng, idx int) {
	if r.Intn(5) == 0 {
		t := genAnyTy(r, 2)
		var sizes []int
		for i, n := 0, r.Intn(6); i < n; i++ {
			sizes = append(sizes, r.Intn(70))
		}
		o.Count("insts_arbitrary_tree")
		runInsts(o, idx, t, sizes)
		return
	}
	d, _ := genArgDecl(r, o)
	t := d.toInfo()
	ls := leavesOf(t)
	var sizes []int
	for _, l := range ls {
		b := int(l.t.Bits)
		if !sizedRef(l.t) {
			b = 1 + r.Intn(40)
		}
		switch r.Intn(6) {
		case 0:
			sizes = append(sizes, b)
		case 1:
			sizes = append(sizes, r.Intn(b+1))
		case 2:
			sizes = append(sizes, b+1+r.Intn(70))
		case 3:
			sizes = append(sizes, 0)
		case 4:
			sizes = append(sizes, 1+r.Intn(9))
		default:
			sizes = append(sizes, r.Intn(200))
		}
	}
	switch r.Intn(12) {
	case 0:
		sizes = sizes[:r.Intn(len(sizes)+1)]
		o.Count("insts_too_few_sizes")
	case 1:
		sizes = append(sizes, r.Intn(50), r.Intn(50))
	}
	// perturbations that keep the relation meaningful: bookkeeping fields hold garbage, a sized scalar or array is
	// marked not concrete (an unsized array is sized from its entry)
	if r.Intn(4) == 0 {
		var perturb func(t *types.Info)
		perturb = func(t *types.Info) {
			if t.Type == types.TStruct {
				if r.Intn(3) == 0 {
					t.Bits = types.Size(r.Intn(100))
				}
				for i := range t.Struct {
					if r.Intn(3) == 0 {
						t.Struct[i].Type.Offset = types.Size(r.Intn(100))
					}
					perturb(&t.Struct[i].Type)
				}
				return
			}
			if r.Intn(5) == 0 && t.Type != types.TBool {
				t.IsConcrete = false
			}
		}
		perturb(&t)
		if r.Intn(4) == 0 {
			t.Offset = types.Size(r.Intn(50))
		}
		o.Count("insts_perturbed")
	}
	if t.Type == types.TStruct {
		o.Count("insts_struct")
	}
	runInsts(o, idx, t, sizes)
}

// ---------------------------------------------------------------- judge: re-run op lines through their oracles

// judgeOps re-runs the op lines of the kinds whose oracle is a function of
// the op line (insts, inst, mainarg, split) on the real code.
func judgeOps(o *hxlib.Out, path string) {
	f, err := os.Open(path)
	if err != nil {
		fmt.Fprintln(os.Stderr, err)
		os.Exit(2)
	}
	defer f.Close()
	sc := bufio.NewScanner(f)
	sc.Buffer(make([]byte, 1<<20), 16<<20)
	idx := 0
	for sc.Scan() {
		parts := strings.Fields(sc.Text())
		idx--
		if len(parts) < 2 || parts[0] != "c13" {
			continue
		}
		switch {
		case parts[1] == "insts" && len(parts) == 4:
			t, ok1 := parseTyTok(parts[2], true)
			sizes, ok2 := parseIntsTok(parts[3])
			if ok1 && ok2 {
				runInsts(o, idx, t, sizes)
				o.Count("judged_insts")
				continue
			}
		case parts[1] == "inst" && len(parts) == 5:
			t, ok1 := parseTyTok(parts[2], true)
			sizes, ok2 := parseIntsTok(parts[4])
			if ok1 && ok2 && len(sizes) == 1 {
				t.IsConcrete = parts[3] == "1"
				runInstLeaf(o, idx, t, sizes[0])
				o.Count("judged_inst")
				continue
			}
		case parts[1] == "mainarg" && len(parts) == 4:
			t, ok1 := parseTyTok(parts[2], true)
			strs, ok2 := parseStrsTok(parts[3])
			if ok1 && ok2 && declShaped(t, true) {
				runMainarg(o, idx, declOf(t), strs)
				o.Count("judged_mainarg")
				continue
			}
		case parts[1] == "split" && len(parts) == 4:
			ns, ok1 := parseIntsTok(parts[2])
			z, ok2 := new(big.Int).SetString(parts[3], 10)
			if ok1 && ok2 {
				runSplit(o, idx, ns, z)
				o.Count("judged_split")
				continue
			}
		}
		o.Count("judge_skipped_" + parts[1])
	}
}

// runInstLeaf: the older single-leaf `inst` op (explicit Concrete flag, one
// size), judged by the same oracle.
func runInstLeaf(o *hxlib.Out, idx int, t types.Info, size int) {
	conc := 0
	if t.Concrete() {
		conc = 1
	}
	op := fmt.Sprintf("c13 inst %s %d %d", infoTok(t), conc, size)
	tt := cloneInfo(t)
	var err error
	res := ""
	if p, _ := guard(func() { err = tt.InstantiateWithSizes([]int{size}) }); p {
		res = "err panic"
	} else if err != nil {
		res = "err unsupported"
	} else {
		res = "ok " + infoTok(tt)
		judgeInst(o, idx, op, "inst", t, tt, []int{size})
	}
	o.Op(op, res)
	o.Count("op_inst")
}

// runSplit: IO.Split, part k is bits [sum(ns[:k]), +ns[k]) of z.
func runSplit(o *hxlib.Out, idx int, ns []int, z *big.Int) {
	var io circuit.IO
	for _, w := range ns {
		io = append(io, circuit.IOArg{Type: intInfo(false, w)})
	}
	var parts []*big.Int
	res := ""
	if p, _ := guard(func() { parts = io.Split(z) }); p {
		res = "panic"
	} else if len(parts) == 0 {
		res = "-"
	} else {
		var ps []string
		bit := 0
		for k, x := range parts {
			ps = append(ps, x.String())
			exp := new(big.Int).Rsh(z, uint(bit))
			exp.Mod(exp, pow2(ns[k]))
			if exp.Cmp(x) != 0 {
				failDedup(o, "c13-split-wrong", map[string]any{"case": idx, "index": k, "z": z.String(), "sizes": intsTok(ns),
					"op": fmt.Sprintf("c13 split %s %s", intsTok(ns), z.String())})
			}
			bit += ns[k]
		}
		res = strings.Join(ps, ",")
	}
	o.Op(fmt.Sprintf("c13 split %s %s", intsTok(ns), z.String()), res)
	o.Count("op_split")
}

// instCorpus: the hand-written cases, always run first in mode `inst`.
func instCorpus(o *hxlib.Out) {
	key := &decl{kind: "arr", count: 8, el: &decl{kind: "int", w: 8}}
	g := &decl{kind: "struct", fields: []*decl{{kind: "int", w: 0}, key, {kind: "int", w: 16}}}
	// a struct mixing sized and unsized members, full and short literal for the fixed-size member
	runMainarg(o, -20, g, []string{"5", "0xa0a1a2a3a4a5a6a7", "0x3132"})
	runMainarg(o, -21, g, []string{"5", "0xa0a1", "0x3132"})
	runMainarg(o, -22, g, []string{"5", "0", "0x3132"})
	runInsts(o, -23, g.toInfo(), []int{3, 16, 16})
	runInsts(o, -24, g.toInfo(), []int{3, 64, 16})
	runInsts(o, -25, g.toInfo(), []int{3, 100, 16})
	// all members sized: the argument is never instantiated by the compiler; the direct call is the identity
	c := &decl{kind: "struct", fields: []*decl{{kind: "int", w: 8}, key, {kind: "bool"}}}
	runMainarg(o, -26, c, []string{"200", "0xa0a1", "t"})
	runInsts(o, -27, c.toInfo(), []int{1, 1, 1})
	// nested struct argument: the member after the nested struct is sized from its own input (defect repaired by
	// 4a72a07: it used to be sized from an earlier entry)
	u := func() *decl { return &decl{kind: "int", w: 0} }
	nested := &decl{kind: "struct", fields: []*decl{{kind: "struct", fields: []*decl{u(), u()}}, u()}}
	runMainarg(o, -28, nested, []string{"1", "255", "65535"})
	runInsts(o, -29, nested.toInfo(), []int{1, 8, 16})
	o.CountN("inst_corpus", 10)
}

package main

// C13 harness: input/output value encoding (circuit/ioarg.go, result.go,
// types/types.go, types/parse.go).
//
//	c13 <mode> -seed S -n N -tier T -ops F -out F -meta F
//
// modes: all | enc | result | sizes | misc | inst | judge (-extra ops=<file>)
//
// Every case runs the REAL code in-process, emits one op line (all inputs)
// and the canonical result line, and evaluates the property directly on the
// real outputs against the harness's own reference encoding (ref.go).

import (
	"fmt"
	"math/big"
	"os"
	"reflect"
	"strings"
	"unicode"

	"github.com/markkurossi/mpc"
	"github.com/markkurossi/mpc/circuit"
	"github.com/markkurossi/mpc/types"

	"verifharness/hxlib"
)

// failDedup passes at most two failures of one class (signature + the
// classifying fields) to o.Fail, so that the bounded failure list of the
// harness library always has room for a class not seen before.
var seenFail = map[string]int{}
var classFields = []string{"member_kind", "wide", "negative", "diff_only_above_64", "dirty_before", "provided", "class",
	"tag", "elem_tag", "top_bit_set", "via", "victim_kind", "victim_provided", "changed_negative", "stage",
	"compound_element", "parse_agrees_with_reference", "after_is_before_minus_2_pow_bits", "isizes_is_abs_bitlen", "kind",
	"after_nested_struct", "width_from_path_index", "literal_class"}

func failDedup(o *hxlib.Out, sig string, detail map[string]any) {
	key := sig
	for _, k := range classFields {
		if v, ok := detail[k]; ok {
			key += fmt.Sprintf("|%s=%v", k, v)
		}
	}
	seenFail[key]++
	if seenFail[key] > 2 {
		o.Count("oracle_fail_repeat_of_reported_class")
		return
	}
	o.Fail(sig, detail)
}

var intWidths = []int{1, 2, 3, 4, 5, 7, 8, 9, 15, 16, 17, 31, 32, 33, 63, 64, 65, 66, 100, 127, 128, 129, 130}
var elWidths = []int{1, 2, 3, 4, 5, 7, 8, 8, 8, 9, 12, 16, 16, 24, 32, 33, 64, 65, 100, 130}

func pickWidth(r *hxlib.Rng) int {
	if r.Intn(4) == 0 {
		return 1 + r.Intn(130)
	}
	return intWidths[r.Intn(len(intWidths))]
}

func intInfo(signed bool, w int) types.Info {
	t := types.Info{Type: types.TUint, IsConcrete: true, Bits: types.Size(w), MinBits: types.Size(w)}
	if signed {
		t.Type = types.TInt
	}
	return t
}

func arrInfo(slice bool, count int, el types.Info) types.Info {
	e := el
	t := types.Info{Type: types.TArray, IsConcrete: true, Bits: types.Size(count) * el.Bits,
		ArraySize: types.Size(count), ElementType: &e}
	if slice {
		t.Type = types.TSlice
	}
	return t
}

func randBig(r *hxlib.Rng, bits int) *big.Int {
	if bits <= 0 {
		return new(big.Int)
	}
	b := r.Bytes((bits + 7) / 8)
	v := new(big.Int).SetBytes(b)
	return v.Mod(v, pow2(bits))
}

// genInt returns a value in the range of the (signed, w) integer type,
// biased to the boundaries.
func genInt(r *hxlib.Rng, signed bool, w int) *big.Int {
	if w == 0 {
		return new(big.Int)
	}
	var lo, hi *big.Int // [lo, hi)
	if signed {
		lo = new(big.Int).Neg(pow2(w - 1))
		hi = pow2(w - 1)
	} else {
		lo = new(big.Int)
		hi = pow2(w)
	}
	var v *big.Int
	switch r.Intn(12) {
	case 0:
		v = big.NewInt(0)
	case 1:
		v = big.NewInt(1)
	case 2:
		v = big.NewInt(-1)
	case 3:
		v = new(big.Int).Sub(hi, big.NewInt(1))
	case 4:
		v = new(big.Int).Set(lo)
	case 5:
		v = big.NewInt(int64(2 + r.Intn(2)))
	case 6:
		v = big.NewInt(int64(r.Intn(300)) - 100)
	case 7:
		// 64-bit range values for wide types
		v = new(big.Int).SetUint64(r.U64())
		if signed {
			v = big.NewInt(int64(r.U64()))
		}
	case 8:
		// negative, small magnitude
		v = big.NewInt(-int64(1 + r.Intn(1000)))
	default:
		v = randBig(r, w)
		if signed {
			v.Sub(v, pow2(w-1))
		}
	}
	if v.Cmp(lo) < 0 || v.Cmp(hi) >= 0 {
		// wrap into range
		v.Sub(v, lo)
		v.Mod(v, new(big.Int).Sub(hi, lo))
		v.Add(v, lo)
	}
	return v
}

func underscored(r *hxlib.Rng, digits string) string {
	if len(digits) < 3 || r.Intn(6) != 0 {
		return digits
	}
	p := 1 + r.Intn(len(digits)-1)
	return digits[:p] + "_" + digits[p:]
}

// spellNat returns a spelling of n >= 0 accepted by big.Int.SetString(s, 0).
func spellNat(r *hxlib.Rng, n *big.Int) (string, string) {
	switch r.Intn(8) {
	case 0, 1, 2:
		return n.Text(10), "dec"
	case 3:
		return "0x" + underscored(r, n.Text(16)), "hex"
	case 4:
		return "0x" + strings.Repeat("0", r.Intn(3)) + n.Text(16), "hex"
	case 5:
		return "0b" + underscored(r, n.Text(2)), "bin"
	case 6:
		return "0o" + n.Text(8), "oct"
	default:
		return "0X" + strings.ToUpper(n.Text(16)), "HEX"
	}
}

func spellInt(r *hxlib.Rng, z *big.Int) (string, string) {
	if z.Sign() < 0 {
		s, k := spellNat(r, new(big.Int).Neg(z))
		return "-" + s, "neg-" + k
	}
	s, k := spellNat(r, z)
	if r.Intn(16) == 0 {
		return "+" + s, k
	}
	return s, k
}

// goInt gives the Go-value form of an integer value: the kind that
// mpc.Result would return for the width (sometimes a wider kind).
func goInt(r *hxlib.Rng, z *big.Int, signed bool, w int) (interface{}, bool) {
	class := 64
	switch {
	case w <= 8:
		class = 8
	case w <= 16:
		class = 16
	case w <= 32:
		class = 32
	}
	if r != nil && r.Intn(5) == 0 {
		class = []int{8, 16, 32, 64}[r.Intn(4)]
	}
	for ; class <= 64; class *= 2 {
		if inRange(z, signed, class) {
			break
		}
	}
	if class > 64 {
		return nil, false
	}
	if signed {
		v := z.Int64()
		switch class {
		case 8:
			return int8(v), true
		case 16:
			return int16(v), true
		case 32:
			return int32(v), true
		}
		return v, true
	}
	v := z.Uint64()
	switch class {
	case 8:
		return uint8(v), true
	case 16:
		return uint16(v), true
	case 32:
		return uint32(v), true
	}
	return v, true
}

// concatElems is the number whose w-bit groups, most significant first, are
// the two's complement forms of the elements.
func concatElems(elems []*big.Int, w int) *big.Int {
	n := new(big.Int)
	for _, e := range elems {
		n.Lsh(n, uint(w))
		n.Or(n, new(big.Int).Mod(e, pow2(w)))
	}
	return n
}

// spellArray spells `elems` (k provided elements of width w) so that Parse
// reads exactly k elements, when such a spelling exists.
func spellArray(r *hxlib.Rng, elems []*big.Int, w int) (string, string, bool) {
	k := len(elems)
	if k == 0 {
		return "0", "dec", true
	}
	n := concatElems(elems, w)
	total := k * w
	var cands []func() (string, string)
	// hex with D digits: (k-1)*w < 4D <= k*w and n < 2^(4D)
	for d := total / 4; d >= 1 && 4*d > (k-1)*w; d-- {
		if n.BitLen() <= 4*d {
			dd := d
			cands = append(cands, func() (string, string) {
				return fmt.Sprintf("0x%0*s", dd, n.Text(16)), "hex"
			})
		}
	}
	// non-0x spellings: BitLen(n) must fall into the k-th group
	if n.BitLen() > (k-1)*w {
		cands = append(cands, func() (string, string) { return n.Text(10), "dec" })
		cands = append(cands, func() (string, string) { return "0b" + n.Text(2), "bin" })
		cands = append(cands, func() (string, string) { return "0X" + strings.ToUpper(n.Text(16)), "HEX" })
	}
	if len(cands) == 0 {
		return "", "", false
	}
	s, kind := cands[r.Intn(len(cands))]()
	return s, kind, true
}

// ---------------------------------------------------------------- members

type member struct {
	t      types.Info
	v      leafVal
	str    string      // textual form ("" when none exists)
	hasStr bool
	spell  string
	gv     interface{} // Go-value form
	hasGV  bool
	signed bool
}

func kindName(t types.Info) string {
	switch t.Type {
	case types.TBool:
		return "bool"
	case types.TInt:
		return "int"
	case types.TUint:
		return "uint"
	case types.TArray:
		return "array"
	case types.TSlice:
		return "slice"
	}
	return t.Type.String()
}

var boolTrue = []string{"1", "t", "true"}
var boolFalse = []string{"0", "f", "false"}

// genMember generates a leaf type together with a value of the type, its
// textual form and its Go-value form.
func genMember(r *hxlib.Rng, o *hxlib.Out) member {
	var m member
	switch r.Intn(10) {
	case 0:
		m.t = types.Bool
		m.v = leafVal{kind: "bool", b: r.Bool()}
		if m.v.b {
			m.str = boolTrue[r.Intn(3)]
		} else {
			m.str = boolFalse[r.Intn(3)]
		}
		m.hasStr, m.spell = true, "lit"
		m.gv, m.hasGV = m.v.b, true
	case 1, 2, 3, 4, 5:
		m.signed = r.Bool()
		w := pickWidth(r)
		m.t = intInfo(m.signed, w)
		z := genInt(r, m.signed, w)
		m.v = leafVal{kind: "int", z: z}
		m.str, m.spell = spellInt(r, z)
		m.hasStr = true
		m.gv, m.hasGV = goInt(r, z, m.signed, w)
	default:
		slice := r.Intn(3) == 0
		m.signed = r.Intn(3) == 0
		w := elWidths[r.Intn(len(elWidths))]
		count := r.Intn(7)
		if r.Intn(10) == 0 {
			count = 7 + r.Intn(14)
		}
		m.t = arrInfo(slice, count, intInfo(m.signed, w))
		k := count
		if !slice {
			switch r.Intn(4) {
			case 0:
				k = 0
			case 1:
				k = r.Intn(count + 1)
			}
		}
		byteValued := w >= 8 && r.Intn(3) != 0
		var elems []*big.Int
		for j := 0; j < k; j++ {
			if byteValued {
				elems = append(elems, big.NewInt(int64(r.Intn(256))))
				if r.Intn(4) == 0 {
					elems[j] = big.NewInt(int64([]int{0, 255, 1, 128}[r.Intn(4)]))
				}
				if m.signed && w == 8 && elems[j].Int64() >= 128 {
					elems[j].Sub(elems[j], big.NewInt(256))
				}
			} else {
				elems = append(elems, genInt(r, m.signed, w))
			}
		}
		m.v = leafVal{kind: "arr", elems: elems}
		m.str, m.spell, m.hasStr = spellArray(r, elems, w)
		// Go-value form: []byte when every element pattern is a byte
		if w >= 8 {
			ok := true
			bs := make([]byte, 0, k)
			for _, e := range elems {
				p := new(big.Int).Mod(e, pow2(w))
				if p.Cmp(big.NewInt(256)) >= 0 {
					ok = false
					break
				}
				bs = append(bs, byte(p.Uint64()))
			}
			if ok {
				m.hasGV = true
				if k == 0 && r.Bool() {
					m.gv = nil
				} else {
					m.gv = bs
				}
			}
		} else if k == 0 {
			m.gv, m.hasGV = nil, true
		}
	}
	return m
}

func memberFacts(m member) map[string]any {
	f := map[string]any{"member_kind": kindName(m.t), "bits": int(m.t.Bits)}
	switch m.v.kind {
	case "int":
		f["negative"] = fmt.Sprint(m.v.z.Sign() < 0)
		f["wide"] = fmt.Sprint(m.t.Bits > 64)
	case "arr":
		f["provided"] = len(m.v.elems)
		f["count"] = int(m.t.ArraySize)
		f["elbits"] = int(m.t.ElementType.Bits)
	}
	return f
}

// dirtyBefore: an earlier member is a negative signed integer narrower than
// 64 bits whose 64-bit write (setInt) reaches position p.
func dirtyBefore(ms []member, offs []int, idx, p int) bool {
	for j := 0; j < idx; j++ {
		if ms[j].v.kind == "int" && ms[j].v.z.Sign() < 0 && ms[j].t.Bits < 64 && offs[j]+64 > p {
			return true
		}
	}
	return false
}

func buildArg(ms []member) (circuit.IOArg, []int, int) {
	if len(ms) == 1 {
		return circuit.IOArg{Name: "a", Type: ms[0].t}, []int{0}, int(ms[0].t.Bits)
	}
	var io circuit.IO
	var offs []int
	total := 0
	for i, m := range ms {
		io = append(io, circuit.IOArg{Name: fmt.Sprintf("m%d", i), Type: m.t})
		offs = append(offs, total)
		total += int(m.t.Bits)
	}
	return circuit.IOArg{Name: "s", Type: types.Info{Type: types.TStruct, IsConcrete: true, Bits: types.Size(total)},
		Compound: io}, offs, total
}

func doParse(arg circuit.IOArg, strs []string) (*big.Int, string) {
	var z *big.Int
	var err error
	p, _ := guard(func() { z, err = arg.Parse(strs) })
	if p {
		return nil, "err panic"
	}
	if err != nil {
		return nil, "err " + errKind(err)
	}
	return z, "ok " + z.String()
}

func doSet(arg circuit.IOArg, vals []interface{}, reuse *big.Int) (*big.Int, string) {
	var z *big.Int
	var err error
	p, _ := guard(func() { z, err = arg.Set(reuse, vals) })
	if p {
		return nil, "err panic"
	}
	if err != nil {
		return nil, "err " + errKind(err)
	}
	return z, "ok " + z.String()
}

func locate(offs []int, ms []member, p int) int {
	for i := len(offs) - 1; i >= 0; i-- {
		if p >= offs[i] && p < offs[i]+int(ms[i].t.Bits) {
			return i
		}
	}
	return -1
}

// encCase: a valid (type, value) with textual and Go-value forms; the oracle
// compares the wires of Parse and of Set with the reference encoding.
func encCase(o *hxlib.Out, r *hxlib.Rng, idx int) {
	n := 1
	if r.Intn(3) != 0 {
		n = 2 + r.Intn(4)
	}
	var ms []member
	for i := 0; i < n; i++ {
		ms = append(ms, genMember(r, o))
	}
	encCheck(o, r, idx, ms, -1, nil)
}

// encCheck evaluates the encoding oracles on one argument made of the given
// members.  forceJ/forceAlt fix the perturbed member of the independence
// check (corpus witnesses); -1/nil lets the generator choose.
func encCheck(o *hxlib.Out, r *hxlib.Rng, idx int, ms []member, forceJ int, forceAlt *member) {
	n := len(ms)
	if r == nil {
		r = hxlib.NewRng(7)
	}
	arg, offs, total := buildArg(ms)
	var ref []bool
	allStr, allGV := true, true
	var strs []string
	var vals []interface{}
	for _, m := range ms {
		ref = append(ref, refLeaf(m.t, m.v)...)
		allStr = allStr && m.hasStr
		allGV = allGV && m.hasGV
		strs = append(strs, m.str)
		vals = append(vals, m.gv)
		o.Count("member_" + kindName(m.t))
		if m.v.kind == "int" {
			o.Count(fmt.Sprintf("int_wide_%v_neg_%v", m.t.Bits > 64, m.v.z.Sign() < 0))
			o.Count("spell_" + m.spell)
		}
		if m.v.kind == "arr" {
			if m.t.ArraySize == 0 {
				o.Count("array_len0")
			} else if len(m.v.elems) < int(m.t.ArraySize) {
				o.Count("array_short_literal")
			}
			if m.hasStr {
				o.Count("arrspell_" + m.spell)
			}
		}
	}
	if n > 1 {
		o.Count("compound")
	}
	atok := argTok(arg)
	var pz, sz *big.Int
	if allStr {
		op := fmt.Sprintf("c13 parse %s %s", atok, strsTok(strs))
		var res string
		pz, res = doParse(arg, strs)
		o.Op(op, res)
		o.Count("op_parse")
		if pz == nil {
			failDedup(o, "c13-parse-rejects-valid", map[string]any{"case": idx, "op": op, "result": res})
		} else if d := firstDiff(ref, wireOf(pz, total)); d >= 0 {
			mi := locate(offs, ms, d)
			f := memberFacts(ms[mi])
			f["case"], f["op"], f["bit"], f["member"] = idx, op, d, mi
			f["want"], f["got"] = bitsToNat(ref).Text(16), pz.Text(16)
			failDedup(o, "c13-parse-wrong", f)
		}
	}
	if allGV {
		op := fmt.Sprintf("c13 set %s %s", atok, valsTok(vals))
		var res string
		var reuse *big.Int
		if r.Intn(4) == 0 {
			reuse = new(big.Int).SetUint64(r.U64())
		}
		sz, res = doSet(arg, vals, reuse)
		o.Op(op, res)
		o.Count("op_set")
		if sz == nil {
			failDedup(o, "c13-set-rejects-valid", map[string]any{"case": idx, "op": op, "result": res})
		} else {
			got := wireOf(sz, total)
			if d := firstDiff(ref, got); d >= 0 {
				mi := locate(offs, ms, d)
				f := memberFacts(ms[mi])
				f["case"], f["op"], f["bit"], f["member"] = idx, op, d, mi
				f["want"], f["got"] = bitsToNat(ref).Text(16), sz.Text(16)
				// are all wrong bits of this member at member-relative index >= 64 and zero?
				above := true
				for i := 0; i < int(ms[mi].t.Bits); i++ {
					p := offs[mi] + i
					if ref[p] != got[p] && (i < 64 || got[p]) {
						above = false
					}
				}
				f["diff_only_above_64"] = fmt.Sprint(above)
				f["dirty_before"] = fmt.Sprint(dirtyBefore(ms, offs, mi, d))
				if pz != nil {
					f["parse_agrees_with_reference"] = fmt.Sprint(firstDiff(ref, wireOf(pz, total)) < 0)
				}
				failDedup(o, "c13-set-wrong", f)
			}
		}
	}
	// member independence: change one member, the wires of the others must
	// not move (evaluated on the real functions only).
	if n > 1 && (allStr || allGV) {
		j := r.Intn(n)
		var alt member
		found := false
		if forceAlt != nil {
			j, alt, found = forceJ, *forceAlt, true
		}
		for try := 0; try < 20 && !found; try++ {
			// same type, different value
			alt = ms[j]
			switch alt.v.kind {
			case "bool":
				alt.v.b = !alt.v.b
				if alt.v.b {
					alt.str = "true"
				} else {
					alt.str = "0"
				}
				alt.gv = alt.v.b
				found = true
			case "int":
				z := genInt(r, alt.signed, int(alt.t.Bits))
				if z.Cmp(ms[j].v.z) == 0 {
					continue
				}
				alt.v.z = z
				alt.str, alt.spell = spellInt(r, z)
				alt.gv, alt.hasGV = goInt(r, z, alt.signed, int(alt.t.Bits))
				found = true
			case "arr":
				if len(alt.v.elems) == 0 || !alt.hasGV || !alt.hasStr {
					try = 20
					continue
				}
				// flip to other byte values (keeps both forms available)
				var elems []*big.Int
				bs := make([]byte, 0)
				for range alt.v.elems {
					b := r.Intn(128)
					elems = append(elems, big.NewInt(int64(b)))
					bs = append(bs, byte(b))
				}
				elems[0] = big.NewInt(int64(1 + r.Intn(127)))
				bs[0] = byte(elems[0].Int64())
				alt.v.elems = elems
				alt.gv = bs
				alt.str, alt.spell, alt.hasStr = spellArray(r, elems, int(alt.t.ElementType.Bits))
				found = alt.hasStr
			}
		}
		if found {
			ms2 := append([]member(nil), ms...)
			ms2[j] = alt
			strs2 := append([]string(nil), strs...)
			strs2[j] = alt.str
			vals2 := append([]interface{}(nil), vals...)
			vals2[j] = alt.gv
			check := func(via string, a, b *big.Int, opA string) {
				if a == nil || b == nil {
					return
				}
				wa, wb := wireOf(a, total), wireOf(b, total)
				for m := range ms {
					if m == j {
						continue
					}
					for i := 0; i < int(ms[m].t.Bits); i++ {
						p := offs[m] + i
						if wa[p] != wb[p] {
							f := map[string]any{"case": idx, "via": via, "op": opA, "changed_member": j, "victim": m, "bit": p,
								"victim_kind": kindName(ms[m].t), "changed_kind": kindName(ms[j].t)}
							if ms[m].v.kind == "arr" {
								f["victim_provided"] = len(ms[m].v.elems)
							}
							if ms[j].v.kind == "int" {
								f["changed_negative"] = fmt.Sprint(ms[j].v.z.Sign() < 0 || alt.v.z.Sign() < 0)
							}
							f["changed_from"], f["changed_to"] = fmt.Sprint(valTok(ms[j].gv), "/", ms[j].str), fmt.Sprint(valTok(alt.gv), "/", alt.str)
							failDedup(o, "c13-member-disturbed", f)
							return
						}
					}
				}
			}
			if allStr && pz != nil {
				op := fmt.Sprintf("c13 parse %s %s", atok, strsTok(strs2))
				pz2, res := doParse(arg, strs2)
				o.Op(op, res)
				check("parse", pz, pz2, op)
				o.Count("independence_parse")
			}
			if allGV && alt.hasGV && sz != nil {
				op := fmt.Sprintf("c13 set %s %s", atok, valsTok(vals2))
				sz2, res := doSet(arg, vals2, nil)
				o.Op(op, res)
				check("set", sz, sz2, op)
				o.Count("independence_set")
			}
		}
	}
	if idx < 3 {
		o.Sample(map[string]any{"case": idx, "arg": atok, "strings": strs, "values": valsTok(vals)})
	}
}

// ---------------------------------------------------------------- malformed / arbitrary shapes

var junkStrings = []string{"", "_", " ", "0x", "0xg", "x", "1x", "12x00", "3xff", "0x1x", "true", "false", "t", "f", "T",
	"-", "--1", "1e3", "0b2", "0b", "0o8", "089", "1__0", "_1", "1_", "0x_1", "99999999999999999999x00", "9223372036854775808x0",
	"9223372036854775807x", "00", "-0", "+0", "0b0", "1 ", "é", "0xFFFFFFFFFFFFFFFFFFFFFFFFFFFFFFFFFF", "-0x80", "٣"}

func genAnyString(r *hxlib.Rng) string {
	switch r.Intn(5) {
	case 0, 1:
		return junkStrings[r.Intn(len(junkStrings))]
	case 2:
		s, _ := spellInt(r, genInt(r, true, pickWidth(r)))
		return s
	case 3:
		return fmt.Sprintf("%dx%s", r.Intn(50), strings.Repeat([]string{"0", "ab", "F", ""}[r.Intn(4)], r.Intn(4)))
	default:
		alphabet := "0123456789abcdefxX_-+tf ob"
		n := r.Intn(8)
		var sb strings.Builder
		for i := 0; i < n; i++ {
			sb.WriteByte(alphabet[r.Intn(len(alphabet))])
		}
		return sb.String()
	}
}

func genAnyVal(r *hxlib.Rng) interface{} {
	switch r.Intn(14) {
	case 0:
		return nil
	case 1:
		return r.Bool()
	case 2:
		return int8(r.U64())
	case 3:
		return uint8(r.U64())
	case 4:
		return int16(r.U64())
	case 5:
		return uint16(r.U64())
	case 6:
		return int32(r.U64())
	case 7:
		return uint32(r.U64())
	case 8:
		return int64(r.U64())
	case 9:
		return r.U64()
	case 10:
		return r.Bytes(r.Intn(6))
	case 11:
		return []byte{}
	case 12:
		return uint64(r.Intn(6))
	default:
		return []interface{}{"str", 7, big.NewInt(5), int(3)}[r.Intn(4)]
	}
}

var allTags = []types.Type{types.TUndefined, types.TBool, types.TInt, types.TUint, types.TFloat, types.TString,
	types.TStruct, types.TArray, types.TSlice, types.TPtr, types.TNil}

// genAnyInfo generates arbitrary (also ill-formed) type infos.
func genAnyInfo(r *hxlib.Rng, depth int) types.Info {
	switch r.Intn(9) {
	case 0:
		return types.Bool
	case 1, 2, 3:
		w := pickWidth(r)
		if r.Intn(12) == 0 {
			w = 0
		}
		return intInfo(r.Bool(), w)
	case 4, 5, 6:
		var el types.Info
		if depth > 0 && r.Intn(4) == 0 {
			el = genAnyInfo(r, depth-1)
		} else {
			w := elWidths[r.Intn(len(elWidths))]
			if r.Intn(15) == 0 {
				w = 0
			}
			el = intInfo(r.Bool(), w)
		}
		t := arrInfo(r.Bool(), r.Intn(6), el)
		if r.Intn(8) == 0 {
			t.Bits = types.Size(r.Intn(40)) // inconsistent Bits
		}
		if r.Intn(20) == 0 {
			t.ElementType = nil
		}
		return t
	case 7:
		return types.Info{Type: types.TString, IsConcrete: true, Bits: types.Size(r.Intn(5) * 8)}
	default:
		return types.Info{Type: allTags[r.Intn(len(allTags))], IsConcrete: true, Bits: types.Size(r.Intn(20))}
	}
}

func genAnyArg(r *hxlib.Rng, depth int) circuit.IOArg {
	if depth > 0 && r.Intn(3) == 0 {
		n := 1 + r.Intn(4)
		var io circuit.IO
		total := 0
		for i := 0; i < n; i++ {
			m := genAnyArg(r, depth-1)
			io = append(io, m)
			total += int(m.Type.Bits)
		}
		return circuit.IOArg{Type: types.Info{Type: types.TStruct, IsConcrete: true, Bits: types.Size(total)}, Compound: io}
	}
	return circuit.IOArg{Type: genAnyInfo(r, 1)}
}

func countLeaves(a circuit.IOArg) int {
	if len(a.Compound) == 0 {
		return 1
	}
	return len(a.Compound)
}

// anyCase: arbitrary type shapes, strings and values (error paths, panics,
// nested compounds, inconsistent infos): correspondence only.
func anyCase(o *hxlib.Out, r *hxlib.Rng, idx int) {
	arg := genAnyArg(r, 2)
	n := countLeaves(arg)
	if r.Intn(6) == 0 {
		n = r.Intn(4)
	}
	atok := argTok(arg)
	if r.Bool() {
		var strs []string
		for i := 0; i < n; i++ {
			strs = append(strs, genAnyString(r))
		}
		_, res := doParse(arg, strs)
		o.Op(fmt.Sprintf("c13 parse %s %s", atok, strsTok(strs)), res)
		o.Count("any_parse_" + strings.SplitN(res, " ", 2)[0] + "_" + errWord(res))
	} else {
		var vals []interface{}
		for i := 0; i < n; i++ {
			vals = append(vals, genAnyVal(r))
		}
		_, res := doSet(arg, vals, nil)
		o.Op(fmt.Sprintf("c13 set %s %s", atok, valsTok(vals)), res)
		o.Count("any_set_" + strings.SplitN(res, " ", 2)[0] + "_" + errWord(res))
	}
}

func errWord(res string) string {
	p := strings.SplitN(res, " ", 2)
	if p[0] == "err" && len(p) > 1 {
		return p[1]
	}
	return ""
}

// ---------------------------------------------------------------- sizes

func sizesCase(o *hxlib.Out, r *hxlib.Rng, idx int) {
	// (1) arbitrary lists: correspondence
	if r.Intn(3) == 0 {
		n := r.Intn(5)
		var strs []string
		var vals []interface{}
		for i := 0; i < n; i++ {
			strs = append(strs, genAnyString(r))
			vals = append(vals, genAnyVal(r))
		}
		var a []int
		var err error
		res := ""
		if p, _ := guard(func() { a, err = circuit.InputSizes(strs) }); p {
			res = "err panic"
		} else if err != nil {
			res = "err " + errKind(err)
		} else {
			res = "ok " + intsTok(a)
		}
		o.Op("c13 isizes "+strsTok(strs), res)
		if p, _ := guard(func() { a, err = circuit.Sizes(vals) }); p {
			res = "err panic"
		} else if err != nil {
			res = "err " + errKind(err)
		} else {
			res = "ok " + intsTok(a)
		}
		o.Op("c13 sizes "+valsTok(vals), res)
		o.Count("sizes_arbitrary")
		return
	}
	// (2) a Go value and its decimal text: the two inferences must agree and
	// be the width that is written.
	signed := r.Bool()
	class := []int{8, 16, 32, 64}[r.Intn(4)]
	var z *big.Int
	switch r.Intn(6) {
	case 0:
		z = big.NewInt(int64(r.Intn(9)))
	case 1:
		z = genInt(r, signed, class)
	case 2:
		z = pow2(r.Intn(class))
		if r.Bool() {
			z.Sub(z, big.NewInt(1))
		}
		if !inRange(z, signed, class) {
			z = big.NewInt(2)
		}
	case 3:
		z = big.NewInt(int64(2 + r.Intn(2)))
	default:
		z = genInt(r, signed, 1+r.Intn(class))
	}
	if !inRange(z, signed, class) {
		z = big.NewInt(3)
	}
	sizesPair(o, r, idx, z, signed, class)
}

// sizesPair: a Go value and its decimal text: the two inferences must agree
// and be the width that is written.
func sizesPair(o *hxlib.Out, r *hxlib.Rng, idx int, z *big.Int, signed bool, class int) {
	gv, _ := goInt(nil, z, signed, class)
	text := z.Text(10)
	vals := []interface{}{gv}
	strs := []string{text}
	if r != nil && r.Intn(4) == 0 {
		// []byte and its hex text; nil and "_"; bool
		bs := r.Bytes(r.Intn(6))
		vals = append(vals, bs)
		strs = append(strs, "0x"+hxlib.Hex(bs))
		vals = append(vals, nil, r.Bool())
		strs = append(strs, "_", []string{"true", "f", "0", "1", "t", "false"}[r.Intn(6)])
	}
	sa, err1 := circuit.Sizes(vals)
	ia, err2 := circuit.InputSizes(strs)
	r1, r2 := "err", "err"
	if err1 == nil {
		r1 = "ok " + intsTok(sa)
	}
	if err2 == nil {
		r2 = "ok " + intsTok(ia)
	}
	opS := "c13 sizes " + valsTok(vals)
	opI := "c13 isizes " + strsTok(strs)
	o.Op(opS, r1)
	o.Op(opI, r2)
	o.Count("sizes_pairs")
	if err1 != nil || err2 != nil {
		failDedup(o, "c13-sizes-error", map[string]any{"case": idx, "op": opS, "op2": opI})
		return
	}
	class2 := "other"
	if z.Sign() < 0 {
		class2 = "negative"
	} else if z.Cmp(big.NewInt(2)) == 0 || z.Cmp(big.NewInt(3)) == 0 {
		class2 = "two-or-three"
	}
	o.Count("sizes_class_" + class2)
	// the width that is written: BitLen for v > 0, 1 for 0; a negative value
	// needs BitLen(-v-1)+1 bits in two's complement
	need := z.BitLen()
	if z.Sign() == 0 {
		need = 1
	}
	if z.Sign() < 0 {
		t := new(big.Int).Neg(z)
		t.Sub(t, big.NewInt(1))
		need = t.BitLen() + 1
	}
	bad := sa[0] != ia[0]
	if z.Sign() >= 0 {
		bad = bad || ia[0] != need
	} else {
		bad = bad || ia[0] < need
	}
	if bad {
		failDedup(o, "c13-sizes-differ", map[string]any{"case": idx, "op": opS, "op2": opI, "class": class2, "value": text,
			"go_value": valTok(gv), "Sizes": sa[0], "InputSizes": ia[0], "bits_needed": need,
			"isizes_is_abs_bitlen": fmt.Sprint(ia[0] == new(big.Int).Abs(z).BitLen())})
	}
	for k := 1; k < len(sa); k++ {
		if sa[k] != ia[k] {
			failDedup(o, "c13-sizes-differ", map[string]any{"case": idx, "op": opS, "op2": opI, "class": "aggregate", "index": k,
				"Sizes": sa[k], "InputSizes": ia[k]})
		}
	}
}

func intsTok(a []int) string {
	if len(a) == 0 {
		return "-"
	}
	var p []string
	for _, x := range a {
		p = append(p, fmt.Sprint(x))
	}
	return strings.Join(p, ",")
}

// ---------------------------------------------------------------- result

// wellFormedInfo: every array/slice level has an element type.
func wellFormedInfo(t types.Info) bool {
	if t.Type == types.TArray || t.Type == types.TSlice {
		return t.ElementType != nil && wellFormedInfo(*t.ElementType)
	}
	// a signed integer of width 0 is outside the property (widths 1..130)
	return !(t.Type == types.TInt && t.Bits == 0)
}

func classOf(w int) int {
	switch {
	case w <= 8:
		return 8
	case w <= 16:
		return 16
	case w <= 32:
		return 32
	case w <= 64:
		return 64
	}
	return 0
}

// wantScalar renders the Go value that decoding should give for value z of
// an integer type.
func wantScalar(signed bool, w int, z *big.Int) string {
	c := classOf(w)
	if c == 0 {
		return "big:" + z.String()
	}
	if signed {
		return fmt.Sprintf("i%d:%s", c, z.String())
	}
	return fmt.Sprintf("u%d:%s", c, z.String())
}

// renderResult renders the value returned by mpc.Result canonically, directed
// by the output type (strings of the default branch are "<value> (<type>)").
func renderResult(t types.Info, v interface{}) string {
	if s, ok := v.(string); ok {
		if t.Type == types.TString {
			return "s:" + hxlib.Hex([]byte(s))
		}
		return "fmt:" + strings.SplitN(s, " ", 2)[0]
	}
	rv := reflect.ValueOf(v)
	if rv.IsValid() && rv.Kind() == reflect.Slice && t.ElementType != nil &&
		(t.Type == types.TArray || t.Type == types.TSlice) {
		name := strings.ReplaceAll(rv.Type().Elem().String(), "*big.Int", "big")
		var parts []string
		for i := 0; i < rv.Len(); i++ {
			parts = append(parts, renderResult(*t.ElementType, rv.Index(i).Interface()))
		}
		return "[" + name + ":" + strings.Join(parts, ";") + "]"
	}
	return rvalTok(v)
}

func resultCase(o *hxlib.Out, r *hxlib.Rng, idx int) {
	var t types.Info
	var z *big.Int
	want := "" // expected decoding when the case is an encode/decode round trip
	mode := r.Intn(10)
	switch {
	case mode < 4: // integer round trip
		signed := r.Bool()
		w := pickWidth(r)
		t = intInfo(signed, w)
		v := genInt(r, signed, w)
		z = bitsToNat(twos(v, w))
		want = wantScalar(signed, w, v)
		o.Count(fmt.Sprintf("result_int_signed_%v_neg_%v_wide_%v", signed, v.Sign() < 0, w > 64))
	case mode < 6: // array round trip
		signed := r.Bool()
		w := elWidths[r.Intn(len(elWidths))]
		count := r.Intn(6)
		el := intInfo(signed, w)
		t = arrInfo(r.Intn(3) == 0, count, el)
		var parts []string
		var bits []bool
		for j := 0; j < count; j++ {
			v := genInt(r, signed, w)
			bits = append(bits, twos(v, w)...)
			parts = append(parts, wantScalar(signed, w, v))
		}
		z = bitsToNat(bits)
		name := "big"
		if c := classOf(w); c != 0 {
			name = fmt.Sprintf("uint%d", c)
			if signed {
				name = fmt.Sprintf("int%d", c)
			}
		}
		want = "[" + name + ":" + strings.Join(parts, ";") + "]"
		o.Count("result_array")
		if count == 0 {
			o.Count("result_array_len0")
		}
	case mode == 6: // bool, string
		if r.Bool() {
			t = types.Bool
			b := r.Bool()
			z = big.NewInt(0)
			want = "b:0"
			if b {
				z = big.NewInt(1)
				want = "b:1"
			}
		} else {
			n := r.Intn(6)
			t = types.Info{Type: types.TString, IsConcrete: true, Bits: types.Size(8 * n)}
			bs := make([]byte, n)
			printable := true
			for i := range bs {
				if r.Intn(4) == 0 {
					bs[i] = byte(r.U64())
				} else {
					bs[i] = byte(0x20 + r.Intn(0x5f))
				}
				if bs[i] < 0x20 || bs[i] > 0x7e {
					printable = false
				}
			}
			z = new(big.Int)
			for i := n - 1; i >= 0; i-- {
				z.Lsh(z, 8)
				z.Or(z, big.NewInt(int64(bs[i])))
			}
			if printable {
				want = "s:" + hxlib.Hex(bs)
			}
			o.Count("result_string")
		}
	case mode == 7 && r.Bool(): // array of arrays round trip
		signed := r.Bool()
		w := elWidths[r.Intn(len(elWidths))]
		icount := r.Intn(4)
		count := r.Intn(4)
		inner := arrInfo(r.Bool(), icount, intInfo(signed, w))
		t = arrInfo(r.Bool(), count, inner)
		name := "big"
		if c := classOf(w); c != 0 {
			name = fmt.Sprintf("uint%d", c)
			if signed {
				name = fmt.Sprintf("int%d", c)
			}
		}
		var bits []bool
		var outer []string
		for i := 0; i < count; i++ {
			var parts []string
			for k := 0; k < icount; k++ {
				v := genInt(r, signed, w)
				bits = append(bits, twos(v, w)...)
				parts = append(parts, wantScalar(signed, w, v))
			}
			outer = append(outer, "["+name+":"+strings.Join(parts, ";")+"]")
		}
		z = bitsToNat(bits)
		want = "[[]" + name + ":" + strings.Join(outer, ";") + "]"
		o.Count("result_nested_roundtrip")
	case mode == 7: // arrays of bool / string / nested / struct elements
		var el types.Info
		switch r.Intn(5) {
		case 0:
			el = types.Bool
		case 1:
			el = types.Info{Type: types.TString, IsConcrete: true, Bits: types.Size(8 * (1 + r.Intn(2)))}
		case 2:
			el = arrInfo(r.Bool(), 1+r.Intn(3), intInfo(r.Bool(), 8))
		case 3:
			el = types.Info{Type: types.TStruct, IsConcrete: true, Bits: types.Size(8 + r.Intn(9))}
		default:
			el = intInfo(r.Bool(), pickWidth(r))
		}
		t = arrInfo(r.Bool(), r.Intn(4), el)
		z = randBig(r, int(t.Bits)+r.Intn(3))
		o.Count("result_array_elem_" + el.Type.String())
	case mode == 8 && r.Bool(): // mpc.Results(results, nil): every value decoded as uint1024
		t = types.Info{Type: types.TUint, IsConcrete: true, Bits: 1024}
		v := randBig(r, []int{1, 8, 64, 65, 200, 1024}[r.Intn(6)])
		o.Count("result_nil_outputs")
		resultCheck(o, idx, t, v, "big:"+v.String(), true, true)
		return
	default: // arbitrary info and arbitrary cell content (also out of range, negative)
		t = genAnyInfo(r, 1)
		z = randBig(r, int(t.Bits)+r.Intn(10))
		if r.Intn(4) == 0 {
			z.Neg(z)
		}
		if r.Intn(5) == 0 {
			z = randBig(r, 140)
		}
		o.Count("result_arbitrary")
	}
	resultCheck(o, idx, t, z, want, r.Bool(), false)
}

// resultCheck decodes z twice on one *big.Int and evaluates inversion,
// purity and repeatability.  nilOutputs: call mpc.Results(results, nil).
func resultCheck(o *hxlib.Out, idx int, t types.Info, z *big.Int, want string, useResults, nilOutputs bool) {
	op := fmt.Sprintf("c13 result %s %s", infoTok(t), z.String())
	cell := new(big.Int).Set(z)
	before := new(big.Int).Set(z)
	arg := circuit.IOArg{Type: t}
	call := func() (string, bool) {
		var v interface{}
		var s string
		p, _ := guard(func() {
			if nilOutputs {
				v = mpc.Results([]*big.Int{cell}, nil)[0]
			} else if useResults {
				v = mpc.Results([]*big.Int{cell}, circuit.IO{arg})[0]
			} else {
				v = mpc.Result(cell, arg)
			}
			s = renderResult(t, v)
		})
		if p {
			return "panic", false
		}
		return s, true
	}
	r1, ok1 := call()
	cell1 := cell.String()
	var res string
	topBit := t.Type == types.TInt && t.Bits > 0 && before.Bit(int(t.Bits)-1) == 1
	elemTag := ""
	if t.ElementType != nil {
		elemTag = t.ElementType.Type.String()
	}
	if !ok1 {
		res = "panic"
		o.Count("result_panic")
		wellFormed := (t.Type == types.TArray || t.Type == types.TSlice) && wellFormedInfo(t)
		if wellFormed {
			compoundElem := elemTag == "array" || elemTag == "slice" || elemTag == "struct"
			intElemW0 := (elemTag == "int") && t.ElementType.Bits == 0
			if !intElemW0 && (compoundElem || elemTag == "int" || elemTag == "uint" || elemTag == "bool" || elemTag == "string") {
				failDedup(o, "c13-result-panic", map[string]any{"case": idx, "op": op, "tag": t.Type.String(), "elem_tag": elemTag,
					"compound_element": fmt.Sprint(compoundElem)})
			}
		} else if t.Type == types.TInt && t.Bits > 0 || t.Type == types.TUint || t.Type == types.TBool || t.Type == types.TString {
			failDedup(o, "c13-result-panic", map[string]any{"case": idx, "op": op, "tag": t.Type.String(), "elem_tag": "", "compound_element": "false"})
		}
	} else {
		r2, ok2 := call()
		cell2 := cell.String()
		if ok2 {
			res = fmt.Sprintf("%s %s %s %s", r1, cell1, r2, cell2)
		} else {
			res = fmt.Sprintf("%s %s panic", r1, cell1)
		}
		if want != "" && r1 != want {
			failDedup(o, "c13-result-wrong", map[string]any{"case": idx, "op": op, "tag": t.Type.String(), "want": want, "got": r1})
		}
		if cell1 != before.String() {
			failDedup(o, "c13-result-mutates", map[string]any{"case": idx, "op": op, "tag": t.Type.String(), "bits": int(t.Bits),
				"top_bit_set": fmt.Sprint(topBit), "before": before.String(), "after": cell1, "first": r1, "second": r2,
				"second_call_differs": r1 != r2,
				"after_is_before_minus_2_pow_bits": fmt.Sprint(cell1 == new(big.Int).Sub(before, pow2(int(t.Bits))).String())})
		} else if r1 != r2 || cell2 != cell1 {
			failDedup(o, "c13-result-not-repeatable", map[string]any{"case": idx, "op": op, "tag": t.Type.String(), "first": r1, "second": r2})
		}
	}
	o.Op(op, res)
	o.Count("op_result")
	if idx < 12 && want != "" {
		o.Sample(map[string]any{"case": idx, "op": op, "result": res})
	}
}

// ---------------------------------------------------------------- misc: split, instantiate, types.Parse, text flow

var typeStrings = []string{"b", "bool", "byte", "rune", "int", "uint", "i", "u", "int8", "uint64", "i32", "u1", "uint130", "int0",
	"string", "string8", "s16", "struct", "struct24", "bool7", "b3", "float", "float32", "[4]byte", "[]byte", "[0]uint8",
	"[2][3]int7", "[][]u4", "[3]bool", "[]string8", "[x]int", "[4]", "[]", "[4]int x", "uint99999999999", "[99999999999]byte",
	"uint2147483647", "uint2147483648", "Int8", "int-8", "", "8", "[ 4]byte", "[4]rune", "[]b", "UINT8", "uint08", "é8"}

func miscCase(o *hxlib.Out, r *hxlib.Rng, idx int) {
	switch r.Intn(4) {
	case 0: // IO.Split
		n := r.Intn(6)
		var ns []int
		total := 0
		for i := 0; i < n; i++ {
			w := r.Intn(70)
			if r.Intn(5) == 0 {
				w = 0
			}
			ns = append(ns, w)
			total += w
		}
		z := randBig(r, total+r.Intn(8))
		if r.Intn(5) == 0 {
			z.Neg(z)
		}
		runSplit(o, idx, ns, z)
	case 1: // InstantiateWithSizes on one leaf (type trees with struct members: instsCase in inst.go)
		t := genAnyInfo(r, 1)
		if r.Bool() {
			t.IsConcrete = false
		}
		if t.ElementType != nil {
			t.ElementType.IsConcrete = true
		}
		size := r.Intn(200)
		if t.Type == types.TStruct || t.Type == types.TPtr {
			t.Type = types.TUint
		}
		runInstLeaf(o, idx, t, size)
	case 2: // types.Parse
		s := typeStrings[r.Intn(len(typeStrings))]
		want := ""
		if r.Intn(2) == 0 {
			// synthesized type name with a known meaning
			pi := r.Intn(5)
			ni := r.Intn(8)
			bits := r.Intn(140)
			s = fmt.Sprintf("%s%s%d", []string{"", "[]", "[3]", "[0]", "[2][2]"}[pi],
				[]string{"int", "uint", "i", "u", "string", "s", "b", "bool"}[ni], bits)
			el := fmt.Sprintf("%s%d.0", []string{"i", "u", "i", "u", "s", "s", "b", "b"}[ni], bits)
			switch pi {
			case 0:
				want = "ok " + el + " 1"
			case 1:
				want = fmt.Sprintf("ok l0.0[%s] 1", el)
			case 2:
				want = fmt.Sprintf("ok a%d.3[%s] 1", 3*bits, el)
			case 3:
				want = fmt.Sprintf("ok a0.0[%s] 1", el)
			case 4:
				want = fmt.Sprintf("ok a%d.2[a%d.2[%s]] 1", 4*bits, 2*bits, el)
			}
		}
		var t types.Info
		var err error
		res := ""
		if p, _ := guard(func() { t, err = types.Parse(s) }); p {
			res = "panic"
		} else if err != nil {
			res = "err"
		} else {
			c := 0
			if t.IsConcrete {
				c = 1
			}
			res = fmt.Sprintf("ok %s %d", infoTok(t), c)
		}
		if want != "" && res != want {
			failDedup(o, "c13-type-parse-wrong", map[string]any{"case": idx, "type": s, "got": res, "want": want})
		}
		o.Op("c13 ty h"+hxlib.Hex([]byte(s)), res)
		o.Count("op_ty")
	default: // text flow: InputSizes -> InstantiateWithSizes -> Parse, non-negative values
		flowCase(o, r, idx)
	}
}

// flowCase: an unsized argument type is instantiated from the size inferred
// from the text, then the same text is parsed; the wires must hold the value
// that is written.
func flowCase(o *hxlib.Out, r *hxlib.Rng, idx int) {
	var t types.Info
	var str string
	var v leafVal
	isArr := r.Bool()
	if isArr {
		w := []int{4, 8, 8, 16, 12, 32, 3, 7}[r.Intn(8)]
		el := intInfo(false, w)
		t = types.Info{Type: types.TSlice, ElementType: &el}
		if r.Intn(3) == 0 {
			t.Type = types.TArray
		}
		k := r.Intn(6)
		var elems []*big.Int
		for j := 0; j < k; j++ {
			elems = append(elems, genInt(r, false, w))
		}
		var ok bool
		str, _, ok = spellArray(r, elems, w)
		if !ok {
			return
		}
		v = leafVal{kind: "arr", elems: elems}
	} else {
		t = types.Info{Type: types.TUint}
		z := genInt(r, false, pickWidth(r))
		str, _ = spellInt(r, z)
		if strings.HasPrefix(str, "+") {
			str = str[1:]
		}
		v = leafVal{kind: "int", z: z}
	}
	sizes, err := circuit.InputSizes([]string{str})
	op1 := "c13 isizes " + strsTok([]string{str})
	if err != nil {
		o.Op(op1, "err "+errKind(err))
		failDedup(o, "c13-flow-wrong", map[string]any{"case": idx, "op": op1, "stage": "InputSizes", "text": str})
		return
	}
	o.Op(op1, "ok "+intsTok(sizes))
	op2 := fmt.Sprintf("c13 inst %s 0 %d", infoTok(t), sizes[0])
	if err := t.InstantiateWithSizes(sizes); err != nil {
		o.Op(op2, "err unsupported")
		failDedup(o, "c13-flow-wrong", map[string]any{"case": idx, "op": op2, "stage": "InstantiateWithSizes", "text": str})
		return
	}
	o.Op(op2, "ok "+infoTok(t))
	arg := circuit.IOArg{Type: t}
	op3 := fmt.Sprintf("c13 parse %s %s", argTok(arg), strsTok([]string{str}))
	z, res := doParse(arg, []string{str})
	o.Op(op3, res)
	o.Count("op_flow")
	if z == nil {
		failDedup(o, "c13-flow-wrong", map[string]any{"case": idx, "op": op3, "stage": "Parse", "text": str, "result": res})
		return
	}
	// the instantiated type must have room for what is written and the wires must hold it
	if isArr {
		if int(t.ArraySize) < len(v.elems) {
			failDedup(o, "c13-flow-wrong", map[string]any{"case": idx, "op": op3, "stage": "size", "text": str,
				"array_size": int(t.ArraySize), "elements": len(v.elems)})
			return
		}
	} else if v.z.BitLen() > int(t.Bits) {
		failDedup(o, "c13-flow-wrong", map[string]any{"case": idx, "op": op3, "stage": "size", "text": str, "bits": int(t.Bits)})
		return
	}
	ref := refLeaf(t, v)
	if d := firstDiff(ref, wireOf(z, int(t.Bits))); d >= 0 {
		failDedup(o, "c13-flow-wrong", map[string]any{"case": idx, "op": op3, "stage": "wires", "text": str, "bit": d,
			"want": bitsToNat(ref).Text(16), "got": z.Text(16)})
	}
}

// ---------------------------------------------------------------- fixed corpus

// corpus: the hand-written witnesses (design section 0) and all 256 string
// bytes, always run first.
func corpus(o *hxlib.Out) {
	// every byte value through the string decoder
	for b := 0; b < 256; b++ {
		t := types.Info{Type: types.TString, IsConcrete: true, Bits: 8}
		z := big.NewInt(int64(b))
		v := mpc.Result(z, circuit.IOArg{Type: t})
		s := renderResult(t, v)
		o.Op(fmt.Sprintf("c13 result %s %d", infoTok(t), b), fmt.Sprintf("%s %d %s %d", s, b, s, b))
		// reference: printable Latin-1 as itself, others escaped
		want := fmt.Sprintf("\\u%04x", b)
		if unicode.IsPrint(rune(b)) {
			want = string(rune(b))
		}
		if v.(string) != want {
			failDedup(o, "c13-result-wrong", map[string]any{"case": -1, "tag": "string", "byte": b})
		}
	}
	o.CountN("corpus_string_bytes", 256)

	// hand-reproduced witnesses (DESIGN.md section 0), through the same oracles
	i64 := func(v int64) *big.Int { return big.NewInt(v) }
	intM := func(signed bool, w int, v int64, gv interface{}) member {
		return member{t: intInfo(signed, w), v: leafVal{kind: "int", z: i64(v)}, str: fmt.Sprint(v), hasStr: true,
			spell: "dec", gv: gv, hasGV: true, signed: signed}
	}
	// formerly (c) setInt: no sign extension above bit 64 (fixed by 95af76e): ordinary passing case
	encCheck(o, nil, -2, []member{intM(true, 65, -1, int64(-1))}, -1, nil)
	// formerly (c') sign bits of a negative int8 left in the wires of an array given no element (fixed by 95af76e)
	arr := member{t: arrInfo(false, 4, intInfo(false, 8)), v: leafVal{kind: "arr"}, str: "0", hasStr: true, spell: "dec",
		gv: nil, hasGV: true}
	alt := intM(true, 8, -1, int8(-1))
	encCheck(o, nil, -3, []member{intM(true, 8, 1, int8(1)), arr, intM(false, 32, 7, uint32(7))}, 0, &alt)
	encCheck(o, nil, -4, []member{intM(true, 8, -1, int8(-1)), arr, intM(false, 32, 7, uint32(7))}, -1, nil)
	// formerly (a) Result mutated its argument (fixed by 66e4e03): ordinary passing cases now
	resultCheck(o, -5, intInfo(true, 8), i64(0xF0), "i8:-16", false, false)
	resultCheck(o, -6, intInfo(true, 5), i64(16), "i8:-16", true, false)
	resultCheck(o, -7, intInfo(true, 100), pow2(99), "big:-"+pow2(99).String(), false, false)
	// formerly (d) nested array result panicked (fixed by 74f1961): the [2][2]uint8 output of a compiled program
	resultCheck(o, -8, arrInfo(false, 2, arrInfo(false, 2, intInfo(false, 8))), i64(0x04030201), "[[]uint8:[uint8:u8:1;u8:2];[uint8:u8:3;u8:4]]", true, false)
	// formerly (b) bitLen at 2 and 3 (fixed by 485d3fb): ordinary passing cases; negative values still differ
	sizesPair(o, nil, -9, i64(2), false, 8)
	sizesPair(o, nil, -10, i64(3), true, 8)
	sizesPair(o, nil, -11, i64(-3), true, 8)
	// the test-suite vectors of circuit/ioarg_test.go
	sizesPair(o, nil, -12, i64(255), false, 8)
	sizesPair(o, nil, -13, i64(5), false, 32)
	o.CountN("corpus_witnesses", 12)
}

func main() {
	if len(os.Args) < 2 {
		fmt.Fprintln(os.Stderr, "usage: c13 all|enc|result|sizes|misc|inst|judge [flags]")
		os.Exit(2)
	}
	mode := os.Args[1]
	cf, o := hxlib.ParseCommon("c13", os.Args[2:], nil)
	defer o.Close()
	// the compiler prints its diagnostics to os.Stdout; this harness writes to files only
	if dn, err := os.OpenFile(os.DevNull, os.O_WRONLY, 0); err == nil {
		os.Stdout = dn
	}
	if mode == "judge" {
		// re-run the op lines of a file (-extra ops=<file>) through their oracles
		judgeOps(o, strings.TrimPrefix(cf.Extra, "ops="))
		return
	}
	rng := hxlib.NewRng(cf.Seed)
	if mode == "all" && cf.Only < 0 {
		corpus(o)
	}
	if mode == "inst" && cf.Only < 0 {
		instCorpus(o)
	}
	for i := 0; i < cf.N; i++ {
		r := rng.Fork()
		if cf.Only >= 0 && i != cf.Only {
			continue
		}
		kind := mode
		if mode == "all" {
			switch i % 10 {
			case 0, 1, 2, 3:
				kind = "enc"
			case 4:
				kind = "any"
			case 5, 6:
				kind = "result"
			case 7:
				kind = "sizes"
			default:
				kind = "misc"
			}
		}
		p, msg := guard(func() {
			switch kind {
			case "enc":
				encCase(o, r, i)
			case "any":
				anyCase(o, r, i)
			case "result":
				resultCase(o, r, i)
			case "sizes":
				sizesCase(o, r, i)
			case "misc":
				miscCase(o, r, i)
			case "inst":
				if i%2 == 0 {
					mainargCase(o, r, i)
				} else {
					instsCase(o, r, i)
				}
			default:
				fmt.Fprintf(os.Stderr, "unknown mode %q\n", mode)
				os.Exit(2)
			}
		})
		if p {
			failDedup(o, "c13-harness-panic", map[string]any{"case": i, "kind": kind, "panic": msg})
		}
		o.Count("cases")
		o.Count("kind_" + kind)
	}
}

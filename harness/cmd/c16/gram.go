// Streaming session programs GENERATED from a small type grammar (C16 fault
// enumeration, argument descriptions).
//
// The argument description the streaming garbler sends is a TREE of records
// (name, type string, size word, member count, members).  The evaluator parses
// its own input strings with the widths of that tree, so a corruption of ANY
// size word of ANY node that the evaluator accepts makes it ask the OT for the
// bits of another input.  The fixed session programs only have flat
// descriptions (scalars, one struct of scalars, one array, one slice); here
// each party's argument is drawn from
//
//	sc  scalar                      uintW
//	ss  struct of scalars           struct { a uintW1; b uintW2; c uintW3 }
//	ar  array                       [N]uintW
//	sl  slice                       []uintW
//	sa  struct with array member    struct { a uintW1; b uintW2; c [N]uintW }
//	sv  struct with slice member    struct { a uintW1; c []uintW }
//	ns  nested struct               struct { a uintW1; in struct { p uintW2; q uintW3 }; b uintW4 }
//	as  array of structs            [N]struct { p uintW1; q uintW2 }
//
// every element / member of both inputs is NON-ZERO and the program uses every
// one of them with its own weight (a weighted sum into a uint24), so that a
// member packed with another width, a dropped tail element or a shifted member
// changes the result.  A program is named by its two shape codes
// (`gram/G=<code>/E=<code>`): the child process and a replay rebuild the source
// from the name alone.
package main

import (
	"fmt"
	"strconv"
	"strings"
	"time"

	"verifharness/hxlib"
)

const gramBase = 200

var gramKinds = []string{"sc", "ss", "ar", "sl", "sa", "sv", "ns", "as"}

// gShape: kind, the scalar member widths in declaration order, then for kinds
// with elements the element count n and element width ew.
type gShape struct {
	kind string
	w    []int
	n    int
	ew   int
}

func (s gShape) code() string {
	p := []string{s.kind}
	for _, w := range s.w {
		p = append(p, fmt.Sprint(w))
	}
	if s.n > 0 {
		p = append(p, fmt.Sprintf("%dx%d", s.n, s.ew))
	}
	return strings.Join(p, ".")
}

func parseShape(code string) (gShape, error) {
	p := strings.Split(code, ".")
	s := gShape{kind: p[0]}
	for _, f := range p[1:] {
		if i := strings.IndexByte(f, 'x'); i > 0 {
			n, e1 := strconv.Atoi(f[:i])
			ew, e2 := strconv.Atoi(f[i+1:])
			if e1 != nil || e2 != nil || n < 1 || n > 8 || ew < 1 || ew > 32 {
				return s, fmt.Errorf("bad shape %q", code)
			}
			s.n, s.ew = n, ew
			continue
		}
		w, err := strconv.Atoi(f)
		if err != nil || w < 1 || w > 32 {
			return s, fmt.Errorf("bad shape %q", code)
		}
		s.w = append(s.w, w)
	}
	want := map[string][2]int{"sc": {1, 0}, "ss": {3, 0}, "ar": {0, 1}, "sl": {0, 1}, "sa": {2, 1}, "sv": {1, 1}, "ns": {4, 0}, "as": {2, 1}}
	x, ok := want[s.kind]
	if !ok || len(s.w) != x[0] || (s.n > 0) != (x[1] == 1) {
		return s, fmt.Errorf("bad shape %q", code)
	}
	return s, nil
}

// randShape draws widths: scalars 5..16 bits, element widths 4 / 8 / 12 / 16
// (whole hex digits), 2..4 elements.
func randShape(kind string, r *hxlib.Rng) gShape {
	s := gShape{kind: kind}
	nw := map[string]int{"sc": 1, "ss": 3, "sa": 2, "sv": 1, "ns": 4, "as": 2}[kind]
	for i := 0; i < nw; i++ {
		s.w = append(s.w, 5+r.Intn(12))
	}
	switch kind {
	case "ar", "sl", "sa", "sv":
		s.n, s.ew = 2+r.Intn(3), 4*(1+r.Intn(4))
	case "as":
		s.n = 2 + r.Intn(2)
		// one element = p|q packed: a whole number of hex digits
		s.w[0] = 4 * (1 + r.Intn(3))
		s.w[1] = 4 * (1 + r.Intn(3))
		s.ew = s.w[0] + s.w[1]
	}
	return s
}

// decl: type declarations (names prefixed by tn), the argument's type, and one
// expression per element / member of argument `arg`.
func (s gShape) decl(tn, arg string) (decls, typ string, terms []string, pre string) {
	u := func(w int) string { return fmt.Sprintf("uint%d", w) }
	switch s.kind {
	case "sc":
		return "", u(s.w[0]), []string{arg}, ""
	case "ss":
		return fmt.Sprintf("type %s struct {\n\ta %s\n\tb %s\n\tc %s\n}\n", tn, u(s.w[0]), u(s.w[1]), u(s.w[2])), tn,
			[]string{arg + ".a", arg + ".b", arg + ".c"}, ""
	case "ar", "sl":
		typ = fmt.Sprintf("[%d]%s", s.n, u(s.ew))
		if s.kind == "sl" {
			typ = "[]" + u(s.ew)
		}
		for i := 0; i < s.n; i++ {
			terms = append(terms, fmt.Sprintf("%s[%d]", arg, i))
		}
		return "", typ, terms, ""
	case "sa", "sv":
		if s.kind == "sa" {
			decls = fmt.Sprintf("type %s struct {\n\ta %s\n\tb %s\n\tc [%d]%s\n}\n", tn, u(s.w[0]), u(s.w[1]), s.n, u(s.ew))
			terms = []string{arg + ".a", arg + ".b"}
		} else {
			decls = fmt.Sprintf("type %s struct {\n\ta %s\n\tc []%s\n}\n", tn, u(s.w[0]), u(s.ew))
			terms = []string{arg + ".a"}
		}
		for i := 0; i < s.n; i++ {
			terms = append(terms, fmt.Sprintf("%s.c[%d]", arg, i))
		}
		return decls, tn, terms, ""
	case "ns":
		decls = fmt.Sprintf("type %sIn struct {\n\tp %s\n\tq %s\n}\ntype %s struct {\n\ta %s\n\tin %sIn\n\tb %s\n}\n",
			tn, u(s.w[1]), u(s.w[2]), tn, u(s.w[0]), tn, u(s.w[3]))
		// (selectors of selectors are not implemented in MPCL: a local copy of the member)
		return decls, tn, []string{arg + ".a", arg + "in.p", arg + "in.q", arg + ".b"}, fmt.Sprintf("\t%sin := %s.in\n", arg, arg)
	case "as":
		decls = fmt.Sprintf("type %sEl struct {\n\tp %s\n\tq %s\n}\n", tn, u(s.w[0]), u(s.w[1]))
		for i := 0; i < s.n; i++ {
			pre += fmt.Sprintf("\t%s%d := %s[%d]\n", arg, i, arg, i)
			terms = append(terms, fmt.Sprintf("%s%d.p", arg, i), fmt.Sprintf("%s%d.q", arg, i))
		}
		return decls, fmt.Sprintf("[%d]%sEl", s.n, tn), terms, pre
	}
	return "", "", nil, ""
}

// nz: a non-zero value of w bits.
func nz(r *hxlib.Rng, w int) uint64 {
	m := uint64(1)<<uint(w) - 1
	v := r.U64() & m
	if v == 0 {
		v = 1 + r.U64()%m
	}
	return v
}

// elems: n non-zero elements of ew bits as ONE hex string of whole digits (the
// form IOArg.Parse splits into elements; ew is a multiple of 4).
func elems(r *hxlib.Rng, n, ew int) string {
	s := "0x"
	for i := 0; i < n; i++ {
		s += fmt.Sprintf("%0*x", ew/4, nz(r, ew))
	}
	return s
}

// inputs: one string per top-level member, every element non-zero.
func (s gShape) inputs(r *hxlib.Rng) []string {
	d := func(w int) string { return fmt.Sprint(nz(r, w)) }
	switch s.kind {
	case "sc":
		return []string{d(s.w[0])}
	case "ss":
		return []string{d(s.w[0]), d(s.w[1]), d(s.w[2])}
	case "ar", "sl":
		return []string{elems(r, s.n, s.ew)}
	case "sa":
		return []string{d(s.w[0]), d(s.w[1]), elems(r, s.n, s.ew)}
	case "sv":
		return []string{d(s.w[0]), elems(r, s.n, s.ew)}
	case "ns":
		return []string{d(s.w[0]), d(s.w[1]), d(s.w[2]), d(s.w[3])}
	case "as":
		// every p and q non-zero: elements of ew = w0+w1 bits, q in the high part
		out := "0x"
		for i := 0; i < s.n; i++ {
			v := nz(r, s.w[1])<<uint(s.w[0]) | nz(r, s.w[0])
			out += fmt.Sprintf("%0*x", s.ew/4, v)
		}
		return []string{out}
	}
	return nil
}

var gramWeights = []int{1, 3, 5, 7, 11, 13, 17, 19, 23, 29, 31, 37, 41, 43, 47, 53, 59, 61, 67, 71}

// gramSource: main(g <G>, e <E>) uint24 = weighted sum of every element.
func gramSource(g, e gShape) string {
	gd, gt, gterms, gpre := g.decl("GT", "g")
	ed, et, eterms, epre := e.decl("ET", "e")
	var sum []string
	for i, t := range append(gterms, eterms...) {
		sum = append(sum, fmt.Sprintf("uint24(%s)*%d", t, gramWeights[i%len(gramWeights)]))
	}
	return "package main\n" + gd + ed + fmt.Sprintf("func main(g %s, e %s) uint24 {\n%s%s\treturn %s\n}\n", gt, et, gpre, epre, strings.Join(sum, " + "))
}

func gramName(g, e gShape) string { return "gram/G=" + g.code() + "/E=" + e.code() }

// gramProg rebuilds a generated program from its name.
func gramProg(name string) (*streamProg, error) {
	p := strings.Split(name, "/")
	if len(p) != 3 || p[0] != "gram" || !strings.HasPrefix(p[1], "G=") || !strings.HasPrefix(p[2], "E=") {
		return nil, fmt.Errorf("bad program name %q", name)
	}
	g, err := parseShape(p[1][2:])
	if err != nil {
		return nil, err
	}
	e, err := parseShape(p[2][2:])
	if err != nil {
		return nil, err
	}
	return &streamProg{name: name, src: gramSource(g, e), outBits: 24}, nil
}

// gramSessions: one session per evaluator shape kind; the garbler's kind
// rotates with the seed so that every kind is on either side once per run.
// Widths, element counts and inputs come from the seed.
func gramSessions(seed uint64) []*streamSess {
	var out []*streamSess
	rot := 1 + int(seed%uint64(len(gramKinds)-1))
	for k, ek := range gramKinds {
		r := hxlib.NewRng(hxlib.NewRng(seed^0x67a3).U64() + uint64(k)*0x9e3779b97f4a7c15)
		e := randShape(ek, r)
		g := randShape(gramKinds[(k+rot)%len(gramKinds)], r)
		p := &streamProg{name: gramName(g, e), src: gramSource(g, e), outBits: 24}
		out = append(out, &streamSess{prog: p, src: p.src, gin: g.inputs(r), ein: e.inputs(r), outBits: 24})
	}
	return out
}

// gramList (development aid): `c16 gramlist <seed>` prints the generated
// sessions of a seed and the class of their fault-free run.
func gramList(args []string) int {
	seed, _ := strconv.ParseUint(args[0], 10, 64)
	for k, ss := range gramSessions(seed) {
		class, d := runStreamFault(seed, nil, gramBase+k, ss, false, 20*time.Second)
		fmt.Printf("%s gin=%s ein=%s class=%s g2e=%d\n", ss.prog.name, joinIn(ss.gin), joinIn(ss.ein), class, len(d.AB.Rec))
		if class != "ok" || len(args) > 1 {
			res := hxlib.RunStreamSession(ss.src, ss.gin, ss.ein, hxlib.IdealOTFactory, nil, hxlib.NewDuplex(nil), 20*time.Second)
			fmt.Printf("  gerr=%v eerr=%v gpanic=%v\n%s", res.GErr, res.EErr, res.GPanic, ss.src)
		}
	}
	return 0
}

// Streaming sessions of the C16 fault enumeration: the session programs
// (struct / array / slice / multi-value arguments and results), the choice of
// inputs (every output bit position carries a 1 in some session), the layout
// of both byte streams (where every LENGTH / COUNT / WIDTH field sits), and
// the explanation of a wrong result by the evaluator's re-parsed input.
package main

import (
	"encoding/binary"
	"fmt"
	"math/big"
	"strings"
	"time"

	"github.com/markkurossi/mpc/circuit"
	"github.com/markkurossi/mpc/compiler"
	"github.com/markkurossi/mpc/types"

	"verifharness/hxlib"
)

// Streaming sessions (compiler.Stream <-> circuit.StreamEvaluator) take part in
// the fault enumeration as session indices >= streamBase: index = streamBase
// + variant*len(streamProgs) + program.
const streamBase = 100

type streamProg struct {
	name    string
	src     string
	outBits int
	// gen draws one input set (garbler strings, evaluator strings).
	gen func(r *hxlib.Rng) ([]string, []string)
	// special input sets (extreme values) offered to the coverage choice
	special [][2][]string
}

func u(r *hxlib.Rng, bits uint) uint64 { return r.U64() & (1<<bits - 1) }

func hexN(v uint64, digits int) string { return fmt.Sprintf("0x%0*x", digits, v) }

func sp(g, e []string) [2][]string { return [2][]string{g, e} }

var streamProgs = []streamProg{
	{name: "mul4", src: "package main\nfunc main(a, b uint4) uint4 {\n\treturn a*b + 1\n}\n", outBits: 4,
		gen: func(r *hxlib.Rng) ([]string, []string) {
			return []string{fmt.Sprint(u(r, 4))}, []string{fmt.Sprint(u(r, 4))}
		}},
	{name: "branch6", src: "package main\nfunc main(a, b uint6) (uint6, bool) {\n\tc := a + b\n\tif c > a {\n\t\treturn c, true\n\t}\n" +
		"\treturn a &^ b, false\n}\n", outBits: 7,
		gen: func(r *hxlib.Rng) ([]string, []string) {
			return []string{fmt.Sprint(u(r, 6))}, []string{fmt.Sprint(u(r, 6))}
		},
		special: [][2][]string{sp([]string{"0"}, []string{"63"})}},
	{name: "pair5", src: "package main\nfunc main(a, b int5) (int5, int5) {\n\treturn a - b, a & b\n}\n", outBits: 10,
		gen: func(r *hxlib.Rng) ([]string, []string) {
			return []string{fmt.Sprint(u(r, 5))}, []string{fmt.Sprint(u(r, 5))}
		},
		special: [][2][]string{sp([]string{"31"}, []string{"0"}), sp([]string{"31"}, []string{"31"}), sp([]string{"30"}, []string{"31"})}},
	// the evaluator's argument is a struct: the evaluator parses ITS OWN input
	// strings with the member widths the garbler sent
	{name: "structE", src: "package main\ntype Pair struct {\n\tx uint16\n\ty uint16\n}\nfunc main(a uint16, b Pair) (uint16, uint16) {\n" +
		"\treturn a + b.x, b.y ^ a\n}\n", outBits: 32,
		gen: func(r *hxlib.Rng) ([]string, []string) {
			return []string{fmt.Sprint(u(r, 16))}, []string{hexN(u(r, 16), 4), hexN(u(r, 16), 4)}
		},
		special: [][2][]string{sp([]string{"65535"}, []string{"0x0000", "0x0000"}), sp([]string{"0"}, []string{"0xffff", "0xffff"})}},
	// arrays on both sides and an array result
	{name: "arrayE", src: "package main\nfunc main(a [4]uint4, b [4]uint4) [4]uint4 {\n\tvar r [4]uint4\n\tfor i := 0; i < 4; i++ {\n" +
		"\t\tr[i] = a[i] ^ b[3-i]\n\t}\n\treturn r\n}\n", outBits: 16,
		gen: func(r *hxlib.Rng) ([]string, []string) {
			return []string{hexN(u(r, 16), 4)}, []string{hexN(u(r, 16), 4)}
		},
		special: [][2][]string{sp([]string{"0xffff"}, []string{"0x0000"}), sp([]string{"0x0000"}, []string{"0xffff"})}},
	// the garbler's argument is a struct with members of three kinds; three results
	{name: "structG", src: "package main\ntype T struct {\n\tp uint8\n\tq bool\n\tr int7\n}\nfunc main(a T, b uint8) (uint8, bool, int7) {\n" +
		"\treturn a.p ^ b, a.q, a.r\n}\n", outBits: 16,
		gen: func(r *hxlib.Rng) ([]string, []string) {
			return []string{fmt.Sprint(u(r, 8)), []string{"false", "true"}[r.Intn(2)], fmt.Sprint(u(r, 7))}, []string{fmt.Sprint(u(r, 8))}
		},
		special: [][2][]string{sp([]string{"255", "true", "127"}, []string{"0"}), sp([]string{"0", "true", "127"}, []string{"255"})}},
	// the evaluator's argument is a slice: its element width travels only in
	// the type string of the argument description
	{name: "sliceE", src: "package main\nfunc main(a uint16, b []uint16) (uint16, uint16) {\n\tvar s uint16\n\tfor i := 0; i < len(b); i++ {\n" +
		"\t\ts = s ^ b[i]\n\t}\n\treturn s ^ a, b[0]\n}\n", outBits: 32,
		gen: func(r *hxlib.Rng) ([]string, []string) {
			return []string{fmt.Sprint(u(r, 16))}, []string{hexN(r.U64()&(1<<48-1), 12)}
		},
		special: [][2][]string{sp([]string{"0"}, []string{"0xffffffffffff"}), sp([]string{"65535"}, []string{"0xffff00000000"}),
			sp([]string{"65535"}, []string{"0x00000000ffff"})}},
}

type streamSess struct {
	prog     *streamProg
	src      string
	gin, ein []string
	outBits  int
}

func joinIn(v []string) string { return strings.Join(v, ";") }
func splitIn(s string) []string {
	if s == "" {
		return nil
	}
	return strings.Split(s, ";")
}

// packResult is the garbler's raw result (outputs concatenated, little endian).
func packResult(outs circuit.IO, vals []*big.Int) *big.Int {
	r := new(big.Int)
	ofs := 0
	for i, o := range outs {
		if i < len(vals) {
			for b := 0; b < int(o.Type.Bits); b++ {
				r.SetBit(r, ofs+b, vals[i].Bit(b))
			}
		}
		ofs += int(o.Type.Bits)
	}
	return r
}

// wholeRef is the whole-circuit reference of a streaming program for given
// input sizes; computeRaw evaluates it on raw (already packed) argument values.
type wholeRef struct {
	circ *circuit.Circuit
	err  error
}

func newWholeRef(src string, gin, ein []string) (w *wholeRef) {
	w = &wholeRef{}
	defer func() {
		if e := recover(); e != nil {
			w.err = fmt.Errorf("panic: %v", e)
		}
	}()
	sizes, err := hxlib.StreamInputSizes(gin, ein)
	if err != nil {
		w.err = err
		return
	}
	params := hxlib.StreamParams(nil)
	defer params.Close()
	w.circ, _, w.err = compiler.New(params).Compile(src, sizes)
	if w.err == nil && len(w.circ.Inputs) != 2 {
		w.err = fmt.Errorf("%d parties", len(w.circ.Inputs))
	}
	return
}

func (w *wholeRef) computeRaw(x, y *big.Int) (res []*big.Int, err error) {
	defer func() {
		if e := recover(); e != nil {
			err = fmt.Errorf("panic: %v", e)
		}
	}()
	var flat []*big.Int
	for i, v := range []*big.Int{x, y} {
		arg := w.circ.Inputs[i]
		if len(arg.Compound) == 0 {
			flat = append(flat, v)
			continue
		}
		ofs := 0
		for _, c := range arg.Compound {
			part := new(big.Int)
			for b := 0; b < int(c.Type.Bits); b++ {
				part.SetBit(part, b, v.Bit(ofs+b))
			}
			ofs += int(c.Type.Bits)
			flat = append(flat, part)
		}
	}
	return w.circ.Compute(flat)
}

func (w *wholeRef) compute(gin, ein []string) ([]*big.Int, error) {
	x, err := w.circ.Inputs[0].Parse(gin)
	if err != nil {
		return nil, err
	}
	y, err := w.circ.Inputs[1].Parse(ein)
	if err != nil {
		return nil, err
	}
	return w.computeRaw(x, y)
}

// chooseStreamSessions picks, per program, `variants` input sets from the
// seed.  Variant 0 is random; each later variant is the candidate (the
// program's special input sets and 24 random ones) that puts a 1 at the most
// output bit positions not covered yet, so that a truncated or shifted result
// is visibly wrong in some session.  Returns the sessions in index order and,
// per program, the number of output bit positions left uncovered.
func chooseStreamSessions(seed uint64, variants int) ([]*streamSess, map[string]int, error) {
	out := make([]*streamSess, variants*len(streamProgs))
	uncovered := map[string]int{}
	for k := range streamProgs {
		p := &streamProgs[k]
		r := hxlib.NewRng(seed*1000003 + uint64(k)*7919 + 13)
		var ref *wholeRef
		covered := new(big.Int)
		for v := 0; v < variants; v++ {
			var cands [][2][]string
			if v > 0 {
				cands = append(cands, p.special...)
			}
			ntry := 24
			if v == 0 {
				ntry = 1
			}
			for try := 0; try < ntry; try++ {
				gin, ein := p.gen(r)
				cands = append(cands, sp(gin, ein))
			}
			var best *streamSess
			var bestRaw *big.Int
			bestNew := -1
			for _, c := range cands {
				if ref == nil {
					ref = newWholeRef(p.src, c[0], c[1])
					if ref.err != nil {
						return nil, nil, fmt.Errorf("%s: %v", p.name, ref.err)
					}
				}
				res, err := ref.compute(c[0], c[1])
				if err != nil {
					return nil, nil, fmt.Errorf("%s: %v", p.name, err)
				}
				raw := packResult(ref.circ.Outputs, res)
				n := 0
				for b := 0; b < p.outBits; b++ {
					if raw.Bit(b) == 1 && covered.Bit(b) == 0 {
						n++
					}
				}
				if n > bestNew {
					bestNew, bestRaw = n, raw
					best = &streamSess{prog: p, src: p.src, gin: c[0], ein: c[1], outBits: p.outBits}
				}
			}
			covered.Or(covered, bestRaw)
			out[v*len(streamProgs)+k] = best
		}
		if ref.circ.Outputs.Size() != p.outBits {
			return nil, nil, fmt.Errorf("%s: %d output bits, table says %d", p.name, ref.circ.Outputs.Size(), p.outBits)
		}
		for b := 0; b < p.outBits; b++ {
			if covered.Bit(b) == 0 {
				uncovered[p.name]++
			}
		}
	}
	return out, uncovered, nil
}

// runStreamFault runs one streaming session with at most one fault.
func runStreamFault(seed uint64, f *faultCase, ci int, ss *streamSess, ideal bool, deadline time.Duration) (string, *hxlib.Duplex) {
	rr := hxlib.NewRng(seed*1000003 + uint64(ci)*7919 + 17)
	d := hxlib.NewDuplex(nil)
	if f != nil {
		if f.dir == 0 {
			d.AB.Mutate = mutator(f)
		} else {
			d.BA.Mutate = mutator(f)
		}
	}
	otf := hxlib.COFactory(rr.Fork())
	if ideal {
		otf = hxlib.IdealOTFactory
	}
	res := hxlib.RunStreamSession(ss.src, ss.gin, ss.ein, otf, rr.Fork(), d, deadline)
	d.Close()
	class := ""
	switch {
	case res.Stalled && res.GRes == nil:
		class = "stalled"
	case res.GPanic != nil, res.GErr != nil:
		class = "error"
	default:
		ref := hxlib.StreamReference(ss.src, ss.gin, ss.ein)
		if ref.Err != nil || ref.Panic != nil {
			class = "error"
		} else if hxlib.BigsString(ref.Res) == hxlib.BigsString(res.GRes) {
			class = "ok"
		} else {
			class = "WRONG got=" + hxlib.BigsString(res.GRes) + " want=" + hxlib.BigsString(ref.Res)
		}
	}
	if res.GPanic != nil {
		class += " gpanic"
	}
	if res.EPanic != nil {
		class += " epanic"
	}
	return class, d
}

// ---------------------------------------------------------------- layout

// field is one located field of the garbler->evaluator stream.
type field struct {
	off  int
	size int    // 4 (big-endian word) or 1 (a digit of a type string)
	kind string // keylen namelen typelen typedigit bits ccount nout nsteps op step ngates ntmp nwires retid reslen
	path string // in1, in2, in2.m0, out0, circ3, ret
	val  int
}

func (f field) isLength() bool {
	switch f.kind {
	case "keylen", "namelen", "typelen", "bits", "ccount", "nout", "nsteps", "ngates", "ntmp", "nwires", "reslen":
		return true
	}
	return false
}

// argDesc is one argument record as receiveArgument reads it.
type argDesc struct {
	name, typ string
	size      int
	members   []*argDesc
	lo, hi    int // byte range of the record
}

type layout struct {
	fields     []field
	in1, in2   *argDesc
	outs       []*argDesc
	headerEnd  int
	opsStart   int
	opsLen     int
	ncirc      int
	resultMsg  int // length of the evaluator's result message (evaluator->garbler, ideal OT: the whole stream)
	resultHead int // its bytes in front of the result labels
	headBytes  []byte
	err        string
}

type lrd struct {
	b   []byte
	pos int
	err error
	l   *layout
}

func (r *lrd) need(n int) bool {
	if r.err != nil {
		return false
	}
	if n < 0 || r.pos+n > len(r.b) {
		r.err = fmt.Errorf("short stream at %d (+%d of %d)", r.pos, n, len(r.b))
		return false
	}
	return true
}

func (r *lrd) u32(kind, path string) int {
	if !r.need(4) {
		return 0
	}
	v := int(binary.BigEndian.Uint32(r.b[r.pos:]))
	if r.l != nil && kind != "" {
		r.l.fields = append(r.l.fields, field{r.pos, 4, kind, path, v})
	}
	r.pos += 4
	return v
}

func (r *lrd) str(kind, path string) string {
	n := r.u32(kind, path)
	if !r.need(n) {
		return ""
	}
	s := string(r.b[r.pos : r.pos+n])
	r.pos += n
	return s
}

func (r *lrd) arg(path string, depth int) *argDesc {
	a := &argDesc{lo: r.pos}
	a.name = r.str("namelen", path)
	tpos := r.pos + 4
	a.typ = r.str("typelen", path)
	if r.err == nil && r.l != nil {
		for i := 0; i < len(a.typ); i++ {
			if a.typ[i] >= '0' && a.typ[i] <= '9' {
				r.l.fields = append(r.l.fields, field{tpos + i, 1, "typedigit", path, int(a.typ[i])})
			}
		}
	}
	a.size = r.u32("bits", path)
	n := r.u32("ccount", path)
	if depth > 6 || n > 64 {
		if r.err == nil {
			r.err = fmt.Errorf("bad argument record at %d", r.pos)
		}
		return a
	}
	for i := 0; i < n && r.err == nil; i++ {
		a.members = append(a.members, r.arg(fmt.Sprintf("%s.m%d", path, i), depth+1))
	}
	a.hi = r.pos
	return a
}

// parseHeader reads the program description: key, the two argument records,
// the output records, the step count.
func parseHeader(b []byte, l *layout) (in1, in2 *argDesc, outs []*argDesc, end int, err error) {
	r := &lrd{b: b, l: l}
	n := r.u32("keylen", "key")
	if r.need(n) {
		r.pos += n
	}
	in1 = r.arg("in1", 0)
	in2 = r.arg("in2", 0)
	no := r.u32("nout", "outs")
	if no > 64 && r.err == nil {
		r.err = fmt.Errorf("%d outputs", no)
	}
	for i := 0; i < no && r.err == nil; i++ {
		outs = append(outs, r.arg(fmt.Sprintf("out%d", i), 0))
	}
	r.u32("nsteps", "steps")
	return in1, in2, outs, r.pos, r.err
}

// parseOps reads the instruction part (OpCircuit blocks, then OpReturn with
// nout wire ids and the result data) and must end exactly at len(b).
func parseOps(b []byte, start, nout int, l *layout) error {
	r := &lrd{b: b, pos: start, l: l}
	nc := 0
	for r.err == nil {
		op := r.u32("op", fmt.Sprintf("circ%d", nc))
		if r.err != nil {
			break
		}
		switch op {
		case 1:
			p := fmt.Sprintf("circ%d", nc)
			r.u32("step", p)
			ng := r.u32("ngates", p)
			r.u32("ntmp", p)
			r.u32("nwires", p)
			for g := 0; g < ng && r.err == nil; g++ {
				if !r.need(1) {
					break
				}
				gop := int(r.b[r.pos])
				r.pos++
				idw := 2
				if gop&0x10 == 0 {
					idw = 4
				}
				nw, rows := 3, 0
				switch gop & 0x0f {
				case 0, 1:
				case 2:
					rows = 2
				case 3:
					rows = 3
				case 4:
					nw, rows = 2, 1
				default:
					r.err = fmt.Errorf("bad gate op %#x at %d", gop, r.pos)
				}
				if r.need(nw*idw + 16*rows) {
					r.pos += nw*idw + 16*rows
				}
			}
			nc++
		case 2:
			if l != nil && len(l.fields) > 0 {
				l.fields[len(l.fields)-1].path = "ret"
			}
			for i := 0; i < nout; i++ {
				r.u32("retid", "ret")
			}
			n := r.u32("reslen", "ret")
			if r.need(n) {
				r.pos += n
			}
			if r.err == nil && r.pos != len(b) {
				r.err = fmt.Errorf("%d trailing bytes", len(b)-r.pos)
			}
			if l != nil {
				l.ncirc = nc
			}
			return r.err
		default:
			r.err = fmt.Errorf("unknown op %d at %d", op, r.pos-4)
		}
	}
	return r.err
}

// records counts the records of a description tree, depth its height.
func (a *argDesc) records() int {
	n := 1
	for _, m := range a.members {
		n += m.records()
	}
	return n
}

func (a *argDesc) depth() int {
	d := 0
	for _, m := range a.members {
		if m.depth() > d {
			d = m.depth()
		}
	}
	return d + 1
}

func (a *argDesc) bitsSum() int {
	s := 0
	for _, m := range a.members {
		s += m.size
	}
	return s
}

// streamLayout locates the fields of the two streams of a baseline session:
// ab / ba are the recorded streams of the session with the real OT on the
// wire, iab / iba those of the same session with the ideal OT (there the
// streams carry only Program.Stream's and StreamEvaluator's own messages, so
// the instruction part and the result message can be measured).
func streamLayout(ab, ba, iab, iba []byte, outBits int) *layout {
	l := &layout{}
	var err error
	l.in1, l.in2, l.outs, l.headerEnd, err = parseHeader(ab, l)
	if err != nil {
		l.err = "header: " + err.Error()
		return l
	}
	_, _, _, iend, err := parseHeader(iab, nil)
	if err != nil || iend != l.headerEnd {
		l.err = fmt.Sprintf("ideal header: %v end %d/%d", err, iend, l.headerEnd)
		return l
	}
	nout := 0
	for _, o := range l.outs {
		nout += o.size
	}
	l.opsLen = len(iab) - (l.headerEnd + 16*l.in1.size)
	l.opsStart = len(ab) - l.opsLen
	if l.opsLen <= 0 || l.opsStart < l.headerEnd+16*l.in1.size {
		l.err = fmt.Sprintf("instruction part: %d bytes at %d", l.opsLen, l.opsStart)
		return l
	}
	if err := parseOps(ab, l.opsStart, nout, l); err != nil {
		l.err = "instruction part: " + err.Error()
		return l
	}
	l.resultMsg = len(iba)
	l.resultHead = len(iba) - 16*outBits
	if l.resultHead < 0 || l.resultMsg > len(ba) {
		l.err = fmt.Sprintf("result message: %d bytes for %d result bits", len(iba), outBits)
		return l
	}
	l.headBytes = append([]byte(nil), iba[:l.resultHead]...)
	return l
}

// touched lists the fields a fault changes.
func (l *layout) touched(f *faultCase) []field {
	lo, hi := f.span()
	var out []field
	for _, fd := range l.fields {
		if fd.off < hi && fd.off+fd.size > lo {
			out = append(out, fd)
		}
	}
	return out
}

// ---------------------------------------------------------------- wrong results explained by the evaluator's re-parsed input

// toIOArg rebuilds the argument exactly as circuit.receiveArgument does.
func (a *argDesc) toIOArg() (arg circuit.IOArg, err error) {
	defer func() {
		if e := recover(); e != nil {
			err = fmt.Errorf("panic: %v", e)
		}
	}()
	arg.Name = a.name
	arg.Type, err = types.Parse(a.typ)
	if err != nil {
		return arg, err
	}
	arg.Type.Bits = types.Size(a.size)
	if arg.Type.Type == types.TSlice {
		arg.Type.ArraySize = arg.Type.Bits / arg.Type.ElementType.Bits
	}
	for _, m := range a.members {
		c, err := m.toIOArg()
		if err != nil {
			return arg, err
		}
		arg.Compound = append(arg.Compound, c)
	}
	return arg, nil
}

// locallyConsistent: the conditions an evaluator can check on a received
// argument description without knowing the program (hooks/c16-stream-
// argument-description-consistency.patch): the size word equals the size the
// type string carries (when it carries one), a slice's size is a multiple of
// its element size, member sizes add up to the size of the compound.
func (a *argDesc) locallyConsistent() bool {
	t, err := types.Parse(a.typ)
	if err != nil {
		return false
	}
	if bits, ok := typeSize(t); ok && bits != a.size {
		return false
	}
	if t.Type == types.TSlice && (t.ElementType == nil || t.ElementType.Bits == 0 || a.size%int(t.ElementType.Bits) != 0) {
		return false
	}
	if len(a.members) > 0 && a.bitsSum() != a.size {
		return false
	}
	for _, m := range a.members {
		if !m.locallyConsistent() {
			return false
		}
	}
	return true
}

// typeSize: the size a parsed type string determines (false: it leaves the
// size open: a name without size, a slice, an array of such elements).
func typeSize(t types.Info) (int, bool) {
	switch t.Type {
	case types.TSlice:
		return 0, false
	case types.TArray:
		if t.ElementType == nil {
			return 0, false
		}
		el, ok := typeSize(*t.ElementType)
		if !ok {
			return 0, false
		}
		return int(t.ArraySize) * el, true
	}
	return int(t.Bits), t.IsConcrete
}

// explainWrong decides whether a wrong result `got` of a garbler->evaluator
// fault is f(x, y') for the input y' the evaluator parses from its own strings
// under the corrupted description of its argument.  ab is the baseline
// garbler->evaluator stream.
func explainWrong(ss *streamSess, l *layout, ab []byte, f *faultCase, got string) map[string]any {
	out := map[string]any{}
	if f.dir != 0 || l == nil || l.err != "" {
		return out
	}
	lo, hi := f.span()
	hdr := append([]byte(nil), ab[:l.headerEnd]...)
	mutator(f)(0, hdr)
	changed := 0
	inside := true
	for i := range hdr {
		if hdr[i] != ab[i] {
			changed++
			if i < l.in2.lo || i >= l.in2.hi {
				inside = false
			}
		}
	}
	if hi > l.headerEnd && lo < len(ab) {
		inside = false // the fault reaches beyond the description
	}
	if changed == 0 {
		return out
	}
	out["only_evaluator_input_description_touched"] = inside
	_, in2, _, _, err := parseHeader(hdr, nil)
	if err != nil || in2 == nil {
		return out
	}
	out["description_locally_consistent"] = in2.locallyConsistent()
	arg, err := in2.toIOArg()
	if err != nil || in2.size != l.in2.size {
		return out
	}
	var y2 *big.Int
	func() {
		defer func() { recover() }()
		y2, err = arg.Parse(ss.ein)
	}()
	if err != nil || y2 == nil {
		return out
	}
	y2.And(y2, new(big.Int).Sub(new(big.Int).Lsh(big.NewInt(1), uint(in2.size)), big.NewInt(1)))
	ref := newWholeRef(ss.src, ss.gin, ss.ein)
	if ref.err != nil {
		return out
	}
	x, err := ref.circ.Inputs[0].Parse(ss.gin)
	if err != nil {
		return out
	}
	y, err := ref.circ.Inputs[1].Parse(ss.ein)
	if err != nil {
		return out
	}
	res, err := ref.computeRaw(x, y2)
	if err != nil {
		return out
	}
	out["evaluator_input_meant"] = y.Text(16)
	out["evaluator_input_reparsed"] = y2.Text(16)
	out["result_is_f_of_reparsed_input"] = y.Cmp(y2) != 0 && hxlib.BigsString(res) == got
	return out
}

// c16: the garbler under message corruption, on the real code.
//
//	decide: the real circuit.Garbler against a scripted evaluator that returns
//	        chosen output labels (honest / garbage / one bit flipped / the other
//	        label of the wire); outcome (error | results) compared with the Lean
//	        decision-logic model (decodeLabels).
//	faults: fault enumeration: bit flips, byte sets and 16-byte bursts at byte
//	        positions of both directions of complete sessions (real OT on the
//	        wire); the garbler's outcome class must be error | stalled | crash |
//	        ok(correct); ok(wrong) is the violation.  Cases run in child
//	        processes under RLIMIT_AS because a corrupted count field makes the
//	        receiving side allocate gigabytes.
package main

import (
	"fmt"
	"math/big"
	"os"
	"os/exec"
	"sort"
	"strconv"
	"strings"
	"sync"
	"syscall"
	"time"

	"github.com/markkurossi/mpc/circuit"
	"github.com/markkurossi/mpc/env"
	"github.com/markkurossi/mpc/ot"
	"github.com/markkurossi/mpc/p2p"

	"verifharness/hxlib"
)

func main() {
	if len(os.Args) < 2 {
		fmt.Fprintln(os.Stderr, "usage: c16 decide|faults|faultchild [flags]")
		os.Exit(2)
	}
	switch os.Args[1] {
	case "decide":
		os.Exit(decide(os.Args[2:]))
	case "faults":
		os.Exit(faults(os.Args[2:]))
	case "faultchild":
		os.Exit(faultChild(os.Args[2:]))
	default:
		fmt.Fprintf(os.Stderr, "unknown mode %q\n", os.Args[1])
		os.Exit(2)
	}
}

func bitsToBig(bits []bool) *big.Int {
	v := new(big.Int)
	for i, b := range bits {
		if b {
			v.SetBit(v, i, 1)
		}
	}
	return v
}

func labelHex(l ot.Label) string {
	var d ot.LabelData
	l.GetData(&d)
	return hxlib.Hex(d[:])
}

func intsString(v []int) string {
	var s []string
	for _, x := range v {
		s = append(s, fmt.Sprint(x))
	}
	return strings.Join(s, ",")
}

type sess struct {
	c      *circuit.Circuit
	widths []int
	x, y   []bool
	tape   []byte
}

func genSession(r *hxlib.Rng, maxGates, maxIn int, mix string) *sess {
	c := hxlib.GenCircuit(r, hxlib.GenOpts{MaxGates: maxGates, MaxIn: maxIn, Mix: mix})
	n := c.Outputs.Size()
	var widths []int
	for n > 0 {
		w := 1 + r.Intn(n)
		widths = append(widths, w)
		n -= w
	}
	var outs circuit.IO
	for i, w := range widths {
		outs = append(outs, hxlib.UintIO(fmt.Sprintf("r%d", i), w))
	}
	c.Outputs = outs
	n0 := int(c.Inputs[0].Type.Bits)
	n1 := int(c.Inputs[1].Type.Bits)
	s := &sess{c: c, widths: widths, x: make([]bool, n0), y: make([]bool, n1)}
	for j := range s.x {
		s.x[j] = r.Bool()
	}
	for j := range s.y {
		s.y[j] = r.Bool()
	}
	s.tape = r.Bytes(32 + 16*(1+n0+n1))
	return s
}

// ---------------------------------------------------------------- decide

// scriptedEvaluator follows circuit.Evaluator's receive sequence but returns
// the given labels instead of evaluating.
func scriptedEvaluator(conn *p2p.Conn, oti ot.OT, c *circuit.Circuit, labels []ot.Label) error {
	if _, err := conn.ReceiveData(); err != nil {
		return err
	}
	count, err := conn.ReceiveUint32()
	if err != nil {
		return err
	}
	var label ot.Label
	var ld ot.LabelData
	for i := 0; i < count; i++ {
		n, err := conn.ReceiveUint32()
		if err != nil {
			return err
		}
		for j := 0; j < n; j++ {
			if err := conn.ReceiveLabel(&label, &ld); err != nil {
				return err
			}
		}
	}
	n0 := int(c.Inputs[0].Type.Bits)
	n1 := int(c.Inputs[1].Type.Bits)
	for i := 0; i < n0; i++ {
		if err := conn.ReceiveLabel(&label, &ld); err != nil {
			return err
		}
	}
	if err := oti.InitReceiver(conn); err != nil {
		return err
	}
	if err := conn.SendUint32(n0); err != nil {
		return err
	}
	if err := conn.SendUint32(n1); err != nil {
		return err
	}
	if err := conn.Flush(); err != nil {
		return err
	}
	res := make([]ot.Label, n1)
	if err := oti.Receive(make([]bool, n1), res); err != nil {
		return err
	}
	for _, l := range labels {
		if err := conn.SendLabel(l, &ld); err != nil {
			return err
		}
	}
	if err := conn.Flush(); err != nil {
		return err
	}
	_, err = conn.ReceiveData()
	return err
}

func decide(args []string) int {
	cf, o := hxlib.ParseCommon("c16", args, nil)
	defer o.Close()
	rng := hxlib.NewRng(cf.Seed)
	mixes := []string{"uniform", "and", "orinv", "xnor"}
	for i := 0; i < cf.N; i++ {
		r := rng.Fork()
		if cf.Only >= 0 && i != cf.Only {
			continue
		}
		s := genSession(r, 60, 6, mixes[i%4])
		c := s.c
		nout := c.Outputs.Size()
		// the garbling the garbler will produce (same tape): wire pairs
		g, err := c.Garble(&hxlib.Tape{Data: s.tape[32:]}, s.tape[:32])
		if err != nil {
			panic(err)
		}
		in := append(append([]bool(nil), s.x...), s.y...)
		pv := hxlib.RefEval(c, in)
		labels := make([]ot.Label, nout)
		kinds := make([]string, nout)
		cheat := false
		for k := 0; k < nout; k++ {
			w := g.Wires[c.NumWires-nout+k]
			honest := circuit.LabelForBit(w, pv[c.NumWires-nout+k])
			other := circuit.LabelForBit(w, !pv[c.NumWires-nout+k])
			choice := r.Intn(12)
			if i%3 == 0 {
				choice = 0 // fully honest sessions
			}
			switch {
			case choice < 8:
				labels[k], kinds[k] = honest, "honest"
			case choice == 8:
				labels[k], kinds[k] = other, "other"
				cheat = true
			case choice == 9:
				l := honest
				l.SetBit(r.Intn(128), 1-l.Bit(0)) // may or may not change
				b := r.Intn(128)
				l = honest
				l.SetBit(b, 1-honest.Bit(b))
				labels[k], kinds[k] = l, "bitflip"
			case choice == 10:
				var l ot.Label
				l.D0, l.D1 = r.U64(), r.U64()
				labels[k], kinds[k] = l, "garbage"
			default:
				labels[k], kinds[k] = ot.Label{}, "zero"
			}
			o.Count("label_" + kinds[k])
		}
		var lh []string
		for _, l := range labels {
			lh = append(lh, labelHex(l))
		}
		n0, n1 := len(s.x), len(s.y)
		op := fmt.Sprintf("c16 %s %s %d %d %s %s %s %s", hxlib.Hex(s.tape), hxlib.CircLine(c), n0, n1,
			intsString(s.widths), hxlib.BitsString(s.x), hxlib.BitsString(s.y), strings.Join(lh, ","))
		g.Release()

		d := hxlib.NewDuplex(r.Fork())
		ideal := hxlib.NewIdealOT()
		var gres []*big.Int
		var gerr error
		done := make(chan struct{})
		go func() {
			defer close(done)
			defer func() {
				if e := recover(); e != nil {
					gerr = fmt.Errorf("panic: %v", e)
				}
			}()
			gres, gerr = circuit.Garbler(&env.Config{Rand: &hxlib.Tape{Data: s.tape}}, p2p.NewConn(d.A), ideal, c,
				bitsToBig(s.x), false)
			if gerr != nil {
				d.Close()
			}
		}()
		go func() {
			defer func() { recover() }()
			scriptedEvaluator(p2p.NewConn(d.B), ideal, c, labels)
		}()
		var result string
		select {
		case <-done:
			if gerr != nil {
				result = "error"
				o.Count("outcome_error")
			} else {
				result = "g=" + hxlib.BigsString(gres)
				o.Count("outcome_ok")
				want, _ := c.Compute([]*big.Int{bitsToBig(s.x), bitsToBig(s.y)})
				if hxlib.BigsString(want) != hxlib.BigsString(gres) {
					if cheat {
						o.Count("wrong_only_with_other_label")
					} else {
						o.Fail("c16-wrong-result", map[string]any{"case": i, "op": op, "kinds": kinds,
							"want": hxlib.BigsString(want), "got": hxlib.BigsString(gres)})
					}
				}
			}
		case <-time.After(20 * time.Second):
			result = "stalled"
			o.Fail("c16-decide-stalled", map[string]any{"case": i, "op": op})
		}
		d.Close()
		o.Op(op, result)
		if i < 3 {
			o.Sample(map[string]any{"case": i, "kinds": kinds, "result": result})
		}
	}
	return 0
}

// ---------------------------------------------------------------- faults

type faultCase struct {
	ci   int    // session index
	dir  int    // 0 = garbler->evaluator, 1 = evaluator->garbler
	pos  int    // byte offset in that direction's stream
	kind string // bit | byte | burst
	arg  int
}

func (f faultCase) String() string {
	return fmt.Sprintf("%d %d %d %s %d", f.ci, f.dir, f.pos, f.kind, f.arg)
}

func parseFault(s string) faultCase {
	p := strings.Fields(s)
	ci, _ := strconv.Atoi(p[0])
	dir, _ := strconv.Atoi(p[1])
	pos, _ := strconv.Atoi(p[2])
	arg, _ := strconv.Atoi(p[4])
	return faultCase{ci, dir, pos, p[3], arg}
}

var faultOTs = []string{"co", "cot", "co", "cotm"}

// Streaming sessions (compiler.Stream <-> circuit.StreamEvaluator) take part in
// the fault enumeration as session indices >= streamBase.
const streamBase = 100

var streamPrograms = []string{
	"package main\nfunc main(a, b uint4) uint4 {\n\treturn a*b + 1\n}\n",
	"package main\nfunc main(a, b uint6) (uint6, bool) {\n\tc := a + b\n\tif c > a {\n\t\treturn c, true\n\t}\n\treturn a &^ b, false\n}\n",
	"package main\nfunc main(a, b int5) (int5, int5) {\n\treturn a - b, a & b\n}\n",
}

type streamSess struct {
	src      string
	gin, ein []string
	outBits  int
}

func streamSessionFor(seed uint64, ci int) (*streamSess, uint64) {
	r := hxlib.NewRng(seed*1000003 + uint64(ci)*7919 + 13)
	k := (ci - streamBase) % len(streamPrograms)
	w := []uint{4, 6, 5}[k]
	ss := &streamSess{src: streamPrograms[k], outBits: []int{4, 7, 10}[k]}
	av := r.U64() & (1<<w - 1)
	bv := r.U64() & (1<<w - 1)
	ss.gin = []string{fmt.Sprint(av)}
	ss.ein = []string{fmt.Sprint(bv)}
	return ss, r.U64()
}

func mutator(f *faultCase) func(off int64, p []byte) {
	return func(off int64, p []byte) {
		end := off + int64(len(p))
		switch f.kind {
		case "bit":
			if int64(f.pos) >= off && int64(f.pos) < end {
				p[int64(f.pos)-off] ^= 1 << uint(f.arg%8)
			}
		case "byte":
			if int64(f.pos) >= off && int64(f.pos) < end {
				p[int64(f.pos)-off] ^= 0xff
			}
		case "burst":
			br := hxlib.NewRng(uint64(f.arg))
			for k := 0; k < 16; k++ {
				b := byte(br.U64()) | 1
				q := int64(f.pos + k)
				if q >= off && q < end {
					p[q-off] ^= b
				}
			}
		}
	}
}

// runStreamFault runs one streaming session with at most one fault.
func runStreamFault(seed uint64, f *faultCase, ci int, deadline time.Duration) (string, int, int) {
	ss, sub := streamSessionFor(seed, ci)
	rr := hxlib.NewRng(sub)
	d := hxlib.NewDuplex(nil)
	if f != nil {
		if f.dir == 0 {
			d.AB.Mutate = mutator(f)
		} else {
			d.BA.Mutate = mutator(f)
		}
	}
	res := hxlib.RunStreamSession(ss.src, ss.gin, ss.ein, hxlib.COFactory(rr.Fork()), rr.Fork(), d, deadline)
	d.Close()
	class := ""
	switch {
	case res.Stalled && res.GRes == nil:
		class = "stalled"
	case res.GPanic != nil, res.GErr != nil:
		class = "error"
	default:
		ref := hxlib.StreamReference(ss.src, ss.gin, ss.ein)
		if ref.Err != nil || ref.Panic != nil {
			class = "error"
		} else if hxlib.BigsString(ref.Res) == hxlib.BigsString(res.GRes) {
			class = "ok"
		} else {
			class = "WRONG got=" + hxlib.BigsString(res.GRes) + " want=" + hxlib.BigsString(ref.Res)
		}
	}
	if res.GPanic != nil {
		class += " gpanic"
	}
	if res.EPanic != nil {
		class += " epanic"
	}
	return class, len(d.AB.Rec), len(d.BA.Rec)
}

func mkOT(name string, rng *hxlib.Rng) ot.OT {
	switch name {
	case "co":
		return ot.NewCO(rng)
	case "cot":
		return ot.NewCOT(ot.NewCO(rng), rng, false, false)
	case "cotm":
		return ot.NewCOT(ot.NewCO(rng), rng, true, false)
	}
	panic(name)
}

// sessionFor regenerates session ci of a run deterministically.
func sessionFor(seed uint64, ci int) (*sess, uint64) {
	r := hxlib.NewRng(seed*1000003 + uint64(ci)*7919 + 11)
	mixes := []string{"uniform", "and", "orinv", "xnor"}
	s := genSession(r, 14, 3, mixes[ci%4])
	return s, r.U64()
}

type tapeThen struct {
	tape []byte
	pos  int
	rest *hxlib.Rng
}

func (t *tapeThen) Read(p []byte) (int, error) {
	n := 0
	for n < len(p) && t.pos < len(t.tape) {
		p[n] = t.tape[t.pos]
		n++
		t.pos++
	}
	if n < len(p) {
		t.rest.Read(p[n:])
	}
	return len(p), nil
}

// runFault runs one complete session with at most one fault; returns the
// garbler's outcome class and the two stream lengths.
func runFault(seed uint64, f *faultCase, ci int, deadline time.Duration) (string, int, int) {
	if ci >= streamBase {
		return runStreamFault(seed, f, ci, deadline)
	}
	s, sub := sessionFor(seed, ci)
	rr := hxlib.NewRng(sub)
	otName := faultOTs[ci%len(faultOTs)]
	gr, er := rr.Fork(), rr.Fork()
	d := hxlib.NewDuplex(nil)
	if f != nil {
		mut := mutator(f)
		if f.dir == 0 {
			d.AB.Mutate = mut
		} else {
			d.BA.Mutate = mut
		}
	}
	res := hxlib.RunSession(s.c, bitsToBig(s.x), bitsToBig(s.y), mkOT(otName, gr), mkOT(otName, er),
		&tapeThen{tape: s.tape, rest: gr}, d, deadline)
	d.Close()
	class := ""
	switch {
	case res.Stalled && res.GRes == nil:
		class = "stalled"
	case res.GPanic != nil:
		class = "error" // a garbler-side panic aborts the run; recorded separately
	case res.GErr != nil:
		class = "error"
	default:
		want, _ := s.c.Compute([]*big.Int{bitsToBig(s.x), bitsToBig(s.y)})
		if hxlib.BigsString(want) == hxlib.BigsString(res.GRes) {
			class = "ok"
		} else {
			class = "WRONG got=" + hxlib.BigsString(res.GRes) + " want=" + hxlib.BigsString(want)
		}
	}
	if res.GPanic != nil {
		class += " gpanic"
	}
	if res.EPanic != nil {
		class += " epanic"
	}
	return class, len(d.AB.Rec), len(d.BA.Rec)
}

// faultChild runs ONE fault case in this process (so that an allocation
// blow-up caused by a corrupted length/count field kills only this case):
// args: seed deadline_ms ci dir pos kind arg
func faultChild(args []string) int {
	lim := syscall.Rlimit{Cur: 4 << 30, Max: 4 << 30}
	syscall.Setrlimit(syscall.RLIMIT_AS, &lim)
	seed, _ := strconv.ParseUint(args[0], 10, 64)
	dl, _ := strconv.Atoi(args[1])
	f := parseFault(strings.Join(args[2:7], " "))
	class, _, _ := runFault(seed, &f, f.ci, time.Duration(dl)*time.Millisecond)
	fmt.Printf("DONE %s\n", class)
	return 0
}

func region(dir, pos, abLen, baLen int, s *sess) string {
	if dir == 0 {
		nrows := 0
		for _, g := range s.c.Gates {
			switch g.Op {
			case circuit.AND:
				nrows += 2
			case circuit.OR:
				nrows += 3
			case circuit.INV:
				nrows++
			}
		}
		keyEnd := 36
		tabEnd := keyEnd + 4 + 4*len(s.c.Gates) + 16*nrows
		inEnd := tabEnd + 16*len(s.x)
		switch {
		case pos < keyEnd:
			return "key"
		case pos < tabEnd:
			return "tables"
		case pos < inEnd:
			return "inputlabels"
		case pos >= abLen-5:
			return "resultdata"
		default:
			return "ot_sender"
		}
	}
	if pos >= baLen-16*s.c.Outputs.Size() {
		return "outputlabels"
	}
	return "ot_receiver_and_range"
}

func faults(args []string) int {
	cf, o := hxlib.ParseCommon("c16", args, nil)
	defer o.Close()
	rng := hxlib.NewRng(cf.Seed ^ 0xfa17)
	nsess := 4
	deadline := 1000
	if cf.Tier == "thorough" {
		nsess = 8
	}
	// baselines
	type base struct {
		ci     int
		ab, ba int
		s      *sess
		ss     *streamSess
	}
	var bases []base
	for ci := 0; ci < nsess; ci++ {
		class, ab, ba := runFault(cf.Seed, nil, ci, 20*time.Second)
		s, _ := sessionFor(cf.Seed, ci)
		if class != "ok" {
			o.Fail("c16-baseline", map[string]any{"session": ci, "class": class})
			return 0
		}
		bases = append(bases, base{ci, ab, ba, s, nil})
		o.CountN("transcript_bytes", ab+ba)
		o.Sample(map[string]any{"session": ci, "ot": faultOTs[ci%len(faultOTs)], "circuit": hxlib.CircLine(s.c), "bytes_g2e": ab, "bytes_e2g": ba})
	}
	nstream := 2
	if cf.Tier == "thorough" {
		nstream = 3
	}
	for k := 0; k < nstream; k++ {
		ci := streamBase + k
		class, ab, ba := runFault(cf.Seed, nil, ci, 30*time.Second)
		ss, _ := streamSessionFor(cf.Seed, ci)
		if class != "ok" {
			o.Fail("c16-baseline", map[string]any{"session": ci, "class": class, "src": ss.src})
			return 0
		}
		bases = append(bases, base{ci, ab, ba, nil, ss})
		o.CountN("transcript_bytes", ab+ba)
		o.Count("streaming_sessions")
		o.Sample(map[string]any{"session": ci, "mode": "streaming", "src": ss.src, "bytes_g2e": ab, "bytes_e2g": ba})
	}
	// enumerate cases
	var cases []faultCase
	if cf.Tier == "thorough" {
		for _, b := range bases {
			for dir, n := range []int{b.ab, b.ba} {
				for pos := 0; pos < n; pos++ {
					cases = append(cases, faultCase{b.ci, dir, pos, "bit", rng.Intn(8)})
					if pos%2 == 0 {
						cases = append(cases, faultCase{b.ci, dir, pos, "byte", 0})
					}
					if pos%8 == 0 {
						cases = append(cases, faultCase{b.ci, dir, pos, "burst", rng.Intn(1 << 30)})
					}
				}
			}
		}
	} else {
		for k := 0; k < cf.N; k++ {
			b := bases[k%len(bases)]
			dir := rng.Intn(2)
			n := b.ab
			if dir == 1 {
				n = b.ba
			}
			pos := rng.Intn(n)
			outBits := 0
			if b.s != nil {
				outBits = b.s.c.Outputs.Size()
			} else {
				outBits = b.ss.outBits
			}
			// a third of the cases target the regions that decide the result
			switch rng.Intn(6) {
			case 0:
				dir, pos = 1, b.ba-1-rng.Intn(16*outBits)
			case 1:
				dir, pos = 0, rng.Intn(36+4)
			}
			kind := []string{"bit", "bit", "byte", "burst"}[rng.Intn(4)]
			cases = append(cases, faultCase{b.ci, dir, pos, kind, rng.Intn(1 << 30)})
		}
	}
	// Decisive region of streaming sessions: the tail of the garbler->evaluator
	// stream holds the list of result wire ids (OpReturn) that the evaluator
	// uses to pick the labels it returns; every byte of it gets bit flips of
	// the low bits (all 8 bits in the thorough tier).
	for _, b := range bases {
		if b.ss == nil {
			continue
		}
		lo := b.ab - (4*b.ss.outBits + 16)
		if lo < 0 {
			lo = 0
		}
		nb := 3
		if cf.Tier == "thorough" {
			nb = 8
		}
		for pos := lo; pos < b.ab; pos++ {
			for bit := 0; bit < nb; bit++ {
				cases = append(cases, faultCase{b.ci, 0, pos, "bit", bit})
				o.Count("decisive_stream_return_ids_cases")
			}
		}
	}
	// Select-bit region of every returned output label (both modes): a label
	// is 16 bytes, its point-and-permute bit is the top bit of byte 0 and the
	// two labels of a wire differ by the session offset R, which always has
	// that bit set.  The cheapest blind forgery of a result bit is therefore a
	// flip of exactly that bit (it succeeds iff R has no other bit set, i.e.
	// iff the offset is not random); every label of every baseline session
	// gets it, plus flips at the other three corners of the label (all 128
	// bits in the thorough tier).
	for _, b := range bases {
		outBits := 0
		if b.s != nil {
			outBits = b.s.c.Outputs.Size()
		} else {
			outBits = b.ss.outBits
		}
		for j := 0; j < outBits; j++ {
			pos0 := b.ba - 16*outBits + 16*j
			if pos0 < 0 {
				continue
			}
			if cf.Tier == "thorough" {
				for k := 0; k < 128; k++ {
					cases = append(cases, faultCase{b.ci, 1, pos0 + k/8, "bit", k % 8})
					o.Count("select_bit_region_cases")
				}
				continue
			}
			for _, c := range [][2]int{{0, 7}, {0, 0}, {15, 0}, {15, 7}} {
				cases = append(cases, faultCase{b.ci, 1, pos0 + c[0], "bit", c[1]})
				o.Count("select_bit_region_cases")
			}
		}
	}
	// one child process per case, 32 at a time
	results := map[string]string{}
	self, _ := os.Executable()
	var mu sync.Mutex
	var wg sync.WaitGroup
	sem := make(chan struct{}, 32)
	for _, c := range cases {
		wg.Add(1)
		sem <- struct{}{}
		go func(c faultCase) {
			defer wg.Done()
			defer func() { <-sem }()
			argv := append([]string{"faultchild", fmt.Sprint(cf.Seed), fmt.Sprint(deadline)}, strings.Fields(c.String())...)
			cmd := exec.Command(self, argv...)
			outb, _ := cmd.Output()
			class := "crash"
			for _, ln := range strings.Split(string(outb), "\n") {
				if strings.HasPrefix(ln, "DONE ") {
					class = strings.TrimPrefix(ln, "DONE ")
				}
			}
			mu.Lock()
			results[c.String()] = class
			mu.Unlock()
		}(c)
	}
	wg.Wait()
	keys := make([]string, 0, len(results))
	for k := range results {
		keys = append(keys, k)
	}
	sort.Strings(keys)
	for _, k := range keys {
		f := parseFault(k)
		class := results[k]
		var b base
		for _, bb := range bases {
			if bb.ci == f.ci {
				b = bb
			}
		}
		reg := ""
		if b.s != nil {
			reg = region(f.dir, f.pos, b.ab, b.ba, b.s)
		} else if f.dir == 1 && f.pos >= b.ba-16*b.ss.outBits {
			reg = "stream_outputlabels"
		} else if f.dir == 1 {
			reg = "stream_e2g"
		} else {
			reg = "stream_g2e"
		}
		first := strings.Fields(class)[0]
		o.Count("class_" + first)
		o.Count("region_" + reg)
		o.Count("kind_" + f.kind)
		if strings.Contains(class, "gpanic") {
			o.Count("garbler_panics")
		}
		if strings.Contains(class, "epanic") {
			o.Count("evaluator_panics")
		}
		if first == "WRONG" {
			o.Fail("c16-wrong-result-after-corruption", map[string]any{"fault": k, "region": reg, "class": class,
				"session": f.ci, "seed": cf.Seed})
		}
		o.Op("fault "+k, first)
	}
	o.CountN("fault_cases", len(results))
	return 0
}

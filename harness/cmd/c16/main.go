// c16: the garbler under message corruption, on the real code.
//
//	decide: the real circuit.Garbler against a scripted evaluator that returns
//	        chosen output labels (honest / garbage / one bit flipped / the other
//	        label of the wire); outcome (error | results) compared with the Lean
//	        decision-logic model (decodeLabels).
//	faults: fault enumeration: bit flips, byte sets and 16-byte bursts at byte
//	        positions of both directions of complete sessions (real OT on the
//	        wire); the garbler's outcome class must be error | stalled | crash |
//	        ok(correct); ok(wrong) is the violation.  Cases run in child
//	        processes under RLIMIT_AS because a corrupted count field makes the
//	        receiving side allocate gigabytes.
package main

import (
	"encoding/binary"
	"fmt"
	"math/big"
	"os"
	"os/exec"
	"sort"
	"strconv"
	"strings"
	"sync"
	"syscall"
	"time"

	"github.com/markkurossi/mpc/circuit"
	"github.com/markkurossi/mpc/env"
	"github.com/markkurossi/mpc/ot"
	"github.com/markkurossi/mpc/p2p"

	"verifharness/hxlib"
)

func main() {
	if len(os.Args) < 2 {
		fmt.Fprintln(os.Stderr, "usage: c16 decide|sdecide|faults|faultchild [flags]")
		os.Exit(2)
	}
	switch os.Args[1] {
	case "decide":
		os.Exit(decide(os.Args[2:]))
	case "sdecide":
		os.Exit(sdecide(os.Args[2:]))
	case "faults":
		os.Exit(faults(os.Args[2:]))
	case "faultchild":
		os.Exit(faultChild(os.Args[2:]))
	case "gramlist":
		os.Exit(gramList(os.Args[2:]))
	default:
		fmt.Fprintf(os.Stderr, "unknown mode %q\n", os.Args[1])
		os.Exit(2)
	}
}

func bitsToBig(bits []bool) *big.Int {
	v := new(big.Int)
	for i, b := range bits {
		if b {
			v.SetBit(v, i, 1)
		}
	}
	return v
}

func labelHex(l ot.Label) string {
	var d ot.LabelData
	l.GetData(&d)
	return hxlib.Hex(d[:])
}

func intsString(v []int) string {
	var s []string
	for _, x := range v {
		s = append(s, fmt.Sprint(x))
	}
	return strings.Join(s, ",")
}

type sess struct {
	c      *circuit.Circuit
	widths []int
	x, y   []bool
	tape   []byte
}

func genSession(r *hxlib.Rng, maxGates, maxIn int, mix string) *sess {
	c := hxlib.GenCircuit(r, hxlib.GenOpts{MaxGates: maxGates, MaxIn: maxIn, Mix: mix})
	n := c.Outputs.Size()
	var widths []int
	for n > 0 {
		w := 1 + r.Intn(n)
		widths = append(widths, w)
		n -= w
	}
	var outs circuit.IO
	for i, w := range widths {
		outs = append(outs, hxlib.UintIO(fmt.Sprintf("r%d", i), w))
	}
	c.Outputs = outs
	n0 := int(c.Inputs[0].Type.Bits)
	n1 := int(c.Inputs[1].Type.Bits)
	s := &sess{c: c, widths: widths, x: make([]bool, n0), y: make([]bool, n1)}
	for j := range s.x {
		s.x[j] = r.Bool()
	}
	for j := range s.y {
		s.y[j] = r.Bool()
	}
	s.tape = r.Bytes(32 + 16*(1+n0+n1))
	return s
}

// ---------------------------------------------------------------- decide

// scriptedEvaluator follows circuit.Evaluator's receive sequence but returns
// the given labels instead of evaluating.
func scriptedEvaluator(conn *p2p.Conn, oti ot.OT, c *circuit.Circuit, labels []ot.Label) error {
	if _, err := conn.ReceiveData(); err != nil {
		return err
	}
	count, err := conn.ReceiveUint32()
	if err != nil {
		return err
	}
	var label ot.Label
	var ld ot.LabelData
	for i := 0; i < count; i++ {
		n, err := conn.ReceiveUint32()
		if err != nil {
			return err
		}
		for j := 0; j < n; j++ {
			if err := conn.ReceiveLabel(&label, &ld); err != nil {
				return err
			}
		}
	}
	n0 := int(c.Inputs[0].Type.Bits)
	n1 := int(c.Inputs[1].Type.Bits)
	for i := 0; i < n0; i++ {
		if err := conn.ReceiveLabel(&label, &ld); err != nil {
			return err
		}
	}
	if err := oti.InitReceiver(conn); err != nil {
		return err
	}
	if err := conn.SendUint32(n0); err != nil {
		return err
	}
	if err := conn.SendUint32(n1); err != nil {
		return err
	}
	if err := conn.Flush(); err != nil {
		return err
	}
	res := make([]ot.Label, n1)
	if err := oti.Receive(make([]bool, n1), res); err != nil {
		return err
	}
	for _, l := range labels {
		if err := conn.SendLabel(l, &ld); err != nil {
			return err
		}
	}
	if err := conn.Flush(); err != nil {
		return err
	}
	_, err = conn.ReceiveData()
	return err
}

func decide(args []string) int {
	cf, o := hxlib.ParseCommon("c16", args, nil)
	defer o.Close()
	rng := hxlib.NewRng(cf.Seed)
	mixes := []string{"uniform", "and", "orinv", "xnor"}
	for i := 0; i < cf.N; i++ {
		r := rng.Fork()
		if cf.Only >= 0 && i != cf.Only {
			continue
		}
		s := genSession(r, 60, 6, mixes[i%4])
		c := s.c
		nout := c.Outputs.Size()
		// the garbling the garbler will produce (same tape): wire pairs
		g, err := c.Garble(&hxlib.Tape{Data: s.tape[32:]}, s.tape[:32])
		if err != nil {
			panic(err)
		}
		in := append(append([]bool(nil), s.x...), s.y...)
		pv := hxlib.RefEval(c, in)
		labels := make([]ot.Label, nout)
		kinds := make([]string, nout)
		cheat := false
		for k := 0; k < nout; k++ {
			w := g.Wires[c.NumWires-nout+k]
			honest := circuit.LabelForBit(w, pv[c.NumWires-nout+k])
			other := circuit.LabelForBit(w, !pv[c.NumWires-nout+k])
			choice := r.Intn(12)
			if i%3 == 0 {
				choice = 0 // fully honest sessions
			}
			switch {
			case choice < 8:
				labels[k], kinds[k] = honest, "honest"
			case choice == 8:
				labels[k], kinds[k] = other, "other"
				cheat = true
			case choice == 9:
				l := honest
				l.SetBit(r.Intn(128), 1-l.Bit(0)) // may or may not change
				b := r.Intn(128)
				l = honest
				l.SetBit(b, 1-honest.Bit(b))
				labels[k], kinds[k] = l, "bitflip"
			case choice == 10:
				var l ot.Label
				l.D0, l.D1 = r.U64(), r.U64()
				labels[k], kinds[k] = l, "garbage"
			default:
				labels[k], kinds[k] = ot.Label{}, "zero"
			}
			o.Count("label_" + kinds[k])
		}
		var lh []string
		for _, l := range labels {
			lh = append(lh, labelHex(l))
		}
		n0, n1 := len(s.x), len(s.y)
		op := fmt.Sprintf("c16 %s %s %d %d %s %s %s %s", hxlib.Hex(s.tape), hxlib.CircLine(c), n0, n1,
			intsString(s.widths), hxlib.BitsString(s.x), hxlib.BitsString(s.y), strings.Join(lh, ","))
		g.Release()

		d := hxlib.NewDuplex(r.Fork())
		ideal := hxlib.NewIdealOT()
		var gres []*big.Int
		var gerr error
		done := make(chan struct{})
		go func() {
			defer close(done)
			defer func() {
				if e := recover(); e != nil {
					gerr = fmt.Errorf("panic: %v", e)
				}
			}()
			gres, gerr = circuit.Garbler(&env.Config{Rand: &hxlib.Tape{Data: s.tape}}, p2p.NewConn(d.A), ideal, c,
				bitsToBig(s.x), false)
			if gerr != nil {
				d.Close()
			}
		}()
		go func() {
			defer func() { recover() }()
			scriptedEvaluator(p2p.NewConn(d.B), ideal, c, labels)
		}()
		var result string
		select {
		case <-done:
			if gerr != nil {
				result = "error"
				o.Count("outcome_error")
			} else {
				result = "g=" + hxlib.BigsString(gres)
				o.Count("outcome_ok")
				want, _ := c.Compute([]*big.Int{bitsToBig(s.x), bitsToBig(s.y)})
				if hxlib.BigsString(want) != hxlib.BigsString(gres) {
					if cheat {
						o.Count("wrong_only_with_other_label")
					} else {
						o.Fail("c16-wrong-result", map[string]any{"case": i, "op": op, "kinds": kinds,
							"want": hxlib.BigsString(want), "got": hxlib.BigsString(gres)})
					}
				}
			}
		case <-time.After(20 * time.Second):
			result = "stalled"
			o.Fail("c16-decide-stalled", map[string]any{"case": i, "op": op})
		}
		d.Close()
		o.Op(op, result)
		if i < 3 {
			o.Sample(map[string]any{"case": i, "kinds": kinds, "result": result})
		}
	}
	return 0
}

// ---------------------------------------------------------------- faults

type faultCase struct {
	ci   int    // session index
	dir  int    // 0 = garbler->evaluator, 1 = evaluator->garbler
	pos  int    // byte offset in that direction's stream
	kind string // bit | byte | burst
	arg  int
}

func (f faultCase) String() string {
	return fmt.Sprintf("%d %d %d %s %d", f.ci, f.dir, f.pos, f.kind, f.arg)
}

func parseFault(s string) faultCase {
	p := strings.Fields(s)
	ci, _ := strconv.Atoi(p[0])
	dir, _ := strconv.Atoi(p[1])
	pos, _ := strconv.Atoi(p[2])
	arg, _ := strconv.Atoi(p[4])
	return faultCase{ci, dir, pos, p[3], arg}
}

var faultOTs = []string{"co", "cot", "co", "cotm"}

// span is the byte range [lo, hi) of the stream a fault can change.
func (f *faultCase) span() (int, int) {
	switch f.kind {
	case "burst":
		return f.pos, f.pos + 16
	case "xor":
		lo, hi := f.pos, f.pos+1
		for k := 0; k < 4; k++ {
			if byte(uint32(f.arg)>>uint(24-8*k)) != 0 {
				hi = f.pos + k + 1
			} else if lo == f.pos+k && k < 3 {
				lo++
			}
		}
		return lo, hi
	}
	return f.pos, f.pos + 1
}

func mutator(f *faultCase) func(off int64, p []byte) {
	return func(off int64, p []byte) {
		end := off + int64(len(p))
		switch f.kind {
		case "bit":
			if int64(f.pos) >= off && int64(f.pos) < end {
				p[int64(f.pos)-off] ^= 1 << uint(f.arg%8)
			}
		case "byte":
			if int64(f.pos) >= off && int64(f.pos) < end {
				p[int64(f.pos)-off] ^= 0xff
			}
		case "xor":
			// a 32-bit mask over the big-endian word at pos (a single byte: mask<<24)
			for k := 0; k < 4; k++ {
				q := int64(f.pos + k)
				if q >= off && q < end {
					p[q-off] ^= byte(uint32(f.arg) >> uint(24-8*k))
				}
			}
		case "burst":
			br := hxlib.NewRng(uint64(f.arg))
			for k := 0; k < 16; k++ {
				b := byte(br.U64()) | 1
				q := int64(f.pos + k)
				if q >= off && q < end {
					p[q-off] ^= b
				}
			}
		}
	}
}

func mkOT(name string, rng *hxlib.Rng) ot.OT {
	switch name {
	case "co":
		return ot.NewCO(rng)
	case "cot":
		return ot.NewCOT(ot.NewCO(rng), rng, false, false)
	case "cotm":
		return ot.NewCOT(ot.NewCO(rng), rng, true, false)
	}
	panic(name)
}

// sessionFor regenerates session ci of a run deterministically.
func sessionFor(seed uint64, ci int) (*sess, uint64) {
	r := hxlib.NewRng(seed*1000003 + uint64(ci)*7919 + 11)
	mixes := []string{"uniform", "and", "orinv", "xnor"}
	s := genSession(r, 14, 3, mixes[ci%4])
	return s, r.U64()
}

type tapeThen struct {
	tape []byte
	pos  int
	rest *hxlib.Rng
}

func (t *tapeThen) Read(p []byte) (int, error) {
	n := 0
	for n < len(p) && t.pos < len(t.tape) {
		p[n] = t.tape[t.pos]
		n++
		t.pos++
	}
	if n < len(p) {
		t.rest.Read(p[n:])
	}
	return len(p), nil
}

// runFault runs one complete whole-circuit session with at most one fault;
// returns the garbler's outcome class and the two stream lengths.
func runFault(seed uint64, f *faultCase, ci int, deadline time.Duration) (string, int, int) {
	s, sub := sessionFor(seed, ci)
	rr := hxlib.NewRng(sub)
	otName := faultOTs[ci%len(faultOTs)]
	gr, er := rr.Fork(), rr.Fork()
	d := hxlib.NewDuplex(nil)
	if f != nil {
		mut := mutator(f)
		if f.dir == 0 {
			d.AB.Mutate = mut
		} else {
			d.BA.Mutate = mut
		}
	}
	res := hxlib.RunSession(s.c, bitsToBig(s.x), bitsToBig(s.y), mkOT(otName, gr), mkOT(otName, er),
		&tapeThen{tape: s.tape, rest: gr}, d, deadline)
	d.Close()
	class := ""
	switch {
	case res.Stalled && res.GRes == nil:
		class = "stalled"
	case res.GPanic != nil:
		class = "error" // a garbler-side panic aborts the run; recorded separately
	case res.GErr != nil:
		class = "error"
	default:
		want, _ := s.c.Compute([]*big.Int{bitsToBig(s.x), bitsToBig(s.y)})
		if hxlib.BigsString(want) == hxlib.BigsString(res.GRes) {
			class = "ok"
		} else {
			class = "WRONG got=" + hxlib.BigsString(res.GRes) + " want=" + hxlib.BigsString(want)
		}
	}
	if res.GPanic != nil {
		class += " gpanic"
	}
	if res.EPanic != nil {
		class += " epanic"
	}
	return class, len(d.AB.Rec), len(d.BA.Rec)
}

func streamSessFromArgs(prog, gin, ein string) *streamSess {
	if strings.HasPrefix(prog, "gram/") {
		p, err := gramProg(prog)
		if err != nil {
			return nil
		}
		return &streamSess{prog: p, src: p.src, gin: splitIn(gin), ein: splitIn(ein), outBits: p.outBits}
	}
	for k := range streamProgs {
		if streamProgs[k].name == prog {
			p := &streamProgs[k]
			return &streamSess{prog: p, src: p.src, gin: splitIn(gin), ein: splitIn(ein), outBits: p.outBits}
		}
	}
	return nil
}

// faultChild runs ONE fault case in this process (so that an allocation
// blow-up caused by a corrupted length/count field kills only this case):
// args: seed deadline_ms ci dir pos kind arg [program garbler-inputs evaluator-inputs]
// (the last three for streaming sessions; inputs joined by ';').
func faultChild(args []string) int {
	lim := syscall.Rlimit{Cur: 4 << 30, Max: 4 << 30}
	syscall.Setrlimit(syscall.RLIMIT_AS, &lim)
	seed, _ := strconv.ParseUint(args[0], 10, 64)
	dl, _ := strconv.Atoi(args[1])
	f := parseFault(strings.Join(args[2:7], " "))
	var fp *faultCase
	if f.kind != "none" {
		fp = &f
	}
	class := ""
	if f.ci >= streamBase {
		if len(args) < 10 {
			fmt.Println("DONE usage")
			return 2
		}
		ss := streamSessFromArgs(args[7], args[8], args[9])
		if ss == nil {
			fmt.Println("DONE usage")
			return 2
		}
		class, _ = runStreamFault(seed, fp, f.ci, ss, false, time.Duration(dl)*time.Millisecond)
	} else {
		class, _, _ = runFault(seed, fp, f.ci, time.Duration(dl)*time.Millisecond)
	}
	fmt.Printf("DONE %s\n", class)
	return 0
}

func region(dir, pos, abLen, baLen int, s *sess) string {
	if dir == 0 {
		nrows := 0
		for _, g := range s.c.Gates {
			switch g.Op {
			case circuit.AND:
				nrows += 2
			case circuit.OR:
				nrows += 3
			case circuit.INV:
				nrows++
			}
		}
		keyEnd := 36
		tabEnd := keyEnd + 4 + 4*len(s.c.Gates) + 16*nrows
		inEnd := tabEnd + 16*len(s.x)
		switch {
		case pos < keyEnd:
			return "key"
		case pos < tabEnd:
			return "tables"
		case pos < inEnd:
			return "inputlabels"
		case pos >= abLen-5:
			return "resultdata"
		default:
			return "ot_sender"
		}
	}
	if pos >= baLen-16*s.c.Outputs.Size() {
		return "outputlabels"
	}
	return "ot_receiver_and_range"
}

// streamRegion names the part of a streaming session's stream a position lies in.
func streamRegion(dir, pos int, l *layout, abLen, baLen, outBits int) string {
	if dir == 1 {
		switch {
		case pos >= baLen-16*outBits:
			return "stream_outputlabels"
		case l.err == "" && pos >= baLen-l.resultMsg:
			return "stream_result_framing"
		}
		return "stream_e2g_ot"
	}
	if l.err != "" {
		return "stream_g2e"
	}
	switch {
	case pos < 36:
		return "stream_key"
	case pos < l.headerEnd:
		return "stream_description"
	case pos < l.headerEnd+16*l.in1.size:
		return "stream_inputlabels"
	case pos < l.opsStart:
		return "stream_g2e_ot"
	}
	return "stream_instructions"
}

// lengthTargets: the values a LENGTH / COUNT / WIDTH field of value v is
// changed to: shrinking (v-1, v/2, lowest set bit cleared, 8 or 16 less) and
// growing (v+1, 2v, lowest clear bit set, 8 or 16 more).
func lengthTargets(v int, full bool) []int {
	cand := []int{v - 1, v >> 1, v & (v - 1), v + 1, v << 1, v | (v + 1)}
	if full {
		cand = append(cand, v-8, v+8, v-16, v+16, 0, v>>2, v<<2)
	}
	seen := map[int]bool{v: true}
	var out []int
	for _, c := range cand {
		if c < 0 || c > 1<<30 || seen[c] {
			continue
		}
		seen[c] = true
		out = append(out, c)
	}
	return out
}

func faults(args []string) int {
	cf, o := hxlib.ParseCommon("c16", args, nil)
	defer o.Close()
	rng := hxlib.NewRng(cf.Seed ^ 0xfa17)
	thorough := cf.Tier == "thorough"
	nsess := 4
	deadline := 1000
	if thorough {
		nsess = 8
	}
	// baselines
	type base struct {
		ci     int
		ab, ba int
		s      *sess
		ss     *streamSess
		lay    *layout
		rec    []byte // the baseline garbler->evaluator stream of a streaming session
		gram   bool   // a session of a program generated from the type grammar (gram.go)
	}
	var bases []base
	for ci := 0; ci < nsess; ci++ {
		class, ab, ba := runFault(cf.Seed, nil, ci, 20*time.Second)
		s, _ := sessionFor(cf.Seed, ci)
		if class != "ok" {
			o.Fail("c16-baseline", map[string]any{"session": ci, "class": class})
			return 0
		}
		bases = append(bases, base{ci: ci, ab: ab, ba: ba, s: s})
		o.CountN("transcript_bytes", ab+ba)
		o.Sample(map[string]any{"session": ci, "ot": faultOTs[ci%len(faultOTs)], "circuit": hxlib.CircLine(s.c), "bytes_g2e": ab, "bytes_e2g": ba})
	}
	variants := 3
	sessions, uncovered, err := chooseStreamSessions(cf.Seed, variants)
	if err != nil {
		o.Fail("c16-baseline", map[string]any{"mode": "streaming", "error": err.Error()})
		return 0
	}
	for _, p := range streamProgs {
		o.CountN("stream_output_bit_positions", p.outBits)
		o.CountN("stream_output_bit_positions_never_1", uncovered[p.name])
	}
	for k, ss := range sessions {
		ci := streamBase + k
		class, d := runStreamFault(cf.Seed, nil, ci, ss, false, 30*time.Second)
		if class != "ok" {
			o.Fail("c16-baseline", map[string]any{"session": ci, "class": class, "program": ss.prog.name, "gin": ss.gin, "ein": ss.ein})
			return 0
		}
		iclass, id := runStreamFault(cf.Seed, nil, ci, ss, true, 30*time.Second)
		lay := &layout{err: "ideal-OT baseline: " + iclass}
		if iclass == "ok" {
			lay = streamLayout(d.AB.Rec, d.BA.Rec, id.AB.Rec, id.BA.Rec, ss.outBits)
		}
		if lay.err != "" {
			o.Count("stream_layout_failed")
			o.Meta["stream_layout_error"] = fmt.Sprintf("session %d (%s): %s", ci, ss.prog.name, lay.err)
		} else {
			o.Count("stream_layout_ok")
			o.CountN("stream_fields_located", len(lay.fields))
			if lay.resultHead != 4 {
				o.Count("stream_result_framing_not_4_bytes")
			}
		}
		bases = append(bases, base{ci: ci, ab: len(d.AB.Rec), ba: len(d.BA.Rec), ss: ss, lay: lay, rec: d.AB.Rec})
		o.CountN("transcript_bytes", len(d.AB.Rec)+len(d.BA.Rec))
		o.Count("streaming_sessions")
		if k < len(streamProgs) {
			o.Count("streaming_programs")
		}
		o.Sample(map[string]any{"session": ci, "mode": "streaming", "program": ss.prog.name, "gin": ss.gin, "ein": ss.ein,
			"bytes_g2e": len(d.AB.Rec), "bytes_e2g": len(d.BA.Rec), "fields": len(lay.fields)})
	}
	// sessions of the programs generated from the type grammar (gram.go): one
	// per evaluator argument kind; they take part in the argument description
	// faults only
	nold := len(bases)
	for k, ss := range gramSessions(cf.Seed) {
		ci := gramBase + k
		class, d := runStreamFault(cf.Seed, nil, ci, ss, false, 30*time.Second)
		if class != "ok" {
			o.Fail("c16-baseline", map[string]any{"session": ci, "class": class, "program": ss.prog.name, "gin": ss.gin, "ein": ss.ein})
			return 0
		}
		iclass, id := runStreamFault(cf.Seed, nil, ci, ss, true, 30*time.Second)
		lay := &layout{err: "ideal-OT baseline: " + iclass}
		if iclass == "ok" {
			lay = streamLayout(d.AB.Rec, d.BA.Rec, id.AB.Rec, id.BA.Rec, ss.outBits)
		}
		if lay.err != "" {
			o.Count("stream_layout_failed")
			o.Meta["stream_layout_error"] = fmt.Sprintf("session %d (%s): %s", ci, ss.prog.name, lay.err)
		} else {
			o.Count("gram_layout_ok")
			o.CountN("gram_description_records", lay.in1.records()+lay.in2.records())
			if lay.in2.depth() > 1 {
				o.Count("gram_evaluator_description_with_members")
			}
		}
		bases = append(bases, base{ci: ci, ab: len(d.AB.Rec), ba: len(d.BA.Rec), ss: ss, lay: lay, rec: d.AB.Rec, gram: true})
		o.Count("gram_sessions")
		for _, part := range strings.Split(ss.prog.name, "/")[1:] {
			o.Count("gram_kind_" + part[:4]) // G=sc, E=sa, ...
		}
		if k < 2 {
			o.Sample(map[string]any{"session": ci, "mode": "streaming", "program": ss.prog.name, "gin": ss.gin, "ein": ss.ein,
				"bytes_g2e": len(d.AB.Rec), "fields": len(lay.fields)})
		}
	}
	// enumerate cases
	var cases []faultCase
	seen := map[string]bool{}
	add := func(c faultCase, counter string) {
		if seen[c.String()] {
			return
		}
		seen[c.String()] = true
		cases = append(cases, c)
		if counter != "" {
			o.Count(counter)
		}
	}
	outBitsOf := func(b base) int {
		if b.s != nil {
			return b.s.c.Outputs.Size()
		}
		return b.ss.outBits
	}
	if thorough {
		for _, b := range bases {
			if b.ss != nil && b.ci >= streamBase+len(streamProgs) {
				continue // positional sweep over the first variant of every program
			}
			for dir, n := range []int{b.ab, b.ba} {
				for pos := 0; pos < n; pos++ {
					add(faultCase{b.ci, dir, pos, "bit", rng.Intn(8)}, "")
					if pos%2 == 0 {
						add(faultCase{b.ci, dir, pos, "byte", 0}, "")
					}
					if pos%8 == 0 {
						add(faultCase{b.ci, dir, pos, "burst", rng.Intn(1 << 30)}, "")
					}
				}
			}
		}
	} else {
		for k := 0; k < cf.N; k++ {
			b := bases[k%nold]
			dir := rng.Intn(2)
			n := b.ab
			if dir == 1 {
				n = b.ba
			}
			pos := rng.Intn(n)
			// a third of the cases target the regions that decide the result
			switch rng.Intn(6) {
			case 0:
				dir, pos = 1, b.ba-1-rng.Intn(16*outBitsOf(b))
			case 1:
				dir, pos = 0, rng.Intn(36+4)
				if b.ss != nil && b.lay.err == "" {
					pos = rng.Intn(b.lay.headerEnd) // the program description
				}
			}
			kind := []string{"bit", "bit", "byte", "burst"}[rng.Intn(4)]
			add(faultCase{b.ci, dir, pos, kind, rng.Intn(1 << 30)}, "")
		}
	}
	// Decisive region of streaming sessions: the tail of the garbler->evaluator
	// stream holds the list of result wire ids (OpReturn) that the evaluator
	// uses to pick the labels it returns; every byte of it gets bit flips of
	// the low bits (all 8 bits in the thorough tier).
	for _, b := range bases {
		if b.ss == nil || b.gram || (!thorough && b.ci >= streamBase+len(streamProgs)) {
			continue
		}
		lo := b.ab - (4*b.ss.outBits + 16)
		if lo < 0 {
			lo = 0
		}
		nb := 3
		if thorough {
			nb = 8
		}
		for pos := lo; pos < b.ab; pos++ {
			for bit := 0; bit < nb; bit++ {
				add(faultCase{b.ci, 0, pos, "bit", bit}, "decisive_stream_return_ids_cases")
			}
		}
	}
	// LENGTH / COUNT / WIDTH fields of streaming sessions, both directions,
	// shrinking and growing.  Garbler->evaluator: every such field of the
	// program description (key length, name / type string lengths, the Bits
	// word and the member count of every argument, member and result, the
	// digits of every type string, output count, step count) and of the
	// instruction part (gate / temporary wire / wire counts of the streamed
	// circuits, result data length).  Evaluator->garbler: every byte in front
	// of the result labels of the result message (bit by bit, and as words
	// with the same arithmetic targets).
	for _, b := range bases {
		if b.ss == nil || b.lay.err != "" {
			continue
		}
		if b.gram {
			// every WIDTH / COUNT field and every type-string digit of EVERY node of
			// the two argument description trees
			for _, fd := range b.lay.fields {
				if fd.off >= b.lay.headerEnd || !(strings.HasPrefix(fd.path, "in1") || strings.HasPrefix(fd.path, "in2")) {
					continue
				}
				switch fd.kind {
				case "typedigit":
					for dgt := '0'; dgt <= '9'; dgt++ {
						if int(dgt) != fd.val {
							add(faultCase{b.ci, 0, fd.off, "xor", (fd.val ^ int(dgt)) << 24}, "gram_field_cases_typedigit")
						}
					}
				case "bits", "ccount":
					for _, t := range lengthTargets(fd.val, true) {
						add(faultCase{b.ci, 0, fd.off, "xor", fd.val ^ t}, "gram_field_cases_"+fd.kind)
					}
					if fd.kind == "bits" {
						for bit := 0; bit < 8; bit++ {
							add(faultCase{b.ci, 0, fd.off + 3, "bit", bit}, "gram_field_cases_bits")
						}
						if strings.Contains(fd.path, ".m") {
							o.Count("gram_member_size_words")
						}
					}
				case "typelen", "namelen":
					for _, t := range lengthTargets(fd.val, false) {
						add(faultCase{b.ci, 0, fd.off, "xor", fd.val ^ t}, "gram_field_cases_"+fd.kind)
					}
				}
			}
			continue
		}
		first := b.ci < streamBase+len(streamProgs)
		ncirc := 0
		for _, fd := range b.lay.fields {
			inOps := fd.off >= b.lay.headerEnd
			switch {
			case fd.kind == "typedigit":
				if !first && !thorough {
					continue
				}
				for dgt := '0'; dgt <= '9'; dgt++ {
					if int(dgt) != fd.val {
						add(faultCase{b.ci, 0, fd.off, "xor", (fd.val ^ int(dgt)) << 24}, "length_field_cases_typedigit")
					}
				}
			case fd.isLength():
				if inOps && !thorough {
					// quick: the first two and the last two circuits of the first variant
					if fd.kind == "ngates" {
						ncirc++
					}
					if !first || (ncirc > 2 && ncirc <= b.lay.ncirc-2 && fd.kind != "reslen") {
						continue
					}
				}
				if !first && !thorough && fd.kind != "bits" && fd.kind != "ccount" {
					continue
				}
				full := thorough || fd.kind == "bits" || fd.kind == "ccount" || fd.kind == "nout"
				for _, t := range lengthTargets(fd.val, full && !inOps) {
					add(faultCase{b.ci, 0, fd.off, "xor", fd.val ^ t}, "length_field_cases_"+fd.kind)
				}
				if fd.kind == "bits" && (first || thorough) {
					for bit := 0; bit < 8; bit++ {
						add(faultCase{b.ci, 0, fd.off + 3, "bit", bit}, "length_field_cases_bits")
					}
				}
			}
		}
		// evaluator->garbler: the framing of the result message
		msg := b.ba - b.lay.resultMsg
		for k := 0; k < b.lay.resultHead; k++ {
			for bit := 0; bit < 8; bit++ {
				add(faultCase{b.ci, 1, msg + k, "bit", bit}, "result_framing_cases")
			}
		}
		for k := 0; k+4 <= b.lay.resultHead; k += 4 {
			// the framing bytes are the same in every run of the session (the
			// OT bytes in front of them are not): values from the ideal-OT run
			v := int(binary.BigEndian.Uint32(b.lay.headBytes[k:]))
			for _, t := range lengthTargets(v, true) {
				add(faultCase{b.ci, 1, msg + k, "xor", v ^ t}, "result_framing_cases")
			}
			for _, m := range []int{0x30, 0x180, 0x1f0, 0xff, 0xffff} {
				add(faultCase{b.ci, 1, msg + k, "xor", m}, "result_framing_cases")
			}
		}
	}
	// Select-bit region of every returned output label (both modes): a label
	// is 16 bytes, its point-and-permute bit is the top bit of byte 0 and the
	// two labels of a wire differ by the session offset R, which always has
	// that bit set.  The cheapest blind forgery of a result bit is therefore a
	// flip of exactly that bit (it succeeds iff R has no other bit set, i.e.
	// iff the offset is not random); every label of every baseline session
	// gets it, plus flips at the other three corners of the label (all 128
	// bits in the thorough tier).
	for _, b := range bases {
		outBits := outBitsOf(b)
		if b.gram || (b.ss != nil && !thorough && b.ci >= streamBase+len(streamProgs)) {
			continue
		}
		for j := 0; j < outBits; j++ {
			pos0 := b.ba - 16*outBits + 16*j
			if pos0 < 0 {
				continue
			}
			if thorough && (b.ss == nil || b.ci < streamBase+len(streamProgs)) {
				for k := 0; k < 128; k++ {
					add(faultCase{b.ci, 1, pos0 + k/8, "bit", k % 8}, "select_bit_region_cases")
				}
				continue
			}
			for _, c := range [][2]int{{0, 7}, {0, 0}, {15, 0}, {15, 7}} {
				add(faultCase{b.ci, 1, pos0 + c[0], "bit", c[1]}, "select_bit_region_cases")
			}
		}
	}
	baseOf := map[int]base{}
	for _, b := range bases {
		baseOf[b.ci] = b
	}
	// one child process per case, 48 at a time (most of them wait for a deadline)
	results := map[string]string{}
	self, _ := os.Executable()
	var mu sync.Mutex
	var wg sync.WaitGroup
	sem := make(chan struct{}, 48)
	for _, c := range cases {
		wg.Add(1)
		sem <- struct{}{}
		go func(c faultCase) {
			defer wg.Done()
			defer func() { <-sem }()
			argv := append([]string{"faultchild", fmt.Sprint(cf.Seed), fmt.Sprint(deadline)}, strings.Fields(c.String())...)
			if b := baseOf[c.ci]; b.ss != nil {
				argv = append(argv, b.ss.prog.name, joinIn(b.ss.gin), joinIn(b.ss.ein))
			}
			cmd := exec.Command(self, argv...)
			outb, _ := cmd.Output()
			class := "crash"
			for _, ln := range strings.Split(string(outb), "\n") {
				if strings.HasPrefix(ln, "DONE ") {
					class = strings.TrimPrefix(ln, "DONE ")
				}
			}
			mu.Lock()
			results[c.String()] = class
			mu.Unlock()
		}(c)
	}
	wg.Wait()
	keys := make([]string, 0, len(results))
	for k := range results {
		keys = append(keys, k)
	}
	sort.Strings(keys)
	var unexplained, explained []map[string]any
	perClass := map[string]int{}
	for _, k := range keys {
		f := parseFault(k)
		class := results[k]
		b := baseOf[f.ci]
		reg := ""
		if b.s != nil {
			reg = region(f.dir, f.pos, b.ab, b.ba, b.s)
		} else {
			reg = streamRegion(f.dir, f.pos, b.lay, b.ab, b.ba, b.ss.outBits)
		}
		first := strings.Fields(class)[0]
		o.Count("class_" + first)
		o.Count("region_" + reg)
		o.Count("kind_" + f.kind)
		if strings.Contains(class, "gpanic") {
			o.Count("garbler_panics")
		}
		if strings.Contains(class, "epanic") {
			o.Count("evaluator_panics")
		}
		if first == "WRONG" {
			det := map[string]any{"fault": k, "region": reg, "class": class, "session": f.ci, "seed": cf.Seed}
			if b.ss != nil {
				det["mode"] = "streaming"
				det["program"] = b.ss.prog.name
				det["garbler_inputs"] = joinIn(b.ss.gin)
				det["evaluator_inputs"] = joinIn(b.ss.ein)
				det["replay_child"] = fmt.Sprintf("c16 faultchild %d 3000 %s %s '%s' '%s'", cf.Seed, k, b.ss.prog.name,
					joinIn(b.ss.gin), joinIn(b.ss.ein))
				var names []string
				if b.lay.err == "" && f.dir == 0 {
					for _, fd := range b.lay.touched(&f) {
						names = append(names, fd.path+"."+fd.kind)
					}
				}
				det["fields"] = strings.Join(names, "+")
				got := strings.TrimPrefix(strings.Fields(class)[1], "got=")
				for kk, v := range explainWrong(b.ss, b.lay, b.rec, &f, got) {
					if bv, ok := v.(bool); ok {
						det[kk] = strconv.FormatBool(bv) // strings: known_findings.json matches on them
					} else {
						det[kk] = v
					}
				}
			} else {
				det["mode"] = "whole-circuit"
			}
			if det["result_is_f_of_reparsed_input"] == "true" && det["only_evaluator_input_description_touched"] == "true" {
				cl := fmt.Sprint(det["description_locally_consistent"])
				o.Count("wrong_explained_by_reparsed_evaluator_input_consistent_" + cl)
				if perClass[cl] < 3 {
					perClass[cl]++
					explained = append(explained, det)
				}
			} else {
				unexplained = append(unexplained, det)
			}
		}
		o.Op("fault "+k, first)
	}
	// failures nobody has explained first: hxlib keeps the first 20
	if len(unexplained) > 14 {
		unexplained = unexplained[:14]
	}
	for _, det := range append(unexplained, explained...) {
		o.Fail("c16-wrong-result-after-corruption", det)
	}
	o.CountN("fault_cases", len(results))
	return 0
}

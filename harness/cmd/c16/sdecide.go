// sdecide: the real streaming garbler (compiler.Stream -> ssa.Program.Stream)
// against a SCRIPTED streaming evaluator: the honest circuit.StreamEvaluator
// runs behind a connection wrapper that replaces its result message by a
// chosen NUMBER of chosen labels (honest / the other label of the wire / one
// bit flipped / garbage / zero).  The garbler's outcome (error | results) is
// compared with the Lean model of the streaming result loop
// (Mpc.streamResultLoop): exactly Outputs.Size labels are consumed, label i
// is compared with the two labels of result wire i.
package main

import (
	"fmt"
	"io"
	"math/big"
	"strings"
	"sync"
	"time"

	"github.com/markkurossi/mpc/circuit"
	"github.com/markkurossi/mpc/compiler"
	"github.com/markkurossi/mpc/ot"
	"github.com/markkurossi/mpc/p2p"

	"verifharness/hxlib"
)

// scriptConn is the evaluator's end of the connection.  With the ideal OT the
// evaluator writes nothing but the result message, and p2p.Conn hands it over
// in ONE Write call (one Flush of a buffer that is far from full): the first
// Write goes through `rewrite` and on to the garbler.
type scriptConn struct {
	mu      sync.Mutex
	ep      *hxlib.Endpoint
	done    bool
	rewrite func(msg []byte) (out []byte, closeAfter bool)
}

func (c *scriptConn) Write(p []byte) (int, error) {
	c.mu.Lock()
	defer c.mu.Unlock()
	if c.done || len(p) == 0 {
		return c.ep.Write(p)
	}
	c.done = true
	out, closeAfter := c.rewrite(p)
	_, err := c.ep.Write(out)
	if closeAfter {
		c.ep.W.Close()
	}
	return len(p), err
}

func (c *scriptConn) Read(p []byte) (int, error) { return c.ep.Read(p) }

var _ io.ReadWriter = (*scriptConn)(nil)

func xorLabel(a, b ot.Label) ot.Label {
	a.Xor(b)
	return a
}

func sdecide(args []string) int {
	cf, o := hxlib.ParseCommon("c16", args, nil)
	defer o.Close()
	rng := hxlib.NewRng(cf.Seed ^ 0x5dec1de)
	refs := map[string]*wholeRef{}
	for i := 0; i < cf.N; i++ {
		r := rng.Fork()
		if cf.Only >= 0 && i != cf.Only {
			continue
		}
		p := &streamProgs[i%len(streamProgs)]
		gin, ein := p.gen(r)
		if len(p.special) > 0 && r.Intn(4) == 0 {
			s := p.special[r.Intn(len(p.special))]
			gin, ein = s[0], s[1]
		}
		ref := refs[p.name]
		if ref == nil {
			ref = newWholeRef(p.src, gin, ein)
			refs[p.name] = ref
		}
		if ref.err != nil {
			o.Fail("c16-baseline", map[string]any{"mode": "sdecide", "program": p.name, "error": ref.err.Error()})
			return 0
		}
		want, err := ref.compute(gin, ein)
		if err != nil {
			o.Fail("c16-baseline", map[string]any{"mode": "sdecide", "program": p.name, "error": err.Error()})
			return 0
		}
		raw := packResult(ref.circ.Outputs, want)
		n := p.outBits
		var widths []int
		for _, out := range ref.circ.Outputs {
			widths = append(widths, int(out.Type.Bits))
		}

		// the script: how many labels, and which label at each position
		count := n
		if i%3 != 0 {
			switch r.Intn(10) {
			case 0:
				count = n - 1
			case 1:
				count = r.Intn(n)
			case 2:
				count = 0
			case 3:
				count = n + 1
			case 4:
				count = n + 1 + r.Intn(6)
			case 5:
				count = n / 2
			}
		}
		kinds := make([]string, count)
		for k := range kinds {
			kinds[k] = "honest"
		}
		if i%3 != 0 && count > 0 {
			// at most two labels are not the honest ones
			for c := r.Intn(3); c > 0; c-- {
				kinds[r.Intn(count)] = []string{"other", "other", "bitflip", "garbage", "zero"}[r.Intn(5)]
			}
		}
		flipBit := r.Intn(128)
		garbage := ot.Label{D0: r.U64(), D1: r.U64()}

		ideal := hxlib.NewIdealOT()
		d := hxlib.NewDuplex(nil)
		var scripted []ot.Label // what was sent
		var pairs [][2]ot.Label // (L0, L1) of result wire i, from the honest labels and the OT'd wires
		format := ""
		sc := &scriptConn{ep: d.B}
		sc.rewrite = func(msg []byte) ([]byte, bool) {
			head := len(msg) - 16*n
			if head != 4 || len(ideal.Sent) == 0 || len(ideal.Sent[0]) == 0 {
				format = fmt.Sprintf("result message of %d bytes for %d result bits", len(msg), n)
				return msg, false
			}
			w0 := ideal.Sent[0][0]
			R := xorLabel(w0.L0, w0.L1)
			var ld ot.LabelData
			out := append([]byte(nil), msg[:head]...)
			honest := make([]ot.Label, n)
			for k := 0; k < n; k++ {
				honest[k].SetBytes(msg[head+16*k : head+16*k+16])
				l0 := honest[k]
				if raw.Bit(k) == 1 {
					l0 = xorLabel(l0, R)
				}
				pairs = append(pairs, [2]ot.Label{l0, xorLabel(l0, R)})
			}
			for k := 0; k < count; k++ {
				var l ot.Label
				h := garbage
				if k < n {
					h = honest[k]
				}
				switch kinds[k] {
				case "honest":
					l = h
				case "other":
					l = xorLabel(h, R)
				case "bitflip":
					l = h
					l.SetBit(flipBit, 1-h.Bit(flipBit))
				case "garbage":
					l = garbage
				case "zero":
				}
				scripted = append(scripted, l)
				out = append(out, l.Bytes(&ld)...)
			}
			return out, count < n
		}

		var gres []*big.Int
		var gerr error
		gdone := make(chan struct{})
		edone := make(chan struct{})
		go func() {
			defer close(gdone)
			defer func() {
				if e := recover(); e != nil {
					gerr = fmt.Errorf("panic: %v", e)
				}
			}()
			sizes, err := hxlib.StreamInputSizes(gin, ein)
			if err != nil {
				gerr = err
				return
			}
			params := hxlib.StreamParams(r.Fork())
			defer params.Close()
			_, gres, gerr = compiler.New(params).Stream(p2p.NewConn(d.A), ideal, "{data}", strings.NewReader(p.src), gin, sizes)
		}()
		go func() {
			defer close(edone)
			defer func() { recover() }()
			circuit.StreamEvaluator(p2p.NewConn(sc), ideal, ein, nil, false)
		}()
		result := ""
		select {
		case <-gdone:
			if gerr != nil {
				result = "error"
				o.Count("outcome_error")
			} else {
				result = "g=" + hxlib.BigsString(gres)
				o.Count("outcome_ok")
			}
		case <-time.After(20 * time.Second):
			result = "stalled"
		}
		d.Close()
		select {
		case <-edone:
		case <-time.After(3 * time.Second):
		}
		if format != "" {
			o.Count("format_unexpected")
			o.Meta["format_unexpected"] = format
			continue
		}
		if len(pairs) != n {
			// the evaluator never produced a result message
			o.Fail("c16-baseline", map[string]any{"mode": "sdecide", "program": p.name, "case": i, "result": result,
				"gerr": fmt.Sprint(gerr)})
			continue
		}
		cheat := false
		for k, kd := range kinds {
			o.Count("label_" + kd)
			if kd == "other" && k < n {
				cheat = true
			}
		}
		switch {
		case count < n:
			o.Count("count_short")
		case count > n:
			o.Count("count_long")
		default:
			o.Count("count_exact")
		}
		var ws, ls []string
		for _, pr := range pairs {
			ws = append(ws, labelHex(pr[0])+":"+labelHex(pr[1]))
		}
		for _, l := range scripted {
			ls = append(ls, labelHex(l))
		}
		lstr := "-"
		if len(ls) > 0 {
			lstr = strings.Join(ls, ",")
		}
		op := fmt.Sprintf("c16s %s %s %s", intsString(widths), strings.Join(ws, ","), lstr)
		if result == "stalled" {
			o.Fail("c16-decide-stalled", map[string]any{"mode": "sdecide", "case": i, "program": p.name, "count": count, "n": n})
		} else if gerr == nil && hxlib.BigsString(want) != hxlib.BigsString(gres) {
			if cheat {
				o.Count("wrong_only_with_other_label")
			} else {
				o.Fail("c16-wrong-result", map[string]any{"mode": "sdecide", "case": i, "program": p.name, "garbler_inputs": joinIn(gin),
					"evaluator_inputs": joinIn(ein), "labels_sent": count, "result_bits": n, "kinds": strings.Join(kinds, ","),
					"want": hxlib.BigsString(want), "got": hxlib.BigsString(gres)})
			}
		}
		o.Op(op, result)
		if i < 3 {
			o.Sample(map[string]any{"case": i, "program": p.name, "labels_sent": count, "result_bits": n, "result": result})
		}
	}
	return 0
}

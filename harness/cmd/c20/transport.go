// Vector lengths at the boundaries the implementation's buffers induce.
//
// The property quantifies over every vector length.  Between Mul and the wire
// sit buffers of fixed size: the p2p.Conn write buffer (the packed y- and
// u-vectors of 4 + 32*m bytes leave through it block by block), the p2p.Conn
// read buffer (ReceiveData refills it at most len(ReadBuf) bytes at a time)
// and the IKNP extension chunks (512 rows each).  The sizes are MEASURED on a
// live p2p.Conn of the tree under test, not written down here, and the
// generator places vector lengths just below, at and just above every
// multiple it can afford.
package main

import (
	"fmt"
	"math/big"
	"strings"

	"github.com/markkurossi/mpc/p2p"

	"verifharness/hxlib"
)

const (
	elemBytes   = 32  // bytes32
	frameHeader = 4   // SendData length prefix
	iknpRows    = 512 // rows per extension chunk (ot/iknp.go chunkRows)
)

// transportCaps returns the sizes of the write and the read buffer of a
// p2p.Conn as the tree under test allocates them.
func transportCaps() (wcap, rcap int) {
	c := p2p.NewConn(&replayRW{r: strings.NewReader("")})
	wcap, rcap = len(c.WriteBuf), len(c.ReadBuf)
	c.Close()
	return
}

// around returns the lengths m-1-lo .. m+hi around the largest m whose framed
// vector (header + 32*m bytes) still fits into k buffers of size bufSize, i.e.
// the last length of k blocks, the first of k+1 blocks and their neighbours.
func around(bufSize, k, lo, hi int) []int {
	fit := (k*bufSize - frameHeader) / elemBytes
	var out []int
	for m := fit - lo; m <= fit+hi; m++ {
		if m >= 1 {
			out = append(out, m)
		}
	}
	return out
}

// lenClass is one boundary class of vector lengths.
type lenClass struct {
	name string
	lens []int
}

// boundaryClasses lists the classes, smallest lengths first:
//
//	chunk   512*k +- 1 for the IKNP chunk multiples above the old grid
//	wbuf1   last length of one write-buffer block .. two past it (2046..2050)
//	wbuf2   the same around two blocks (4094..4098)
//	wbuf3/4 three and four blocks
//	rbuf1   around one read buffer (32766..32770)
func boundaryClasses(wcap, rcap int) []lenClass {
	cl := []lenClass{
		{"chunk", []int{3*iknpRows - 1, 3 * iknpRows, 3*iknpRows + 1, 5*iknpRows - 1, 5 * iknpRows, 5*iknpRows + 1}},
		{"wbuf1", around(wcap, 1, 1, 3)},
		{"wbuf2", around(wcap, 2, 1, 3)},
		{"wbuf3", around(wcap, 3, 1, 3)},
		{"wbuf4", around(wcap, 4, 1, 3)},
		{"rbuf1", around(rcap, 1, 1, 3)},
	}
	return cl
}

// lenTag classifies a length against the measured buffers (coverage
// counters; a length can carry several tags).
func lenTags(m, wcap, rcap int) []string {
	var t []string
	framed := frameHeader + elemBytes*m
	if framed > wcap {
		t = append(t, "beyond_one_write_block")
	}
	if framed > 2*wcap {
		t = append(t, "beyond_two_write_blocks")
	}
	if framed > rcap {
		t = append(t, "beyond_one_read_buffer")
	}
	for k := 1; k <= 4; k++ {
		fit := (k*wcap - frameHeader) / elemBytes
		switch m {
		case fit:
			t = append(t, fmt.Sprintf("last_of_%d_write_blocks", k))
		case fit + 1:
			t = append(t, fmt.Sprintf("first_of_%d_write_blocks", k+1))
		}
	}
	fitR := (rcap - frameHeader) / elemBytes
	if m == fitR {
		t = append(t, "last_of_1_read_buffer")
	} else if m == fitR+1 {
		t = append(t, "first_beyond_read_buffer")
	}
	if m > iknpRows && (m%iknpRows == 0 || m%iknpRows == 1 || m%iknpRows == iknpRows-1) {
		t = append(t, "iknp_chunk_edge")
	}
	return t
}

// longPattern is the shape of a history around one long vector.
type longPattern int

const (
	longAlone longPattern = iota
	shortThenLong
	longThenShort
	longThenNeighbour // a second long vector of the same class, other side of the boundary
	longShortLong
)

var longPatternNames = []string{"alone", "short-then-long", "long-then-short", "long-then-neighbour", "long-short-long"}

// longSpec is one case of the long-vector plan.
type longSpec struct {
	class   string
	m       int
	m2      int // neighbour length (longThenNeighbour, longShortLong)
	pattern longPattern
	large   bool // 256-bit modulus (else a small one)
}

// longPlan is the deterministic list of long-vector cases of a run.  Every
// class is visited with a small and a large modulus and every history shape;
// which length of a class meets which modulus / shape rotates with the seed.
// The quick tier keeps the write-buffer classes complete (they are cheap) and
// samples the expensive ones; the thorough tier visits every length of every
// class with both modulus sizes.
func longPlan(seed uint64, tier string, wcap, rcap int) []longSpec {
	var plan []longSpec
	// the thorough tier runs seeds s, s+1000, s+2000: both parts of the seed rotate the plan
	rot := int(seed%1000 + seed/1000%1000)
	for ci, c := range boundaryClasses(wcap, rcap) {
		if len(c.lens) == 0 {
			continue
		}
		var picks []int // indexes into c.lens
		both := false   // every pick with both modulus sizes
		switch {
		case tier != "quick":
			for i := range c.lens {
				picks = append(picks, i)
			}
			both = c.lens[len(c.lens)-1] < 20000
		case c.name == "wbuf1":
			for i := range c.lens {
				picks = append(picks, i)
			}
		case c.name == "wbuf2":
			// first length of three blocks and one rotating neighbour
			picks = []int{2, (rot + 3) % len(c.lens)}
		case c.name == "rbuf1":
			// one length beyond the read buffer per run (small modulus: the op
			// line of a 256-bit modulus at this length is 14 MB)
			picks = []int{2 + rot%3}
		default:
			picks = []int{(rot + ci) % len(c.lens)}
		}
		for k, i := range picks {
			m := c.lens[i]
			m2 := c.lens[(i+2)%len(c.lens)]
			sp := longSpec{class: c.name, m: m, m2: m2,
				pattern: longPattern((rot + ci + k) % len(longPatternNames)),
				large:   (rot+ci+k)%2 == 0}
			if c.name == "rbuf1" {
				sp.large = tier != "quick" && (k+rot)%2 == 0
				if sp.pattern == longThenNeighbour || sp.pattern == longShortLong {
					sp.pattern = longPattern((k + rot) % 3)
				}
			}
			plan = append(plan, sp)
			if both {
				sp.large = !sp.large
				sp.pattern = longPattern((int(sp.pattern) + 2) % len(longPatternNames))
				plan = append(plan, sp)
			}
		}
	}
	return plan
}

var largeModuli = []modulus{fixedModuli[0], fixedModuli[3], fixedModuli[4]}

// longElements fills a long vector: random draws of element() with the field
// corners also at the END of the vector and at the block edges (a fault of a
// block-wise loop shows at the first index of the second block).
func longElements(r *hxlib.Rng, m int, p *big.Int, small bool, wcap int, o *hxlib.Out) (xs, ys []*big.Int) {
	xs = make([]*big.Int, m)
	ys = make([]*big.Int, m)
	for i := 0; i < m; i++ {
		if small && r.Intn(4) != 0 {
			xs[i] = smallElement(r, p, o, "x")
			ys[i] = smallElement(r, p, o, "y")
		} else {
			xs[i] = element(r, p, o, "x")
			ys[i] = element(r, p, o, "y")
		}
	}
	pm1 := new(big.Int).Sub(p, big.NewInt(1))
	set := func(i int, x, y *big.Int) {
		if i >= 0 && i < m {
			xs[i], ys[i] = new(big.Int).Set(x), new(big.Int).Set(y)
		}
	}
	// the last element and the first element of every later block: non-zero
	// x, y distinct from what sits one block earlier
	set(m-1, pm1, pm1)
	set(m-2, big.NewInt(1), pm1)
	for k := 1; k <= 4; k++ {
		fit := (k*wcap - frameHeader) / elemBytes
		if fit < m && fit-1 >= 0 {
			set(fit, big.NewInt(1), randBelow(r, p))
			set(fit-1, pm1, big.NewInt(1))
		}
	}
	return
}

func shortCall(r *hxlib.Rng, o *hxlib.Out, how string) voleCall {
	var cl voleCall
	cl.how = how
	cl.m = 1 + r.Intn(70)
	if r.Intn(2) == 0 {
		cl.mod = smallModuli[r.Intn(len(smallModuli))]
	} else {
		cl.mod = fixedModuli[r.Intn(len(fixedModuli))]
	}
	cl.xs = make([]*big.Int, cl.m)
	cl.ys = make([]*big.Int, cl.m)
	for i := 0; i < cl.m; i++ {
		cl.xs[i] = element(r, cl.mod.p, o, "x")
		cl.ys[i] = element(r, cl.mod.p, o, "y")
	}
	return cl
}

// longCalls builds the history of one long-vector case.
func longCalls(r *hxlib.Rng, sp longSpec, wcap int, o *hxlib.Out) []voleCall {
	pick := func() modulus {
		if sp.large {
			if r.Intn(4) == 0 {
				// random modulus of exactly 256 bits
				v := new(big.Int).SetBytes(r.Bytes(32))
				v.SetBit(v, 255, 1)
				return modulus{"rand256", v, "random"}
			}
			return largeModuli[r.Intn(len(largeModuli))]
		}
		return smallModuli[r.Intn(len(smallModuli))]
	}
	long := func(m int, how string) voleCall {
		cl := voleCall{m: m, mod: pick(), how: how}
		cl.xs, cl.ys = longElements(r, m, cl.mod.p, !sp.large, wcap, o)
		return cl
	}
	switch sp.pattern {
	case shortThenLong:
		return []voleCall{shortCall(r, o, "first"), long(sp.m, "long-after-short")}
	case longThenShort:
		return []voleCall{long(sp.m, "first"), shortCall(r, o, "short-after-long")}
	case longThenNeighbour:
		return []voleCall{long(sp.m, "first"), long(sp.m2, "long-after-long")}
	case longShortLong:
		return []voleCall{long(sp.m, "first"), shortCall(r, o, "short-after-long"), long(sp.m2, "long-after-short")}
	}
	return []voleCall{long(sp.m, "first")}
}

// boundaryFollowUp picks a follow-up length from the write-buffer classes (a
// long vector at a random place of a random history).
func boundaryFollowUp(r *hxlib.Rng, wcap int) int {
	k := 1 + r.Intn(2)
	l := around(wcap, k, 1, 3)
	if len(l) == 0 {
		return 1
	}
	return l[r.Intn(len(l))]
}

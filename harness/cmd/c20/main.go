// Harness of property C20: OT-based multiplication gadgets return shares of
// the product.
//
//	c20 vole  real vole.Sender.Mul / vole.Receiver.Mul over a recording
//	          in-memory connection (ideal or CO base OT under the real IKNP
//	          extension); the labels the sender's IKNP returned are recovered
//	          by a shadow ot.IKNPSender fed with the same base-OT output, the
//	          same delta and the recorded column stream.
//	c20 fx    real bmr.FxSend/FxReceive/FxkSend/FxkReceive over ideal OT and
//	          over CO on ot.NewPipe, bmr.Label.ToOT/FromOT directly.
//
// Every case emits an op line (all inputs) and the real code's canonical
// result line; the property itself is evaluated on the real outputs (oracle).
package main

import (
	crand "crypto/rand"
	"fmt"
	"io"
	"math/big"
	"os"
	"strings"
	"sync"
	"time"

	"github.com/markkurossi/mpc/bmr"
	"github.com/markkurossi/mpc/ot"
	"github.com/markkurossi/mpc/p2p"
	"github.com/markkurossi/mpc/vole"

	"verifharness/hxlib"
)

func labelHex(l ot.Label) string {
	var d ot.LabelData
	l.GetData(&d)
	return hxlib.Hex(d[:])
}

func mustBig(s string) *big.Int {
	v, ok := new(big.Int).SetString(s, 16)
	if !ok {
		panic(s)
	}
	return v
}

// stalls counts sessions that hit the deadline; after two the run stops
// generating cases (each stalled case costs the full deadline).
var stalls int

var (
	runSeed uint64
	runN    int
	runTier string
)

var two256 = new(big.Int).Lsh(big.NewInt(1), 256)

type modulus struct {
	name  string
	p     *big.Int
	class string
}

var fixedModuli = []modulus{
	{"p256", mustBig("ffffffff00000001000000000000000000000000ffffffffffffffffffffffff"), ""},
	{"3", big.NewInt(3), ""},
	{"65537", big.NewInt(65537), ""},
	{"2e255m19", new(big.Int).Sub(new(big.Int).Lsh(big.NewInt(1), 255), big.NewInt(19)), ""},
	{"2e256m189", new(big.Int).Sub(two256, big.NewInt(189)), ""},
}

var boundaryLens = []int{1, 2, 511, 512, 513, 1023, 1024, 1025, 2000}

// wordModuli: moduli on both sides of the machine-word boundaries (a fast path for moduli that fit a word, or
// two, has its overflow corner exactly here: r + x*y mod p does not fit the word when p is just below 2^64).
// Planned by case index right after the grid, so that they occur for every seed.
func pow2plus(k uint, d int64) *big.Int {
	return new(big.Int).Add(new(big.Int).Lsh(big.NewInt(1), k), big.NewInt(d))
}

var wordModuli = []modulus{
	{"2e31m1", pow2plus(31, -1), "word"}, {"2e32m5", pow2plus(32, -5), "word"}, {"2e32p15", pow2plus(32, 15), "word"},
	{"2e63m25", pow2plus(63, -25), "word"}, {"2e63p9", pow2plus(63, 9), "word"}, {"2e64m59", pow2plus(64, -59), "word"},
	{"2e64m1", pow2plus(64, -1), "word"}, {"2e64p13", pow2plus(64, 13), "word"}, {"2e127m1", pow2plus(127, -1), "word"},
	{"2e128m159", pow2plus(128, -159), "word"}, {"2e128p51", pow2plus(128, 51), "word"}, {"2e192m237", pow2plus(192, -237), "word"},
}
var wordLens = []int{1, 40}

func randBelow(r *hxlib.Rng, n *big.Int) *big.Int {
	if n.Sign() <= 0 {
		return new(big.Int)
	}
	b := r.Bytes((n.BitLen()+7)/8 + 8)
	v := new(big.Int).SetBytes(b)
	return v.Mod(v, n)
}

// randModulus: random modulus >= 2 of a random bit length 2..256, with the
// extremes 2, 2^k, 2^k-1, 2^256-1 mixed in.
func randModulus(r *hxlib.Rng) modulus {
	switch r.Intn(10) {
	case 0:
		return modulus{"2", big.NewInt(2), "two"}
	case 1:
		return modulus{"2e256m1", new(big.Int).Sub(two256, big.NewInt(1)), "2e256m1"}
	case 2:
		k := 2 + r.Intn(254)
		return modulus{fmt.Sprintf("2e%d", k), new(big.Int).Lsh(big.NewInt(1), uint(k)), "pow2"}
	case 3:
		k := 2 + r.Intn(255)
		return modulus{fmt.Sprintf("2e%dm1", k), new(big.Int).Sub(new(big.Int).Lsh(big.NewInt(1), uint(k)), big.NewInt(1)), "pow2m1"}
	}
	bits := 2 + r.Intn(255)
	v := new(big.Int).SetBytes(r.Bytes(32))
	v.Rsh(v, uint(256-bits))
	v.SetBit(v, bits-1, 1)
	return modulus{fmt.Sprintf("rand%d", bits), v, "random"}
}

// element picks a value < 2^256: 0, 1, p-1, p, p+1, 2^256-1, random below
// p, random 256-bit (x and y are not required to be reduced: Sender.Mul
// reduces y and the product).
func element(r *hxlib.Rng, p *big.Int, o *hxlib.Out, who string) *big.Int {
	k := r.Intn(12)
	var v *big.Int
	var kind string
	switch k {
	case 0:
		v, kind = big.NewInt(0), "zero"
	case 1:
		v, kind = big.NewInt(1), "one"
	case 2, 3:
		v, kind = new(big.Int).Sub(p, big.NewInt(1)), "pm1"
	case 4:
		v, kind = new(big.Int).Set(p), "p"
	case 5:
		v, kind = new(big.Int).Sub(two256, big.NewInt(1)), "max256"
	case 6:
		v, kind = new(big.Int).SetBytes(r.Bytes(32)), "rand256"
	case 7:
		// short byte encodings (leading zero bytes in bytes32)
		v, kind = new(big.Int).SetBytes(r.Bytes(1+r.Intn(31))), "short"
	default:
		v, kind = randBelow(r, p), "randp"
	}
	if v.Cmp(two256) >= 0 {
		v.Mod(v, two256)
	}
	o.Count("elem_" + who + "_" + kind)
	return v
}

// fixedOT is the shadow sender's base OT: it returns the labels the real
// sender's base OT returned.
type fixedOT struct{ labels []ot.Label }

func (f *fixedOT) InitSender(ot.IO) error   { return nil }
func (f *fixedOT) InitReceiver(ot.IO) error { return nil }
func (f *fixedOT) Send([]ot.Wire) error     { return fmt.Errorf("fixedOT: Send") }
func (f *fixedOT) Receive(flags []bool, result []ot.Label) error {
	if len(result) != len(f.labels) {
		return fmt.Errorf("fixedOT: %d labels, want %d", len(f.labels), len(result))
	}
	copy(result, f.labels)
	return nil
}

type replayRW struct{ r io.Reader }

func (p *replayRW) Read(b []byte) (int, error)  { return p.r.Read(b) }
func (p *replayRW) Write(b []byte) (int, error) { return len(b), nil }

// iknpFrameSizes mirrors only the *shape* of the column stream
// (ot.IKNPReceiver.receive): per chunk of up to 512 rows one SendData of
// 128*ceil(rows/8) bytes.
func iknpFrameSizes(m int) []int {
	var s []int
	for ofs := 0; ofs < m; {
		rows := 512
		if rows > m-ofs {
			rows = m - ofs
		}
		s = append(s, 128*((rows+7)/8))
		ofs += rows
	}
	return s
}

func be32(b []byte) int { return int(b[0])<<24 | int(b[1])<<16 | int(b[2])<<8 | int(b[3]) }

func natsHex(v []*big.Int) string {
	if len(v) == 0 {
		return "-"
	}
	var sb strings.Builder
	for i, x := range v {
		if i > 0 {
			sb.WriteByte(',')
		}
		if x == nil {
			sb.WriteString("nil")
		} else {
			sb.WriteString(x.Text(16))
		}
	}
	return sb.String()
}

// voleCall is one Mul on both sides.
type voleCall struct {
	m      int
	mod    modulus
	xs, ys []*big.Int
	how    string // how the call was derived from the previous one
}

// voleCase is one Sender/Receiver pair and the history of Mul calls on it.
type voleCase struct {
	idx   int
	base  string // "ideal" | "co"
	calls []voleCall
	delta []byte
	seedS uint64
	seedR uint64
	frag  *hxlib.Rng
}

func roundUp8(m int) int { return (m + 7) / 8 * 8 }

func (c *voleCase) summary() string {
	var sb strings.Builder
	for j, cl := range c.calls {
		if j > 0 {
			sb.WriteString(", ")
		}
		fmt.Fprintf(&sb, "m=%d/p=%s", cl.m, cl.mod.name)
	}
	return sb.String()
}

// opRes is one op line with the real code's result line.
type opRes struct{ op, res string }

// wcapRun is the measured size of the p2p.Conn write buffer of the tree under
// test; it is the <cap> argument of every volesw op line (the model computes
// the wire bytes through a block-wise writer of that size).
var wcapRun int

// maxLine is the longest result line emitted in one piece (hxlib caps lines
// at 8 MiB); longer histories are emitted as two op lines with the views
// "ru" (both share vectors) and "msg" (both framed messages).
const maxLine = 6 << 20

// runVole runs one history of Mul calls on one pair; returns the op line(s)
// and the result line(s).
func runVole(o *hxlib.Out, c *voleCase) []opRes {
	op, res := runVoleViews(o, c)
	out := make([]opRes, len(op))
	for i := range op {
		out[i] = opRes{op[i], res[i]}
	}
	return out
}

func runVoleViews(o *hxlib.Out, c *voleCase) ([]string, []string) {
	detail := func(extra map[string]any) map[string]any {
		d := map[string]any{"case": c.idx, "calls": c.summary(), "base": c.base,
			"rerun": fmt.Sprintf("go run -tags verif ./cmd/c20 vole -seed %d -n %d -tier %s -only %d (in /verif/harness)", runSeed, runN, runTier, c.idx)}
		for k, v := range extra {
			d[k] = v
		}
		return d
	}
	d := hxlib.NewDuplex(c.frag)
	cs := p2p.NewConn(d.A)
	cr := p2p.NewConn(d.B)
	var baseS, baseR ot.OT
	if c.base == "ideal" {
		ideal := hxlib.NewIdealOT()
		baseS, baseR = ideal, ideal
	} else {
		baseS = ot.NewCO(hxlib.NewRng(c.seedS))
		baseR = ot.NewCO(hxlib.NewRng(c.seedR))
	}
	recS := &hxlib.RecOT{OT: baseS}

	k := len(c.calls)
	rsAll := make([][]*big.Int, 0, k)
	usAll := make([][]*big.Int, 0, k)
	var errS, errR error
	var panS, panR any
	sdone := make(chan struct{})
	rdone := make(chan struct{})
	go func() {
		defer close(sdone)
		defer func() {
			if e := recover(); e != nil {
				panS = e
				d.Close()
			}
		}()
		var s *vole.Sender
		s, errS = vole.NewSender(recS, cs, &hxlib.Tape{Data: c.delta})
		for j := 0; errS == nil && j < k; j++ {
			var rs []*big.Int
			rs, errS = s.Mul(c.calls[j].xs, c.calls[j].mod.p)
			if errS == nil {
				rsAll = append(rsAll, rs)
			}
		}
		if errS != nil {
			d.Close()
		}
	}()
	go func() {
		defer close(rdone)
		defer func() {
			if e := recover(); e != nil {
				panR = e
				d.Close()
			}
		}()
		var r *vole.Receiver
		r, errR = vole.NewReceiver(baseR, cr, hxlib.NewRng(c.seedR+1))
		for j := 0; errR == nil && j < k; j++ {
			var us []*big.Int
			us, errR = r.Mul(c.calls[j].ys, c.calls[j].mod.p)
			if errR == nil {
				usAll = append(usAll, us)
			}
		}
		if errR != nil {
			d.Close()
		}
	}()
	stalled := false
	timer := time.After(30 * time.Second)
	for sdone != nil || rdone != nil {
		select {
		case <-sdone:
			sdone = nil
		case <-rdone:
			rdone = nil
		case <-timer:
			stalled = true
			d.Close()
			timer = nil
			t2 := time.After(3 * time.Second)
			for sdone != nil || rdone != nil {
				select {
				case <-sdone:
					sdone = nil
				case <-rdone:
					rdone = nil
				case <-t2:
					sdone, rdone = nil, nil
				}
			}
		}
	}
	d.Close()

	var callsSB strings.Builder
	for _, cl := range c.calls {
		fmt.Fprintf(&callsSB, " %s %s %s", cl.mod.p.Text(16), natsHex(cl.xs), natsHex(cl.ys))
	}
	opView := func(view, stream string) string {
		return fmt.Sprintf("c20 volesw %d%s %s%s", wcapRun, view, stream, callsSB.String())
	}
	opWith := func(stream string) string { return opView("", stream) }
	one := func(op, res string) ([]string, []string) { return []string{op}, []string{res} }
	if stalled {
		stalls++
	}
	if stalled || panS != nil || panR != nil || errS != nil || errR != nil {
		o.Fail("c20-vole-error", detail(map[string]any{"stalled": stalled, "sender_panic": fmt.Sprint(panS),
			"receiver_panic": fmt.Sprint(panR), "sender_err": fmt.Sprint(errS), "receiver_err": fmt.Sprint(errR),
			"sender_calls_done": len(rsAll), "receiver_calls_done": len(usAll)}))
		return one(opWith("-"), "session-failed")
	}

	// ---- oracle: the share relation on the real outputs, after every call
	for j, cl := range c.calls {
		rs, us, p := rsAll[j], usAll[j], cl.mod.p
		cd := func(extra map[string]any) map[string]any {
			extra["call"] = j
			extra["m"] = cl.m
			extra["p"] = p.Text(16)
			extra["modulus"] = cl.mod.name
			extra["how"] = cl.how
			return detail(extra)
		}
		if len(rs) != cl.m || len(us) != cl.m {
			o.Fail("c20-vole-length", cd(map[string]any{"len_r": len(rs), "len_u": len(us)}))
			continue
		}
		for i := 0; i < cl.m; i++ {
			r, u := rs[i], us[i]
			if r == nil || u == nil || r.Sign() < 0 || u.Sign() < 0 || r.Cmp(p) >= 0 || u.Cmp(p) >= 0 {
				o.Fail("c20-vole-range", cd(map[string]any{"i": i, "r": fmt.Sprint(r), "u": fmt.Sprint(u)}))
				break
			}
			left := new(big.Int).Sub(u, r)
			left.Mod(left, p)
			right := new(big.Int).Mul(cl.xs[i], cl.ys[i])
			right.Mod(right, p)
			if left.Cmp(right) != 0 {
				o.Fail("c20-vole-relation", cd(map[string]any{"i": i, "x": cl.xs[i].Text(16), "y": cl.ys[i].Text(16),
					"r": r.Text(16), "u": u.Text(16), "u_minus_r": left.Text(16), "xy": right.Text(16)}))
				break
			}
		}
	}

	// ---- transcript: per call the column stream + y message (receiver ->
	// sender) and the u message (sender -> receiver)
	tailBA, tailAB := 0, 0
	for _, cl := range c.calls {
		if cl.m == 0 {
			continue
		}
		for _, f := range iknpFrameSizes(cl.m) {
			tailBA += 4 + f
		}
		tailBA += 4 + 32*cl.m
		tailAB += 4 + 32*cl.m
	}
	ba := d.BA.Rec
	ab := d.AB.Rec
	shape := len(ba) >= tailBA && len(ab) >= tailAB
	if shape && c.base == "ideal" {
		shape = len(ba) == tailBA && len(ab) == tailAB
	}
	var cols []byte
	ymsgs := make([][]byte, k)
	umsgs := make([][]byte, k)
	if shape {
		off := len(ba) - tailBA
		offU := len(ab) - tailAB
		for j, cl := range c.calls {
			if cl.m == 0 || !shape {
				continue
			}
			for _, f := range iknpFrameSizes(cl.m) {
				if be32(ba[off:]) != f {
					shape = false
					break
				}
				cols = append(cols, ba[off:off+4+f]...)
				off += 4 + f
			}
			if !shape {
				break
			}
			if be32(ba[off:]) != 32*cl.m || be32(ab[offU:]) != 32*cl.m {
				shape = false
				break
			}
			// the framed messages as they were on the wire (length prefix included)
			ymsgs[j] = ba[off : off+4+32*cl.m]
			off += 4 + 32*cl.m
			umsgs[j] = ab[offU : offU+4+32*cl.m]
			offU += 4 + 32*cl.m
		}
	}
	if !shape || len(recS.Got) != 1 || len(recS.Got[0]) != ot.K {
		o.Fail("c20-vole-transcript-shape", detail(map[string]any{"len_ba": len(ba), "len_ab": len(ab), "tail_ba": tailBA,
			"tail_ab": tailAB, "base_receives": len(recS.Got)}))
		return one(opWith("-"), "transcript-shape")
	}

	// ---- the extension's row stream as the sender sees it: a shadow
	// IKNPSender on the same base-OT output, delta and column stream, asked per
	// call for the length rounded up to the byte-row boundary (the same chunks
	// are read; the first m rows are the labels Sender.Mul got)
	var stream []ot.Label
	var shadowErr error
	func() {
		defer func() {
			if e := recover(); e != nil {
				shadowErr = fmt.Errorf("panic: %v", e)
			}
		}()
		sc := p2p.NewConn(&replayRW{r: strings.NewReader(string(cols))})
		defer sc.Close()
		var sh *ot.IKNPSender
		sh, shadowErr = ot.NewIKNPSender(&fixedOT{labels: recS.Got[0]}, sc, &hxlib.Tape{Data: c.delta}, nil)
		for _, cl := range c.calls {
			if shadowErr != nil || cl.m == 0 {
				continue
			}
			var labels []ot.Label
			labels, shadowErr = sh.Send(roundUp8(cl.m), false)
			if shadowErr == nil && len(labels) != roundUp8(cl.m) {
				shadowErr = fmt.Errorf("shadow Send(%d) returned %d labels", roundUp8(cl.m), len(labels))
			}
			stream = append(stream, labels...)
		}
	}()
	if shadowErr != nil {
		o.Fail("c20-vole-shadow", detail(map[string]any{"err": fmt.Sprint(shadowErr), "labels": len(stream)}))
		return one(opWith("-"), "shadow-failed")
	}
	var lsb strings.Builder
	for _, l := range stream {
		lsb.WriteString(labelHex(l))
	}
	if len(stream) == 0 {
		lsb.WriteString("-")
	}
	var res, resRU, resMsg strings.Builder
	fmt.Fprintf(&res, "pos=%d", len(stream))
	fmt.Fprintf(&resRU, "pos=%d", len(stream))
	fmt.Fprintf(&resMsg, "pos=%d", len(stream))
	for j := range c.calls {
		ru := fmt.Sprintf("r=%s;u=%s", natsHex(rsAll[j]), natsHex(usAll[j]))
		msg := fmt.Sprintf("yfr=%s;ufr=%s", hxlib.Hex(ymsgs[j]), hxlib.Hex(umsgs[j]))
		fmt.Fprintf(&res, "|%s;%s", ru, msg)
		fmt.Fprintf(&resRU, "|%s", ru)
		fmt.Fprintf(&resMsg, "|%s", msg)
	}
	if res.Len() > maxLine {
		o.Count("vole_sessions_emitted_as_two_views")
		return []string{opView("/ru", lsb.String()), opView("/msg", lsb.String())}, []string{resRU.String(), resMsg.String()}
	}
	return one(opWith(lsb.String()), res.String())
}

func pickLen(r *hxlib.Rng) int {
	switch r.Intn(6) {
	case 0:
		return 1 + r.Intn(8)
	case 1:
		return 1 + r.Intn(70)
	case 2:
		// around multiples of 8 / 64 / 512 (byte rows, words, chunks)
		base := []int{8, 16, 64, 128, 504, 512, 520, 1024, 1536}[r.Intn(9)]
		return base - 1 + r.Intn(3)
	case 3:
		return 1 + r.Intn(2000)
	default:
		return 1 + r.Intn(300)
	}
}

var smallModuli = []modulus{
	{"2", big.NewInt(2), "two"}, {"3", big.NewInt(3), ""}, {"65537", big.NewInt(65537), ""},
	{"251", big.NewInt(251), "small"}, {"2e61m1", new(big.Int).Sub(new(big.Int).Lsh(big.NewInt(1), 61), big.NewInt(1)), "small"},
}

// smallElement: few significant bytes (0, 1, p-1 of a small p, 1..4 bytes).
func smallElement(r *hxlib.Rng, p *big.Int, o *hxlib.Out, who string) *big.Int {
	switch r.Intn(4) {
	case 0:
		o.Count("elem_" + who + "_zero")
		return big.NewInt(0)
	case 1:
		o.Count("elem_" + who + "_one")
		return big.NewInt(1)
	case 2:
		o.Count("elem_" + who + "_pm1")
		return new(big.Int).Sub(p, big.NewInt(1))
	}
	o.Count("elem_" + who + "_short")
	return new(big.Int).SetBytes(r.Bytes(1 + r.Intn(4)))
}

// nextCall derives a follow-up call on the same pair from the history.
func nextCall(r *hxlib.Rng, prev []voleCall, tier string, o *hxlib.Out) voleCall {
	last := prev[len(prev)-1]
	maxM := 0
	for _, c := range prev {
		if c.m > maxM {
			maxM = c.m
		}
	}
	var cl voleCall
	switch r.Intn(12) {
	case 0, 1:
		cl.m, cl.how = last.m, "same-length"
	case 2:
		cl.m, cl.how = 1, "one"
	case 3, 4, 5:
		cl.m, cl.how = 1+r.Intn(maxInt(maxM, 1)), "not-longer"
	case 6:
		cl.m, cl.how = 1+r.Intn(8), "tiny"
	case 7:
		cl.m, cl.how = maxM+1+r.Intn(10), "longer"
	case 8:
		cl.m, cl.how = 0, "empty"
	default:
		cl.m, cl.how = 1+r.Intn(70), "random-short"
	}
	if tier == "quick" && cl.m > 600 && r.Intn(3) != 0 {
		cl.m = 1 + r.Intn(600)
		cl.how = "not-longer"
	}
	if wcapRun > 0 && r.Intn(40) == 0 {
		// a long vector at a random place of the history: a length around one or
		// two blocks of the connection's write buffer
		cl.m, cl.how = boundaryFollowUp(r, wcapRun), "transport-boundary"
	}
	switch r.Intn(6) {
	case 0:
		cl.mod = last.mod
	case 1, 2, 3:
		cl.mod = smallModuli[r.Intn(len(smallModuli))]
	case 4:
		cl.mod = fixedModuli[r.Intn(len(fixedModuli))]
	default:
		cl.mod = randModulus(r)
	}
	small := r.Intn(2) == 0
	cl.xs = make([]*big.Int, cl.m)
	cl.ys = make([]*big.Int, cl.m)
	for i := 0; i < cl.m; i++ {
		if small && r.Intn(8) != 0 {
			cl.xs[i] = smallElement(r, cl.mod.p, o, "x")
			cl.ys[i] = smallElement(r, cl.mod.p, o, "y")
		} else {
			cl.xs[i] = element(r, cl.mod.p, o, "x")
			cl.ys[i] = element(r, cl.mod.p, o, "y")
		}
	}
	return cl
}

func maxInt(a, b int) int {
	if a > b {
		return a
	}
	return b
}

func byteLen(v *big.Int) int { return (v.BitLen() + 7) / 8 }

func voleMain(cf *hxlib.CommonFlags, o *hxlib.Out) {
	master := hxlib.NewRng(cf.Seed)
	type combo struct {
		m   int
		mod modulus
	}
	var grid []combo
	for _, m := range boundaryLens {
		for _, md := range fixedModuli {
			grid = append(grid, combo{m, md})
		}
	}
	nGrid := len(grid)
	for _, m := range wordLens {
		for _, md := range wordModuli {
			grid = append(grid, combo{m, md})
		}
	}
	// transport boundaries, measured on the tree under test
	wcap, rcap := transportCaps()
	wcapRun = wcap
	o.Meta["write_buffer_bytes"] = wcap
	o.Meta["read_buffer_bytes"] = rcap
	plan := longPlan(cf.Seed, cf.Tier, wcap, rcap)
	o.Meta["long_plan_cases"] = len(plan)
	for idx := 0; idx < cf.N; idx++ {
		r := master.Fork()
		c := &voleCase{idx: idx}
		var first voleCall
		first.how = "first"
		var long *longSpec
		if idx < len(grid) {
			first.m, first.mod = grid[idx].m, grid[idx].mod
		} else if idx-len(grid) < len(plan) {
			long = &plan[idx-len(grid)]
		} else {
			if cf.Tier == "quick" {
				first.m = 1 + r.Intn(90)
				if r.Intn(4) == 0 {
					first.m = pickLen(r)
				}
			} else {
				first.m = pickLen(r)
				if r.Intn(12) == 0 {
					// beyond the stated range: messages larger than the connection's 64 KiB write buffer
					first.m = []int{2047, 2048, 2049, 3000, 4095, 4097}[r.Intn(6)]
				}
			}
			if r.Intn(3) == 0 {
				first.mod = fixedModuli[r.Intn(len(fixedModuli))]
			} else {
				first.mod = randModulus(r)
			}
		}
		// base OT: CO on every fourth case (128 curve operations each)
		if idx%4 == 3 {
			c.base = "co"
		} else {
			c.base = "ideal"
		}
		c.delta = r.Bytes(16)
		switch r.Intn(8) {
		case 0:
			for i := range c.delta {
				c.delta[i] = 0xff
			}
		case 1:
			for i := range c.delta {
				c.delta[i] = 0
			}
		}
		c.seedS, c.seedR = r.U64(), r.U64()
		if r.Intn(2) == 0 {
			c.frag = r.Fork()
		}
		if long != nil {
			// long-vector plan: the history is built around one boundary length
			c.calls = longCalls(r, *long, wcap, o)
			first = c.calls[0]
		} else {
			first.xs = make([]*big.Int, first.m)
			first.ys = make([]*big.Int, first.m)
			for i := 0; i < first.m; i++ {
				first.xs[i] = element(r, first.mod.p, o, "x")
				first.ys[i] = element(r, first.mod.p, o, "y")
			}
			c.calls = []voleCall{first}
			// history: 1..6 calls on the same pair (a single call on one case in five)
			ncalls := 1
			if idx < len(grid) {
				ncalls = 2 + r.Intn(3)
			} else if r.Intn(5) != 0 {
				ncalls = 2 + r.Intn(5)
			}
			for len(c.calls) < ncalls {
				c.calls = append(c.calls, nextCall(r, c.calls, cf.Tier, o))
			}
		}
		if cf.Only >= 0 && cf.Only != idx {
			continue
		}
		if stalls >= 2 {
			o.Count("aborted_after_stalls")
			break
		}
		resBytes := 0
		for _, e := range runVole(o, c) {
			o.Op(e.op, e.res)
			resBytes += len(e.res)
		}
		o.Count("vole_sessions")
		o.Count(fmt.Sprintf("vole_session_calls_%d", len(c.calls)))
		o.Count("vole_base_" + c.base)
		if idx >= nGrid && idx < len(grid) {
			o.Count(fmt.Sprintf("vole_word_%d_%s", first.m, first.mod.name))
		} else if idx < nGrid {
			o.Count(fmt.Sprintf("vole_grid_%d_%s", first.m, first.mod.name))
		}
		if long != nil {
			o.Count("vole_long_cases")
			o.Count("vole_long_class_" + long.class)
			o.Count("vole_long_pattern_" + longPatternNames[long.pattern])
		}
		slotY := map[int]int{} // widest y packed so far per vector slot
		slotU := 0             // longest vector so far
		for j, cl := range c.calls {
			o.Count("vole_calls")
			if cl.mod.class != "" {
				o.Count("vole_mod_" + cl.mod.class)
			} else {
				o.Count("vole_mod_" + cl.mod.name)
			}
			o.CountN("vole_elements", cl.m)
			switch {
			case cl.m == 0:
				o.Count("vole_len_0")
			case cl.m == 1:
				o.Count("vole_len_1")
			case cl.m < 8:
				o.Count("vole_len_2..7")
			case cl.m <= 512:
				o.Count("vole_len_8..512")
			case cl.m <= 1024:
				o.Count("vole_len_513..1024")
			case cl.m <= 2000:
				o.Count("vole_len_1025..2000")
			default:
				o.Count("vole_len_above_2000")
			}
			if cl.m%8 != 0 {
				o.Count("vole_len_not_mult_8")
			}
			size := "small_modulus"
			if cl.mod.p.BitLen() > 248 {
				size = "large_modulus"
			} else if cl.mod.p.BitLen() > 64 {
				size = "medium_modulus"
			}
			for _, t := range lenTags(cl.m, wcap, rcap) {
				o.Count("vole_len_" + t)
				o.Count("vole_len_" + t + "_" + size)
				if j > 0 && c.calls[j-1].m > 0 && frameHeader+elemBytes*c.calls[j-1].m <= wcap {
					o.Count("vole_len_" + t + "_after_one_block_call")
				}
				if j+1 < len(c.calls) && c.calls[j+1].m > 0 && frameHeader+elemBytes*c.calls[j+1].m <= wcap {
					o.Count("vole_len_" + t + "_before_one_block_call")
				}
			}
			if j > 0 {
				o.Count("vole_next_" + cl.how)
				prev := c.calls[j-1]
				if cl.mod.p.Cmp(prev.mod.p) < 0 {
					o.Count("vole_next_modulus_smaller")
				}
				if cl.m > 0 && cl.m <= slotU {
					o.Count("vole_next_fits_earlier_vector")
				}
				shrinks := false
				for i := 0; i < cl.m; i++ {
					if w, ok := slotY[i]; ok && byteLen(cl.ys[i]) < w {
						shrinks = true
						break
					}
				}
				if shrinks {
					o.Count("vole_next_slot_value_narrower")
				}
			}
			for i := 0; i < cl.m; i++ {
				if w := byteLen(cl.ys[i]); w > slotY[i] {
					slotY[i] = w
				}
			}
			if cl.m > slotU {
				slotU = cl.m
			}
		}
		if idx < 3 {
			o.Sample(map[string]any{"mode": "vole", "calls": c.summary(), "base": c.base, "result_bytes": resBytes})
		}
	}
}

// ---------------------------------------------------------------- Fx / Fxk

// lockedReader serialises reads (crypto/rand.Reader is used by the sender's
// bmr.NewLabel; nothing else should read it, but a mutated tree might).
type lockedReader struct {
	mu   sync.Mutex
	head []byte
	rest io.Reader
}

func (l *lockedReader) Read(p []byte) (int, error) {
	l.mu.Lock()
	defer l.mu.Unlock()
	n := 0
	for n < len(p) && len(l.head) > 0 {
		p[n] = l.head[0]
		l.head = l.head[1:]
		n++
	}
	if n < len(p) {
		k, err := l.rest.Read(p[n:])
		return n + k, err
	}
	return n, nil
}

type fxSetup struct {
	snd, rcv *hxlib.RecOT
	close    func()
}

func fxOT(base string, r *hxlib.Rng) (*fxSetup, error) {
	if base == "ideal" {
		ideal := hxlib.NewIdealOT()
		return &fxSetup{snd: &hxlib.RecOT{OT: ideal}, rcv: &hxlib.RecOT{OT: ideal}, close: func() {}}, nil
	}
	fp, tp := ot.NewPipe()
	s := ot.NewCO(hxlib.NewRng(r.U64()))
	v := ot.NewCO(hxlib.NewRng(r.U64()))
	ch := make(chan error, 1)
	go func() { ch <- v.InitReceiver(tp) }()
	if err := s.InitSender(fp); err != nil {
		return nil, err
	}
	select {
	case err := <-ch:
		if err != nil {
			return nil, err
		}
	case <-time.After(20 * time.Second):
		return nil, fmt.Errorf("InitReceiver timeout")
	}
	return &fxSetup{snd: &hxlib.RecOT{OT: s}, rcv: &hxlib.RecOT{OT: v}, close: func() { fp.Close(); tp.Close() }}, nil
}

// runPair runs the sender function in this goroutine and the receiver in
// another, with a deadline.
func runPair(snd func() error, rcv func() error, closer func()) (errS, errR error, panS, panR any, stalled bool) {
	rdone := make(chan struct{})
	sdone := make(chan struct{})
	go func() {
		defer close(rdone)
		defer func() {
			if e := recover(); e != nil {
				panR = e
			}
		}()
		errR = rcv()
	}()
	go func() {
		defer close(sdone)
		defer func() {
			if e := recover(); e != nil {
				panS = e
			}
		}()
		errS = snd()
	}()
	timer := time.After(20 * time.Second)
	for sdone != nil || rdone != nil {
		select {
		case <-sdone:
			sdone = nil
		case <-rdone:
			rdone = nil
		case <-timer:
			stalled = true
			stalls++
			closer()
			return
		}
	}
	return
}

func wireHex(w ot.Wire) string { return labelHex(w.L0) + labelHex(w.L1) }

func fxMain(cf *hxlib.CommonFlags, o *hxlib.Out) {
	master := hxlib.NewRng(cf.Seed)
	specials := [][]byte{{0, 0, 0, 0}, {0xff, 0xff, 0xff, 0xff}, {1, 0, 0, 0}, {0, 0, 0, 1}, {0xfe, 0xff, 0xff, 0xff},
		{0x80, 0, 0, 0}, {0, 0, 0, 0x80}, {0, 1, 0, 0}}
	label4 := func(r *hxlib.Rng) []byte {
		if r.Intn(3) == 0 {
			return append([]byte(nil), specials[r.Intn(len(specials))]...)
		}
		return r.Bytes(4)
	}
	var lbl bmr.Label
	if len(lbl) != 4 {
		o.Fail("c20-label-size", map[string]any{"len": len(lbl)})
		return
	}
	for idx := 0; idx < cf.N; idx++ {
		r := master.Fork()
		kind := idx % 4 // 0,1: fx  2: fxk  3: conversions
		base := "ideal"
		if idx%8 >= 4 && idx%3 == 0 {
			base = "co"
		}
		// the first 16 fx cases enumerate (a, b, bit0(rl)) over the ideal OT, the
		// next 8 (a, b) over CO
		rl := label4(r)
		var a, b uint
		a, b = uint(r.Intn(2)), uint(r.Intn(2))
		wide := false
		if kind <= 1 && r.Intn(5) == 0 {
			// outside the property's domain: correspondence only
			wide = true
			a = []uint{2, 3, 254, 255, 256, 257, 1 << 32, 1<<32 + 1}[r.Intn(8)]
			if r.Intn(2) == 0 {
				b = []uint{2, 3, 256, 257}[r.Intn(4)]
			}
		}
		s4 := label4(r)
		seedOT := r.Fork()
		enum := idx / 4
		if kind == 0 && enum < 8 {
			a, b, wide = uint(enum&1), uint(enum>>1&1), false
			rl[0] = rl[0]&0xfe | byte(enum>>2&1)
			base = "ideal"
		} else if kind == 1 && enum < 4 {
			a, b, wide = uint(enum&1), uint(enum>>1&1), false
			base = "co"
		} else if kind == 2 && enum < 4 {
			b = uint(enum & 1)
			if enum>>1 == 0 {
				base = "ideal"
			} else {
				base = "co"
			}
		}
		if cf.Only >= 0 && cf.Only != idx {
			continue
		}
		if stalls >= 2 {
			o.Count("aborted_after_stalls")
			break
		}
		detail := func(extra map[string]any) map[string]any {
			d := map[string]any{"case": idx, "a": a, "b": b, "base": base, "rl": hxlib.Hex(rl), "s": hxlib.Hex(s4),
				"rerun": fmt.Sprintf("go run -tags verif ./cmd/c20 fx -seed %d -n %d -tier %s -only %d (in /verif/harness)", runSeed, runN, runTier, idx)}
			for k, v := range extra {
				d[k] = v
			}
			return d
		}
		switch kind {
		case 0, 1:
			op := fmt.Sprintf("c20 fx %s %d %d", hxlib.Hex(rl), a, b)
			set, err := fxOT(base, seedOT)
			if err != nil {
				o.Fail("c20-fx-error", detail(map[string]any{"err": err.Error()}))
				o.Op(op, "setup-failed")
				continue
			}
			crand.Reader = &lockedReader{head: append([]byte(nil), rl...), rest: hxlib.NewRng(r.U64())}
			var rr, xb uint
			errS, errR, panS, panR, stalled := runPair(
				func() (err error) { rr, err = bmr.FxSend(set.snd, a); return },
				func() (err error) { xb, err = bmr.FxReceive(set.rcv, b); return }, set.close)
			set.close()
			if errS != nil || errR != nil || panS != nil || panR != nil || stalled ||
				len(set.snd.Sent) != 1 || len(set.snd.Sent[0]) != 1 || len(set.rcv.Got) != 1 || len(set.rcv.Got[0]) != 1 {
				o.Fail("c20-fx-error", detail(map[string]any{"sender_err": fmt.Sprint(errS), "receiver_err": fmt.Sprint(errR),
					"sender_panic": fmt.Sprint(panS), "receiver_panic": fmt.Sprint(panR), "stalled": stalled}))
				o.Op(op, "run-failed")
				continue
			}
			o.Op(op, fmt.Sprintf("w=%s;got=%s;r=%d;xb=%d", wireHex(set.snd.Sent[0][0]), labelHex(set.rcv.Got[0][0]), rr, xb))
			o.Count("fx_cases")
			o.Count("fx_base_" + base)
			if wide {
				o.Count("fx_outside_domain")
			} else {
				o.Count(fmt.Sprintf("fx_a%d_b%d_r%d", a, b, rr))
				if rr > 1 || xb > 1 || rr^xb != a*b {
					o.Fail("c20-fx-shares", detail(map[string]any{"r": rr, "xb": xb, "want": a * b}))
				}
			}
		case 2:
			var s bmr.Label
			copy(s[:], s4)
			op := fmt.Sprintf("c20 fxk %s %s %d", hxlib.Hex(rl), hxlib.Hex(s4), b)
			set, err := fxOT(base, seedOT)
			if err != nil {
				o.Fail("c20-fxk-error", detail(map[string]any{"err": err.Error()}))
				o.Op(op, "setup-failed")
				continue
			}
			crand.Reader = &lockedReader{head: append([]byte(nil), rl...), rest: hxlib.NewRng(r.U64())}
			var rr, xb bmr.Label
			errS, errR, panS, panR, stalled := runPair(
				func() (err error) { rr, err = bmr.FxkSend(set.snd, s); return },
				func() (err error) { xb, err = bmr.FxkReceive(set.rcv, b); return }, set.close)
			set.close()
			if errS != nil || errR != nil || panS != nil || panR != nil || stalled ||
				len(set.snd.Sent) != 1 || len(set.snd.Sent[0]) != 1 || len(set.rcv.Got) != 1 || len(set.rcv.Got[0]) != 1 {
				o.Fail("c20-fxk-error", detail(map[string]any{"sender_err": fmt.Sprint(errS), "receiver_err": fmt.Sprint(errR),
					"sender_panic": fmt.Sprint(panS), "receiver_panic": fmt.Sprint(panR), "stalled": stalled}))
				o.Op(op, "run-failed")
				continue
			}
			o.Op(op, fmt.Sprintf("w=%s;got=%s;r=%s;xb=%s", wireHex(set.snd.Sent[0][0]), labelHex(set.rcv.Got[0][0]),
				hxlib.Hex(rr[:]), hxlib.Hex(xb[:])))
			o.Count("fxk_cases")
			o.Count("fxk_base_" + base)
			o.Count(fmt.Sprintf("fxk_b%d", b))
			var want bmr.Label
			if b == 1 {
				want = s
			}
			got := rr
			got.Xor(xb)
			if !got.Equal(want) {
				o.Fail("c20-fxk-shares", detail(map[string]any{"r": hxlib.Hex(rr[:]), "xb": hxlib.Hex(xb[:]),
					"want": hxlib.Hex(want[:])}))
			}
		case 3:
			// ToOT / FromOT directly
			var l bmr.Label
			copy(l[:], rl)
			var tl ot.Label
			var back bmr.Label
			pan := func() (p any) {
				defer func() { p = recover() }()
				tl = l.ToOT()
				back.FromOT(tl)
				return nil
			}()
			if pan != nil {
				o.Fail("c20-toot-panic", detail(map[string]any{"panic": fmt.Sprint(pan)}))
				o.Op("c20 toot "+hxlib.Hex(rl), "panic")
				continue
			}
			o.Op("c20 toot "+hxlib.Hex(rl), labelHex(tl))
			if !back.Equal(l) {
				o.Fail("c20-toot-roundtrip", detail(map[string]any{"label": hxlib.Hex(rl), "ot": labelHex(tl), "back": hxlib.Hex(back[:])}))
			}
			// FromOT of an arbitrary 128-bit label (truncation to uint32(D0))
			var ld ot.LabelData
			copy(ld[:], r.Bytes(16))
			if r.Intn(3) == 0 {
				for i := 0; i < 4; i++ {
					ld[i] = 0
				}
			}
			var x ot.Label
			x.SetData(&ld)
			var fl bmr.Label
			fl.FromOT(x)
			o.Op("c20 fromot "+hxlib.Hex(ld[:]), hxlib.Hex(fl[:]))
			o.Count("conv_cases")
		}
	}
}

// fxsMain: histories of gadget calls over ONE OT instance pair (as bmr runs
// them over a peer's otSender / otReceiver): 2..8 calls mixing Fx and Fxk.
func fxsMain(cf *hxlib.CommonFlags, o *hxlib.Out) {
	master := hxlib.NewRng(cf.Seed)
	specials := [][]byte{{0, 0, 0, 0}, {0xff, 0xff, 0xff, 0xff}, {1, 0, 0, 0}, {0, 0, 0, 1}, {0xfe, 0xff, 0xff, 0xff}}
	label4 := func(r *hxlib.Rng) []byte {
		if r.Intn(3) == 0 {
			return append([]byte(nil), specials[r.Intn(len(specials))]...)
		}
		return r.Bytes(4)
	}
	type gcall struct {
		k    bool // Fxk
		rl   []byte
		s    bmr.Label
		a, b uint
		wide bool
	}
	for idx := 0; idx < cf.N; idx++ {
		r := master.Fork()
		base := "ideal"
		if idx%3 == 2 {
			base = "co"
		}
		n := 2 + r.Intn(7)
		calls := make([]gcall, n)
		var head []byte
		var opSB strings.Builder
		opSB.WriteString("c20 fxs")
		for j := range calls {
			g := &calls[j]
			g.k = r.Intn(2) == 0
			g.rl = label4(r)
			g.a, g.b = uint(r.Intn(2)), uint(r.Intn(2))
			copy(g.s[:], label4(r))
			if r.Intn(10) == 0 {
				g.wide = true
				g.b = []uint{2, 3, 256, 257}[r.Intn(4)]
				g.a = []uint{2, 3, 255, 256, 257}[r.Intn(5)]
			}
			head = append(head, g.rl...)
			if g.k {
				fmt.Fprintf(&opSB, " fxk,%s,%s,%d", hxlib.Hex(g.rl), hxlib.Hex(g.s[:]), g.b)
			} else {
				fmt.Fprintf(&opSB, " fx,%s,%d,%d", hxlib.Hex(g.rl), g.a, g.b)
			}
		}
		seedOT := r.Fork()
		restSeed := r.U64()
		if cf.Only >= 0 && cf.Only != idx {
			continue
		}
		if stalls >= 2 {
			o.Count("aborted_after_stalls")
			break
		}
		op := opSB.String()
		detail := func(extra map[string]any) map[string]any {
			d := map[string]any{"case": idx, "base": base, "history": op,
				"rerun": fmt.Sprintf("go run -tags verif ./cmd/c20 fxs -seed %d -n %d -tier %s -only %d (in /verif/harness)", runSeed, runN, runTier, idx)}
			for k, v := range extra {
				d[k] = v
			}
			return d
		}
		set, err := fxOT(base, seedOT)
		if err != nil {
			o.Fail("c20-fx-error", detail(map[string]any{"err": err.Error()}))
			o.Op(op, "setup-failed")
			continue
		}
		crand.Reader = &lockedReader{head: head, rest: hxlib.NewRng(restSeed)}
		rBits := make([]uint, n)
		xBits := make([]uint, n)
		rLab := make([]bmr.Label, n)
		xLab := make([]bmr.Label, n)
		errS, errR, panS, panR, stalled := runPair(
			func() (err error) {
				for j, g := range calls {
					if g.k {
						rLab[j], err = bmr.FxkSend(set.snd, g.s)
					} else {
						rBits[j], err = bmr.FxSend(set.snd, g.a)
					}
					if err != nil {
						return
					}
				}
				return
			},
			func() (err error) {
				for j, g := range calls {
					if g.k {
						xLab[j], err = bmr.FxkReceive(set.rcv, g.b)
					} else {
						xBits[j], err = bmr.FxReceive(set.rcv, g.b)
					}
					if err != nil {
						return
					}
				}
				return
			}, set.close)
		set.close()
		ok := errS == nil && errR == nil && panS == nil && panR == nil && !stalled &&
			len(set.snd.Sent) == n && len(set.rcv.Got) == n
		if ok {
			for j := 0; j < n; j++ {
				if len(set.snd.Sent[j]) != 1 || len(set.rcv.Got[j]) != 1 {
					ok = false
				}
			}
		}
		if !ok {
			o.Fail("c20-fx-error", detail(map[string]any{"sender_err": fmt.Sprint(errS), "receiver_err": fmt.Sprint(errR),
				"sender_panic": fmt.Sprint(panS), "receiver_panic": fmt.Sprint(panR), "stalled": stalled,
				"ot_sends": len(set.snd.Sent), "ot_receives": len(set.rcv.Got)}))
			o.Op(op, "run-failed")
			continue
		}
		var res strings.Builder
		for j, g := range calls {
			if j > 0 {
				res.WriteByte('|')
			}
			w, got := wireHex(set.snd.Sent[j][0]), labelHex(set.rcv.Got[j][0])
			if g.k {
				fmt.Fprintf(&res, "w=%s;got=%s;r=%s;xb=%s", w, got, hxlib.Hex(rLab[j][:]), hxlib.Hex(xLab[j][:]))
				o.Count("fxs_fxk_calls")
				var want bmr.Label
				if g.b == 1 {
					want = g.s
				}
				x := rLab[j]
				x.Xor(xLab[j])
				if !x.Equal(want) {
					o.Fail("c20-fxk-shares", detail(map[string]any{"call": j, "b": g.b, "s": hxlib.Hex(g.s[:]), "r": hxlib.Hex(rLab[j][:]),
						"xb": hxlib.Hex(xLab[j][:]), "want": hxlib.Hex(want[:])}))
				}
			} else {
				fmt.Fprintf(&res, "w=%s;got=%s;r=%d;xb=%d", w, got, rBits[j], xBits[j])
				o.Count("fxs_fx_calls")
				if !g.wide && (rBits[j] > 1 || xBits[j] > 1 || rBits[j]^xBits[j] != g.a*g.b) {
					o.Fail("c20-fx-shares", detail(map[string]any{"call": j, "a": g.a, "b": g.b, "r": rBits[j], "xb": xBits[j], "want": g.a * g.b}))
				}
			}
			if j > 0 {
				o.Count("fxs_calls_on_used_ot")
			}
		}
		o.Op(op, res.String())
		o.Count("fxs_sessions")
		o.Count("fxs_base_" + base)
		o.Count(fmt.Sprintf("fxs_session_calls_%d", n))
	}
}

func main() {
	if len(os.Args) < 2 {
		fmt.Fprintln(os.Stderr, "usage: c20 vole|fx [flags]")
		os.Exit(2)
	}
	mode := os.Args[1]
	cf, o := hxlib.ParseCommon("c20 "+mode, os.Args[2:], nil)
	defer o.Close()
	runSeed, runN, runTier = cf.Seed, cf.N, cf.Tier
	switch mode {
	case "vole":
		voleMain(cf, o)
	case "fx":
		fxMain(cf, o)
	case "fxs":
		fxsMain(cf, o)
	default:
		fmt.Fprintln(os.Stderr, "unknown mode", mode)
		o.Close()
		os.Exit(2)
	}
}

package main

// `pool` mode: op sequences on the real gmw.Triples / gmw.TriplePool and the
// bit-vector leaf functions, replayed line by line on the Lean model.

import (
	"fmt"
	"strings"
	"time"

	"github.com/markkurossi/mpc/gmw"

	"verifharness/hxlib"
)

func randWords(r *hxlib.Rng, n int, zeroTail int) []uint64 {
	w := make([]uint64, n)
	for i := range w {
		if i < zeroTail {
			w[i] = r.U64()
		}
	}
	return w
}

func stateStr(t *gmw.Triples) string {
	return fmt.Sprintf("%d:%s:%s:%s", t.Words, wordsHex(t.A, len(t.A)), wordsHex(t.B, len(t.B)), wordsHex(t.C, len(t.C)))
}

func viewStr(t *gmw.Triples) string {
	return fmt.Sprintf("%d:%s:%s:%s", t.Words, wordsHex(t.A, t.Words), wordsHex(t.B, t.Words), wordsHex(t.C, t.Words))
}

func randTriples(r *hxlib.Rng, maxWords int) *gmw.Triples {
	words := r.Intn(maxWords + 1)
	extra := 0
	switch r.Intn(4) {
	case 0:
		extra = 0
	case 1:
		extra = 1
	default:
		extra = r.Intn(6)
	}
	l := words + extra
	fill := words
	if r.Intn(5) == 0 {
		fill = l // garbage above Words (never produced by the package itself)
	}
	t := &gmw.Triples{Words: words, A: randWords(r, l, fill), B: randWords(r, l, fill), C: randWords(r, l, fill)}
	if r.Intn(8) == 0 {
		// unequal slice lengths
		t.B = append(t.B, 0)
		t.C = append(t.C, 0, 0)
	}
	return t
}

func guardStr(f func() string) (s string) {
	defer func() {
		if e := recover(); e != nil {
			s = "panic"
		}
	}()
	return f()
}

func poolMode(args []string) {
	cf, o := hxlib.ParseCommon("pool", args, nil)
	defer o.Close()
	root := hxlib.NewRng(cf.Seed ^ 0xC10B)
	for idx := 0; idx < cf.N; idx++ {
		r := root.Fork()
		if cf.Only >= 0 && idx != cf.Only {
			continue
		}
		switch idx % 4 {
		case 0:
			appendOp(o, r)
		case 1, 2:
			if !poolOp(o, r, idx) {
				// a Get that never returns: every further blocking sequence
				// would wait out the same limit
				o.Count("pool_ops_skipped_after_hang")
				return
			}
		default:
			leafOp(o, r)
		}
	}
}

var appendCounts = []int{0, 1, 63, 64, 65, 127, 128, 129, 200, 640, 1000}

// appendOp: one Triples.Append on arbitrary well-formed states.
func appendOp(o *hxlib.Out, r *hxlib.Rng) {
	dst := randTriples(r, 9)
	src := randTriples(r, 12)
	if r.Intn(6) == 0 {
		dst = new(gmw.Triples)
	}
	n := appendCounts[r.Intn(len(appendCounts))]
	if r.Intn(3) == 0 {
		n = 64*src.Words + r.Intn(3) - 1
		if n < 0 {
			n = 0
		}
	}
	op := fmt.Sprintf("c10 app %s %s %d", stateStr(dst), stateStr(src), n)
	res := guardStr(func() string {
		ret := dst.Append(src, n)
		return fmt.Sprintf("ret=%d;dst=%s;src=%s", ret, stateStr(dst), stateStr(src))
	})
	o.Op(op, res)
	o.Count("append_ops")
	if n%64 != 0 {
		o.Count("append_count_not_multiple_of_64")
	}
	// oracle: word conservation
	if res == "panic" {
		o.Fail("c10-append-panic", map[string]any{"op": op})
	}
}

// poolOp: batches arriving at a real TriplePool and Get calls; a Get that
// finds too few words blocks in its own goroutine while the following
// batches arrive.
func poolOp(o *hxlib.Out, r *hxlib.Rng, idx int) bool {
	pool := gmw.NewTriplePool()
	dst := new(gmw.Triples)
	var evs, outs []string
	avail := 0
	var stream [][3]uint64
	taken := 0
	nev := 3 + r.Intn(14)
	type ev struct {
		kind  byte
		batch *gmw.Triples
		count int
	}
	var list []ev
	for i := 0; i < nev; i++ {
		switch k := r.Intn(10); {
		case k < 4:
			w := 1 + r.Intn(5)
			if r.Intn(4) == 0 {
				w = 64
			}
			b := &gmw.Triples{Words: w, A: randWords(r, w, w), B: randWords(r, w, w), C: randWords(r, w, w)}
			list = append(list, ev{kind: 'A', batch: b})
			avail += w
		case k < 5:
			list = append(list, ev{kind: 'C'})
		default:
			cnt := appendCounts[1+r.Intn(len(appendCounts)-1)]
			w := (cnt + 63) / 64
			list = append(list, ev{kind: 'G', count: cnt})
			// make sure enough words arrive after a blocking Get
			for avail < w {
				bw := 1 + r.Intn(4)
				b := &gmw.Triples{Words: bw, A: randWords(r, bw, bw), B: randWords(r, bw, bw), C: randWords(r, bw, bw)}
				list = append(list, ev{kind: 'A', batch: b})
				avail += bw
			}
			avail -= w
		}
	}
	blocked := false
	var pending chan struct{}
	var pendingCount int
	finish := func() {
		outs = append(outs, "g="+stateStr(dst))
		// oracle: Get hands out exactly the next ceil(count/64) words of the stream
		w := (pendingCount + 63) / 64
		for i := 0; i < w; i++ {
			j := dst.Words - w + i
			if j < 0 || taken+i >= len(stream) || dst.A[j] != stream[taken+i][0] || dst.B[j] != stream[taken+i][1] || dst.C[j] != stream[taken+i][2] {
				o.Fail("c10-pool-get-order", map[string]any{"case": idx, "events": strings.Join(evs, ","), "count": pendingCount})
				break
			}
		}
		taken += w
		pending = nil
	}
	for _, e := range list {
		switch e.kind {
		case 'A':
			evs = append(evs, "A"+wordsHex(e.batch.A, e.batch.Words)+"/"+wordsHex(e.batch.B, e.batch.Words)+"/"+wordsHex(e.batch.C, e.batch.Words))
			for i := 0; i < e.batch.Words; i++ {
				stream = append(stream, [3]uint64{e.batch.A[i], e.batch.B[i], e.batch.C[i]})
			}
			if pending != nil {
				time.Sleep(time.Duration(r.Intn(300)) * time.Microsecond)
			}
			pool.VerifAppend(e.batch, e.batch.Words*64)
			if pending != nil {
				select {
				case <-pending:
					finish()
				case <-time.After(time.Duration(200+r.Intn(1500)) * time.Microsecond):
				}
			}
		case 'C':
			if pending != nil {
				select {
				case <-pending:
					finish()
				case <-time.After(5 * time.Minute):
					o.Fail("c10-pool-get-hang", map[string]any{"case": idx, "events": strings.Join(evs, ",")})
					o.Op("c10 pool "+strings.Join(evs, ","), "hang")
					return false
				}
			}
			evs = append(evs, "C")
			dst.Clear()
		case 'G':
			if pending != nil {
				select {
				case <-pending:
					finish()
				case <-time.After(5 * time.Minute):
					o.Fail("c10-pool-get-hang", map[string]any{"case": idx, "events": strings.Join(evs, ",")})
					o.Op("c10 pool "+strings.Join(evs, ","), "hang")
					return false
				}
			}
			evs = append(evs, fmt.Sprintf("G%d", e.count))
			pendingCount = e.count
			ch := make(chan struct{})
			pending = ch
			if pool.VerifWords() < (e.count+63)/64 {
				blocked = true
				o.Count("pool_get_blocked")
			}
			go func(cnt int) {
				pool.Get(cnt, dst)
				close(ch)
			}(e.count)
			select {
			case <-pending:
				finish()
			case <-time.After(time.Duration(100+r.Intn(500)) * time.Microsecond):
			}
		}
	}
	if pending != nil {
		select {
		case <-pending:
			finish()
		case <-time.After(5 * time.Minute):
			o.Fail("c10-pool-get-hang", map[string]any{"case": idx, "events": strings.Join(evs, ",")})
			o.Op("c10 pool "+strings.Join(evs, ","), "hang")
			return false
		}
	}
	_ = blocked
	outs = append(outs, "pool="+viewStr(pool.VerifSnapshot()))
	o.Op("c10 pool "+strings.Join(evs, ","), strings.Join(outs, ";"))
	o.Count("pool_ops")
	return true
}

// leafOp: bit / setBit / xorBitvec / expand / expandClear.
func leafOp(o *hxlib.Out, r *hxlib.Rng) {
	l := r.Intn(5)
	v := randWords(r, l, l)
	switch r.Intn(5) {
	case 0:
		i := r.Intn(64*l + 70)
		if l > 0 && r.Intn(3) == 0 {
			i = 64*r.Intn(l) + []int{0, 1, 63}[r.Intn(3)]
		}
		o.Op(fmt.Sprintf("c10 bit %s %d", wordsHex(v, l), i), guardStr(func() string { return fmt.Sprint(gmw.VerifBit(v, i)) }))
	case 1:
		i := r.Intn(64*l + 200)
		b := uint(r.Intn(2))
		o.Op(fmt.Sprintf("c10 setbit %s %d %d", wordsHex(v, l), i, b), guardStr(func() string {
			w := gmw.VerifSetBit(append([]uint64(nil), v...), i, b)
			return wordsHex(w, len(w))
		}))
	case 2:
		l2 := r.Intn(l + 1)
		u := randWords(r, l2, l2)
		o.Op(fmt.Sprintf("c10 xorv %s %s", wordsHex(v, l), wordsHex(u, l2)), guardStr(func() string {
			w := append([]uint64(nil), v...)
			gmw.VerifXorBitvec(w, u)
			return wordsHex(w, len(w))
		}))
	case 3:
		k := r.Intn(8)
		o.Op(fmt.Sprintf("c10 exp %s %d", wordsHex(v, l), k), guardStr(func() string {
			w := gmw.VerifExpand(append([]uint64(nil), v...), k)
			return wordsHex(w, len(w))
		}))
	default:
		k := r.Intn(8)
		o.Op(fmt.Sprintf("c10 expclr %s %d", wordsHex(v, l), k), guardStr(func() string {
			w := gmw.VerifExpandClear(append([]uint64(nil), v...), k)
			return wordsHex(w, len(w))
		}))
	}
	o.Count("leaf_ops")
}

package main

// Real gmw sessions over loopback TCP (gmw.CreateNetwork / gmw.JoinNetwork /
// Connect / Run / Pool.Get / Close), every party a goroutine group of its
// own, random start order and delays.  Hang detection is progress based (see
// sessCfg.stall) so that a loaded machine does not produce false alarms.

import (
	"fmt"
	"math/big"
	"os"
	"strings"
	"sync"
	"sync/atomic"
	"time"

	"github.com/markkurossi/mpc/circuit"
	"github.com/markkurossi/mpc/gmw"

	"verifharness/hxlib"
)

var portCtr uint32
var portBase int

func initPorts(seed uint64) {
	portBase = (os.Getpid()*97 + int(seed%1000)*13) % 22000
}

// nextAddr: loopback address from a per-process range below the ephemeral
// port range; collisions (other checks running in parallel) are retried.
func nextAddr() string {
	k := int(atomic.AddUint32(&portCtr, 1))
	return fmt.Sprintf("127.0.0.1:%d", 10000+(portBase+k)%22000)
}

func inUse(err error) bool {
	return err != nil && strings.Contains(err.Error(), "address already in use")
}

type sessCfg struct {
	idx      int
	pc       progCase
	inputs   []*big.Int
	mode     string // "snap": wait for stable pools, snapshot, run; "race": run at once
	delays   []time.Duration
	delays2  []time.Duration
	order    []int
	// A session is declared hung when nothing observable has moved for
	// `stall` (bytes on any connection, pool words, phase counters), or when
	// it is still running after `hardCap`.  A healthy session takes well
	// under a second; the limits are minutes because the machine may be
	// heavily loaded.
	stall   time.Duration
	hardCap time.Duration
	drain   int
	hx      string // harness mode of the case ("" = sess), for the rerun line
	// hist mode: further Run calls on the SAME connected Network, in this
	// order at every party (cfg.pc / cfg.inputs are the first call)
	more []*histStep
	// repr mode (repr.go): per party, the input in the form the API accepts
	// (IOArg.Parse texts / a direct *big.Int of any sign and magnitude);
	// inputs[p] == repr[p].value.  nil in the other modes.
	repr []*partyInput
}

// computeInputs: the argument list of Circuit.Compute (one value per
// flattened member of every party's argument).
func computeInputs(inputs []*big.Int, repr []*partyInput) []*big.Int {
	if repr == nil {
		return inputs
	}
	var flat []*big.Int
	for _, in := range repr {
		flat = append(flat, in.members...)
	}
	return flat
}

// histStep is one further Run call of a history.
type histStep struct {
	pc     progCase
	rel    string // relation to the circuit of the previous call
	inputs []*big.Int
	gaps   []time.Duration // per party: pause before this call
	repr   []*partyInput   // repr mode: see sessCfg.repr
}

type sessOut struct {
	nws      []*gmw.Network
	connErr  []error
	runErr   []error
	results  [][]*big.Int
	wires    []*big.Int
	snaps    []*gmw.Triples
	dealtN   []uint64 // Pool.NumTriples at snapshot time
	drained  []*gmw.Triples
	closeErr []error
	timeout  string
	stalledS float64 // seconds without observable progress when given up
	elapsed  time.Duration
	// hist mode (len(cfg.more) > 0): wires right after the first call and,
	// per further call, results / errors / wires of every party
	wires0 []*big.Int
	mres   [][][]*big.Int
	// bytes flushed to the online connections (Stats().Sent) right before the
	// Run calls start (snap mode) and after every party's Run has returned
	sent0, sent1 []uint64
	mErr   [][]error
	mwires [][]*big.Int
}

func waitAll(wg *sync.WaitGroup, d time.Duration) bool {
	ch := make(chan struct{})
	go func() { wg.Wait(); close(ch) }()
	select {
	case <-ch:
		return true
	case <-time.After(d):
		return false
	}
}

// watch waits for wg; it gives up when progress() has not changed for
// `stall` or when `end` has passed.  Returns ok and the length of the last
// period without progress.
func watch(wg *sync.WaitGroup, progress func() uint64, stall time.Duration, end time.Time) (bool, time.Duration) {
	ch := make(chan struct{})
	go func() { wg.Wait(); close(ch) }()
	last := progress()
	lastChange := time.Now()
	tick := time.NewTicker(200 * time.Millisecond)
	defer tick.Stop()
	for {
		select {
		case <-ch:
			return true, 0
		case <-tick.C:
			now := time.Now()
			if v := progress(); v != last {
				last, lastChange = v, now
			}
			if now.Sub(lastChange) > stall || now.After(end) {
				return false, now.Sub(lastChange)
			}
		}
	}
}

func runSession(cfg *sessCfg) *sessOut {
	c := cfg.pc.circ
	n := len(c.Inputs)
	so := &sessOut{
		nws: make([]*gmw.Network, n), connErr: make([]error, n), runErr: make([]error, n),
		results: make([][]*big.Int, n), wires: make([]*big.Int, n), snaps: make([]*gmw.Triples, n),
		drained: make([]*gmw.Triples, n), closeErr: make([]error, n), wires0: make([]*big.Int, n),
	}
	for range cfg.more {
		so.mres = append(so.mres, make([][]*big.Int, n))
		so.mErr = append(so.mErr, make([]error, n))
		so.mwires = append(so.mwires, make([]*big.Int, n))
	}
	start := time.Now()
	end := start.Add(cfg.hardCap)
	defer func() { so.elapsed = time.Since(start) }()

	// observable progress: phase counters, bytes moved on the connections
	// of every connected party, pool levels and batch counters
	connected := make([]int32, n)
	var phase uint64
	progress := func() uint64 {
		v := atomic.LoadUint64(&phase)
		for p := 0; p < n; p++ {
			if atomic.LoadInt32(&connected[p]) == 0 {
				continue
			}
			nw := so.nws[p]
			on, off := nw.Stats()
			v = v*1000003 + on.Sum() + off.Sum()
			v = v*1000003 + uint64(nw.Pool.VerifWords()) + atomic.LoadUint64(&nw.Pool.NumBatches)<<20
		}
		return v
	}
	wait := func(wg *sync.WaitGroup, what string) bool {
		ok, idle := watch(wg, progress, cfg.stall, end)
		if !ok {
			so.timeout = what
			so.stalledS = idle.Seconds()
		}
		return ok
	}

	// The leader's listener exists before any peer dials it (as with
	// apps/garbled, where a peer that finds no leader exits).
	var leaderAddr string
	for try := 0; ; try++ {
		leaderAddr = nextAddr()
		nw, err := gmw.CreateNetwork(leaderAddr, n)
		if err == nil {
			so.nws[0] = nw
			break
		}
		if !inUse(err) || try > 50 {
			so.connErr[0] = err
			return so
		}
	}
	sizes := func(p int) []int { return []int{int(c.Inputs[p].Type.Bits)} }

	connect := func(p int) {
		time.Sleep(cfg.delays[p])
		if p > 0 {
			for try := 0; ; try++ {
				nw, err := gmw.JoinNetwork(leaderAddr, nextAddr(), p)
				if err == nil {
					so.nws[p] = nw
					break
				}
				if !inUse(err) || try > 50 {
					so.connErr[p] = err
					return
				}
			}
		}
		so.connErr[p] = so.nws[p].Connect(sizes(p))
		if so.connErr[p] == nil {
			atomic.StoreInt32(&connected[p], 1)
		}
		atomic.AddUint64(&phase, 1)
	}
	run := func(p int) {
		time.Sleep(cfg.delays2[p])
		res, err := so.nws[p].Run(cfg.inputs[p], c, false)
		so.results[p], so.runErr[p] = res, err
		atomic.AddUint64(&phase, 1)
		if len(cfg.more) == 0 || err != nil {
			return
		}
		// the history: every further call on the same Network object, with
		// whatever the earlier calls left in it
		so.wires0[p] = so.nws[p].VerifWires()
		for k, st := range cfg.more {
			time.Sleep(st.gaps[p])
			func() {
				defer func() {
					if e := recover(); e != nil {
						so.mErr[k][p] = fmt.Errorf("panic: %v", e)
					}
				}()
				res, err := so.nws[p].Run(st.inputs[p], st.pc.circ, false)
				so.mres[k][p], so.mErr[k][p] = res, err
				if err == nil {
					so.mwires[k][p] = so.nws[p].VerifWires()
				}
			}()
			atomic.AddUint64(&phase, 1)
			if so.mErr[k][p] != nil {
				return
			}
		}
	}
	closeAll := func() {
		var wg sync.WaitGroup
		for p := 0; p < n; p++ {
			if so.nws[p] == nil {
				continue
			}
			wg.Add(1)
			go func(p int) {
				defer wg.Done()
				defer func() {
					if e := recover(); e != nil {
						so.closeErr[p] = fmt.Errorf("panic in Close: %v", e)
					}
				}()
				so.closeErr[p] = so.nws[p].Close()
			}(p)
		}
		if ok, idle := watch(&wg, progress, cfg.stall, time.Now().Add(cfg.hardCap)); !ok {
			if so.timeout == "" {
				so.timeout = "close"
				so.stalledS = idle.Seconds()
			}
		}
	}
	guard := func(p int, f func(int), errs []error) func() {
		return func() {
			defer func() {
				if e := recover(); e != nil {
					errs[p] = fmt.Errorf("panic: %v", e)
				}
			}()
			f(p)
		}
	}

	var wg sync.WaitGroup
	if cfg.mode == "race" {
		// connect and run back to back at every party, as apps/garbled does
		for _, p := range cfg.order {
			wg.Add(1)
			go func(p int) {
				defer wg.Done()
				guard(p, connect, so.connErr)()
				if so.connErr[p] != nil {
					return
				}
				guard(p, run, so.runErr)()
			}(p)
		}
		if !wait(&wg, "connect+run") {
			return so
		}
	} else {
		for _, p := range cfg.order {
			wg.Add(1)
			go func(p int) { defer wg.Done(); guard(p, connect, so.connErr)() }(p)
		}
		if !wait(&wg, "connect") {
			return so
		}
		for p := 0; p < n; p++ {
			if so.connErr[p] != nil {
				closeAll()
				return so
			}
		}
		// wait until the offline phase has filled every pool to its stable
		// level: the leader stops generating once its pool holds more than
		// lowWaterMark (4096) words; all pools equal and unchanged over
		// three polls
		last, same := -1, 0
		fillProgress, fillChange := progress(), time.Now()
		for {
			w0 := so.nws[0].Pool.VerifWords()
			ok := w0 > 4096
			for p := 1; p < n; p++ {
				if so.nws[p].Pool.VerifWords() != w0 {
					ok = false
				}
			}
			if ok && w0 == last {
				same++
			} else {
				same = 0
			}
			last = w0
			if ok && same >= 3 {
				break
			}
			now := time.Now()
			if v := progress(); v != fillProgress {
				fillProgress, fillChange = v, now
			}
			if now.Sub(fillChange) > cfg.stall || now.After(end) {
				so.timeout = "pool-fill"
				so.stalledS = now.Sub(fillChange).Seconds()
				return so
			}
			time.Sleep(3 * time.Millisecond)
		}
		for p := 0; p < n; p++ {
			so.snaps[p] = so.nws[p].Pool.VerifSnapshot()
			so.dealtN = append(so.dealtN, atomic.LoadUint64(&so.nws[p].Pool.NumTriples))
		}
		for p := 0; p < n; p++ {
			on, _ := so.nws[p].Stats()
			so.sent0 = append(so.sent0, on.Sent.Load())
		}
		for _, p := range cfg.order {
			wg.Add(1)
			go func(p int) { defer wg.Done(); guard(p, run, so.runErr)() }(p)
		}
		if !wait(&wg, "run") {
			return so
		}
		for p := 0; p < n; p++ {
			on, _ := so.nws[p].Stats()
			so.sent1 = append(so.sent1, on.Sent.Load())
		}
	}
	for p := 0; p < n; p++ {
		if so.connErr[p] != nil {
			closeAll()
			return so
		}
	}
	for p := 0; p < n; p++ {
		so.wires[p] = so.nws[p].VerifWires()
	}
	// drain triples from every party's pool through the public API
	for p := 0; p < n; p++ {
		wg.Add(1)
		go func(p int) {
			defer wg.Done()
			t := new(gmw.Triples)
			so.nws[p].Pool.Get(cfg.drain, t)
			so.drained[p] = t
			atomic.AddUint64(&phase, 1)
		}(p)
	}
	if !wait(&wg, "drain") {
		return so
	}
	closeAll()
	return so
}

// ---------------------------------------------------------------- helpers

func bitsOf(v *big.Int, n int) []bool {
	b := make([]bool, n)
	for i := 0; i < n; i++ {
		b[i] = v.Bit(i) == 1
	}
	return b
}

func randInput(r *hxlib.Rng, bits int) *big.Int {
	v := new(big.Int)
	switch r.Intn(8) {
	case 0:
		return v
	case 1:
		for i := 0; i < bits; i++ {
			v.SetBit(v, i, 1)
		}
		return v
	case 2:
		if bits > 0 {
			v.SetBit(v, bits-1, 1)
		}
		return v
	}
	for i := 0; i < bits; i++ {
		if r.Bool() {
			v.SetBit(v, i, 1)
		}
	}
	return v
}

func bigsEqual(a, b []*big.Int) bool {
	if len(a) != len(b) {
		return false
	}
	for i := range a {
		if a[i] == nil || b[i] == nil || a[i].Cmp(b[i]) != 0 {
			return false
		}
	}
	return true
}

func wordsHex(w []uint64, n int) string {
	var sb strings.Builder
	for i := 0; i < n; i++ {
		var x uint64
		if i < len(w) {
			x = w[i]
		}
		fmt.Fprintf(&sb, "%016x", x)
	}
	if n == 0 {
		return "-"
	}
	return sb.String()
}

// circuitNeed: words of triples the run consumes (per level ceil(#AND/64)).
func circuitNeed(c *circuit.Circuit) (need int, batches []int) {
	nl := int(c.Stats[circuit.NumLevels]) + 1
	cnt := make([]int, nl)
	for _, g := range c.Gates {
		if g.Op == circuit.AND && int(g.Level) < nl {
			cnt[g.Level]++
		}
	}
	for _, k := range cnt {
		if k > 0 {
			need += (k + 63) / 64
			batches = append(batches, k)
		}
	}
	return
}

func levelDigest(c *circuit.Circuit) string {
	var sum uint64
	for i, g := range c.Gates {
		sum = (sum + uint64(g.Level)*uint64(i%65521+1)) % 4294967291
	}
	return fmt.Sprintf("%d/%d", c.Stats[circuit.NumLevels], sum)
}

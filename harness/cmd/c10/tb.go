package main

// `tb` mode: gmw.Network.tripleBatch at n parties over in-memory connections
// with deterministic IKNP instances (ideal base OT, seeded label/delta
// randomness).  Every instance has an identically seeded shadow copy on its
// own connection; after the real batches the shadow pairs are driven with the
// same choice bits (the b shares found in the pools), which reproduces the
// sBits / rBits the real tripleBatch saw.  The Lean model recomputes every
// party's c share from (a, b, sBits, rBits, Delta.Bit(0)).

import (
	"fmt"
	"strings"
	"sync"
	"time"

	"github.com/markkurossi/mpc/gmw"
	"github.com/markkurossi/mpc/ot"
	"github.com/markkurossi/mpc/p2p"

	"verifharness/hxlib"
)

type iknpPair struct {
	S  *ot.IKNPSender
	R  *ot.IKNPReceiver
	S2 *ot.IKNPSender
	R2 *ot.IKNPReceiver
}

func tbMode(args []string) {
	cf, o := hxlib.ParseCommon("tb", args, nil)
	defer o.Close()
	root := hxlib.NewRng(cf.Seed ^ 0xC107B)
	for idx := 0; idx < cf.N; idx++ {
		r := root.Fork()
		if cf.Only >= 0 && idx != cf.Only {
			continue
		}
		if !tbCase(o, cf, r, idx) {
			o.Count("tb_cases_skipped_after_hang")
			return
		}
	}
}

var tbSizes = []int{64, 128, 192, 4096, 8192, 4096, 8192, 512}

func tbCase(o *hxlib.Out, cf *hxlib.CommonFlags, r *hxlib.Rng, idx int) bool {
	n := 2 + idx%4
	nb := 1 + r.Intn(3)
	var sizes []int
	for i := 0; i < nb; i++ {
		sizes = append(sizes, tbSizes[r.Intn(len(tbSizes))])
	}
	if idx%5 == 0 {
		sizes = []int{4096, 8192} // what tripleSenderLoop asks for
	}
	base := map[string]any{"case": idx, "seed": cf.Seed, "parties": n, "sizes": fmt.Sprint(sizes),
		"rerun": fmt.Sprintf("hx-c10 tb -seed %d -n %d -only %d", cf.Seed, cf.N, idx)}
	var conns []*p2p.Conn
	defer func() {
		for _, c := range conns {
			c.Close()
		}
	}()
	newConn := func(e *hxlib.Endpoint) *p2p.Conn {
		c := p2p.NewConn(e)
		conns = append(conns, c)
		return c
	}
	// offline connection of every unordered pair
	conn := make([][]*p2p.Conn, n)
	for p := range conn {
		conn[p] = make([]*p2p.Conn, n)
	}
	for p := 0; p < n; p++ {
		for q := p + 1; q < n; q++ {
			d := hxlib.NewDuplex(nil)
			conn[p][q] = newConn(d.A)
			conn[q][p] = newConn(d.B)
		}
	}
	// IKNP instance per ordered pair (sender p -> receiver q), real + shadow
	pairs := make([][]*iknpPair, n)
	var setupErr error
	for p := 0; p < n; p++ {
		pairs[p] = make([]*iknpPair, n)
		for q := 0; q < n; q++ {
			if p == q {
				continue
			}
			seedR, seedS := r.U64(), r.U64()
			if r.Intn(3) == 0 {
				// force Delta bit 0 both ways over the cases
				seedS = r.U64()
			}
			pr := &iknpPair{}
			mk := func(cs, cr *p2p.Conn) (*ot.IKNPSender, *ot.IKNPReceiver) {
				ideal := hxlib.NewIdealOT()
				rcv, err := ot.NewIKNPReceiver(ideal, cr, hxlib.NewRng(seedR))
				if err != nil {
					setupErr = err
				}
				snd, err := ot.NewIKNPSender(ideal, cs, hxlib.NewRng(seedS), nil)
				if err != nil {
					setupErr = err
				}
				return snd, rcv
			}
			pr.S, pr.R = mk(conn[p][q], conn[q][p])
			d2 := hxlib.NewDuplex(nil)
			pr.S2, pr.R2 = mk(newConn(d2.A), newConn(d2.B))
			pairs[p][q] = pr
		}
	}
	if setupErr != nil {
		o.Fail("c10-tb-setup", with(base, "err", setupErr.Error()))
		return true
	}
	nws := make([]*gmw.Network, n)
	for p := 0; p < n; p++ {
		var peers []gmw.VerifOfflinePeer
		for q := 0; q < n; q++ {
			if q != p {
				peers = append(peers, gmw.VerifOfflinePeer{ID: q, Conn: conn[p][q], S: pairs[p][q].S, R: pairs[q][p].R})
			}
		}
		// hand the peers over in a shuffled order: the network sorts them
		for i := len(peers) - 1; i > 0; i-- {
			j := r.Intn(i + 1)
			peers[i], peers[j] = peers[j], peers[i]
		}
		nws[p] = gmw.VerifOfflineNetwork(n, p, peers)
	}
	for _, size := range sizes {
		errs := make([]error, n)
		var wg sync.WaitGroup
		for p := 0; p < n; p++ {
			wg.Add(1)
			go func(p int) {
				defer wg.Done()
				defer func() {
					if e := recover(); e != nil {
						errs[p] = fmt.Errorf("panic: %v", e)
					}
				}()
				time.Sleep(time.Duration(r.Intn(3)) * 100 * time.Microsecond)
				errs[p] = nws[p].VerifTripleBatch(size)
			}(p)
		}
		if !waitAll(&wg, 10*time.Minute) {
			o.Fail("c10-timeout", with(base, "phase", "tripleBatch"))
			return false
		}
		for p, e := range errs {
			if e != nil {
				o.Fail("c10-triple-batch-error", with(base, "party", p, "err", e.Error()))
				return true
			}
		}
	}
	snaps := make([]*gmw.Triples, n)
	for p := 0; p < n; p++ {
		snaps[p] = nws[p].Pool.VerifSnapshot()
	}
	off := 0
	for bi, size := range sizes {
		words := (size + 63) / 64
		for p := 0; p < n; p++ {
			if snaps[p].Words < off+words {
				o.Fail("c10-pool-words-differ", with(base, "party", p, "words", snaps[p].Words))
				return true
			}
		}
		// shadow run: sBits[p][q] of sender p towards q, rBits[q][p] at receiver q
		s := make([][][]uint64, n)
		rr := make([][][]uint64, n)
		dl := make([][]uint, n)
		for p := 0; p < n; p++ {
			s[p] = make([][]uint64, n)
			rr[p] = make([][]uint64, n)
			dl[p] = make([]uint, n)
		}
		for p := 0; p < n; p++ {
			for q := 0; q < n; q++ {
				if p == q {
					continue
				}
				pr := pairs[p][q]
				rb := make([]uint64, words)
				if err := pr.R2.ReceiveBits(snaps[q].B[off:off+words], rb, size); err != nil {
					o.Fail("c10-tb-setup", with(base, "err", err.Error()))
					return true
				}
				sb := make([]uint64, words)
				if err := pr.S2.SendBits(size, sb); err != nil {
					o.Fail("c10-tb-setup", with(base, "err", err.Error()))
					return true
				}
				s[p][q], rr[q][p], dl[p][q] = sb, rb, pr.S2.Delta.Bit(0)
				if pr.S2.Delta != pr.S.Delta {
					o.Fail("c10-tb-setup", with(base, "err", "shadow delta differs"))
					return true
				}
				o.Count(fmt.Sprintf("tb_delta_bit0_%d", dl[p][q]))
				// bit-COT correlation (property C06) on what tripleBatch consumed
				for w := 0; w < words; w++ {
					want := sb[w]
					if dl[p][q] == 1 {
						want ^= snaps[q].B[off+w]
					}
					if rb[w] != want {
						o.Fail("c10-cot-correlation", with(base, "sender", p, "receiver", q, "word", w, "size", size))
						break
					}
				}
			}
		}
		var as, bs, cs, ss, rs, ds []string
		for p := 0; p < n; p++ {
			as = append(as, wordsHex(snaps[p].A[off:], words))
			bs = append(bs, wordsHex(snaps[p].B[off:], words))
			cs = append(cs, wordsHex(snaps[p].C[off:], words))
			for q := 0; q < n; q++ {
				if p == q {
					ss, rs, ds = append(ss, "-"), append(rs, "-"), append(ds, "0")
					continue
				}
				ss = append(ss, wordsHex(s[p][q], words))
				rs = append(rs, wordsHex(rr[p][q], words))
				ds = append(ds, fmt.Sprint(dl[p][q]))
			}
		}
		// oracle: the dealt triples are valid
		ts := make([]*gmw.Triples, n)
		for p := 0; p < n; p++ {
			ts[p] = &gmw.Triples{Words: words, A: snaps[p].A[off : off+words], B: snaps[p].B[off : off+words], C: snaps[p].C[off : off+words]}
		}
		for w := 0; w < words; w++ {
			if ok, diff := tripleOK(ts, w); !ok {
				o.Fail("c10-triple-invalid", with(base, "source", "tripleBatch", "batch", bi, "size", size, "word", w,
					"wrong_bits", fmt.Sprintf("%016x", diff)))
				break
			}
		}
		o.CountN("triple_words_checked_tb", words)
		o.Op(fmt.Sprintf("c10 tb %d %d %s %s %s %s %s", n, words, strings.Join(as, ","), strings.Join(bs, ","),
			strings.Join(ss, ","), strings.Join(rs, ","), strings.Join(ds, "")), strings.Join(cs, ","))
		o.Count("tb_ops")
		o.Count(fmt.Sprintf("tb_parties_%d", n))
		off += words
	}
	return true
}

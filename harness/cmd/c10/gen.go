package main

// Circuit sources for the C10 sessions: (1) MPCL programs for 2..5 parties
// compiled by the real compiler for the GMW target (no `/` and `%`: the
// GMW-target divider is property C07/C09's), (2) synthetic layered
// single-assignment circuits whose AND batch sizes sit on the 64-bit word
// boundaries (1, 63, 64, 65, 127, 128, 129, ...) and that use INV gates,
// which the compiler never emits but `gmw.Network.run` implements.

import (
	"fmt"
	"strings"

	"github.com/markkurossi/mpc/circuit"
	"github.com/markkurossi/mpc/compiler"
	"github.com/markkurossi/mpc/compiler/utils"

	"verifharness/hxlib"
)

type progCase struct {
	name  string
	src   string
	n     int
	kind  string // "corpus", "random", "synthetic"
	circ  *circuit.Circuit
	err   string
	feats []string
}

func gmwParams() *utils.Params {
	p := utils.NewParams()
	p.Target = utils.TargetGMW
	p.OptPruneGates = true
	p.Warn.DisableAll()
	return p
}

// compileGMW compiles the program as apps/garbled does for -gmw and assigns
// the AND-depth levels.
func compileGMW(src string, prune bool) (c *circuit.Circuit, errs string) {
	defer func() {
		if e := recover(); e != nil {
			c = nil
			errs = "panic: " + clip(fmt.Sprint(e), 200)
		}
	}()
	p := gmwParams()
	p.OptPruneGates = prune
	defer p.Close()
	circ, _, err := compiler.New(p).Compile(src, nil)
	if err != nil {
		return nil, "error: " + clip(err.Error(), 300)
	}
	circ.AssignLevels(utils.TargetGMW)
	return circ, ""
}

func clip(s string, n int) string {
	if len(s) > n {
		return s[:n] + "..."
	}
	return s
}

var argNames = []string{"a", "b", "c", "d", "e"}

// corpus: fixed programs (name, parties, source).
func corpus() []progCase {
	mk := func(name string, n int, src string) progCase {
		return progCase{name: name, n: n, src: src, kind: "corpus"}
	}
	return []progCase{
		mk("and-xor-2", 2, "package main\nfunc main(a, b uint8) (uint8, uint8) {\n\treturn a & b, a ^ b\n}\n"),
		mk("millionaire-3", 3, "package main\nfunc main(a, b, c uint32) (bool, bool, uint32) {\n\tm := a\n\tif b > m {\n\t\tm = b\n\t}\n\tif c > m {\n\t\tm = c\n\t}\n\treturn a > b, b > c, m\n}\n"),
		mk("add-sub-4", 4, "package main\nfunc main(a, b, c, d int16) (int16, int16) {\n\treturn a + b - c + d, (a - d) ^ (b + c)\n}\n"),
		mk("mult16-2", 2, "package main\nfunc main(a, b uint16) uint16 {\n\treturn a * b\n}\n"),
		mk("mult32-wide-2", 2, "package main\nfunc main(a, b uint32) uint64 {\n\treturn uint64(a) * uint64(b)\n}\n"),
		mk("mult-add-5", 5, "package main\nfunc main(a, b, c, d, e uint11) (uint11, bool) {\n\tx := a*b + c*d\n\treturn x ^ e, x < e\n}\n"),
		mk("mixed-widths-3", 3, "package main\nfunc main(a uint5, b uint13, c uint64) (uint64, uint13) {\n\treturn c + uint64(a)*uint64(b), b | uint13(a)\n}\n"),
		mk("shift-or-3", 3, "package main\nfunc main(a, b, c uint24) (uint24, uint24) {\n\treturn (a << 3) | (b >> 5) | c, (a | b) & (c ^ 0xffffff)\n}\n"),
		mk("loop-acc-2", 2, "package main\nfunc main(a, b uint16) uint16 {\n\tx := a\n\tfor i := 0; i < 6; i++ {\n\t\tx = x*b + a\n\t}\n\treturn x\n}\n"),
		mk("bool-3", 3, "package main\nfunc main(a, b, c bool) (bool, bool) {\n\treturn (a && b) || c, a != b\n}\n"),
		mk("one-bit-2", 2, "package main\nfunc main(a, b uint1) uint1 {\n\treturn a & b\n}\n"),
		mk("wide-and-5", 5, "package main\nfunc main(a, b, c, d, e uint129) (uint129, uint129) {\n\treturn a & b & c & d & e, (a & b) | (c & d)\n}\n"),
		mk("signed-cmp-4", 4, "package main\nfunc main(a, b, c, d int9) (bool, int9) {\n\tx := a\n\tif b < x {\n\t\tx = b\n\t}\n\tif c < x {\n\t\tx = c\n\t}\n\tif d < x {\n\t\tx = d\n\t}\n\treturn a < d, x\n}\n"),
		mk("mult64-2", 2, "package main\nfunc main(a, b uint64) uint64 {\n\treturn a * b\n}\n"),
	}
}

// ---------------------------------------------------------------- random MPCL

type gen struct {
	r     *hxlib.Rng
	n     int
	typ   string
	bits  int
	sign  bool
	atyp  []string
	vars  []string
	feats map[string]bool
}

func (g *gen) leaf() string {
	k := g.r.Intn(10)
	if k < 6 {
		i := g.r.Intn(g.n)
		g.feats["arg"] = true
		if g.atyp[i] == g.typ {
			return argNames[i]
		}
		g.feats["cast"] = true
		return fmt.Sprintf("%s(%s)", g.typ, argNames[i])
	}
	if k < 8 && len(g.vars) > 0 {
		return g.vars[g.r.Intn(len(g.vars))]
	}
	max := uint64(1) << uint(hxlib.MinInt(g.bits, 20))
	if g.sign {
		max >>= 1
	}
	if max < 2 {
		max = 2
	}
	return fmt.Sprintf("%d", g.r.U64()%max)
}

var binOps = []string{"+", "-", "*", "&", "|", "^", "&", "+", "*"}
var cmpOps = []string{"<", ">", "<=", ">=", "==", "!="}

func (g *gen) expr(depth int) string {
	if depth <= 0 || g.r.Intn(5) == 0 {
		return g.leaf()
	}
	switch g.r.Intn(12) {
	case 0:
		g.feats["shift"] = true
		op := []string{"<<", ">>"}[g.r.Intn(2)]
		return fmt.Sprintf("(%s %s %d)", g.expr(depth-1), op, g.r.Intn(g.bits+1))
	default:
		op := binOps[g.r.Intn(len(binOps))]
		g.feats["op"+op] = true
		return fmt.Sprintf("(%s %s %s)", g.expr(depth-1), op, g.expr(depth-1))
	}
}

func (g *gen) cond(depth int) string {
	op := cmpOps[g.r.Intn(len(cmpOps))]
	g.feats["cmp"] = true
	return fmt.Sprintf("%s %s %s", g.expr(depth), op, g.expr(depth))
}

var widths = []int{1, 2, 3, 5, 7, 8, 9, 13, 16, 17, 24, 31, 32, 33, 48, 63, 64, 65, 100, 128, 129}

// randomProgram: n parties, one argument each (own width), body of
// declarations / assignments / if-else / bounded loops, 1..3 results.
func randomProgram(r *hxlib.Rng) progCase {
	return randomProgramN(r, 2+r.Intn(4))
}

// randomProgramN: the same generator for a given number of parties.
func randomProgramN(r *hxlib.Rng, n int) progCase {
	g := &gen{r: r, n: n, feats: map[string]bool{}}
	g.bits = widths[r.Intn(len(widths))]
	if r.Intn(3) == 0 && g.bits <= 33 {
		g.bits = 4 + r.Intn(30)
	}
	g.sign = r.Intn(3) == 0 && g.bits >= 2
	mk := func(bits int) string {
		if g.sign {
			return fmt.Sprintf("int%d", bits)
		}
		return fmt.Sprintf("uint%d", bits)
	}
	g.typ = mk(g.bits)
	for i := 0; i < n; i++ {
		if r.Intn(3) == 0 {
			b := widths[r.Intn(len(widths))]
			if g.sign && b < 2 {
				b = 2
			}
			g.atyp = append(g.atyp, mk(b))
		} else {
			g.atyp = append(g.atyp, g.typ)
		}
	}
	var sb strings.Builder
	sb.WriteString("package main\nfunc main(")
	for i := 0; i < n; i++ {
		if i > 0 {
			sb.WriteString(", ")
		}
		fmt.Fprintf(&sb, "%s %s", argNames[i], g.atyp[i])
	}
	nret := 1 + r.Intn(3)
	var rets, rtyp []string
	sb.WriteString(") (")
	depth := 1 + r.Intn(3)
	if g.bits > 64 {
		depth = 1 + r.Intn(2)
	}
	// body
	var body strings.Builder
	ns := r.Intn(5)
	for i := 0; i < ns; i++ {
		v := fmt.Sprintf("v%d", i)
		switch r.Intn(5) {
		case 0:
			if len(g.vars) > 0 {
				g.feats["if"] = true
				t := g.vars[r.Intn(len(g.vars))]
				fmt.Fprintf(&body, "\tif %s {\n\t\t%s = %s\n\t} else {\n\t\t%s = %s\n\t}\n", g.cond(1), t, g.expr(depth), t, g.expr(1))
				continue
			}
			fallthrough
		case 1:
			if len(g.vars) > 0 && g.bits <= 33 {
				g.feats["for"] = true
				t := g.vars[r.Intn(len(g.vars))]
				fmt.Fprintf(&body, "\tfor i := 0; i < %d; i++ {\n\t\t%s = %s\n\t}\n", 2+r.Intn(3), t, fmt.Sprintf("(%s %s %s)", t, binOps[r.Intn(len(binOps))], g.expr(1)))
				continue
			}
			fallthrough
		default:
			fmt.Fprintf(&body, "\tvar %s %s = %s\n", v, g.typ, g.expr(depth))
			g.vars = append(g.vars, v)
		}
	}
	for i := 0; i < nret; i++ {
		if r.Intn(4) == 0 {
			rets = append(rets, g.cond(depth))
			rtyp = append(rtyp, "bool")
		} else {
			rets = append(rets, g.expr(depth+1))
			rtyp = append(rtyp, g.typ)
		}
	}
	sb.WriteString(strings.Join(rtyp, ", "))
	sb.WriteString(") {\n")
	sb.WriteString(body.String())
	sb.WriteString("\treturn " + strings.Join(rets, ", ") + "\n}\n")
	var feats []string
	for k := range g.feats {
		feats = append(feats, k)
	}
	return progCase{name: fmt.Sprintf("random-%dp-%s", n, g.typ), n: n, src: sb.String(), kind: "random", feats: feats}
}

// ---------------------------------------------------------------- synthetic

var batchSizes = []int{1, 2, 63, 64, 65, 100, 127, 128, 129, 191, 192, 193, 255, 256, 257, 320}

// syntheticCircuit builds a layered single-assignment circuit for n parties:
// per layer a random number of XOR/XNOR/INV gates over the wires defined so
// far, then k AND gates (k from the word-boundary list) whose inputs come
// from those wires; outputs are the last wires.
func syntheticCircuit(r *hxlib.Rng) progCase {
	n := 2 + r.Intn(4)
	var inputs circuit.IO
	nin := 0
	for i := 0; i < n; i++ {
		b := 1 + r.Intn(40)
		if r.Intn(6) == 0 {
			b = 64 + r.Intn(70)
		}
		inputs = append(inputs, hxlib.UintIO(argNames[i], b))
		nin += b
	}
	layers := 1 + r.Intn(6)
	if r.Intn(4) == 0 {
		layers = 8 + r.Intn(25)
	}
	var gates []circuit.Gate
	var stats circuit.Stats
	next := nin
	pick := func() int {
		if r.Intn(2) == 0 && next > 8 {
			return next - 1 - r.Intn(8)
		}
		return r.Intn(next)
	}
	add := func(op circuit.Operation, a, b int) {
		g := circuit.Gate{Input0: circuit.Wire(a), Input1: circuit.Wire(b), Output: circuit.Wire(next), Op: op}
		if op == circuit.INV {
			g.Input1 = 0
		}
		gates = append(gates, g)
		stats[op]++
		next++
	}
	for l := 0; l < layers; l++ {
		nf := r.Intn(40)
		for i := 0; i < nf; i++ {
			op := []circuit.Operation{circuit.XOR, circuit.XNOR, circuit.INV, circuit.XOR}[r.Intn(4)]
			a, b := pick(), pick()
			if r.Intn(10) == 0 {
				b = a
			}
			add(op, a, b)
		}
		k := batchSizes[r.Intn(len(batchSizes))]
		if layers > 8 {
			k = 1 + r.Intn(70)
		}
		if r.Intn(8) == 0 {
			k = 0 // a level without AND gates
			if nf == 0 {
				add(circuit.XOR, pick(), pick())
			}
		}
		lim := next
		for i := 0; i < k; i++ {
			a, b := r.Intn(lim), r.Intn(lim)
			if r.Intn(3) == 0 && lim > 8 {
				a = lim - 1 - r.Intn(8)
			}
			if r.Intn(12) == 0 {
				b = a
			}
			add(circuit.AND, a, b)
		}
	}
	// a few trailing free gates so that outputs mix AND outputs
	nt := 1 + r.Intn(20)
	for i := 0; i < nt; i++ {
		op := []circuit.Operation{circuit.XOR, circuit.XNOR, circuit.INV}[r.Intn(3)]
		add(op, pick(), pick())
	}
	nout := 1 + r.Intn(hxlib.MinInt(70, next-nin))
	var outputs circuit.IO
	if r.Intn(2) == 0 && nout > 3 {
		o1 := 1 + r.Intn(nout-1)
		outputs = circuit.IO{hxlib.UintIO("r0", o1), hxlib.UintIO("r1", nout-o1)}
	} else {
		outputs = circuit.IO{hxlib.UintIO("r", nout)}
	}
	c := &circuit.Circuit{NumGates: len(gates), NumWires: next, Inputs: inputs, Outputs: outputs, Gates: gates, Stats: stats}
	c.AssignLevels(utils.TargetGMW)
	return progCase{name: fmt.Sprintf("synthetic-%dp-%dl", n, layers), n: n, kind: "synthetic", circ: c}
}

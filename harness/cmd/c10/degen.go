package main

// c10 degen: sessions at the corner values of the property's quantifier
// ("every number of parties >= 2, every circuit compiled for the GMW target
// and all inputs"), planned by case index: the SHAPE of the session is
// degenerate in one dimension while everything else is as in `sess`.
//
//	zero-in-one          one party (first / middle / last by case index) has an
//	                     argument of 0 bits: it only receives the result
//	zero-in-all-but-one  exactly one party has input bits
//	zero-in-all          no party has an input bit (0 wires, 0 gates)
//	one-bit-in           every argument is a single bit
//	compiled             MPCL programs whose main has [0]byte / [0]uintN /
//	                     empty-struct / unused / single-bit arguments, constant
//	                     or pass-through results (those the compiler accepts)
//	zero-and             no AND gate: the run has no opening round at all
//	single-gate          one gate (AND / XOR / XNOR / INV by case index)
//	zero-gates           no gate: the outputs are input wires
//	zero-out             no output bit (empty Outputs / one 0-bit result)
//	irrelevant-party     no gate and no output reads one party's input wires
//
// Every session runs through runSession / evaluate of `sess` (results =
// Compute at every party, share invariant on every wire, triples, lockstep,
// `run` op replayed on the model).  In addition the bytes every party SENT on
// its online connections during Run are tied to the model's message
// transcript (`msgs` op, Model/GmwMsgs.lean): one input-share message per
// ordered pair of parties whatever the width of the argument (4-byte length
// prefix + ceil(bits/8) bytes), one opening message per AND level, one
// output-share message.  A session that does not complete is found by the
// progress-based hang detection; the suspect is re-run alone and nothing more
// is launched after a confirmed hang.

import (
	"fmt"
	"math/big"
	"strings"
	"sync"
	"sync/atomic"
	"time"

	"github.com/markkurossi/mpc/circuit"
	"github.com/markkurossi/mpc/compiler/utils"

	"verifharness/hxlib"
)

var degenClasses = []string{"zero-in-one", "zero-in-all-but-one", "compiled", "one-bit-in", "zero-and", "single-gate",
	"zero-gates", "zero-out", "irrelevant-party", "zero-in-all"}

// The sessions of this mode move a few hundred bytes; the limits are still
// tens of seconds because the machine may be loaded.
const (
	degenFirstStall = 20 * time.Second
	degenAloneStall = 45 * time.Second
)

// degenPrograms: MPCL sources; `zero` = index of the party without input
// bits (-1: none).  A program the compiler rejects is counted, not reported
// (which argument types the compiler accepts is not C10's matter).
var degenPrograms = []struct {
	name string
	n    int
	zero int
	src  string
}{
	{"out-only-last-3", 3, 2, "package main\nfunc main(a, b uint32, c [0]byte) uint32 {\n\treturn a*b + a\n}\n"},
	{"out-only-first-3", 3, 0, "package main\nfunc main(a [0]byte, b, c uint16) (uint16, bool) {\n\treturn b & c, b > c\n}\n"},
	{"out-only-middle-4", 4, 1, "package main\nfunc main(a uint8, b [0]uint32, c uint8, d uint8) (uint8, bool) {\n\treturn a*c + d, a < d\n}\n"},
	{"out-only-peer-2", 2, 1, "package main\nfunc main(a uint64, b [0]byte) uint64 {\n\treturn a + 1\n}\n"},
	{"out-only-leader-2", 2, 0, "package main\nfunc main(a [0]byte, b uint7) uint7 {\n\treturn b * b\n}\n"},
	{"empty-struct-3", 3, 1, "package main\ntype E struct {\n}\nfunc main(a uint8, b E, c uint8) uint8 {\n\treturn a & c\n}\n"},
	{"two-out-only-5", 5, 3, "package main\nfunc main(a uint9, b [0]byte, c uint9, d [0]byte, e uint9) uint9 {\n\treturn a*c ^ e\n}\n"},
	{"one-bit-3", 3, -1, "package main\nfunc main(a, b, c uint1) uint1 {\n\treturn a & b ^ c\n}\n"},
	{"bool-5", 5, -1, "package main\nfunc main(a, b, c, d, e bool) bool {\n\treturn a && b && c && d && e\n}\n"},
	{"unused-arg-3", 3, -1, "package main\nfunc main(a, b, c uint16) uint16 {\n\treturn a * b\n}\n"},
	{"pass-through-2", 2, -1, "package main\nfunc main(a, b uint8) uint8 {\n\treturn b\n}\n"},
	{"constant-result-3", 3, -1, "package main\nfunc main(a, b, c uint8) uint8 {\n\treturn 42\n}\n"},
}

func mkCircuit(inBits []int, gates []circuit.Gate, numWires int, outputs circuit.IO) *circuit.Circuit {
	var inputs circuit.IO
	for i, b := range inBits {
		inputs = append(inputs, hxlib.UintIO(argNames[i], b))
	}
	var stats circuit.Stats
	for _, g := range gates {
		stats[g.Op]++
	}
	c := &circuit.Circuit{NumGates: len(gates), NumWires: numWires, Inputs: inputs, Outputs: outputs, Gates: gates, Stats: stats}
	c.AssignLevels(utils.TargetGMW)
	return c
}

// degenCase: the session of case idx.  ok = false: the compiler rejected the
// program of a `compiled` case.
func degenCase(r *hxlib.Rng, idx int) (pc progCase, class string, ok bool, note string) {
	nc := len(degenClasses)
	class = degenClasses[idx%nc]
	k := idx / nc
	n := 2 + k%4
	pos := (k/4 + k) % n // first / middle / last walk with the case index
	small := func(d int) shape {
		sh := randShape(r, n, d)
		sh.holes = false
		for p := range sh.inBits {
			if sh.inBits[p] > 40 && r.Bool() {
				sh.inBits[p] = 1 + r.Intn(12)
			}
		}
		return sh
	}
	mk := func(c *circuit.Circuit, tag string) progCase {
		return progCase{name: fmt.Sprintf("degen-%s-%dp%s", class, n, tag), n: n, kind: "degen-" + class, circ: c}
	}
	switch class {
	case "zero-in-one":
		sh := small(1 + r.Intn(3))
		sh.inBits[pos] = 0
		return mk(buildShape(r, sh), fmt.Sprintf("-z%d", pos)), class, true, ""
	case "zero-in-all-but-one":
		sh := small(1 + r.Intn(3))
		for p := range sh.inBits {
			if p != pos {
				sh.inBits[p] = 0
			}
		}
		if k%3 == 0 {
			sh.inBits[pos] = 1
		}
		return mk(buildShape(r, sh), fmt.Sprintf("-i%d", pos)), class, true, ""
	case "zero-in-all":
		return mk(mkCircuit(make([]int, n), nil, 0, circuit.IO{hxlib.UintIO("r", 0)}), ""), class, true, ""
	case "one-bit-in":
		sh := small(r.Intn(3))
		for p := range sh.inBits {
			sh.inBits[p] = 1
		}
		return mk(buildShape(r, sh), ""), class, true, ""
	case "compiled":
		p := degenPrograms[k%len(degenPrograms)]
		c, errs := compileGMW(p.src, (k/len(degenPrograms))%2 == 0)
		if c == nil || len(c.Inputs) != p.n {
			return progCase{name: p.name, src: p.src}, class, false, errs
		}
		if p.zero >= 0 && c.Inputs[p.zero].Type.Bits != 0 {
			return progCase{name: p.name, src: p.src}, class, false, "argument is not 0 bits wide"
		}
		return progCase{name: "degen-" + p.name, n: p.n, kind: "degen-compiled", circ: c, src: p.src}, class, true, ""
	case "zero-and":
		sh := small(0)
		if k%2 == 1 {
			sh.inBits[pos] = 0
		}
		return mk(buildShape(r, sh), ""), class, true, ""
	case "single-gate":
		inBits := make([]int, n)
		for p := range inBits {
			inBits[p] = 1
		}
		if k%3 == 2 {
			inBits[pos] = 0
		}
		nin := 0
		for _, b := range inBits {
			nin += b
		}
		op := []circuit.Operation{circuit.AND, circuit.XOR, circuit.XNOR, circuit.INV}[k%4]
		g := circuit.Gate{Input0: circuit.Wire(r.Intn(nin)), Input1: circuit.Wire(r.Intn(nin)), Output: circuit.Wire(nin), Op: op}
		if op == circuit.INV {
			g.Input1 = 0
		}
		return mk(mkCircuit(inBits, []circuit.Gate{g}, nin+1, circuit.IO{hxlib.UintIO("r", 1)}), "-"+op.String()), class, true, ""
	case "zero-gates":
		inBits := make([]int, n)
		nin := 0
		for p := range inBits {
			inBits[p] = 1 + r.Intn(9)
			if k%3 == 1 && p == pos {
				inBits[p] = 0
			}
			nin += inBits[p]
		}
		nout := 1 + r.Intn(nin)
		return mk(mkCircuit(inBits, nil, nin, circuit.IO{hxlib.UintIO("r", nout)}), ""), class, true, ""
	case "zero-out":
		sh := small(1 + r.Intn(2))
		if k%3 == 1 {
			sh.inBits[pos] = 0
		}
		c := buildShape(r, sh)
		if k%2 == 0 {
			c.Outputs = circuit.IO{}
		} else {
			c.Outputs = circuit.IO{hxlib.UintIO("r", 0)}
		}
		return mk(c, ""), class, true, ""
	default: // irrelevant-party
		sh := small(1 + r.Intn(3))
		c := buildShape(r, sh)
		lo := 0
		for p := 0; p < pos; p++ {
			lo += sh.inBits[p]
		}
		hi := lo + sh.inBits[pos]
		nin := c.Inputs.Size()
		// redirect every read of the party's wires to another party's input
		// wire (input wires: the circuit stays topological)
		alt := func() circuit.Wire {
			for {
				w := r.Intn(nin)
				if w < lo || w >= hi {
					return circuit.Wire(w)
				}
			}
		}
		for i := range c.Gates {
			g := &c.Gates[i]
			if int(g.Input0) >= lo && int(g.Input0) < hi {
				g.Input0 = alt()
			}
			if g.Op != circuit.INV && int(g.Input1) >= lo && int(g.Input1) < hi {
				g.Input1 = alt()
			}
		}
		c.AssignLevels(utils.TargetGMW)
		return mk(c, fmt.Sprintf("-x%d", pos)), "irrelevant-party", true, ""
	}
}

// msgsOp: `c10 msgs <sizes> <words of every AND batch in level order | -> <bytes of every party's output share>`
// and the bytes every party sent on its online connections during Run.
func msgsOp(c *circuit.Circuit, so *sessOut) (string, string) {
	n := len(c.Inputs)
	_, batches := circuitNeed(c)
	var sizes, bw, ol, sent []string
	for _, k := range batches {
		bw = append(bw, fmt.Sprint((k+63)/64))
	}
	if len(bw) == 0 {
		bw = []string{"-"}
	}
	nout := c.Outputs.Size()
	for p := 0; p < n; p++ {
		sizes = append(sizes, fmt.Sprint(int(c.Inputs[p].Type.Bits)))
		share := new(big.Int).Rsh(so.wires[p], uint(c.NumWires-nout))
		ol = append(ol, fmt.Sprint(len(share.Bytes())))
		sent = append(sent, fmt.Sprint(so.sent1[p]-so.sent0[p]))
	}
	return fmt.Sprintf("c10 msgs %s %s %s", strings.Join(sizes, ","), strings.Join(bw, ","), strings.Join(ol, ",")),
		"s=" + strings.Join(sent, ",")
}

func degenMode(args []string) {
	cf, o := hxlib.ParseCommon("degen", args, nil)
	defer o.Close()
	initPorts(cf.Seed ^ 0xde6e)
	root := hxlib.NewRng(hxlib.NewRng(cf.Seed^0x646567656e).U64() ^ cf.Seed<<32)

	type job struct {
		cfg   *sessCfg
		so    *sessOut
		class string
		first *sessOut
	}
	var jobs []*job
	sem := make(chan struct{}, 4)
	var wg sync.WaitGroup
	var suspect int32
	var mu sync.Mutex
	var suspects []*job
	confirmed := false
	resolve := func() {
		wg.Wait()
		mu.Lock()
		list := suspects
		suspects = nil
		mu.Unlock()
		atomic.StoreInt32(&suspect, 0)
		for _, j := range list {
			if confirmed {
				j.so = nil
				o.Count("sessions_skipped_after_confirmed_hang")
				continue
			}
			o.Count("sessions_stalled_rerun_alone")
			c2 := *j.cfg
			c2.stall, c2.hardCap = degenAloneStall, aloneHardCap
			j.first = j.so
			j.so = runSession(&c2)
			if j.so.timeout != "" {
				confirmed = true
				j.cfg = &c2
			} else {
				o.Count("stall_not_reproduced_alone_" + j.first.timeout)
			}
		}
	}
	for idx := 0; idx < cf.N; idx++ {
		r := root.Fork()
		if cf.Only >= 0 && idx != cf.Only {
			continue
		}
		if atomic.LoadInt32(&suspect) != 0 {
			resolve()
		}
		if confirmed {
			o.Count("sessions_skipped_after_confirmed_hang")
			continue
		}
		pc, class, ok, note := degenCase(r, idx)
		if !ok {
			o.Count("compiler_rejected_" + pc.name)
			if _, seen := o.Meta["rejected_"+pc.name]; !seen {
				o.Meta["rejected_"+pc.name] = clip(note, 200)
			}
			continue
		}
		c := pc.circ
		n := len(c.Inputs)
		cfg := &sessCfg{idx: idx, pc: pc, hx: "degen", stall: degenFirstStall, hardCap: firstHardCap}
		for p := 0; p < n; p++ {
			cfg.inputs = append(cfg.inputs, randInput(r, int(c.Inputs[p].Type.Bits)))
		}
		cfg.mode = "snap"
		if (idx/len(degenClasses))%4 == 3 {
			cfg.mode = "race"
		}
		dly := func() time.Duration {
			switch r.Intn(3) {
			case 0:
				return 0
			case 1:
				return time.Duration(r.Intn(300)) * time.Microsecond
			default:
				return time.Duration(r.Intn(8000)) * time.Microsecond
			}
		}
		for p := 0; p < n; p++ {
			cfg.delays = append(cfg.delays, dly())
			cfg.delays2 = append(cfg.delays2, dly())
			cfg.order = append(cfg.order, p)
		}
		for i := n - 1; i > 0; i-- {
			j := r.Intn(i + 1)
			cfg.order[i], cfg.order[j] = cfg.order[j], cfg.order[i]
		}
		cfg.drain = []int{1, 63, 64, 65, 100}[r.Intn(5)]
		j := &job{cfg: cfg, class: class}
		jobs = append(jobs, j)
		wg.Add(1)
		sem <- struct{}{}
		go func() {
			defer wg.Done()
			defer func() { <-sem }()
			j.so = runSession(j.cfg)
			if j.so.timeout != "" {
				mu.Lock()
				suspects = append(suspects, j)
				mu.Unlock()
				atomic.StoreInt32(&suspect, 1)
			}
		}()
	}
	resolve()
	for _, j := range jobs {
		if j.so == nil {
			continue
		}
		cfg, so, c := j.cfg, j.so, j.cfg.pc.circ
		n := len(c.Inputs)
		if so.timeout != "" && j.first != nil {
			o.Meta["confirmed_hang"] = map[string]any{"case": cfg.idx, "class": j.class, "first_run_phase": j.first.timeout,
				"first_run_idle_s": j.first.stalledS, "alone_phase": so.timeout, "alone_idle_s": so.stalledS}
		}
		nf := o.Counters["oracle_fail"]
		o.Count("cases")
		o.Count("class_" + j.class)
		zeros, ones := 0, 0
		for p := 0; p < n; p++ {
			switch c.Inputs[p].Type.Bits {
			case 0:
				zeros++
				o.Count([]string{"zero_in_party_first", "zero_in_party_middle", "zero_in_party_last"}[posClass(p, n)])
			case 1:
				ones++
			}
		}
		if zeros > 0 {
			o.Count("sessions_with_zero_bit_argument")
			o.Count(fmt.Sprintf("zero_in_parties_%d", n))
		}
		if zeros == n-1 {
			o.Count("sessions_all_but_one_zero_bit")
		}
		if ones == n {
			o.Count("sessions_all_one_bit")
		}
		if c.Stats[circuit.AND] == 0 {
			o.Count("sessions_zero_and")
		}
		if c.NumGates == 0 {
			o.Count("sessions_zero_gates")
		}
		if c.NumGates == 1 {
			o.Count("sessions_single_gate")
		}
		if c.Outputs.Size() == 0 {
			o.Count("sessions_zero_outputs")
		}
		evaluate(o, cf, cfg, so)
		complete := so.timeout == ""
		for p := 0; p < n && complete; p++ {
			complete = so.connErr[p] == nil && so.runErr[p] == nil && so.wires[p] != nil
		}
		if complete && cfg.mode == "snap" && len(so.sent0) == n && len(so.sent1) == n {
			op, res := msgsOp(c, so)
			o.Op(op, res)
			o.Count("msgs_ops")
		}
		if o.Counters["oracle_fail"] == nf {
			o.Count("cases_ok_" + j.class)
		}
	}
}

func posClass(p, n int) int {
	switch {
	case p == 0:
		return 0
	case p == n-1:
		return 2
	}
	return 1
}

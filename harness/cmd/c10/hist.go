package main

// c10 hist: session HISTORIES on one connected gmw.Network.
//
// The property quantifies over every circuit and all inputs; a gmw.Network is
// made to be reused (the triple pool persists over runs), so "every circuit"
// is every call of every history of Run calls on one Network, not only the
// first call on a fresh one.  A history is 2..5 consecutive Run calls at every
// party of one connected network.  The circuit of a call is related to the
// circuit of the previous call in one of these ways (all generated, counted
// and required by the check):
//
//	same-object   the same *circuit.Circuit again
//	copy          a deep copy (other object, same gates)
//	rewire        same I/O, same number of gates, same AND depth and the same
//	              level widths - other wiring and gate kinds
//	same-depth    same AND depth, other level widths / inputs / outputs
//	deeper        more AND levels
//	shallower     fewer AND levels
//	wider-in      wider inputs of every party (same depth)
//	narrower-in   narrower inputs (same depth)
//	zero-and      no AND gate at all (one level, no triples)
//	mpcl          a compiled MPCL program for the same number of parties
//	or-last       an unsupported gate, as the last call only (error path)
//
// Oracle, per call and party: result = Circuit.Compute of THIS call's circuit
// on THIS call's inputs; xor of the shares = reference value on every wire the
// circuit defines; no bit beyond the largest circuit so far.  Over the whole
// history: pool snapshot and Get output are valid triples; Get after the last
// call hands out the snapshot words from position sum(need of all calls)
// (lock-step over the fold of runs).  Correspondence: the `hist` op line
// carries the pool snapshot and, per call, circuit, inputs and the observed
// input shares; the Lean model (Model/GmwHist.lean: runHist over the state
// carried from call to call - pool position, nw.triples, the wire store that
// is never reset) recomputes every party's complete wire store after every
// call, the outputs and the consumed words.

import (
	"fmt"
	"math/big"
	"strings"
	"sync"
	"sync/atomic"
	"time"

	"github.com/markkurossi/mpc/circuit"
	"github.com/markkurossi/mpc/compiler/utils"
	"github.com/markkurossi/mpc/gmw"

	"verifharness/hxlib"
)

// ---------------------------------------------------------------- shapes

// shape fixes everything of a layered synthetic circuit but the wiring: the
// parties' input widths, per layer the number of free gates and of AND gates
// (0 = no AND gate in this layer), trailing free gates, outputs.  Every AND
// gate of a layer reads an AND output of the previous non-empty AND layer, so
// the AND depth (Stats[NumLevels]) is the number of non-empty AND layers and
// the level widths are exactly `ands`.
type shape struct {
	inBits []int
	free   []int
	ands   []int
	tail   int
	nout   int
	split  bool
	// holes: wire indices that no gate assigns and no gate reads are left
	// between the layers (never among the output wires).  The compiler does
	// not produce such wires; on a reused Network they keep the bit of an
	// earlier call (nw.wires is never reset), which the model carries.
	holes bool
}

func (sh shape) depth() int {
	d := 0
	for _, k := range sh.ands {
		if k > 0 {
			d++
		}
	}
	return d
}

func randInBits(r *hxlib.Rng, n int) []int {
	var b []int
	for i := 0; i < n; i++ {
		w := 1 + r.Intn(40)
		if r.Intn(6) == 0 {
			w = 64 + r.Intn(70)
		}
		b = append(b, w)
	}
	return b
}

// randShape: `depth` non-empty AND layers (plus now and then a layer without
// AND gates), AND batch sizes from the word-boundary list.
func randShape(r *hxlib.Rng, n, depth int) shape {
	sh := shape{inBits: randInBits(r, n)}
	for d := 0; d < depth; d++ {
		if r.Intn(8) == 0 {
			sh.free = append(sh.free, 1+r.Intn(40))
			sh.ands = append(sh.ands, 0)
		}
		k := batchSizes[r.Intn(len(batchSizes))]
		if depth > 8 {
			k = 1 + r.Intn(70)
		}
		sh.free = append(sh.free, r.Intn(40))
		sh.ands = append(sh.ands, k)
	}
	if depth == 0 {
		for l := 0; l < 1+r.Intn(3); l++ {
			sh.free = append(sh.free, 1+r.Intn(60))
			sh.ands = append(sh.ands, 0)
		}
	}
	sh.tail = 1 + r.Intn(20)
	sh.nout = 1 + r.Intn(70)
	sh.split = r.Bool()
	sh.holes = r.Intn(4) == 0
	return sh
}

// buildShape wires a circuit of the given shape.
func buildShape(r *hxlib.Rng, sh shape) *circuit.Circuit {
	var inputs circuit.IO
	nin := 0
	for i, b := range sh.inBits {
		inputs = append(inputs, hxlib.UintIO(argNames[i], b))
		nin += b
	}
	var gates []circuit.Gate
	var stats circuit.Stats
	next := nin
	defined := make([]int, 0, nin+64)
	for i := 0; i < nin; i++ {
		defined = append(defined, i)
	}
	lastHole := -1
	pick := func() int {
		if r.Intn(2) == 0 && len(defined) > 8 {
			return defined[len(defined)-1-r.Intn(8)]
		}
		return defined[r.Intn(len(defined))]
	}
	add := func(op circuit.Operation, a, b int) int {
		g := circuit.Gate{Input0: circuit.Wire(a), Input1: circuit.Wire(b), Output: circuit.Wire(next), Op: op}
		if op == circuit.INV {
			g.Input1 = 0
		}
		gates = append(gates, g)
		stats[op]++
		defined = append(defined, next)
		next++
		return next - 1
	}
	freeGate := func() {
		op := []circuit.Operation{circuit.XOR, circuit.XNOR, circuit.INV, circuit.XOR}[r.Intn(4)]
		a, b := pick(), pick()
		if r.Intn(10) == 0 {
			b = a
		}
		add(op, a, b)
	}
	var lastAnds []int
	for l := range sh.ands {
		if sh.holes && r.Intn(3) == 0 {
			next += 1 + r.Intn(3)
			lastHole = next - 1
		}
		for i := 0; i < sh.free[l]; i++ {
			freeGate()
		}
		lim := len(defined)
		var cur []int
		for i := 0; i < sh.ands[l]; i++ {
			a, b := defined[r.Intn(lim)], defined[r.Intn(lim)]
			if len(lastAnds) > 0 {
				a = lastAnds[r.Intn(len(lastAnds))]
			}
			if r.Intn(12) == 0 {
				b = a
			}
			if r.Bool() {
				a, b = b, a
			}
			cur = append(cur, add(circuit.AND, a, b))
		}
		if len(cur) > 0 {
			lastAnds = cur
		}
	}
	for i := 0; i < sh.tail; i++ {
		freeGate()
	}
	nout := hxlib.MinInt(sh.nout, hxlib.MinInt(next-nin, next-1-lastHole))
	var outputs circuit.IO
	if sh.split && nout > 3 {
		o1 := 1 + nout/3
		outputs = circuit.IO{hxlib.UintIO("r0", o1), hxlib.UintIO("r1", nout-o1)}
	} else {
		outputs = circuit.IO{hxlib.UintIO("r", nout)}
	}
	c := &circuit.Circuit{NumGates: len(gates), NumWires: next, Inputs: inputs, Outputs: outputs, Gates: gates, Stats: stats}
	c.AssignLevels(utils.TargetGMW)
	return c
}

func copyCircuit(c *circuit.Circuit) *circuit.Circuit {
	return &circuit.Circuit{NumGates: c.NumGates, NumWires: c.NumWires, Stats: c.Stats,
		Gates:   append([]circuit.Gate(nil), c.Gates...),
		Inputs:  append(circuit.IO(nil), c.Inputs...),
		Outputs: append(circuit.IO(nil), c.Outputs...)}
}

// ---------------------------------------------------------------- histories

var histRels = []string{"same-object", "copy", "rewire", "same-depth", "deeper", "shallower", "wider-in", "narrower-in",
	"zero-and", "mpcl", "or-last"}

type histGen struct {
	r    *hxlib.Rng
	n    int
	corp []progCase
	// compiled corpus programs are shared by all histories of the process
	// (Run and Compute only read a circuit)
	cache *sync.Map
}

type histCirc struct {
	pc    progCase
	sh    *shape // nil for compiled programs
	depth int
}

func (g *histGen) synth(sh shape, tag string) histCirc {
	c := buildShape(g.r, sh)
	return histCirc{pc: progCase{name: fmt.Sprintf("shape-%dp-%dl-%s", g.n, sh.depth(), tag), n: g.n, kind: "synthetic", circ: c},
		sh: &sh, depth: int(c.Stats[circuit.NumLevels])}
}

func (g *histGen) mpcl() (histCirc, bool) {
	if g.r.Intn(2) == 0 {
		var cand []progCase
		for _, pc := range g.corp {
			if pc.n == g.n {
				cand = append(cand, pc)
			}
		}
		pc := cand[g.r.Intn(len(cand))]
		if v, ok := g.cache.Load(pc.name); ok {
			pc.circ = v.(*circuit.Circuit)
		} else {
			c, _ := compileGMW(pc.src, true)
			if c == nil {
				return histCirc{}, false
			}
			g.cache.Store(pc.name, c)
			pc.circ = c
		}
		return histCirc{pc: pc, depth: int(pc.circ.Stats[circuit.NumLevels])}, true
	}
	for try := 0; try < 20; try++ {
		pc := randomProgramN(g.r, g.n)
		c, _ := compileGMW(pc.src, g.r.Intn(4) != 0)
		if c != nil && c.NumGates > 0 && c.NumGates < 30000 {
			pc.circ = c
			return histCirc{pc: pc, depth: int(c.Stats[circuit.NumLevels])}, true
		}
	}
	return histCirc{}, false
}

// first: the circuit of the first call; `rel1` is the relation planned for
// the second call (a re-wiring needs a shape, a shallower circuit a depth).
func (g *histGen) first(rel1 string) histCirc {
	if g.r.Intn(4) == 0 && rel1 != "rewire" {
		if hc, ok := g.mpcl(); ok && (rel1 != "shallower" || hc.depth > 0) {
			return hc
		}
	}
	depth := 1 + g.r.Intn(6)
	switch g.r.Intn(6) {
	case 0:
		if rel1 != "shallower" {
			depth = 0
		}
	case 1:
		depth = 8 + g.r.Intn(20)
	}
	return g.synth(randShape(g.r, g.n, depth), "first")
}

// next: the circuit of the next call, in relation `rel` to the previous one.
// The returned relation names what was really generated (a compiled program
// has no shape to re-wire; a same-depth circuit is generated instead).
func (g *histGen) next(prev histCirc, rel string) (histCirc, string) {
	r := g.r
	depthCap := func(d int) int {
		if d > 40 {
			return 40
		}
		return d
	}
	switch rel {
	case "same-object":
		return prev, rel
	case "copy":
		hc := prev
		hc.pc.circ = copyCircuit(prev.pc.circ)
		hc.pc.name += "-copy"
		return hc, rel
	case "rewire":
		if prev.sh != nil {
			return g.synth(*prev.sh, "rewire"), rel
		}
		return g.synth(randShape(r, g.n, depthCap(prev.depth)), "same-depth"), "same-depth"
	case "same-depth":
		return g.synth(randShape(r, g.n, depthCap(prev.depth)), rel), rel
	case "deeper":
		return g.synth(randShape(r, g.n, depthCap(prev.depth)+1+r.Intn(4)), rel), rel
	case "shallower":
		if prev.depth == 0 {
			return g.synth(randShape(r, g.n, 0), "same-depth"), "same-depth"
		}
		return g.synth(randShape(r, g.n, r.Intn(depthCap(prev.depth))), rel), rel
	case "wider-in", "narrower-in":
		var sh shape
		if prev.sh != nil {
			sh = *prev.sh
			sh.inBits = append([]int(nil), sh.inBits...)
		} else {
			sh = randShape(r, g.n, depthCap(prev.depth))
			for i := range sh.inBits {
				sh.inBits[i] = int(prev.pc.circ.Inputs[i].Type.Bits)
			}
		}
		for i := range sh.inBits {
			if rel == "wider-in" {
				sh.inBits[i] += 1 + r.Intn(70)
			} else {
				sh.inBits[i] = 1 + r.Intn(sh.inBits[i])
			}
		}
		return g.synth(sh, rel), rel
	case "zero-and":
		return g.synth(randShape(r, g.n, 0), rel), rel
	case "mpcl":
		if hc, ok := g.mpcl(); ok {
			return hc, rel
		}
		return g.synth(randShape(r, g.n, depthCap(prev.depth)), "same-depth"), "same-depth"
	case "or-last":
		hc := g.synth(randShape(r, g.n, depthCap(prev.depth)), rel)
		gt := &hc.pc.circ.Gates[len(hc.pc.circ.Gates)-1]
		gt.Op = circuit.OR
		hc.pc.name += "-or"
		return hc, rel
	}
	panic("unknown relation " + rel)
}

// genHistory: parties, the circuit of every call, inputs, pauses.
// `or-last` is only ever the last call.
func genHistory(r *hxlib.Rng, idx int, corp []progCase, cache *sync.Map) (int, []*histStep) {
	n := 2 + idx%4
	g := &histGen{r: r, n: n, corp: corp, cache: cache}
	calls := 2 + r.Intn(4)
	if idx%5 == 0 {
		calls = 5
	}
	gap := func() time.Duration {
		switch r.Intn(4) {
		case 0, 1:
			return 0
		case 2:
			return time.Duration(r.Intn(500)) * time.Microsecond
		default:
			return time.Duration(r.Intn(8)) * time.Millisecond
		}
	}
	nrel := len(histRels) - 1 // without or-last
	// the relation of the second call walks through all relations with the
	// case index; later calls: a walk with random picks in between
	rel1 := histRels[idx%nrel]
	cur := g.first(rel1)
	var steps []*histStep
	mk := func(hc histCirc, rel string) {
		st := &histStep{pc: hc.pc, rel: rel}
		for p := 0; p < n; p++ {
			st.inputs = append(st.inputs, randInput(r, int(hc.pc.circ.Inputs[p].Type.Bits)))
			st.gaps = append(st.gaps, gap())
		}
		steps = append(steps, st)
	}
	mk(cur, "first")
	for k := 1; k < calls; k++ {
		rel := rel1
		if k > 1 {
			rel = histRels[(idx/4+3*k)%nrel]
			if r.Intn(3) == 0 {
				rel = histRels[r.Intn(nrel)]
			}
		}
		if k == calls-1 && idx%9 == 4 {
			rel = "or-last"
		}
		var got string
		cur, got = g.next(cur, rel)
		mk(cur, got)
	}
	return n, steps
}

// ---------------------------------------------------------------- mode

func histMode(args []string) {
	cf, o := hxlib.ParseCommon("hist", args, nil)
	defer o.Close()
	initPorts(cf.Seed ^ 0x5157)
	root := hxlib.NewRng(cf.Seed ^ 0xC1057)
	corp := corpus()
	cache := new(sync.Map)

	type job struct {
		cfg   *sessCfg
		steps []*histStep
		so    *sessOut
	}
	jobs := make([]*job, cf.N)
	workers := 4
	if cf.Tier == "thorough" {
		workers = 6
	}
	sem := make(chan struct{}, workers)
	var wg sync.WaitGroup
	var suspect int32
	var mu sync.Mutex
	var suspects []*job
	confirmed := false
	resolveSuspects := func() {
		wg.Wait()
		mu.Lock()
		list := suspects
		suspects = nil
		mu.Unlock()
		atomic.StoreInt32(&suspect, 0)
		for _, j := range list {
			if confirmed {
				j.so = nil
				o.Count("histories_skipped_after_confirmed_hang")
				continue
			}
			o.Count("histories_stalled_rerun_alone")
			first := j.so
			c2 := *j.cfg
			c2.stall, c2.hardCap = aloneStall, aloneHardCap
			j.so = runSession(&c2)
			if j.so.timeout != "" {
				confirmed = true
				j.cfg = &c2
				o.Meta["confirmed_hang"] = map[string]any{"case": j.cfg.idx, "first_run_phase": first.timeout,
					"first_run_idle_s": first.stalledS, "alone_phase": j.so.timeout, "alone_idle_s": j.so.stalledS}
			} else {
				o.Count("stall_not_reproduced_alone_" + first.timeout)
			}
		}
	}
	for idx := 0; idx < cf.N; idx++ {
		r := root.Fork()
		if cf.Only >= 0 && idx != cf.Only {
			continue
		}
		if atomic.LoadInt32(&suspect) != 0 {
			resolveSuspects()
		}
		if confirmed {
			o.Count("histories_skipped_after_confirmed_hang")
			continue
		}
		n, steps := genHistory(r, idx, corp, cache)
		cfg := &sessCfg{idx: idx, pc: steps[0].pc, inputs: steps[0].inputs, more: steps[1:], stall: firstStall, hardCap: firstHardCap}
		cfg.mode = "snap"
		if idx%6 == 5 {
			cfg.mode = "race"
		}
		dly := func() time.Duration {
			switch r.Intn(4) {
			case 0:
				return 0
			case 1:
				return time.Duration(r.Intn(300)) * time.Microsecond
			case 2:
				return time.Duration(r.Intn(5000)) * time.Microsecond
			default:
				return time.Duration(r.Intn(40)) * time.Millisecond
			}
		}
		for p := 0; p < n; p++ {
			cfg.delays = append(cfg.delays, dly())
			cfg.delays2 = append(cfg.delays2, dly())
			cfg.order = append(cfg.order, p)
		}
		for i := n - 1; i > 0; i-- {
			j := r.Intn(i + 1)
			cfg.order[i], cfg.order[j] = cfg.order[j], cfg.order[i]
		}
		cfg.drain = []int{1, 63, 64, 65, 100, 641, 1000, 4097}[r.Intn(8)]
		j := &job{cfg: cfg, steps: steps}
		jobs[idx] = j
		wg.Add(1)
		sem <- struct{}{}
		go func() {
			defer wg.Done()
			defer func() { <-sem }()
			j.so = runSession(j.cfg)
			if j.so.timeout != "" {
				mu.Lock()
				suspects = append(suspects, j)
				mu.Unlock()
				atomic.StoreInt32(&suspect, 1)
			}
		}()
	}
	resolveSuspects()
	for _, j := range jobs {
		if j == nil || j.so == nil {
			continue
		}
		evaluateHist(o, cf, j.cfg, j.steps, j.so)
	}
}

// histBase: the whole history as failure detail (the replay re-generates it
// from seed and case index; the detail is for the reader).
func histBase(cf *hxlib.CommonFlags, cfg *sessCfg, steps []*histStep) map[string]any {
	var calls []map[string]any
	for k, st := range steps {
		var ins []string
		for _, v := range st.inputs {
			ins = append(ins, v.Text(16))
		}
		d := map[string]any{"call": k, "relation_to_previous": st.rel, "prog": st.pc.name, "kind": st.pc.kind,
			"inputs_hex": ins, "and_levels": st.pc.circ.Stats[circuit.NumLevels], "wires": st.pc.circ.NumWires,
			"gates": st.pc.circ.NumGates}
		if st.repr != nil {
			d["inputs"] = reprDetail(st.pc.circ, st.repr)
		}
		if st.pc.src != "" {
			d["src"] = st.pc.src
		} else {
			d["circuit"] = clip(hxlib.CircLine(st.pc.circ), 1500)
		}
		calls = append(calls, d)
	}
	hx := cfg.hx
	if hx == "" {
		hx = "hist"
	}
	return map[string]any{
		"case": cfg.idx, "seed": cf.Seed, "n": cf.N, "tier": cf.Tier, "harness_mode": hx, "parties": len(cfg.inputs),
		"mode": cfg.mode, "calls": len(steps), "history": calls,
		"rerun": fmt.Sprintf("hx-c10 %s -seed %d -n %d -only %d -tier %s", hx, cf.Seed, cf.N, cfg.idx, cf.Tier),
	}
}

func definedWires(c *circuit.Circuit) []bool {
	def := make([]bool, c.NumWires)
	for i := 0; i < c.Inputs.Size() && i < c.NumWires; i++ {
		def[i] = true
	}
	for _, g := range c.Gates {
		def[g.Output] = true
	}
	return def
}

func evaluateHist(o *hxlib.Out, cf *hxlib.CommonFlags, cfg *sessCfg, steps []*histStep, so *sessOut) {
	n := len(cfg.inputs)
	base := histBase(cf, cfg, steps)
	o.Count("histories")
	o.Count("histories_" + cfg.mode)
	o.Count(fmt.Sprintf("parties_%d", n))
	o.Count(fmt.Sprintf("calls_%d", len(steps)))
	for k, st := range steps {
		o.Count("calls")
		o.Count("rel_" + st.rel)
		o.Count("kind_" + st.pc.kind)
		if k > 0 {
			a, b := steps[k-1].pc.circ, st.pc.circ
			if a != b && a.Stats[circuit.NumLevels] == b.Stats[circuit.NumLevels] {
				o.Count("consecutive_different_circuits_same_and_depth")
			}
			if a != b && a.NumWires > b.NumWires {
				o.Count("consecutive_fewer_wires")
			}
			if a != b && a.NumWires < b.NumWires {
				o.Count("consecutive_more_wires")
			}
		}
	}
	if so.timeout != "" {
		o.Fail("c10-timeout", with(base, "phase", so.timeout, "no_progress_s", so.stalledS, "stall_limit_s", cfg.stall.Seconds(),
			"hard_cap_s", cfg.hardCap.Seconds(), "confirmed", "re-run alone (no other session in the harness): no bytes moved on any "+
				"connection, no pool level changed and no party finished a phase for the stall limit"))
		return
	}
	for p := 0; p < n; p++ {
		if so.connErr[p] != nil {
			o.Fail("c10-connect-error", with(base, "party", p, "err", clip(so.connErr[p].Error(), 300)))
			return
		}
	}
	for p := 0; p < n; p++ {
		if so.closeErr[p] != nil {
			o.Fail("c10-close-error", with(base, "party", p, "err", clip(so.closeErr[p].Error(), 300)))
		}
	}
	// per call: results, errors, wires of every party
	res := func(k, p int) ([]*big.Int, error, *big.Int) {
		if k == 0 {
			return so.results[p], so.runErr[p], so.wires0[p]
		}
		return so.mres[k-1][p], so.mErr[k-1][p], so.mwires[k-1][p]
	}
	totalNeed := 0
	maxWires := 0
	var items []string
	complete := true // every call returned normally at every party
	for k, st := range steps {
		c := st.pc.circ
		if c.NumWires > maxWires {
			maxWires = c.NumWires
		}
		if hasOR(c) {
			o.Count("calls_unsupported_gate")
			ok := true
			for p := 0; p < n; p++ {
				_, err, _ := res(k, p)
				if err == nil || !strings.Contains(err.Error(), "not supported") {
					ok = false
				}
			}
			if ok {
				items = append(items, "unsupported")
			} else {
				items = append(items, "no-error")
				o.Fail("c10-unsupported-gate-no-error", with(base, "call", k))
			}
			complete = false
			break
		}
		failed := false
		for p := 0; p < n; p++ {
			if _, err, _ := res(k, p); err != nil {
				o.Fail("c10-run-error", with(base, "call", k, "party", p, "err", clip(err.Error(), 300)))
				failed = true
				break
			}
		}
		if failed {
			return
		}
		checkLevels(o, with(base, "call", k), c)
		need, batches := circuitNeed(c)
		totalNeed += need
		o.CountN("and_levels", len(batches))
		for _, b := range batches {
			if b%64 != 0 {
				o.Count("and_batches_not_multiple_of_64")
			}
			if b > 64 {
				o.Count("and_batches_multiword")
			}
		}
		// (1) every party's result of THIS call equals Compute of THIS circuit
		want, err := c.Compute(computeInputs(st.inputs, st.repr))
		if err != nil {
			o.Fail("c10-compute-error", with(base, "call", k, "err", err.Error()))
			return
		}
		for p := 0; p < n; p++ {
			got, _, _ := res(k, p)
			if !bigsEqual(got, want) {
				d := with(base, "call", k, "relation_to_previous", st.rel, "party", p, "got", hxlib.BigsString(got),
					"want", hxlib.BigsString(want))
				if k > 0 && st.repr == nil {
					// what the previous call's circuit gives on these inputs (diagnosis only)
					if pw, e := steps[k-1].pc.circ.Compute(st.inputs); e == nil {
						d["previous_circuit_on_these_inputs"] = hxlib.BigsString(pw)
					}
				}
				o.Fail("c10-wrong-output", d)
				break
			}
		}
		// (2) share invariant on every wire this circuit defines
		var x []bool
		for p := 0; p < n; p++ {
			x = append(x, bitsOf(st.inputs[p], int(c.Inputs[p].Type.Bits))...)
		}
		ref := hxlib.RefEval(c, x)
		def := definedWires(c)
		for w := 0; w < c.NumWires; w++ {
			var v uint
			for p := 0; p < n; p++ {
				_, _, wi := res(k, p)
				v ^= wi.Bit(w)
			}
			if def[w] && (v == 1) != ref[w] {
				o.Fail("c10-share-invariant", with(base, "call", k, "wire", w, "is_input", w < len(x), "got", v, "want", ref[w]))
				break
			}
			if !def[w] {
				o.Count("undefined_wires_seen")
			}
		}
		for p := 0; p < n; p++ {
			if _, _, wi := res(k, p); wi.BitLen() > maxWires {
				o.Fail("c10-wire-out-of-range", with(base, "call", k, "party", p, "bitlen", wi.BitLen(), "largest_circuit_so_far", maxWires))
			}
		}
		// model result item of this call
		var it strings.Builder
		fmt.Fprintf(&it, "lv=%s;w=", levelDigest(c))
		for p := 0; p < n; p++ {
			if p > 0 {
				it.WriteByte(',')
			}
			_, _, wi := res(k, p)
			it.WriteString(hxlib.BitsString(bitsOf(wi, maxWires)))
		}
		it.WriteString(";o=")
		for p := 0; p < n; p++ {
			if p > 0 {
				it.WriteByte(',')
			}
			got, _, _ := res(k, p)
			it.WriteString(hxlib.BitsString(outBits(c, got)))
		}
		items = append(items, it.String())
	}
	// (3) triples: snapshot of every pool, and what Pool.Get hands out
	checkBatch := func(ts []*gmw.Triples, src string) bool {
		words := ts[0].Words
		for p := 1; p < n; p++ {
			if ts[p].Words != words {
				o.Fail("c10-pool-words-differ", with(base, "source", src, "party", p, "words", ts[p].Words, "words_party0", words))
				return false
			}
		}
		for w := 0; w < words; w++ {
			ok, diff := tripleOK(ts, w)
			if !ok {
				o.Fail("c10-triple-invalid", with(base, "source", src, "word", w, "wrong_bits", fmt.Sprintf("%016x", diff)))
				return false
			}
		}
		o.CountN("triple_words_checked_"+src, words)
		return true
	}
	if cfg.mode == "snap" {
		checkBatch(so.snaps, "snapshot")
	}
	dw := (cfg.drain + 63) / 64
	drainedOK := true
	for p := 0; p < n; p++ {
		if so.drained[p] == nil || so.drained[p].Words != dw {
			o.Fail("c10-pool-get-count", with(base, "party", p, "count", cfg.drain, "want_words", dw))
			drainedOK = false
		}
	}
	if drainedOK {
		checkBatch(so.drained, "get")
	}
	if cfg.mode != "snap" {
		return
	}
	// (4) lock-step over the fold of runs: after the last call every party's
	// Get hands out the snapshot words from position sum(need)
	if complete && drainedOK {
		var us []string
		for p := 0; p < n; p++ {
			used := -1
			s, d := so.snaps[p], so.drained[p]
			probe := hxlib.MinInt(dw, 4)
			for k := 0; k+probe <= s.Words; k++ {
				m := true
				for i := 0; i < probe && m; i++ {
					m = s.A[k+i] == d.A[i] && s.B[k+i] == d.B[i] && s.C[k+i] == d.C[i]
				}
				if m {
					used = k
					break
				}
			}
			ok := used == totalNeed
			for i := 0; ok && i < dw && totalNeed+i < s.Words; i++ {
				ok = s.A[totalNeed+i] == d.A[i] && s.B[totalNeed+i] == d.B[i] && s.C[totalNeed+i] == d.C[i]
			}
			if !ok {
				o.Fail("c10-pool-lockstep", with(base, "party", p, "consumed_words", used, "want", totalNeed))
			}
			us = append(us, fmt.Sprint(used))
		}
		items = append(items, "used="+strings.Join(us, ","))
	}
	if totalNeed+2 > so.snaps[0].Words {
		o.Count("history_needs_more_than_snapshot") // not replayed on the model
		return
	}
	o.Op(histOp(steps, so, totalNeed, res), strings.Join(items, "|"))
	o.Count("hist_ops")
	if len(o.Samples) < 4 {
		var rels []string
		for _, st := range steps {
			rels = append(rels, st.rel+":"+st.pc.name)
		}
		o.Sample(map[string]any{"parties": n, "history": rels, "need_words": totalNeed, "elapsed_ms": so.elapsed.Milliseconds()})
	}
}

// histOp: `c10 hist <pools> {<sizes> <circuit> <x> <rnd>}*`; rnd p q (p != q)
// of a call is the share of p's input observed on q's wires after that call.
// Calls after the first one that did not return normally are not listed (the
// model stops there too).
func histOp(steps []*histStep, so *sessOut, need int, res func(k, p int) ([]*big.Int, error, *big.Int)) string {
	n := len(steps[0].inputs)
	var pools []string
	k := need + 2
	for p := 0; p < n; p++ {
		s := so.snaps[p]
		pools = append(pools, wordsHex(s.A, k)+":"+wordsHex(s.B, k)+":"+wordsHex(s.C, k))
	}
	var sb strings.Builder
	ints := steps[0].repr != nil // integer inputs: `histi`, per party `<width>:<signed decimal>;...`
	if ints {
		fmt.Fprintf(&sb, "c10 histi %s", strings.Join(pools, ","))
	} else {
		fmt.Fprintf(&sb, "c10 hist %s", strings.Join(pools, ","))
	}
	for ci, st := range steps {
		c := st.pc.circ
		var sizes, xs, rnd []string
		ofs := make([]int, n+1)
		for p := 0; p < n; p++ {
			b := int(c.Inputs[p].Type.Bits)
			sizes = append(sizes, fmt.Sprint(b))
			xs = append(xs, hxlib.BitsString(bitsOf(st.inputs[p], b)))
			ofs[p+1] = ofs[p] + b
		}
		for p := 0; p < n; p++ {
			for q := 0; q < n; q++ {
				_, _, wq := res(ci, q)
				if p == q || wq == nil {
					rnd = append(rnd, "-")
					continue
				}
				b := make([]bool, ofs[p+1]-ofs[p])
				for i := range b {
					b[i] = wq.Bit(ofs[p]+i) == 1
				}
				rnd = append(rnd, hxlib.BitsString(b))
			}
		}
		xf := strings.Join(xs, ",")
		if ints {
			xf = reprSpecs(st.repr)
		}
		fmt.Fprintf(&sb, " %s %s %s %s", strings.Join(sizes, ","), hxlib.CircLine(c), xf, strings.Join(rnd, ","))
		if hasOR(c) {
			break
		}
	}
	return sb.String()
}

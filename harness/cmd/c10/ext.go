package main

// c10 ext: EXTREME circuits - the boundaries of the property's quantifier.
//
// "Every circuit compiled for the GMW target" is bounded in the
// implementation by the widths of its internal counters: the gate level
// (circuit.Level, the scratch table of AssignLevels), wire ids, per-level gate
// lists, AND batch sizes / word counts, batch counters, the number of triple
// words a run takes from the pool, input and output sizes.  No generated MPCL
// program comes near any of them (a few hundred AND levels, batches of a few
// thousand gates).  This mode generates, per internal dimension, circuits whose
// size sits on 2^8 and 2^16 (255/256/257, 65535/65536/65537, some beyond):
//
//	deep       a dependent AND chain of the given AND depth with XOR / XNOR /
//	           INV gates mixed in and side AND gates on earlier levels
//	wide-and   one level with that many AND gates (one batch, size/64 words)
//	wide-rest  one level with that many non-AND gates
//	many-out   that many output bits
//	wide-in    one party's input that many bits wide
//
// Inputs of the `sens` cases are SENSITISED: they are chosen first and the
// generator picks operands by value so that the chain wire is 1 at almost
// every step (an AND chain on random inputs is 0 after a few gates, and then
// no evaluation order can be told from another).
//
// Oracle: (1) directly on the real AssignLevels(TargetGMW) - the gate levels
// are a topological schedule of Network.run (levelViolation: every gate's
// level reaches the level of the producer of each input, +1 when the producer
// is an AND gate; Stats[NumLevels] covers every gate level) - for every case,
// with or without a session, and for every circuit of the sess / hist modes;
// (2) for session cases the oracle of the sess mode on real gmw networks over
// loopback TCP: results = Compute at every party, xor of shares = reference
// value on every wire, triples, lockstep, completion.
//
// Correspondence: `lvl` op lines - level digest of the real gate levels, the
// level oracle's verdict and every party's outputs against the Lean model's
// assignLevels / topoCheck / compute (Model/Levels.lean, Model/LevelsMod.lean);
// sessions whose triple need fits the pool snapshot also emit the `run` op of
// the sess mode (complete wire shares).

import (
	"fmt"
	"math/big"
	"strings"
	"sync"
	"time"

	"github.com/markkurossi/mpc/circuit"
	"github.com/markkurossi/mpc/compiler/utils"

	"verifharness/hxlib"
)

type extSpec struct {
	class   string
	size    int
	session bool
	sens    bool
}

func (s extSpec) String() string {
	k := "levels"
	if s.session {
		k = "session"
	}
	if s.sens {
		k += "-sens"
	}
	return fmt.Sprintf("%s-%d-%s", s.class, s.size, k)
}

var extClasses = []string{"deep", "wide-and", "wide-rest", "many-out", "wide-in"}

// extPlan: the fixed list of cases of a tier.  It depends on (tier, seed) only,
// so `-only idx` re-generates exactly one case.
func extPlan(tier string, seed uint64) []extSpec {
	var plan []extSpec
	b8 := []int{255, 256, 257}
	b16 := []int{65535, 65536, 65537}
	rot := int(seed % 2)
	if tier != "thorough" {
		// levels only (no network): every boundary size of the depth dimension and some beyond
		for _, d := range append(append([]int{}, b8...), b16...) {
			plan = append(plan, extSpec{"deep", d, false, false})
		}
		plan = append(plan, extSpec{"deep", 65536 + 2 + int(seed%200), false, true},
			extSpec{"deep", 131073, false, false}, extSpec{"deep", 262145, false, true},
			extSpec{"wide-and", 65537, false, false}, extSpec{"wide-rest", 65537, false, false})
		// sessions: 2^8 boundary of the depth (with the share-level `run` op), the 2^16 boundary with one
		// size below / at it rotating by seed, one beyond
		for _, d := range b8 {
			plan = append(plan, extSpec{"deep", d, true, true})
		}
		plan = append(plan, extSpec{"deep", 65537, true, true}, extSpec{"deep", b16[rot], true, true})
		plan = append(plan, extSpec{"wide-and", 16385, true, false}, extSpec{"wide-and", 65537, true, false},
			extSpec{"wide-and", b16[rot], true, false},
			extSpec{"wide-rest", 65537, true, false}, extSpec{"wide-rest", b16[1-rot], true, false},
			extSpec{"many-out", 65537, true, false}, extSpec{"many-out", b16[rot], true, false},
			extSpec{"many-out", b8[int(seed%3)], true, false},
			extSpec{"wide-in", 65537, true, false}, extSpec{"wide-in", b16[1-rot], true, false},
			extSpec{"wide-in", b8[int((seed+1)%3)], true, false})
		return plan
	}
	for _, d := range []int{255, 256, 257, 65535, 65536, 65537, 65600, 131071, 131072, 131073, 262145, 1048577} {
		plan = append(plan, extSpec{"deep", d, false, d%2 == 1})
	}
	for _, cl := range extClasses {
		for _, sz := range append(append([]int{}, b8...), b16...) {
			plan = append(plan, extSpec{cl, sz, true, true})
			if cl == "deep" {
				plan = append(plan, extSpec{cl, sz, true, false})
			}
		}
	}
	plan = append(plan, extSpec{"deep", 65536 + 2 + int(seed%200), true, true}, extSpec{"deep", 131073, true, true},
		extSpec{"wide-and", 16383, true, false}, extSpec{"wide-and", 16384, true, false}, extSpec{"wide-and", 16385, true, false},
		extSpec{"wide-and", 262145, true, false}, extSpec{"wide-and", 300001, true, false},
		extSpec{"wide-rest", 262145, true, false}, extSpec{"many-out", 131073, true, false}, extSpec{"wide-in", 131073, true, false})
	return plan
}

// ---------------------------------------------------------------- generator

// xb builds a single-assignment circuit gate by gate and tracks the value of
// every wire under the inputs chosen beforehand.
type xb struct {
	r     *hxlib.Rng
	gates []circuit.Gate
	stats circuit.Stats
	val   []bool
	ones  []int
	zeros []int
	sens  bool
}

func (b *xb) next() int { return len(b.val) }

func (b *xb) note(w int) {
	if b.val[w] {
		b.ones = append(b.ones, w)
	} else {
		b.zeros = append(b.zeros, w)
	}
}

func (b *xb) add(op circuit.Operation, x, y int) int {
	w := b.next()
	g := circuit.Gate{Input0: circuit.Wire(x), Input1: circuit.Wire(y), Output: circuit.Wire(w), Op: op}
	var v bool
	switch op {
	case circuit.XOR:
		v = b.val[x] != b.val[y]
	case circuit.XNOR:
		v = b.val[x] == b.val[y]
	case circuit.AND:
		v = b.val[x] && b.val[y]
	case circuit.INV:
		g.Input1 = 0
		v = !b.val[x]
	}
	b.gates = append(b.gates, g)
	b.stats[op]++
	b.val = append(b.val, v)
	b.note(w)
	return w
}

// below: a wire of the wanted value with an index < lim (a random wire < lim when values are not steered or none exists).
func (b *xb) pick(want bool, lim int) int {
	if b.sens {
		l := b.zeros
		if want {
			l = b.ones
		}
		// the lists are in increasing wire order: restrict to the prefix below lim
		hi := len(l)
		for hi > 0 && l[hi-1] >= lim {
			hi--
		}
		if hi > 0 {
			if hi > 16 && b.r.Intn(2) == 0 {
				return l[hi-1-b.r.Intn(16)]
			}
			return l[b.r.Intn(hi)]
		}
	}
	return b.r.Intn(lim)
}

func (b *xb) free(lim int) int {
	op := []circuit.Operation{circuit.XOR, circuit.XNOR, circuit.INV, circuit.XOR}[b.r.Intn(4)]
	return b.add(op, b.r.Intn(lim), b.r.Intn(lim))
}

// fold XORs the wires into k accumulators, round robin; the accumulators' last
// values are the last k wires of the circuit (its outputs).
func (b *xb) fold(ws []int, k int) {
	if len(ws) < 2*k {
		for len(ws) < 2*k {
			ws = append(ws, b.r.Intn(b.next()))
		}
	}
	acc := make([]int, k)
	copy(acc, ws[:k])
	for i := k; i < len(ws); i++ {
		op := circuit.XOR
		if b.r.Intn(8) == 0 {
			op = circuit.XNOR
		}
		acc[i%k] = b.add(op, acc[i%k], ws[i])
	}
}

func taps(r *hxlib.Rng, n int) []int {
	var t []int
	for _, x := range []int{0, 1, 63, 64, 65, 254, 255, 256, 257, 16383, 16384, 65534, 65535, 65536, 65537, n - 2, n - 1} {
		if x >= 0 && x < n {
			t = append(t, x)
		}
	}
	for i := 0; i < 12; i++ {
		t = append(t, r.Intn(n))
	}
	return t
}

// extremeCircuit: circuit and inputs of one case.
func extremeCircuit(r *hxlib.Rng, sp extSpec) (progCase, []*big.Int) {
	n := 2
	if sp.class != "deep" && r.Intn(3) == 0 {
		n = 3
	}
	widths := make([]int, n)
	for p := range widths {
		widths[p] = 2 + r.Intn(12)
	}
	wideP := r.Intn(n)
	if sp.class == "wide-in" {
		widths[wideP] = sp.size
	}
	b := &xb{r: r, sens: sp.sens}
	var ins []*big.Int
	var io circuit.IO
	inOfs := make([]int, n+1)
	for p := 0; p < n; p++ {
		v := new(big.Int)
		for i := 0; i < widths[p]; i++ {
			bit := r.Bool()
			if sp.sens && i < 2 {
				bit = (i+p)%2 == 0 // both values exist among every party's wires
			}
			if bit {
				v.SetBit(v, i, 1)
			}
			b.val = append(b.val, bit)
			b.note(len(b.val) - 1)
		}
		ins = append(ins, v)
		io = append(io, hxlib.UintIO(argNames[p], widths[p]))
		inOfs[p+1] = inOfs[p] + widths[p]
	}
	nin := b.next()
	nout := 1 + r.Intn(8)
	switch sp.class {
	case "deep":
		for i := r.Intn(6); i > 0; i-- {
			b.free(b.next())
		}
		chain := b.pick(true, b.next())
		for k := 0; k < sp.size; k++ {
			before := b.next()
			u := b.pick(true, before)
			if r.Intn(8) == 0 {
				u = r.Intn(before)
			}
			if r.Bool() {
				chain = b.add(circuit.AND, chain, u)
			} else {
				chain = b.add(circuit.AND, u, chain)
			}
			dead := !b.val[chain]
			if !sp.sens {
				dead = r.Intn(3) == 0
			}
			if dead {
				switch r.Intn(3) {
				case 0:
					chain = b.add(circuit.INV, chain, 0)
				case 1:
					chain = b.add(circuit.XNOR, chain, b.pick(false, before))
				default:
					chain = b.add(circuit.XOR, b.pick(true, before), chain)
				}
			} else if r.Intn(16) == 0 {
				chain = b.add(circuit.XOR, chain, b.pick(false, before))
			}
			if r.Intn(32) == 0 {
				// side gates on earlier levels (operands older than this step: the AND depth stays sp.size)
				b.add(circuit.AND, r.Intn(before), r.Intn(before))
				if r.Bool() {
					b.free(before)
				}
			}
		}
		// outputs: the chain mixed with earlier wires
		lim := b.next()
		for j := 0; j < nout; j++ {
			op := circuit.XOR
			if j%3 == 2 {
				op = circuit.XNOR
			}
			b.add(op, chain, r.Intn(lim))
		}
	case "wide-and":
		for i := 4 + r.Intn(40); i > 0; i-- {
			b.free(b.next())
		}
		lim := b.next()
		ands := make([]int, sp.size)
		for i := range ands {
			x, y := r.Intn(lim), r.Intn(lim)
			if r.Intn(3) == 0 {
				x, y = b.pick(true, lim), b.pick(true, lim)
			}
			ands[i] = b.add(circuit.AND, x, y)
		}
		ws := append([]int{}, ands...)
		for _, t := range taps(r, sp.size) {
			ws = append(ws, b.add(circuit.AND, ands[t], ands[r.Intn(sp.size)]))
		}
		nout = 8
		b.fold(ws, nout)
	case "wide-rest":
		for i := 2 + r.Intn(10); i > 0; i-- {
			b.free(b.next())
		}
		lim := b.next()
		for i := 1 + r.Intn(70); i > 0; i-- {
			b.add(circuit.AND, r.Intn(lim), r.Intn(lim))
		}
		first := b.next()
		for i := 0; i < sp.size; i++ {
			if r.Intn(4) == 0 {
				b.free(b.next())
			} else {
				b.free(first)
			}
		}
		ws := []int{}
		for _, t := range taps(r, sp.size) {
			ws = append(ws, b.add(circuit.AND, first+t, first+r.Intn(sp.size)))
		}
		for i := 0; i < 64; i++ {
			ws = append(ws, first+r.Intn(sp.size))
		}
		nout = 8
		b.fold(ws, nout)
	case "many-out":
		for i := 2 + r.Intn(10); i > 0; i-- {
			b.free(b.next())
		}
		lim := b.next()
		for i := 1 + r.Intn(100); i > 0; i-- {
			b.add(circuit.AND, r.Intn(lim), r.Intn(lim))
		}
		lim = b.next()
		nout = sp.size
		for i := 0; i < nout; i++ {
			switch r.Intn(6) {
			case 0:
				b.add(circuit.AND, r.Intn(lim), r.Intn(lim))
			case 1:
				b.add(circuit.INV, r.Intn(lim), 0)
			default:
				b.free(lim)
			}
		}
	case "wide-in":
		base := inOfs[wideP]
		other := func() int {
			for {
				w := r.Intn(nin)
				if w < base || w >= base+sp.size {
					return w
				}
			}
		}
		ws := []int{}
		for _, t := range taps(r, sp.size) {
			ws = append(ws, b.add(circuit.AND, base+t, other()))
			ws = append(ws, b.add(circuit.XNOR, base+t, other()))
		}
		// every bit of the wide input reaches an output
		for i := 0; i < sp.size; i++ {
			ws = append(ws, base+i)
		}
		nout = 8
		b.fold(ws, nout)
	default:
		panic("unknown class " + sp.class)
	}
	var outputs circuit.IO
	switch {
	case nout > 300 && r.Intn(3) == 0:
		outputs = circuit.IO{hxlib.UintIO("r0", 256), hxlib.UintIO("r1", nout-256)}
	case nout > 3 && r.Intn(2) == 0:
		o1 := 1 + r.Intn(nout-1)
		outputs = circuit.IO{hxlib.UintIO("r0", o1), hxlib.UintIO("r1", nout-o1)}
	default:
		outputs = circuit.IO{hxlib.UintIO("r", nout)}
	}
	c := &circuit.Circuit{NumGates: len(b.gates), NumWires: b.next(), Inputs: io, Outputs: outputs, Gates: b.gates, Stats: b.stats}
	c.AssignLevels(utils.TargetGMW)
	return progCase{name: "extreme-" + sp.String(), n: n, kind: "extreme-" + sp.class, circ: c}, ins
}

// ---------------------------------------------------------------- level oracle

// levelViolation evaluates "the gate levels are a topological schedule of
// Network.run" on the REAL Level fields: run evaluates, for level 0, 1, ...,
// Stats[NumLevels], first the non-AND gates of the level in circuit order and
// then its AND batch.  A gate is evaluated after the gate producing one of its
// inputs iff its level is at least the producer's level, and larger when the
// producer is an AND gate.  All arithmetic in 64 bits.  nil = no violation.
func levelViolation(c *circuit.Circuit) map[string]any {
	need := make([]uint64, c.NumWires)
	prod := make([]int32, c.NumWires)
	for i := range prod {
		prod[i] = -1
	}
	maxStat := c.Stats[circuit.NumLevels]
	for i := range c.Gates {
		g := &c.Gates[i]
		l := uint64(g.Level)
		inputs := []circuit.Wire{g.Input0}
		if g.Op != circuit.INV {
			inputs = append(inputs, g.Input1)
		}
		for _, w := range inputs {
			if int(w) < c.NumWires && need[w] > l {
				h := prod[w]
				return map[string]any{"gate": i, "gate_op": g.Op.String(), "gate_level": l, "input_wire": int(w),
					"producer_gate": h, "producer_op": c.Gates[h].Op.String(), "producer_level": uint64(c.Gates[h].Level),
					"why": "Network.run evaluates the gate in round gate_level, before the round that sets its input wire"}
			}
		}
		if l > maxStat {
			return map[string]any{"gate": i, "gate_level": l, "stats_num_levels": maxStat,
				"why": "gate level beyond Stats[NumLevels]: Network.run has no round for it"}
		}
		if int(g.Output) < c.NumWires {
			need[g.Output] = l
			if g.Op == circuit.AND {
				need[g.Output] = l + 1
			}
			prod[g.Output] = int32(i)
		}
	}
	return nil
}

// refLevels: reference AND depth of the circuit and the triple words a run
// needs (per level ceil(#AND/64)), in 64-bit arithmetic and independent of the
// Level fields.
func refLevels(c *circuit.Circuit) (depth uint64, need int) {
	lv := make([]uint64, c.NumWires)
	cnt := map[uint64]int{}
	for _, g := range c.Gates {
		l := lv[g.Input0]
		if g.Op != circuit.INV && lv[g.Input1] > l {
			l = lv[g.Input1]
		}
		if g.Op == circuit.AND {
			cnt[l]++
			l++
		}
		lv[g.Output] = l
		if l > depth {
			depth = l
		}
	}
	for _, k := range cnt {
		need += (k + 63) / 64
	}
	return
}

func andDepth(c *circuit.Circuit) uint64 {
	d, _ := refLevels(c)
	return d
}

// checkLevels: the level oracle on one circuit (used by every mode that runs circuits).
func checkLevels(o *hxlib.Out, base map[string]any, c *circuit.Circuit) bool {
	o.Count("level_oracle_circuits")
	if v := levelViolation(c); v != nil {
		d := with(base, "and_depth", andDepth(c), "stats_num_levels", c.Stats[circuit.NumLevels], "gates", c.NumGates)
		for k, x := range v {
			d[k] = x
		}
		o.Fail("c10-levels-not-topological", d)
		return false
	}
	return true
}

// ---------------------------------------------------------------- mode

func lvlOp(c *circuit.Circuit, sizes, xs string) string {
	return fmt.Sprintf("c10 lvl %s %s %s", sizes, hxlib.CircLine(c), xs)
}

func extMode(args []string) {
	cf, o := hxlib.ParseCommon("ext", args, nil)
	defer o.Close()
	initPorts(cf.Seed)
	root := hxlib.NewRng(cf.Seed ^ 0xE87C10)
	plan := extPlan(cf.Tier, cf.Seed)
	o.Meta["ext_plan"] = len(plan)
	total := len(plan)
	if cf.N > 0 && cf.N < total {
		total = cf.N
	}
	type job struct {
		sp  extSpec
		cfg *sessCfg
		so  *sessOut
	}
	var jobs []*job
	var levelsOnly []func() // judged after the sessions, so that a failing session is the first failure reported
	workers := 3
	sem := make(chan struct{}, workers)
	var wg sync.WaitGroup
	for idx := 0; idx < total; idx++ {
		r := root.Fork()
		if cf.Only >= 0 && idx != cf.Only {
			continue
		}
		sp := plan[idx]
		pc, ins := extremeCircuit(r, sp)
		c := pc.circ
		o.Count("cases")
		o.Count("class_" + sp.class)
		o.Count(fmt.Sprintf("%s_size_%d", sp.class, sp.size))
		depth, refNeed := refLevels(c)
		if sp.class == "deep" {
			if depth != uint64(sp.size) {
				o.Fail("c10-harness-depth", map[string]any{"case": idx, "want": sp.size, "got": depth})
			}
			for _, k := range []uint64{8, 16} {
				if depth >= 1<<k {
					o.Count(fmt.Sprintf("deep_and_depth_ge_2^%d", k))
				}
			}
		}
		cfg := &sessCfg{idx: idx, pc: pc, inputs: ins, hx: "ext", stall: firstStall, hardCap: firstHardCap}
		_, batches := circuitNeed(c)
		cfg.mode = "race"
		if refNeed+2 <= 3500 && depth <= 1024 {
			// the run is replayed from the pool snapshot by the share-level `run` op (the model's `blocks` is
			// quadratic in the depth; the reference need and depth decide, not the Level fields under test)
			cfg.mode = "snap"
		}
		if !sp.session {
			levelsOnly = append(levelsOnly, func() {
				o.Count("levels_only")
				base := failBase(cf, cfg)
				ok := checkLevels(o, with(base, "and_depth", depth), c)
				topo := "1"
				if !ok {
					topo = "0"
				}
				o.Op(lvlOp(c, "-", "-"), fmt.Sprintf("lv=%s;topo=%s", levelDigest(c), topo))
				o.Count("lvl_ops")
			})
			continue
		}
		for _, k := range batches {
			if k >= 1<<16 {
				o.Count("and_batch_ge_2^16")
			}
		}
		n := len(c.Inputs)
		for p := 0; p < n; p++ {
			cfg.delays = append(cfg.delays, time.Duration(r.Intn(3000))*time.Microsecond)
			cfg.delays2 = append(cfg.delays2, time.Duration(r.Intn(3000))*time.Microsecond)
			cfg.order = append(cfg.order, p)
		}
		for i := n - 1; i > 0; i-- {
			j := r.Intn(i + 1)
			cfg.order[i], cfg.order[j] = cfg.order[j], cfg.order[i]
		}
		cfg.drain = []int{1, 64, 65, 4097, 65537}[r.Intn(5)]
		j := &job{sp: sp, cfg: cfg}
		jobs = append(jobs, j)
		wg.Add(1)
		sem <- struct{}{}
		go func() {
			defer wg.Done()
			defer func() { <-sem }()
			j.so = runSession(j.cfg)
		}()
	}
	wg.Wait()
	// a stalled session is a suspect only: re-run alone with long limits
	for _, j := range jobs {
		if j.so.timeout != "" {
			o.Count("sessions_stalled_rerun_alone")
			c2 := *j.cfg
			c2.stall, c2.hardCap = aloneStall, aloneHardCap
			first := j.so
			j.so = runSession(&c2)
			if j.so.timeout == "" {
				o.Count("stall_not_reproduced_alone_" + first.timeout)
			} else {
				j.cfg = &c2
			}
		}
	}
	for _, j := range jobs {
		cfg, so, c := j.cfg, j.so, j.cfg.pc.circ
		nf := o.Counters["oracle_fail"]
		evaluate(o, cf, cfg, so)
		o.CountN("session_ms_"+j.sp.class, int(so.elapsed.Milliseconds()))
		// the lvl op: levels, level oracle and every party's outputs against the model
		topo := "1"
		if levelViolation(c) != nil {
			topo = "0"
		}
		n := len(c.Inputs)
		complete := so.timeout == ""
		for p := 0; p < n && complete; p++ {
			complete = so.connErr[p] == nil && so.runErr[p] == nil && so.results[p] != nil
		}
		if !complete {
			o.Op(lvlOp(c, "-", "-"), fmt.Sprintf("lv=%s;topo=%s", levelDigest(c), topo))
			continue
		}
		var sizes, xs, outs []string
		for p := 0; p < n; p++ {
			bits := int(c.Inputs[p].Type.Bits)
			sizes = append(sizes, fmt.Sprint(bits))
			xs = append(xs, hxlib.BitsString(bitsOf(cfg.inputs[p], bits)))
			outs = append(outs, hxlib.BitsString(outBits(c, so.results[p])))
		}
		o.Op(lvlOp(c, strings.Join(sizes, ","), strings.Join(xs, ",")),
			fmt.Sprintf("lv=%s;topo=%s;o=%s", levelDigest(c), topo, strings.Join(outs, ",")))
		o.Count("lvl_ops")
		if o.Counters["oracle_fail"] == nf {
			o.Count("sessions_ok_" + j.sp.class)
		}
	}
	for _, f := range levelsOnly {
		f()
	}
}

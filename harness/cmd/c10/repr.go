package main

// c10 repr: input REPRESENTATIONS.
//
// "All inputs" of the property ranges over the *big.Int values a party can
// hand to gmw.Network.Run.  apps/garbled (gmwMode) produces them from text with
// circuit.IOArg.Parse: `SetString(s, 0)` for a plain int / uint argument - a
// NEGATIVE big.Int for "-5" (signed and unsigned types alike), a value of any
// magnitude for a long literal, any base prefix - per-member parsing and
// SetBit packing for a struct argument, digit strings for arrays, words for
// bool.  Nothing between Parse and Run normalises the value to the declared
// width: Network.run XORs it into the own share with big.Int.Xor and setWires
// reads the result with big.Int.Bit.  The sess / hist / ext modes build inputs
// from bit patterns (SetBit: non-negative, never wider than the argument);
// this mode gives every session mode its inputs in the forms the API accepts:
//
//	form "text"    strings -> IOArg.Parse -> Network.Run
//	form "direct"  a *big.Int of any sign and magnitude passed directly, also
//	               for struct / array arguments (the packed value)
//
// Value classes per int / uint member of width w (as in harness/cmd/c02/repr.go):
// 0, in range, -1, negative in the signed range, -2^(w-1), 2^(w-1)-1, 2^w-1,
// +-2^w, magnitudes with bits beyond w (positive and negative), magnitudes at
// machine-word boundaries (+-2^63, +-2^64, +-(2^64 +- 1), +-2^128, +-2^32),
// written in decimal, 0x, 0b, 0o and with a sign.
//
// Session classes (case index mod 6):
//
//	sess-compiled   MPCL programs for 2..5 parties compiled for the GMW target
//	                with signed / unsigned / struct / array / bool arguments
//	sess-synthetic  synthetic layered circuits (gen.go / hist.go shapes) whose
//	                arguments are re-declared int / uint / bool / struct /
//	                array; some with arguments of 63..130 bits
//	hist            histories of 2..5 Run calls on ONE connected network
//	                (hist.go), every call's inputs in these forms
//	ext             the wide-in extreme circuits (ext.go) at 257 and 65537 bits
//	                with a negative / wider-than-argument value of the wide
//	                party
//
// In every case one party (index = case mod parties) is forced to hold a
// NEGATIVE *big.Int.
//
// Oracle: the oracles of the sess / hist modes; the reference is
// Circuit.Compute on the same member values (and hxlib.RefEval on their
// big.Int.Bit bits for the share invariant).  Op lines: `runi` / `histi` /
// `lvli` - as `run` / `hist` / `lvl` with, per party, the flattened members
// `<width>:<signed decimal>;...`; the Lean model (Model/GmwInt.lean) mirrors
// big.Int.Xor and big.Int.Bit on the integers.

import (
	"fmt"
	"math/big"
	"strings"
	"sync"
	"time"

	"github.com/markkurossi/mpc/circuit"
	"github.com/markkurossi/mpc/types"

	"verifharness/hxlib"
)

// programs compiled for the GMW target whose arguments are signed, struct,
// array and bool typed: the forms in which apps/garbled users give negative
// numbers.  No `/` and `%` (the GMW divider is C07/C09's).
var reprPrograms = []progCase{
	{name: "repr-add-2", n: 2, src: "package main\nfunc main(a, b int8) int8 {\n\treturn a + b\n}\n"},
	{name: "repr-mixed-3", n: 3, src: "package main\nfunc main(a int32, b uint16, c int32) (int32, bool, uint16) {\n\treturn a - c, a < c, b + uint16(c)\n}\n"},
	{name: "repr-min-4", n: 4, src: "package main\nfunc main(a, b, c, d int9) (bool, int9) {\n\tx := a\n\tif b < x {\n\t\tx = b\n\t}\n\tif c < x {\n\t\tx = c\n\t}\n\tif d < x {\n\t\tx = d\n\t}\n\treturn a < d, x\n}\n"},
	{name: "repr-struct-2", n: 2, src: "package main\ntype G struct {\n\tx uint4\n\ty int5\n}\nfunc main(a G, b G) (uint4, int5, int5) {\n\treturn a.x + b.x, a.y - b.y, b.y\n}\n"},
	{name: "repr-array-3", n: 3, src: "package main\nfunc main(a [3]uint4, b int70, c uint7) ([3]uint4, int70, bool, uint7) {\n\treturn a, b + 1, a[0] > a[1], uint7(a[2]) + c\n}\n"},
	{name: "repr-wide-2", n: 2, src: "package main\nfunc main(a int3, b int130) int130 {\n\treturn b + int130(a)\n}\n"},
	{name: "repr-sum-5", n: 5, src: "package main\nfunc main(a, b, c, d, e int9) (int9, bool) {\n\treturn a + b - c + d - e, a < e\n}\n"},
	{name: "repr-struct-bool-3", n: 3, src: "package main\ntype P struct {\n\ts int9\n\tf bool\n\tu uint7\n}\nfunc main(a int9, b P, c uint13) (int9, bool, uint7, uint13) {\n\tif b.f {\n\t\treturn a + b.s, b.f, b.u, c * 3\n\t}\n\treturn a - b.s, b.f, b.u + 1, c\n}\n"},
	{name: "repr-word-4", n: 4, src: "package main\nfunc main(a int64, b uint64, c int65, d uint63) (int64, bool, int65, uint63) {\n\treturn a + int64(b), a > int64(d), c - 1, d ^ uint63(b)\n}\n"},
	{name: "repr-bool-3", n: 3, src: "package main\nfunc main(a bool, b int6, c uint6) (int6, bool) {\n\tif a {\n\t\treturn b + int6(c), a\n\t}\n\treturn b - int6(c), a\n}\n"},
	{name: "repr-mul-2", n: 2, src: "package main\nfunc main(a int13, b uint13) (int13, uint13) {\n\treturn a * 3, b * uint13(a)\n}\n"},
}

func pow2(k int) *big.Int { return new(big.Int).Lsh(big.NewInt(1), uint(k)) }

func randBig(r *hxlib.Rng, bits int) *big.Int {
	v := new(big.Int)
	for i := 0; i < bits; i++ {
		if r.Bool() {
			v.SetBit(v, i, 1)
		}
	}
	return v
}

// genInt picks an integer for a member of width w; the class name is counted.
func genInt(r *hxlib.Rng, w int) (*big.Int, string) {
	one := big.NewInt(1)
	neg := func(v *big.Int) *big.Int { return new(big.Int).Neg(v) }
	switch r.Intn(16) {
	case 0:
		return new(big.Int), "zero"
	case 1, 2:
		return randBig(r, w), "in_range"
	case 3:
		return big.NewInt(-1), "minus_one"
	case 4, 5:
		// negative inside the signed range [-2^(w-1), -1]
		v := randBig(r, w-1)
		v.Add(v, one)
		return neg(v), "negative_in_signed_range"
	case 6:
		return neg(pow2(w - 1)), "min_signed"
	case 7:
		if r.Bool() {
			return new(big.Int).Sub(pow2(w-1), one), "max_signed"
		}
		return new(big.Int).Sub(pow2(w), one), "max_unsigned"
	case 8:
		if r.Bool() {
			return pow2(w), "two_pow_w"
		}
		return neg(pow2(w)), "minus_two_pow_w"
	case 9, 10:
		// bits beyond the declared width, positive
		v := randBig(r, w+1+r.Intn(130))
		v.SetBit(v, w+r.Intn(3), 1)
		return v, "positive_wider_than_argument"
	case 11, 12:
		v := randBig(r, w+1+r.Intn(130))
		v.SetBit(v, w+r.Intn(3), 1)
		return neg(v), "negative_wider_than_argument"
	case 13, 14:
		// magnitudes at machine-word boundaries
		k := []int{63, 64, 64, 128, 32, 65}[r.Intn(6)]
		v := pow2(k)
		switch r.Intn(3) {
		case 0:
			v.Add(v, one)
		case 1:
			v.Sub(v, one)
		}
		if r.Intn(3) != 0 {
			return neg(v), "negative_word_boundary_magnitude"
		}
		return v, "positive_word_boundary_magnitude"
	default:
		// small negative numbers as a user types them
		return big.NewInt(-int64(1 + r.Intn(1000))), "small_negative"
	}
}

// genIntSign is genInt, restricted to negative values when neg is set.
func genIntSign(r *hxlib.Rng, w int, neg bool) (*big.Int, string) {
	for {
		v, cls := genInt(r, w)
		if !neg || v.Sign() < 0 {
			return v, cls
		}
	}
}

// intText writes v in one of the notations SetString(s, 0) accepts.
func intText(r *hxlib.Rng, v *big.Int) string {
	sign := ""
	a := new(big.Int).Abs(v)
	if v.Sign() < 0 {
		sign = "-"
	}
	switch r.Intn(6) {
	case 0:
		return sign + "0x" + a.Text(16)
	case 1:
		return sign + "0b" + a.Text(2)
	case 2:
		return sign + "0o" + a.Text(8)
	case 3:
		if v.Sign() > 0 {
			return "+" + a.Text(10)
		}
	}
	return v.String()
}

// memberText gives the text of one flattened member.
func memberText(r *hxlib.Rng, o *hxlib.Out, t types.Info, neg bool) string {
	switch t.Type {
	case types.TBool:
		return []string{"0", "1", "true", "false", "t", "f"}[r.Intn(6)]
	case types.TArray:
		total := int(t.Bits)
		switch r.Intn(4) {
		case 0:
			return "0"
		case 1:
			if total >= 4 {
				d := 1 + r.Intn(total/4)
				return "0x" + hxlib.Hex(r.Bytes((d + 1) / 2))[:d]
			}
		case 2:
			o.Count("member_array_negative_decimal")
			return "-" + randBig(r, 1+r.Intn(total)).String()
		}
		o.Count("member_array_decimal")
		return randBig(r, 1+r.Intn(total)).String()
	default:
		v, cls := genIntSign(r, int(t.Bits), neg)
		o.Count("member_" + cls)
		return intText(r, v)
	}
}

// shapeArg re-declares a synthetic circuit's argument of n bits as int, uint,
// bool, struct or array.
func shapeArg(r *hxlib.Rng, name string, n int, scalarOnly bool) circuit.IOArg {
	mk := func(t types.Type, bits int) types.Info {
		return types.Info{Type: t, IsConcrete: true, Bits: types.Size(bits)}
	}
	scalar := func(bits int) types.Info {
		if bits == 1 && r.Intn(3) == 0 {
			return mk(types.TBool, 1)
		}
		if r.Bool() {
			return mk(types.TInt, bits)
		}
		return mk(types.TUint, bits)
	}
	k := r.Intn(8)
	if scalarOnly {
		k = 7
	}
	switch {
	case k < 2 && n >= 2:
		// struct of 2..4 members
		arg := circuit.IOArg{Name: name, Type: mk(types.TStruct, n)}
		left := n
		for m := 0; left > 0; m++ {
			w := 1 + r.Intn(left)
			if m == 0 && w == left {
				w = left - 1
			}
			if m == 3 {
				w = left
			}
			arg.Compound = append(arg.Compound, circuit.IOArg{Name: fmt.Sprintf("%s.f%d", name, m), Type: scalar(w)})
			left -= w
		}
		return arg
	case k == 2 && n >= 2:
		for _, e := range []int{4, 3, 8, 2, 5, 1} {
			if n%e == 0 && n/e >= 2 {
				el := mk(types.TUint, e)
				t := mk(types.TArray, n)
				t.ElementType = &el
				t.ArraySize = types.Size(n / e)
				return circuit.IOArg{Name: name, Type: t}
			}
		}
	}
	return circuit.IOArg{Name: name, Type: scalar(n)}
}

// partyInput is one party's input in the form it is handed to Network.Run and
// in the form Circuit.Compute and the model take it.
type partyInput struct {
	form    string     // "text" | "direct"
	texts   []string   // form text: what IOArg.Parse was given
	value   *big.Int   // handed to Network.Run
	members []*big.Int // per flattened member, for Circuit.Compute
	spec    string     // `<width>:<decimal>;...` for the op line
	classes []string
}

func flatten(arg circuit.IOArg) circuit.IO {
	if len(arg.Compound) > 0 {
		return arg.Compound
	}
	return circuit.IO{arg}
}

func bitField(v *big.Int, ofs, w int) *big.Int {
	res := new(big.Int)
	for i := 0; i < w; i++ {
		res.SetBit(res, i, v.Bit(ofs+i))
	}
	return res
}

// directInput: the *big.Int v passed directly for the whole argument;
// Compute's members are the bit fields the wires carry.
func directInput(arg circuit.IOArg, v *big.Int, cls string) *partyInput {
	flat := flatten(arg)
	n := int(arg.Type.Bits)
	in := &partyInput{form: "direct", value: v, classes: []string{cls}}
	ofs := 0
	for _, m := range flat {
		in.members = append(in.members, bitField(v, ofs, int(m.Type.Bits)))
		ofs += int(m.Type.Bits)
	}
	if len(flat) == 1 {
		in.members = []*big.Int{v}
	}
	in.spec = fmt.Sprintf("%d:%s", n, v.String())
	return in
}

// genPartyInput: neg forces a negative *big.Int (a compound / array / bool
// argument can only be given one directly: Parse packs those non-negative).
func genPartyInput(r *hxlib.Rng, o *hxlib.Out, arg circuit.IOArg, neg bool) (*partyInput, error) {
	flat := flatten(arg)
	n := int(arg.Type.Bits)
	scalarInt := len(arg.Compound) == 0 && (arg.Type.Type == types.TInt || arg.Type.Type == types.TUint)
	if r.Intn(4) == 0 || (neg && !scalarInt) {
		v, cls := genIntSign(r, n, neg)
		o.Count("direct_" + cls)
		return directInput(arg, v, cls), nil
	}
	in := &partyInput{form: "text"}
	var specs []string
	for _, m := range flat {
		txt := memberText(r, o, m.Type, neg)
		mv, err := m.Parse([]string{txt})
		if err != nil {
			o.Count("parse_rejected_member_text")
			txt = "0"
			mv, err = m.Parse([]string{txt})
			if err != nil {
				return nil, err
			}
		}
		in.texts = append(in.texts, txt)
		in.members = append(in.members, mv)
		specs = append(specs, fmt.Sprintf("%d:%s", int(m.Type.Bits), mv.String()))
	}
	v, err := arg.Parse(in.texts)
	if err != nil {
		return nil, err
	}
	in.value = v
	in.spec = strings.Join(specs, ";")
	return in, nil
}

// reprSpecs: the integer-input field of an op line, parties joined by ','.
func reprSpecs(ins []*partyInput) string {
	var s []string
	for _, in := range ins {
		s = append(s, in.spec)
	}
	return strings.Join(s, ",")
}

func clipBig(v *big.Int) string { return clip(v.String(), 400) }

// reprDetail: per party what was given, for failure records.
func reprDetail(c *circuit.Circuit, ins []*partyInput) []map[string]any {
	var d []map[string]any
	for p, in := range ins {
		m := map[string]any{"party": p, "form": in.form, "value": clipBig(in.value), "negative": in.value.Sign() < 0,
			"members": clip(in.spec, 400)}
		if p < len(c.Inputs) {
			m["arg"] = c.Inputs[p].String()
			m["arg_bits"] = int(c.Inputs[p].Type.Bits)
			m["magnitude_wider_than_argument"] = in.value.BitLen() > int(c.Inputs[p].Type.Bits)
		}
		if in.form == "text" {
			var t []string
			for _, x := range in.texts {
				t = append(t, clip(x, 400))
			}
			m["texts"] = t
		}
		d = append(d, m)
	}
	return d
}

// genReprInputs: one input per party; party negP holds a negative *big.Int.
func genReprInputs(r *hxlib.Rng, o *hxlib.Out, c *circuit.Circuit, negP int) ([]*partyInput, []*big.Int, error) {
	var ins []*partyInput
	var vals []*big.Int
	for p, arg := range c.Inputs {
		in, err := genPartyInput(r, o, arg, p == negP)
		if err != nil {
			return nil, nil, err
		}
		ins = append(ins, in)
		vals = append(vals, in.value)
	}
	return ins, vals, nil
}

// shapeInputs re-declares the arguments of a synthetic circuit (once per
// circuit object); the party that is to hold a negative value gets a scalar.
func shapeInputs(r *hxlib.Rng, c *circuit.Circuit, negP int, done map[*circuit.Circuit]bool) {
	if done[c] {
		return
	}
	done[c] = true
	io := make(circuit.IO, len(c.Inputs))
	for p, arg := range c.Inputs {
		io[p] = shapeArg(r, argNames[p], int(arg.Type.Bits), p == negP && r.Intn(3) != 0)
	}
	c.Inputs = io
}

func countRepr(o *hxlib.Out, class string, c *circuit.Circuit, ins []*partyInput) {
	n := len(ins)
	o.Count("calls_" + class)
	o.Count(fmt.Sprintf("calls_parties_%d", n))
	for p, in := range ins {
		w := int(c.Inputs[p].Type.Bits)
		o.Count("form_" + in.form)
		o.Count(class + "_form_" + in.form)
		if in.value.Sign() < 0 {
			o.Count("negative_big_int")
			o.Count(class + "_negative_big_int")
			o.Count(fmt.Sprintf("negative_party_%d", p))
			switch {
			case p == 0:
				o.Count("negative_first_party")
			case p == n-1:
				o.Count("negative_last_party")
			default:
				o.Count("negative_middle_party")
			}
			if w > 64 {
				o.Count("negative_argument_over_64_bits")
			}
			if in.value.BitLen() > 64 {
				o.Count("negative_magnitude_over_64_bits")
			}
		}
		if in.value.Sign() == 0 {
			o.Count("zero")
			o.Count(class + "_zero")
		}
		if in.value.BitLen() > w {
			o.Count("magnitude_wider_than_argument")
			o.Count(class + "_magnitude_wider_than_argument")
			if in.value.Sign() < 0 {
				o.Count("negative_magnitude_wider_than_argument")
			}
		}
		arg := c.Inputs[p]
		switch {
		case len(arg.Compound) > 0:
			o.Count("arg_struct")
			if in.form == "text" {
				for _, m := range in.members {
					if m.Sign() < 0 {
						o.Count("struct_member_negative")
						break
					}
				}
			}
		default:
			o.Count("arg_" + arg.Type.Type.String())
		}
	}
}

type reprJob struct {
	idx   int
	class string
	cfg   *sessCfg
	steps []*histStep // class hist
	size  int         // class ext
	so    *sessOut
}

func reprMode(args []string) {
	cf, o := hxlib.ParseCommon("repr", args, nil)
	defer o.Close()
	initPorts(cf.Seed ^ 0x7e97)
	// decorrelated from seed+1 (NewRng(s) and NewRng(s+1) are one stream shifted by a draw)
	root := hxlib.NewRng(hxlib.NewRng(cf.Seed^0x72657072).U64() ^ cf.Seed<<32)
	corp := corpus()
	cache := new(sync.Map)
	compiled := make([]*circuit.Circuit, len(reprPrograms))
	for i, pc := range reprPrograms {
		c, errs := compileGMW(pc.src, true)
		if c == nil || len(c.Inputs) != pc.n {
			o.Fail("c10-compile-failed", map[string]any{"prog": pc.name, "src": pc.src, "err": errs})
			return
		}
		compiled[i] = c
	}
	workers := 4
	if cf.Tier == "thorough" {
		workers = 6
	}
	sem := make(chan struct{}, workers)
	var wg sync.WaitGroup
	var jobs []*reprJob
	dly := func(r *hxlib.Rng) time.Duration {
		switch r.Intn(4) {
		case 0:
			return 0
		case 1:
			return time.Duration(r.Intn(300)) * time.Microsecond
		case 2:
			return time.Duration(r.Intn(5000)) * time.Microsecond
		default:
			return time.Duration(r.Intn(20)) * time.Millisecond
		}
	}
	extSizes := []int{257, 65537}
	if cf.Tier == "thorough" {
		extSizes = []int{255, 256, 257, 65535, 65536, 65537}
	}
	nExt := 0
	for idx := 0; idx < cf.N; idx++ {
		r := root.Fork()
		if cf.Only >= 0 && idx != cf.Only {
			if idx%12 == 5 {
				nExt++
			}
			continue
		}
		j := &reprJob{idx: idx}
		cfg := &sessCfg{idx: idx, hx: "repr", stall: firstStall, hardCap: firstHardCap}
		j.cfg = cfg
		shaped := map[*circuit.Circuit]bool{}
		var err error
		switch {
		case idx%6 == 0 || idx%6 == 3:
			j.class = "sess-compiled"
			pi := (idx / 3) % len(reprPrograms)
			pc := reprPrograms[pi]
			pc.kind = "repr-compiled"
			pc.circ = compiled[pi]
			cfg.pc = pc
			cfg.repr, cfg.inputs, err = genReprInputs(r, o, pc.circ, idx%pc.n)
		case idx%6 == 1 || idx%6 == 4:
			j.class = "sess-synthetic"
			n := 2 + (idx/6)%4
			sh := randShape(r, n, 1+r.Intn(5))
			if idx%6 == 4 {
				// arguments around and beyond the machine word
				for p := range sh.inBits {
					if p == idx%n || r.Intn(3) == 0 {
						sh.inBits[p] = []int{63, 64, 65, 127, 128, 129, 130}[r.Intn(7)]
					}
				}
			}
			sh.holes = false
			c := buildShape(r, sh)
			shapeInputs(r, c, idx%n, shaped)
			cfg.pc = progCase{name: fmt.Sprintf("repr-shape-%dp", n), n: n, kind: "repr-synthetic", circ: c}
			cfg.repr, cfg.inputs, err = genReprInputs(r, o, c, idx%n)
		case idx%12 == 5:
			j.class = "ext"
			size := extSizes[nExt%len(extSizes)]
			ord := nExt
			nExt++
			j.size = size
			pc, ins := extremeCircuit(r, extSpec{"wide-in", size, true, false})
			c := pc.circ
			pc.kind = "repr-wide-in"
			cfg.pc = pc
			wideP := 0
			for p := range c.Inputs {
				if int(c.Inputs[p].Type.Bits) == size {
					wideP = p
				}
			}
			for p, arg := range c.Inputs {
				var in *partyInput
				if p == wideP {
					if r.Bool() {
						c.Inputs[p].Type.Type = types.TInt
					}
					// the variant walks with the ext ordinal and the seed, so that every run has a direct and
					// a text form, and a magnitude wider than the argument
					switch (ord/2 + ord + int(cf.Seed%4)) % 4 {
					case 0:
						// the residue class of the SetBit-built value, negative, wider than the argument
						v := new(big.Int).Sub(ins[p], pow2(size+1+r.Intn(70)))
						in = directInput(c.Inputs[p], v, "same_residue_negative_wider")
					case 2:
						v, cls := genIntSign(r, size, true)
						in = directInput(c.Inputs[p], v, cls)
					default:
						// the long decimal / hex text a user would paste: negative, wider than the argument (1) or not (3)
						v := randBig(r, size-1)
						if (ord/2+ord+int(cf.Seed%4))%4 == 1 {
							v = randBig(r, size+1+r.Intn(40))
							v.SetBit(v, size+r.Intn(3), 1)
						}
						v.Add(v, big.NewInt(1))
						v.Neg(v)
						txt := v.String()
						if r.Bool() {
							txt = "-0x" + new(big.Int).Abs(v).Text(16)
						}
						pv, e := c.Inputs[p].Parse([]string{txt})
						if e != nil {
							err = e
							break
						}
						in = &partyInput{form: "text", texts: []string{txt}, value: pv, members: []*big.Int{pv},
							spec: fmt.Sprintf("%d:%s", size, pv.String())}
					}
				} else {
					in, err = genPartyInput(r, o, arg, false)
				}
				if err != nil {
					break
				}
				cfg.repr = append(cfg.repr, in)
				cfg.inputs = append(cfg.inputs, in.value)
			}
		default:
			j.class = "hist"
			n, steps := genHistory(r, idx, corp, cache)
			for k, st := range steps {
				c := st.pc.circ
				negP := (idx + k) % n
				if st.pc.kind == "synthetic" {
					shapeInputs(r, c, negP, shaped)
				}
				st.repr, st.inputs, err = genReprInputs(r, o, c, negP)
				if err != nil {
					break
				}
			}
			j.steps = steps
			cfg.pc, cfg.inputs, cfg.repr, cfg.more = steps[0].pc, steps[0].inputs, steps[0].repr, steps[1:]
		}
		if err != nil {
			o.Fail("c10-repr-parse-error", map[string]any{"case": idx, "class": j.class, "err": err.Error()})
			continue
		}
		n := len(cfg.inputs)
		cfg.mode = "snap"
		if idx%5 == 4 {
			cfg.mode = "race"
		}
		for p := 0; p < n; p++ {
			cfg.delays = append(cfg.delays, dly(r))
			cfg.delays2 = append(cfg.delays2, dly(r))
			cfg.order = append(cfg.order, p)
		}
		for i := n - 1; i > 0; i-- {
			k := r.Intn(i + 1)
			cfg.order[i], cfg.order[k] = cfg.order[k], cfg.order[i]
		}
		cfg.drain = []int{1, 63, 64, 65, 100, 641}[r.Intn(6)]
		jobs = append(jobs, j)
		wg.Add(1)
		sem <- struct{}{}
		go func() {
			defer wg.Done()
			defer func() { <-sem }()
			j.so = runSession(j.cfg)
		}()
	}
	wg.Wait()
	// a stalled session is a suspect only: re-run alone with long limits
	for _, j := range jobs {
		if j.so.timeout != "" {
			o.Count("sessions_stalled_rerun_alone")
			c2 := *j.cfg
			c2.stall, c2.hardCap = aloneStall, aloneHardCap
			first := j.so
			j.so = runSession(&c2)
			if j.so.timeout == "" {
				o.Count("stall_not_reproduced_alone_" + first.timeout)
			} else {
				j.cfg = &c2
			}
		}
	}
	for _, j := range jobs {
		cfg, so, c := j.cfg, j.so, j.cfg.pc.circ
		nf := o.Counters["oracle_fail"]
		o.Count("cases")
		o.Count("class_" + j.class)
		switch j.class {
		case "hist":
			for _, st := range j.steps {
				if !hasOR(st.pc.circ) {
					countRepr(o, j.class, st.pc.circ, st.repr)
				}
			}
			evaluateHist(o, cf, cfg, j.steps, so)
		default:
			countRepr(o, j.class, c, cfg.repr)
			evaluate(o, cf, cfg, so)
		}
		if j.class == "ext" {
			// the lvl op with integer inputs: levels, level oracle, every party's outputs
			n := len(c.Inputs)
			complete := so.timeout == ""
			for p := 0; p < n && complete; p++ {
				complete = so.connErr[p] == nil && so.runErr[p] == nil && so.results[p] != nil
			}
			if complete {
				topo := "1"
				if levelViolation(c) != nil {
					topo = "0"
				}
				var sizes, outs []string
				for p := 0; p < n; p++ {
					sizes = append(sizes, fmt.Sprint(int(c.Inputs[p].Type.Bits)))
					outs = append(outs, hxlib.BitsString(outBits(c, so.results[p])))
				}
				o.Op(fmt.Sprintf("c10 lvli %s %s %s", strings.Join(sizes, ","), hxlib.CircLine(c), reprSpecs(cfg.repr)),
					fmt.Sprintf("lv=%s;topo=%s;o=%s", levelDigest(c), topo, strings.Join(outs, ",")))
				o.Count("lvli_ops")
				o.Count(fmt.Sprintf("ext_wide_in_%d", j.size))
			}
		}
		if o.Counters["oracle_fail"] == nf {
			o.Count("cases_ok_" + j.class)
		}
		if len(o.Samples) < 6 {
			o.Sample(map[string]any{"case": j.idx, "class": j.class, "prog": cfg.pc.name, "inputs": reprDetail(c, cfg.repr)})
		}
	}
}

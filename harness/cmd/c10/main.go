// Harness of property C10 (GMW: every party outputs f(inputs); dealt triples
// are valid).
//
//	c10 sess  real gmw networks over loopback TCP, 2..5 parties, circuits
//	          compiled for the GMW target from MPCL programs and synthetic
//	          layered circuits; oracle on results, wire shares and triples;
//	          `run` op lines (complete wire-share vectors of every party,
//	          recomputed by the Lean model from the observed input shares and
//	          the pool snapshot)
//	c10 hist  session histories: 2..5 consecutive Run calls on one connected
//	          network (hist.go); `hist` op lines replayed on the model's fold
//	          over the state a Network keeps between two calls
//	c10 ext   extreme circuits (ext.go): AND depth, level width, outputs and
//	          input widths across 2^8 and 2^16; level oracle on the real
//	          AssignLevels output; `lvl` op lines
//	c10 repr  input representations (repr.go): sessions, histories and
//	          wide-input circuits whose inputs are IOArg.Parse texts / direct
//	          *big.Int values of any sign and magnitude; `runi` / `histi` /
//	          `lvli` op lines carry the signed decimals
//	c10 degen degenerate session shapes (degen.go): parties with 0 / 1 input
//	          bits, circuits with 0 AND gates / 0 gates / 1 gate / 0 outputs,
//	          a party no gate reads; `run` ops + `msgs` ops (bytes every party
//	          sent during Run = the model's message transcript)
//	c10 pool  Triples.Append / TriplePool.Get op sequences (with arrivals
//	          racing a blocked Get) and the bit-vector leaf functions
//	c10 tb    tripleBatch at n parties over in-memory connections with
//	          deterministic IKNP instances; a shadow copy of every instance
//	          reproduces sBits/rBits, the model recomputes every party's c
package main

import (
	"fmt"
	"math/big"
	"os"
	"runtime"
	"strings"
	"sync"
	"sync/atomic"
	"time"

	"github.com/markkurossi/mpc/circuit"
	"github.com/markkurossi/mpc/gmw"

	"verifharness/hxlib"
)

func main() {
	if len(os.Args) < 2 {
		fmt.Fprintln(os.Stderr, "usage: c10 sess|hist|ext|repr|degen|pool|tb ...")
		os.Exit(2)
	}
	// the gmw package prints progress lines on stdout
	if dn, err := os.OpenFile(os.DevNull, os.O_WRONLY, 0); err == nil {
		os.Stdout = dn
	}
	switch os.Args[1] {
	case "sess":
		sessMode(os.Args[2:])
	case "hist":
		histMode(os.Args[2:])
	case "ext":
		extMode(os.Args[2:])
	case "pool":
		poolMode(os.Args[2:])
	case "tb":
		tbMode(os.Args[2:])
	case "repr":
		reprMode(os.Args[2:])
	case "degen":
		degenMode(os.Args[2:])
	default:
		fmt.Fprintln(os.Stderr, "unknown mode")
		os.Exit(2)
	}
}

// ---------------------------------------------------------------- sess

func hasOR(c *circuit.Circuit) bool {
	for _, g := range c.Gates {
		if g.Op == circuit.OR {
			return true
		}
	}
	return false
}

func pickCase(r *hxlib.Rng, idx int, corp []progCase) progCase {
	switch idx % 3 {
	case 0:
		return corp[(idx/3)%len(corp)]
	case 1:
		// compile failures of generated programs (type errors) are retried
		for try := 0; try < 20; try++ {
			pc := randomProgram(r)
			c, errs := compileGMW(pc.src, r.Intn(4) != 0)
			if c != nil && c.NumGates > 0 && c.NumGates < 60000 {
				pc.circ = c
				return pc
			}
			pc.err = errs
		}
		return corp[idx%len(corp)]
	default:
		pc := syntheticCircuit(r)
		if idx%30 == 2 {
			// error path: OR is not implemented by the online phase
			g := &pc.circ.Gates[len(pc.circ.Gates)-1]
			g.Op = circuit.OR
			pc.name += "-or"
		}
		return pc
	}
}

// Hang detection limits.  A healthy session takes well under a second of CPU;
// first run: no observable progress for a minute (or 10 minutes in all) makes
// it a suspect; re-run alone: 2 minutes without progress (20 minutes in all)
// confirm the hang.
const (
	firstStall   = 60 * time.Second
	firstHardCap = 10 * time.Minute
	aloneStall   = 120 * time.Second
	aloneHardCap = 20 * time.Minute
)

func sessMode(args []string) {
	cf, o := hxlib.ParseCommon("sess", args, nil)
	defer o.Close()
	initPorts(cf.Seed)
	root := hxlib.NewRng(cf.Seed ^ 0xC10)
	corp := corpus()

	type job struct {
		cfg           *sessCfg
		so            *sessOut
		firstPhase    string
		firstStalledS float64
	}
	jobs := make([]*job, cf.N)
	workers := 4
	if cf.Tier == "thorough" {
		workers = 6
	}
	if runtime.NumCPU() < 4 {
		workers = 2
	}
	sem := make(chan struct{}, workers)
	var wg sync.WaitGroup
	// A session that stalls is only a SUSPECT (the machine may be loaded):
	// no further session is launched, the running ones drain, and the suspect
	// is re-run ALONE with much longer limits.  Only a hang confirmed by that
	// run is reported; after the first confirmed hang nothing more is launched,
	// so a real deadlock costs a bounded time.
	var suspect int32
	var mu sync.Mutex
	var suspects []*job
	confirmed := false
	resolveSuspects := func() {
		wg.Wait()
		mu.Lock()
		list := suspects
		suspects = nil
		mu.Unlock()
		atomic.StoreInt32(&suspect, 0)
		for _, j := range list {
			if confirmed {
				j.so = nil
				o.Count("sessions_skipped_after_confirmed_hang")
				continue
			}
			o.Count("sessions_stalled_rerun_alone")
			first := j.so
			c2 := *j.cfg
			c2.stall, c2.hardCap = aloneStall, aloneHardCap
			j.so = runSession(&c2)
			if j.so.timeout != "" {
				confirmed = true
				j.firstPhase, j.firstStalledS = first.timeout, first.stalledS
				j.cfg = &c2
			} else {
				o.Count("stall_not_reproduced_alone_" + first.timeout)
			}
		}
	}
	for idx := 0; idx < cf.N; idx++ {
		r := root.Fork()
		if cf.Only >= 0 && idx != cf.Only {
			continue
		}
		if atomic.LoadInt32(&suspect) != 0 {
			resolveSuspects()
		}
		if confirmed {
			o.Count("sessions_skipped_after_confirmed_hang")
			continue
		}
		pc := pickCase(r, idx, corp)
		if pc.circ == nil {
			c, errs := compileGMW(pc.src, true)
			if c == nil {
				o.Fail("c10-compile-failed", map[string]any{"case": idx, "prog": pc.name, "src": pc.src, "err": errs})
				continue
			}
			pc.circ = c
		}
		n := len(pc.circ.Inputs)
		cfg := &sessCfg{idx: idx, pc: pc, stall: firstStall, hardCap: firstHardCap}
		for p := 0; p < n; p++ {
			cfg.inputs = append(cfg.inputs, randInput(r, int(pc.circ.Inputs[p].Type.Bits)))
		}
		if idx%3 == 1 || idx%7 == 0 {
			cfg.mode = "race"
		} else {
			cfg.mode = "snap"
		}
		dly := func() time.Duration {
			switch r.Intn(4) {
			case 0:
				return 0
			case 1:
				return time.Duration(r.Intn(300)) * time.Microsecond
			case 2:
				return time.Duration(r.Intn(5000)) * time.Microsecond
			default:
				return time.Duration(r.Intn(40)) * time.Millisecond
			}
		}
		for p := 0; p < n; p++ {
			cfg.delays = append(cfg.delays, dly())
			cfg.delays2 = append(cfg.delays2, dly())
			cfg.order = append(cfg.order, p)
		}
		for i := n - 1; i > 0; i-- {
			j := r.Intn(i + 1)
			cfg.order[i], cfg.order[j] = cfg.order[j], cfg.order[i]
		}
		cfg.drain = []int{1, 63, 64, 65, 100, 641, 1000, 4097, 300001}[r.Intn(9)]
		j := &job{cfg: cfg}
		jobs[idx] = j
		wg.Add(1)
		sem <- struct{}{}
		go func() {
			defer wg.Done()
			defer func() { <-sem }()
			j.so = runSession(j.cfg)
			if j.so.timeout != "" {
				mu.Lock()
				suspects = append(suspects, j)
				mu.Unlock()
				atomic.StoreInt32(&suspect, 1)
			}
		}()
	}
	resolveSuspects()
	for _, j := range jobs {
		if j == nil || j.so == nil {
			continue
		}
		if j.so.timeout != "" {
			o.Meta["confirmed_hang"] = map[string]any{"case": j.cfg.idx, "first_run_phase": j.firstPhase,
				"first_run_idle_s": j.firstStalledS, "alone_phase": j.so.timeout, "alone_idle_s": j.so.stalledS}
		}
		evaluate(o, cf, j.cfg, j.so)
	}
}

func failBase(cf *hxlib.CommonFlags, cfg *sessCfg) map[string]any {
	var ins []string
	for _, v := range cfg.inputs {
		ins = append(ins, v.Text(16))
	}
	d := map[string]any{
		"case": cfg.idx, "seed": cf.Seed, "prog": cfg.pc.name, "kind": cfg.pc.kind, "parties": len(cfg.inputs),
		"inputs_hex": ins, "mode": cfg.mode,
	}
	hx := cfg.hx
	if hx == "" {
		hx = "sess"
	}
	d["rerun"] = fmt.Sprintf("hx-c10 %s -seed %d -n %d -only %d -tier %s", hx, cf.Seed, cf.N, cfg.idx, cf.Tier)
	if cfg.pc.src != "" {
		d["src"] = cfg.pc.src
	} else {
		d["circuit"] = clip(hxlib.CircLine(cfg.pc.circ), 3000)
	}
	if cfg.repr != nil {
		d["inputs"] = reprDetail(cfg.pc.circ, cfg.repr)
	}
	return d
}

func with(d map[string]any, kv ...any) map[string]any {
	m := map[string]any{}
	for k, v := range d {
		m[k] = v
	}
	for i := 0; i+1 < len(kv); i += 2 {
		m[kv[i].(string)] = kv[i+1]
	}
	return m
}

// tripleOK: (xor a) & (xor b) == xor c at word w of every party's batch.
func tripleOK(ts []*gmw.Triples, w int) (bool, uint64) {
	var a, b, c uint64
	for _, t := range ts {
		a ^= t.A[w]
		b ^= t.B[w]
		c ^= t.C[w]
	}
	return a&b == c, (a & b) ^ c
}

func evaluate(o *hxlib.Out, cf *hxlib.CommonFlags, cfg *sessCfg, so *sessOut) {
	c := cfg.pc.circ
	n := len(c.Inputs)
	base := failBase(cf, cfg)
	o.Count("sessions")
	o.Count("sessions_" + cfg.mode)
	o.Count(fmt.Sprintf("parties_%d", n))
	o.Count("kind_" + cfg.pc.kind)
	// the gate levels of the real AssignLevels(TargetGMW) are a topological schedule of Network.run (judged on
	// every return path, reported after the failures of the session itself)
	defer checkLevels(o, base, c)
	need, batches := circuitNeed(c)
	o.CountN("and_levels", len(batches))
	for _, k := range batches {
		if k%64 != 0 {
			o.Count("and_batches_not_multiple_of_64")
		} else {
			o.Count("and_batches_multiple_of_64")
		}
		if k > 64 {
			o.Count("and_batches_multiword")
		}
	}
	if len(batches) >= 8 {
		o.Count("sessions_ge8_and_levels")
	}
	if so.timeout != "" {
		o.Fail("c10-timeout", with(base, "phase", so.timeout, "no_progress_s", so.stalledS, "stall_limit_s", cfg.stall.Seconds(),
			"hard_cap_s", cfg.hardCap.Seconds(), "confirmed", "re-run alone (no other session in the harness): no bytes moved on any "+
				"connection, no pool level changed and no party finished a phase for the stall limit"))
		return
	}
	for p := 0; p < n; p++ {
		if so.connErr[p] != nil {
			o.Fail("c10-connect-error", with(base, "party", p, "err", clip(so.connErr[p].Error(), 300)))
			return
		}
	}
	orCirc := hasOR(c)
	if orCirc {
		o.Count("sessions_unsupported_gate")
		ok := true
		for p := 0; p < n; p++ {
			if so.runErr[p] == nil || !strings.Contains(so.runErr[p].Error(), "not supported") {
				ok = false
			}
		}
		if cfg.mode == "snap" {
			res := "unsupported"
			if !ok {
				res = "no-error"
			}
			o.Op(runOp(cfg, so, need), res)
		}
		return
	}
	for p := 0; p < n; p++ {
		if so.runErr[p] != nil {
			o.Fail("c10-run-error", with(base, "party", p, "err", clip(so.runErr[p].Error(), 300)))
			return
		}
	}
	for p := 0; p < n; p++ {
		if so.closeErr[p] != nil {
			o.Fail("c10-close-error", with(base, "party", p, "err", clip(so.closeErr[p].Error(), 300)))
		}
	}
	// (1) every party's result equals Circuit.Compute on all inputs
	want, err := c.Compute(computeInputs(cfg.inputs, cfg.repr))
	if err != nil {
		o.Fail("c10-compute-error", with(base, "err", err.Error()))
		return
	}
	for p := 0; p < n; p++ {
		if !bigsEqual(so.results[p], want) {
			o.Fail("c10-wrong-output", with(base, "party", p, "got", hxlib.BigsString(so.results[p]), "want", hxlib.BigsString(want)))
			break
		}
	}
	// (2) share invariant on every wire: xor of the parties' shares equals the
	// reference evaluation
	var x []bool
	for p := 0; p < n; p++ {
		x = append(x, bitsOf(cfg.inputs[p], int(c.Inputs[p].Type.Bits))...)
	}
	ref := hxlib.RefEval(c, x)
	def := make([]bool, c.NumWires)
	for i := range x {
		def[i] = true
	}
	for _, g := range c.Gates {
		def[g.Output] = true
	}
	for w := 0; w < c.NumWires; w++ {
		var v uint
		for p := 0; p < n; p++ {
			v ^= so.wires[p].Bit(w)
		}
		if def[w] && (v == 1) != ref[w] {
			o.Fail("c10-share-invariant", with(base, "wire", w, "is_input", w < len(x), "got", v, "want", ref[w]))
			break
		}
	}
	for p := 0; p < n; p++ {
		if so.wires[p].BitLen() > c.NumWires {
			o.Fail("c10-wire-out-of-range", with(base, "party", p, "bitlen", so.wires[p].BitLen()))
		}
	}
	// (3) triples: snapshot of every pool, and what Pool.Get hands out
	checkBatch := func(ts []*gmw.Triples, src string) bool {
		words := ts[0].Words
		for p := 1; p < n; p++ {
			if ts[p].Words != words {
				o.Fail("c10-pool-words-differ", with(base, "source", src, "party", p, "words", ts[p].Words, "words_party0", words))
				return false
			}
		}
		for w := 0; w < words; w++ {
			ok, diff := tripleOK(ts, w)
			if !ok {
				o.Fail("c10-triple-invalid", with(base, "source", src, "word", w, "wrong_bits", fmt.Sprintf("%016x", diff)))
				return false
			}
		}
		o.CountN("triple_words_checked_"+src, words)
		return true
	}
	if cfg.mode == "snap" {
		checkBatch(so.snaps, "snapshot")
		// every batch the offline phase dealt was a whole number of 64-bit
		// words (nothing consumed yet: triples asked for = 64 * words held)
		for p := 0; p < n && p < len(so.dealtN); p++ {
			if so.dealtN[p] == 64*uint64(so.snaps[p].Words) {
				o.Count("pools_dealt_whole_words")
			} else {
				o.Count("pools_dealt_partial_words")
			}
		}
	}
	dw := (cfg.drain + 63) / 64
	drainedOK := true
	for p := 0; p < n; p++ {
		if so.drained[p].Words != dw {
			o.Fail("c10-pool-get-count", with(base, "party", p, "count", cfg.drain, "words", so.drained[p].Words, "want_words", dw))
			drainedOK = false
		}
	}
	if drainedOK {
		checkBatch(so.drained, "get")
	}
	// (4) lockstep: every party consumed exactly `need` words, so Get hands
	// out the snapshot words need .. need+dw-1
	used := make([]int, n)
	if cfg.mode == "snap" && drainedOK {
		for p := 0; p < n; p++ {
			used[p] = -1
			s, d := so.snaps[p], so.drained[p]
			// locate the first drained words in the snapshot, then compare the
			// whole overlap (a large Get runs past the snapshot into batches
			// generated later)
			probe := dw
			if probe > 4 {
				probe = 4
			}
			for k := 0; k+probe <= s.Words; k++ {
				m := true
				for i := 0; i < probe && m; i++ {
					m = s.A[k+i] == d.A[i] && s.B[k+i] == d.B[i] && s.C[k+i] == d.C[i]
				}
				if m {
					used[p] = k
					break
				}
			}
			ok := used[p] == need
			for i := 0; ok && i < dw && need+i < s.Words; i++ {
				ok = s.A[need+i] == d.A[i] && s.B[need+i] == d.B[i] && s.C[need+i] == d.C[i]
			}
			if !ok {
				o.Fail("c10-pool-lockstep", with(base, "party", p, "consumed_words", used[p], "want", need))
			}
			if need+dw > s.Words {
				o.Count("get_past_snapshot_refill")
			}
		}
		var us []string
		for _, u := range used {
			us = append(us, fmt.Sprint(u))
		}
		var res strings.Builder
		fmt.Fprintf(&res, "lv=%s;used=%s;w=", levelDigest(c), strings.Join(us, ","))
		for p := 0; p < n; p++ {
			if p > 0 {
				res.WriteByte(',')
			}
			res.WriteString(hxlib.BitsString(bitsOf(so.wires[p], c.NumWires)))
		}
		res.WriteString(";o=")
		for p := 0; p < n; p++ {
			if p > 0 {
				res.WriteByte(',')
			}
			res.WriteString(hxlib.BitsString(outBits(c, so.results[p])))
		}
		o.Op(runOp(cfg, so, need), res.String())
		o.Count("run_ops")
	}
	if len(o.Samples) < 4 {
		o.Sample(map[string]any{"prog": cfg.pc.name, "parties": n, "gates": c.NumGates, "and_batches": batches,
			"mode": cfg.mode, "elapsed_ms": so.elapsed.Milliseconds()})
	}
}

// outBits: the results re-packed as the circuit's output bits.
func outBits(c *circuit.Circuit, res []*big.Int) []bool {
	var b []bool
	var flat circuit.IO
	for _, io := range c.Outputs {
		if len(io.Compound) > 0 {
			flat = append(flat, io.Compound...)
		} else {
			flat = append(flat, io)
		}
	}
	for i, io := range flat {
		if i < len(res) && res[i] != nil {
			b = append(b, bitsOf(res[i], int(io.Type.Bits))...)
		}
	}
	return b
}

// runOp: `c10 run <sizes> <circuit> <x> <rnd> <pools>`; rnd p q (p != q) is the
// share of p's input observed on q's wires.
func runOp(cfg *sessCfg, so *sessOut, need int) string {
	c := cfg.pc.circ
	n := len(c.Inputs)
	var sizes, xs, rnd, pools []string
	ofs := make([]int, n+1)
	for p := 0; p < n; p++ {
		b := int(c.Inputs[p].Type.Bits)
		sizes = append(sizes, fmt.Sprint(b))
		xs = append(xs, hxlib.BitsString(bitsOf(cfg.inputs[p], b)))
		ofs[p+1] = ofs[p] + b
	}
	for p := 0; p < n; p++ {
		for q := 0; q < n; q++ {
			if p == q || so.wires[q] == nil {
				rnd = append(rnd, "-")
				continue
			}
			b := make([]bool, ofs[p+1]-ofs[p])
			for i := range b {
				b[i] = so.wires[q].Bit(ofs[p]+i) == 1
			}
			rnd = append(rnd, hxlib.BitsString(b))
		}
	}
	k := need + 2
	for p := 0; p < n; p++ {
		s := so.snaps[p]
		if s == nil {
			pools = append(pools, "-:-:-")
			continue
		}
		pools = append(pools, wordsHex(s.A, k)+":"+wordsHex(s.B, k)+":"+wordsHex(s.C, k))
	}
	if cfg.repr != nil {
		// integer inputs: per party `<width>:<signed decimal>;...` (Model/GmwInt.lean)
		return fmt.Sprintf("c10 runi %s %s %s %s %s", strings.Join(sizes, ","), hxlib.CircLine(c),
			reprSpecs(cfg.repr), strings.Join(rnd, ","), strings.Join(pools, ","))
	}
	return fmt.Sprintf("c10 run %s %s %s %s %s", strings.Join(sizes, ","), hxlib.CircLine(c),
		strings.Join(xs, ","), strings.Join(rnd, ","), strings.Join(pools, ","))
}

package main

import (
	"fmt"
	"os"
	"strings"
	"time"

	"github.com/markkurossi/mpc/compiler/ssa"

	"verifharness/hxlib"
)

func main() {
	b, _ := os.ReadFile(os.Args[1])
	g := strings.Split(os.Args[2], ",")
	e := strings.Split(os.Args[3], ",")
	sizes, _ := hxlib.StreamInputSizes(g, e)
	t0 := time.Now()
	sp, err := hxlib.CompileSSA(string(b), sizes)
	if err != nil {
		fmt.Println("ssa error", err)
		return
	}
	ngc := 0
	for _, s := range sp.Steps {
		if s.Instr.Op == ssa.GC {
			ngc++
		}
	}
	fmt.Printf("ssa: %d steps, %d gc, %v\n", len(sp.Steps), ngc, time.Since(t0))
	t0 = time.Now()
	d := hxlib.NewDuplex(nil)
	r := hxlib.RunStreamSession(string(b), g, e, nil, nil, d, 600*time.Second)
	fmt.Printf("stream: %s %s %v %v\n", r.Status(), hxlib.BigsString(r.GRes), r.GErr, time.Since(t0))
	t0 = time.Now()
	w := hxlib.StreamReference(string(b), g, e)
	fmt.Printf("whole : %s %v %v %v\n", hxlib.BigsString(w.Res), w.Err, w.Panic, time.Since(t0))
	fmt.Println("agree:", r.Status() == "ok" && hxlib.BigsString(r.GRes) == hxlib.BigsString(w.Res) && hxlib.BigsString(r.ERes) == hxlib.BigsString(w.Res))
}

package main

import (
	"bufio"
	"bytes"
	"encoding/binary"
	"fmt"
	"io"
	"regexp"
	"runtime/debug"
	"strconv"
	"strings"
	"time"

	"github.com/markkurossi/mpc/circuit"
	"github.com/markkurossi/mpc/types"
)

const sizeCap = 1000000

// ---------------------------------------------------------------- readers

// rdCfg describes the reader stack a parser is given: bufio buffer size
// (4096: the parser's own bufio.NewReader; larger: a pre-made bufio.Reader,
// which bufio.NewReader returns unchanged) and the underlying reader's
// read-size pattern (see Driver/C14.lean mkCfg).
type rdCfg struct{ bufSize, chunk, salt int }

func (c rdCfg) String() string { return fmt.Sprintf("%d %d %d", c.bufSize, c.chunk, c.salt) }

var stdRd = rdCfg{4096, 0, 0}

type chunkReader struct {
	data        []byte
	pos, k      int
	chunk, salt int
}

func (c *chunkReader) Read(p []byte) (int, error) {
	if len(p) == 0 {
		return 0, nil
	}
	if c.pos >= len(c.data) {
		return 0, io.EOF
	}
	req := len(p)
	o := req
	if c.chunk != 0 {
		if c.salt == 0 {
			o = c.chunk
		} else {
			o = 1 + (31*c.k+c.salt)%c.chunk
		}
	}
	n := o
	if n > req {
		n = req
	}
	if n < 1 {
		n = 1
	}
	if n > len(c.data)-c.pos {
		n = len(c.data) - c.pos
	}
	copy(p, c.data[c.pos:c.pos+n])
	c.pos += n
	c.k++
	return n, nil
}

func (c rdCfg) reader(data []byte) io.Reader {
	var under io.Reader
	if c.chunk == 0 {
		under = bytes.NewReader(data)
	} else {
		under = &chunkReader{data: data, chunk: c.chunk, salt: c.salt}
	}
	if c.bufSize > 4096 {
		return bufio.NewReaderSize(under, c.bufSize)
	}
	return under
}

// ---------------------------------------------------------------- sandbox

type outcome struct {
	class string // ok | error | panic | timeout
	c     *circuit.Circuit
	err   string
	pmsg  string
	site  string
}

var reFrame = regexp.MustCompile(`github\.com/markkurossi/mpc/([A-Za-z0-9_/]+)\.([A-Za-z0-9_.()*]+)\(`)

// sandbox runs one parser call with recover and a deadline.
func sandbox(f func() (*circuit.Circuit, error)) outcome {
	ch := make(chan outcome, 1)
	go func() {
		defer func() {
			if e := recover(); e != nil {
				st := string(debug.Stack())
				site := ""
				if m := reFrame.FindStringSubmatch(st); m != nil {
					site = m[1] + "." + m[2]
				}
				msg := fmt.Sprint(e)
				if len(msg) > 300 {
					msg = msg[:300]
				}
				ch <- outcome{class: "panic", pmsg: msg, site: site}
			}
		}()
		c, err := f()
		if err != nil {
			msg := err.Error()
			if len(msg) > 200 {
				msg = msg[:200]
			}
			ch <- outcome{class: "error", err: msg}
			return
		}
		ch <- outcome{class: "ok", c: c}
	}()
	select {
	case o := <-ch:
		return o
	case <-time.After(20 * time.Second):
		return outcome{class: "timeout"}
	}
}

func (o outcome) line() string {
	if o.class == "ok" {
		return circDump(o.c)
	}
	return o.class
}

// ---------------------------------------------------------------- scope guard

// The property covers files "whose declared sizes are at most a million".
// oversizeMPCLC walks the header and the I/O section exactly as ParseMPCLC
// does (real bufio.Reader over the same reader, real types.Parse), and reports
// whether a count/size/length field above the cap is read before the walk
// stops.  Such a file is not offered to the real parser.  fullStr: parseString
// reads with io.ReadFull (detected by probe; true since a93bbfc, the old code used r.Read).
func oversizeMPCLC(in io.Reader, fullStr bool) bool {
	r := bufio.NewReader(in)
	var h [5]uint32
	if err := binary.Read(r, binary.BigEndian, &h); err != nil {
		return false
	}
	for _, v := range h[1:] {
		if v > sizeCap {
			return true
		}
	}
	for i := 0; i < int(h[3])+int(h[4]); i++ {
		over, ok := oversizeArg(r, fullStr)
		if over {
			return true
		}
		if !ok {
			return false
		}
	}
	return false
}

func scanString(r *bufio.Reader, fullStr bool) (s string, over, ok bool) {
	var n uint32
	if err := binary.Read(r, binary.BigEndian, &n); err != nil {
		return "", false, false
	}
	if n > sizeCap {
		return "", true, false
	}
	if n == 0 {
		return "", false, true
	}
	buf := make([]byte, n)
	var err error
	if fullStr {
		_, err = io.ReadFull(r, buf)
	} else {
		_, err = r.Read(buf)
	}
	if err != nil {
		return "", false, false
	}
	return string(buf), false, true
}

func oversizeArg(r *bufio.Reader, fullStr bool) (over, ok bool) {
	if _, over, ok = scanString(r, fullStr); over || !ok {
		return
	}
	var t string
	if t, over, ok = scanString(r, fullStr); over || !ok {
		return
	}
	var v uint32
	if err := binary.Read(r, binary.BigEndian, &v); err != nil {
		return false, false
	}
	if v > sizeCap {
		return true, false
	}
	if !typeParseOK(t) {
		return false, false
	}
	if err := binary.Read(r, binary.BigEndian, &v); err != nil {
		return false, false
	}
	if v > sizeCap {
		return true, false
	}
	for i := 0; i < int(v); i++ {
		if over, ok = oversizeArg(r, fullStr); over || !ok {
			return
		}
	}
	return false, true
}

func typeParseOK(t string) (ok bool) {
	defer func() {
		if recover() != nil {
			ok = true // let the real parser show the panic
		}
	}()
	_, err := types.Parse(t)
	return err == nil
}

// oversizeBristol: the first non-blank line's two numbers.
func oversizeBristol(data []byte) bool {
	r := bufio.NewReader(bytes.NewReader(data))
	for {
		line, err := r.ReadString('\n')
		if err != nil {
			return false
		}
		line = strings.TrimSpace(line)
		if len(line) == 0 {
			continue
		}
		parts := strings.FieldsFunc(line, func(c rune) bool {
			return c == ' ' || c == '\t' || c == '\n' || c == '\v' || c == '\f' || c == '\r'
		})
		if len(parts) != 2 {
			return false
		}
		a, err := strconv.Atoi(parts[0])
		if err != nil || a < 0 || a > 2147483647 {
			return false
		}
		if a > sizeCap {
			return true
		}
		b, err := strconv.Atoi(parts[1])
		if err != nil || b < 0 || b > 2147483647 {
			return false
		}
		return b > sizeCap
	}
}

// ---------------------------------------------------------------- oracles

// wellFormed re-checks, independently of the parser, what the property
// demands of a returned circuit: every gate input is an input wire or the
// output of an earlier gate, indices in range, every wire assigned, as many
// gates as declared.
func wellFormed(c *circuit.Circuit) string {
	if c == nil {
		return "nil circuit"
	}
	if c.NumWires < 0 || c.NumGates != len(c.Gates) {
		return fmt.Sprintf("NumGates=%d len(Gates)=%d", c.NumGates, len(c.Gates))
	}
	def := make([]bool, c.NumWires)
	nin := c.Inputs.Size()
	if nin > c.NumWires {
		return fmt.Sprintf("input bits %d > wires %d", nin, c.NumWires)
	}
	for i := 0; i < nin; i++ {
		def[i] = true
	}
	for i, g := range c.Gates {
		if g.Op > circuit.INV {
			return fmt.Sprintf("gate %d: op %d", i, g.Op)
		}
		if int(g.Input0) >= c.NumWires || !def[g.Input0] {
			return fmt.Sprintf("gate %d: input0 %d undefined", i, g.Input0)
		}
		if g.Op != circuit.INV && (int(g.Input1) >= c.NumWires || !def[g.Input1]) {
			return fmt.Sprintf("gate %d: input1 %d undefined", i, g.Input1)
		}
		if int(g.Output) >= c.NumWires {
			return fmt.Sprintf("gate %d: output %d out of range", i, g.Output)
		}
		def[g.Output] = true
	}
	for i, d := range def {
		if !d {
			return fmt.Sprintf("wire %d not assigned", i)
		}
	}
	return ""
}

func sameArg(a, b circuit.IOArg, native bool) string {
	if a.Type.Bits != b.Type.Bits {
		return fmt.Sprintf("bits %d != %d", a.Type.Bits, b.Type.Bits)
	}
	if !native {
		return ""
	}
	if a.Name != b.Name {
		return fmt.Sprintf("name %q != %q", a.Name, b.Name)
	}
	if a.Type.String() != b.Type.String() {
		return fmt.Sprintf("type %q != %q", a.Type.String(), b.Type.String())
	}
	if len(a.Compound) != len(b.Compound) {
		return fmt.Sprintf("compound %d != %d", len(a.Compound), len(b.Compound))
	}
	for i := range a.Compound {
		if d := sameArg(a.Compound[i], b.Compound[i], native); d != "" {
			return fmt.Sprintf("%s.%d: %s", a.Name, i, d)
		}
	}
	return ""
}

// sameCircuit compares what the property lists: gates, wire and gate counts,
// I/O signature (names, types, sizes, compound members for the native format;
// sizes only for Bristol).
func sameCircuit(a, b *circuit.Circuit, native bool) string {
	if a.NumGates != b.NumGates || a.NumWires != b.NumWires {
		return fmt.Sprintf("counts %d/%d != %d/%d", a.NumGates, a.NumWires, b.NumGates, b.NumWires)
	}
	if len(a.Gates) != len(b.Gates) {
		return fmt.Sprintf("len(Gates) %d != %d", len(a.Gates), len(b.Gates))
	}
	for i := range a.Gates {
		x, y := a.Gates[i], b.Gates[i]
		if x.Op != y.Op || x.Input0 != y.Input0 || x.Output != y.Output || (x.Op != circuit.INV && x.Input1 != y.Input1) {
			return fmt.Sprintf("gate %d: %v != %v", i, x, y)
		}
	}
	if len(a.Inputs) != len(b.Inputs) || len(a.Outputs) != len(b.Outputs) {
		return fmt.Sprintf("io counts %d/%d != %d/%d", len(a.Inputs), len(a.Outputs), len(b.Inputs), len(b.Outputs))
	}
	for i := range a.Inputs {
		if d := sameArg(a.Inputs[i], b.Inputs[i], native); d != "" {
			return fmt.Sprintf("input %d: %s", i, d)
		}
	}
	for i := range a.Outputs {
		if d := sameArg(a.Outputs[i], b.Outputs[i], native); d != "" {
			return fmt.Sprintf("output %d: %s", i, d)
		}
	}
	return ""
}

var rePanicIdx = regexp.MustCompile(`index out of range \[(\d+)\] with length (\d+)`)

// panicClass names the panic the code had before 7309cfb (status fixed in
// known_findings.json, so it is reported like any other): the store
// gates[gate] with gate == len(gates) == header.NumGates in ParseMPCLC.
func panicClass(o outcome, data []byte) string {
	m := rePanicIdx.FindStringSubmatch(o.pmsg)
	if m != nil && m[1] == m[2] && strings.HasSuffix(o.site, "circuit.ParseMPCLC") && len(data) >= 8 {
		if strconv.Itoa(int(binary.BigEndian.Uint32(data[4:8]))) == m[2] {
			return "gates-index-at-numgates"
		}
	}
	return "other"
}

package main

import (
	"bufio"
	"bytes"
	"encoding/hex"
	"fmt"
	"os"
	"os/exec"
	"strings"
	"syscall"
	"time"

	"github.com/markkurossi/mpc/circuit"
)

// The scope guard (oversizeMPCLC) mirrors the parser of the pinned tree.
// When the code under test differs (a mutated or repaired parser) a file may
// make the real parser allocate gigabytes or spin in a regexp.  Every parser
// call is therefore first made in a child process ("canary") with an address
// space limit and a deadline; only a call that returned there is repeated
// in-process (where its result is inspected).  A canary that dies or does not
// answer is an oracle failure (crash / hang) with the file as replay.

const canaryDeadline = 8 * time.Second
const canaryMaxStrikes = 4

type canary struct {
	cmd     *exec.Cmd
	in      *bufio.Writer
	lines   chan string
	strikes int
}

func (c *canary) start() error {
	c.cmd = exec.Command(os.Args[0], "canary-worker")
	c.cmd.Stderr = nil
	w, err := c.cmd.StdinPipe()
	if err != nil {
		return err
	}
	r, err := c.cmd.StdoutPipe()
	if err != nil {
		return err
	}
	if err := c.cmd.Start(); err != nil {
		return err
	}
	c.in = bufio.NewWriterSize(w, 1<<16)
	lines := make(chan string, 1)
	c.lines = lines
	go func() {
		sc := bufio.NewReader(r)
		for {
			l, err := sc.ReadString('\n')
			if err != nil {
				close(lines)
				return
			}
			lines <- l
		}
	}()
	return nil
}

func (c *canary) stop() {
	if c.cmd != nil && c.cmd.Process != nil {
		c.cmd.Process.Kill()
		c.cmd.Wait()
	}
	c.cmd = nil
}

// try runs one parser call in the child; returns "done", "hang" or "crash".
func (c *canary) try(kind string, rd rdCfg, data []byte) string {
	if c.strikes >= canaryMaxStrikes {
		return "skipped"
	}
	if c.cmd == nil {
		if err := c.start(); err != nil {
			return "done" // no canary available: run unprotected
		}
	}
	fmt.Fprintf(c.in, "%s %d %d %d %s\n", kind, rd.bufSize, rd.chunk, rd.salt, hexOf(data))
	c.in.Flush()
	select {
	case l, ok := <-c.lines:
		if !ok || !strings.HasPrefix(l, "done") {
			c.stop()
			c.strikes++
			return "crash"
		}
		return "done"
	case <-time.After(canaryDeadline):
		c.stop()
		c.strikes++
		return "hang"
	}
}

// canaryWorker: the child.  One request per line, answers "done <class>".
func canaryWorker() int {
	// address space limit: a runaway allocation ends the child, not the host
	lim := syscall.Rlimit{Cur: 6 << 30, Max: 6 << 30}
	syscall.Setrlimit(syscall.RLIMIT_AS, &lim)
	in := bufio.NewReaderSize(os.Stdin, 1<<20)
	out := bufio.NewWriter(os.Stdout)
	for {
		line, err := in.ReadString('\n')
		if err != nil {
			return 0
		}
		f := strings.Fields(line)
		if len(f) != 5 {
			return 2
		}
		var rd rdCfg
		fmt.Sscan(f[1], &rd.bufSize)
		fmt.Sscan(f[2], &rd.chunk)
		fmt.Sscan(f[3], &rd.salt)
		var data []byte
		if f[4] != "-" {
			data, _ = hex.DecodeString(f[4])
		}
		class := "?"
		func() {
			defer func() {
				if recover() != nil {
					class = "panic"
				}
			}()
			var err error
			if f[0] == "pm" {
				_, err = circuit.ParseMPCLC(rd.reader(data))
			} else {
				_, err = circuit.ParseBristol(bytes.NewReader(data))
			}
			if err != nil {
				class = "error"
			} else {
				class = "ok"
			}
		}()
		fmt.Fprintf(out, "done %s\n", class)
		out.Flush()
	}
}

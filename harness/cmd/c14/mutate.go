package main

import (
	"bytes"
	"encoding/binary"
	"fmt"
	"strings"

	"github.com/markkurossi/mpc/circuit"

	"verifharness/hxlib"
)

// ---------------------------------------------------------------- native format: field map

type field struct {
	off  int
	kind string // hdr-ng hdr-nw hdr-ni hdr-no magic strlen str bits ncomp op in0 in1 out
}

type fieldEnc struct {
	buf    bytes.Buffer
	fields []field
}

func (e *fieldEnc) u32(kind string, v uint32) {
	e.fields = append(e.fields, field{e.buf.Len(), kind})
	var b [4]byte
	binary.BigEndian.PutUint32(b[:], v)
	e.buf.Write(b[:])
}

func (e *fieldEnc) str(s string) {
	e.u32("strlen", uint32(len(s)))
	if len(s) > 0 {
		e.fields = append(e.fields, field{e.buf.Len(), "str"})
	}
	e.buf.WriteString(s)
}

func (e *fieldEnc) arg(a circuit.IOArg) {
	e.str(a.Name)
	e.str(a.Type.String())
	e.u32("bits", uint32(a.Type.Bits))
	e.u32("ncomp", uint32(len(a.Compound)))
	for _, c := range a.Compound {
		e.arg(c)
	}
}

// encodeFields is the harness's own writer of the native format; it exists
// only to know where the fields are (the bytes are compared with Marshal's).
func encodeFields(c *circuit.Circuit) ([]byte, []field) {
	e := &fieldEnc{}
	e.u32("magic", circuit.MAGIC)
	e.u32("hdr-ng", uint32(c.NumGates))
	e.u32("hdr-nw", uint32(c.NumWires))
	e.u32("hdr-ni", uint32(len(c.Inputs)))
	e.u32("hdr-no", uint32(len(c.Outputs)))
	for _, a := range c.Inputs {
		e.arg(a)
	}
	for _, a := range c.Outputs {
		e.arg(a)
	}
	for _, g := range c.Gates {
		e.fields = append(e.fields, field{e.buf.Len(), "op"})
		e.buf.WriteByte(byte(g.Op))
		e.u32("in0", uint32(g.Input0))
		if g.Op != circuit.INV {
			e.u32("in1", uint32(g.Input1))
		}
		e.u32("out", uint32(g.Output))
	}
	return e.buf.Bytes(), e.fields
}

func put32(b []byte, off int, v uint32) {
	if off >= 0 && off+4 <= len(b) {
		binary.BigEndian.PutUint32(b[off:], v)
	}
}

func get32(b []byte, off int) uint32 {
	if off >= 0 && off+4 <= len(b) {
		return binary.BigEndian.Uint32(b[off:])
	}
	return 0
}

func gateRecord(op byte, in0, in1, out uint32) []byte {
	b := []byte{op}
	var x [4]byte
	binary.BigEndian.PutUint32(x[:], in0)
	b = append(b, x[:]...)
	if op != byte(circuit.INV) {
		binary.BigEndian.PutUint32(x[:], in1)
		b = append(b, x[:]...)
	}
	binary.BigEndian.PutUint32(x[:], out)
	return append(b, x[:]...)
}

func interesting32(r *hxlib.Rng, old uint32, nw int) uint32 {
	switch r.Intn(14) {
	case 0:
		return 0
	case 1:
		return 1
	case 2:
		return old + 1
	case 3:
		return old - 1
	case 4:
		return uint32(nw)
	case 5:
		return uint32(nw) - 1
	case 6:
		return uint32(nw) + 1
	case 7:
		return sizeCap
	case 8:
		return []uint32{sizeCap + 1, 1 << 31, 1<<31 - 1, 1<<32 - 1, 1 << 24}[r.Intn(5)]
	case 9:
		return []uint32{1 << 16, 4095, 4096, 4097, 255, 256}[r.Intn(6)]
	case 10:
		return old * 2
	default:
		return uint32(r.Intn(40))
	}
}

var typeTexts = []string{"u8", "uint8", "i32", "b", "bool", "byte", "rune", "s", "string16", "struct", "struct12",
	"[2]u4", "[]u8", "[3][2]b", "[0]int7", "xx9x\nu8", "[2]\ni4", "9\n[2]i4", "zz\n[3]u8", "float32", "*u8", "u",
	"uint2147483648", "[4294967296]u1", "[100000][100000]u100000", "u8\n", "", "[3]", "U8", "u 8", "u8\x00", "int٣"}

// mutateMPCLC applies one mutation to a valid native file.
func mutateMPCLC(r *hxlib.Rng, data []byte, fs []field, c *circuit.Circuit) ([]byte, string) {
	d := append([]byte(nil), data...)
	pick := func(kinds ...string) int {
		var idx []int
		for i, f := range fs {
			for _, k := range kinds {
				if f.kind == k {
					idx = append(idx, i)
				}
			}
		}
		if len(idx) == 0 {
			return -1
		}
		return idx[r.Intn(len(idx))]
	}
	nw := c.NumWires
	switch r.Intn(20) {
	case 0: // truncate anywhere
		if len(d) > 0 {
			return d[:r.Intn(len(d))], "truncate-any"
		}
	case 1: // truncate at / next to a field boundary
		if len(fs) > 0 {
			off := fs[r.Intn(len(fs))].off + r.Intn(3) - 1
			if off >= 0 && off <= len(d) {
				return d[:off], "truncate-field"
			}
		}
	case 2: // extend by a valid extra gate record (more records than declared)
		in0 := uint32(r.Intn(max(1, c.Inputs.Size())))
		op := byte(r.Intn(5))
		out := uint32(r.Intn(max(1, nw)))
		return append(d, gateRecord(op, in0, in0, out)...), "extend-valid-gate"
	case 3: // extend by a copy of the last gate record
		if i := lastOp(fs); i >= 0 {
			return append(d, d[fs[i].off:]...), "extend-dup-last"
		}
	case 4: // extend by random bytes
		return append(d, r.Bytes(1+r.Intn(20))...), "extend-random"
	case 5: // extend by a record with a fresh wire and adjust the header to match
		in0 := uint32(r.Intn(max(1, c.Inputs.Size())))
		d = append(d, gateRecord(byte(r.Intn(5)), in0, in0, uint32(nw))...)
		put32(d, 4, uint32(c.NumGates+1))
		if r.Intn(4) != 0 {
			put32(d, 8, uint32(nw+1))
		}
		return d, "extend-consistent"
	case 6, 7: // bit flip
		if len(d) > 0 {
			p := r.Intn(len(d))
			bit := r.Intn(8)
			if r.Bool() && len(fs) > 0 {
				// inside a field, biased to the low-order bytes (a flip in the
				// top bytes of a count only makes the file oversize)
				k := []int{0, 1, 2, 2, 3, 3, 3, 3}[r.Intn(8)]
				p = min(len(d)-1, fs[r.Intn(len(fs))].off+k)
				if k == 1 {
					bit = r.Intn(4)
				}
			}
			d[p] ^= 1 << bit
			return d, "bitflip"
		}
	case 8, 9: // splice a header / count field
		if i := pick("hdr-ng", "hdr-nw", "hdr-ni", "hdr-no", "strlen", "bits", "ncomp", "magic"); i >= 0 {
			put32(d, fs[i].off, interesting32(r, get32(d, fs[i].off), nw))
			return d, "splice-" + fs[i].kind
		}
	case 10, 11: // splice a wire field of a gate
		if i := pick("in0", "in1", "out"); i >= 0 {
			v := interesting32(r, get32(d, fs[i].off), nw)
			if r.Bool() {
				v = uint32(r.Intn(max(1, nw)))
			}
			put32(d, fs[i].off, v)
			return d, "splice-" + fs[i].kind
		}
	case 12: // change an op code
		if i := pick("op"); i >= 0 {
			d[fs[i].off] = byte(r.Intn(7))
			return d, "splice-op"
		}
	case 13: // delete a gate record
		if i := pick("op"); i >= 0 {
			end := len(d)
			for _, f := range fs[i+1:] {
				if f.kind == "op" {
					end = f.off
					break
				}
			}
			out := append(d[:fs[i].off:fs[i].off], d[end:]...)
			if r.Bool() {
				put32(out, 4, uint32(c.NumGates-1))
			}
			return out, "delete-gate"
		}
	case 14: // swap two gate records of equal length
		i, j := pick("op"), pick("op")
		if i >= 0 && j >= 0 && i != j {
			li, lj := recLen(d[fs[i].off]), recLen(d[fs[j].off])
			if li == lj && fs[i].off+li <= len(d) && fs[j].off+lj <= len(d) {
				tmp := append([]byte(nil), d[fs[i].off:fs[i].off+li]...)
				copy(d[fs[i].off:], d[fs[j].off:fs[j].off+lj])
				copy(d[fs[j].off:], tmp)
				return d, "swap-gates"
			}
		}
	case 15: // replace a string (name or type text), length field adjusted
		if i := pick("strlen"); i >= 0 {
			old := int(get32(d, fs[i].off))
			var s string
			if r.Bool() {
				s = typeTexts[r.Intn(len(typeTexts))]
			} else {
				s = genName(r)
			}
			var out []byte
			out = append(out, d[:fs[i].off]...)
			var l [4]byte
			binary.BigEndian.PutUint32(l[:], uint32(len(s)))
			out = append(out, l[:]...)
			out = append(out, s...)
			if fs[i].off+4+old <= len(d) {
				out = append(out, d[fs[i].off+4+old:]...)
			}
			return out, "replace-string"
		}
	case 16: // string length off by a little, bytes unchanged
		if i := pick("strlen"); i >= 0 {
			put32(d, fs[i].off, uint32(int(get32(d, fs[i].off))+r.Intn(5)-2))
			return d, "strlen-shift"
		}
	case 17: // delete or insert a few bytes
		if len(d) > 2 {
			p := r.Intn(len(d))
			n := 1 + r.Intn(4)
			if r.Bool() {
				return append(d[:p:p], d[min(len(d), p+n):]...), "delete-bytes"
			}
			out := append([]byte(nil), d[:p]...)
			out = append(out, r.Bytes(n)...)
			return append(out, d[p:]...), "insert-bytes"
		}
	case 18: // header says one more wire than is assigned / one gate more
		if r.Bool() {
			put32(d, 8, uint32(nw+1))
			return d, "hdr-nw+1"
		}
		put32(d, 4, uint32(c.NumGates+1))
		return d, "hdr-ng+1"
	case 19: // zero gates declared, records present
		put32(d, 4, 0)
		return d, "hdr-ng=0"
	}
	return d, "none"
}

func recLen(op byte) int {
	if op == byte(circuit.INV) {
		return 9
	}
	return 13
}

func lastOp(fs []field) int {
	for i := len(fs) - 1; i >= 0; i-- {
		if fs[i].kind == "op" {
			return i
		}
	}
	return -1
}

// ---------------------------------------------------------------- Bristol text

var numTexts = []string{"0", "1", "2", "3", "-1", "+1", "+0", "-0", "00", "007", "1_0", "0x10", "1e3", "", "٣",
	"1000000", "1000001", "2147483647", "2147483648", "4294967295", "4294967296", "9223372036854775807",
	"9223372036854775808", "-9223372036854775808", "99999999999999999999999", "0000000000000000000000001"}

var opTexts = []string{"XOR", "XNOR", "AND", "OR", "INV", "xor", "NOT", "EQ", "EQW", "MAND", "INV ", "", "XORX"}

var spaceTexts = []string{" ", "  ", "\t", "\r", "\v", "\f", " \t ", "\u0085", "\u00a0", "\u1680", "\u2000",
	"\u2005", "\u200a", "\u2028", "\u2029", "\u202f", "\u205f", "\u3000", "\u200b", "\u180e", "\u2060",
	"\xc2", "\xe2\x80", "\x00", "\xa0", "\x85", "\xe2\x80\x8b", "\xe3\x80", "\xe1\x9a"}

// mutateBristol applies one mutation to a valid Bristol text.
func mutateBristol(r *hxlib.Rng, data []byte) ([]byte, string) {
	text := string(data)
	lines := strings.Split(text, "\n") // last element is "" (text ends in \n)
	pickLine := func() int {
		var idx []int
		for i, l := range lines {
			if len(l) > 0 {
				idx = append(idx, i)
			}
		}
		if len(idx) == 0 {
			return -1
		}
		if r.Intn(3) == 0 {
			return idx[r.Intn(min(3, len(idx)))] // header lines
		}
		return idx[r.Intn(len(idx))]
	}
	join := func() []byte { return []byte(strings.Join(lines, "\n")) }
	switch r.Intn(16) {
	case 0: // truncate
		if len(data) > 0 {
			return data[:r.Intn(len(data))], "truncate-any"
		}
	case 1: // drop the final newline
		if len(data) > 0 {
			return data[:len(data)-1], "no-final-newline"
		}
	case 2, 3, 4: // replace one token by a number text
		if i := pickLine(); i >= 0 {
			toks := strings.Split(lines[i], " ")
			j := r.Intn(len(toks))
			if r.Intn(3) == 0 {
				toks[j] = fmt.Sprint(r.Intn(12))
			} else {
				toks[j] = numTexts[r.Intn(len(numTexts))]
			}
			lines[i] = strings.Join(toks, " ")
			return join(), "token-number"
		}
	case 5: // replace the operation name
		if i := pickLine(); i >= 0 {
			toks := strings.Split(lines[i], " ")
			toks[len(toks)-1] = opTexts[r.Intn(len(opTexts))]
			lines[i] = strings.Join(toks, " ")
			return join(), "token-op"
		}
	case 6: // white space variants between / around tokens
		if i := pickLine(); i >= 0 {
			s := spaceTexts[r.Intn(len(spaceTexts))]
			switch r.Intn(3) {
			case 0:
				lines[i] = s + lines[i]
			case 1:
				lines[i] = lines[i] + s
			default:
				lines[i] = strings.Replace(lines[i], " ", s, 1+r.Intn(2))
			}
			return join(), "space-variant"
		}
	case 7: // duplicate a line (more gates than declared, or header shift)
		if i := pickLine(); i >= 0 {
			lines = append(lines[:i+1], append([]string{lines[i]}, lines[i+1:]...)...)
			return join(), "dup-line"
		}
	case 8: // delete a line
		if i := pickLine(); i >= 0 {
			lines = append(lines[:i], lines[i+1:]...)
			return join(), "delete-line"
		}
	case 9: // insert / delete a token
		if i := pickLine(); i >= 0 {
			toks := strings.Split(lines[i], " ")
			j := r.Intn(len(toks))
			if r.Bool() && len(toks) > 1 {
				toks = append(toks[:j], toks[j+1:]...)
			} else {
				toks = append(toks[:j], append([]string{fmt.Sprint(r.Intn(6))}, toks[j:]...)...)
			}
			lines[i] = strings.Join(toks, " ")
			return join(), "token-count"
		}
	case 10: // blank lines and \r\n line ends
		if r.Bool() {
			return []byte(strings.ReplaceAll(text, "\n", "\r\n")), "crlf"
		}
		if i := pickLine(); i >= 0 {
			lines = append(lines[:i], append([]string{spaceTexts[r.Intn(len(spaceTexts))]}, lines[i:]...)...)
			return join(), "blank-line"
		}
	case 11: // bit flip
		if len(data) > 0 {
			d := append([]byte(nil), data...)
			d[r.Intn(len(d))] ^= 1 << r.Intn(8)
			return d, "bitflip"
		}
	case 12: // append an extra valid gate line
		return append(append([]byte(nil), data...), []byte("2 1 0 0 0 XOR\n")...), "extend-valid-gate"
	case 13: // append junk
		return append(append([]byte(nil), data...), r.Bytes(1+r.Intn(12))...), "extend-random"
	case 14: // swap two gate lines
		i, j := pickLine(), pickLine()
		if i >= 3 && j >= 3 {
			lines[i], lines[j] = lines[j], lines[i]
			return join(), "swap-lines"
		}
	case 15: // multi-output / multi-input gate shapes
		if i := pickLine(); i >= 0 {
			lines[i] = []string{"1 2 0 1 2 INV", "3 1 0 0 0 1 AND", "0 1 1 INV", "2 0 0 1 XOR", "1 1 0 INV", "2 1 0 1"}[r.Intn(6)]
			return join(), "gate-shape"
		}
	}
	return data, "none"
}

package main

import (
	"fmt"
	"strings"

	"github.com/markkurossi/mpc/circuit"
	"github.com/markkurossi/mpc/types"

	"verifharness/hxlib"
)

// ---------------------------------------------------------------- types

// genInfo builds a random types.Info.  inGrammar restricts it to the I/O type
// grammar that types.Parse understands (bool/int/uint/string/struct with a
// size, unsized bool/int/uint/string, arrays and slices of those).
func genInfo(r *hxlib.Rng, depth int, inGrammar bool) types.Info {
	k := r.Intn(12)
	if depth <= 0 && k >= 8 {
		k = r.Intn(8)
	}
	if !inGrammar && r.Intn(3) == 0 {
		// out-of-grammar shapes
		switch r.Intn(6) {
		case 0:
			return types.Info{Type: types.TFloat, IsConcrete: true, Bits: types.Size(32 << r.Intn(2))}
		case 1:
			e := genInfo(r, depth-1, true)
			return types.Info{Type: types.TPtr, IsConcrete: true, Bits: e.Bits, ElementType: &e}
		case 2:
			return types.Info{Type: types.TNil, IsConcrete: r.Bool()}
		case 3:
			return types.Info{Type: types.TUndefined, IsConcrete: r.Bool(), Bits: types.Size(r.Intn(3))}
		case 4:
			// struct with a non-concrete field: String() gives "struct"
			return types.Info{Type: types.TStruct, IsConcrete: true, Bits: types.Size(r.Intn(70)),
				Struct: []types.StructField{{Name: "f", Type: types.Info{Type: types.TUint}}}}
		default:
			return types.Info{Type: types.TFloat, IsConcrete: false}
		}
	}
	bits := types.Size(genBits(r))
	switch k {
	case 0:
		return types.Info{Type: types.TBool, IsConcrete: true, Bits: 1, MinBits: 1}
	case 1, 2:
		return types.Info{Type: types.TInt, IsConcrete: true, Bits: bits, MinBits: bits}
	case 3, 4:
		return types.Info{Type: types.TUint, IsConcrete: true, Bits: bits, MinBits: bits}
	case 5:
		return types.Info{Type: types.TString, IsConcrete: true, Bits: bits * 8}
	case 6:
		// struct, all fields concrete (or none)
		var fs []types.StructField
		for i := r.Intn(3); i > 0; i-- {
			fs = append(fs, types.StructField{Name: fmt.Sprintf("f%d", i),
				Type: types.Info{Type: types.TUint, IsConcrete: true, Bits: 4}})
		}
		return types.Info{Type: types.TStruct, IsConcrete: r.Bool(), Bits: bits, Struct: fs}
	case 7:
		// unsized
		// ("bool" parses to the sized bool1, so unsized bool is not in the grammar)
		t := []types.Type{types.TInt, types.TUint, types.TString, types.TBool}[r.Intn(3+b2i(!inGrammar))]
		return types.Info{Type: t, IsConcrete: false, Bits: types.Size(r.Intn(2)) * bits}
	case 8, 9, 10:
		e := genInfo(r, depth-1, inGrammar)
		n := types.Size([]int{0, 1, 2, 3, 7, 16, 100, 65536}[r.Intn(8)])
		return types.Info{Type: types.TArray, IsConcrete: true, Bits: n * e.Bits, MinBits: n * e.Bits,
			ElementType: &e, ArraySize: n}
	default:
		e := genInfo(r, depth-1, inGrammar)
		n := types.Size(r.Intn(5))
		return types.Info{Type: types.TSlice, IsConcrete: true, Bits: n * e.Bits, ElementType: &e, ArraySize: n}
	}
}

func genBits(r *hxlib.Rng) int {
	switch r.Intn(8) {
	case 0:
		return 0
	case 1:
		return 1
	case 2:
		return []int{7, 8, 9, 31, 32, 33, 63, 64, 65, 127, 128, 256, 512}[r.Intn(13)]
	case 3:
		return []int{999999, 1000000, 65535, 65536, 4095, 4096}[r.Intn(6)]
	default:
		return 1 + r.Intn(64)
	}
}

// infoTokens renders a types.Info as the model's type tokens.
func infoTokens(sb *strings.Builder, i types.Info) {
	switch i.Type {
	case types.TArray:
		fmt.Fprintf(sb, "a:%d:%d ", i.ArraySize, i.Bits)
		infoTokens(sb, *i.ElementType)
	case types.TSlice:
		fmt.Fprintf(sb, "s:%d:%d ", i.ArraySize, i.Bits)
		infoTokens(sb, *i.ElementType)
	case types.TPtr:
		fmt.Fprintf(sb, "p:%d ", i.Bits)
		infoTokens(sb, *i.ElementType)
	default:
		fmt.Fprintf(sb, "b:%d:%s:%d ", int(i.Type), b01(i.Concrete()), i.Bits)
	}
}

func b2i(b bool) int {
	if b {
		return 1
	}
	return 0
}

func b01(b bool) string {
	if b {
		return "1"
	}
	return "0"
}

// infoDump is the canonical dump of a (parsed) types.Info.
func infoDump(sb *strings.Builder, i types.Info) {
	switch i.Type {
	case types.TArray, types.TSlice:
		l := "a"
		if i.Type == types.TSlice {
			l = "s"
		}
		fmt.Fprintf(sb, "%s%d.%d(", l, i.ArraySize, i.Bits)
		if i.ElementType != nil {
			infoDump(sb, *i.ElementType)
		} else {
			sb.WriteString("nil")
		}
		sb.WriteString(")")
	case types.TPtr:
		fmt.Fprintf(sb, "p%d(", i.Bits)
		if i.ElementType != nil {
			infoDump(sb, *i.ElementType)
		} else {
			sb.WriteString("nil")
		}
		sb.WriteString(")")
	default:
		fmt.Fprintf(sb, "b%d.%s.%d", int(i.Type), b01(i.Concrete()), i.Bits)
	}
}

func hexOf(b []byte) string {
	if len(b) == 0 {
		return "-"
	}
	return hxlib.Hex(b)
}

// ---------------------------------------------------------------- I/O args

var nameAlphabet = "abcxyzABC_09%{},.$"

func genName(r *hxlib.Rng) string {
	switch r.Intn(10) {
	case 0, 1:
		return ""
	case 2:
		// arbitrary bytes, NUL and high bytes included
		return string(r.Bytes(1 + r.Intn(12)))
	case 3:
		return strings.Repeat("n", []int{15, 16, 17, 100, 255, 256}[r.Intn(6)])
	case 4:
		return "%ret0{1,0}u8"
	default:
		n := 1 + r.Intn(8)
		b := make([]byte, n)
		for i := range b {
			b[i] = nameAlphabet[r.Intn(len(nameAlphabet))]
		}
		return string(b)
	}
}

// genArg builds one IOArg with the given size in bits.
func genArg(r *hxlib.Rng, bits int, depth int, inGrammar bool) circuit.IOArg {
	a := circuit.IOArg{Name: genName(r)}
	switch r.Intn(8) {
	case 0, 1, 2:
		a.Type = types.Info{Type: types.TUint, IsConcrete: true, Bits: types.Size(bits), MinBits: types.Size(bits)}
	case 3:
		a.Type = types.Info{Type: types.TInt, IsConcrete: true, Bits: types.Size(bits), MinBits: types.Size(bits)}
	case 4:
		// struct with compound members (as ast.flattenStruct produces, but
		// also nested, which the format allows)
		a.Type = types.Info{Type: types.TStruct, IsConcrete: true, Bits: types.Size(bits)}
		left := bits
		nm := 1 + r.Intn(4)
		for i := 0; i < nm && depth > 0; i++ {
			b := left
			if i < nm-1 {
				b = r.Intn(left + 1)
			}
			left -= b
			a.Compound = append(a.Compound, genArg(r, b, depth-1, inGrammar))
		}
	case 5:
		// array whose size matches when possible
		e := types.Info{Type: types.TUint, IsConcrete: true, Bits: 8, MinBits: 8}
		if bits%8 != 0 {
			e.Bits, e.MinBits = 1, 1
			e.Type = types.TBool
		}
		n := types.Size(bits) / e.Bits
		a.Type = types.Info{Type: types.TArray, IsConcrete: true, Bits: types.Size(bits), ElementType: &e, ArraySize: n}
	default:
		a.Type = genInfo(r, 2, inGrammar)
		a.Type.Bits = types.Size(bits)
	}
	return a
}

// split divides total into k non-negative parts.
func split(r *hxlib.Rng, total, k int) []int {
	parts := make([]int, k)
	left := total
	for i := 0; i < k; i++ {
		if i == k-1 {
			parts[i] = left
		} else {
			parts[i] = r.Intn(left + 1)
			if r.Intn(3) == 0 {
				parts[i] = left / (k - i)
			}
		}
		left -= parts[i]
	}
	return parts
}

// reshapeIO replaces the I/O signature of a generated circuit by a random
// one with the same total sizes.
func reshapeIO(r *hxlib.Rng, c *circuit.Circuit, inGrammar bool) {
	nin, nout := c.Inputs.Size(), c.Outputs.Size()
	c.Inputs = nil
	for _, b := range split(r, nin, 1+r.Intn(4)) {
		c.Inputs = append(c.Inputs, genArg(r, b, 2, inGrammar))
	}
	c.Outputs = nil
	no := 1 + r.Intn(3)
	if r.Intn(8) == 0 {
		no = 0
		// outputs are not tied to the wire count by either format
	}
	for _, b := range split(r, nout, no) {
		c.Outputs = append(c.Outputs, genArg(r, b, 2, inGrammar))
	}
}

// invOnly builds a circuit that consists of INV gates only.
func invOnly(r *hxlib.Rng) *circuit.Circuit {
	nin := 1 + r.Intn(4)
	ng := 1 + r.Intn(12)
	c := &circuit.Circuit{NumGates: ng, NumWires: nin + ng,
		Inputs: circuit.IO{hxlib.UintIO("a", nin)}, Outputs: circuit.IO{hxlib.UintIO("r", 1)}}
	for i := 0; i < ng; i++ {
		c.Gates = append(c.Gates, circuit.Gate{Input0: circuit.Wire(r.Intn(nin + i)), Output: circuit.Wire(nin + i), Op: circuit.INV})
		c.Stats[circuit.INV]++
	}
	return c
}

// bigHeader builds a circuit whose I/O header text is several KiB: a struct
// argument with `fields` members.
func bigHeader(r *hxlib.Rng, fields int) *circuit.Circuit {
	c := hxlib.GenCircuit(r, hxlib.GenOpts{MaxGates: 20, MaxIn: 4, Mix: "uniform"})
	nin := c.Inputs.Size()
	a := circuit.IOArg{Name: "s", Type: types.Info{Type: types.TStruct, IsConcrete: true, Bits: types.Size(nin)}}
	for i := 0; i < fields; i++ {
		b := 0
		if i < nin {
			b = 1
		}
		a.Compound = append(a.Compound, circuit.IOArg{Name: fmt.Sprintf("field_number_%04d", i),
			Type: types.Info{Type: types.TUint, IsConcrete: true, Bits: types.Size(b), MinBits: types.Size(b)}})
	}
	c.Inputs = circuit.IO{a}
	return c
}

// longLens: lengths of a SINGLE name / type string around and beyond the
// 4096-byte bufio buffer (a parser that takes a string out of the buffer, e.g.
// with Peek, fails exactly there).
var longLens = []int{4095, 4096, 4097, 5000, 8191, 8192, 8193, 100000}

// nestedArrayType builds [1][1]…[1]uint8 whose text is at least n bytes (the
// only way Info.String prints a long type text).
func nestedArrayType(n int) types.Info {
	t := types.Info{Type: types.TUint, IsConcrete: true, Bits: 8, MinBits: 8}
	for len(t.String()) < n {
		for k := 0; k < 64 && 5+3*k < n; k++ {
			e := t
			t = types.Info{Type: types.TArray, IsConcrete: true, Bits: e.Bits, MinBits: e.Bits, ElementType: &e, ArraySize: 1}
		}
	}
	return t
}

func longName(r *hxlib.Rng, n int) string {
	b := make([]byte, n)
	for i := range b {
		b[i] = nameAlphabet[r.Intn(len(nameAlphabet))]
	}
	return string(b)
}

// longString gives ONE string of the I/O header the length longLens[k%8]:
// variant 0 top-level input name, 1 name of a compound member, 2 output name,
// 3 type text of a top-level input, 4 type text of a compound member (type
// texts of 4095, 4096, 4097 and 4200 bytes).
func longString(r *hxlib.Rng, c *circuit.Circuit, k int) string {
	n := longLens[k%len(longLens)]
	variant := (k/len(longLens) + k) % 5
	if k >= 40 {
		// type-text variants are slow (types.Parse and Info.String are quadratic
		// in the nesting depth): only the first 40 cases of a run use them
		variant = (k/len(longLens) + k) % 3
	}
	nin := c.Inputs.Size()
	member := circuit.IOArg{Name: "m", Type: types.Info{Type: types.TUint, IsConcrete: true, Bits: types.Size(nin), MinBits: types.Size(nin)}}
	st := circuit.IOArg{Name: "s", Type: types.Info{Type: types.TStruct, IsConcrete: true, Bits: types.Size(nin)}}
	if variant >= 3 && n > 4200 {
		n = 4200
	}
	switch variant {
	case 0:
		c.Inputs[0].Name = longName(r, n)
	case 1:
		member.Name = longName(r, n)
		st.Compound = circuit.IO{{Name: "first", Type: types.Info{Type: types.TUint, IsConcrete: true}}, member}
		c.Inputs = circuit.IO{st}
	case 2:
		c.Outputs[0].Name = longName(r, n)
	case 3:
		t := nestedArrayType(n)
		t.Bits = c.Inputs[0].Type.Bits
		c.Inputs[0].Type = t
	default:
		t := nestedArrayType(n)
		t.Bits = types.Size(nin)
		member.Type = t
		st.Compound = circuit.IO{member}
		c.Inputs = circuit.IO{st}
	}
	return fmt.Sprintf("long-string-v%d", variant)
}

// ---------------------------------------------------------------- descriptions

func argTokens(sb *strings.Builder, a circuit.IOArg) {
	sb.WriteString(hexOf([]byte(a.Name)))
	sb.WriteByte(' ')
	infoTokens(sb, a.Type)
	fmt.Fprintf(sb, "%d ", len(a.Compound))
	for _, c := range a.Compound {
		argTokens(sb, c)
	}
}

// circTokens renders a circuit for the model's `mm` / `mb` operations.
func circTokens(c *circuit.Circuit) string {
	var sb strings.Builder
	fmt.Fprintf(&sb, "%d %d %d ", c.NumGates, c.NumWires, len(c.Inputs))
	for _, a := range c.Inputs {
		argTokens(&sb, a)
	}
	fmt.Fprintf(&sb, "%d ", len(c.Outputs))
	for _, a := range c.Outputs {
		argTokens(&sb, a)
	}
	sb.WriteString(gatesString(c.Gates))
	return sb.String()
}

func gatesString(gs []circuit.Gate) string {
	if len(gs) == 0 {
		return "-"
	}
	var sb strings.Builder
	for i, g := range gs {
		if i > 0 {
			sb.WriteByte(';')
		}
		l, ok := hxlib.OpLetter[g.Op]
		if !ok {
			l = "?"
		}
		fmt.Fprintf(&sb, "%s%d.%d.%d", l, g.Input0, g.Input1, g.Output)
	}
	return sb.String()
}

func argDump(sb *strings.Builder, a circuit.IOArg) {
	sb.WriteString("{")
	sb.WriteString(hexOf([]byte(a.Name)))
	sb.WriteString("|")
	infoDump(sb, a.Type)
	sb.WriteString("|[")
	for i, c := range a.Compound {
		if i > 0 {
			sb.WriteByte(',')
		}
		argDump(sb, c)
	}
	sb.WriteString("]}")
}

// circDump is the canonical dump of a parsed circuit (the model prints the
// same text).
func circDump(c *circuit.Circuit) string {
	var sb strings.Builder
	fmt.Fprintf(&sb, "ok ng=%d nw=%d in=[", c.NumGates, c.NumWires)
	for i, a := range c.Inputs {
		if i > 0 {
			sb.WriteByte(',')
		}
		argDump(&sb, a)
	}
	sb.WriteString("] out=[")
	for i, a := range c.Outputs {
		if i > 0 {
			sb.WriteByte(',')
		}
		argDump(&sb, a)
	}
	sb.WriteString("] g=")
	sb.WriteString(gatesString(c.Gates))
	return sb.String()
}

// Command c14: correspondence harness and implementation-side oracle of
// property C14 (circuit files round-trip; parsers reject malformed input).
//
//	c14 rt    generated circuits: Marshal / MarshalBristol, parse back through
//	          several reader stacks, round-trip oracle
//	c14 fuzz  mutants of valid files offered to ParseMPCLC / ParseBristol in a
//	          recover+deadline sandbox, "never crashes, ok implies well-formed"
//	c14 types Info.String / types.Parse
package main

import (
	"bytes"
	"encoding/hex"
	"fmt"
	"os"
	"strings"

	"github.com/markkurossi/mpc/circuit"
	"github.com/markkurossi/mpc/types"

	"verifharness/hxlib"
)

func main() {
	if len(os.Args) < 2 {
		fmt.Fprintln(os.Stderr, "usage: c14 rt|fuzz|types [flags]")
		os.Exit(2)
	}
	switch os.Args[1] {
	case "rt":
		os.Exit(modeRT(os.Args[2:]))
	case "fuzz":
		os.Exit(modeFuzz(os.Args[2:]))
	case "types":
		os.Exit(modeTypes(os.Args[2:]))
	case "corpus":
		os.Exit(modeCorpus(os.Args[2:]))
	case "canary-worker":
		os.Exit(canaryWorker())
	default:
		fmt.Fprintf(os.Stderr, "unknown mode %q\n", os.Args[1])
		os.Exit(2)
	}
}

// ---------------------------------------------------------------- probes

// variant is what the two probes find out about the code under test; the
// model is run in the same variant (Fix in Model/Format.lean).
type variant struct{ fullStr, guard bool }

func (v variant) code() int {
	n := 0
	if v.fullStr {
		n |= 1
	}
	if v.guard {
		n |= 2
	}
	return n
}

func probe(o *hxlib.Out) variant {
	var v variant
	// (an all-zero name: when the one-byte read leaves the stream misaligned the
	// next fields read as zero and the parser stops at the empty type text
	// instead of allocating a huge string)
	zname := "\x00\x00\x00\x00\x00\x00"
	in := circuit.IO{circuit.IOArg{Name: zname, Type: types.Info{Type: types.TUint, IsConcrete: true, Bits: 1}}}
	// (1) one valid gate record, zero gates declared
	c := &circuit.Circuit{NumGates: 0, NumWires: 1, Inputs: in}
	var b bytes.Buffer
	c.Marshal(&b)
	data := append(b.Bytes(), gateRecord(byte(circuit.INV), 0, 0, 0)...)
	r := guarded("pm", stdRd, data)
	v.guard = r.class == "error"
	o.Meta["probe_extra_gate_record"] = r.class
	// (2) a six-byte name through a reader that delivers one byte per Read
	b.Reset()
	c.Marshal(&b)
	r = guarded("pm", rdCfg{4096, 1, 0}, b.Bytes())
	v.fullStr = r.class == "ok" && len(r.c.Inputs) == 1 && r.c.Inputs[0].Name == zname
	o.Meta["probe_one_byte_reader"] = r.class
	o.Meta["variant_parseString_ReadFull"] = v.fullStr
	o.Meta["variant_gate_count_guard"] = v.guard
	return v
}

// ---------------------------------------------------------------- parse ops

var theCanary canary

// guarded runs one parser call: first in the canary child, then (if that
// returned) in-process under recover.
func guarded(kind string, rd rdCfg, data []byte) outcome {
	switch theCanary.try(kind, rd, data) {
	case "hang":
		return outcome{class: "timeout"}
	case "crash":
		return outcome{class: "crash"}
	case "skipped":
		return outcome{class: "skipped"}
	}
	if kind == "pm" {
		return sandbox(func() (*circuit.Circuit, error) { return circuit.ParseMPCLC(rd.reader(data)) })
	}
	return sandbox(func() (*circuit.Circuit, error) { return circuit.ParseBristol(bytes.NewReader(data)) })
}

// aborted: the canary died/hung canaryMaxStrikes times; enough evidence, the
// rest of the run is skipped.
func aborted(o *hxlib.Out) bool {
	if theCanary.strikes >= canaryMaxStrikes {
		o.Count("aborted_after_canary_strikes")
		return true
	}
	return false
}

func parseMPCLC(o *hxlib.Out, v variant, data []byte, rd rdCfg) (string, outcome) {
	op := fmt.Sprintf("pm %d %s %s", v.code(), rd, hexOf(data))
	if oversizeMPCLC(rd.reader(data), v.fullStr) {
		emit(o, op, "oversize")
		return op, outcome{class: "oversize"}
	}
	r := guarded("pm", rd, data)
	if r.class != "skipped" {
		emit(o, op, r.line())
	}
	return op, r
}

func parseBristol(o *hxlib.Out, data []byte) (string, outcome) {
	op := "pb " + hexOf(data)
	if oversizeBristol(data) {
		emit(o, op, "oversize")
		return op, outcome{class: "oversize"}
	}
	r := guarded("pb", stdRd, data)
	if r.class != "skipped" {
		emit(o, op, r.line())
	}
	return op, r
}

// emit writes one op line (first word: the driver's command word, ignored by
// Drv.mainLoop) and the implementation's result line.
func emit(o *hxlib.Out, op, res string) { o.Op("c14 "+op, res) }

func clipHex(b []byte) string {
	// the whole file (a replay must hold the concrete input); only files above
	// 128 KiB are cut
	s := hexOf(b)
	if len(s) > 262144 {
		return s[:262144] + "..."
	}
	return s
}

// neverCrashes is the second half of the property, evaluated on the real
// parser's outcome.
func neverCrashes(o *hxlib.Out, format string, idx int, what string, data []byte, r outcome) {
	switch r.class {
	case "panic":
		o.Fail("c14-"+format+"-panic", map[string]any{"case": idx, "mutation": what, "panic": r.pmsg, "site": r.site,
			"panic_class": panicClass(r, data), "file_hex": clipHex(data), "file_len": len(data)})
	case "timeout":
		o.Fail("c14-"+format+"-hang", map[string]any{"case": idx, "mutation": what, "file_hex": clipHex(data), "file_len": len(data)})
	case "crash":
		o.Fail("c14-"+format+"-crash", map[string]any{"case": idx, "mutation": what, "file_hex": clipHex(data), "file_len": len(data),
			"what": "the process running the parser died (fatal error / out of memory under a 6 GiB address space limit)"})
	case "ok":
		if d := wellFormed(r.c); d != "" {
			o.Fail("c14-"+format+"-ok-not-wellformed", map[string]any{"case": idx, "mutation": what, "defect": d,
				"file_hex": clipHex(data), "file_len": len(data)})
		}
	}
}

// ---------------------------------------------------------------- rt

// roundTrip evaluates the first half of the property for one parse result.
func roundTrip(c *circuit.Circuit, r outcome, data []byte, native bool) string {
	if r.class != "ok" {
		return "parse: " + r.class + " " + r.err + r.pmsg
	}
	if d := sameCircuit(c, r.c, native); d != "" {
		return "differs: " + d
	}
	var b bytes.Buffer
	var err error
	if native {
		err = r.c.Marshal(&b)
	} else {
		err = r.c.MarshalBristol(&b)
	}
	if err != nil {
		return "re-marshal: " + err.Error()
	}
	if !bytes.Equal(b.Bytes(), data) {
		return "re-marshalled bytes differ"
	}
	return ""
}

func sameFunction(r *hxlib.Rng, a, b *circuit.Circuit) bool {
	nin := a.Inputs.Size()
	if nin > a.NumWires || a.NumWires != b.NumWires {
		return false
	}
	for k := 0; k < 4; k++ {
		x := make([]bool, nin)
		for j := range x {
			x[j] = r.Bool()
		}
		wa, wb := hxlib.RefEval(a, x), hxlib.RefEval(b, x)
		for i := range wa {
			if wa[i] != wb[i] {
				return false
			}
		}
	}
	return true
}

func modeRT(args []string) int {
	cf, o := hxlib.ParseCommon("c14-rt", args, nil)
	defer o.Close()
	defer theCanary.stop()
	v := probe(o)
	rng := hxlib.NewRng(cf.Seed)
	mixes := []string{"uniform", "and", "orinv", "xnor", "free"}
	maxGates := 60
	if cf.Tier == "thorough" {
		maxGates = 600
	}
	for i := 0; i < cf.N; i++ {
		r := rng.Fork()
		if aborted(o) {
			break
		}
		if cf.Only >= 0 && i != cf.Only {
			continue
		}
		var c *circuit.Circuit
		inGrammar := true
		kind := "gen"
		switch i % 12 {
		case 0:
			c, kind = invOnly(r), "inv-only"
			if r.Bool() {
				reshapeIO(r, c, true)
			}
		case 1:
			c, kind = bigHeader(r, []int{30, 100, 150, 250, 400, 450}[(i/12)%6]), "big-header"
		case 2:
			// no gates: every wire is an input
			n := r.Intn(5)
			c, kind = &circuit.Circuit{NumWires: n, Inputs: circuit.IO{hxlib.UintIO("a", n)}}, "no-gates"
			if r.Bool() {
				reshapeIO(r, c, true)
			}
		case 4:
			// one single string of 4095 … 100000 bytes
			c = hxlib.GenCircuit(r, hxlib.GenOpts{MaxGates: 12, MaxIn: 4, Mix: mixes[r.Intn(len(mixes))]})
			kind = longString(r, c, i/12)
			o.Count(fmt.Sprintf("rt_long_string_len_%d", longLens[(i/12)%len(longLens)]))
		case 3:
			c = hxlib.GenCircuit(r, hxlib.GenOpts{MaxGates: maxGates, MaxIn: 6, Mix: mixes[r.Intn(len(mixes))], AllowReuse: true})
			reshapeIO(r, c, false)
			inGrammar, kind = false, "any-type"
		default:
			c = hxlib.GenCircuit(r, hxlib.GenOpts{MaxGates: maxGates, MaxIn: 6, Mix: mixes[r.Intn(len(mixes))], AllowReuse: i%3 == 0})
			reshapeIO(r, c, true)
		}
		if !inGrammar {
			// is it by chance inside the grammar?  (decided by the text)
			inGrammar = allParse(c.Inputs) && allParse(c.Outputs)
			if inGrammar {
				kind = "any-type-in-grammar"
			}
		}
		o.Count("rt_cases")
		o.Count("rt_kind_" + kind)
		desc := circTokens(c)

		// native format
		var mb bytes.Buffer
		if err := c.Marshal(&mb); err != nil {
			o.Fail("c14-marshal-error", map[string]any{"case": i, "err": err.Error()})
			continue
		}
		data := mb.Bytes()
		emit(o, "mm "+desc, hexOf(data))
		o.CountN("rt_native_bytes", len(data))
		if len(data) > 4096 {
			o.Count("rt_native_over_4096")
		}
		big := rdCfg{max(8192, len(data)+64), 0, 0}
		_, rBig := parseMPCLC(o, v, data, big)
		dBig := roundTrip(c, rBig, data, true)
		rds := []rdCfg{stdRd, {4096, []int{1, 2, 3, 5, 7, 16, 100, 4095}[r.Intn(8)], 0}, {4096, 1 + r.Intn(40), 1 + r.Intn(1000)}}
		for k, rd := range rds {
			_, res := parseMPCLC(o, v, data, rd)
			neverCrashes(o, "mpclc", i, "valid-file", data, res)
			d := roundTrip(c, res, data, true)
			rdName := []string{"std", "chunked", "chunked-salted"}[k]
			if d == "" {
				o.Count("rt_native_ok_" + rdName)
				if !sameFunction(r, c, res.c) {
					o.Fail("c14-mpclc-function-differs", map[string]any{"case": i, "reader": rdName})
				}
			} else if inGrammar {
				o.Count("rt_native_fail_" + rdName)
				o.Fail("c14-mpclc-roundtrip", map[string]any{"case": i, "reader": rdName, "reader_cfg": rd.String(),
					"short_read_only": fmt.Sprint(dBig == ""), "what": d, "file_len": len(data), "kind": kind,
					"circuit": clip(desc, 400), "file_hex": clipHex(data)})
			} else {
				o.Count("rt_native_outside_grammar_" + res.class)
			}
		}
		if dBig != "" && inGrammar {
			o.Fail("c14-mpclc-roundtrip", map[string]any{"case": i, "reader": "one-buffer", "reader_cfg": big.String(),
				"short_read_only": "false", "what": dBig, "file_len": len(data), "kind": kind, "circuit": clip(desc, 400),
				"file_hex": clipHex(data)})
		}

		// Bristol
		var bb bytes.Buffer
		if err := c.MarshalBristol(&bb); err != nil {
			o.Fail("c14-marshal-error", map[string]any{"case": i, "err": err.Error()})
			continue
		}
		bdata := append([]byte(nil), bb.Bytes()...)
		emit(o, "mb "+desc, hexOf(bdata))
		_, res := parseBristol(o, bdata)
		neverCrashes(o, "bristol", i, "valid-file", bdata, res)
		if c.Inputs.Size() == 0 {
			// ParseBristol refuses a circuit without input bits ("no inputs defined")
			o.Count("rt_bristol_no_input_bits_" + res.class)
		} else if d := roundTrip(c, res, bdata, false); d != "" {
			o.Fail("c14-bristol-roundtrip", map[string]any{"case": i, "what": d, "kind": kind, "circuit": clip(desc, 400)})
		} else {
			o.Count("rt_bristol_ok")
			if !sameFunction(r, c, res.c) {
				o.Fail("c14-bristol-function-differs", map[string]any{"case": i})
			}
		}
		if i < 3 {
			o.Sample(map[string]any{"case": i, "kind": kind, "circuit": clip(desc, 300), "native_len": len(data)})
		}
	}
	return 0
}

func allParse(io circuit.IO) bool {
	for _, a := range io {
		t, err := types.Parse(a.Type.String())
		if err != nil {
			return false
		}
		t.Bits = a.Type.Bits
		if t.String() != a.Type.String() {
			return false
		}
		if !allParse(a.Compound) {
			return false
		}
	}
	return true
}

func clip(s string, n int) string {
	if len(s) > n {
		return s[:n] + "..."
	}
	return s
}

// ---------------------------------------------------------------- fuzz

func modeFuzz(args []string) int {
	cf, o := hxlib.ParseCommon("c14-fuzz", args, nil)
	defer o.Close()
	defer theCanary.stop()
	v := probe(o)
	rng := hxlib.NewRng(cf.Seed)
	mixes := []string{"uniform", "and", "orinv", "free"}
	for i := 0; i < cf.N; i++ {
		r := rng.Fork()
		if aborted(o) {
			break
		}
		if cf.Only >= 0 && i != cf.Only {
			continue
		}
		var c *circuit.Circuit
		if i%9 == 0 {
			c = invOnly(r)
		} else {
			c = hxlib.GenCircuit(r, hxlib.GenOpts{MaxGates: 10, MaxIn: 3, Mix: mixes[r.Intn(len(mixes))], AllowReuse: i%4 == 0})
		}
		if i%3 != 0 {
			reshapeIO(r, c, true)
		}
		nmut := 1 + r.Intn(3)
		if i%2 == 0 {
			var mb bytes.Buffer
			c.Marshal(&mb)
			data, fs := encodeFields(c)
			if !bytes.Equal(data, mb.Bytes()) {
				o.Count("fuzz_encoder_differs_from_Marshal")
				data, fs = mb.Bytes(), nil
			}
			var what []string
			for k := 0; k < nmut; k++ {
				var w string
				data, w = mutateMPCLC(r, data, fs, c)
				what = append(what, w)
				if len(data) != mb.Len() {
					fs = nil // offsets no longer valid
				}
			}
			rd := stdRd
			if r.Intn(5) == 0 {
				rd = rdCfg{4096, 1 + r.Intn(30), r.Intn(3) * (1 + r.Intn(100))}
			}
			w := strings.Join(what, "+")
			_, res := parseMPCLC(o, v, data, rd)
			o.Count("fuzz_mpclc_" + res.class)
			o.Count("fuzz_mpclc_mut_" + what[0] + "_" + res.class)
			neverCrashes(o, "mpclc", i, w, data, res)
		} else {
			var bb bytes.Buffer
			c.MarshalBristol(&bb)
			data := append([]byte(nil), bb.Bytes()...)
			var what []string
			for k := 0; k < nmut; k++ {
				var w string
				data, w = mutateBristol(r, data)
				what = append(what, w)
			}
			w := strings.Join(what, "+")
			_, res := parseBristol(o, data)
			o.Count("fuzz_bristol_" + res.class)
			o.Count("fuzz_bristol_mut_" + what[0] + "_" + res.class)
			neverCrashes(o, "bristol", i, w, data, res)
		}
		o.Count("fuzz_cases")
	}
	return 0
}

// ---------------------------------------------------------------- corpus

// modeCorpus replays the files of corpus/C14 (-extra <file>): one case per
// line, `mpclc <bufSize> <chunk> <salt> <hex>`, `mpclc-valid …` (same, and the
// file must parse and marshal back to itself) or `bristol <hex>`; `#` starts a
// comment.
func modeCorpus(args []string) int {
	cf, o := hxlib.ParseCommon("c14-corpus", args, nil)
	defer o.Close()
	defer theCanary.stop()
	v := probe(o)
	text, err := os.ReadFile(cf.Extra)
	if err != nil {
		fmt.Fprintln(os.Stderr, err)
		return 2
	}
	for i, line := range strings.Split(string(text), "\n") {
		f := strings.Fields(line)
		if len(f) == 0 || strings.HasPrefix(f[0], "#") {
			continue
		}
		var data []byte
		if h := f[len(f)-1]; h != "-" {
			if data, err = hex.DecodeString(h); err != nil {
				fmt.Fprintf(os.Stderr, "corpus line %d: %v\n", i+1, err)
				return 2
			}
		}
		switch {
		case f[0] == "mpclc-valid" && len(f) == 5:
			// a file Marshal wrote: must parse and marshal back to itself
			var rd rdCfg
			fmt.Sscan(f[1], &rd.bufSize)
			fmt.Sscan(f[2], &rd.chunk)
			fmt.Sscan(f[3], &rd.salt)
			_, res := parseMPCLC(o, v, data, rd)
			o.Count("corpus_mpclc_valid_" + res.class)
			neverCrashes(o, "mpclc", i, "corpus", data, res)
			what := ""
			if res.class != "ok" {
				what = "parse: " + res.class + " " + res.err
			} else {
				var b bytes.Buffer
				if err := res.c.Marshal(&b); err != nil || !bytes.Equal(b.Bytes(), data) {
					what = "re-marshalled bytes differ"
				}
			}
			if what != "" && res.class != "skipped" {
				o.Fail("c14-mpclc-roundtrip", map[string]any{"case": i, "reader": "corpus", "reader_cfg": rd.String(),
					"short_read_only": "n/a", "what": what, "file_len": len(data), "kind": "corpus-valid-file",
					"file_hex": clipHex(data), "corpus_line": i + 1})
			}
		case f[0] == "mpclc" && len(f) == 5:
			var rd rdCfg
			fmt.Sscan(f[1], &rd.bufSize)
			fmt.Sscan(f[2], &rd.chunk)
			fmt.Sscan(f[3], &rd.salt)
			_, res := parseMPCLC(o, v, data, rd)
			o.Count("corpus_mpclc_" + res.class)
			neverCrashes(o, "mpclc", i, "corpus", data, res)
		case f[0] == "bristol" && len(f) == 2:
			_, res := parseBristol(o, data)
			o.Count("corpus_bristol_" + res.class)
			neverCrashes(o, "bristol", i, "corpus", data, res)
		default:
			fmt.Fprintf(os.Stderr, "corpus line %d: bad format\n", i+1)
			return 2
		}
		o.Count("corpus_cases")
	}
	return 0
}

// ---------------------------------------------------------------- types

func typeParseLine(o *hxlib.Out, idx int, s string) (types.Info, bool) {
	var info types.Info
	var err error
	var pmsg string
	func() {
		defer func() {
			if e := recover(); e != nil {
				pmsg = fmt.Sprint(e)
			}
		}()
		info, err = types.Parse(s)
	}()
	op := "tp " + hexOf([]byte(s))
	if pmsg != "" {
		emit(o, op, "panic")
		o.Fail("c14-types-panic", map[string]any{"case": idx, "text_hex": clipHex([]byte(s)), "panic": clip(pmsg, 200)})
		return info, false
	}
	if err != nil {
		emit(o, op, "error")
		return info, false
	}
	var sb strings.Builder
	sb.WriteString("ok ")
	infoDump(&sb, info)
	emit(o, op, sb.String())
	return info, true
}

func modeTypes(args []string) int {
	cf, o := hxlib.ParseCommon("c14-types", args, nil)
	defer o.Close()
	rng := hxlib.NewRng(cf.Seed)
	for i := 0; i < cf.N; i++ {
		r := rng.Fork()
		if cf.Only >= 0 && i != cf.Only {
			continue
		}
		o.Count("types_cases")
		switch i % 3 {
		case 0, 1:
			inGrammar := i%3 == 0
			t := genInfo(r, 3, inGrammar)
			if inGrammar && !t.Concrete() && (t.Type == types.TBool || t.Type == types.TStruct) {
				// "bool" parses to the sized bool1; unsized struct is printed "struct0" after parsing
				inGrammar = false
			}
			var sb strings.Builder
			infoTokens(&sb, t)
			s := t.String()
			emit(o, "ts "+strings.TrimSpace(sb.String()), hexOf([]byte(s)))
			p, ok := typeParseLine(o, i, s)
			if inGrammar && elemsInGrammar(t) {
				o.Count("types_in_grammar")
				p.Bits = t.Bits
				if !ok {
					o.Fail("c14-type-roundtrip", map[string]any{"case": i, "text": clip(s, 200), "what": "does not parse"})
				} else if p.String() != s {
					o.Fail("c14-type-roundtrip", map[string]any{"case": i, "text": clip(s, 200), "what": "prints as " + clip(p.String(), 200)})
				} else if p.Type != t.Type || (t.Type == types.TArray && p.ArraySize != t.ArraySize) {
					o.Fail("c14-type-roundtrip", map[string]any{"case": i, "text": clip(s, 200), "what": "kind or array size differs"})
				}
			} else {
				o.Count("types_outside_grammar")
			}
		default:
			// arbitrary and mutated texts
			var s string
			switch r.Intn(4) {
			case 0:
				s = typeTexts[r.Intn(len(typeTexts))]
			case 1:
				s = genInfo(r, 3, true).String()
				b := []byte(s)
				for k := 1 + r.Intn(2); k > 0 && len(b) > 0; k-- {
					p := r.Intn(len(b))
					switch r.Intn(4) {
					case 0:
						b[p] ^= 1 << r.Intn(8)
					case 1:
						b = append(b[:p:p], append([]byte{"\n[]x9 \x00"[r.Intn(7)]}, b[p:]...)...)
					case 2:
						b = append(b[:p:p], b[p+1:]...)
					default:
						b = append(b, "\n"+typeTexts[r.Intn(len(typeTexts))]...)
					}
				}
				s = string(b)
			case 2:
				// several lines
				var parts []string
				for k := 1 + r.Intn(3); k > 0; k-- {
					parts = append(parts, typeTexts[r.Intn(len(typeTexts))])
				}
				s = strings.Join(parts, "\n")
			default:
				alphabet := "ub[]0123456789int\nstruc x"
				n := r.Intn(12)
				b := make([]byte, n)
				for k := range b {
					b[k] = alphabet[r.Intn(len(alphabet))]
				}
				s = string(b)
			}
			_, ok := typeParseLine(o, i, s)
			if ok {
				o.Count("types_text_ok")
			} else {
				o.Count("types_text_error")
			}
		}
	}
	return 0
}

// elemsInGrammar: element types must be sized or unsized int/uint/string too.
func elemsInGrammar(t types.Info) bool {
	if t.ElementType == nil {
		return true
	}
	e := *t.ElementType
	if !e.Concrete() && (e.Type == types.TBool || e.Type == types.TStruct) {
		return false
	}
	return elemsInGrammar(e)
}

// c05: streaming mode agrees with whole-circuit mode.
//
//	oracle  generated MPCL programs: real compiler.Stream <-> circuit.StreamEvaluator
//	        session vs real Compile + Circuit.Compute; values and output types at
//	        both ends.  Every program's SSA (after Program.GC) is analysed for
//	        wire-id ranges that are freed while a rewired value still points at
//	        them; the pre-GC step list goes to the Lean model of Program.GC and of
//	        the wire allocator (op line), the real GC'd step list, the real return
//	        wire ids and the real per-circuit max wire id (parsed from the recorded
//	        garbler->evaluator bytes) are the result line.
//	codec   real Streaming.Garble output bytes for random circuits and id maps
//	        (incl. ids > 65535) on a fixed random tape vs the Lean model.
//	        With `-extra upd` only programs of class upd (upd.go: element updates
//	        inside if / else and loops) are generated, each run on every
//	        combination of its conditions.  A program whose GC'd step list frees
//	        a range that is still pointed at, but whose session agreed, goes to
//	        the exposure search (expose.go).
//	repr    input representations (repr.go): small programs on input TEXTS of any
//	        sign and magnitude (negative beyond 64 bits, wider than the argument,
//	        word boundaries, every notation, array texts longer than the array):
//	        streaming garbler, streaming evaluator and whole circuit agree; an
//	        input rejected by one mode only is a disagreement.
//	replay  one program from a file: prints both outcomes.
package main

import (
	"encoding/json"
	"fmt"
	"os"
	"sort"
	"strings"
	"time"

	"verifharness/hxlib"
)

func main() {
	if len(os.Args) < 2 {
		fmt.Fprintln(os.Stderr, "usage: c05 oracle|codec|repr|replay [flags]")
		os.Exit(2)
	}
	switch os.Args[1] {
	case "oracle":
		os.Exit(runOracle(os.Args[2:]))
	case "codec":
		os.Exit(runCodec(os.Args[2:]))
	case "repr":
		os.Exit(runRepr(os.Args[2:]))
	case "replay":
		os.Exit(runReplay(os.Args[2:]))
	default:
		fmt.Fprintf(os.Stderr, "unknown mode %q\n", os.Args[1])
		os.Exit(2)
	}
}

var classes = []string{"alias", "mixed", "collide", "unsized", "early", "collide", "wide", "early", "sweep"}

// fixed programs run before the generated ones: the hand-found witnesses
// (DESIGN.md section 0) and their near misses.
var corpus = []*prog{
	{Class: "corpus", GIn: []string{"203"}, EIn: []string{"77"}, Src: `package main
func main(a, b uint8) (uint8, uint8, uint8) {
	x := a >> 1
	y := x >> 1
	return y, a+b, b+3
}
`},
	{Class: "corpus", GIn: []string{"0x00010002"}, EIn: []string{"0x00070009"}, Src: `package main
func main(a [2]uint16, b uint32) ([]uint16, uint32) {
	c := [2]uint16{7, 9}
	y := b * 3
	e := a + c
	x := y + 5
	return e, x
}
`},
	{Class: "corpus", GIn: []string{"203"}, EIn: []string{"77"}, Src: `package main
func main(a, b uint8) (uint8, uint8, uint8) {
	x := a >> 1
	return x, a+b, b+3
}
`},
	// a lazily resolved phi emitted in the else block, used by the
	// continuation that is serialised before it (use before definition)
	{Class: "corpus", GIn: []string{"9"}, EIn: []string{"100"}, Src: earlyReturnWitness},
	{Class: "corpus", GIn: []string{"4"}, EIn: []string{"100"}, Src: earlyReturnWitness},
	{Class: "corpus", GIn: []string{"1"}, EIn: []string{"100"}, Src: earlyReturnWitness},
	// two live values in one allocator bucket ('a'^8 == 'c'^8^2): a{1,0} is
	// recycled while the newer c{1,1} is live and used afterwards
	{Class: "corpus", GIn: []string{"100"}, EIn: []string{"1000"}, Src: `package main

type Acc struct {
	lo uint32
	hi uint32
}

func main(a, b uint32) uint32 {
	var c Acc
	c.lo = b * 3
	d := a + 7
	c.hi = d
	return c.lo ^ c.hi
}
`},
}

// updCorpus runs last in the upd mode (after the generated programs): the source of the Lean witness
// `memoProg` (Props/C05.lean: C05_gcMemo_unsafe, C05_gcMemo_witness_now_safe)
// on both values of its condition, and its mirror image.
var updCorpus = []*prog{
	{Class: "upd", GIn: []string{"0x00000001000000020000000300000004"}, EIn: []string{"100"},
		Alt: [][2][]string{{{"0x00000007000000020000000300000004"}, {"100"}}}, Src: `package main
func main(a [4]uint32, b uint32) ([4]uint32, uint32) {
	var r uint32
	if a[0] == 7 {
		r = 1
	} else {
		a[1] = b
		a[2] = 5
		r = (b + 1) * 3
	}
	return a, r
}
`},
	{Class: "upd", GIn: []string{"0x00000007000000020000000300000004"}, EIn: []string{"100"},
		Alt: [][2][]string{{{"0x00000001000000020000000300000004"}, {"100"}}}, Src: `package main
func main(a [4]uint32, b uint32) ([4]uint32, uint32) {
	var r uint32
	if a[0] == 7 {
		a[1] = b
		a[2] = 5
		r = (b + 1) * 3
	} else {
		r = 1
	}
	return a, r
}
`},
}

// libSeed rotates the catalogue of class lib (set from -seed).
var libSeed uint64

// libCorpus runs last in the lib mode: the hand-minimised witnesses of the
// output-slot defect (libattr.go) -- one per failure mode.
var libCorpus = []*prog{
	// two replaced slots hold the same wire: Compile panics
	{Class: "lib", GIn: []string{"5"}, EIn: []string{"9"}, Src: `package main

import (
	"encoding/binary"
)

func main(a, b uint8) uint8 {
	return binary.HammingDistance(a, b)
}
`},
	// one replaced slot: bit 3 of the result is not driven and keeps the
	// label of the dead value whose wire id it got (whole circuit: 1, true)
	{Class: "lib", GIn: []string{"8"}, EIn: []string{"0"}, Src: `package main

import (
	"encoding/binary"
)

func main(a, b uint4) (uint4, bool) {
	x := a | b
	y := a ^ b
	z := a + b
	c := x > 7 && y > 7 && z > 7
	h := binary.HammingDistance(a, b)
	return h, c
}
`},
}

func safeGen(r *hxlib.Rng, class string, idx int) (p *prog) {
	defer func() {
		if e := recover(); e != nil {
			p = nil
		}
	}()
	if class == "collide" {
		base := genProgram(r, []string{"alias", "mixed"}[idx%2], idx)
		base.Parts = nil // identifiers are renamed in Src only
		return collideProgram(r, base)
	}
	if class == "upd" {
		return updProgram(r, idx)
	}
	if class == "lib" {
		return libProgram(r, idx, libSeed)
	}
	return genProgram(r, class, idx)
}

// largeExamples run in the thorough tier (and in widened searches): real
// library code with thousands of SSA values, long alias chains through array
// updates, and many values recycled while others are live.
var largeExamples = []*prog{
	{Class: "large", GIn: []string{"7"}, EIn: []string{"201"}, Src: `package main

import (
	"sort"
)

var input = []int9{
	136, 142, 146, 165, 183, 189, 220, 223, 232, 235, 67, 73, 77, 88,
	91, 93, 95, 97, 98, 132, 5, 6, 7, 10, 14, 18, 18, 37, 50, 64, 245,
	249, 252, 136, 142, 146, 165, 183, 189, 220, 223, 232, 235, 67,
	73, 77, 88, 91,
}

func main(g, e byte) []int {
	input[3] = int9(g)
	input[17] = int9(e)
	return sort.Reverse(sort.Slice(input))
}
`},
	{Class: "large", GIn: []string{"0x0123456789abcdef0123456789abcdef"}, EIn: []string{"0xfedcba9876543210fedcba9876543210"}, Src: `package main

import (
	"crypto/aes"
)

func main(key, data [16]byte) []byte {
	return aes.EncryptBlock(key, data)
}
`},
}

const earlyReturnWitness = `package main
func main(a, b uint8) uint8 {
	if a > 5 {
		b = 31
	}
	if a > 2 {
		a = a + 1
	} else {
		b = 7
		return b
	}
	return b + a
}
`

// class lib bookkeeping: functions with at least one compared program
var libSeen, libDone = map[string]bool{}, map[string]bool{}

type outcome struct {
	Status string
	Vals   string
	Types  string
}

func (o outcome) String() string { return o.Status + " " + o.Vals + " " + o.Types }

func streamOutcomes(r *hxlib.StreamResult) (g, e outcome) {
	st := r.Status()
	g = outcome{Status: st}
	e = outcome{Status: st}
	if st == "ok" {
		g.Vals, g.Types = hxlib.BigsString(r.GRes), hxlib.IODesc(r.GOut)
		e.Vals, e.Types = hxlib.BigsString(r.ERes), hxlib.IODesc(r.EOut)
	}
	return
}

func errText(r *hxlib.StreamResult) string {
	return clip(fmt.Sprintf("gerr=%v eerr=%v gpanic=%v epanic=%v stalled=%v", r.GErr, r.EErr, r.GPanic, r.EPanic, r.Stalled), 600)
}

func clip(s string, n int) string {
	if len(s) > n {
		return s[:n] + "..."
	}
	return s
}

func featList(m map[string]bool) []string {
	var s []string
	for k := range m {
		s = append(s, k)
	}
	sort.Strings(s)
	return s
}

func runOracle(args []string) int {
	cf, o := hxlib.ParseCommon("c05", args, nil)
	defer o.Close()
	rng := hxlib.NewRng(cf.Seed)
	// programs with one instruction circuit of more than 65536 wires
	// (well under a second each): 3 in the quick tier, more in thorough / widened runs
	nbig := 3
	if cf.Tier == "thorough" {
		nbig = 12
	}
	if strings.HasPrefix(cf.Extra, "big=") {
		fmt.Sscanf(cf.Extra, "big=%d", &nbig)
	}
	nlarge := 0
	if cf.Tier == "thorough" || strings.Contains(cf.Extra, "large") {
		nlarge = len(largeExamples)
	}
	for k := 0; k < nlarge; k++ {
		if cf.Only >= 0 && cf.Only != 1000000+k {
			continue
		}
		p := largeExamples[k]
		p.Feat = map[string]bool{"large_example": true}
		oneProgram(o, cf, 1000000+k, rng.Fork(), p)
	}
	total := cf.N + len(corpus)
	updOnly := false
	for _, x := range strings.Split(cf.Extra, ",") {
		updOnly = updOnly || x == "upd"
	}
	libOnly := false
	for _, x := range strings.Split(cf.Extra, ",") {
		libOnly = libOnly || x == "lib"
	}
	libSeed = cf.Seed
	if libOnly {
		// every catalogue entry at least twice (wide round, narrow round), then the corpus
		if min := 2*len(catalogue().funcs) + len(libCorpus); cf.N < min && cf.Only < 0 {
			cf.N = min
		}
		total = cf.N
		rng = hxlib.NewRng(hxlib.NewRng(cf.Seed^0x6c6962).U64() ^ cf.Seed<<32)
		cat := catalogue()
		o.CountN("lib_catalogue_functions", len(cat.funcs))
		o.CountN("lib_catalogue_signatures_outside_grammar", cat.skipped)
	}
	if updOnly {
		// NewRng(seed) and NewRng(seed+1) are the same splitmix64 stream shifted
		// by one draw; start this mode's stream from a mixed state so that
		// VERIF_SEED=1,2,3 give unrelated programs
		rng = hxlib.NewRng(hxlib.NewRng(cf.Seed^0x757064).U64() ^ cf.Seed<<32)
	}
	for i := 0; i < total; i++ {
		r := rng.Fork()
		if cf.Only >= 0 && i != cf.Only {
			continue
		}
		var p *prog
		if updOnly {
			if i >= cf.N {
				break
			}
			if k := i - (cf.N - len(updCorpus)); k >= 0 {
				p = updCorpus[k]
				p.Feat = map[string]bool{"upd_corpus": true}
			} else {
				p = safeGen(r, "upd", i)
			}
			if p == nil {
				o.Count("generator_panic")
				continue
			}
		} else if libOnly {
			if k := i - (cf.N - len(libCorpus)); k >= 0 {
				p = libCorpus[k]
				p.Feat = map[string]bool{"lib_corpus": true}
			} else {
				p = safeGen(r, "lib", i)
			}
			if p == nil {
				o.Count("lib_no_argument_shape")
				continue
			}
		} else if i < len(corpus) {
			p = corpus[i]
			p.Feat = map[string]bool{}
		} else if i < len(corpus)+nbig {
			p = bigProgram(r, i-len(corpus)+int(cf.Seed%3))
		} else {
			p = safeGen(r, classes[(i-len(corpus))%len(classes)], i-len(corpus))
			if p == nil {
				o.Count("generator_panic")
				continue
			}
		}
		oneProgram(o, cf, i, r, p)
	}
	return 0
}

func extraFlag(x string) string {
	if x == "" {
		return ""
	}
	return "-extra " + x
}

func oneProgram(o *hxlib.Out, cf *hxlib.CommonFlags, i int, r *hxlib.Rng, p *prog) {
	o.Count("programs")
	o.Count("class_" + p.Class)
	if p.HasTag {
		o.Count("upd_tagged")
	}
	if p.Lib != "" {
		base0 := p.Lib
		t0 := time.Now()
		if os.Getenv("C05_DEBUG") != "" {
			fmt.Fprintf(os.Stderr, "case %d lib %s start\n", i, p.Lib)
		}
		defer func() {
			if os.Getenv("C05_DEBUG") != "" {
				fmt.Fprintf(os.Stderr, "case %d lib %s %.2fs\n", i, base0, time.Since(t0).Seconds())
			}
			if libDone[base0] {
				o.Count("lib_programs_compared")
				if !libSeen[base0] {
					libSeen[base0] = true
					o.Count("lib_functions_compared")
				}
				libDone[base0] = false
			}
		}()
	}
	base := map[string]any{"case": i, "seed": cf.Seed, "class": p.Class, "src": p.Src, "g_inputs": p.GIn, "e_inputs": p.EIn,
		"rerun":      strings.TrimSpace(fmt.Sprintf("c05 oracle -seed %d -n %d -only %d %s", cf.Seed, cf.N, i, extraFlag(cf.Extra))),
		"replay_cmd": "cd /verif/harness && GOFLAGS=-mod=mod GOPROXY=off MPCLDIR=$VERIF_REPO go run -tags verif ./cmd/c05 replay <this replay file>   # runs only this program: streaming pair vs whole circuit"}
	if p.Lib != "" {
		base["library_function"] = p.Lib
	}
	mk := func(extra map[string]any) map[string]any {
		m := map[string]any{}
		for k, v := range base {
			m[k] = v
		}
		for k, v := range extra {
			m[k] = v
		}
		return m
	}
	sizes, err := hxlib.StreamInputSizes(p.GIn, p.EIn)
	if err != nil {
		o.Count("gen_bad_inputs")
		return
	}
	sp, err := hxlib.CompileSSA(p.Src, sizes)
	if err != nil {
		o.Count("compile_error")
		if p.Lib != "" {
			o.Count("lib_compile_error")
		}
		if os.Getenv("C05_DEBUG") != "" {
			fmt.Fprintf(os.Stderr, "case %d compile error: %v\n%s\n", i, err, p.Src)
		}
		return
	}
	if p.Lib != "" {
		cost := ssaCost(sp)
		if os.Getenv("C05_DEBUG") != "" {
			fmt.Fprintf(os.Stderr, "case %d lib %s cost %d steps %d\n", i, p.Lib, cost, len(sp.Steps))
		}
		budget := 250000
		if cf.Tier == "thorough" {
			budget = 1000000
		}
		if cost > budget {
			o.Count("lib_over_cost_budget")
			return
		}
	}
	o.Count("compiled")
	si := analyse(sp)
	cause := si.cause()
	if cause != "" {
		o.Count("ssa_early_free_" + cause)
	} else {
		o.Count("ssa_no_early_free")
	}
	for k := range p.Feat {
		o.Count("feat_" + k)
	}
	for op, n := range si.OpCount {
		o.CountN("ssaop_"+op, n)
	}
	o.CountN("gc_steps", si.NumGC)
	for k, n := range bucketStats(sp) {
		if k == "bucket_max_chain" {
			if n > o.Counters[k] {
				o.Counters[k] = n
			}
			if n >= 2 {
				o.Count(fmt.Sprintf("programs_with_bucket_chain_%d", minInt(n, 4)))
			}
			continue
		}
		o.CountN(k, n)
	}
	o.CountN("const_inputs_padded_or_truncated", si.ConstPad)
	o.CountN("const_inputs_sign_padded", si.SignPad)

	if si.UBD > 0 || si.DupOut > 0 {
		o.Count("ssa_use_before_def_programs")
		o.Fail("c05-ssa-use-before-def", mk(map[string]any{"uses_before_definition": si.UBD, "values_defined_twice": si.DupOut,
			"first": si.UBDList, "note": "prog.Steps is not in definition-before-use order: the sequential streaming " +
				"walker allocates fresh, never garbled wires at the early use"}))
	} else {
		o.Count("ssa_def_before_use_holds")
	}
	w := hxlib.StreamReference(p.Src, p.GIn, p.EIn)
	refOK := w.Err == nil && w.Panic == nil
	if !refOK {
		o.Count("reference_unavailable")
		if len(o.Samples) < 5 {
			o.Sample(map[string]any{"case": i, "note": "whole-circuit reference unavailable", "err": clip(fmt.Sprint(w.Err, w.Panic), 300), "src": p.Src})
		}
	}
	wo := outcome{Status: "ok", Vals: hxlib.BigsString(w.Res), Types: hxlib.IODesc(w.Out)}

	otName := "ideal"
	var otf hxlib.OTFactory
	if i%7 == 3 {
		otName = "co"
		otf = hxlib.COFactory(r.Fork())
	}
	var frag *hxlib.Rng
	if i%3 != 0 {
		frag = r.Fork()
	}
	d := hxlib.NewDuplex(frag)
	res := hxlib.RunStreamSession(p.Src, p.GIn, p.EIn, otf, r.Fork(), d, 90*time.Second)
	d.Close()
	o.Count("ot_" + otName)
	g, e := streamOutcomes(res)
	o.Count("stream_" + g.Status)

	tr := &hxlib.StreamTranscript{Err: "real OT on the stream"}
	if otName == "ideal" {
		tr = hxlib.ParseStreamTranscript(d.AB.Rec, false)
	}
	if tr.Err == "" {
		o.CountN("gates_16bit_ids", tr.Gates16)
		o.CountN("gates_32bit_ids", tr.Gates32)
		if tr.Gates32 > 0 {
			o.Count("programs_with_32bit_ids")
		}
		if tr.Gates16 > 0 && tr.Gates32 > 0 {
			o.Count("programs_with_both_encodings")
		}
		o.CountN("stream_circuits", len(tr.Circs))
		maxTmp := 0
		for _, c := range tr.Circs {
			if c.Tmp > maxTmp {
				maxTmp = c.Tmp
			}
		}
		if maxTmp > 0x10000 {
			o.Count("programs_with_circuit_over_65536_wires")
			if tr.Gates32 > 0 && tr.Gates16 > 0 {
				o.Count("programs_with_tmp_index_over_65535_and_small_ids")
			}
		}
		if os.Getenv("C05_DEBUG") != "" && p.Class == "big" {
			fmt.Fprintf(os.Stderr, "case %d big: max circuit wires %d, gates16 %d gates32 %d\n", i, maxTmp, tr.Gates16, tr.Gates32)
		}
	} else if g.Status == "ok" && otName == "ideal" {
		o.Fail("c05-transcript-unparsable", mk(map[string]any{"err": tr.Err}))
	}
	emitGcOp(o, sp, si, tr, g.Status == "ok")
	if len(sp.Steps) <= 600 && !si.HasCirc {
		if sp5, err := hxlib.CompileSSA(p.Src, sizes); err == nil {
			emitScrambleOp(o, sp5, r.Fork(), p, i)
		}
	}

	info := map[string]any{"cause": cause, "early_free_kinds": si.kindsString(), "early_frees": si.UAFs, "ot": otName,
		"garbler": g.String(), "evaluator": e.String(), "whole": wo.String()}
	if g.Status != "ok" {
		if refOK {
			info["detail"] = errText(res)
			if res.GPanic != nil {
				info["panic"] = clip(fmt.Sprint(res.GPanic), 200)
			}
			if si.OpCount["builtin"] > 0 {
				attributeOutputSlots(p.Src, p.GIn, p.EIn, sizes, r, wo, info)
			}
			o.Fail("c05-stream-"+g.Status, mk(info))
		} else {
			o.Count("both_unavailable")
		}
		return
	}
	if g != e {
		info["explained_by_early_free"] = "false"
		o.Fail("c05-parties-differ", mk(info))
		return
	}
	if !refOK {
		return
	}
	o.Count("compared")
	if p.Lib != "" {
		libDone[p.Lib] = true
	}
	if si.NumGC > 0 && cause == "" {
		o.Count("compared_gc_active_no_early_free")
	}
	if g == wo {
		o.Count("agree")
		if len(o.Samples) < 3 {
			o.Sample(map[string]any{"case": i, "class": p.Class, "features": featList(p.Feat), "src": p.Src, "result": g.String()})
		}
		// the same program on its other input vectors (class upd: every
		// combination of its conditions)
		tag := uint64(0)
		tagOf := func(w *hxlib.WholeResult) {
			if p.HasTag && p.TagOut < len(w.Res) {
				tag |= w.Res[p.TagOut].Uint64()
			}
		}
		tagOf(w)
		for _, alt := range p.Alt {
			o.Count("alt_vectors")
			w2, ok, differ, inf := compareOnceW(p.Src, alt[0], alt[1], r)
			if !ok {
				o.Count("alt_vector_reference_unavailable")
				continue
			}
			o.Count("compared")
			tagOf(w2)
			if differ {
				inf["cause"], inf["early_free_kinds"], inf["early_frees"] = cause, si.kindsString(), si.UAFs
				inf["explained_by_early_free"] = "candidate"
				if cause == "" {
					inf["explained_by_early_free"] = "false"
				}
				inf["g_inputs"], inf["e_inputs"] = alt[0], alt[1]
				inf["found_by"] = "input vector of another combination of the program's conditions"
				if p.Lib != "" {
					inf["found_by"] = "second input vector of the program"
				}
				if cause == "" && si.OpCount["builtin"] > 0 {
					if s2, err := hxlib.StreamInputSizes(alt[0], alt[1]); err == nil {
						wo2 := outcome{Status: "ok", Vals: hxlib.BigsString(w2.Res), Types: hxlib.IODesc(w2.Out)}
						if attributeOutputSlots(p.Src, alt[0], alt[1], s2, r, wo2, inf) {
							inf["explained_by_early_free"] = "false"
						}
					}
				}
				o.Count("mismatch_" + cause + "_alt_vector")
				o.Fail("c05-stream-mismatch", mk(inf))
				return
			}
			o.Count("agree")
		}
		if p.HasTag {
			if tag&p.TagWant == p.TagWant {
				o.Count("upd_all_branches_taken")
			} else {
				o.Count("upd_some_branch_not_taken")
			}
		}
		if cause != "" {
			o.Count("agree_despite_early_free")
			if len(o.OracleFails) == 0 {
				// (once a failing input is known the search adds nothing)
				exposeEarlyFree(o, r, p, si, mk)
			}
		}
		return
	}
	// Mismatch.  Attribute: rerun the same program with exactly the gc
	// instructions dropped that free a range which is still pointed at.
	explained := "false"
	if cause != "" {
		sp2, err := hxlib.CompileSSA(p.Src, sizes)
		if err == nil {
			si2 := analyse(sp2)
			ndrop := dropUnsafeGC(sp2, si2)
			d2 := hxlib.NewDuplex(nil)
			res2 := hxlib.RunStreamProgram(sp2, p.GIn, p.EIn, nil, r.Fork(), d2, 90*time.Second)
			d2.Close()
			g2, e2 := streamOutcomes(res2)
			info["rerun_without_unsafe_gc"] = g2.String()
			info["unsafe_gc_dropped"] = ndrop
			if g2 == wo && e2 == wo {
				explained = "true"
			}
		}
	}
	info["explained_by_early_free"] = explained
	// Second attribution: constants used at a second width (Program.Stream
	// pads them from the first instance's wires; Program.Circuit takes the
	// constant's own bits since 3c18dfa).
	if explained == "false" && cause == "" && si.ConstPad > 0 {
		if sp3, err := hxlib.CompileSSA(p.Src, sizes); err == nil {
			nre := repadConstants(sp3)
			d3 := hxlib.NewDuplex(nil)
			res3 := hxlib.RunStreamProgram(sp3, p.GIn, p.EIn, nil, r.Fork(), d3, 90*time.Second)
			d3.Close()
			g3, e3 := streamOutcomes(res3)
			info["rerun_with_own_width_constants"] = g3.String()
			info["constants_repadded"] = nre
			if nre > 0 && g3 == wo && e3 == wo {
				cause = "const-second-width"
				info["cause"] = cause
				info["explained_by_const_width"] = "true"
			}
		}
	}
	// Third attribution: a value used before the step that defines it.
	if explained == "false" && info["explained_by_const_width"] == nil && si.UBD > 0 {
		if sp4, err := hxlib.CompileSSA(p.Src, sizes); err == nil {
			reorderDefBeforeUse(sp4)
			d4 := hxlib.NewDuplex(nil)
			res4 := hxlib.RunStreamProgram(sp4, p.GIn, p.EIn, nil, r.Fork(), d4, 90*time.Second)
			d4.Close()
			g4, e4 := streamOutcomes(res4)
			info["rerun_in_definition_order"] = g4.String()
			if g4 == wo && e4 == wo {
				cause = "use-before-def"
				info["cause"] = cause
				info["explained_by_reorder"] = "true"
			}
		}
	}
	// Fourth attribution: a circuit builder replaced slots of the result slice
	// that Program.Stream uses as the instruction circuit's outputs (libattr.go).
	if explained == "false" && cause == "" && si.OpCount["builtin"] > 0 {
		if attributeOutputSlots(p.Src, p.GIn, p.EIn, sizes, r, wo, info) {
			cause = "builder-replaced-output-slot"
		}
	}
	if g.Types != wo.Types {
		info["what"] = "types"
	} else {
		info["what"] = "values"
	}
	o.Count("mismatch_" + cause + "_explained_" + explained)
	o.Fail("c05-stream-mismatch", mk(info))
}

func runReplay(args []string) int {
	if len(args) < 1 {
		fmt.Fprintln(os.Stderr, "usage: c05 replay <replay.json>")
		return 2
	}
	b, err := os.ReadFile(args[0])
	if err != nil {
		fmt.Fprintln(os.Stderr, err)
		return 2
	}
	var rp struct {
		Failure struct {
			Src     string   `json:"src"`
			GInputs []string `json:"g_inputs"`
			EInputs []string `json:"e_inputs"`
		} `json:"failure"`
	}
	if err := json.Unmarshal(b, &rp); err != nil || rp.Failure.Src == "" {
		fmt.Fprintln(os.Stderr, "not a C05 input replay:", err)
		return 2
	}
	f := rp.Failure
	fmt.Printf("program:\n%s\ngarbler inputs: %s\nevaluator inputs: %s\n", f.Src, strings.Join(f.GInputs, " "), strings.Join(f.EInputs, " "))
	d := hxlib.NewDuplex(nil)
	res := hxlib.RunStreamSession(f.Src, f.GInputs, f.EInputs, nil, nil, d, 90*time.Second)
	g, e := streamOutcomes(res)
	w := hxlib.StreamReference(f.Src, f.GInputs, f.EInputs)
	fmt.Printf("streaming garbler  : %s\nstreaming evaluator: %s\n", g, e)
	if g.Status != "ok" {
		fmt.Println("  ", errText(res))
	}
	fmt.Printf("whole circuit      : ok %s %s err=%v panic=%v\n", hxlib.BigsString(w.Res), hxlib.IODesc(w.Out), w.Err, w.Panic)
	if g.Status == "ok" && g == e && g.Vals == hxlib.BigsString(w.Res) && g.Types == hxlib.IODesc(w.Out) {
		fmt.Println("AGREE")
		return 0
	}
	fmt.Println("DISAGREE")
	return 1
}

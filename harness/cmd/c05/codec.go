package main

// codec: the real Streaming.Garble (circuit/stream_garble.go) on random
// circuits with random in/out id maps (ids below and above 65535, so both id
// encodings are produced), fixed key and random tape; result = the bytes it
// appended to the connection, the wire pairs on the out ids.  The evaluator
// side is exercised by the oracle sessions; here the model's own decoder and
// evaluator are cross-checked on the same bytes (rt-ok, e=<output bits>), and
// the expected output bits come from the harness's reference evaluator.

import (
	"fmt"
	"strings"

	"github.com/markkurossi/mpc/circuit"
	"github.com/markkurossi/mpc/env"
	"github.com/markkurossi/mpc/p2p"

	"verifharness/hxlib"
)

func idsString(v []circuit.Wire) string {
	if len(v) == 0 {
		return "-"
	}
	var s []string
	for _, x := range v {
		s = append(s, fmt.Sprint(int(x)))
	}
	return strings.Join(s, ",")
}

func runCodec(args []string) int {
	cf, o := hxlib.ParseCommon("c05", args, nil)
	defer o.Close()
	rng := hxlib.NewRng(cf.Seed)
	mixes := []string{"uniform", "and", "orinv", "xnor"}
	for i := 0; i < cf.N; i++ {
		r := rng.Fork()
		if cf.Only >= 0 && i != cf.Only {
			continue
		}
		// id maps: distinct ids; classes: all small, all large, mixed, at the boundary
		cls := i % 5
		used := map[int]bool{}
		pick := func() circuit.Wire {
			for {
				var v int
				switch {
				case cls == 0 || cls == 4:
					v = r.Intn(0x10000)
				case cls == 1:
					v = 0x10000 + r.Intn(0x30000)
				case cls == 2:
					v = r.Intn(0x28000)
				default:
					v = 0xfff0 + r.Intn(0x20)
				}
				if !used[v] {
					used[v] = true
					return circuit.Wire(v)
				}
			}
		}
		// program input ids (labelled by NewStreaming) and their plain bits
		np := 2 + r.Intn(8)
		pids := make([]circuit.Wire, np)
		plain := map[circuit.Wire]bool{}
		x := make([]bool, np)
		var avail []circuit.Wire
		for j := range pids {
			pids[j] = pick()
			x[j] = r.Bool()
			plain[pids[j]] = x[j]
			avail = append(avail, pids[j])
		}
		ncirc := 1 + r.Intn(3)
		type spec struct {
			c       *circuit.Circuit
			in, out []circuit.Wire
		}
		var specs []spec
		var want []bool
		var opsb strings.Builder
		for k := 0; k < ncirc; k++ {
			c := hxlib.GenCircuit(r, hxlib.GenOpts{MaxGates: 50, MaxIn: 5, Mix: mixes[(i+k)%len(mixes)], AllowReuse: i%5 == 0})
			nin := c.Inputs.Size()
			nout := c.Outputs.Size()
			if nout > c.NumWires-nin {
				nout = c.NumWires - nin
			}
			if cls == 4 {
				// a circuit with more than 65536 wires: temporary wire
				// indexes above 65535 (some below) while every persistent
				// id is small
				ofs := 0x10000 - c.NumWires/2 + r.Intn(0x8000)
				if r.Intn(3) == 0 {
					ofs = 0xffff - nin - r.Intn(3) // first temporaries right at the boundary
				}
				firstOut := c.NumWires - nout
				cut := nin + r.Intn(firstOut-nin+1) // temporaries below cut keep their index
				mapw := func(w circuit.Wire) circuit.Wire {
					if int(w) < cut {
						return w
					}
					return w + circuit.Wire(ofs)
				}
				for gi := range c.Gates {
					g := &c.Gates[gi]
					g.Input0, g.Output = mapw(g.Input0), mapw(g.Output)
					if g.Op != circuit.INV {
						g.Input1 = mapw(g.Input1)
					}
				}
				c.NumWires += ofs
			}
			in := make([]circuit.Wire, nin)
			bits := make([]bool, nin)
			for j := range in {
				in[j] = avail[r.Intn(len(avail))] // duplicates allowed (uadd a a)
				bits[j] = plain[in[j]]
			}
			out := make([]circuit.Wire, nout)
			ref := hxlib.RefEval(c, bits)
			for j := range out {
				out[j] = pick()
				plain[out[j]] = ref[c.NumWires-nout+j]
			}
			avail = append(avail, out...)
			specs = append(specs, spec{c, in, out})
			fmt.Fprintf(&opsb, " %s %s %s", hxlib.CircLine(c), idsString(in), idsString(out))
		}
		for _, sp := range specs {
			for _, w := range sp.out {
				want = append(want, plain[w])
			}
		}
		keyLen := []int{16, 24, 32}[i%3]
		key := r.Bytes(keyLen)
		tape := r.Bytes(16 * (1 + np))
		op := fmt.Sprintf("c05 codec %s %s %s %s%s", hxlib.Hex(key), hxlib.Hex(tape), idsString(pids), hxlib.BitsString(x),
			opsb.String())
		res := func() (s string) {
			defer func() {
				if e := recover(); e != nil {
					s = "panic"
					o.Fail("c05-codec-panic", map[string]any{"case": i, "op": clip(op, 2000), "panic": fmt.Sprint(e)})
				}
			}()
			d := hxlib.NewDuplex(nil)
			conn := p2p.NewConn(d.A)
			st, err := circuit.NewStreaming(&env.Config{Rand: &hxlib.Tape{Data: tape}}, key, pids, conn)
			if err != nil {
				return "garble-error"
			}
			for _, sp := range specs {
				if _, _, err := st.Garble(sp.c, sp.in, sp.out); err != nil {
					return "garble-error"
				}
			}
			if err := conn.Flush(); err != nil {
				return "garble-error"
			}
			conn.Close()
			var sb strings.Builder
			fmt.Fprintf(&sb, "b=%s;o=", hxlib.Hex(d.AB.Rec))
			for _, sp := range specs {
				for _, w := range sp.out {
					ow := st.GetInput(w)
					fmt.Fprintf(&sb, "%s%s", ow.L0.String(), ow.L1.String())
				}
			}
			e := hxlib.BitsString(want)
			if len(want) == 0 {
				e = ""
			}
			fmt.Fprintf(&sb, ";rt-ok;e=%s", e)
			return sb.String()
		}()
		o.Op(op, res)
		o.Count("codec_cases")
		o.Count(fmt.Sprintf("codec_circuits_%d", ncirc))
		o.Count(fmt.Sprintf("codec_idclass_%d", cls))
		o.Count(fmt.Sprintf("codec_key_%d", keyLen))
	}
	return 0
}

package main

// Attribution of a streaming failure to "a circuit builder replaced slots of
// its result slice".
//
// The builders of compiler/circuits may store another wire into a slot of
// the result slice they are given instead of driving the wire that is there
// (NewAdder / the multipliers / the dividers set the leftover high bits of a
// result that is wider than the operands need with `z[i] = cc.ZeroWire()`).
// Program.Circuit reads the value's wires from that slice afterwards, so the
// whole-circuit mode is fine.  Program.Stream hands the builder the slice
// that is the instruction circuit's OutputWires: the replaced slot makes a
// non-output wire an output of the circuit.  Then circuits.Compiler.Compile
//   - panics "Output already assigned" when the same replacement wire sits in
//     two slots (or was given an id by a gate), or
//   - gives the (pruned, undriven) replacement wire a fresh id: no gate of the
//     streamed circuit drives that output, the global wire keeps the labels of
//     the value that had the id before.
//
// Reachable today through Builtin instructions (`native("hamming", a, b)`:
// the final adder's operands have ~log2(n) bits, the result n).  The
// instruction's builder is a public field (ssa.Instr.Builtin), so the harness
// can re-run the session with exactly the repaired behaviour: the builder
// works on a copy of the slice and every replaced slot is connected to the
// original output wire with an ID gate (what Program.Circuit does for `ret`).

import (
	"time"

	"github.com/markkurossi/mpc/compiler/circuits"
	"github.com/markkurossi/mpc/compiler/ssa"

	"verifharness/hxlib"
)

// rewireBuiltins wraps the builder of every Builtin instruction of sp.
// *replaced counts the result slots the builders replaced while the program
// was streamed.
func rewireBuiltins(sp *ssa.Program) (nbuiltin int, replaced *int) {
	replaced = new(int)
	for i := range sp.Steps {
		in := &sp.Steps[i].Instr
		if in.Op != ssa.Builtin || in.Builtin == nil {
			continue
		}
		nbuiltin++
		orig := in.Builtin
		in.Builtin = func(cc *circuits.Compiler, a, b, r []*circuits.Wire) error {
			tmp := make([]*circuits.Wire, len(r))
			copy(tmp, r)
			if err := orig(cc, a, b, tmp); err != nil {
				return err
			}
			for j := range r {
				if tmp[j] != r[j] {
					*replaced++
					cc.ID(tmp[j], r[j])
				}
			}
			return nil
		}
	}
	return
}

// attributeOutputSlots re-runs (src, inputs) with rewireBuiltins and records
// the outcome in info.  True when the re-run agrees with the whole-circuit
// reference at both parties and at least one slot had been replaced.
func attributeOutputSlots(src string, gin, ein []string, sizes [][]int, r *hxlib.Rng, wo outcome, info map[string]any) bool {
	sp, err := hxlib.CompileSSA(src, sizes)
	if err != nil {
		return false
	}
	nb, replaced := rewireBuiltins(sp)
	if nb == 0 {
		return false
	}
	d := hxlib.NewDuplex(nil)
	res := hxlib.RunStreamProgram(sp, gin, ein, nil, r.Fork(), d, 90*time.Second)
	d.Close()
	g, e := streamOutcomes(res)
	info["rerun_with_outputs_rewired"] = g.String()
	info["output_slots_replaced"] = *replaced
	info["builtin_instructions"] = nb
	if *replaced > 0 && g == wo && e == wo {
		info["cause"] = "builder-replaced-output-slot"
		info["explained_by_output_rewire"] = "true"
		return true
	}
	return false
}

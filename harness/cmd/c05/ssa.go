package main

// Analysis of the SSA program the streaming garbler walks (after Program.GC).
//
// The streamer (compiler/ssa/streamer.go) does not garble anything for
// concat/lshift/rshift/srshift/slice/mov/smov/amov: it copies wire ids of the
// inputs into the output value's id slice.  `gc v` (WireAllocator.GCWires)
// returns v's OWN id range to a free list.  The analysis replays this
// symbolically per bit: every bit of every value is (owner value, bit, how
// many rewiring steps away, whether a concat was on the way) and reports
// every read of a bit whose owner has been gc'd before (use after free).

import (
	"fmt"
	"math/big"
	"sort"
	"strings"

	"github.com/markkurossi/mpc/compiler/mpa"
	"github.com/markkurossi/mpc/compiler/ssa"
	"github.com/markkurossi/mpc/types"
)

type origin struct {
	owner  int // key index of the owning value; -1 = constant / zero / sign pad of a const
	bit    int
	depth  int
	concat bool
}

type uaf struct {
	Step   int
	Reader string
	Owner  string
	Kind   string // self | direct | chain | concat
	// where the owner's range was freed, its size, and the first instruction
	// between the gc and the read that allocates a value of exactly that size
	// (newIDs pops the free list of the size: that value gets the range)
	FreedAt   int
	OwnerBits int
	ReusedBy  string
}

type ssaInfo struct {
	keys     map[string]int
	names    []string
	UAFs     []uaf
	Kinds    map[string]int
	Owners   map[int]bool // owners freed too early
	OpCount  map[string]int
	NumGC    int
	NumSteps int
	HasCirc  bool
	MaxBits  int
	UBD      int      // reads of a value before the step that defines it
	UBDList  []string // first few
	DupOut   int      // values defined twice
	ConstPad int // constant inputs whose wires are padded / truncated by the streamer
	SignPad  int // ... of signed type defined narrower than used (sign-extending pad)
}

func valueKey(v *ssa.Value) string {
	p := ""
	if v.PtrInfo != nil {
		p = fmt.Sprintf("%s@%d+%d", v.PtrInfo.Name, v.PtrInfo.Scope, v.PtrInfo.Offset)
	}
	return fmt.Sprintf("%v|%s|%d|%d|%s", v.Const, v.Name, v.Scope, v.Version, p)
}

func (si *ssaInfo) key(v *ssa.Value) int {
	k := valueKey(v)
	if i, ok := si.keys[k]; ok {
		return i
	}
	i := len(si.names)
	si.keys[k] = i
	si.names = append(si.names, v.String())
	return i
}

func isRewire(op ssa.Operand) bool {
	switch op {
	case ssa.Concat, ssa.Lshift, ssa.Rshift, ssa.Srshift, ssa.Slice, ssa.Mov, ssa.Smov, ssa.Amov:
		return true
	}
	return false
}

func analyse(prog *ssa.Program) *ssaInfo {
	si := &ssaInfo{keys: map[string]int{}, Kinds: map[string]int{}, Owners: map[int]bool{}, OpCount: map[string]int{}}
	vals := map[int][]origin{}
	freed := map[int]bool{}
	freedAt := map[int]int{}
	constO := origin{owner: -1}
	get := func(v *ssa.Value) []origin {
		if v.Const {
			o := make([]origin, v.Type.Bits)
			for i := range o {
				o[i] = constO
			}
			return o
		}
		k := si.key(v)
		o, ok := vals[k]
		if !ok {
			// program input (or a value the allocator sees for the first time)
			o = make([]origin, v.Type.Bits)
			for i := range o {
				o[i] = origin{owner: k, bit: i}
			}
			vals[k] = o
		}
		return o
	}
	at := func(o []origin, i int, pad origin) origin {
		if i >= 0 && i < len(o) {
			return o[i]
		}
		return pad
	}
	cint := func(v *ssa.Value) int {
		n, err := v.ConstInt()
		if err != nil {
			return 0
		}
		return int(n)
	}
	si.NumSteps = len(prog.Steps)
	// definition before use / single assignment on Value.ID (the hypotheses
	// `dbu` and `Nodup outs` of Mpc.C05_gc_safe): a value read by step i must
	// not be the output of step i or of a later step
	lastDef := map[ssa.ValueID]int{}
	nDefs := map[ssa.ValueID]int{}
	for i := range prog.Steps {
		in := &prog.Steps[i].Instr
		if in.Op != ssa.GC && in.Out != nil {
			lastDef[in.Out.ID] = i
			nDefs[in.Out.ID]++
		}
	}
	for _, n := range nDefs {
		if n > 1 {
			si.DupOut++
		}
	}
	for i := range prog.Steps {
		in := &prog.Steps[i].Instr
		if in.Op == ssa.GC {
			continue
		}
		for j := range in.In {
			v := &in.In[j]
			if v.Const {
				continue
			}
			if d, ok := lastDef[v.ID]; ok && d >= i {
				si.UBD++
				if len(si.UBDList) < 6 {
					si.UBDList = append(si.UBDList, fmt.Sprintf("step %d `%s` reads %s defined by step %d", i,
						strings.Join(strings.Fields(in.String()), " "), v.String(), d))
				}
			}
		}
	}
	constBitsOf := map[string]int{}
	for _, c := range prog.Constants {
		v := c.Const
		constBitsOf[valueKey(&v)] = int(v.Type.Bits)
	}
	for idx := range prog.Steps {
		in := &prog.Steps[idx].Instr
		si.OpCount[in.Op.String()]++
		if in.Op == ssa.GC {
			si.NumGC++
			freed[si.key(in.GC)] = true
			freedAt[si.key(in.GC)] = idx
			continue
		}
		if in.Op == ssa.Circ {
			si.HasCirc = true
		}
		var ws [][]origin
		for i := range in.In {
			v := &in.In[i]
			o := get(v)
			if int(v.Type.Bits) > si.MaxBits {
				si.MaxBits = int(v.Type.Bits)
			}
			ws = append(ws, o)
			if v.Const {
				if n, ok := constBitsOf[valueKey(v)]; ok && n != int(v.Type.Bits) {
					si.ConstPad++
					if v.Type.Type == types.TInt && n < int(v.Type.Bits) {
						si.SignPad++
					}
				}
				continue
			}
			seen := map[string]bool{}
			for _, b := range o {
				if b.owner >= 0 && freed[b.owner] {
					kind := "self"
					switch {
					case b.concat:
						kind = "concat"
					case b.depth >= 2:
						kind = "chain"
					case b.depth == 1:
						kind = "direct"
					}
					sig := fmt.Sprintf("%d/%s", b.owner, kind)
					if seen[sig] {
						continue
					}
					seen[sig] = true
					si.Kinds[kind]++
					si.Owners[b.owner] = true
					if len(si.UAFs) < 8 {
						si.UAFs = append(si.UAFs, uaf{Step: idx, Reader: v.String(), Owner: si.names[b.owner], Kind: kind,
							FreedAt: freedAt[b.owner], OwnerBits: len(vals[b.owner])})
					}
				}
			}
		}
		if in.Out == nil {
			continue
		}
		ko := si.key(in.Out)
		n := int(in.Out.Type.Bits)
		out := make([]origin, n)
		if !isRewire(in.Op) {
			for i := range out {
				out[i] = origin{owner: ko, bit: i}
			}
			vals[ko] = out
			continue
		}
		via := func(o origin) origin {
			if o.owner < 0 {
				return o
			}
			o.depth++
			if in.Op == ssa.Concat {
				o.concat = true
			}
			return o
		}
		w0 := ws[0]
		switch in.Op {
		case ssa.Concat:
			for b := 0; b < n; b++ {
				if b < len(w0) {
					out[b] = via(w0[b])
				} else {
					out[b] = via(at(ws[1], b-len(w0), constO))
				}
			}
		case ssa.Lshift:
			c := cint(&in.In[1])
			for b := 0; b < n; b++ {
				out[b] = via(at(w0, b-c, constO))
				if b-c < 0 {
					out[b] = constO
				}
			}
		case ssa.Rshift, ssa.Srshift:
			c := cint(&in.In[1])
			pad := constO
			if in.Op == ssa.Srshift && len(w0) > 0 {
				pad = w0[len(w0)-1]
			}
			for b := 0; b < n; b++ {
				out[b] = via(at(w0, b+c, pad))
			}
		case ssa.Slice:
			from, to := cint(&in.In[1]), cint(&in.In[2])
			for b := from; b < to && b-from < n; b++ {
				out[b-from] = via(at(w0, b, constO))
			}
		case ssa.Mov, ssa.Smov:
			pad := constO
			if in.Op == ssa.Smov && len(w0) > 0 {
				pad = w0[len(w0)-1]
			}
			for b := 0; b < n; b++ {
				out[b] = via(at(w0, b, pad))
			}
		case ssa.Amov:
			from, to := cint(&in.In[2]), cint(&in.In[3])
			for b := 0; b < n; b++ {
				if b < from || b >= to {
					out[b] = via(at(ws[1], b, constO))
				} else {
					out[b] = via(at(w0, b-from, constO))
				}
			}
		}
		vals[ko] = out
	}
	// who gets the freed range: the first value of the same size that is
	// allocated (first occurrence as an output) between the gc and the read
	for u := range si.UAFs {
		f := &si.UAFs[u]
		f.ReusedBy = "no value of this size is allocated between the gc and the read"
		for idx := f.FreedAt + 1; idx < f.Step && idx < len(prog.Steps); idx++ {
			in := &prog.Steps[idx].Instr
			if in.Op == ssa.GC || in.Out == nil || in.Out.Const || int(in.Out.Type.Bits) != f.OwnerBits {
				continue
			}
			how := "garbled: its wires are written"
			if isRewire(in.Op) {
				how = "rewired: holds the range without writing it"
			}
			f.ReusedBy = fmt.Sprintf("step %d `%s` (%s)", idx, strings.Join(strings.Fields(in.String()), " "), how)
			break
		}
	}
	return si
}

// cause names the kind of early free present in the program ("" = none):
// concat beats chain beats direct beats self (the more specific one first).
func (si *ssaInfo) cause() string {
	for _, k := range []string{"self", "direct", "concat", "chain"} {
		// unexpected kinds first: a program that has one is never attributed
		// to the known alias-tracking gaps
		if si.Kinds[k] > 0 {
			switch k {
			case "self":
				return "gc-self"
			case "direct":
				return "gc-direct-alias"
			case "concat":
				return "gc-concat"
			default:
				return "gc-alias-chain"
			}
		}
	}
	return ""
}

func (si *ssaInfo) kindsString() string {
	var s []string
	for k, n := range si.Kinds {
		s = append(s, fmt.Sprintf("%s=%d", k, n))
	}
	sort.Strings(s)
	return strings.Join(s, ",")
}

// dropUnsafeGC removes the gc steps of owners that the analysis found freed
// while still pointed at.
func dropUnsafeGC(prog *ssa.Program, si *ssaInfo) int {
	var steps []ssa.Step
	n := 0
	for _, s := range prog.Steps {
		if s.Instr.Op == ssa.GC {
			if k, ok := si.keys[valueKey(s.Instr.GC)]; ok && si.Owners[k] {
				n++
				continue
			}
		}
		steps = append(steps, s)
	}
	prog.Steps = steps
	return n
}

// repadConstants rewrites the program so that every constant input that
// Program.Stream would pad / truncate from ANOTHER instance's wires ("Const
// values are cast to different value sizes") becomes a constant of its own
// with exactly the instruction's width and the bits Program.Circuit gives it
// since 3c18dfa (bits of the constant's own value, signed constants extended
// from the constant's own size).  Used only to attribute a mismatch.
func repadConstants(prog *ssa.Program) int {
	constBitsOf := map[string]int{}
	for _, c := range prog.Constants {
		v := c.Const
		constBitsOf[valueKey(&v)] = int(v.Type.Bits)
	}
	n := 0
	for i := range prog.Steps {
		in := &prog.Steps[i].Instr
		for j := range in.In {
			v := &in.In[j]
			if !v.Const {
				continue
			}
			alloc, ok := constBitsOf[valueKey(v)]
			if !ok || alloc == int(v.Type.Bits) {
				continue
			}
			mi, ok := v.ConstValue.(*mpa.Int)
			if !ok {
				continue
			}
			// operands that the streamer / circuit generators read with ConstInt
			switch in.Op {
			case ssa.Lshift, ssa.Rshift, ssa.Srshift, ssa.Slice, ssa.Index, ssa.Bts, ssa.Btc:
				if j >= 1 {
					continue
				}
			case ssa.Amov:
				if j >= 2 {
					continue
				}
			}
			own := types.Size(mi.TypeSize())
			if own > v.Type.Bits {
				own = v.Type.Bits
			}
			pat := new(big.Int)
			for bit := types.Size(0); bit < v.Type.Bits; bit++ {
				src := bit
				if src >= own && v.Type.Type == types.TInt {
					src = own - 1
				}
				if src < own && v.Bit(src) {
					pat.SetBit(pat, int(bit), 1)
				}
			}
			nv := *v
			nv.Name = fmt.Sprintf("%s~w%d%s", v.Name, v.Type.Bits, v.Type.Type)
			nv.ConstValue = pat
			in.In[j] = nv
			prog.Constants[nv.Name] = ssa.ConstantInst{Const: nv}
			n++
		}
	}
	return n
}

// reorderDefBeforeUse re-emits the steps in dependency order (the defining
// step of every non-constant input first) and drops all gc instructions (they
// were placed for the wrong order; dropping them is always safe).  Used only
// to attribute a mismatch to a use before definition.
func reorderDefBeforeUse(prog *ssa.Program) {
	var steps []ssa.Step
	for _, s := range prog.Steps {
		if s.Instr.Op != ssa.GC {
			steps = append(steps, s)
		}
	}
	defAt := map[ssa.ValueID]int{}
	for i := range steps {
		if steps[i].Instr.Out != nil {
			defAt[steps[i].Instr.Out.ID] = i
		}
		for _, r := range steps[i].Instr.Ret {
			defAt[r.ID] = i
		}
	}
	emitted := make([]bool, len(steps))
	var out []ssa.Step
	var emit func(i int)
	emit = func(i int) {
		if emitted[i] {
			return
		}
		emitted[i] = true
		for _, in := range steps[i].Instr.In {
			if in.Const {
				continue
			}
			if j, ok := defAt[in.ID]; ok {
				emit(j)
			}
		}
		out = append(out, steps[i])
	}
	for i := range steps {
		emit(i)
	}
	prog.Steps = out
}

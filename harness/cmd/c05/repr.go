// c05 repr: input REPRESENTATIONS.
//
// "Every program and input" ranges over the input TEXTS the public API
// accepts.  All three consumers turn them into a *big.Int with the same
// circuit.IOArg.Parse and read the value with big.Int.Bit:
//
//	streaming garbler    compiler.Stream: `input, err := program.Inputs[0].Parse(inputFlag)`,
//	                     ssa.Program.Stream: `if inputs.Bit(i) == 1 { n = wire.L1 }`
//	streaming evaluator  circuit.StreamEvaluator: `inputs, err = in2.Parse(inputFlag)` on the argument
//	                     description it RECEIVED, `flags[i] = inputs.Bit(i) == 1` into the OT
//	whole circuit        circ.Inputs[i].Parse(...), Circuit.Compute: `wires[w] = byte(inputs[idx].Bit(bit))`
//
// `SetString(s, 0)` gives a NEGATIVE big.Int for "-5" (int and uint arguments
// alike) and a value of any magnitude for a long literal; nothing reduces it
// to the declared width.  The other classes write negative decimals of at most
// 62 bits for int arguments and never a magnitude wider than the argument.
// This class runs small programs whose arguments are int / uint of widths
// around and beyond the machine word (3..130 bits), bool, structs and arrays,
// each on several input vectors drawn from the value classes of
// harness/cmd/c02/repr.go: 0, in range, -1, negative in the signed range,
// -2^(w-1), 2^(w-1)-1, 2^w-1, +-2^w, magnitudes with bits beyond w (positive
// and negative, up to 130 bits beyond), magnitudes at machine-word boundaries
// (+-2^32, +-2^63, +-2^64, +-2^65, +-2^128, +-1), written in decimal, 0x, 0b,
// 0o and with a sign; array texts shorter than, as long as and LONGER than the
// array (Parse rejects those: "too many values"), negative array decimals;
// unsized `int` / `uint` arguments instantiated from the text's size.
//
// Oracle, per vector: the streaming garbler, the streaming evaluator and the
// whole-circuit reference agree on values and types; an input that one mode
// REJECTS and the other accepts is a disagreement; a scalar argument returned
// unchanged equals the integer's residue mod 2^w (two's complement) in the
// reference.  Every failure carries src / g_inputs / e_inputs: `c05 replay`
// runs exactly that program on exactly these texts.
package main

import (
	"fmt"
	"math/big"
	"strings"
	"time"

	"verifharness/hxlib"
)

func pow2(k int) *big.Int { return new(big.Int).Lsh(big.NewInt(1), uint(k)) }

func randBig(r *hxlib.Rng, bits int) *big.Int {
	v := new(big.Int)
	for i := 0; i < bits; i++ {
		if r.Bool() {
			v.SetBit(v, i, 1)
		}
	}
	return v
}

// genInt picks an integer for an argument of width w; the class name is counted.
func genInt(r *hxlib.Rng, w int) (*big.Int, string) {
	one := big.NewInt(1)
	neg := func(v *big.Int) *big.Int { return new(big.Int).Neg(v) }
	switch r.Intn(16) {
	case 0:
		return new(big.Int), "zero"
	case 1, 2:
		return randBig(r, w), "in_range"
	case 3:
		return big.NewInt(-1), "minus_one"
	case 4, 5:
		v := randBig(r, w-1)
		v.Add(v, one)
		return neg(v), "negative_in_signed_range"
	case 6:
		return neg(pow2(w - 1)), "min_signed"
	case 7:
		if r.Bool() {
			return new(big.Int).Sub(pow2(w-1), one), "max_signed"
		}
		return new(big.Int).Sub(pow2(w), one), "max_unsigned"
	case 8:
		if r.Bool() {
			return pow2(w), "two_pow_w"
		}
		return neg(pow2(w)), "minus_two_pow_w"
	case 9, 10:
		v := randBig(r, w+1+r.Intn(130))
		v.SetBit(v, w+r.Intn(3), 1)
		return v, "positive_wider_than_argument"
	case 11, 12:
		v := randBig(r, w+1+r.Intn(130))
		v.SetBit(v, w+r.Intn(3), 1)
		return neg(v), "negative_wider_than_argument"
	case 13, 14:
		k := []int{63, 64, 64, 128, 32, 65}[r.Intn(6)]
		v := pow2(k)
		switch r.Intn(3) {
		case 0:
			v.Add(v, one)
		case 1:
			v.Sub(v, one)
		}
		if r.Intn(3) != 0 {
			return neg(v), "negative_word_boundary_magnitude"
		}
		return v, "positive_word_boundary_magnitude"
	default:
		return big.NewInt(-int64(1 + r.Intn(1000))), "small_negative"
	}
}

var reprValueClasses = []string{"zero", "in_range", "minus_one", "negative_in_signed_range", "min_signed", "max_signed",
	"max_unsigned", "two_pow_w", "minus_two_pow_w", "positive_wider_than_argument", "negative_wider_than_argument",
	"negative_word_boundary_magnitude", "positive_word_boundary_magnitude", "small_negative"}

// genIntClass draws until the wanted class comes (want == ""): any; neg: negative.
func genIntClass(r *hxlib.Rng, w int, want string, neg bool) (*big.Int, string) {
	for {
		v, cls := genInt(r, w)
		if (want == "" || cls == want) && (!neg || v.Sign() < 0) {
			return v, cls
		}
	}
}

// intText writes v in one of the notations SetString(s, 0) accepts.
func intText(r *hxlib.Rng, v *big.Int) string {
	sign := ""
	a := new(big.Int).Abs(v)
	if v.Sign() < 0 {
		sign = "-"
	}
	switch r.Intn(6) {
	case 0:
		return sign + "0x" + a.Text(16)
	case 1:
		return sign + "0b" + a.Text(2)
	case 2:
		return sign + "0o" + a.Text(8)
	case 3:
		if v.Sign() > 0 {
			return "+" + a.Text(10)
		}
	}
	return v.String()
}

// rarg is one main argument of a repr program.
type rarg struct {
	kind    string // scalar | bool | struct | array | unsized
	decl    string // type text in the signature
	tdecl   string // type declaration (struct)
	signed  bool
	bits    int
	members []rarg // struct
	names   []string
	n, eb   int // array: count, element bits
}

var reprWidths = []int{3, 7, 8, 13, 16, 31, 32, 33, 63, 64, 65, 70, 100, 127, 128, 129, 130}

func reprScalar(r *hxlib.Rng, wide bool) rarg {
	w := reprWidths[r.Intn(len(reprWidths))]
	if wide {
		w = []int{65, 70, 100, 127, 128, 129, 130}[r.Intn(7)]
	}
	signed := r.Intn(3) != 0
	d := fmt.Sprintf("uint%d", w)
	if signed {
		d = fmt.Sprintf("int%d", w)
	}
	return rarg{kind: "scalar", decl: d, signed: signed, bits: w}
}

func reprArg(r *hxlib.Rng, name string, kindSel int) rarg {
	switch kindSel {
	case 0, 1, 2:
		return reprScalar(r, false)
	case 3:
		return reprScalar(r, true)
	case 4:
		tn := "T" + strings.ToUpper(name)
		a := rarg{kind: "struct", decl: tn}
		var sb strings.Builder
		fmt.Fprintf(&sb, "type %s struct {\n", tn)
		nm := 2 + r.Intn(2)
		for i := 0; i < nm; i++ {
			m := reprScalar(r, r.Intn(4) == 0)
			if r.Intn(5) == 0 {
				m = rarg{kind: "bool", decl: "bool", bits: 1}
			}
			fn := fmt.Sprintf("f%d", i)
			fmt.Fprintf(&sb, "\t%s %s\n", fn, m.decl)
			a.members = append(a.members, m)
			a.names = append(a.names, fn)
			a.bits += m.bits
		}
		sb.WriteString("}\n")
		a.tdecl = sb.String()
		return a
	case 5:
		eb := []int{4, 8, 16, 32, 64}[r.Intn(5)]
		n := 2 + r.Intn(4)
		return rarg{kind: "array", decl: fmt.Sprintf("[%d]uint%d", n, eb), n: n, eb: eb, bits: n * eb}
	case 6:
		return rarg{kind: "bool", decl: "bool", bits: 1}
	default:
		// unsized: instantiated from the size of the text
		signed := r.Bool()
		d := "uint"
		if signed {
			d = "int"
		}
		return rarg{kind: "unsized", decl: d, signed: signed}
	}
}

// results of an argument: the expressions that return all of its bits, their
// types, and a scalar expression (with its type) for the mixing operation.
func (a rarg) results(name string) (exprs, typs []string, sexpr, styp string) {
	switch a.kind {
	case "struct":
		for i, m := range a.members {
			exprs = append(exprs, name+"."+a.names[i])
			typs = append(typs, m.decl)
			if m.kind == "scalar" && sexpr == "" {
				sexpr, styp = name+"."+a.names[i], m.decl
			}
		}
	case "array":
		exprs, typs = []string{name}, []string{fmt.Sprintf("[]uint%d", a.eb)}
		sexpr, styp = name+"[0]", fmt.Sprintf("uint%d", a.eb)
	case "bool":
		exprs, typs = []string{name}, []string{"bool"}
	default:
		exprs, typs = []string{name}, []string{a.decl}
		sexpr, styp = name, a.decl
	}
	return
}

// reprSource: main returns every bit of both arguments and, when both have a
// scalar, a sum, a difference and a comparison across the two parties.
func reprSource(a, b rarg) (src string, passA, passB int) {
	ea, ta, sa, sta := a.results("a")
	eb, tb, sb, _ := b.results("b")
	exprs := append(append([]string{}, ea...), eb...)
	typs := append(append([]string{}, ta...), tb...)
	passA, passB = -1, -1
	if a.kind == "scalar" {
		passA = 0
	}
	if b.kind == "scalar" {
		passB = len(ea)
	}
	if sa != "" && sb != "" && a.kind != "unsized" && b.kind != "unsized" {
		exprs = append(exprs, fmt.Sprintf("%s + %s(%s)", sa, sta, sb), fmt.Sprintf("%s - %s(%s)", sa, sta, sb),
			fmt.Sprintf("%s < %s(%s)", sa, sta, sb))
		typs = append(typs, sta, sta, "bool")
	} else if a.kind == "unsized" && b.kind == "unsized" && a.signed == b.signed {
		exprs = append(exprs, "a + b")
		typs = append(typs, a.decl)
	}
	src = fmt.Sprintf("package main\n%s%sfunc main(a %s, b %s) (%s) {\n\treturn %s\n}\n", a.tdecl, b.tdecl, a.decl, b.decl,
		strings.Join(typs, ", "), strings.Join(exprs, ", "))
	return
}

// rvec is one party's input texts with what is known about them.
type rvec struct {
	texts   []string
	value   *big.Int // scalar argument: the integer written
	classes []string
	reject  bool // a text Parse is expected to reject (array too long)
}

func reprTexts(r *hxlib.Rng, o *hxlib.Out, a rarg, neg bool, want string) rvec {
	var v rvec
	scalar := func(m rarg, neg bool, want string) string {
		x, cls := genIntClass(r, m.bits, want, neg)
		v.classes = append(v.classes, cls)
		o.Count("repr_value_" + cls)
		if x.Sign() < 0 {
			o.Count("repr_text_negative")
			if m.bits > 64 {
				o.Count("repr_negative_for_argument_over_64_bits")
				if x.BitLen() > 64 {
					o.Count("repr_negative_beyond_64_bits_for_argument_over_64_bits")
				}
			}
			if !m.signed {
				o.Count("repr_negative_for_unsigned_argument")
			}
		}
		if x.BitLen() > m.bits {
			o.Count("repr_magnitude_wider_than_argument")
		}
		if a.kind == "scalar" {
			v.value = x
		}
		return intText(r, x)
	}
	switch a.kind {
	case "scalar":
		v.texts = []string{scalar(a, neg, want)}
	case "bool":
		v.texts = []string{[]string{"0", "1", "true", "false", "t", "f"}[r.Intn(6)]}
	case "struct":
		for _, m := range a.members {
			if m.kind == "bool" {
				v.texts = append(v.texts, []string{"0", "1", "true", "false"}[r.Intn(4)])
			} else {
				v.texts = append(v.texts, scalar(m, neg && r.Bool(), ""))
			}
		}
		o.Count("repr_struct_argument")
	case "array":
		digits := a.bits / 4
		switch r.Intn(6) {
		case 0:
			v.texts = []string{"0x" + hexDigits(r, digits)}
			o.Count("repr_array_exact_hex")
		case 1:
			v.texts = []string{"0x" + hexDigits(r, 1+r.Intn(digits))}
			o.Count("repr_array_short_hex")
		case 2:
			v.texts = []string{"0x" + hexDigits(r, digits+1+r.Intn(6))}
			v.reject = true
			o.Count("repr_array_too_long_hex")
		case 3:
			x := randBig(r, a.bits+1+r.Intn(40))
			x.SetBit(x, a.bits+r.Intn(3), 1)
			v.texts = []string{x.String()}
			v.reject = true
			o.Count("repr_array_too_long_decimal")
		case 4:
			v.texts = []string{"-" + randBig(r, 1+r.Intn(a.bits)).String()}
			o.Count("repr_array_negative_decimal")
		default:
			v.texts = []string{randBig(r, 1+r.Intn(a.bits)).String()}
			o.Count("repr_array_decimal")
		}
	default: // unsized
		w := []int{1, 3, 8, 31, 32, 33, 63, 64, 65, 100}[r.Intn(10)]
		x := randBig(r, w)
		x.SetBit(x, w-1, 1)
		if neg || (a.signed && r.Bool()) {
			x.Neg(x)
			o.Count("repr_unsized_negative_text")
		}
		v.texts = []string{x.String()}
		if r.Intn(3) == 0 && x.Sign() >= 0 {
			v.texts = []string{"0x" + x.Text(16)}
		}
		o.Count("repr_unsized_argument")
	}
	return v
}

func runRepr(args []string) int {
	cf, o := hxlib.ParseCommon("c05", args, nil)
	defer o.Close()
	// NewRng(s) and NewRng(s+1) are one stream shifted by a draw: start from a mixed state
	rng := hxlib.NewRng(hxlib.NewRng(cf.Seed^0x72657072).U64() ^ cf.Seed<<32)
	vectors := 5
	if cf.Tier == "thorough" {
		vectors = 8
	}
	nv := 0
	for i := 0; i < cf.N; i++ {
		r := rng.Fork()
		if cf.Only >= 0 && i != cf.Only {
			continue
		}
		// argument kinds walk with the case index (garbler: i, evaluator: i/8) so that every kind meets every kind
		ka, kb := i%8, (i/8+3*i)%8
		a, b := reprArg(r, "a", ka), reprArg(r, "b", kb)
		if a.kind == "unsized" && b.kind != "unsized" && b.kind != "scalar" {
			b = reprScalar(r, false)
		}
		src, passA, passB := reprSource(a, b)
		o.Count("repr_programs")
		o.Count("repr_garbler_arg_" + a.kind)
		o.Count("repr_evaluator_arg_" + b.kind)
		for j := 0; j < vectors; j++ {
			// vector j: the value class of a scalar argument walks through all classes; evaluator negative on even,
			// garbler negative on odd vectors
			want := reprValueClasses[(nv+j)%len(reprValueClasses)]
			gNeg, gWant, eNeg, eWant := j%2 == 1, "", j%2 == 0, ""
			if a.kind == "scalar" && j%2 == 1 {
				gNeg, gWant = false, want
			} else if b.kind == "scalar" && j%2 == 0 {
				eNeg, eWant = false, want
			}
			ga := reprTexts(r, o, a, gNeg, gWant)
			eb := reprTexts(r, o, b, eNeg, eWant)
			nv++
			reprVector(o, cf, i, j, r, src, a, b, ga, eb, passA, passB)
		}
	}
	return 0
}

func reprVector(o *hxlib.Out, cf *hxlib.CommonFlags, i, j int, r *hxlib.Rng, src string, a, b rarg, ga, eb rvec,
	passA, passB int) {

	o.Count("repr_vectors")
	base := map[string]any{"case": i, "vector": j, "seed": cf.Seed, "class": "repr", "src": src, "g_inputs": ga.texts,
		"e_inputs": eb.texts, "garbler_arg": a.decl, "evaluator_arg": b.decl, "garbler_value_classes": ga.classes,
		"evaluator_value_classes": eb.classes,
		"rerun":                   fmt.Sprintf("c05 repr -seed %d -n %d -only %d -tier %s", cf.Seed, cf.N, i, cf.Tier),
		"replay_cmd":              "cd /verif/harness && GOFLAGS=-mod=mod GOPROXY=off MPCLDIR=$VERIF_REPO go run -tags verif ./cmd/c05 replay <this replay file>   # runs only this program on these texts: streaming pair vs whole circuit"}
	mk := func(extra map[string]any) map[string]any {
		m := map[string]any{}
		for k, v := range base {
			m[k] = v
		}
		for k, v := range extra {
			m[k] = v
		}
		return m
	}
	w := hxlib.StreamReference(src, ga.texts, eb.texts)
	refOK := w.Err == nil && w.Panic == nil
	wo := outcome{Status: "ok", Vals: hxlib.BigsString(w.Res), Types: hxlib.IODesc(w.Out)}

	otName := "ideal"
	var otf hxlib.OTFactory
	if (i+j)%3 == 1 {
		otName = "co"
		otf = hxlib.COFactory(r.Fork())
	}
	var frag *hxlib.Rng
	if j%2 == 1 {
		frag = r.Fork()
	}
	d := hxlib.NewDuplex(frag)
	res := hxlib.RunStreamSession(src, ga.texts, eb.texts, otf, r.Fork(), d, 90*time.Second)
	d.Close()
	o.Count("repr_ot_" + otName)
	g, e := streamOutcomes(res)
	info := map[string]any{"ot": otName, "garbler": g.String(), "evaluator": e.String(), "whole": wo.String()}
	if !refOK {
		info["whole"] = clip(fmt.Sprintf("unavailable: err=%v panic=%v", w.Err, w.Panic), 300)
	}
	if g.Status != "ok" {
		info["detail"] = errText(res)
	}
	expectReject := ga.reject || eb.reject
	switch {
	case !refOK && g.Status != "ok":
		// rejected (or not compilable) in both modes
		if g.Status == "stalled" || g.Status == "panic" {
			o.Fail("c05-stream-"+g.Status, mk(info))
			return
		}
		o.Count("repr_rejected_in_both_modes")
		if expectReject {
			o.Count("repr_array_too_long_rejected_in_both_modes")
		} else {
			o.Count("repr_unexpected_reject_in_both_modes")
			if len(o.Samples) < 8 {
				o.Sample(mk(info))
			}
		}
		return
	case refOK && g.Status != "ok":
		info["what"] = "the streaming session fails on an input the whole-circuit mode accepts"
		o.Fail("c05-stream-"+g.Status, mk(info))
		return
	case !refOK:
		info["what"] = "the streaming session accepts an input the whole-circuit mode rejects"
		o.Fail("c05-repr-reject-disagreement", mk(info))
		return
	}
	if expectReject {
		o.Count("repr_array_too_long_accepted_in_both_modes")
	}
	o.Count("repr_compared")
	if g != e {
		o.Fail("c05-parties-differ", mk(info))
		return
	}
	if g != wo {
		info["what"] = "values"
		if g.Types != wo.Types {
			info["what"] = "types"
		}
		info["cause"] = ""
		info["explained_by_early_free"] = "false"
		o.Fail("c05-stream-mismatch", mk(info))
		return
	}
	o.Count("repr_agree")
	// the integer written for a scalar argument that is returned unchanged: the reference holds its residue mod 2^w
	check := func(pass int, arg rarg, v rvec, side string) {
		if pass < 0 || v.value == nil || pass >= len(w.Res) {
			return
		}
		want := new(big.Int).Mod(v.value, pow2(arg.bits))
		o.Count("repr_passthrough_checked")
		if w.Res[pass].Cmp(want) != 0 {
			o.Fail("c05-repr-passthrough", mk(map[string]any{"side": side, "written": v.value.String(), "arg_bits": arg.bits,
				"want_residue": want.String(), "got": w.Res[pass].String(), "whole": wo.String()}))
		}
	}
	check(passA, a, ga, "garbler")
	check(passB, b, eb, "evaluator")
	if len(o.Samples) < 4 {
		o.Sample(map[string]any{"case": i, "vector": j, "src": src, "g_inputs": ga.texts, "e_inputs": eb.texts, "result": g.String()})
	}
}

package main

// Early-free exposure search.
//
// analyse (ssa.go) replays the streamer's id rewiring per bit on the REAL
// GC'd step list and reports every read of a bit whose owner was gc'd before.
// Such a program is only a candidate: the freed range has to be handed to
// another value (WireAllocator.newIDs pops the free list of exactly the
// owner's size), that value has to be garbled before the read, and the read
// bits have to reach a result under the chosen inputs (they may sit behind a
// phi that selects the other branch).  When the session nevertheless agreed
// with the whole-circuit reference the search makes the recycled wires
// observable:
//
//	inputs   the same program on fresh input pairs of the same types
//	         (prog.Regen; for class upd every combination of its conditions)
//	observe  the program with every variable of main returned as an additional
//	         result (the clobbered value may be one the program drops)
//	variants that program with a computation of exactly the owner's width
//	         inserted at a statement boundary (every boundary of main, at most
//	         maxPos of them) and returned as an additional result, on the
//	         original and on a fresh input pair
//
// Every variant is an MPCL program of its own: it is compiled and run by the
// real streaming pair and by the real whole-circuit compiler; a difference is
// reported with the variant's source and inputs as the failing input.

import (
	"fmt"
	"os"
	"strings"
	"time"

	"verifharness/hxlib"
)

const (
	exposeMaxPrograms  = 6  // per harness run: programs whose variants are searched
	exposeMaxInputOnly = 24 // ... programs that only get fresh inputs
	exposeMaxInputs    = 6  // fresh input pairs per program
	exposeMaxPos       = 16 // insertion points per width
	exposeMaxSessions  = 70 // sessions per program
)

var exposed, exposedInputOnly int

// compareOnce runs one (source, inputs) on both sides.  ok=false: not
// comparable (reference unavailable).  differ=true: streaming != whole.
func compareOnce(src string, gin, ein []string, r *hxlib.Rng) (ok, differ bool, info map[string]any) {
	_, ok, differ, info = compareOnceW(src, gin, ein, r)
	return
}

func compareOnceW(src string, gin, ein []string, r *hxlib.Rng) (w *hxlib.WholeResult, ok, differ bool, info map[string]any) {
	w = hxlib.StreamReference(src, gin, ein)
	if w.Err != nil || w.Panic != nil {
		return w, false, false, nil
	}
	wo := outcome{Status: "ok", Vals: hxlib.BigsString(w.Res), Types: hxlib.IODesc(w.Out)}
	d := hxlib.NewDuplex(nil)
	res := hxlib.RunStreamSession(src, gin, ein, nil, r.Fork(), d, 90*time.Second)
	d.Close()
	g, e := streamOutcomes(res)
	info = map[string]any{"garbler": g.String(), "evaluator": e.String(), "whole": wo.String(), "ot": "ideal"}
	if g.Status != "ok" {
		info["detail"] = errText(res)
	}
	return w, true, g != wo || e != wo, info
}

// observed returns the variant of p that also returns the variables `extra`
// of main that the program does not return itself.
func observed(p *prog, extra [][2]string) *prog {
	sp := *p.Parts
	sp.Rets = append([]string(nil), sp.Rets...)
	sp.RTypes = append([]string(nil), sp.RTypes...)
	for _, x := range extra {
		sp.Rets, sp.RTypes = append(sp.Rets, x[0]), append(sp.RTypes, x[1])
	}
	sp.Extra = nil
	q := *p
	q.Parts = &sp
	q.Src = sp.render()
	return &q
}

// amplified returns the variant of p with a `bits` wide computation inserted
// after body line pos-1.
func amplified(p *prog, bits, pos int, r *hxlib.Rng) string {
	t := fmt.Sprintf("uint%d", bits)
	sp := *p.Parts
	k := func() string { return fmt.Sprintf("%s(%d)", t, 3+2*r.Intn(20)) }
	op := "*"
	if bits > 64 {
		op = "^"
	}
	top := fmt.Sprintf("\tzq := (%s(%s) ^ %s)", t, sp.Scalar, k())
	ins := fmt.Sprintf("\tzq = ((zq + %s) %s %s)", k(), op, k())
	var body []string
	body = append(body, top)
	body = append(body, sp.Body[:pos]...)
	body = append(body, ins)
	body = append(body, sp.Body[pos:]...)
	sp.Body = body
	sp.Rets = append(append([]string(nil), sp.Rets...), "zq")
	sp.RTypes = append(append([]string(nil), sp.RTypes...), t)
	return sp.render()
}

// exposeEarlyFree returns true when it reported a failing input.
func exposeEarlyFree(o *hxlib.Out, r *hxlib.Rng, p *prog, si *ssaInfo, mk func(map[string]any) map[string]any) bool {
	if p.Parts == nil {
		if exposedInputOnly >= exposeMaxInputOnly || p.Regen == nil {
			o.Count("expose_skipped_budget")
			return false
		}
		exposedInputOnly++
	} else {
		if exposed >= exposeMaxPrograms {
			o.Count("expose_skipped_budget")
			return false
		}
		exposed++
	}
	o.Count("expose_programs")
	sessions := 0
	report := func(how, src string, gin, ein []string, info map[string]any) bool {
		info["src"] = src
		info["g_inputs"] = gin
		info["e_inputs"] = ein
		info["found_by"] = "early-free exposure search: " + how
		info["base_program"] = p.Src
		info["cause"] = si.cause()
		info["early_free_kinds"] = si.kindsString()
		info["early_frees"] = si.UAFs
		info["explained_by_early_free"] = "candidate"
		o.Count("expose_found_" + strings.Fields(how)[0])
		o.Count("mismatch_" + si.cause() + "_exposed")
		o.Fail("c05-stream-mismatch", mk(info))
		return true
	}
	// 1. other inputs
	var pairs [][2][]string
	if p.Regen != nil {
		for k := 0; k < exposeMaxInputs; k++ {
			g, e := p.Regen(r)
			pairs = append(pairs, [2][]string{g, e})
		}
	}
	for _, in := range pairs {
		sessions++
		o.Count("expose_sessions")
		if ok, differ, info := compareOnce(p.Src, in[0], in[1], r); ok && differ {
			return report("inputs (same program, fresh input pair)", p.Src, in[0], in[1], info)
		}
	}
	// 2. a computation of the freed range's size at every statement boundary
	if p.Parts == nil {
		o.Count("expose_no_source_parts")
		return false
	}
	var widths []int
	for _, u := range si.UAFs {
		dup := false
		for _, w := range widths {
			dup = dup || w == u.OwnerBits
		}
		if !dup && u.OwnerBits > 0 && u.OwnerBits <= 1024 && len(widths) < 2 {
			widths = append(widths, u.OwnerBits)
		}
	}
	inputs := [][2][]string{{p.GIn, p.EIn}}
	inputs = append(inputs, p.Alt...)
	if len(pairs) > 0 && len(inputs) < 4 {
		inputs = append(inputs, pairs[0])
	}
	if len(inputs) > 4 {
		inputs = inputs[:4]
	}
	// a variant is run only if its own GC'd step list still has an early free
	// (returning one more value changes liveness)
	sizes, err := hxlib.StreamInputSizes(p.GIn, p.EIn)
	if err != nil {
		return false
	}
	try := func(how, src string, ins [][2][]string) (found, hasEarlyFree bool) {
		sp, err := hxlib.CompileSSA(src, sizes)
		if err != nil {
			o.Count("expose_variant_not_compilable")
			return false, false
		}
		if analyse(sp).cause() == "" {
			o.Count("expose_variant_without_early_free")
			return false, false
		}
		for _, in := range ins {
			if sessions >= exposeMaxSessions {
				return false, true
			}
			sessions++
			o.Count("expose_sessions")
			ok, differ, info := compareOnce(src, in[0], in[1], r)
			if !ok {
				o.Count("expose_variant_not_compilable")
				return false, true
			}
			if differ {
				return report(how, src, in[0], in[1], info), true
			}
		}
		return false, true
	}
	// 2a. a variable of main that the program drops becomes a result: one at a
	// time, then all of them
	bases := []*prog{p}
	if ex := p.Parts.Extra; len(ex) > 0 {
		sets := [][][2]string{}
		for _, x := range ex {
			sets = append(sets, [][2]string{x})
		}
		if len(ex) > 1 {
			sets = append(sets, ex)
		}
		more := append(append([][2][]string{}, inputs...), pairs...)
		if len(more) > 6 {
			more = more[:6]
		}
		for _, set := range sets {
			q := observed(p, set)
			found, has := try(fmt.Sprintf("observe (%d more variable(s) of main returned as extra result(s))", len(set)), q.Src, more)
			if found {
				return true
			}
			if has && len(bases) < 3 {
				bases = append(bases, q)
			}
		}
	}
	if len(inputs) > 2 {
		inputs = inputs[:2]
	}
	// 2b. a computation of the freed range's size at the statement boundaries
	for _, q := range bases {
		nb := len(q.Parts.Body)
		for _, w := range widths {
			step := 1
			if nb+1 > exposeMaxPos {
				step = (nb + exposeMaxPos) / exposeMaxPos
			}
			// from the end: the early gc sits behind the last use of the owner
			for pos := nb; pos >= 0; pos -= step {
				src := amplified(q, w, pos, r)
				if found, _ := try(fmt.Sprintf("variant (a uint%d computation inserted after body line %d, returned as an extra result)", w, pos),
					src, inputs); found {
					return true
				}
			}
		}
	}
	o.Count("expose_nothing_found")
	if os.Getenv("C05_DEBUG") != "" {
		fmt.Fprintf(os.Stderr, "expose: nothing found for\n%s\ninputs %v %v\nearly frees %+v\n", p.Src, p.GIn, p.EIn, si.UAFs)
	}
	return false
}

package main

// Class "upd": element updates of arrays / struct fields INSIDE control flow.
//
// The statement generator of gen.go updates arrays only at the top level of
// main.  Here the updates (`a[j] = s`, `st.f = s`, `for i ... { a[i] = s }`)
// sit in the branches of if / else (possibly nested) and in loop bodies, the
// stored scalar `s` is used again afterwards (in the same branch or after the
// merge), and computations of exactly the scalar's width follow, so that a wire
// range that Program.GC frees too early is handed to a garbled value before
// the merged array (a phi over two amov chains) is read.  Liveness of the
// array versions then depends on the serialisation of the blocks: the phis of
// a merge are emitted after the continuation, every amov output is an alias of
// BOTH the stored scalar and the previous array version.
//
// Every condition tests an array element that no statement writes, and the
// program is run on ALL 2^k combinations of the k conditions (input vectors
// built per combination), so every branch is taken at run time; a `tag` result
// records the branches that were executed and the harness checks on the
// whole-circuit reference that all of them were.

import (
	"fmt"
	"strings"

	"verifharness/hxlib"
)

type updCtl struct {
	idx       int    // array element tested
	expr      string // condition text
	sat, viol uint64 // element values that make it true / false
}

type updGen struct {
	r       *hxlib.Rng
	t       ty // scalar / element type
	n       int
	arrs    []string // assignable arrays
	scal    []string // readable scalars of type t
	muts    []string // assignable scalars of type t
	fields  []string // struct fields st.fI of type t ("" = no struct)
	ctls    []updCtl
	nextCtl int
	lo      int // first array index that may be written
	sb      strings.Builder
	last    string // the scalar stored most recently
	feat    map[string]bool
	tagWant uint64
	nloop   int
}

func (u *updGen) k() string { return fmt.Sprintf("%s(%d)", u.t, 1+u.r.Intn(59)) }

func (u *updGen) pick(l []string) string { return l[u.r.Intn(len(l))] }

func (u *updGen) storedOrAny() string {
	if u.last != "" && u.r.Intn(10) < 7 {
		return u.last
	}
	return u.pick(u.scal)
}

func (u *updGen) arith(x string) string {
	ops := []string{"+", "+", "-", "^", "|", "&", "*"}
	if u.t.bits > 32 {
		ops = ops[:6]
	}
	e := fmt.Sprintf("(%s %s %s)", x, u.pick(ops), u.k())
	if u.r.Intn(3) > 0 {
		e = fmt.Sprintf("(%s %s %s)", e, u.pick(ops), u.k())
	}
	return e
}

// burst: 2..4 consecutive stores into ONE array (an amov chain: every link is
// an alias of the stored value and of the previous array version), then
// usually one more use of a scalar stored by a link that is not the last.
func (u *updGen) burst(ind string, elem func() string) {
	arr := u.pick(u.arrs)
	n := 2 + u.r.Intn(3)
	var stored []string
	for i := 0; i < n; i++ {
		if u.r.Intn(3) > 0 || (i == 0 && u.r.Intn(4) > 0) {
			sc := u.pick(u.scal)
			fmt.Fprintf(&u.sb, "%s%s[%s] = %s\n", ind, arr, elem(), sc)
			if i < n-1 {
				stored = append(stored, sc)
			}
			u.last = sc
			u.feat["upd_store_scalar"] = true
		} else {
			fmt.Fprintf(&u.sb, "%s%s[%s] = %s\n", ind, arr, elem(), u.k())
			u.feat["upd_store_const"] = true
		}
	}
	u.feat["upd_store_burst"] = true
	if len(stored) > 0 && u.r.Intn(10) < 7 {
		fmt.Fprintf(&u.sb, "%s%s = %s\n", ind, u.pick(u.muts), u.arith(u.pick(stored)))
		u.feat["upd_reuse_after_burst"] = true
	}
}

// stmts emits 1..4 statements at indentation ind; depth bounds nesting.
func (u *updGen) stmts(ind string, depth int, idxVar string) {
	n := 1 + u.r.Intn(4)
	for s := 0; s < n; s++ {
		c := u.r.Intn(100)
		elem := func() string {
			if idxVar != "" && u.r.Intn(3) > 0 {
				return idxVar
			}
			return fmt.Sprint(u.lo + u.r.Intn(u.n-u.lo))
		}
		switch {
		case c < 32:
			u.burst(ind, elem)
		case c < 42:
			sc := u.pick(u.scal)
			fmt.Fprintf(&u.sb, "%s%s[%s] = %s\n", ind, u.pick(u.arrs), elem(), sc)
			u.last = sc
			u.feat["upd_store_scalar"] = true
		case c < 50 && len(u.fields) > 0:
			sc := u.pick(u.scal)
			fmt.Fprintf(&u.sb, "%s%s = %s\n", ind, u.pick(u.fields), sc)
			u.last = sc
			u.feat["upd_store_field"] = true
		case c < 66:
			fmt.Fprintf(&u.sb, "%s%s = %s\n", ind, u.pick(u.muts), u.arith(u.storedOrAny()))
			u.feat["upd_reuse"] = true
		case c < 74:
			m := u.pick(u.muts)
			fmt.Fprintf(&u.sb, "%s%s = (%s ^ %s[%s])\n", ind, m, m, u.pick(u.arrs), elem())
			u.feat["upd_read_elem"] = true
		case c < 78 && len(u.arrs) > 1:
			fmt.Fprintf(&u.sb, "%s%s = %s\n", ind, u.arrs[1], u.arrs[0])
			u.feat["upd_array_copy"] = true
		case c < 87 && depth > 0 && idxVar == "" && u.nloop < 2:
			u.nloop++
			lo := u.lo + u.r.Intn(u.n-u.lo)
			hi := lo + 1 + u.r.Intn(u.n-lo)
			iv := fmt.Sprintf("i%d", u.nloop)
			fmt.Fprintf(&u.sb, "%sfor %s := %d; %s < %d; %s++ {\n", ind, iv, lo, iv, hi, iv)
			u.stmts(ind+"\t", 0, iv)
			fmt.Fprintf(&u.sb, "%s}\n", ind)
			u.feat["upd_loop"] = true
		case depth > 0 && u.nextCtl < len(u.ctls):
			u.ifElse(ind, depth-1)
		default:
			fmt.Fprintf(&u.sb, "%s%s = %s\n", ind, u.pick(u.muts), u.arith(u.pick(u.scal)))
		}
	}
}

func (u *updGen) ifElse(ind string, depth int) {
	j := u.nextCtl
	u.nextCtl++
	c := u.ctls[j]
	fmt.Fprintf(&u.sb, "%sif %s {\n", ind, c.expr)
	fmt.Fprintf(&u.sb, "%s\ttag = tag | %d\n", ind, 1<<uint(2*j))
	u.tagWant |= 1 << uint(2*j)
	saved := u.last
	if u.r.Intn(5) > 0 {
		u.stmts(ind+"\t", depth, "")
	}
	if u.r.Intn(6) > 0 {
		fmt.Fprintf(&u.sb, "%s} else {\n", ind)
		fmt.Fprintf(&u.sb, "%s\ttag = tag | %d\n", ind, 2<<uint(2*j))
		u.tagWant |= 2 << uint(2*j)
		u.last = saved
		if u.r.Intn(5) > 0 {
			u.stmts(ind+"\t", depth, "")
		}
	} else {
		u.feat["upd_no_else"] = true
	}
	fmt.Fprintf(&u.sb, "%s}\n", ind)
	u.feat["upd_if"] = true
}

func updProgram(r *hxlib.Rng, idx int) *prog {
	u := &updGen{r: r, feat: map[string]bool{"upd": true}}
	w := []int{8, 16, 16, 32, 32, 64}[r.Intn(6)]
	u.t = ty{k: kUint, bits: w}
	if r.Intn(4) == 0 {
		u.t.k = kInt
	}
	nctl := 1 + r.Intn(3)
	u.n = nctl + 2 + r.Intn(4)
	u.lo = nctl
	at := ty{k: kArr, bits: w, n: u.n, sgn: u.t.k == kInt}
	for j := 0; j < nctl; j++ {
		cv := uint64(2 + r.Intn(90))
		c := updCtl{idx: j}
		switch r.Intn(4) {
		case 0:
			c.expr, c.sat, c.viol = fmt.Sprintf("a[%d] == %d", j, cv), cv, cv+1
		case 1:
			c.expr, c.sat, c.viol = fmt.Sprintf("a[%d] != %d", j, cv), cv+1, cv
		case 2:
			c.expr, c.sat, c.viol = fmt.Sprintf("a[%d] > %d", j, cv), cv+1, cv
		default:
			c.expr, c.sat, c.viol = fmt.Sprintf("a[%d] < %d", j, cv), cv-1, cv
		}
		u.ctls = append(u.ctls, c)
	}
	arrFirst := r.Intn(3) > 0
	sig := fmt.Sprintf("a %s, b %s", at, u.t)
	if !arrFirst {
		sig = fmt.Sprintf("b %s, a %s", u.t, at)
		u.feat["upd_array_is_evaluator_input"] = true
	}
	var types string
	u.sb.WriteString("\tvar tag uint8\n")
	if r.Bool() {
		nf := 2 + r.Intn(2)
		types = "type St struct {\n"
		for i := 0; i < nf; i++ {
			types += fmt.Sprintf("\tf%d %s\n", i, u.t)
			u.fields = append(u.fields, fmt.Sprintf("st.f%d", i))
		}
		types += "}\n"
		u.sb.WriteString("\tvar st St\n")
		u.feat["upd_struct"] = true
	}
	u.arrs = []string{"a"}
	if r.Intn(3) == 0 {
		fmt.Fprintf(&u.sb, "\tvar c %s\n\tc = a\n", at)
		u.arrs = []string{"c", "a"}
		if r.Bool() {
			u.arrs = []string{"c"}
		}
		u.feat["upd_second_array"] = true
	}
	// scalars of the element type: the input b, 0..3 values computed from it
	// (they own their wires), and the accumulator r.  Only r and a random
	// subset of the others are results, so that the last use of a scalar can
	// be anywhere.
	u.scal = []string{"b"}
	if r.Intn(4) == 0 {
		fmt.Fprintf(&u.sb, "\tr := (b ^ %s)\n", u.k())
	} else {
		fmt.Fprintf(&u.sb, "\tvar r %s\n", u.t)
	}
	u.muts = append(u.muts, "r")
	nx := r.Intn(4)
	for i := 0; i < nx; i++ {
		x := fmt.Sprintf("x%d", i)
		fmt.Fprintf(&u.sb, "\t%s := %s\n", x, u.arith("b"))
		u.scal = append(u.scal, x)
		if r.Bool() {
			u.muts = append(u.muts, x)
		}
		u.feat["upd_computed_scalar"] = true
	}
	if r.Bool() {
		u.scal = append(u.scal, "r")
	}

	regions := 1 + r.Intn(3)
	for g := 0; g < regions || u.nextCtl == 0; g++ {
		switch {
		case u.nextCtl < len(u.ctls) && (u.nextCtl == 0 || r.Intn(3) > 0):
			u.ifElse("\t", 1)
		default:
			u.stmts("\t", 1, "")
		}
	}
	// same-width computations after the last merge
	var rets, rtypes []string
	nt := 0
	if r.Bool() {
		nt = 1 + r.Intn(3)
	}
	for i := 0; i < nt; i++ {
		n := fmt.Sprintf("t%d", i)
		src := u.pick(u.scal)
		if i > 0 && r.Bool() {
			src = fmt.Sprintf("t%d", i-1)
		}
		fmt.Fprintf(&u.sb, "\t%s := %s\n", n, u.arith(src))
		if r.Intn(3) > 0 || i == nt-1 {
			rets, rtypes = append(rets, n), append(rtypes, u.t.String())
		}
		u.feat["upd_tail_alloc"] = true
	}
	for _, a := range u.arrs {
		if a == "a" || r.Intn(4) > 0 {
			rets = append([]string{a}, rets...)
			if r.Bool() {
				rtypes = append([]string{at.String()}, rtypes...)
			} else {
				rtypes = append([]string{"[]" + u.t.String()}, rtypes...)
			}
		}
	}
	for _, m := range u.muts {
		if m == "r" || r.Intn(3) == 0 {
			rets, rtypes = append(rets, m), append(rtypes, u.t.String())
		}
	}
	for _, f := range u.fields {
		if r.Intn(3) > 0 {
			rets, rtypes = append(rets, f), append(rtypes, u.t.String())
		}
	}
	rets, rtypes = append(rets, "tag"), append(rtypes, "uint8")

	vec := func(mask int) (g, e []string) {
		var sb strings.Builder
		sb.WriteString("0x")
		for i := 0; i < u.n; i++ {
			if i < nctl {
				v := u.ctls[i].viol
				if mask&(1<<uint(i)) != 0 {
					v = u.ctls[i].sat
				}
				fmt.Fprintf(&sb, "%0*x", w/4, v)
			} else {
				sb.WriteString(hexDigits(r, w/4))
			}
		}
		av, bv := []string{sb.String()}, []string{inputFor(r, u.t)}
		if arrFirst {
			return av, bv
		}
		return bv, av
	}
	p := &prog{Class: "upd", Feat: u.feat, HasTag: true, TagOut: len(rets) - 1, TagWant: u.tagWant}
	p.Parts = &srcParts{Pre: "package main\n" + types, Sig: sig, RTypes: rtypes, Body: strings.Split(strings.TrimRight(u.sb.String(), "\n"), "\n"),
		Rets: rets, Scalar: "b"}
	inRets := map[string]bool{}
	for _, x := range rets {
		inRets[x] = true
	}
	for _, a := range []string{"a", "c"} {
		if !inRets[a] && (a == "a" || u.feat["upd_second_array"]) {
			p.Parts.Extra = append(p.Parts.Extra, [2]string{a, "[]" + u.t.String()})
		}
	}
	for _, x := range append(append([]string{}, u.scal...), u.fields...) {
		if !inRets[x] && x != "b" {
			inRets[x] = true
			p.Parts.Extra = append(p.Parts.Extra, [2]string{x, u.t.String()})
		}
	}
	for i := 0; i < nt; i++ {
		if x := fmt.Sprintf("t%d", i); !inRets[x] {
			p.Parts.Extra = append(p.Parts.Extra, [2]string{x, u.t.String()})
		}
	}
	p.Src = p.Parts.render()
	// all 2^k combinations, in a seeded order
	order := permN(r, 1<<uint(nctl))
	for i, m := range order {
		g, e := vec(m)
		if i == 0 {
			p.GIn, p.EIn = g, e
		} else {
			p.Alt = append(p.Alt, [2][]string{g, e})
		}
	}
	p.Regen = func(rr *hxlib.Rng) ([]string, []string) {
		saved := r
		r = rr
		g, e := vec(rr.Intn(1 << uint(nctl)))
		r = saved
		return g, e
	}
	_ = idx
	return p
}

// srcParts: a generated program in pieces, so that the early-free exposure
// search (expose.go) can insert statements and add a result.
type srcParts struct {
	Pre    string // package clause and type declarations
	Sig    string // parameter list of main
	RTypes []string
	Body   []string // statement lines of main (without the final return)
	Rets   []string
	Scalar string // an expression of scalar type that reads an input, valid at the top of main
	// Extra: the variables of main that are not results (expression, type);
	// the exposure search returns them too, so that a clobbered value that
	// the program itself drops becomes a result
	Extra [][2]string
}

func (s *srcParts) render() string {
	return fmt.Sprintf("%sfunc main(%s) (%s) {\n%s\n\treturn %s\n}\n", s.Pre, s.Sig, strings.Join(s.RTypes, ", "),
		strings.Join(s.Body, "\n"), strings.Join(s.Rets, ", "))
}

package main

// Op / result lines for the Lean model of Program.GC and of the wire
// allocator (Model/Gc.lean).
//
//	op:     c05 gc <inputs> <zo> <consts> <steps>      (gco: step list only)
//	        inputs  key.bits.bucket,key.bits.bucket
//	        zo      key.bucket,key.bucket of the {zero} / {one} values
//	        consts  key.bitstring(LSB first).bucket,...            ("-" none)
//	        steps   op:out:in|in;...   arg = c|v . id . key . bits . s|u . cint . bucket . n|<own>_<own bits>
//	                bucket = Value.HashCode() % 10240 (the allocator's hash table)
//	                = prog.Steps with the gc instructions removed
//	result: steps=<the real prog.Steps after Program.GC>;ret=<return wire ids
//	        from the wire>;circ=<step:maxid+1 of every garbled circuit>

import (
	"fmt"
	"sort"
	"strings"

	"github.com/markkurossi/mpc/compiler/mpa"
	"github.com/markkurossi/mpc/compiler/ssa"
	"github.com/markkurossi/mpc/types"

	"verifharness/hxlib"
)

func opClass(op ssa.Operand) string {
	if isRewire(op) || op == ssa.Ret || op == ssa.GC {
		return op.String()
	}
	return "circ"
}

func (si *ssaInfo) argStr(v *ssa.Value) string {
	c, sg := "v", "u"
	if v.Const {
		c = "c"
	}
	if v.Type.Type == types.TInt {
		sg = "s"
	}
	ci := 0
	if v.Const {
		if n, err := v.ConstInt(); err == nil && n > 0 {
			ci = int(n)
		}
	}
	m := "n"
	if v.Const {
		if mi, ok := v.ConstValue.(*mpa.Int); ok {
			m = ownBits(v, mi.TypeSize())
		}
	}
	return fmt.Sprintf("%s.%d.%d.%d.%s.%d.%d.%s", c, v.ID, si.key(v), v.Type.Bits, sg, ci, bucketOf(v), m)
}

// ownBits renders an *mpa.Int constant's own size and own bits (what
// Program.Stream reads with in.Bit(src) when it re-widens the constant).
func ownBits(v *ssa.Value, own int) (s string) {
	defer func() {
		if e := recover(); e != nil {
			s = "n"
		}
	}()
	n := own
	if n > int(v.Type.Bits) {
		n = int(v.Type.Bits)
	}
	var sb strings.Builder
	for b := 0; b < n; b++ {
		if v.Bit(types.Size(b)) {
			sb.WriteByte('1')
		} else {
			sb.WriteByte('0')
		}
	}
	if sb.Len() == 0 {
		return fmt.Sprintf("%d_e", own)
	}
	return fmt.Sprintf("%d_%s", own, sb.String())
}

func canonArg(v *ssa.Value) string {
	if v.Const {
		return "c"
	}
	return fmt.Sprintf("v%d", v.ID)
}

func constBits(v *ssa.Value) (s string, ok bool) {
	defer func() {
		if e := recover(); e != nil {
			ok = false
		}
	}()
	var sb strings.Builder
	for b := types.Size(0); b < v.Type.Bits; b++ {
		if v.Bit(b) {
			sb.WriteByte('1')
		} else {
			sb.WriteByte('0')
		}
	}
	if sb.Len() == 0 {
		return "e", true
	}
	return sb.String(), true
}

func emitGcOp(o *hxlib.Out, sp *ssa.Program, si *ssaInfo, tr *hxlib.StreamTranscript, sessionOK bool) {
	if si.HasCirc || len(sp.Inputs) != 2 || len(sp.Steps) > 1500 {
		o.Op("c05 skip", "unsupported")
		o.Count("gcop_skipped")
		return
	}
	var ins []string
	for idx, arg := range sp.Inputs {
		name := arg.Name
		if name == "" {
			name = fmt.Sprintf("arg{%d}", idx)
		}
		v := ssa.Value{Name: name, Scope: 1, Type: arg.Type}
		ins = append(ins, fmt.Sprintf("%d.%d.%d", si.key(&v), arg.Type.Bits, bucketOf(&v)))
	}
	var names []string
	for n := range sp.Constants {
		names = append(names, n)
	}
	sort.Strings(names)
	var consts []string
	seen := map[int]bool{}
	for _, n := range names {
		c := sp.Constants[n].Const
		k := si.key(&c)
		if seen[k] {
			continue
		}
		seen[k] = true
		bits, ok := constBits(&c)
		if !ok {
			o.Op("c05 skip", "unsupported")
			o.Count("gcop_skipped")
			return
		}
		consts = append(consts, fmt.Sprintf("%d.%s.%d", k, bits, bucketOf(&c)))
	}
	cs := "-"
	if len(consts) > 0 {
		cs = strings.Join(consts, ",")
	}
	var pre, post []string
	for i := range sp.Steps {
		in := &sp.Steps[i].Instr
		if in.Op == ssa.GC {
			post = append(post, fmt.Sprintf("gc(%s)>-", canonArg(in.GC)))
			continue
		}
		var a, ca []string
		for j := range in.In {
			a = append(a, si.argStr(&in.In[j]))
			ca = append(ca, canonArg(&in.In[j]))
		}
		out, cout := "-", "-"
		if in.Out != nil {
			out, cout = si.argStr(in.Out), canonArg(in.Out)
		}
		pre = append(pre, fmt.Sprintf("%s:%s:%s", opClass(in.Op), out, strings.Join(a, "|")))
		post = append(post, fmt.Sprintf("%s(%s)>%s", opClass(in.Op), strings.Join(ca, ","), cout))
	}
	wf := 1
	if si.UBD > 0 || si.DupOut > 0 {
		wf = 0
	}
	res := fmt.Sprintf("wf=%d;steps=%s", wf, strings.Join(post, "/"))
	cmd := "gco"
	if sessionOK && tr != nil && tr.Err == "" {
		cmd = "gc"
		var ids, circ []string
		for _, id := range tr.RetIDs {
			ids = append(ids, fmt.Sprint(id))
		}
		for _, c := range tr.Circs {
			circ = append(circ, fmt.Sprintf("%d:%d", c.Step, c.NumWires))
		}
		r := "-"
		if len(ids) > 0 {
			r = strings.Join(ids, ",")
		}
		res += ";ret=" + r + ";circ=" + strings.Join(circ, ",")
	}
	o.Count("gcop_" + cmd)
	zv, ov := zeroValue(), oneValue()
	zo := fmt.Sprintf("%d.%d,%d.%d", si.key(&zv), bucketOf(&zv), si.key(&ov), bucketOf(&ov))
	o.Op(fmt.Sprintf("c05 %s %s %s %s %s", cmd, strings.Join(ins, ","), zo, cs, strings.Join(pre, ";")), res)
}

// emitScrambleOp: the real Program.GC (defineBeforeUse + gc insertion, 73f8795)
// on a step list in which the harness has moved 1..3 defining steps BEHIND the
// first use of their value (what block serialisation did to lazily resolved
// phis).  sp is a fresh compilation (it is modified).  Result line: is the
// real output a permutation of the input, is it in definition-before-use
// order, and the steps; the Lean model (gcPass = gcInsert . defineBeforeUse)
// must print the same.
func emitScrambleOp(o *hxlib.Out, sp *ssa.Program, r *hxlib.Rng, p *prog, caseIdx int) {
	var steps []ssa.Step
	for _, s := range sp.Steps {
		if s.Instr.Op == ssa.Circ {
			return
		}
		if s.Instr.Op != ssa.GC {
			steps = append(steps, s)
		}
	}
	n := len(steps)
	if n < 4 || n > 400 {
		return
	}
	moves := 0
	for try := 0; try < 12 && moves < 1+r.Intn(3); try++ {
		i := r.Intn(n - 1)
		out := steps[i].Instr.Out
		if out == nil {
			continue
		}
		first := -1
		for u := i + 1; u < n; u++ {
			for _, in := range steps[u].Instr.In {
				if !in.Const && in.ID == out.ID {
					first = u
				}
			}
			if first >= 0 {
				break
			}
		}
		if first < 0 || first >= n-1 {
			continue
		}
		p := first + r.Intn(n-1-first) // new index, behind the first use, before ret
		moved := steps[i]
		copy(steps[i:p], steps[i+1:p+1])
		steps[p] = moved
		moves++
	}
	if moves == 0 {
		return
	}
	si := &ssaInfo{keys: map[string]int{}}
	render := func(list []ssa.Step, rich bool) []string {
		var res []string
		for i := range list {
			in := &list[i].Instr
			if in.Op == ssa.GC {
				res = append(res, fmt.Sprintf("gc(%s)>-", canonArg(in.GC)))
				continue
			}
			var a, ca []string
			for j := range in.In {
				a = append(a, si.argStr(&in.In[j]))
				ca = append(ca, canonArg(&in.In[j]))
			}
			out, cout := "-", "-"
			if in.Out != nil {
				out, cout = si.argStr(in.Out), canonArg(in.Out)
			}
			if rich {
				res = append(res, fmt.Sprintf("%s:%s:%s", opClass(in.Op), out, strings.Join(a, "|")))
			} else {
				res = append(res, fmt.Sprintf("%s(%s)>%s", opClass(in.Op), strings.Join(ca, ","), cout))
			}
		}
		return res
	}
	pre := render(steps, true)
	inCanon := render(steps, false)
	sp.Steps = append([]ssa.Step(nil), steps...)
	result := func() (s string) {
		defer func() {
			if e := recover(); e != nil {
				s = "gc-panic"
			}
		}()
		sp.GC()
		// the real output: permutation of the input? definition before use?
		var nogc []ssa.Step
		for _, s := range sp.Steps {
			if s.Instr.Op != ssa.GC {
				nogc = append(nogc, s)
			}
		}
		a, b := render(nogc, false), append([]string(nil), inCanon...)
		sort.Strings(a)
		sort.Strings(b)
		perm := 0
		if strings.Join(a, "/") == strings.Join(b, "/") {
			perm = 1
		}
		wf := 1
		def := map[ssa.ValueID]int{}
		for i := range nogc {
			if nogc[i].Instr.Out != nil {
				if _, dup := def[nogc[i].Instr.Out.ID]; dup {
					wf = 0
				}
				def[nogc[i].Instr.Out.ID] = i
			}
		}
		for i := range nogc {
			for _, in := range nogc[i].Instr.In {
				if d, ok := def[in.ID]; ok && !in.Const && d >= i {
					wf = 0
				}
			}
		}
		if perm == 0 || wf == 0 {
			o.Fail("c05-define-before-use-broken", map[string]any{"perm": perm, "wf": wf, "case": caseIdx, "src": p.Src,
				"g_inputs": p.GIn, "e_inputs": p.EIn,
				"note": "Program.GC on this program's step list with definitions moved behind their first use: the " +
					"result is not a permutation in definition-before-use order",
				"scrambled_steps": clip(strings.Join(inCanon, "/"), 3000)})
		}
		return fmt.Sprintf("perm=%d;wf=%d;steps=%s", perm, wf, strings.Join(render(sp.Steps, false), "/"))
	}()
	o.Count("gcop_scrambled")
	o.CountN("gcop_scramble_moves", moves)
	o.Op("c05 gcs "+strings.Join(pre, ";"), result)
}

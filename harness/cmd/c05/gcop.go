package main

// Op / result lines for the Lean model of Program.GC and of the wire
// allocator (Model/Gc.lean).
//
//	op:     c05 gc <inputs> <zo> <consts> <steps>      (gco: step list only)
//	        inputs  key.bits.bucket,key.bits.bucket
//	        zo      key.bucket,key.bucket of the {zero} / {one} values
//	        consts  key.bitstring(LSB first).bucket,...            ("-" none)
//	        steps   op:out:in|in;...   arg = c|v . id . key . bits . s|u . cint . bucket . n|<own>_<own bits>
//	                bucket = Value.HashCode() % 10240 (the allocator's hash table)
//	                = prog.Steps with the gc instructions removed
//	result: steps=<the real prog.Steps after Program.GC>;ret=<return wire ids
//	        from the wire>;circ=<step:maxid+1 of every garbled circuit>

import (
	"fmt"
	"sort"
	"strings"

	"github.com/markkurossi/mpc/compiler/mpa"
	"github.com/markkurossi/mpc/compiler/ssa"
	"github.com/markkurossi/mpc/types"

	"verifharness/hxlib"
)

func opClass(op ssa.Operand) string {
	if isRewire(op) || op == ssa.Ret || op == ssa.GC {
		return op.String()
	}
	return "circ"
}

func (si *ssaInfo) argStr(v *ssa.Value) string {
	c, sg := "v", "u"
	if v.Const {
		c = "c"
	}
	if v.Type.Type == types.TInt {
		sg = "s"
	}
	ci := 0
	if v.Const {
		if n, err := v.ConstInt(); err == nil && n > 0 {
			ci = int(n)
		}
	}
	m := "n"
	if v.Const {
		if mi, ok := v.ConstValue.(*mpa.Int); ok {
			m = ownBits(v, mi.TypeSize())
		}
	}
	return fmt.Sprintf("%s.%d.%d.%d.%s.%d.%d.%s", c, v.ID, si.key(v), v.Type.Bits, sg, ci, bucketOf(v), m)
}

// ownBits renders an *mpa.Int constant's own size and own bits (what
// Program.Stream reads with in.Bit(src) when it re-widens the constant).
func ownBits(v *ssa.Value, own int) (s string) {
	defer func() {
		if e := recover(); e != nil {
			s = "n"
		}
	}()
	n := own
	if n > int(v.Type.Bits) {
		n = int(v.Type.Bits)
	}
	var sb strings.Builder
	for b := 0; b < n; b++ {
		if v.Bit(types.Size(b)) {
			sb.WriteByte('1')
		} else {
			sb.WriteByte('0')
		}
	}
	if sb.Len() == 0 {
		return fmt.Sprintf("%d_e", own)
	}
	return fmt.Sprintf("%d_%s", own, sb.String())
}

func canonArg(v *ssa.Value) string {
	if v.Const {
		return "c"
	}
	return fmt.Sprintf("v%d", v.ID)
}

func constBits(v *ssa.Value) (s string, ok bool) {
	defer func() {
		if e := recover(); e != nil {
			ok = false
		}
	}()
	var sb strings.Builder
	for b := types.Size(0); b < v.Type.Bits; b++ {
		if v.Bit(b) {
			sb.WriteByte('1')
		} else {
			sb.WriteByte('0')
		}
	}
	if sb.Len() == 0 {
		return "e", true
	}
	return sb.String(), true
}

func emitGcOp(o *hxlib.Out, sp *ssa.Program, si *ssaInfo, tr *hxlib.StreamTranscript, sessionOK bool) {
	if si.HasCirc || len(sp.Inputs) != 2 || len(sp.Steps) > 1500 {
		o.Op("c05 skip", "unsupported")
		o.Count("gcop_skipped")
		return
	}
	var ins []string
	for idx, arg := range sp.Inputs {
		name := arg.Name
		if name == "" {
			name = fmt.Sprintf("arg{%d}", idx)
		}
		v := ssa.Value{Name: name, Scope: 1, Type: arg.Type}
		ins = append(ins, fmt.Sprintf("%d.%d.%d", si.key(&v), arg.Type.Bits, bucketOf(&v)))
	}
	var names []string
	for n := range sp.Constants {
		names = append(names, n)
	}
	sort.Strings(names)
	var consts []string
	seen := map[int]bool{}
	for _, n := range names {
		c := sp.Constants[n].Const
		k := si.key(&c)
		if seen[k] {
			continue
		}
		seen[k] = true
		bits, ok := constBits(&c)
		if !ok {
			o.Op("c05 skip", "unsupported")
			o.Count("gcop_skipped")
			return
		}
		consts = append(consts, fmt.Sprintf("%d.%s.%d", k, bits, bucketOf(&c)))
	}
	cs := "-"
	if len(consts) > 0 {
		cs = strings.Join(consts, ",")
	}
	var pre, post []string
	for i := range sp.Steps {
		in := &sp.Steps[i].Instr
		if in.Op == ssa.GC {
			post = append(post, fmt.Sprintf("gc(%s)>-", canonArg(in.GC)))
			continue
		}
		var a, ca []string
		for j := range in.In {
			a = append(a, si.argStr(&in.In[j]))
			ca = append(ca, canonArg(&in.In[j]))
		}
		out, cout := "-", "-"
		if in.Out != nil {
			out, cout = si.argStr(in.Out), canonArg(in.Out)
		}
		pre = append(pre, fmt.Sprintf("%s:%s:%s", opClass(in.Op), out, strings.Join(a, "|")))
		post = append(post, fmt.Sprintf("%s(%s)>%s", opClass(in.Op), strings.Join(ca, ","), cout))
	}
	res := "steps=" + strings.Join(post, "/")
	cmd := "gco"
	if sessionOK && tr != nil && tr.Err == "" {
		cmd = "gc"
		var ids, circ []string
		for _, id := range tr.RetIDs {
			ids = append(ids, fmt.Sprint(id))
		}
		for _, c := range tr.Circs {
			circ = append(circ, fmt.Sprintf("%d:%d", c.Step, c.NumWires))
		}
		r := "-"
		if len(ids) > 0 {
			r = strings.Join(ids, ",")
		}
		res += ";ret=" + r + ";circ=" + strings.Join(circ, ",")
	}
	o.Count("gcop_" + cmd)
	zv, ov := zeroValue(), oneValue()
	zo := fmt.Sprintf("%d.%d,%d.%d", si.key(&zv), bucketOf(&zv), si.key(&ov), bucketOf(&ov))
	o.Op(fmt.Sprintf("c05 %s %s %s %s %s", cmd, strings.Join(ins, ","), zo, cs, strings.Join(pre, ";")), res)
}

package main

// The wire allocator's hash table (compiler/ssa/wire_allocator.go): values
// live in bucket Value.HashCode() % 10240; lookup moves a header found at
// chain depth >= 3 to the head, GCWires unlinks the header via remove.  The
// generator never produces two simultaneously live values in one bucket by
// chance, so
//
//   - collideProgram renames the identifiers of a generated program (main's
//     arguments, locals) so that some of their SSA values fall into the bucket
//     of a chosen temporary that is live at the same time (names are found by
//     search with the REAL ssa.Value.HashCode), giving chains of 2, 3 and 4
//     live headers in all relative ages;
//   - bucketStats replays the allocator's lookup / insert / remove sequence on
//     the compiled SSA and counts, per gc, the chain length and the position of
//     the unlinked header.

import (
	"fmt"
	"regexp"
	"strings"

	"github.com/markkurossi/mpc/compiler/ssa"

	"verifharness/hxlib"
)

// numBuckets is len(WireAllocator.hash); checks/C05.py extracts the number
// from the source on every run and compares.
const numBuckets = 10240

func bucketOf(v *ssa.Value) int { return v.HashCode() % numBuckets }

func zeroValue() ssa.Value { return ssa.Value{Const: true, Name: "{zero}"} }
func oneValue() ssa.Value  { return ssa.Value{Const: true, Name: "{one}"} }

type chainSim struct {
	chains map[int][]string
	stats  map[string]int
}

func (cs *chainSim) lookup(v *ssa.Value) bool {
	b, k := bucketOf(v), valueKey(v)
	c := cs.chains[b]
	for i, x := range c {
		if x == k {
			if i+1 > 2 {
				nc := append([]string{k}, c[:i]...)
				nc = append(nc, c[i+1:]...)
				cs.chains[b] = nc
				cs.stats["bucket_lookup_moved_to_front"]++
			}
			if len(c) > 1 {
				cs.stats["bucket_lookup_in_shared_chain"]++
			}
			return true
		}
	}
	return false
}

func (cs *chainSim) touch(v *ssa.Value) {
	if !cs.lookup(v) {
		b := bucketOf(v)
		cs.chains[b] = append([]string{valueKey(v)}, cs.chains[b]...)
		if n := len(cs.chains[b]); n > cs.stats["bucket_max_chain"] {
			cs.stats["bucket_max_chain"] = n
		}
	}
}

func (cs *chainSim) remove(v *ssa.Value) {
	b, k := bucketOf(v), valueKey(v)
	c := cs.chains[b]
	for i, x := range c {
		if x == k {
			l, p := len(c), i
			if l > 4 {
				l = 4
			}
			if p > 3 {
				p = 3
			}
			if len(c) > 1 {
				cs.stats[fmt.Sprintf("gc_in_chain_len%d_pos%d", l, p)]++
				if i > 0 {
					cs.stats["gc_of_non_head_header"]++
				}
			}
			cs.chains[b] = append(append([]string{}, c[:i]...), c[i+1:]...)
			return
		}
	}
}

// bucketStats replays NewProgram / Program.Stream's allocator calls.
func bucketStats(sp *ssa.Program) map[string]int {
	cs := &chainSim{chains: map[int][]string{}, stats: map[string]int{}}
	for idx, arg := range sp.Inputs {
		name := arg.Name
		if name == "" {
			name = fmt.Sprintf("arg{%d}", idx)
		}
		v := ssa.Value{Name: name, Scope: 1, Type: arg.Type}
		cs.touch(&v)
	}
	z, o := zeroValue(), oneValue()
	cs.touch(&z)
	cs.touch(&o)
	for _, c := range sp.Constants {
		v := c.Const
		if !cs.lookup(&v) {
			cs.touch(&v)
		}
	}
	for i := range sp.Steps {
		in := &sp.Steps[i].Instr
		if in.Op == ssa.GC {
			cs.remove(in.GC)
			continue
		}
		for j := range in.In {
			cs.touch(&in.In[j])
		}
		if in.Out != nil {
			cs.touch(in.Out)
		}
		for j := range in.Ret {
			cs.touch(&in.Ret[j])
		}
	}
	return cs.stats
}

var identRe = regexp.MustCompile(`^(a|b|v[0-9]+)$`)

type valInfo struct {
	v           ssa.Value
	first, last int
}

// findName searches a 3-character identifier whose value (scope, version)
// falls into the bucket, using the real HashCode.
func findName(r *hxlib.Rng, scope ssa.Scope, version int32, bucket int, used map[string]bool) string {
	first := "abcdefghijklmnopqrstuvwxyzABCDEFGHIJKLMNOPQRSTUVWXYZ"
	rest := "0123456789ABCDEFGHIJKLMNOPQRSTUVWXYZ_abcdefghijklmnopqrstuvwxyz"
	o0, o1, o2 := r.Intn(len(first)), r.Intn(len(rest)), r.Intn(len(rest))
	for i := 0; i < len(first); i++ {
		c0 := first[(i+o0)%len(first)]
		for j := 0; j < len(rest); j++ {
			c1 := rest[(j+o1)%len(rest)]
			for k := 0; k < len(rest); k++ {
				c2 := rest[(k+o2)%len(rest)]
				if c1 >= 'a' && c1 <= 'z' && c2 >= 'a' && c2 <= 'z' {
					continue // may be a keyword / builtin / type name
				}
				n := string([]byte{c0, c1, c2})
				if used[n] {
					continue
				}
				v := ssa.Value{Name: n, Scope: scope, Version: version}
				if v.HashCode()%numBuckets == bucket {
					return n
				}
			}
		}
	}
	return ""
}

// collideProgram renames identifiers of p so that their SSA values share
// allocator buckets with simultaneously live temporaries (and each other).
func collideProgram(r *hxlib.Rng, p *prog) *prog {
	sizes, err := hxlib.StreamInputSizes(p.GIn, p.EIn)
	if err != nil {
		return p
	}
	sp, err := hxlib.CompileSSA(p.Src, sizes)
	if err != nil {
		return p
	}
	// live intervals of the non-constant values
	info := map[string]*valInfo{}
	see := func(v *ssa.Value, i int) {
		if v.Const {
			return
		}
		k := valueKey(v)
		if vi, ok := info[k]; ok {
			vi.last = i
		} else {
			info[k] = &valInfo{v: *v, first: i, last: i}
		}
	}
	for idx, arg := range sp.Inputs {
		_ = idx
		v := ssa.Value{Name: arg.Name, Scope: 1, Type: arg.Type}
		see(&v, -1)
	}
	for i := range sp.Steps {
		in := &sp.Steps[i].Instr
		if in.Op == ssa.GC {
			see(in.GC, i)
			continue
		}
		for j := range in.In {
			see(&in.In[j], i)
		}
		if in.Out != nil {
			see(in.Out, i)
		}
	}
	var temps, named []*valInfo
	for _, vi := range info {
		switch {
		case vi.v.Name == "%_" && vi.last-vi.first >= 2:
			temps = append(temps, vi)
		case identRe.MatchString(vi.v.Name) && vi.last > vi.first:
			named = append(named, vi)
		}
	}
	if len(temps) == 0 || len(named) == 0 {
		return p
	}
	// deterministic order (map iteration is random)
	sortVals(temps)
	sortVals(named)
	renames := map[string]string{}
	used := map[string]bool{}
	groups := 1 + r.Intn(3)
	for g := 0; g < groups; g++ {
		t := temps[r.Intn(len(temps))]
		bucket := bucketOf(&t.v)
		want := 1 + r.Intn(3) // 2..4 live values in the bucket
		for _, n := range shuffled(r, named) {
			if want == 0 {
				break
			}
			if _, done := renames[n.v.Name]; done {
				continue
			}
			if n.last < t.first || n.first > t.last {
				continue // not live at the same time
			}
			nn := findName(r, n.v.Scope, n.v.Version, bucket, used)
			if nn == "" {
				continue
			}
			renames[n.v.Name] = nn
			used[nn] = true
			want--
		}
	}
	if len(renames) == 0 {
		return p
	}
	src := p.Src
	for old, nn := range renames {
		src = regexp.MustCompile(`\b`+regexp.QuoteMeta(old)+`\b`).ReplaceAllString(src, nn)
	}
	feat := map[string]bool{"bucket_collision_renaming": true}
	for k, v := range p.Feat {
		feat[k] = v
	}
	q := &prog{Src: src, GIn: p.GIn, EIn: p.EIn, Class: "collide", Feat: feat}
	if strings.Contains(src, "func main(") {
		return q
	}
	return p
}

func sortVals(v []*valInfo) {
	for i := 1; i < len(v); i++ {
		for j := i; j > 0 && valueKey(&v[j].v) < valueKey(&v[j-1].v); j-- {
			v[j], v[j-1] = v[j-1], v[j]
		}
	}
}

func shuffled(r *hxlib.Rng, v []*valInfo) []*valInfo {
	out := append([]*valInfo(nil), v...)
	for i := len(out) - 1; i > 0; i-- {
		j := r.Intn(i + 1)
		out[i], out[j] = out[j], out[i]
	}
	return out
}

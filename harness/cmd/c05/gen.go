package main

// Generator of two-party MPCL programs for the streaming-vs-whole-circuit
// oracle.  Everything derives from the Rng.  Shapes are biased to what the
// streaming garbler treats specially: values that are only *rewired*
// (casts, constant shifts, slices, array element reads with constant index,
// array updates, moves, concatenation, struct fields) interleaved with
// computed values of the same widths, so that wire-id ranges of dead values
// are recycled while rewired values still point at them.

import (
	"fmt"
	"strings"

	"verifharness/hxlib"
)

type tkind int

const (
	kUint tkind = iota
	kInt
	kArr
	kBool
)

type ty struct {
	k    tkind
	bits int // scalar width / element width
	n    int // array length
	sgn  bool
}

func (t ty) String() string {
	switch t.k {
	case kUint:
		return fmt.Sprintf("uint%d", t.bits)
	case kInt:
		return fmt.Sprintf("int%d", t.bits)
	case kBool:
		return "bool"
	default:
		return fmt.Sprintf("[%d]%s", t.n, t.elem())
	}
}
func (t ty) elem() ty {
	if t.sgn {
		return ty{k: kInt, bits: t.bits}
	}
	return ty{k: kUint, bits: t.bits}
}
func (t ty) scalar() bool { return t.k == kUint || t.k == kInt }
func (t ty) size() int {
	if t.k == kArr {
		return t.n * t.bits
	}
	if t.k == kBool {
		return 1
	}
	return t.bits
}

type gvar struct {
	name  string
	t     ty
	alias bool // defined by a rewiring expression
	mut   bool // a local (assignable)
}

type field struct {
	name string
	t    ty
}

type prog struct {
	Src      string
	GIn, EIn []string
	Class    string
	Feat     map[string]bool
	// further input vectors the same program is run on (class upd: one per
	// combination of its conditions)
	Alt [][2][]string
	// HasTag: result TagOut is a bit set of the branches that were executed;
	// TagWant = all of them
	HasTag  bool
	TagOut  int
	TagWant uint64
	// Regen draws another input pair of the same types (nil: unknown types)
	Regen func(r *hxlib.Rng) (g, e []string)
	// Parts: the source in pieces (nil: not available), for expose.go
	Parts *srcParts
	// Lib: class lib -- the library function the program calls ("import/path.Name")
	Lib string
}

type gen struct {
	regens    []func(r *hxlib.Rng) []string // per main argument: fresh inputs of the same types
	topScalar string                        // a scalar expression over the inputs valid at the top of main
	r         *hxlib.Rng
	vars      []gvar
	sb        strings.Builder
	nv        int
	feat      map[string]bool
	widths    []int
	depth     int
	pool      []int
}

var scalarWidths = []int{8, 8, 16, 16, 32, 32, 64, 7, 13, 24, 33}
var elemWidths = []int{8, 8, 16, 32, 64}

func (g *gen) pickWidth() int {
	// few distinct widths per program: same-size values share free lists
	return g.widths[g.r.Intn(len(g.widths))]
}

func (g *gen) fresh() string {
	g.nv++
	return fmt.Sprintf("v%d", g.nv)
}

func (g *gen) varsOf(pred func(gvar) bool) []gvar {
	var out []gvar
	for _, v := range g.vars {
		if pred(v) {
			out = append(out, v)
		}
	}
	return out
}

// lit: literals come from a small per-program pool so that the same numeric
// constant is used at several widths (the streamer then pads / truncates the
// constant's wires: "Const values are cast to different value sizes"), and
// signed types also get negative ones (sign-extending pad).
func (g *gen) lit(t ty) string {
	if len(g.pool) == 0 {
		n := 3 + g.r.Intn(4)
		for i := 0; i < n; i++ {
			g.pool = append(g.pool, 1+g.r.Intn(59))
		}
	}
	v := g.pool[g.r.Intn(len(g.pool))]
	if t.bits < 7 {
		m := (1 << (t.bits - 1)) - 1
		if m < 1 {
			return "1"
		}
		v = 1 + v%m
	}
	if t.k == kInt && g.r.Intn(2) == 0 {
		g.feat["neg_literal"] = true
		return fmt.Sprintf("-%d", v)
	}
	return fmt.Sprint(v)
}

// scalar expression of exactly type t; alias reports whether the expression
// is pure rewiring of one variable.
func (g *gen) scalar(t ty, d int) (string, bool) {
	same := g.varsOf(func(v gvar) bool { return v.t == t })
	others := g.varsOf(func(v gvar) bool { return v.t.scalar() && v.t != t })
	arrs := g.varsOf(func(v gvar) bool { return v.t.k == kArr && v.t.elem() == t })
	for try := 0; try < 8; try++ {
		c := g.r.Intn(100)
		switch {
		case c < 14 && len(same) > 0:
			return same[g.r.Intn(len(same))].name, true
		case c < 30 && len(same) > 0:
			// shift by constant
			v := same[g.r.Intn(len(same))]
			cnt := 1 + g.r.Intn(t.bits-1)
			if g.r.Intn(10) == 0 {
				cnt = t.bits
			}
			if g.r.Bool() {
				g.feat["rshift"] = true
				return fmt.Sprintf("(%s >> %d)", v.name, cnt), true
			}
			g.feat["lshift"] = true
			return fmt.Sprintf("(%s << %d)", v.name, cnt), true
		case c < 44 && len(others) > 0:
			v := others[g.r.Intn(len(others))]
			g.feat["cast"] = true
			return fmt.Sprintf("%s(%s)", t, v.name), true
		case c < 58 && len(arrs) > 0:
			a := arrs[g.r.Intn(len(arrs))]
			g.feat["elem"] = true
			return fmt.Sprintf("%s[%d]", a.name, g.r.Intn(a.t.n)), true
		case c < 62 && len(arrs) > 0 && d > 0:
			a := arrs[g.r.Intn(len(arrs))]
			us := g.varsOf(func(v gvar) bool { return v.t.k == kUint && v.t.bits >= 8 })
			if len(us) == 0 || a.t.n > 16 {
				continue
			}
			g.feat["index"] = true
			return fmt.Sprintf("%s[%s %% %d]", a.name, us[g.r.Intn(len(us))].name, a.t.n), false
		case c < 92 && d > 0:
			x, _ := g.scalar(t, d-1)
			y, _ := g.scalar(t, d-1)
			if g.r.Intn(3) == 0 {
				y = fmt.Sprintf("%s(%s)", t, g.lit(t))
			}
			ops := []string{"+", "+", "-", "*", "&", "|", "^", "^", "&^"}
			if t.bits > 32 {
				ops = []string{"+", "+", "-", "&", "|", "^", "^", "&^"}
			}
			op := ops[g.r.Intn(len(ops))]
			g.feat["arith"] = true
			return fmt.Sprintf("(%s %s %s)", x, op, y), false
		case c >= 92:
			return fmt.Sprintf("%s(%s)", t, g.lit(t)), false
		}
	}
	if len(same) > 0 {
		return same[g.r.Intn(len(same))].name, true
	}
	return fmt.Sprintf("%s(%s)", t, g.lit(t)), false
}

func (g *gen) cond() string {
	sc := g.varsOf(func(v gvar) bool { return v.t.scalar() })
	v := sc[g.r.Intn(len(sc))]
	y, _ := g.scalar(v.t, 1)
	op := []string{"<", ">", "==", "!=", "<=", ">="}[g.r.Intn(6)]
	return fmt.Sprintf("%s %s %s", v.name, op, y)
}

func (g *gen) line(format string, a ...any) {
	g.sb.WriteString("\t")
	fmt.Fprintf(&g.sb, format, a...)
	g.sb.WriteString("\n")
}

func (g *gen) randScalarType() ty {
	w := g.pickWidth()
	if g.r.Intn(5) < 2 {
		return ty{k: kInt, bits: w}
	}
	return ty{k: kUint, bits: w}
}

func (g *gen) stmt() {
	scal := g.varsOf(func(v gvar) bool { return v.t.scalar() })
	muts := g.varsOf(func(v gvar) bool { return v.t.scalar() && v.mut })
	arrs := g.varsOf(func(v gvar) bool { return v.t.k == kArr })
	marrs := g.varsOf(func(v gvar) bool { return v.t.k == kArr && v.mut })
	c := g.r.Intn(100)
	switch {
	case c < 40 || len(scal) == 0:
		// new scalar; bias to the type of an existing variable
		t := g.randScalarType()
		if len(scal) > 0 && g.r.Intn(3) > 0 {
			t = scal[g.r.Intn(len(scal))].t
		}
		e, al := g.scalar(t, g.depth)
		n := g.fresh()
		g.line("%s := %s", n, e)
		g.vars = append(g.vars, gvar{name: n, t: t, alias: al, mut: true})
	case c < 50 && len(muts) > 0:
		v := muts[g.r.Intn(len(muts))]
		e, _ := g.scalar(v.t, g.depth)
		g.line("%s = %s", v.name, e)
		g.feat["reassign"] = true
	case c < 62 && len(arrs) > 0:
		// array copy + update
		var a gvar
		if len(marrs) > 0 && g.r.Bool() {
			a = marrs[g.r.Intn(len(marrs))]
		} else {
			src := arrs[g.r.Intn(len(arrs))]
			a = gvar{name: g.fresh(), t: src.t, alias: true, mut: true}
			g.line("%s := %s", a.name, src.name)
			g.vars = append(g.vars, a)
			g.feat["arraymov"] = true
		}
		e, _ := g.scalar(a.t.elem(), g.depth)
		g.line("%s[%d] = %s", a.name, g.r.Intn(a.t.n), e)
		g.feat["amov"] = true
	case c < 72 && len(arrs) > 0:
		// slice -> new array-like value
		a := arrs[g.r.Intn(len(arrs))]
		if a.t.n < 2 {
			return
		}
		from := g.r.Intn(a.t.n - 1)
		to := from + 1 + g.r.Intn(a.t.n-from-1+1)
		if to > a.t.n {
			to = a.t.n
		}
		if a.t.n > 64 {
			// wide arrays: a short window near the end (ids > 65535)
			to = a.t.n - g.r.Intn(8)
			from = to - 1 - g.r.Intn(6)
		}
		n := g.fresh()
		g.line("%s := %s[%d:%d]", n, a.name, from, to)
		g.vars = append(g.vars, gvar{name: n, t: ty{k: kArr, bits: a.t.bits, sgn: a.t.sgn, n: to - from}, alias: true})
		g.feat["slice"] = true
	case c < 80 && len(arrs) > 0:
		// concatenation of two arrays of the same element type
		a := arrs[g.r.Intn(len(arrs))]
		if a.t.n > 64 {
			return
		}
		bs := g.varsOf(func(v gvar) bool { return v.t.k == kArr && v.t.bits == a.t.bits && v.t.sgn == a.t.sgn && v.t.n <= 64 })
		b := bs[g.r.Intn(len(bs))]
		n := g.fresh()
		g.line("%s := %s + %s", n, a.name, b.name)
		g.vars = append(g.vars, gvar{name: n, t: ty{k: kArr, bits: a.t.bits, sgn: a.t.sgn, n: a.t.n + b.t.n}, alias: true})
		g.feat["concat"] = true
	case c < 90 && len(muts) > 0:
		v := muts[g.r.Intn(len(muts))]
		e1, _ := g.scalar(v.t, g.depth)
		cnd := g.cond()
		if g.r.Bool() {
			e2, _ := g.scalar(v.t, g.depth)
			g.line("if %s {\n\t\t%s = %s\n\t} else {\n\t\t%s = %s\n\t}", cnd, v.name, e1, v.name, e2)
		} else {
			g.line("if %s {\n\t\t%s = %s\n\t}", cnd, v.name, e1)
		}
		g.feat["phi"] = true
	case c < 96 && len(scal) > 0:
		// signed narrowing then widening: smov (sign wire = top bit of the
		// source) and, for unsigned, zero-extending mov
		v := scal[g.r.Intn(len(scal))]
		nb := []int{5, 8, 8, 13, 16}[g.r.Intn(5)]
		wb := nb + 1 + g.r.Intn(40)
		if wb > 64 {
			wb = 64
		}
		k := kInt
		if g.r.Intn(4) == 0 {
			k = kUint
		}
		n1, n2 := g.fresh(), g.fresh()
		t1, t2 := ty{k: k, bits: nb}, ty{k: k, bits: wb}
		g.line("%s := %s(%s)", n1, t1, v.name)
		g.line("%s := %s(%s)", n2, t2, n1)
		g.vars = append(g.vars, gvar{name: n1, t: t1, alias: true, mut: true}, gvar{name: n2, t: t2, alias: true, mut: true})
		g.feat["widen"] = true
	default:
		// explicit alias chain: x := v >> c1 ; y := x >> c2 (or casts)
		if len(scal) == 0 {
			return
		}
		v := scal[g.r.Intn(len(scal))]
		n1, n2 := g.fresh(), g.fresh()
		c1 := 1 + g.r.Intn(v.t.bits/2)
		c2 := 1 + g.r.Intn(v.t.bits/2)
		switch g.r.Intn(3) {
		case 0:
			g.line("%s := %s >> %d", n1, v.name, c1)
			g.line("%s := %s >> %d", n2, n1, c2)
		case 1:
			g.line("%s := %s << %d", n1, v.name, c1)
			g.line("%s := %s >> %d", n2, n1, c2)
		default:
			g.line("%s := %s", n1, v.name)
			g.line("%s := %s << %d", n2, n1, c2)
		}
		g.vars = append(g.vars, gvar{name: n1, t: v.t, alias: true, mut: true}, gvar{name: n2, t: v.t, alias: true, mut: true})
		g.feat["chain"] = true
	}
}

func hexDigits(r *hxlib.Rng, n int) string {
	const hx = "0123456789abcdef"
	b := make([]byte, n)
	for i := range b {
		b[i] = hx[r.Intn(16)]
	}
	return string(b)
}

// inputFor renders a random input string for a declared argument type.
func inputFor(r *hxlib.Rng, t ty) string {
	switch t.k {
	case kArr:
		return "0x" + hexDigits(r, t.n*t.bits/4)
	case kInt:
		lim := uint64(1) << uint(minInt(t.bits-1, 62))
		v := int64(r.U64() % lim)
		if r.Bool() {
			v = -v
		}
		if r.Intn(6) == 0 {
			v = -1
		}
		return fmt.Sprint(v)
	default:
		v := r.U64()
		if t.bits < 64 {
			v &= (uint64(1) << uint(t.bits)) - 1
		}
		switch r.Intn(8) {
		case 0:
			v = 0
		case 1:
			v = (uint64(1) << uint(minInt(t.bits, 63))) - 1
		}
		if r.Bool() {
			return fmt.Sprintf("0x%x", v)
		}
		return fmt.Sprint(v)
	}
}

func minInt(a, b int) int {
	if a < b {
		return a
	}
	return b
}

// argument declaration: returns declared type text, the variables it puts in
// scope, the input strings, and the struct type declaration (if any).
func (g *gen) arg(name string, class string, idx int) (decl string, inputs []string, typeDecl string) {
	r := g.r
	c := r.Intn(100)
	switch {
	case class == "wide" && idx == 0:
		t := ty{k: kArr, bits: 64, n: 1030 + r.Intn(90)}
		if r.Intn(3) == 0 {
			// the inputs end right at the 16/32-bit id boundary (wire ids
			// 65535 / 65536 are the last input bits or {zero} / {one})
			t.n = 1022 + r.Intn(3)
			g.feat["wide_boundary"] = true
		}
		g.vars = append(g.vars, gvar{name: name, t: t})
		g.feat["wide_input"] = true
		g.regens = append(g.regens, func(rr *hxlib.Rng) []string { return []string{inputFor(rr, t)} })
		return t.String(), []string{inputFor(r, t)}, ""
	case class == "unsized" && (idx == 0 || r.Bool()):
		// unsized integer argument: instantiated from the input's size
		digits := 1 + r.Intn(16)
		bits := digits * 4
		t := ty{k: kUint, bits: bits}
		g.vars = append(g.vars, gvar{name: name, t: t})
		g.widths = append(g.widths, bits, bits)
		g.feat["unsized_arg"] = true
		g.regens = append(g.regens, func(rr *hxlib.Rng) []string { return []string{"0x" + hexDigits(rr, digits)} })
		if g.topScalar == "" {
			g.topScalar = name
		}
		return "uint", []string{"0x" + hexDigits(r, digits)}, ""
	case class == "wide" && idx == 1:
		t := ty{k: kUint, bits: []int{64, 64, 63, 33, 32, 3 + r.Intn(62)}[r.Intn(6)]}
		g.vars = append(g.vars, gvar{name: name, t: t})
		g.widths = append(g.widths, t.bits)
		g.regens = append(g.regens, func(rr *hxlib.Rng) []string { return []string{inputFor(rr, t)} })
		if g.topScalar == "" {
			g.topScalar = name
		}
		return t.String(), []string{inputFor(r, t)}, ""
	case c < 45:
		t := g.randScalarType()
		g.vars = append(g.vars, gvar{name: name, t: t})
		g.regens = append(g.regens, func(rr *hxlib.Rng) []string { return []string{inputFor(rr, t)} })
		if g.topScalar == "" {
			g.topScalar = name
		}
		return t.String(), []string{inputFor(r, t)}, ""
	case c < 75:
		t := ty{k: kArr, bits: elemWidths[r.Intn(len(elemWidths))], n: 2 + r.Intn(5)}
		if r.Intn(6) == 0 {
			t.n = 8 + r.Intn(9)
		}
		g.widths = append(g.widths, t.bits)
		g.vars = append(g.vars, gvar{name: name, t: t})
		g.feat["array_arg"] = true
		g.regens = append(g.regens, func(rr *hxlib.Rng) []string { return []string{inputFor(rr, t)} })
		if g.topScalar == "" {
			g.topScalar = name + "[0]"
		}
		return t.String(), []string{inputFor(r, t)}, ""
	default:
		// struct argument: fields become readable values name.F
		nf := 2 + r.Intn(3)
		tn := "S" + strings.ToUpper(name)
		var sb strings.Builder
		fmt.Fprintf(&sb, "type %s struct {\n", tn)
		var fts []ty
		for i := 0; i < nf; i++ {
			var t ty
			if r.Intn(3) == 0 {
				t = ty{k: kArr, bits: elemWidths[r.Intn(3)], n: 2 + r.Intn(3)}
			} else {
				t = g.randScalarType()
				if g.topScalar == "" {
					g.topScalar = fmt.Sprintf("%s.F%d", name, i)
				}
			}
			fts = append(fts, t)
			fmt.Fprintf(&sb, "\tF%d %s\n", i, t)
			inputs = append(inputs, inputFor(r, t))
			g.vars = append(g.vars, gvar{name: fmt.Sprintf("%s.F%d", name, i), t: t, alias: true})
		}
		sb.WriteString("}\n")
		g.regens = append(g.regens, func(rr *hxlib.Rng) []string {
			var in []string
			for _, t := range fts {
				in = append(in, inputFor(rr, t))
			}
			return in
		})
		g.feat["struct_arg"] = true
		return tn, inputs, sb.String()
	}
}

// genProgram builds one program of the given class:
//
//	"mixed"    random statements
//	"alias"    statement mix biased to rewiring, few widths
//	"wide"     garbler argument is a [>1024]uint64 array (wire ids > 65535)
//	"unsized"  unsized main arguments instantiated from the inputs
func genProgram(r *hxlib.Rng, class string, idx int) *prog {
	if class == "sweep" {
		return sweepProgram(r, idx)
	}
	g := &gen{r: r, feat: map[string]bool{}, depth: 2}
	nw := 1 + r.Intn(2)
	if class == "mixed" {
		nw = 2 + r.Intn(2)
	}
	for i := 0; i < nw; i++ {
		g.widths = append(g.widths, scalarWidths[r.Intn(len(scalarWidths))])
	}
	if class == "wide" {
		g.widths = []int{64, 64, 32}
	}
	var types strings.Builder
	da, ia, ta := g.arg("a", class, 0)
	db, ib, tb := g.arg("b", class, 1)
	types.WriteString(ta)
	types.WriteString(tb)
	ns := 4 + r.Intn(14)
	if class == "wide" {
		ns = 4 + r.Intn(8)
	}
	if g.feat["wide_boundary"] {
		// the first allocated value straddles (or ends at) wire id 65536
		av := g.vars[0]
		n := g.fresh()
		g.line("%s := (%s[%d] ^ %s[%d])", n, av.name, r.Intn(av.t.n), av.name, av.t.n-1-r.Intn(3))
		g.vars = append(g.vars, gvar{name: n, t: av.t.elem(), mut: true})
	}
	for i := 0; i < ns; i++ {
		g.stmt()
	}
	if class == "early" {
		return g.finishEarly(types.String(), da, db, ia, ib)
	}
	// results: 1..4 values, biased to rewired values and late definitions
	nres := 1 + r.Intn(4)
	var rets, rtypes []string
	cands := g.varsOf(func(v gvar) bool { return v.t.size() <= 4096 })
	for i := 0; i < nres && len(cands) > 0; i++ {
		var v gvar
		al := g.varsOf(func(v gvar) bool { return v.alias && v.t.size() <= 4096 })
		switch {
		case len(al) > 0 && r.Intn(2) == 0:
			v = al[r.Intn(len(al))]
		case r.Intn(2) == 0:
			v = cands[len(cands)-1-r.Intn(minInt(4, len(cands)))]
		default:
			v = cands[r.Intn(len(cands))]
		}
		if v.t.scalar() && r.Intn(3) == 0 {
			e, _ := g.scalar(v.t, 1)
			rets = append(rets, e)
		} else {
			rets = append(rets, v.name)
		}
		if v.t.k == kArr {
			rtypes = append(rtypes, "[]"+v.t.elem().String())
			g.feat["array_result"] = true
		} else {
			rtypes = append(rtypes, v.t.String())
		}
	}
	if len(rets) > 1 {
		g.feat["multi_output"] = true
	}
	src := fmt.Sprintf("package main\n%sfunc main(a %s, b %s) (%s) {\n%s\treturn %s\n}\n",
		types.String(), da, db, strings.Join(rtypes, ", "), g.sb.String(), strings.Join(rets, ", "))
	p := &prog{Src: src, GIn: ia, EIn: ib, Class: class, Feat: g.feat}
	if len(g.regens) == 2 {
		ra, rb := g.regens[0], g.regens[1]
		p.Regen = func(rr *hxlib.Rng) ([]string, []string) { return ra(rr), rb(rr) }
	}
	if body := strings.TrimRight(g.sb.String(), "\n"); body != "" && g.topScalar != "" {
		p.Parts = &srcParts{Pre: "package main\n" + types.String(), Sig: fmt.Sprintf("a %s, b %s", da, db), RTypes: rtypes,
			Body: strings.Split(body, "\n"), Rets: rets, Scalar: g.topScalar}
		inRets := map[string]bool{}
		for _, x := range rets {
			inRets[x] = true
		}
		for _, v := range g.vars {
			if inRets[v.name] || v.t.size() > 4096 || v.t.k == kBool || len(p.Parts.Extra) >= 12 {
				continue
			}
			inRets[v.name] = true
			t := v.t.String()
			if v.t.k == kArr {
				t = "[]" + v.t.elem().String()
			}
			p.Parts.Extra = append(p.Parts.Extra, [2]string{v.name, t})
		}
	}
	return p
}

// sweepProgram: a fixed small program over a garbler array that ends just
// below wire id 65536 and an evaluator integer of every width 1..64, so that
// {zero}, {one} and the first allocated values cross the 16/32-bit id (and
// 64k page) boundary at every alignment.
func sweepProgram(r *hxlib.Rng, idx int) *prog {
	k := idx / 9 // the class rotation has 9 entries
	m := 1 + k%64
	n := 1019 + (k/64)%5
	ta := ty{k: kArr, bits: 64, n: n}
	tb := ty{k: kUint, bits: m}
	src := fmt.Sprintf(`package main
func main(a [%d]uint64, b uint%d) (uint64, uint%d, uint64) {
	v1 := a[0] ^ a[%d]
	v2 := v1 + a[1]
	v3 := v2 >> 3
	return v2, b + uint%d(1), v3
}
`, n, m, m, n-1, m)
	return &prog{Src: src, GIn: []string{inputFor(r, ta)}, EIn: []string{inputFor(r, tb)}, Class: "sweep",
		Feat: map[string]bool{"wide_input": true, "boundary_sweep": true}}
}

// bigProgram: an otherwise small program with ONE instruction whose circuit
// has more than 65536 wires (division / modulo at 96..130 bits, multiplication
// at 130..200 bits), so that circuit-internal temporary wire indexes exceed
// 65535 while every persistent wire id stays small.
func bigProgram(r *hxlib.Rng, k int) *prog {
	var op string
	var w int
	switch k % 3 {
	case 0:
		op, w = "/", 100+r.Intn(31)
		if k == 0 {
			w = 128
		}
	case 1:
		op, w = "%", 96+r.Intn(35)
	default:
		op, w = "*", 150+r.Intn(60)
	}
	t := ty{k: kUint, bits: w}
	hexIn := func() string {
		s := hexDigits(r, (w+3)/4)
		// keep within w bits: clear the surplus top bits of the first digit
		if w%4 != 0 {
			d := "0123456789abcdef"
			v := strings.IndexByte(d, s[0]) & ((1 << uint(w%4)) - 1)
			s = string(d[v]) + s[1:]
		}
		return "0x" + s
	}
	bIn := hexIn()
	if r.Intn(3) == 0 {
		bIn = fmt.Sprintf("0x%x", 1+r.Intn(1000)) // small divisor: large quotient
	}
	src := fmt.Sprintf(`package main
func main(a, b %s) (%s, %s, %s) {
	x := a %s b
	y := x >> 3
	z := y ^ b
	return x, y, z
}
`, t, t, t, t, op)
	return &prog{Src: src, GIn: []string{hexIn()}, EIn: []string{bIn}, Class: "big",
		Feat: map[string]bool{"big_instruction": true}}
}

// reassignIn emits, inside a nested block, statements that only assign to
// existing mutable scalars (no declarations: they would be block-scoped).
func (g *gen) reassignIn(ind string, n int, must []gvar) {
	muts := g.varsOf(func(v gvar) bool { return v.t.scalar() && v.mut })
	for i := 0; i < n; i++ {
		var v gvar
		if i < len(must) {
			v = must[i]
		} else if len(muts) > 0 {
			v = muts[g.r.Intn(len(muts))]
		} else {
			return
		}
		e, _ := g.scalar(v.t, 1)
		if g.r.Intn(3) == 0 {
			e = fmt.Sprintf("%s(%s)", v.t, g.lit(v.t)) // plain constant: no read
		}
		fmt.Fprintf(&g.sb, "%s%s = %s\n", ind, v.name, e)
	}
}

// finishEarly: class "early" -- results are mutable scalars R; some of them get
// a pending phi (`if c { r = e }`), then an if / else whose else branch
// touches them and RETURNS, while the then branch falls through to a
// continuation that reads them.  Block serialisation puts the continuation
// before the else block; a phi resolved first in the else block is then used
// before its definition in prog.Steps.
func (g *gen) finishEarly(types, da, db string, ia, ib []string) *prog {
	r := g.r
	// make sure there are mutable scalars
	for len(g.varsOf(func(v gvar) bool { return v.t.scalar() && v.mut })) < 2 {
		t := g.randScalarType()
		e, _ := g.scalar(t, 1)
		n := g.fresh()
		g.line("%s := %s", n, e)
		g.vars = append(g.vars, gvar{name: n, t: t, mut: true})
	}
	muts := g.varsOf(func(v gvar) bool { return v.t.scalar() && v.mut })
	nres := 1 + r.Intn(minInt(3, len(muts)))
	var res []gvar
	for _, i := range permN(r, len(muts))[:nres] {
		res = append(res, muts[i])
	}
	var rtypes, rnames []string
	for _, v := range res {
		rtypes = append(rtypes, v.t.String())
		rnames = append(rnames, v.name)
	}
	levels := 1 + r.Intn(2)
	for l := 0; l < levels; l++ {
		// pending phis
		for _, v := range res {
			if r.Intn(3) > 0 {
				e, _ := g.scalar(v.t, 1)
				if r.Bool() {
					g.line("if %s {\n\t\t%s = %s\n\t}", g.cond(), v.name, e)
				} else {
					e2, _ := g.scalar(v.t, 1)
					g.line("if %s {\n\t\t%s = %s\n\t} else {\n\t\t%s = %s\n\t}", g.cond(), v.name, e, v.name, e2)
				}
			}
		}
		// if / else with early return in one branch
		retFirst := r.Intn(4) == 0
		g.line("if %s {", g.cond())
		if retFirst {
			g.reassignIn("\t\t", 1+r.Intn(3), res)
			g.line("\treturn %s", strings.Join(rnames, ", "))
			g.line("} else {")
			g.reassignIn("\t\t", r.Intn(3), nil)
			g.line("}")
		} else {
			g.reassignIn("\t\t", r.Intn(3), nil)
			g.line("} else {")
			g.reassignIn("\t\t", 1+r.Intn(3), res)
			g.line("\treturn %s", strings.Join(rnames, ", "))
			g.line("}")
		}
		// continuation reads the results
		for i := 0; i < 1+r.Intn(3); i++ {
			v := res[r.Intn(len(res))]
			e, _ := g.scalar(v.t, 2)
			g.line("%s = (%s ^ %s)", v.name, v.name, e)
		}
	}
	g.feat["early_return"] = true
	if len(res) > 1 {
		g.feat["multi_output"] = true
	}
	src := fmt.Sprintf("package main\n%sfunc main(a %s, b %s) (%s) {\n%s\treturn %s\n}\n",
		types, da, db, strings.Join(rtypes, ", "), g.sb.String(), strings.Join(rnames, ", "))
	return &prog{Src: src, GIn: ia, EIn: ib, Class: "early", Feat: g.feat}
}

func permN(r *hxlib.Rng, n int) []int {
	p := make([]int, n)
	for i := range p {
		p[i] = i
	}
	for i := n - 1; i > 0; i-- {
		j := r.Intn(i + 1)
		p[i], p[j] = p[j], p[i]
	}
	return p
}

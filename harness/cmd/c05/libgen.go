package main

// Class lib: programs that call the functions of the MPCL library
// ($MPCLDIR/pkg) -- MPCL-implemented ones, native circuits (`native("x.circ")`
// -> Circ instructions) and compiler builtins (`native("hamming")` -> Builtin
// instructions) -- in streaming mode and in whole-circuit mode.
//
// Nothing here is keyed to a function name: the catalogue is read from the
// library's source at run time (every exported `func Name(params) results`
// whose parameter and result types are scalars, byte / integer arrays or
// slices; symbolic array sizes are resolved from the packages' numeric
// constants), program i calls catalogue entry (i + seed) mod len (so every
// entry is called once per len programs), round 0 of an entry instantiates
// unsized parameters wide (32 / 64 bits, 16-element slices), later rounds at
// boundary-biased small widths.  Around the call:
//
//   - "dirty free lists": before the call several computed values of the
//     result's width die (they are folded into one bool result), so the wire
//     ids the call's result gets have been used before and carry stale labels
//     at both parties -- a result bit the streamed circuit does not drive shows
//     as that stale value;
//   - optionally a second call of the same function on other arguments (the
//     per-instruction circuit cache of Program.Stream is keyed by the typed
//     instruction text).

import (
	"fmt"
	"os"
	"path/filepath"
	"regexp"
	"sort"
	"strconv"
	"strings"
	"sync"

	"github.com/markkurossi/mpc/compiler/ssa"

	"verifharness/hxlib"
)

type libTy struct {
	kind string // "u", "i", "bool", "arr", "str"
	bits int    // scalars: width, 0 = unsized (`uint`, `int`)
	n    int    // arr: length, 0 = slice
	elem *libTy
}

func (t libTy) scalar() bool { return t.kind == "u" || t.kind == "i" }

type libFunc struct {
	Import  string // "encoding/binary"
	Pkg     string // "binary"
	Name    string
	Params  []libTy
	Results []libTy
	Sig     string
}

func (f *libFunc) id() string { return f.Import + "." + f.Name }

var (
	reLibFunc  = regexp.MustCompile(`(?m)^func ([A-Z]\w*)\(([^)]*)\)\s*(\([^)]*\)|[^{(\n]*)\s*\{`)
	reLibPkg   = regexp.MustCompile(`(?m)^package (\w+)`)
	reLibConst = regexp.MustCompile(`(?m)^\s*(?:const\s+)?([A-Za-z_]\w*)\s*(?:\w+\s*)?=\s*(0[xX][0-9a-fA-F]+|\d+)\s*(?://.*)?$`)
	reSized    = regexp.MustCompile(`^(u?int)(\d+)$`)
	reArr      = regexp.MustCompile(`^\[([^\]]*)\](.+)$`)
)

type libCatalogue struct {
	funcs   []*libFunc
	skipped int                       // exported functions whose signature is outside the grammar
	consts  map[string]map[string]int // package directory -> numeric constants
}

var (
	libOnce sync.Once
	libCat  *libCatalogue
)

func catalogue() *libCatalogue {
	libOnce.Do(func() { libCat = scanLibrary(filepath.Join(os.Getenv("MPCLDIR"), "pkg")) })
	return libCat
}

// parseTy: the type grammar of the class.  dir = directory of the declaring
// package (for unqualified constants in array sizes).
func (c *libCatalogue) parseTy(s, dir string) (libTy, bool) {
	s = strings.TrimSpace(s)
	switch s {
	case "uint":
		return libTy{kind: "u"}, true
	case "int":
		return libTy{kind: "i"}, true
	case "byte":
		return libTy{kind: "u", bits: 8}, true
	case "rune":
		return libTy{kind: "i", bits: 32}, true
	case "bool":
		return libTy{kind: "bool", bits: 1}, true
	case "string":
		return libTy{kind: "str"}, true
	}
	if m := reSized.FindStringSubmatch(s); m != nil {
		b, _ := strconv.Atoi(m[2])
		if b < 1 || b > 4096 {
			return libTy{}, false
		}
		if m[1] == "uint" {
			return libTy{kind: "u", bits: b}, true
		}
		return libTy{kind: "i", bits: b}, true
	}
	if m := reArr.FindStringSubmatch(s); m != nil {
		el, ok := c.parseTy(m[2], dir)
		if !ok || !el.scalar() {
			return libTy{}, false
		}
		n := 0
		if sz := strings.TrimSpace(m[1]); sz != "" {
			v, ok := c.resolveConst(sz, dir)
			if !ok || v < 1 || v > 4096 {
				return libTy{}, false
			}
			n = v
		}
		return libTy{kind: "arr", n: n, elem: &el}, true
	}
	return libTy{}, false
}

func (c *libCatalogue) resolveConst(s, dir string) (int, bool) {
	if v, err := strconv.ParseInt(s, 0, 32); err == nil {
		return int(v), true
	}
	if i := strings.IndexByte(s, '.'); i > 0 {
		// qualified: the library package whose directory is named like the qualifier
		var dirs []string
		for d := range c.consts {
			if filepath.Base(d) == s[:i] {
				dirs = append(dirs, d)
			}
		}
		if len(dirs) != 1 {
			return 0, false
		}
		v, ok := c.consts[dirs[0]][s[i+1:]]
		return v, ok
	}
	v, ok := c.consts[dir][s]
	return v, ok
}

// splitDecls: "a, b []byte, k int" -> types per declared name; "(x, y uint8)"
// likewise; "[]byte, bool" (no names) -> the types.
func splitDecls(s string, named bool) []string {
	s = strings.Join(strings.Fields(s), " ")
	if s == "" {
		return nil
	}
	var toks []string
	for _, t := range strings.Split(s, ",") {
		toks = append(toks, strings.TrimSpace(t))
	}
	if !named {
		for _, t := range toks {
			if strings.Contains(t, " ") {
				named = true
			}
		}
	}
	if !named {
		return toks
	}
	out := make([]string, len(toks))
	last := ""
	for i := len(toks) - 1; i >= 0; i-- {
		if j := strings.IndexByte(toks[i], ' '); j > 0 {
			last = strings.TrimSpace(toks[i][j+1:])
		}
		out[i] = last
	}
	return out
}

func scanLibrary(root string) *libCatalogue {
	c := &libCatalogue{consts: map[string]map[string]int{}}
	type srcFile struct {
		dir, rel, pkg string
		text          string
	}
	var files []srcFile
	filepath.Walk(root, func(p string, fi os.FileInfo, err error) error {
		if err != nil || fi.IsDir() || !strings.HasSuffix(p, ".mpcl") {
			return nil
		}
		b, err := os.ReadFile(p)
		if err != nil {
			return nil
		}
		pm := reLibPkg.FindSubmatch(b)
		if pm == nil {
			return nil
		}
		dir := filepath.Dir(p)
		rel, _ := filepath.Rel(root, dir)
		if rel == "." || strings.Contains(rel, "internal") {
			return nil
		}
		files = append(files, srcFile{dir: dir, rel: filepath.ToSlash(rel), pkg: string(pm[1]), text: string(b)})
		if c.consts[dir] == nil {
			c.consts[dir] = map[string]int{}
		}
		for _, m := range reLibConst.FindAllStringSubmatch(string(b), -1) {
			if v, err := strconv.ParseInt(m[2], 0, 32); err == nil {
				c.consts[dir][m[1]] = int(v)
			}
		}
		return nil
	})
	for _, f := range files {
		for _, m := range reLibFunc.FindAllStringSubmatch(f.text, -1) {
			lf := &libFunc{Import: f.rel, Pkg: f.pkg, Name: m[1]}
			ok := true
			for _, t := range splitDecls(m[2], true) {
				pt, good := c.parseTy(t, f.dir)
				if !good || pt.kind == "str" {
					ok = false
					break
				}
				lf.Params = append(lf.Params, pt)
			}
			res := strings.TrimSpace(m[3])
			res = strings.TrimSuffix(strings.TrimPrefix(res, "("), ")")
			for _, t := range splitDecls(res, false) {
				if !ok {
					break
				}
				// a result's symbolic size need not be resolved: main declares a slice
				if am := reArr.FindStringSubmatch(strings.TrimSpace(t)); am != nil {
					t = "[]" + am[2]
				}
				rt, good := c.parseTy(t, f.dir)
				if !good {
					ok = false
					break
				}
				lf.Results = append(lf.Results, rt)
			}
			if !ok || len(lf.Params) == 0 || len(lf.Results) == 0 {
				c.skipped++
				continue
			}
			lf.Sig = fmt.Sprintf("%s.%s(%s) %s", f.pkg, m[1], strings.Join(strings.Fields(m[2]), " "), strings.Join(strings.Fields(m[3]), " "))
			c.funcs = append(c.funcs, lf)
		}
	}
	sort.Slice(c.funcs, func(i, j int) bool { return c.funcs[i].id() < c.funcs[j].id() })
	return c
}

// ---------------------------------------------------------------- generation

var libNarrow = []int{1, 2, 3, 4, 5, 6, 7, 8, 9, 12, 15, 16, 17, 24, 31, 33}
var libLens = []int{1, 2, 3, 4, 7, 8, 12, 16, 16, 24, 32}

type libArg struct {
	name string
	t    ty // concrete main argument type (gen.go)
}

func (t libTy) sgn() bool { return t.kind == "i" }

func scalarTyText(sgn bool, bits int) string {
	if sgn {
		return fmt.Sprintf("int%d", bits)
	}
	return fmt.Sprintf("uint%d", bits)
}

// view: an expression of scalar type (sgn, bits) over a main argument.
func (a libArg) view(r *hxlib.Rng, sgn bool, bits int) string {
	want := scalarTyText(sgn, bits)
	if a.t.k == kArr {
		return fmt.Sprintf("%s(%s[%d])", want, a.name, r.Intn(a.t.n))
	}
	if a.t.String() == want {
		return a.name
	}
	return fmt.Sprintf("%s(%s)", want, a.name)
}

// libInput: inputs biased to all-ones / zero / top bit (stale wires show when
// they hold 1 where the true result has 0).
func libInput(r *hxlib.Rng, t ty) string {
	if t.k == kArr {
		switch r.Intn(4) {
		case 0:
			return "0x" + strings.Repeat("f", t.n*t.bits/4)
		default:
			return inputFor(r, t)
		}
	}
	bits := t.bits
	all := func() uint64 {
		if bits >= 64 {
			return ^uint64(0)
		}
		return (uint64(1) << uint(bits)) - 1
	}
	if t.k == kInt {
		if r.Intn(3) == 0 {
			return "-1"
		}
		return inputFor(r, t)
	}
	switch r.Intn(6) {
	case 0, 1:
		return fmt.Sprintf("0x%x", all())
	case 2:
		return fmt.Sprintf("0x%x", uint64(1)<<uint(bits-1))
	case 3:
		return "0"
	}
	return fmt.Sprintf("0x%x", r.U64()&all())
}

func libProgram(r *hxlib.Rng, idx int, seed uint64) *prog {
	cat := catalogue()
	if len(cat.funcs) == 0 {
		return nil
	}
	f := cat.funcs[(idx+int(seed%uint64(len(cat.funcs))))%len(cat.funcs)]
	round := idx / len(cat.funcs)
	feat := map[string]bool{}

	// widths of this instantiation
	unsized := 0
	for _, p := range f.Params {
		if p.scalar() && p.bits == 0 {
			unsized++
		}
	}
	w := []int{32, 64}[r.Intn(2)]
	if round > 0 {
		w = libNarrow[r.Intn(len(libNarrow))]
		if r.Intn(4) == 0 {
			w = []int{32, 48, 63, 64}[r.Intn(4)]
		}
	}
	if unsized >= 3 && w > 16 {
		w = 16 // cost guard: three unsized operands mean a cubic-cost function (modular exponentiation)
	}
	n := 16
	if round > 0 {
		n = libLens[r.Intn(len(libLens))]
	}
	ew := []int{8, 16, 32}[r.Intn(3)]
	var inst func(t libTy) ty
	inst = func(t libTy) ty { // concrete main-argument type for a parameter
		switch t.kind {
		case "arr":
			el := inst(*t.elem)
			k := t.n
			if k == 0 {
				k = n
			}
			if t.elem.bits == 0 {
				el.bits = ew
			}
			return ty{k: kArr, bits: el.bits, n: k, sgn: el.k == kInt}
		case "i":
			if t.bits == 0 {
				return ty{k: kInt, bits: maxInt(w, 2)}
			}
			return ty{k: kInt, bits: t.bits}
		case "bool":
			return ty{k: kUint, bits: 1}
		default:
			if t.bits == 0 {
				return ty{k: kUint, bits: w}
			}
			return ty{k: kUint, bits: t.bits}
		}
	}
	// main's two arguments: the first two array parameters, else scalars
	var arrs, scals []ty
	for _, p := range f.Params {
		if p.kind == "arr" {
			arrs = append(arrs, inst(p))
		} else {
			scals = append(scals, inst(p))
		}
	}
	var tg, te ty
	switch {
	case len(arrs) >= 2:
		tg, te = arrs[0], arrs[1]
	case len(arrs) == 1 && len(scals) > 0:
		tg, te = arrs[0], scals[0]
	case len(arrs) == 1:
		tg, te = arrs[0], ty{k: kUint, bits: 8}
	case len(scals) >= 2:
		tg, te = scals[0], scals[1]
	default:
		tg, te = scals[0], scals[0]
	}
	if r.Intn(4) == 0 {
		tg, te = te, tg
	}
	g, e := libArg{"g", tg}, libArg{"e", te}
	args := []libArg{g, e}

	// one argument list
	argList := func(variant int) ([]string, bool) {
		var out []string
		used := 0
		for _, p := range f.Params {
			it := inst(p)
			switch {
			case p.kind == "arr":
				var c []string
				for _, a := range args {
					if a.t.k == kArr && a.t.bits == it.bits && a.t.sgn == it.sgn {
						if a.t.n == it.n {
							c = append(c, a.name)
						} else if p.n == 0 {
							c = append(c, a.name)
						} else if a.t.n > it.n {
							c = append(c, fmt.Sprintf("%s[0:%d]", a.name, it.n))
						}
						if p.n == 0 && a.t.n > 1 && variant > 0 {
							lo := r.Intn(a.t.n - 1)
							c = append(c, fmt.Sprintf("%s[%d:%d]", a.name, lo, lo+1+r.Intn(a.t.n-lo)))
						}
					}
				}
				if len(c) == 0 {
					return nil, false
				}
				out = append(out, c[(used+variant)%len(c)])
				used++
				feat["lib_array_arg"] = true
			case p.kind == "bool":
				out = append(out, fmt.Sprintf("(%s > %s)", g.view(r, false, 8), e.view(r, false, 8)))
			default:
				if p.kind == "i" && p.bits == 0 && r.Intn(4) > 0 {
					// unsized int parameters are mostly offsets, lengths, shift counts: constants
					out = append(out, fmt.Sprint(r.Intn(minInt(n, 8)+1)))
					feat["lib_const_arg"] = true
					continue
				}
				a := args[(used+variant)%2]
				b := args[(used+variant+1)%2]
				x := a.view(r, it.k == kInt, it.bits)
				if r.Intn(3) == 0 {
					x = fmt.Sprintf("(%s %s %s)", x, []string{"^", "+", "|", "&"}[r.Intn(4)], b.view(r, it.k == kInt, it.bits))
				}
				out = append(out, x)
				used++
				if p.bits == 0 {
					feat["lib_unsized_arg"] = true
				}
			}
		}
		return out, true
	}

	var body strings.Builder
	var rets, rtypes []string
	resTy := func(t libTy) string {
		switch t.kind {
		case "arr":
			el := *t.elem
			return "[]" + resTyScalar(el)
		case "str":
			return "string"
		case "bool":
			return "bool"
		}
		return resTyScalar(t)
	}

	// dirty free lists: values of the scalar results' widths (unsized: w) die before the call
	dirty := round > 0 && r.Intn(3) > 0 || round == 0 && r.Intn(3) == 0
	if dirty {
		var widths []int
		for _, t := range f.Results {
			if t.scalar() {
				b := t.bits
				if b == 0 {
					b = w
				}
				widths = append(widths, b)
			} else if t.kind == "arr" && t.elem.bits > 0 {
				widths = append(widths, t.elem.bits)
			}
		}
		if len(widths) == 0 {
			widths = []int{w}
		}
		var conds []string
		nd := 0
		for _, b := range widths {
			k := len(f.Params) + 1 + r.Intn(3)
			for i := 0; i < k && nd < 12; i++ {
				nd++
				op := []string{"|", "|", "^", "+", "&"}[r.Intn(5)]
				fmt.Fprintf(&body, "\td%d := %s %s %s\n", nd, g.view(r, false, b), op, e.view(r, false, b))
				conds = append(conds, fmt.Sprintf("d%d > 0", nd))
			}
		}
		fmt.Fprintf(&body, "\tdc := %s\n", strings.Join(conds, " && "))
		feat["lib_dirty"] = true
	}
	ncalls := 1
	if r.Intn(2) == 0 {
		ncalls = 2
		feat["lib_two_calls"] = true
	}
	for c := 0; c < ncalls; c++ {
		al, ok := argList(c)
		if !ok {
			return nil
		}
		var names []string
		for i, t := range f.Results {
			nm := fmt.Sprintf("r%d_%d", c, i)
			names = append(names, nm)
			rets = append(rets, nm)
			rtypes = append(rtypes, resTy(t))
		}
		fmt.Fprintf(&body, "\t%s := %s.%s(%s)\n", strings.Join(names, ", "), f.Pkg, f.Name, strings.Join(al, ", "))
	}
	if dirty {
		rets = append(rets, "dc")
		rtypes = append(rtypes, "bool")
	}
	src := fmt.Sprintf("package main\n\nimport (\n\t%q\n)\n\nfunc main(g %s, e %s) (%s) {\n%s\treturn %s\n}\n",
		f.Import, tg, te, strings.Join(rtypes, ", "), body.String(), strings.Join(rets, ", "))
	feat["lib_round_"+strconv.Itoa(minInt(round, 3))] = true
	p := &prog{Src: src, GIn: []string{libInput(r, tg)}, EIn: []string{libInput(r, te)}, Class: "lib", Feat: feat}
	p.Lib = f.id()
	p.Regen = func(rr *hxlib.Rng) ([]string, []string) {
		return []string{libInput(rr, tg)}, []string{libInput(rr, te)}
	}
	// a second input vector: every program of the class runs on two input pairs
	p.Alt = [][2][]string{{{libInput(r, tg)}, {libInput(r, te)}}}
	return p
}

func resTyScalar(t libTy) string {
	switch {
	case t.kind == "bool":
		return "bool"
	case t.bits == 0 && t.kind == "i":
		return "int"
	case t.bits == 0:
		return "uint"
	}
	return scalarTyText(t.kind == "i", t.bits)
}

func maxInt(a, b int) int {
	if a > b {
		return a
	}
	return b
}

// ssaCost: a deterministic estimate of the number of gates of a compiled
// program (sum over its steps), the cost guard of class lib: the library has
// functions of hundreds of millions of gates (P-256 point addition).
func ssaCost(sp *ssa.Program) int {
	cost := 0
	for i := range sp.Steps {
		in := &sp.Steps[i].Instr
		ib := 0
		for _, v := range in.In {
			if int(v.Type.Bits) > ib {
				ib = int(v.Type.Bits)
			}
		}
		ob := 0
		if in.Out != nil {
			ob = int(in.Out.Type.Bits)
		}
		switch in.Op {
		case ssa.Umult, ssa.Imult:
			cost += ib * ib
		case ssa.Udiv, ssa.Idiv, ssa.Umod, ssa.Imod:
			cost += 3 * ib * ib
		case ssa.Index:
			cost += 4*int(in.In[0].Type.Bits) + ob
		case ssa.Circ:
			if in.Circ != nil {
				cost += in.Circ.NumGates
			}
		case ssa.Builtin:
			cost += 8 * ib
		case ssa.Mov, ssa.Smov, ssa.Amov, ssa.Slice, ssa.Concat, ssa.Lshift, ssa.Rshift, ssa.Srshift, ssa.GC, ssa.Ret:
		default:
			cost += 2 * maxInt(ib, ob)
		}
		if cost > 1<<40 {
			break
		}
	}
	return cost
}

package main

import (
	"crypto/sha256"
	"flag"
	"fmt"
	"math/big"

	"github.com/markkurossi/mpc/circuit"

	"verifharness/hxlib"
)

func leBig(b []byte) *big.Int {
	rev := make([]byte, len(b))
	for i := range b {
		rev[len(b)-1-i] = b[i]
	}
	return new(big.Int).SetBytes(rev)
}

func bitsLE(b []byte) []bool {
	out := make([]bool, 8*len(b))
	for i := range out {
		out[i] = b[i/8]&(1<<uint(i%8)) != 0
	}
	return out
}

func packLE(bits []bool) []byte {
	out := make([]byte, (len(bits)+7)/8)
	for i, b := range bits {
		if b {
			out[i/8] |= 1 << uint(i%8)
		}
	}
	return out
}

// computeDigest evaluates the circuit with the library's plain evaluator.
func computeDigest(c *circuit.Circuit, a, b [32]byte) (res []byte, err error) {
	defer func() {
		if e := recover(); e != nil {
			err = fmt.Errorf("panic: %v", e)
		}
	}()
	outs, err := c.Compute([]*big.Int{leBig(a[:]), leBig(b[:])})
	if err != nil {
		return nil, err
	}
	var bits []bool
	for k, io := range c.Outputs {
		for i := 0; i < int(io.Type.Bits); i++ {
			bits = append(bits, outs[k].Bit(i) == 1)
		}
	}
	return packLE(bits), nil
}

// circuitMode validates (does not prove) that the embedded circuit computes
// SHA-256(a xor b): Circuit.Compute, the harness's reference evaluator and the
// Lean evaluator (through the `cfull`/`ceval` ops) against crypto/sha256.
func circuitMode(args []string) int {
	var repo string
	cf, o := hxlib.ParseCommon("c18 circuit", args, func(fs *flag.FlagSet) {
		fs.StringVar(&repo, "repo", "/repo", "repository tree")
	})
	defer o.Close()
	rng := hxlib.NewRng(cf.Seed)
	c, err := loadCircuit(repo)
	if err != nil {
		failK(o, "c18-harness", map[string]any{"err": err.Error()})
		return 0
	}
	// shape the protocol code relies on (params.go init)
	shapeOK := len(c.Inputs) == 2 && int(c.Inputs[0].Type.Bits) == 256 && int(c.Inputs[1].Type.Bits) == 256 &&
		c.Outputs.Size() == 256 && c.NumParties() == 2
	if !shapeOK {
		failK(o, "c18-circuit-shape", map[string]any{"inputs": fmt.Sprint(c.Inputs), "outputs": fmt.Sprint(c.Outputs)})
	}
	// well-formedness in the sense of Model/Circuit.lean, recomputed here
	def := make([]bool, c.NumWires)
	nin := c.Inputs.Size()
	for i := 0; i < nin; i++ {
		def[i] = true
	}
	wf := nin <= c.NumWires && c.Outputs.Size() <= c.NumWires
	for _, g := range c.Gates {
		ok := int(g.Input0) < c.NumWires && def[g.Input0] && int(g.Output) < c.NumWires && int(g.Output) >= nin
		if g.Op != circuit.INV {
			ok = ok && int(g.Input1) < c.NumWires && def[g.Input1]
		}
		wf = wf && ok
		if int(g.Output) < c.NumWires {
			def[g.Output] = true
		}
	}
	outdef := true
	for i := 0; i < c.Outputs.Size(); i++ {
		outdef = outdef && def[c.NumWires-c.Outputs.Size()+i]
	}
	b2i := func(b bool) int {
		if b {
			return 1
		}
		return 0
	}
	o.Op("cfull "+hxlib.CircLine(c), fmt.Sprintf("cfull gates=%d wf=%d outdef=%d", len(c.Gates), b2i(wf), b2i(outdef)))
	if !wf || !outdef {
		failK(o, "c18-circuit-not-wf", map[string]any{"wf": wf, "outdef": outdef})
	}
	o.Meta["circuit"] = map[string]any{"gates": len(c.Gates), "wires": c.NumWires, "stats": fmt.Sprint(c.Stats)}
	for k := 0; k < cf.N; k++ {
		r := rng.Fork()
		if cf.Only >= 0 && k != cf.Only {
			continue
		}
		var a, b [32]byte
		switch {
		case k < 12:
			a, b = inputPair(r, k)
		case k%5 == 0: // one bit set in a xor b
			bit := r.Intn(256)
			copy(a[:], r.Bytes(32))
			b = a
			b[bit/8] ^= 1 << uint(bit%8)
		case k%5 == 1: // low-weight
			a[r.Intn(32)] = byte(r.Intn(256))
			b[r.Intn(32)] = byte(r.Intn(256))
		default:
			copy(a[:], r.Bytes(32))
			copy(b[:], r.Bytes(32))
		}
		var x [32]byte
		for i := range x {
			x[i] = a[i] ^ b[i]
		}
		want := sha256.Sum256(x[:])
		got, err := computeDigest(c, a, b)
		res := "compute-error"
		if err == nil {
			res = hxlib.Hex(got)
		}
		o.Op(fmt.Sprintf("ceval %s %s", hxlib.Hex(a[:]), hxlib.Hex(b[:])), res)
		o.Count("circuit_inputs")
		ref := hxlib.RefEval(c, append(bitsLE(a[:]), bitsLE(b[:])...))
		refOut := packLE(ref[c.NumWires-256:])
		if err != nil || hxlib.Hex(got) != hxlib.Hex(want[:]) || hxlib.Hex(refOut) != hxlib.Hex(want[:]) {
			failK(o, "c18-circuit-not-sha256-xor", map[string]any{"case": k, "a": hxlib.Hex(a[:]), "b": hxlib.Hex(b[:]),
				"compute": res, "ref": hxlib.Hex(refOut), "want": hxlib.Hex(want[:]),
				"rerun": fmt.Sprintf("go run -tags verif ./cmd/c18 circuit -repo %s -seed %d -n %d -only %d", repo, cf.Seed, cf.N, k)})
		}
	}
	return 0
}
